(* C01Q -- proofs about the quasi-Newton algebra of C01Q_Defs, over ANY field with Leibniz equality (section hypothesis
   [Fth : field_theory ...]) and, for the positivity results, any ordered field (positive cone [pos]).
   Instances at the end: the canonical rationals Qc (the extracted model) and R.

   Method: every matrix is only observed through its action [mv M v] and the inner product [dot]; the lemmas mv_* / dot_*
   push both through the matrix expressions of quasi.cpp, so that each theorem reduces to an identity between polynomials in
   the scalars  a.b  and  a.(H b)  closed by [ring] / [field].  Lists are total (a missing entry reads as 0), which keeps
   the algebra free of dimension side conditions except where the identity matrix is involved. *)
From Coq Require Import List ZArith Bool Lia Field Ring Arith.
From LNGen Require Import Src_c01q.
From LN Require Import C01Q_Defs.
Import ListNotations.

Section Algebra.
  Variable F : Type.
  Variable FO : fops F.
  Local Notation "0" := (f0 FO).
  Local Notation "1" := (f1 FO).
  Local Infix "+" := (fadd FO).
  Local Infix "*" := (fmul FO).
  Local Infix "-" := (fsub FO).
  Local Infix "/" := (fdiv FO).
  Local Notation "- x" := (fopp FO x).
  Local Notation "/ x" := (finv FO x).
  Hypothesis Fth : field_theory 0 1 (fadd FO) (fmul FO) (fsub FO) (fopp FO) (fdiv FO) (finv FO) (@eq F).
  Add Field Ffield : Fth.

  Local Notation dot := (dot FO).
  Local Notation vadd := (vadd FO).
  Local Notation vsub := (vsub FO).
  Local Notation vscale := (vscale FO).
  Local Notation vdivs := (vdivs FO).
  Local Notation vopp := (vopp FO).
  Local Notation mv := (mv FO).
  Local Notation vm := (vm FO).
  Local Notation mmul := (mmul FO).
  Local Notation madd := (madd FO).
  Local Notation msub := (msub FO).
  Local Notation mscale := (mscale FO).
  Local Notation mmuls := (mmuls FO).
  Local Notation mdivs := (mdivs FO).
  Local Notation outer := (outer FO).
  Local Notation zeros := (zeros FO).
  Local Notation identity := (identity FO).

  Lemma div_def a b : a / b = a * / b.
  Proof. apply (Fdiv_def Fth). Qed.

  (* ---- dot ----------------------------------------------------------------------------------------------------- *)
  Lemma dot_nil_r a : dot a [] = 0.
  Proof. destruct a; reflexivity. Qed.

  Lemma dot_comm : forall a b, dot a b = dot b a.
  Proof. induction a as [|x a IH]; intros [|y b]; simpl; try reflexivity. rewrite IH. ring. Qed.

  Lemma dot_vadd_l : forall a b c, dot (vadd a b) c = dot a c + dot b c.
  Proof.
    induction a as [|x a IH]; intros [|y b] [|z c]; simpl; try ring.
    rewrite IH. ring.
  Qed.
  Lemma dot_vopp_l : forall a c, dot (vopp a) c = - dot a c.
  Proof. induction a as [|x a IH]; intros [|z c]; simpl; try ring. rewrite IH. ring. Qed.
  Lemma dot_vsub_l : forall a b c, dot (vsub a b) c = dot a c - dot b c.
  Proof.
    induction a as [|x a IH]; intros [|y b] [|z c]; simpl; try ring.
    - fold (vopp b). rewrite dot_vopp_l. ring.
    - rewrite IH. ring.
  Qed.
  Lemma dot_vscale_l : forall k a c, dot (vscale k a) c = k * dot a c.
  Proof. intros k. induction a as [|x a IH]; intros [|z c]; simpl; try ring. rewrite IH. ring. Qed.
  Lemma dot_vdivs_l : forall k a c, dot (vdivs a k) c = dot a c * / k.
  Proof. intros k. induction a as [|x a IH]; intros [|z c]; simpl; try ring. rewrite IH, div_def. ring. Qed.
  Lemma dot_vadd_r a b c : dot c (vadd a b) = dot c a + dot c b.
  Proof. rewrite dot_comm, dot_vadd_l, (dot_comm a), (dot_comm b). reflexivity. Qed.
  Lemma dot_vsub_r a b c : dot c (vsub a b) = dot c a - dot c b.
  Proof. rewrite dot_comm, dot_vsub_l, (dot_comm a), (dot_comm b). reflexivity. Qed.
  Lemma dot_vscale_r k a c : dot c (vscale k a) = k * dot c a.
  Proof. rewrite dot_comm, dot_vscale_l, (dot_comm a). reflexivity. Qed.
  Lemma dot_vdivs_r k a c : dot c (vdivs a k) = dot c a * / k.
  Proof. rewrite dot_comm, dot_vdivs_l, (dot_comm a). reflexivity. Qed.
  Lemma dot_vopp_r a c : dot c (vopp a) = - dot c a.
  Proof. rewrite dot_comm, dot_vopp_l, (dot_comm a). reflexivity. Qed.
  Lemma dot_zeros_l : forall n a, dot (zeros n) a = 0.
  Proof. induction n as [|n IH]; intros [|x a]; simpl; try reflexivity. unfold C01Q_Defs.zeros in IH. rewrite IH. ring. Qed.
  Lemma dot_zeros_r n a : dot a (zeros n) = 0.
  Proof. rewrite dot_comm. apply dot_zeros_l. Qed.

  (* ---- lengths --------------------------------------------------------------------------------------------------- *)
  Lemma length_vadd : forall a b, length (vadd a b) = Nat.max (length a) (length b).
  Proof. induction a as [|x a IH]; intros [|y b]; simpl; try reflexivity. rewrite IH. reflexivity. Qed.
  Lemma length_vsub : forall a b, length (vsub a b) = Nat.max (length a) (length b).
  Proof. induction a as [|x a IH]; intros [|y b]; simpl; try reflexivity; [rewrite map_length|rewrite IH]; reflexivity. Qed.
  Lemma length_vscale k a : length (vscale k a) = length a.
  Proof. apply map_length. Qed.
  Lemma length_vdivs k a : length (vdivs a k) = length a.
  Proof. apply map_length. Qed.
  Lemma length_vopp a : length (vopp a) = length a.
  Proof. apply map_length. Qed.
  Lemma length_mv M v : length (mv M v) = length M.
  Proof. apply map_length. Qed.
  Lemma length_madd : forall A B, length (madd A B) = Nat.max (length A) (length B).
  Proof. induction A as [|x A IH]; intros [|y B]; simpl; try reflexivity. rewrite IH. reflexivity. Qed.
  Lemma length_msub : forall A B, length (msub A B) = Nat.max (length A) (length B).
  Proof. induction A as [|x A IH]; intros [|y B]; simpl; try reflexivity; [rewrite map_length|rewrite IH]; reflexivity. Qed.
  Lemma length_mmul A B : length (mmul A B) = length A.
  Proof. apply map_length. Qed.
  Lemma length_mscale k A : length (mscale k A) = length A.
  Proof. apply map_length. Qed.
  Lemma length_mdivs k A : length (mdivs A k) = length A.
  Proof. apply map_length. Qed.
  Lemma length_mmuls k A : length (mmuls A k) = length A.
  Proof. apply map_length. Qed.
  Lemma length_outer a b : length (outer a b) = length a.
  Proof. apply map_length. Qed.
  Lemma length_zeros n : length (zeros n) = n.
  Proof. apply repeat_length. Qed.
  Lemma length_identity : forall n, length (identity n) = n.
  Proof. induction n as [|n IH]; simpl; [reflexivity|]. rewrite map_length, IH. reflexivity. Qed.

  (* ---- vectors are determined by their inner products ----------------------------------------------------------- *)
  Lemma vec_ext : forall u v, length u = length v -> (forall w, dot w u = dot w v) -> u = v.
  Proof.
    induction u as [|x u IH]; intros [|y v] L E; simpl in L; try discriminate; [reflexivity|].
    f_equal.
    - specialize (E [1]). simpl in E. assert (A : 1 * x + 0 = x) by ring. assert (B : 1 * y + 0 = y) by ring. congruence.
    - apply IH; [lia|]. intros w. specialize (E (0 :: w)). simpl in E.
      assert (A : 0 * x + dot w u = dot w u) by ring. assert (B : 0 * y + dot w v = dot w v) by ring. congruence.
  Qed.

  (* ---- the action of the matrix expressions ----------------------------------------------------------------------- *)
  Lemma vadd_map {A} (f g : A -> F) : forall l, vadd (map f l) (map g l) = map (fun r => f r + g r) l.
  Proof. induction l as [|r l IH]; simpl; [reflexivity|]. rewrite IH. reflexivity. Qed.
  Lemma vsub_map {A} (f g : A -> F) : forall l, vsub (map f l) (map g l) = map (fun r => f r - g r) l.
  Proof. induction l as [|r l IH]; simpl; [reflexivity|]. rewrite IH. reflexivity. Qed.

  Lemma mv_vadd M a b : mv M (vadd a b) = vadd (mv M a) (mv M b).
  Proof. unfold C01Q_Defs.mv. rewrite vadd_map. apply map_ext. intros r. apply dot_vadd_r. Qed.
  Lemma mv_vsub M a b : mv M (vsub a b) = vsub (mv M a) (mv M b).
  Proof. unfold C01Q_Defs.mv. rewrite vsub_map. apply map_ext. intros r. apply dot_vsub_r. Qed.
  Lemma mv_vscale M k a : mv M (vscale k a) = vscale k (mv M a).
  Proof. unfold C01Q_Defs.mv, C01Q_Defs.vscale. rewrite map_map. apply map_ext. intros r. apply dot_vscale_r. Qed.
  Lemma mv_vdivs M k a : mv M (vdivs a k) = vdivs (mv M a) k.
  Proof.
    unfold C01Q_Defs.mv, C01Q_Defs.vdivs. rewrite map_map. apply map_ext. intros r.
    fold (vdivs a k). rewrite dot_vdivs_r, div_def. reflexivity.
  Qed.

  Lemma mv_madd : forall A B v, mv (madd A B) v = vadd (mv A v) (mv B v).
  Proof. induction A as [|a A IH]; intros [|b B] v; simpl; try reflexivity. rewrite IH, dot_vadd_l. reflexivity. Qed.
  Lemma mv_msub : forall A B v, mv (msub A B) v = vsub (mv A v) (mv B v).
  Proof.
    induction A as [|a A IH]; intros [|b B] v; simpl; try reflexivity.
    - f_equal; [apply dot_vopp_l|]. unfold C01Q_Defs.mv. rewrite !map_map. apply map_ext. intros r. apply dot_vopp_l.
    - rewrite IH, dot_vsub_l. reflexivity.
  Qed.
  Lemma mv_mscale k A v : mv (mscale k A) v = vscale k (mv A v).
  Proof.
    unfold C01Q_Defs.mv, C01Q_Defs.mscale. rewrite map_map. unfold C01Q_Defs.vscale at 2. rewrite map_map.
    apply map_ext. intros r. apply dot_vscale_l.
  Qed.
  Lemma mv_mdivs k A v : mv (mdivs A k) v = vdivs (mv A v) k.
  Proof.
    unfold C01Q_Defs.mv, C01Q_Defs.mdivs. rewrite map_map. unfold C01Q_Defs.vdivs at 2. rewrite map_map.
    apply map_ext. intros r. rewrite dot_vdivs_l, div_def. reflexivity.
  Qed.
  Lemma mv_mmuls k A v : mv (mmuls A k) v = vscale k (mv A v).
  Proof.
    unfold C01Q_Defs.mv, C01Q_Defs.mmuls. rewrite map_map. unfold C01Q_Defs.vscale. rewrite map_map.
    apply map_ext. intros r. revert v. induction r as [|x r IH]; intros [|z v]; simpl; try ring. rewrite IH. ring.
  Qed.
  Lemma mv_outer a b v : mv (outer a b) v = vscale (dot b v) a.
  Proof.
    unfold C01Q_Defs.mv, C01Q_Defs.outer. rewrite map_map. unfold C01Q_Defs.vscale at 2.
    apply map_ext. intros x. rewrite dot_vscale_l. ring.
  Qed.
  Lemma dot_vm : forall r B v, dot (vm r B) v = dot r (mv B v).
  Proof.
    induction r as [|x r IH]; intros [|b B] v; simpl; try reflexivity.
    rewrite dot_vadd_l, dot_vscale_l, IH. reflexivity.
  Qed.
  Lemma mv_mmul A B v : mv (mmul A B) v = mv A (mv B v).
  Proof. unfold C01Q_Defs.mv at 1 3, C01Q_Defs.mmul. rewrite map_map. apply map_ext. intros r. apply dot_vm. Qed.
  Lemma mv_identity : forall n v, length v = n -> mv (identity n) v = v.
  Proof.
    induction n as [|n IH]; intros [|x v] L; simpl in L; try discriminate; [reflexivity|].
    specialize (IH v). unfold C01Q_Defs.mv in *. simpl. f_equal.
    - fold (zeros n). rewrite dot_zeros_l. ring.
    - rewrite map_map. transitivity (map (fun r => dot r v) (identity n)); [|apply IH; lia].
      apply map_ext. intros r. simpl. ring.
  Qed.
  Lemma mv_nil_r M : mv M [] = zeros (length M).
  Proof. induction M as [|r M IH]; simpl; [reflexivity|]. rewrite dot_nil_r. unfold C01Q_Defs.zeros. simpl. f_equal. exact IH. Qed.

  (* ---- the updates, through their action --------------------------------------------------------------------------- *)
  Definition sy_ (s y : list F) := dot s y.

  (* BFGS:  H+ v = u - s (y.u)/sy + s (s.v)/sy  with  u = H (v - y (s.v)/sy) *)
  Lemma bfgs_mv H s y v : length v = length H ->
    mv (bfgs FO H s y) v =
    let sy := dot s y in
    let u := mv H (vsub v (vdivs (vscale (dot s v) y) sy)) in
    vadd (vsub u (vdivs (vscale (dot y u) s) sy)) (vdivs (vscale (dot s v) s) sy).
  Proof.
    intros L. unfold bfgs. cbv zeta.
    rewrite mv_madd, !mv_mmul, !mv_msub, !mv_mdivs, !mv_outer.
    rewrite (mv_identity (length H) v L).
    rewrite mv_identity by (rewrite length_mv; reflexivity).
    reflexivity.
  Qed.
  (* DFP:  H+ v = H v + s (s.v)/sy - (H y) (y.(H v)) / (y.(H y)) *)
  Lemma dfp_mv H s y v :
    mv (dfp FO H s y) v =
    vsub (vadd (mv H v) (vdivs (vscale (dot s v) s) (dot s y)))
         (vdivs (vscale (dot y (mv H v)) (mv H y)) (dot y (mv H y))).
  Proof. unfold dfp. rewrite mv_msub, mv_madd, !mv_mdivs, mv_mmul, !mv_outer, dot_vm. reflexivity. Qed.
  (* SR1:  H+ v = H v + w (w.v)/(w.y)  with  w = s - H y *)
  Lemma sr1_mv H s y v :
    mv (sr1_plain FO H s y) v =
    let w := vsub s (mv H y) in vadd (mv H v) (vdivs (vscale (dot w v) w) (dot w y)).
  Proof. unfold sr1_plain. cbv zeta. rewrite mv_madd, mv_mdivs, mv_outer. reflexivity. Qed.
  Lemma broyden_mv phi H s y v :
    mv (broyden FO phi H s y) v = vadd (vscale (1 - phi) (mv (dfp FO H s y) v)) (vscale phi (mv (bfgs FO H s y) v)).
  Proof. unfold broyden. rewrite mv_madd, !mv_mscale. reflexivity. Qed.
  Lemma scaled_mv n s y v : length v = n -> mv (scaled_identity FO n s y) v = vscale (dot s y / dot y y) v.
  Proof.
    intros L. unfold scaled_identity. rewrite mv_mdivs, mv_mmuls, (mv_identity n v L).
    unfold C01Q_Defs.vdivs, C01Q_Defs.vscale. rewrite map_map. apply map_ext. intros x. rewrite !div_def. ring.
  Qed.

  Lemma length_bfgs H s y : length s = length H -> length (bfgs FO H s y) = length H.
  Proof.
    intros L. unfold bfgs. cbv zeta.
    rewrite length_madd, !length_mmul, length_msub, !length_mdivs, !length_outer, length_identity. lia.
  Qed.
  Lemma length_dfp H s y : length s = length H -> length (dfp FO H s y) = length H.
  Proof.
    intros L. unfold dfp.
    rewrite length_msub, length_madd, !length_mdivs, length_mmul, !length_outer, length_mv. lia.
  Qed.
  Lemma length_sr1 H s y : length s = length H -> length (sr1_plain FO H s y) = length H.
  Proof.
    intros L. unfold sr1_plain. cbv zeta.
    rewrite length_madd, length_mdivs, length_outer, length_vsub, length_mv. lia.
  Qed.
  Lemma length_broyden phi H s y : length s = length H -> length (broyden FO phi H s y) = length H.
  Proof.
    intros L. unfold broyden. rewrite length_madd, !length_mscale, length_bfgs, length_dfp by exact L. lia.
  Qed.

  (* the scalars every statement reduces to *)
  Ltac expand :=
    cbv zeta;
    repeat (rewrite ?mv_vadd, ?mv_vsub, ?mv_vscale, ?mv_vdivs, ?dot_vadd_r, ?dot_vsub_r, ?dot_vscale_r, ?dot_vdivs_r,
            ?dot_vadd_l, ?dot_vsub_l, ?dot_vscale_l, ?dot_vdivs_l, ?dot_vopp_r, ?dot_vopp_l).

  (* ---- secant equations ---------------------------------------------------------------------------------------------- *)
  Lemma secant_bfgs H s y : length s = length H -> length y = length H -> dot s y <> 0 -> mv (bfgs FO H s y) y = s.
  Proof.
    intros Ls Ly N. apply vec_ext; [rewrite length_mv, length_bfgs; auto|].
    intros w. rewrite bfgs_mv by exact Ly. expand. rewrite ?div_def.
    set (a := dot w (mv H y)). set (b := dot y (mv H y)). set (c := dot w s). field. exact N.
  Qed.
  Lemma secant_dfp H s y : length s = length H -> dot s y <> 0 -> dot y (mv H y) <> 0 -> mv (dfp FO H s y) y = s.
  Proof.
    intros Ls N1 N2. apply vec_ext; [rewrite length_mv, length_dfp; auto|].
    intros w. rewrite dfp_mv. expand. rewrite ?div_def.
    set (a := dot w (mv H y)) in *. set (b := dot y (mv H y)) in *. set (c := dot w s). field. split; assumption.
  Qed.
  Lemma secant_sr1 H s y : length s = length H -> dot (vsub s (mv H y)) y <> 0 -> mv (sr1_plain FO H s y) y = s.
  Proof.
    intros Ls N. apply vec_ext; [rewrite length_mv, length_sr1; auto|].
    intros w. rewrite sr1_mv. revert N. expand. rewrite ?div_def. intros N.
    set (a := dot w (mv H y)) in *. set (b := dot (mv H y) y) in *. set (c := dot w s). field. exact N.
  Qed.
  Lemma secant_broyden phi H s y :
    length s = length H -> length y = length H -> dot s y <> 0 -> dot y (mv H y) <> 0 -> mv (broyden FO phi H s y) y = s.
  Proof.
    intros Ls Ly N1 N2. rewrite broyden_mv, secant_dfp, secant_bfgs by assumption.
    apply vec_ext; [rewrite length_vadd, !length_vscale; lia|]. intros w. expand. ring.
  Qed.

  (* ---- symmetry (as a bilinear form on vectors of the matrix' dimension) ----------------------------------------- *)
  Definition msym (n : nat) (H : mat F) : Prop :=
    forall a b, length a = n -> length b = n -> dot a (mv H b) = dot b (mv H a).

  Lemma msym_bfgs H s y : length y = length H -> msym (length H) H -> msym (length H) (bfgs FO H s y).
  Proof.
    intros Ly S a b La Lb. rewrite !bfgs_mv by congruence. expand. rewrite ?div_def.
    rewrite (S b a Lb La), (S y a Ly La), (S y b Ly Lb), (dot_comm a s), (dot_comm b s). ring.
  Qed.
  Lemma msym_dfp H s y : length y = length H -> msym (length H) H -> msym (length H) (dfp FO H s y).
  Proof.
    intros Ly S a b La Lb. rewrite !dfp_mv. expand. rewrite ?div_def.
    rewrite (S b a Lb La), (S y a Ly La), (S y b Ly Lb), (dot_comm a s), (dot_comm b s). ring.
  Qed.
  Lemma msym_sr1 H s y : length y = length H -> msym (length H) H -> msym (length H) (sr1_plain FO H s y).
  Proof.
    intros Ly S a b La Lb. rewrite !sr1_mv. expand. rewrite ?div_def.
    rewrite (S b a Lb La), (dot_comm (mv H y) a), (dot_comm (mv H y) b), (dot_comm a s), (dot_comm b s). ring.
  Qed.
  Lemma msym_broyden phi H s y : length y = length H -> msym (length H) H -> msym (length H) (broyden FO phi H s y).
  Proof.
    intros Ly S a b La Lb. rewrite !broyden_mv. expand.
    rewrite (msym_bfgs H s y Ly S a b La Lb), (msym_dfp H s y Ly S a b La Lb). reflexivity.
  Qed.
  Lemma msym_sr1_safeguarded r H s y : length y = length H -> msym (length H) H -> msym (length H) (sr1 FO r H s y).
  Proof. intros Ly S. unfold sr1. destruct (sr1_apply FO r H s y); [apply msym_sr1; assumption|exact S]. Qed.
  Lemma msym_fletcher H s y : length y = length H -> msym (length H) H -> msym (length H) (fletcher FO H s y).
  Proof.
    intros Ly S. unfold fletcher. cbv zeta.
    destruct (phi_lt0 FO _); [apply msym_dfp; assumption|].
    destruct (phi_gt1 FO _); [apply msym_bfgs; assumption|apply msym_sr1; assumption].
  Qed.

  (* the bilinear form reads the entries: symmetric form => symmetric entries *)
  Definition entry (H : mat F) (i j : nat) : F := nth j (nth i H []) 0.
  Definition unit (n i : nat) : vec F := zeros i ++ 1 :: zeros (n - S i).
  Lemma length_unit n i : (i < n)%nat -> length (unit n i) = n.
  Proof. intros L. unfold unit. rewrite app_length. simpl. rewrite !length_zeros. lia. Qed.
  Lemma dot_unit_tail m1 m2 : forall i u, dot (zeros i ++ 1 :: zeros m1) u = dot (zeros i ++ 1 :: zeros m2) u.
  Proof.
    induction i as [|i IH]; intros [|x u]; simpl; try reflexivity.
    - rewrite !dot_zeros_l. reflexivity.
    - unfold C01Q_Defs.zeros in *. rewrite (IH u). reflexivity.
  Qed.
  Lemma dot_unit_l n : forall i v, dot (unit n i) v = nth i v 0.
  Proof.
    unfold unit. induction i as [|i IH]; intros [|x v]; simpl; try reflexivity.
    - rewrite dot_zeros_l. ring.
    - rewrite <- IH. pose proof (dot_unit_tail (n - S (S i))%nat (n - S i)%nat i v) as T.
      unfold C01Q_Defs.zeros in *. rewrite T. ring.
  Qed.
  Lemma nth_map_default (f : list F -> F) l i : f [] = 0 -> nth i (map f l) 0 = f (nth i l []).
  Proof. intros E. rewrite <- E at 1. apply map_nth. Qed.
  Lemma form_entry n H i j : dot (unit n i) (mv H (unit n j)) = entry H i j.
  Proof.
    rewrite dot_unit_l. unfold C01Q_Defs.mv, entry.
    rewrite (nth_map_default (fun r => dot r (unit n j))) by reflexivity.
    rewrite dot_comm. apply dot_unit_l.
  Qed.
  Lemma msym_entries n H : msym n H -> forall i j, (i < n)%nat -> (j < n)%nat -> entry H i j = entry H j i.
  Proof. intros S i j Li Lj. rewrite <- !(form_entry n). apply S; apply length_unit; assumption. Qed.

  (* ---- ordered field: positive cone ---------------------------------------------------------------------------------- *)
  Variable pos : F -> Prop.
  Hypothesis pos_add : forall a b, pos a -> pos b -> pos (a + b).
  Hypothesis pos_mul : forall a b, pos a -> pos b -> pos (a * b).
  Hypothesis pos_cases : forall a, a = 0 \/ pos a \/ pos (- a).
  Hypothesis pos_0 : ~ pos 0.

  Definition nonneg (a : F) : Prop := a = 0 \/ pos a.

  Lemma pos_nz a : pos a -> a <> 0.
  Proof. intros P E. subst. exact (pos_0 P). Qed.
  Lemma pos_asym a : pos a -> pos (- a) -> False.
  Proof. intros P N. apply pos_0. replace 0 with (a + - a) by ring. apply pos_add; assumption. Qed.
  Lemma eq0_dec a : a = 0 \/ a <> 0.
  Proof.
    destruct (pos_cases a) as [E|[P|N]]; [left; exact E|right; apply pos_nz; exact P|].
    right. intros E. subst. apply pos_0. replace 0 with (fopp FO 0) by ring. exact N.
  Qed.
  Lemma pos_sq a : a <> 0 -> pos (a * a).
  Proof.
    intros N. destruct (pos_cases a) as [E|[P|M]]; [contradiction|apply pos_mul; assumption|].
    replace (a * a) with (- a * - a) by ring. apply pos_mul; assumption.
  Qed.
  Lemma pos_1 : pos 1.
  Proof. replace 1 with (1 * 1) by ring. apply pos_sq. exact (F_1_neq_0 Fth). Qed.
  Lemma pos_inv a : pos a -> pos (/ a).
  Proof.
    intros P. pose proof (pos_nz a P) as N.
    assert (I : / a * a = 1) by (field; exact N).
    destruct (pos_cases (/ a)) as [E|[Q|M]]; [|exact Q|].
    - rewrite E in I. exfalso. apply (F_1_neq_0 Fth). rewrite <- I. ring.
    - exfalso. apply (pos_asym 1 pos_1). replace (fopp FO 1) with (- / a * a) by (rewrite <- I; ring). apply pos_mul; assumption.
  Qed.
  Lemma nonneg_sq a : nonneg (a * a).
  Proof. destruct (eq0_dec a) as [E|N]; [left; subst; ring|right; apply pos_sq; exact N]. Qed.
  Lemma nonneg_add a b : nonneg a -> nonneg b -> nonneg (a + b).
  Proof.
    intros [A|A] [B|B]; subst.
    - left. ring.
    - right. replace (0 + b) with b by ring. exact B.
    - right. replace (a + 0) with a by ring. exact A.
    - right. apply pos_add; assumption.
  Qed.
  Lemma pos_add_nonneg a b : pos a -> nonneg b -> pos (a + b).
  Proof. intros A [B|B]; [subst; replace (a + 0) with a by ring; exact A|apply pos_add; assumption]. Qed.
  Lemma nonneg_add_pos a b : nonneg a -> pos b -> pos (a + b).
  Proof. intros A B. replace (a + b) with (b + a) by ring. apply pos_add_nonneg; assumption. Qed.
  Lemma nonneg_mul_pos a b : nonneg a -> pos b -> nonneg (a * b).
  Proof. intros [A|A] B; [left; subst; ring|right; apply pos_mul; assumption]. Qed.
  Lemma mul_eq0 a b : a * b = 0 -> b <> 0 -> a = 0.
  Proof. intros E N. replace a with (a * b * / b) by (field; exact N). rewrite E. ring. Qed.

  Lemma dot_self_nonneg : forall z, nonneg (dot z z).
  Proof. induction z as [|x z IH]; simpl; [left; reflexivity|]. apply nonneg_add; [apply nonneg_sq|exact IH]. Qed.
  Lemma vec_zero_dec : forall z, z = zeros (length z) \/ z <> zeros (length z).
  Proof.
    induction z as [|x z IH]; [left; reflexivity|]. simpl. unfold C01Q_Defs.zeros in *. simpl.
    destruct (eq0_dec x) as [E|N]; [|right; intros C; inversion C; contradiction].
    destruct IH as [Z|Z]; [left; subst x; f_equal; exact Z|right; intros C; inversion C; contradiction].
  Qed.
  Lemma dot_self_pos : forall z, z <> zeros (length z) -> pos (dot z z).
  Proof.
    induction z as [|x z IH]; intros N; [exfalso; apply N; reflexivity|]. simpl.
    destruct (eq0_dec x) as [E|X].
    - apply nonneg_add_pos; [apply nonneg_sq|]. apply IH. intros C. apply N. simpl. unfold C01Q_Defs.zeros in *. simpl.
      subst x. f_equal. exact C.
    - apply pos_add_nonneg; [apply pos_sq; exact X|apply dot_self_nonneg].
  Qed.
  Lemma dot_nz_r s y : dot s y <> 0 -> y <> zeros (length y).
  Proof. intros N E. apply N. rewrite E. apply dot_zeros_r. Qed.

  (* ---- positive definiteness ----------------------------------------------------------------------------------------- *)
  Definition pd (n : nat) (H : mat F) : Prop :=
    forall z, length z = n -> z <> zeros n -> pos (dot z (mv H z)).

  Lemma pd_nonneg n H : pd n H -> forall z, length z = n -> nonneg (dot z (mv H z)).
  Proof.
    intros P z L. destruct (vec_zero_dec z) as [Z|Z]; rewrite L in Z.
    - left. rewrite Z at 1. apply dot_zeros_l.
    - right. apply P; assumption.
  Qed.

  Lemma pd_bfgs n H s y :
    length H = n -> length s = n -> length y = n -> pd n H -> pos (dot s y) -> pd n (bfgs FO H s y).
  Proof.
    intros LH Ls Ly P SY z Lz Nz. pose proof (pos_nz _ SY) as N.
    set (c := dot s z).
    set (w := vsub z (vdivs (vscale c y) (dot s y))).
    assert (Lw : length w = n).
    { unfold w. rewrite length_vsub, length_vdivs, length_vscale. lia. }
    assert (E : dot z (mv (bfgs FO H s y) z) = dot w (mv H w) + c * c * / dot s y).
    { rewrite bfgs_mv by congruence. unfold w, c. expand. rewrite ?div_def, (dot_comm z s). ring. }
    rewrite E. destruct (eq0_dec c) as [C0|CN].
    - assert (W : dot w (mv H w) = dot z (mv H z)).
      { unfold w. expand. rewrite ?div_def, C0. ring. }
      rewrite W, C0. replace (dot z (mv H z) + 0 * 0 * / dot s y) with (dot z (mv H z)) by ring. apply P; assumption.
    - apply nonneg_add_pos; [apply (pd_nonneg n H P w Lw)|].
      apply pos_mul; [apply pos_sq; exact CN|apply pos_inv; exact SY].
  Qed.

  Lemma pd_dfp n H s y :
    length H = n -> length s = n -> length y = n -> msym n H -> pd n H -> pos (dot s y) -> pd n (dfp FO H s y).
  Proof.
    intros LH Ls Ly S P SY z Lz Nz. pose proof (pos_nz _ SY) as N.
    assert (Ny : y <> zeros n) by (rewrite <- Ly; apply (dot_nz_r s); exact N).
    pose proof (P y Ly Ny) as D. pose proof (pos_nz _ D) as DN.
    set (a := dot z (mv H z)). set (b := dot z (mv H y)). set (d := dot y (mv H y)) in *. set (c := dot s z).
    set (w := vsub (vscale d z) (vscale b y)).
    assert (Lw : length w = n) by (unfold w; rewrite length_vsub, !length_vscale; lia).
    assert (Syz : dot y (mv H z) = b) by (apply S; assumption).
    assert (E : dot z (mv (dfp FO H s y) z) = (d * a - b * b) * / d + c * c * / dot s y).
    { rewrite dfp_mv. expand. rewrite ?div_def, (dot_comm z s), Syz. fold a b c d. field. split; assumption. }
    assert (W : dot w (mv H w) = d * (d * a - b * b)).
    { unfold w. expand. rewrite Syz. fold a b d. ring. }
    rewrite E. destruct (eq0_dec c) as [C0|CN].
    - rewrite C0. replace ((d * a - b * b) * / d + 0 * 0 * / dot s y) with ((d * a - b * b) * / d) by ring.
      destruct (vec_zero_dec w) as [Z|Z]; rewrite Lw in Z.
      + (* w = 0: then b = 0 (pair with s) and the form is z'Hz *)
        assert (B0 : b = 0).
        { assert (X : dot s w = 0) by (rewrite Z; apply dot_zeros_r).
          unfold w in X. revert X. expand. fold c. rewrite C0. intros X.
          apply (mul_eq0 b (dot s y)); [|exact N]. replace (b * dot s y) with (- (d * 0 - b * dot s y)) by ring.
          rewrite X. ring. }
        rewrite B0. replace ((d * a - 0 * 0) * / d) with a by (field; exact DN). apply P; assumption.
      + pose proof (P w Lw Z) as PW. rewrite W in PW.
        replace ((d * a - b * b) * / d) with (d * (d * a - b * b) * (/ d * / d)) by (field; exact DN).
        apply pos_mul; [exact PW|]. apply pos_mul; apply pos_inv; exact D.
    - apply nonneg_add_pos; [|apply pos_mul; [apply pos_sq; exact CN|apply pos_inv; exact SY]].
      pose proof (pd_nonneg n H P w Lw) as PW. rewrite W in PW.
      replace ((d * a - b * b) * / d) with (d * (d * a - b * b) * (/ d * / d)) by (field; exact DN).
      apply nonneg_mul_pos; [exact PW|]. apply pos_mul; apply pos_inv; exact D.
  Qed.

  Lemma pd_broyden n phi H s y :
    length H = n -> length s = n -> length y = n -> msym n H -> pd n H -> pos (dot s y) ->
    nonneg phi -> nonneg (1 - phi) -> pd n (broyden FO phi H s y).
  Proof.
    intros LH Ls Ly S P SY A B z Lz Nz. rewrite broyden_mv. expand.
    pose proof (pd_bfgs n H s y LH Ls Ly P SY z Lz Nz) as P2.
    pose proof (pd_dfp n H s y LH Ls Ly S P SY z Lz Nz) as P1.
    destruct A as [A|A].
    - rewrite A. replace ((1 - 0) * dot z (mv (dfp FO H s y) z) + 0 * dot z (mv (bfgs FO H s y) z))
        with (dot z (mv (dfp FO H s y) z)) by ring. exact P1.
    - apply nonneg_add_pos; [apply nonneg_mul_pos; assumption|apply pos_mul; assumption].
  Qed.

  Lemma pd_hoshino n H s y :
    length H = n -> length s = n -> length y = n -> msym n H -> pd n H -> pos (dot s y) -> pd n (hoshino FO H s y).
  Proof.
    intros LH Ls Ly S P SY. pose proof (pos_nz _ SY) as N.
    assert (Ny : y <> zeros n) by (rewrite <- Ly; apply (dot_nz_r s); exact N).
    pose proof (P y Ly Ny) as D.
    assert (T : pos (dot s y + dot y (mv H y))) by (apply pos_add; assumption).
    pose proof (pos_nz _ T) as TN.
    unfold hoshino, hoshino_phi. rewrite dot_vm, div_def.
    apply pd_broyden; try assumption.
    - right. apply pos_mul; [exact SY|apply pos_inv; exact T].
    - right. replace (1 - dot s y * / (dot s y + dot y (mv H y))) with (dot y (mv H y) * / (dot s y + dot y (mv H y)))
        by (field; exact TN).
      apply pos_mul; [exact D|apply pos_inv; exact T].
  Qed.

  (* the sign function of the instance and the translated comparisons *)
  Hypothesis fcmp_spec : forall a b,
    (fcmp FO a b = 1%Z /\ pos (a - b)) \/ (fcmp FO a b = 0%Z /\ a = b) \/ (fcmp FO a b = (-1)%Z /\ pos (b - a)).

  Lemma fcmp_refl a : fcmp FO a a = 0%Z.
  Proof.
    destruct (fcmp_spec a a) as [[_ Q]|[[E _]|[_ Q]]]; [|exact E|]; exfalso; apply pos_0;
      replace 0 with (a - a) by ring; exact Q.
  Qed.
  Lemma phi_lt0_spec phi : phi_lt0 FO phi = true <-> pos (- phi).
  Proof.
    unfold phi_lt0, src_fletcher_dfp. rewrite fcmp_refl.
    destruct (fcmp_spec phi 0) as [[E Q]|[[E Q]|[E Q]]]; rewrite E; simpl; split; intros X; try discriminate; try reflexivity.
    - exfalso. apply (pos_asym phi); [replace phi with (phi - 0) by ring; exact Q|exact X].
    - exfalso. subst phi. apply pos_0. replace 0 with (fopp FO 0) by ring. exact X.
    - replace (- phi) with (0 - phi) by ring. exact Q.
  Qed.
  Lemma phi_gt1_spec phi : phi_gt1 FO phi = true <-> pos (phi - 1).
  Proof.
    unfold phi_gt1, src_fletcher_bfgs. rewrite fcmp_refl.
    destruct (fcmp_spec phi 1) as [[E Q]|[[E Q]|[E Q]]]; rewrite E; simpl; split; intros X; try discriminate; try reflexivity.
    - exact Q.
    - exfalso. subst phi. apply pos_0. replace 0 with (1 - 1) by ring. exact X.
    - exfalso. apply (pos_asym (phi - 1) X). replace (- (phi - 1)) with (1 - phi) by ring. exact Q.
  Qed.

  (* Fletcher's switch: with s'y > 0 and H positive definite it applies DFP or BFGS (never SR1) unless s'y = y'Hy *)
  Lemma fletcher_branch n H s y :
    length y = n -> pd n H -> pos (dot s y) -> dot s y <> dot y (mv H y) ->
    fletcher FO H s y = dfp FO H s y \/ fletcher FO H s y = bfgs FO H s y.
  Proof.
    intros Ly P SY NE. pose proof (pos_nz _ SY) as N.
    assert (Ny : y <> zeros n) by (rewrite <- Ly; apply (dot_nz_r s); exact N).
    pose proof (P y Ly Ny) as D.
    unfold fletcher, fletcher_phi. cbv zeta. rewrite dot_vm, div_def.
    set (t := dot s y - dot y (mv H y)).
    assert (TN : t <> 0).
    { intros E. apply NE. unfold t in E. replace (dot s y) with (dot s y - dot y (mv H y) + dot y (mv H y)) by ring.
      rewrite E. ring. }
    destruct (pos_cases t) as [E|[T|T]]; [contradiction| |].
    - (* t > 0: phi = sy / t > 1 *)
      right.
      assert (L : phi_lt0 FO (dot s y * / t) = false).
      { destruct (phi_lt0 FO (dot s y * / t)) eqn:X; [|reflexivity]. exfalso. apply phi_lt0_spec in X.
        apply (pos_asym (dot s y * / t)); [apply pos_mul; [exact SY|apply pos_inv; exact T]|exact X]. }
      assert (G : phi_gt1 FO (dot s y * / t) = true).
      { apply phi_gt1_spec. replace (dot s y * / t - 1) with (dot y (mv H y) * / t) by (unfold t; field; exact TN).
        apply pos_mul; [exact D|apply pos_inv; exact T]. }
      rewrite L, G. reflexivity.
    - (* t < 0: phi < 0 *)
      left.
      assert (L : phi_lt0 FO (dot s y * / t) = true).
      { apply phi_lt0_spec.
        assert (TN' : - t <> 0) by (intros Z; apply TN; replace t with (- - t) by ring; rewrite Z; ring).
        replace (- (dot s y * / t)) with (dot s y * / - t) by (field; repeat split; assumption).
        apply pos_mul; [exact SY|apply pos_inv; exact T]. }
      rewrite L. reflexivity.
  Qed.
  Lemma pd_fletcher n H s y :
    length H = n -> length s = n -> length y = n -> msym n H -> pd n H -> pos (dot s y) ->
    dot s y <> dot y (mv H y) -> pd n (fletcher FO H s y).
  Proof.
    intros LH Ls Ly S P SY NE.
    destruct (fletcher_branch n H s y Ly P SY NE) as [E|E]; rewrite E; [apply pd_dfp|apply pd_bfgs]; assumption.
  Qed.
  Lemma secant_fletcher H s y :
    length s = length H -> length y = length H -> dot s y <> 0 -> dot y (mv H y) <> 0 -> dot s y <> dot y (mv H y) ->
    mv (fletcher FO H s y) y = s.
  Proof.
    intros Ls Ly N1 N2 N3. unfold fletcher. cbv zeta.
    destruct (phi_lt0 FO _); [apply secant_dfp; assumption|].
    destruct (phi_gt1 FO _); [apply secant_bfgs; assumption|].
    apply secant_sr1; [assumption|]. rewrite dot_vsub_l, (dot_comm (mv H y) y). intros E. apply N3.
    replace (dot s y) with (dot s y - dot y (mv H y) + dot y (mv H y)) by ring. rewrite E. ring.
  Qed.

  (* the quasi-Newton direction is a descent direction: g . (-H g) < 0 *)
  Lemma descent_quasi n H g : pd n H -> length g = n -> g <> zeros n -> pos (- dot g (quasi_direction FO H g)).
  Proof.
    intros P L N. unfold quasi_direction. rewrite dot_vopp_r.
    replace (- - dot g (mv H g)) with (dot g (mv H g)) by ring. apply P; assumption.
  Qed.

  Lemma pd_identity n : pd n (identity n).
  Proof. intros z L N. rewrite mv_identity by exact L. apply dot_self_pos. rewrite L. exact N. Qed.
  Lemma pd_scaled n s y : length y = n -> pos (dot s y) -> pd n (scaled_identity FO n s y).
  Proof.
    intros Ly SY z L N. rewrite scaled_mv by exact L. expand. rewrite div_def.
    assert (Ny : y <> zeros (length y)) by (apply (dot_nz_r s); apply pos_nz; exact SY).
    apply pos_mul; [apply pos_mul; [exact SY|apply pos_inv; apply dot_self_pos; exact Ny]|].
    apply dot_self_pos. rewrite L. exact N.
  Qed.
  Lemma msym_identity n : msym n (identity n).
  Proof. intros a b La Lb. rewrite !mv_identity by assumption. apply dot_comm. Qed.
  Lemma msym_scaled n s y : msym n (scaled_identity FO n s y).
  Proof. intros a b La Lb. rewrite !scaled_mv by assumption. expand. rewrite (dot_comm a b). reflexivity. Qed.

  (* ---- L-BFGS: the two-loop recursion ------------------------------------------------------------------------------- *)
  Local Notation loop1 := (loop1 FO).
  Local Notation loop2 := (loop2 FO).
  Local Notation pair := (pair F).

  (* the recursion, newest pair first:  r = rec(rest, q - alpha y);  r + s (alpha - beta) *)
  Fixpoint tlrec (A0 : vec F -> vec F) (l : list pair) (q : vec F) : vec F :=
    match l with
    | [] => A0 q
    | (s, y) :: l' =>
        let alpha := dot s q / dot s y in
        let r := tlrec A0 l' (vsub q (vscale alpha y)) in
        let beta := dot y r / dot s y in
        vadd r (vscale (alpha - beta) s)
    end.

  Lemma loop1_length : forall l q, length (snd (loop1 l q)) = length l.
  Proof.
    induction l as [|[s y] l IH]; intros q; simpl; [reflexivity|].
    specialize (IH (vsub q (vscale (dot s q / dot s y) y))).
    destruct (loop1 l _) as [q' al]. simpl in *. rewrite IH. reflexivity.
  Qed.
  Lemma loop2_app : forall l1 l2 r, loop2 (l1 ++ l2) r = loop2 l2 (loop2 l1 r).
  Proof. induction l1 as [|[[s y] a] l1 IH]; intros l2 r; simpl; [reflexivity|]. apply IH. Qed.
  Lemma combine_app {A B} : forall (l1 : list A) (m1 : list B) l2 m2, length l1 = length m1 ->
    combine (l1 ++ l2) (m1 ++ m2) = combine l1 m1 ++ combine l2 m2.
  Proof.
    induction l1 as [|a l1 IH]; intros [|b m1] l2 m2 L; simpl in *; try discriminate; [reflexivity|].
    rewrite IH by lia. reflexivity.
  Qed.
  Lemma loops_rec A0 : forall l q,
    loop2 (combine (rev l) (rev (snd (loop1 l q)))) (A0 (fst (loop1 l q))) = tlrec A0 l q.
  Proof.
    induction l as [|[s y] l IH]; intros q; simpl; [reflexivity|].
    specialize (IH (vsub q (vscale (dot s q / dot s y) y))).
    pose proof (loop1_length l (vsub q (vscale (dot s q / dot s y) y))) as LL.
    destruct (loop1 l _) as [q' al]. simpl in *.
    rewrite combine_app by (rewrite !rev_length; symmetry; exact LL).
    rewrite loop2_app, IH. reflexivity.
  Qed.
  Lemma two_loop_rec hist g : two_loop FO hist g = tlrec (lbfgs_scale FO hist) (rev hist) g.
  Proof.
    unfold two_loop. pose proof (loops_rec (lbfgs_scale FO hist) (rev hist) g) as E.
    destruct (loop1 (rev hist) g) as [q al]. simpl in E. rewrite rev_involutive in E. exact E.
  Qed.

  Definition pairs_ok (n : nat) (l : list pair) : Prop :=
    Forall (fun p => length (fst p) = n /\ length (snd p) = n) l.
  Definition bfgs_fold (H0 : mat F) (l : list pair) : mat F :=         (* l newest first *)
    fold_right (fun (p : pair) H => bfgs FO H (fst p) (snd p)) H0 l.

  Lemma length_bfgs_fold n H0 : forall l, length H0 = n -> pairs_ok n l -> length (bfgs_fold H0 l) = n.
  Proof.
    induction l as [|[s y] l IH]; intros L0 OK; simpl; [exact L0|].
    inversion OK as [|p l' [Ls Ly] OK']; subst p l'. simpl in *.
    rewrite length_bfgs; [apply IH; assumption|]. rewrite IH by assumption. exact Ls.
  Qed.
  Lemma length_tlrec n A0 : (forall q, length q = n -> length (A0 q) = n) ->
    forall l, pairs_ok n l -> forall q, length q = n -> length (tlrec A0 l q) = n.
  Proof.
    intros LA. induction l as [|[s y] l IH]; intros OK q Lq; simpl; [apply LA; exact Lq|].
    inversion OK as [|p l' [Ls Ly] OK']; subst p l'. simpl in *.
    rewrite length_vadd, length_vscale, IH; [lia|assumption|].
    rewrite length_vsub, length_vscale. lia.
  Qed.

  Lemma tlrec_mv n A0 H0 :
    length H0 = n -> (forall q, length q = n -> A0 q = mv H0 q) ->
    forall l, pairs_ok n l -> forall q, length q = n -> tlrec A0 l q = mv (bfgs_fold H0 l) q.
  Proof.
    intros L0 EA. induction l as [|[s y] l IH]; intros OK q Lq; [apply EA; exact Lq|].
    inversion OK as [|p l' [Ls Ly] OK']; subst p l'. simpl in Ls, Ly.
    pose proof (length_bfgs_fold n H0 l L0 OK') as LF.
    simpl tlrec. simpl bfgs_fold. set (Hr := bfgs_fold H0 l) in *.
    assert (Lq' : forall k, length (vsub q (vscale k y)) = n) by (intros k; rewrite length_vsub, length_vscale; lia).
    rewrite (IH OK' _ (Lq' _)).
    apply vec_ext.
    - rewrite length_vadd, length_vscale, !length_mv, length_bfgs by congruence. lia.
    - intros w. rewrite bfgs_mv by congruence. expand. rewrite ?div_def. ring.
  Qed.

  Lemma length_H0 n hist : length (lbfgs_H0 FO n hist) = n.
  Proof.
    unfold lbfgs_H0. destruct (rev hist) as [|[s y] l]; [apply length_identity|].
    unfold scaled_identity. rewrite length_mdivs, length_mmuls. apply length_identity.
  Qed.
  Lemma pairs_ok_rev n l : pairs_ok n l -> pairs_ok n (rev l).
  Proof. unfold pairs_ok. rewrite !Forall_forall. intros H p I. apply H. apply in_rev. exact I. Qed.

  (* the two-loop recursion applies the matrix obtained from H0 by the BFGS updates with the stored pairs, oldest first *)
  Lemma two_loop_matrix n hist g :
    pairs_ok n hist -> length g = n -> two_loop FO hist g = mv (lbfgs_matrix FO n hist) g.
  Proof.
    intros OK Lg. rewrite two_loop_rec.
    unfold lbfgs_matrix. rewrite <- fold_left_rev_right.
    change (fold_right (fun (y : pair) (x : mat F) => bfgs FO x (fst y) (snd y)) (lbfgs_H0 FO n hist) (rev hist))
      with (bfgs_fold (lbfgs_H0 FO n hist) (rev hist)).
    apply (tlrec_mv n); [apply length_H0| |apply pairs_ok_rev; exact OK|exact Lg].
    intros q Lq. unfold lbfgs_scale, lbfgs_H0. destruct (rev hist) as [|[s y] l].
    - symmetry. apply mv_identity. exact Lq.
    - symmetry. apply scaled_mv. exact Lq.
  Qed.

  Definition curv_ok (l : list pair) : Prop := Forall (fun p => pos (dot (fst p) (snd p))) l.

  Lemma pd_bfgs_fold n H0 : length H0 = n -> pd n H0 ->
    forall l, pairs_ok n l -> curv_ok l -> pd n (bfgs_fold H0 l).
  Proof.
    intros L0 P0. induction l as [|[s y] l IH]; intros OK CV; [exact P0|].
    inversion OK as [|p l' [Ls Ly] OK']; subst p l'. inversion CV as [|p' l'' C CV']; subst p' l''. simpl in *.
    apply pd_bfgs; try assumption; [apply length_bfgs_fold; assumption|apply IH; assumption].
  Qed.
  Lemma msym_bfgs_fold n H0 : length H0 = n -> msym n H0 ->
    forall l, pairs_ok n l -> msym n (bfgs_fold H0 l).
  Proof.
    intros L0 S0. induction l as [|[s y] l IH]; intros OK; [exact S0|].
    inversion OK as [|p l' [Ls Ly] OK']; subst p l'. simpl in *.
    pose proof (length_bfgs_fold n H0 l L0 OK') as LF.
    rewrite <- LF at 1. apply msym_bfgs; rewrite LF; [exact Ly|apply IH; exact OK'].
  Qed.

  Lemma pd_lbfgs_matrix n hist : pairs_ok n hist -> curv_ok hist -> pd n (lbfgs_matrix FO n hist).
  Proof.
    intros OK CV. unfold lbfgs_matrix. rewrite <- fold_left_rev_right.
    change (fold_right (fun (y : pair) (x : mat F) => bfgs FO x (fst y) (snd y)) (lbfgs_H0 FO n hist) (rev hist))
      with (bfgs_fold (lbfgs_H0 FO n hist) (rev hist)).
    assert (CVr : curv_ok (rev hist)).
    { unfold curv_ok in *. rewrite Forall_forall in *. intros p I. apply CV. apply in_rev. exact I. }
    pose proof (pairs_ok_rev n hist OK) as OKr.
    apply pd_bfgs_fold; [apply length_H0| |exact OKr|exact CVr].
    unfold lbfgs_H0. destruct (rev hist) as [|[s y] l]; [apply pd_identity|].
    inversion OKr as [|p l' [Ls Ly] _]. inversion CVr as [|p' l'' C _]. simpl in *.
    apply pd_scaled; assumption.
  Qed.

  (* the L-BFGS direction -r is a descent direction when every stored pair has positive curvature *)
  Lemma descent_lbfgs n hist g :
    pairs_ok n hist -> curv_ok hist -> length g = n -> g <> zeros n ->
    pos (- dot g (lbfgs_direction FO hist g)).
  Proof.
    intros OK CV L N. unfold lbfgs_direction. rewrite (two_loop_matrix n) by assumption. rewrite dot_vopp_r.
    replace (- - dot g (mv (lbfgs_matrix FO n hist) g)) with (dot g (mv (lbfgs_matrix FO n hist) g)) by ring.
    apply pd_lbfgs_matrix; assumption.
  Qed.

  (* the last update of the chain enforces the secant equation of the newest pair, whatever H0 *)
  Lemma secant_lbfgs n hist s y :
    pairs_ok n (hist ++ [(s, y)]) -> dot s y <> 0 -> two_loop FO (hist ++ [(s, y)]) y = s.
  Proof.
    intros OK N.
    assert (L : length s = n /\ length y = n).
    { unfold pairs_ok in OK. rewrite Forall_forall in OK. apply (OK (s, y)). apply in_or_app. right. left. reflexivity. }
    destruct L as [Ls Ly].
    rewrite (two_loop_matrix n) by assumption.
    unfold lbfgs_matrix. rewrite fold_left_app. simpl.
    set (Hp := fold_left _ hist _).
    assert (LH : length Hp = n).
    { unfold Hp. rewrite <- fold_left_rev_right.
      apply (length_bfgs_fold n); [apply length_H0|]. apply pairs_ok_rev.
      unfold pairs_ok in *. rewrite Forall_forall in *. intros p I. apply OK. apply in_or_app. left. exact I. }
    apply secant_bfgs; congruence.
  Qed.

  (* the history bound: after the push the history never exceeds the bound *)
  Lemma lbfgs_push_length history (hist : list pair) (p : pair) :
    (Z.of_nat (length hist) <= history)%Z -> (1 <= history)%Z ->
    (Z.of_nat (length (lbfgs_push history hist p)) <= history)%Z /\
    exists k, lbfgs_push history hist p = skipn k (hist ++ [p]).
  Proof.
    intros L P. unfold lbfgs_push, src_lbfgs_pop. rewrite app_length. simpl length.
    destruct (Z.gtb_spec (Z.of_nat (length hist + 1)) history) as [G|G].
    - split; [|exists 1%nat; destruct (hist ++ [p]); reflexivity].
      destruct hist as [|q hist]; simpl in *; [lia|]. rewrite app_length. simpl. lia.
    - split; [rewrite app_length; simpl; lia|exists 0%nat; reflexivity].
  Qed.

  (* ---- SR1 with the safeguard ---------------------------------------------------------------------------------------- *)
  Lemma sr1_apply_nz r H s y :
    sr1_apply FO r H s y = true -> pos r -> s <> zeros (length s) ->
    vsub s (mv H y) <> zeros (length (vsub s (mv H y))) -> dot (vsub s (mv H y)) y <> 0.
  Proof.
    unfold sr1_apply, src_sr1_apply. cbv zeta. set (v := vsub s (mv H y)). rewrite fcmp_refl.
    intros A R Ns Nv D. rewrite D in A.
    assert (P : pos (r * r * dot s s * dot v v)).
    { apply pos_mul; [apply pos_mul; [apply pos_mul; exact R|apply dot_self_pos; exact Ns]|apply dot_self_pos; exact Nv]. }
    destruct (fcmp_spec (0 * 0) (r * r * dot s s * dot v v)) as [[E Q]|[[E Q]|[E Q]]]; rewrite E in A; simpl in A.
    - apply (pos_asym _ P). replace (- (r * r * dot s s * dot v v)) with (0 * 0 - r * r * dot s s * dot v v) by ring. exact Q.
    - apply pos_0. replace 0 with (0 * 0) by ring. rewrite Q. exact P.
    - discriminate.
  Qed.
  Lemma secant_sr1_safeguarded r H s y :
    length s = length H -> sr1_apply FO r H s y = true -> pos r -> s <> zeros (length s) ->
    vsub s (mv H y) <> zeros (length (vsub s (mv H y))) -> mv (sr1 FO r H s y) y = s.
  Proof.
    intros Ls A R Ns Nv. unfold sr1. rewrite A. apply secant_sr1; [exact Ls|]. apply (sr1_apply_nz r); assumption.
  Qed.

  (* ---- every matrix of a run: started from the identity or the scaled identity, updated by any of the five rules or
          reset to the identity, is symmetric; with bfgs / dfp / hoshino updates of positive curvature it is positive
          definite ------------------------------------------------------------------------------------------------------ *)
  Inductive reachable (n : nat) (k : qkind) (r : F) : mat F -> Prop :=
  | R_identity : reachable n k r (identity n)
  | R_scaled s y : length s = n -> length y = n -> reachable n k r (scaled_identity FO n s y)
  | R_update H s y : reachable n k r H -> length s = n -> length y = n -> reachable n k r (quasi_update FO k r H s y).
  Inductive reachable_pos (n : nat) (k : qkind) (r : F) : mat F -> Prop :=
  | RP_identity : reachable_pos n k r (identity n)
  | RP_scaled s y : length s = n -> length y = n -> pos (dot s y) -> reachable_pos n k r (scaled_identity FO n s y)
  | RP_update H s y : reachable_pos n k r H -> length s = n -> length y = n -> pos (dot s y) ->
                      reachable_pos n k r (quasi_update FO k r H s y).

  Lemma length_quasi_update k r H s y : length s = length H -> length (quasi_update FO k r H s y) = length H.
  Proof.
    intros L. destruct k; simpl.
    - unfold sr1. destruct (sr1_apply FO r H s y); [apply length_sr1; exact L|reflexivity].
    - apply length_dfp; exact L.
    - apply length_bfgs; exact L.
    - apply length_broyden; exact L.
    - unfold fletcher. cbv zeta. destruct (phi_lt0 FO _); [apply length_dfp; exact L|].
      destruct (phi_gt1 FO _); [apply length_bfgs; exact L|apply length_sr1; exact L].
  Qed.
  Lemma length_scaled n s y : length (scaled_identity FO n s y) = n.
  Proof. unfold scaled_identity. rewrite length_mdivs, length_mmuls. apply length_identity. Qed.
  Lemma reachable_length n k r H : reachable n k r H -> length H = n.
  Proof.
    induction 1 as [|s y Ls Ly|H s y RH IH Ls Ly]; [apply length_identity|apply length_scaled|].
    rewrite length_quasi_update; congruence.
  Qed.
  Lemma msym_quasi_update k r H s y : length y = length H -> msym (length H) H -> msym (length H) (quasi_update FO k r H s y).
  Proof.
    intros Ly S. destruct k; simpl;
      [apply msym_sr1_safeguarded|apply msym_dfp|apply msym_bfgs|apply msym_broyden|apply msym_fletcher]; assumption.
  Qed.
  Lemma reachable_msym n k r H : reachable n k r H -> msym n H.
  Proof.
    induction 1 as [|s y Ls Ly|H s y RH IH Ls Ly]; [apply msym_identity|apply msym_scaled|].
    pose proof (reachable_length n k r H RH) as LH. rewrite <- LH in *. apply msym_quasi_update; [congruence|exact IH].
  Qed.
  Lemma reachable_pos_weak n k r H : reachable_pos n k r H -> reachable n k r H.
  Proof. induction 1; [apply R_identity|apply R_scaled; assumption|apply R_update; assumption]. Qed.
  Lemma reachable_pd n k r H : k = KBFGS \/ k = KDFP \/ k = KHOSHINO -> reachable_pos n k r H -> pd n H.
  Proof.
    intros K. induction 1 as [|s y Ls Ly SY|H s y RH IH Ls Ly SY]; [apply pd_identity|apply pd_scaled; assumption|].
    pose proof (reachable_length n k r H (reachable_pos_weak n k r H RH)) as LH.
    pose proof (reachable_msym n k r H (reachable_pos_weak n k r H RH)) as S.
    destruct K as [K|[K|K]]; subst k; simpl; [apply pd_bfgs|apply pd_dfp|apply pd_hoshino]; assumption.
  Qed.

  (* ---- the index expressions of lbfgs.cpp (translated) against the list model ------------------------------------- *)
  Lemma lbfgs_index_tie (hist : list pair) (alphas : list F) (d : pair) (a0 : F) :
    length alphas = length hist ->
    forall j, (j < length hist)%nat ->
      let h := Z.of_nat (length hist) in
      (* first loop, step j: the j-th pair of the history read newest first *)
      nth j (rev hist) d = nth (Z.to_nat (src_lbfgs_loop1_index h (Z.of_nat j))) hist d /\
      (* second loop, step j: pair j (oldest first) with the alpha the first loop stored at hsize-1-j *)
      nth j (combine hist (rev alphas)) (d, a0) =
        (nth (Z.to_nat (src_lbfgs_loop2_index h (Z.of_nat j))) hist d,
         nth (Z.to_nat (src_lbfgs_loop2_alpha h (Z.of_nat j))) alphas a0) /\
      (* the scaling pair is the newest one *)
      hd d (rev hist) = nth (Z.to_nat (src_lbfgs_scale_index h)) hist d.
  Proof.
    intros LA j Lj h. unfold src_lbfgs_loop1_index, src_lbfgs_loop2_index, src_lbfgs_loop2_alpha, src_lbfgs_scale_index, h.
    repeat split.
    - rewrite rev_nth by exact Lj. f_equal. lia.
    - rewrite combine_nth by (rewrite rev_length; congruence). rewrite Nat2Z.id. f_equal.
      rewrite rev_nth by lia. f_equal. lia.
    - replace (hd d (rev hist)) with (nth 0 (rev hist) d) by (destruct (rev hist); reflexivity).
      rewrite rev_nth by lia. f_equal. lia.
  Qed.
End Algebra.

(* the shape of the translated decisions (broken when an operator, a constant or an operand of the source changes) *)
Lemma kernels_c01q :
  (forall phi zero, src_fletcher_dfp phi zero = Z.ltb phi zero) /\
  (forall phi one, src_fletcher_bfgs phi one = Z.gtb phi one) /\
  (forall a r s v, src_sr1_apply a r s v = Z.geb a (r * s * v)) /\
  (forall size history, src_lbfgs_pop size history = Z.gtb size history) /\
  (forall h j, src_lbfgs_loop1_index h j = h - 1 - j)%Z /\
  (forall h, src_lbfgs_scale_index h = h - 1)%Z /\
  (forall h j, src_lbfgs_loop2_index h j = j) /\
  (forall h j, src_lbfgs_loop2_alpha h j = h - 1 - j)%Z.
Proof. repeat split; reflexivity. Qed.

(* ---- ordered fields, packaged ------------------------------------------------------------------------------------------ *)
Record ordered_field {F : Type} (FO : fops F) : Type := mk_ordered_field {
  of_th : field_theory (f0 FO) (f1 FO) (fadd FO) (fmul FO) (fsub FO) (fopp FO) (fdiv FO) (finv FO) (@eq F);
  of_pos : F -> Prop;
  of_add : forall a b, of_pos a -> of_pos b -> of_pos (fadd FO a b);
  of_mul : forall a b, of_pos a -> of_pos b -> of_pos (fmul FO a b);
  of_cases : forall a, a = f0 FO \/ of_pos a \/ of_pos (fopp FO a);
  of_0 : ~ of_pos (f0 FO);
  of_cmp : forall a b, (fcmp FO a b = 1%Z /\ of_pos (fsub FO a b)) \/ (fcmp FO a b = 0%Z /\ a = b) \/
                       (fcmp FO a b = (-1)%Z /\ of_pos (fsub FO b a))
}.
Arguments msym {F}. Arguments entry {F}. Arguments unit {F}. Arguments nonneg {F}. Arguments pd {F}.
Arguments pairs_ok {F}. Arguments curv_ok {F}. Arguments bfgs_fold {F}. Arguments tlrec {F}.
Arguments reachable {F}. Arguments reachable_pos {F}.
Arguments of_th {F FO}. Arguments of_pos {F FO}. Arguments of_add {F FO}. Arguments of_mul {F FO}.
Arguments of_cases {F FO}. Arguments of_0 {F FO}. Arguments of_cmp {F FO}.

(* instance: the canonical rationals (the extracted model) *)
From Coq Require Import QArith Qcanon Lqa.
Ltac qc_order :=
  unfold Qclt in *; change (this 0%Qc) with 0%Q in *;
  unfold Qcminus, Qcplus, Qcmult, Qcopp; cbn [this Q2Qc]; rewrite ?Qred_correct.
Definition Qc_ordered_field : ordered_field QcO.
Proof.
  refine (mk_ordered_field Qc QcO Qcft (fun a => (0 < a)%Qc) _ _ _ _ _); simpl.
  - intros a b A B. qc_order. lra.
  - intros a b A B. qc_order. apply Qmult_lt_0_compat; assumption.
  - intros a. destruct (a ?= 0)%Qc eqn:C.
    + left. apply Qceq_alt. exact C.
    + right. right. apply Qclt_alt in C. qc_order. lra.
    + right. left. apply Qcgt_alt in C. exact C.
  - intros A. apply Qclt_not_eq in A. apply A. reflexivity.
  - intros a b. unfold zcmp. destruct (a ?= b)%Qc eqn:C.
    + right. left. split; [reflexivity|apply Qceq_alt; exact C].
    + right. right. split; [reflexivity|]. apply Qclt_alt in C. qc_order. lra.
    + left. split; [reflexivity|]. apply Qcgt_alt in C. qc_order. lra.
Defined.

(* instance: the reals *)
From Coq Require Import Reals RealField Lra.
Definition RO : fops R :=
  mk_fops R 0%R 1%R Rplus Rmult Rminus Ropp Rdiv Rinv
          (fun a b => if Rlt_dec b a then 1%Z else if Rlt_dec a b then (-1)%Z else 0%Z).
Definition R_ordered_field : ordered_field RO.
Proof.
  refine (mk_ordered_field R RO Rfield (fun a => (0 < a)%R) _ _ _ _ _); simpl.
  - intros a b A B. lra.
  - intros a b A B. apply Rmult_lt_0_compat; assumption.
  - intros a. destruct (Rtotal_order a 0) as [L|[E|G]]; [right; right; lra|left; exact E|right; left; exact G].
  - lra.
  - intros a b. destruct (Rlt_dec b a) as [L|NL]; [left; split; [reflexivity|lra]|].
    destruct (Rlt_dec a b) as [L2|NL2]; [right; right; split; [reflexivity|lra]|right; left; split; [reflexivity|lra]].
Defined.
