(* C17 -- executable small-step interleaving model of the thread pool
   (include/nano/core/parallel.h, src/core/parallel.cpp), for ARBITRARY numbers of workers,
   submitting threads and tasks. Style E: `step : pool -> event -> option pool`; theorems quantify
   over every event sequence accepted by `step`, i.e. over every interleaving.

   Atomicity: every block of the code that runs under `m_mutex` is one step (all accesses to
   m_tasks / m_stop are under the mutex; condition_variable::wait(lock, pred) releases the lock and
   sleeps atomically).  notify_one wakes exactly one sleeping worker if there is one; notify_all
   wakes all of them; spurious wake-ups are allowed at any time. *)
From Coq Require Import List Arith Bool ZArith.
From LNGen Require Import Src_parallel.
Import ListNotations.

Definition tid := nat.   (* task id (unique per configuration) *)
Definition wid := nat.   (* worker id = the tnum handed to the task *)
Definition sid := nat.   (* submitting thread id *)

Inductive wstate :=
| WIdle                  (* about to take the lock and evaluate the wait predicate *)
| WSleeping              (* inside condition_variable::wait, predicate was false *)
| WRunning (t : tid)     (* executing task t outside the lock *)
| WExited.               (* left the loop after seeing m_stop *)

(* the calls a submitting thread performs, in program order *)
Inductive call :=
| CEnqueue (t : tid)                      (* pool.enqueue(f): fire and forget *)
| CMap (ts : list tid) (raise : bool)     (* pool.map(...): one task per index / chunk *)
| CDestroy.                               (* ~pool_t() *)

Inductive stage :=
| SReady                                           (* between calls *)
| SNotifyOne                                       (* enqueue: pushed under the lock, notify_one pending *)
| SNotifyAll (ts : list tid) (raise : bool)        (* map: all pushed under one lock, notify_all pending *)
| SGet (rem all : list tid) (raise : bool)         (* section.block(raise): futures visited in order *)
| SWait (rem all : list tid) (raise : bool) (exn : option tid)  (* ~section_t(): block(false) over all futures *)
| SNotifyStop                                      (* ~pool_t: m_stop set under the lock, notify_all pending *)
| SJoin.                                           (* ~pool_t: joining the worker threads *)

(* a returned map() call *)
Record mapres := {
  r_tasks  : list tid;
  r_raise  : bool;
  r_inline : bool;          (* executed on the fast path (caller thread) *)
  r_exn    : option tid;    (* the task whose exception left map(), if any *)
}.

Record sub := {
  stg     : stage;
  todo    : list call;
  results : list mapres;
}.

Record pool := {
  nw       : nat;                 (* number of workers = pool.size() *)
  ns       : nat;                 (* number of submitting threads *)
  throws   : tid -> bool;         (* which tasks throw *)
  queue    : list tid;            (* m_tasks *)
  stop     : bool;                (* m_stop *)
  workers  : wid -> wstate;
  subs     : sid -> sub;
  ran      : list (tid * wid);    (* history of pops: task, worker (= tnum passed) *)
  inline   : list (tid * sid);    (* tasks executed in the caller thread (fast path, tnum 0) *)
  finished : list tid;            (* tasks whose execution ended (normally or by exception) *)
  dropped  : list tid;            (* tasks destroyed unexecuted by a stopping worker (broken promise) *)
}.

Inductive event :=
| EPush (s : sid)                          (* start the next call: push under the lock / inline fast path *)
| ENotify (s : sid) (w : option wid)       (* notify_one (w = the woken sleeper, None iff nobody sleeps) / notify_all *)
| EGet (s : sid)                           (* block(raise): next future is ready *)
| EWait (s : sid)                          (* block(false): next future is ready / section destroyed, map returns *)
| ECheck (w : wid)                         (* worker: locked block (predicate, then stop / pop / sleep) *)
| EFinish (w : wid)                        (* worker: task returned or threw *)
| ESpurious (w : wid)                      (* spurious wake-up *)
| EStop (s : sid)                          (* ~pool_t: set m_stop under the lock *)
| ENotifyStop (s : sid)                    (* ~pool_t: notify_all *)
| EJoin (s : sid).                         (* ~pool_t: all threads joined *)

Definition upd {A} (f : nat -> A) (i : nat) (v : A) : nat -> A :=
  fun j => if Nat.eqb j i then v else f j.

Definition set_sub (p : pool) (s : sid) (x : sub) : pool :=
  {| nw := nw p; ns := ns p; throws := throws p; queue := queue p; stop := stop p; workers := workers p;
     subs := upd (subs p) s x; ran := ran p; inline := inline p; finished := finished p; dropped := dropped p |}.

Definition is_sleeping (x : wstate) : bool := match x with WSleeping => true | _ => false end.
Definition is_exited (x : wstate) : bool := match x with WExited => true | _ => false end.

(* notify_all *)
Definition wake_all (f : wid -> wstate) : wid -> wstate :=
  fun w => if is_sleeping (f w) then WIdle else f w.

Definition any_sleeping (p : pool) : bool := existsb (fun w => is_sleeping (workers p w)) (seq 0 (nw p)).
Definition all_exited (p : pool) : bool := forallb (fun w => is_exited (workers p w)) (seq 0 (nw p)).

Definition mem (t : tid) (l : list tid) : bool := existsb (Nat.eqb t) l.
Definition complete (p : pool) (t : tid) : bool := mem t (finished p) || mem t (dropped p).
Definition fails (p : pool) (t : tid) : bool := throws p t || mem t (dropped p).

Definition sub_done (x : sub) : bool :=
  match stg x, todo x with SReady, [] => true | _, _ => false end.
Definition others_done (p : pool) (s : sid) : bool :=
  forallb (fun s' => Nat.eqb s' s || sub_done (subs p s')) (seq 0 (ns p)).

(* tasks executed by the fast path: up to and including the first one that throws *)
Fixpoint inline_prefix (thr : tid -> bool) (ts : list tid) : list tid :=
  match ts with
  | [] => []
  | t :: r => if thr t then [t] else t :: inline_prefix thr r
  end.

(* the fast path of map(): executed by the caller itself *)
(* the test is the one of pool_t::map(elements, op), translated from the source: size() == 1 || elements <= 1
   (for the chunked overload see chunked_inline and theorem C17_chunked_inline_consistent) *)
Definition map_inline (p : pool) (ts : list tid) : bool :=
  src_indexed_inline (Z.of_nat (nw p)) (Z.of_nat (length ts)).

Definition step (p : pool) (e : event) : option pool :=
  match e with
  | EPush s =>
      if negb (Nat.ltb s (ns p)) then None else
      let x := subs p s in
      match stg x, todo x with
      | SReady, CEnqueue t :: rest =>
          Some {| nw := nw p; ns := ns p; throws := throws p; queue := queue p ++ [t]; stop := stop p;
                  workers := workers p;
                  subs := upd (subs p) s {| stg := SNotifyOne; todo := rest; results := results x |};
                  ran := ran p; inline := inline p; finished := finished p; dropped := dropped p |}
      | SReady, CMap ts raise :: rest =>
          if map_inline p ts then
            (* sequential execution in the caller, tnum 0: the first throwing task aborts the loop (its exception
               propagates whatever `raise` says) and the remaining indices are never executed *)
            let ex := inline_prefix (throws p) ts in
            Some {| nw := nw p; ns := ns p; throws := throws p; queue := queue p; stop := stop p;
                    workers := workers p;
                    subs := upd (subs p) s {| stg := SReady; todo := rest;
                                              results := results x ++ [{| r_tasks := ts; r_raise := raise; r_inline := true;
                                                                          r_exn := find (throws p) ts |}] |};
                    ran := ran p; inline := inline p ++ map (fun t => (t, s)) ex;
                    finished := finished p ++ ex; dropped := dropped p |}
          else
            Some {| nw := nw p; ns := ns p; throws := throws p; queue := queue p ++ ts; stop := stop p;
                    workers := workers p;
                    subs := upd (subs p) s {| stg := SNotifyAll ts raise; todo := rest; results := results x |};
                    ran := ran p; inline := inline p; finished := finished p; dropped := dropped p |}
      | _, _ => None
      end
  | ENotify s w =>
      if negb (Nat.ltb s (ns p)) then None else
      let x := subs p s in
      match stg x with
      | SNotifyOne =>
          match w with
          | Some w' =>
              if Nat.ltb w' (nw p) && is_sleeping (workers p w') then
                Some {| nw := nw p; ns := ns p; throws := throws p; queue := queue p; stop := stop p;
                        workers := upd (workers p) w' WIdle;
                        subs := upd (subs p) s {| stg := SReady; todo := todo x; results := results x |};
                        ran := ran p; inline := inline p; finished := finished p; dropped := dropped p |}
              else None
          | None =>
              if any_sleeping p then None else
              Some (set_sub p s {| stg := SReady; todo := todo x; results := results x |})
          end
      | SNotifyAll ts raise =>
          match w with
          | Some _ => None
          | None =>
              Some {| nw := nw p; ns := ns p; throws := throws p; queue := queue p; stop := stop p;
                      workers := wake_all (workers p);
                      subs := upd (subs p) s {| stg := SGet ts ts raise; todo := todo x; results := results x |};
                      ran := ran p; inline := inline p; finished := finished p; dropped := dropped p |}
          end
      | _ => None
      end
  | EGet s =>
      if negb (Nat.ltb s (ns p)) then None else
      let x := subs p s in
      match stg x with
      | SGet [] all raise => Some (set_sub p s {| stg := SWait all all raise None; todo := todo x; results := results x |})
      | SGet (t :: rem) all raise =>
          if complete p t then
            if raise && fails p t
            then Some (set_sub p s {| stg := SWait all all raise (Some t); todo := todo x; results := results x |})
            else Some (set_sub p s {| stg := SGet rem all raise; todo := todo x; results := results x |})
          else None
      | _ => None
      end
  | EWait s =>
      if negb (Nat.ltb s (ns p)) then None else
      let x := subs p s in
      match stg x with
      | SWait [] all raise exn =>
          Some (set_sub p s {| stg := SReady; todo := todo x;
                               results := results x ++ [{| r_tasks := all; r_raise := raise;
                                                           r_inline := false; r_exn := exn |}] |})
      | SWait (t :: rem) all raise exn =>
          if complete p t
          then Some (set_sub p s {| stg := SWait rem all raise exn; todo := todo x; results := results x |})
          else None
      | _ => None
      end
  | ECheck w =>
      if negb (Nat.ltb w (nw p)) then None else
      match workers p w with
      | WIdle =>
          if stop p then
            Some {| nw := nw p; ns := ns p; throws := throws p; queue := []; stop := stop p;
                    workers := upd (wake_all (workers p)) w WExited;
                    subs := subs p; ran := ran p; inline := inline p; finished := finished p;
                    dropped := dropped p ++ queue p |}
          else
            match queue p with
            | t :: q =>
                Some {| nw := nw p; ns := ns p; throws := throws p; queue := q; stop := stop p;
                        workers := upd (workers p) w (WRunning t);
                        subs := subs p; ran := ran p ++ [(t, w)]; inline := inline p; finished := finished p;
                        dropped := dropped p |}
            | [] =>
                Some {| nw := nw p; ns := ns p; throws := throws p; queue := []; stop := stop p;
                        workers := upd (workers p) w WSleeping;
                        subs := subs p; ran := ran p; inline := inline p; finished := finished p;
                        dropped := dropped p |}
            end
      | _ => None
      end
  | EFinish w =>
      if negb (Nat.ltb w (nw p)) then None else
      match workers p w with
      | WRunning t =>
          Some {| nw := nw p; ns := ns p; throws := throws p; queue := queue p; stop := stop p;
                  workers := upd (workers p) w WIdle;
                  subs := subs p; ran := ran p; inline := inline p; finished := finished p ++ [t];
                  dropped := dropped p |}
      | _ => None
      end
  | ESpurious w =>
      if negb (Nat.ltb w (nw p)) then None else
      match workers p w with
      | WSleeping =>
          Some {| nw := nw p; ns := ns p; throws := throws p; queue := queue p; stop := stop p;
                  workers := upd (workers p) w WIdle;
                  subs := subs p; ran := ran p; inline := inline p; finished := finished p;
                  dropped := dropped p |}
      | _ => None
      end
  | EStop s =>
      if negb (Nat.ltb s (ns p)) then None else
      let x := subs p s in
      match stg x, todo x with
      | SReady, CDestroy :: rest =>
          (* the pool must outlive its users: every other thread has finished its calls *)
          if others_done p s && negb (stop p) then
            Some {| nw := nw p; ns := ns p; throws := throws p; queue := queue p; stop := true;
                    workers := workers p;
                    subs := upd (subs p) s {| stg := SNotifyStop; todo := rest; results := results x |};
                    ran := ran p; inline := inline p; finished := finished p; dropped := dropped p |}
          else None
      | _, _ => None
      end
  | ENotifyStop s =>
      if negb (Nat.ltb s (ns p)) then None else
      let x := subs p s in
      match stg x with
      | SNotifyStop =>
          Some {| nw := nw p; ns := ns p; throws := throws p; queue := queue p; stop := stop p;
                  workers := wake_all (workers p);
                  subs := upd (subs p) s {| stg := SJoin; todo := todo x; results := results x |};
                  ran := ran p; inline := inline p; finished := finished p; dropped := dropped p |}
      | _ => None
      end
  | EJoin s =>
      if negb (Nat.ltb s (ns p)) then None else
      let x := subs p s in
      match stg x with
      | SJoin =>
          if all_exited p
          then Some (set_sub p s {| stg := SReady; todo := todo x; results := results x |})
          else None
      | _ => None
      end
  end.

Fixpoint run (p : pool) (es : list event) : option pool :=
  match es with
  | [] => Some p
  | e :: r => match step p e with Some q => run q r | None => None end
  end.

(* initial configuration: n workers about to evaluate the predicate, programs not started *)
Definition init (n : nat) (thr : tid -> bool) (progs : list (list call)) : pool :=
  {| nw := n; ns := length progs; throws := thr; queue := []; stop := false;
     workers := fun _ => WIdle;
     subs := fun s => {| stg := SReady; todo := nth s progs []; results := [] |};
     ran := []; inline := []; finished := []; dropped := [] |}.

(* ---- well-formed configurations -------------------------------------------------------------- *)
Definition call_tasks (c : call) : list tid :=
  match c with CEnqueue t => [t] | CMap ts _ => ts | CDestroy => [] end.
Definition prog_tasks (pr : list call) : list tid := flat_map call_tasks pr.

Fixpoint no_destroy (pr : list call) : bool :=
  match pr with [] => true | CDestroy :: _ => false | _ :: r => no_destroy r end.
(* CDestroy may only be the last call of a program *)
Fixpoint destroy_last (pr : list call) : bool :=
  match pr with [] => true | [CDestroy] => true | CDestroy :: _ => false | _ :: r => destroy_last r end.

Fixpoint nodupb (l : list tid) : bool :=
  match l with [] => true | x :: r => negb (mem x r) && nodupb r end.

(* at least one worker, unique task ids, ~pool_t last in its thread and called by at most one thread *)
Definition wf_config (n : nat) (progs : list (list call)) : bool :=
  Nat.leb 1 n && nodupb (flat_map prog_tasks progs) && forallb destroy_last progs
  && Nat.leb (length (filter (fun pr => negb (no_destroy pr)) progs)) 1.

(* ---- final states and the enabled set (used for the hang analysis of the implementation) ------- *)
Definition final (p : pool) : bool := forallb (fun s => sub_done (subs p s)) (seq 0 (ns p)).

Definition candidates (p : pool) : list event :=
  flat_map (fun s => [EPush s; ENotify s None; EGet s; EWait s; EStop s; ENotifyStop s; EJoin s]
                     ++ map (fun w => ENotify s (Some w)) (seq 0 (nw p))) (seq 0 (ns p))
  ++ flat_map (fun w => [ECheck w; EFinish w; ESpurious w]) (seq 0 (nw p)).
Definition enabled (p : pool) : list event :=
  filter (fun e => match step p e with Some _ => true | None => false end) (candidates p).

(* ---- chunking of map(elements, chunksize, op) ------------------------------------------------- *)
Local Open Scope Z_scope.

(* for (begin = 0; begin < elements; begin += chunksize) op(begin, min(begin + chunksize, elements)) *)
Fixpoint chunks_from (fuel : nat) (begin elements chunksize : Z) : list (Z * Z) :=
  match fuel with
  | O => []
  | S f =>
      if src_chunk_continue begin elements
      then (begin, src_chunk_end begin chunksize elements) :: chunks_from f (src_chunk_next begin chunksize) elements chunksize
      else []
  end.
Definition chunks (elements chunksize : Z) : list (Z * Z) :=
  chunks_from (Z.to_nat elements) src_chunk_begin elements chunksize.
(* the same loop as written on the fast path (caller thread, tnum 0) *)
Fixpoint chunks_inline_from (fuel : nat) (begin elements chunksize : Z) : list (Z * Z) :=
  match fuel with
  | O => []
  | S f =>
      if src_chunk_inline_continue begin elements
      then (begin, src_chunk_inline_end begin chunksize elements)
             :: chunks_inline_from f (src_chunk_inline_next begin chunksize) elements chunksize
      else []
  end.
Definition chunks_inline (elements chunksize : Z) : list (Z * Z) :=
  chunks_inline_from (Z.to_nat elements) 0 elements chunksize.
Definition chunked_inline (size elements chunksize : Z) : bool := src_chunked_inline size chunksize elements.
Definition indexed_inline (size elements : Z) : bool := src_indexed_inline size elements.
