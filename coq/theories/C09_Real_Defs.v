(* C09 (extension) -- the ML objectives over the reals, with EVERY registered loss inside the model.

   * the 17 registered losses (src/loss.cpp) are mapped to the real-valued specifications of their kernels that C06 owns
     (C06_Defs.v: polynomial kernels at the instance Rops, transcendental kernels kr_*, class-NLL);
   * the objectives are restated over R: what the code evaluates (per-thread accumulation under a schedule, sum_reduce,
     division by the translated divisor, regularisation with the real sqrt(l2)) and the naive definitions with the gradient
     formulas the source uses;
   * floating-point summation over an arbitrary reduction tree with an abstract rounding operator, and the executable
     (rational) form of the proved re-association bound that the driver evaluates on the measured terms.

   Executable / specification definitions only; proofs are in C09_Real.v. *)
From Coq Require Import List ZArith QArith Reals Bool.
From Coq Require String.
From LNGen Require Import Src_parallel Src_c09.
From LN Require Import C17_Defs C09_Defs C06_Defs.
Import ListNotations.
Local Open Scope R_scope.

Notation Rdot := (C06_Defs.dot Rops).
Notation Rvadd := (C06_Defs.vadd Rops).
Notation Rvsub := (C06_Defs.vsub Rops).
Notation Rvscale := (C06_Defs.vscale Rops).

(* ---- the registered losses ------------------------------------------------------------------------------------- *)
(* one constructor per kernel of include/nano/loss/flatten.h + src/loss/pinball.cpp; the s- / m- variants of a
   classification loss share value and vgrad (they differ in error() only) *)
Inductive rloss :=
| RMse | RMae | RCauchy | RPinball (alpha : R)
| RHinge | RSqHinge | RClassnll | RSavage | RTangent | RLogistic | RExponential.

(* std::numeric_limits<double>::epsilon(), the start value inside the logarithm of classnll_t::value *)
Definition eps52 : R := / 4503599627370496.

(* the value AS THE CODE COMPUTES IT (class-NLL: shifted by the largest output, epsilon inside the logarithm) *)
Definition rl_value (l : rloss) (t o : list R) : R :=
  match l with
  | RMse => loss_v Rops (k_mse_v Rops) t o
  | RMae => loss_v Rops (k_mae_v Rops) t o
  | RCauchy => loss_v Rops kr_cauchy_v t o
  | RPinball a => loss_v Rops (k_pinball_v Rops a) t o
  | RHinge => loss_v Rops (k_hinge_v Rops) t o
  | RSqHinge => loss_v Rops (k_sqhinge_v Rops) t o
  | RClassnll => classnll_code eps52 t o
  | RSavage => loss_v Rops kr_savage_v t o
  | RTangent => loss_v Rops kr_tangent_v t o
  | RLogistic => loss_v Rops kr_logistic_v t o
  | RExponential => loss_v Rops kr_exponential_v t o
  end.
(* the mathematical loss: the same, except that class-NLL is the plain log-sum-exp (no epsilon) *)
Definition rl_ideal (l : rloss) (t o : list R) : R :=
  match l with
  | RClassnll => classnll_ideal t o
  | _ => rl_value l t o
  end.
Definition rl_grad (l : rloss) (t o : list R) : list R :=
  match l with
  | RMse => loss_g (k_mse_g Rops) t o
  | RMae => loss_g (k_mae_g Rops) t o
  | RCauchy => loss_g kr_cauchy_g t o
  | RPinball a => loss_g (k_pinball_g Rops a) t o
  | RHinge => loss_g (k_hinge_g Rops) t o
  | RSqHinge => loss_g (k_sqhinge_g Rops) t o
  | RClassnll => classnll_g t o
  | RSavage => loss_g kr_savage_g t o
  | RTangent => loss_g kr_tangent_g t o
  | RLogistic => loss_g kr_logistic_g t o
  | RExponential => loss_g kr_exponential_g t o
  end.

(* the ids of loss_t::all() (src/loss.cpp); tools/checks/c09.py compares the names with the registry of the library *)
Import String.StringSyntax.
Local Open Scope string_scope.
Definition registered_losses (alpha : R) : list (String.string * rloss) :=
  [("mae", RMae); ("mse", RMse); ("cauchy", RCauchy);
   ("m-hinge", RHinge); ("s-hinge", RHinge); ("m-squared-hinge", RSqHinge); ("s-squared-hinge", RSqHinge);
   ("s-classnll", RClassnll);
   ("m-savage", RSavage); ("s-savage", RSavage); ("m-tangent", RTangent); ("s-tangent", RTangent);
   ("m-logistic", RLogistic); ("s-logistic", RLogistic); ("s-exponential", RExponential); ("m-exponential", RExponential);
   ("pinball", RPinball alpha)].
Local Close Scope string_scope.

(* the classes of losses the theorems distinguish *)
Definition rl_smooth (l : rloss) : bool :=
  match l with RMse | RCauchy | RClassnll | RSavage | RTangent | RLogistic | RExponential => true | _ => false end.
Definition rl_convex (l : rloss) : bool :=
  match l with RMse | RMae | RPinball _ | RHinge | RSqHinge | RLogistic | RExponential => true | _ => false end.

(* ---- sums and means over R ---------------------------------------------------------------------------------------- *)
Definition rsum (l : list R) : R := fold_right Rplus 0 l.
(* mean over the samples 0 .. n-1, the way the definitions of the objectives are written *)
Definition rnaive_mean (f : Z -> R) (n : Z) : R := rsum (map f (zrange 0 (Z.to_nat n))) / IZR n.
(* what the code computes: per-thread accumulation under a schedule, sum_reduce, `accumulator0 /= samples`
   (divisor translated from reduce.h) *)
Definition rreduced_mean (f : Z -> R) (workers : nat) (sched : list ((Z * Z) * nat)) (n : Z) : R :=
  map_reduce Rplus 0 f workers sched / IZR (src_c09_reduce_divisor n).

Definition rabs_sum (l : list R) : R := rsum (map Rabs l).
Definition rsq_sum (l : list R) : R := rsum (map (fun a => a * a) l).
Definition rsign (a : R) : R := psgn Rops a.           (* Eigen's sign(): (0 < a) - (a < 0) *)
Definition rlen (l : list R) : R := IZR (Z.of_nat (length l)).

(* ---- the objectives ----------------------------------------------------------------------------------------------- *)
Section RealObjectives.
  Variable lval : list R -> list R -> R.             (* loss value of one sample: target, output *)
  Variable lgrad : list R -> list R -> list R.       (* its gradient wrt the output *)

  (* ---- linear::function_t, x = [W (tsize rows of isize, row-major) | b (tsize)] (offsets translated) ---- *)
  Fixpoint rrows (k w : nat) (l : list R) : list (list R) :=
    match k with
    | O => []
    | S k' => firstn w l :: rrows k' w (skipn w l)
    end.
  Definition rlin_wflat (isize tsize : Z) (x : list R) : list R :=
    firstn (Z.to_nat (src_c09_lin_bias_offset isize tsize)) x.
  Definition rlin_W (isize tsize : Z) (x : list R) : list (list R) :=
    rrows (Z.to_nat tsize) (Z.to_nat isize) (rlin_wflat isize tsize x).
  Definition rlin_b (isize tsize : Z) (x : list R) : list R :=
    firstn (Z.to_nat tsize) (skipn (Z.to_nat (src_c09_lin_bias_offset isize tsize)) x).

  (* linear::predict: output = W * input + b *)
  Definition rlin_out (W : list (list R)) (b xi : list R) : list R :=
    C09_Defs.map2 (fun wr bc => Rdot wr xi + bc) W b.

  (* the data term on structured parameters: mean_i loss(t_i, W x_i + b) *)
  Definition rlin_data (W : list (list R)) (b : list R) (T X : list (list R)) : R :=
    rnaive_mean (fun i => lval (nthZ T i []) (rlin_out W b (nthZ X i []))) (Z.of_nat (length X)).
  (* regularisation, the definition: l1 mean|W| + l2/2 mean W^2 *)
  Definition rreg_value (l1 l2 : R) (w : list R) : R := l1 * (rabs_sum w / rlen w) + l2 / 2 * (rsq_sum w / rlen w).
  (* regularisation as the code evaluates it: guards l1 > 0, l2 > 0; 0.5 * (sqrt(l2) * W).square().mean() *)
  Definition rreg_code (l1 l2 : R) (w : list R) : R :=
    (if Rltb 0 l1 then l1 * (rabs_sum w / rlen w) else 0) +
    (if Rltb 0 l2 then / 2 * (rsum (map (fun a => (sqrt l2 * a) * (sqrt l2 * a)) w) / rlen w) else 0).
  Definition rreg_grad (l1 l2 : R) (w : list R) (k : nat) : R :=
    l1 * rsign (nth k w 0) / rlen w + l2 * nth k w 0 / rlen w.
  Definition rreg_grad_code (l1 l2 : R) (w : list R) (k : nat) : R :=
    (if Rltb 0 l1 then l1 * rsign (nth k w 0) / rlen w else 0) + (if Rltb 0 l2 then l2 * nth k w 0 / rlen w else 0).

  (* the definition of the property, on the flat parameter vector the library takes *)
  Definition rlin_naive_value (isize tsize : Z) (l1 l2 : R) (x : list R) (T X : list (list R)) : R :=
    rlin_data (rlin_W isize tsize x) (rlin_b isize tsize x) T X + rreg_value l1 l2 (rlin_wflat isize tsize x).
  (* d/dW(c,j) = mean_i dloss_c(i) x_i(j) + l1 sign(W(c,j))/#W + l2 W(c,j)/#W;  d/db(c) = mean_i dloss_c(i) *)
  Definition rlin_gW_data (W : list (list R)) (b : list R) (T X : list (list R)) (c j : nat) : R :=
    rnaive_mean (fun i => nth c (lgrad (nthZ T i []) (rlin_out W b (nthZ X i []))) 0 * nth j (nthZ X i []) 0)
                (Z.of_nat (length X)).
  Definition rlin_gb_data (W : list (list R)) (b : list R) (T X : list (list R)) (c : nat) : R :=
    rnaive_mean (fun i => nth c (lgrad (nthZ T i []) (rlin_out W b (nthZ X i []))) 0) (Z.of_nat (length X)).
  Definition rlin_naive_gW (isize tsize : Z) (l1 l2 : R) (x : list R) (T X : list (list R)) (c j : nat) : R :=
    rlin_gW_data (rlin_W isize tsize x) (rlin_b isize tsize x) T X c j +
    rreg_grad l1 l2 (rlin_wflat isize tsize x) (c * Z.to_nat isize + j).
  Definition rlin_naive_gb (isize tsize : Z) (x : list R) (T X : list (list R)) (c : nat) : R :=
    rlin_gb_data (rlin_W isize tsize x) (rlin_b isize tsize x) T X c.

  (* what the code evaluates: every scalar of the accumulator (value, each gradient coordinate) is accumulated per
     thread under the schedule and reduced; the regularisation terms are added afterwards *)
  Definition rlin_value (isize tsize : Z) (l1 l2 : R) (x : list R) (T X : list (list R)) workers sched : R :=
    rreduced_mean (fun i => lval (nthZ T i []) (rlin_out (rlin_W isize tsize x) (rlin_b isize tsize x) (nthZ X i [])))
                  workers sched (Z.of_nat (length X))
    + rreg_code l1 l2 (rlin_wflat isize tsize x).
  Definition rlin_gW (isize tsize : Z) (l1 l2 : R) (x : list R) (T X : list (list R)) workers sched (c j : nat) : R :=
    rreduced_mean (fun i => nth c (lgrad (nthZ T i []) (rlin_out (rlin_W isize tsize x) (rlin_b isize tsize x) (nthZ X i []))) 0
                            * nth j (nthZ X i []) 0) workers sched (Z.of_nat (length X))
    + rreg_grad_code l1 l2 (rlin_wflat isize tsize x) (c * Z.to_nat isize + j).
  Definition rlin_gb (isize tsize : Z) (x : list R) (T X : list (list R)) workers sched (c : nat) : R :=
    rreduced_mean (fun i => nth c (lgrad (nthZ T i []) (rlin_out (rlin_W isize tsize x) (rlin_b isize tsize x) (nthZ X i []))) 0)
                  workers sched (Z.of_nat (length X)).

  (* ---- gboost::bias_function_t: output = x for every sample ---- *)
  Definition rbias_naive_value (x : list R) (T : list (list R)) : R :=
    rnaive_mean (fun i => lval (nthZ T i []) x) (Z.of_nat (length T)).
  Definition rbias_naive_grad (x : list R) (T : list (list R)) (c : nat) : R :=
    rnaive_mean (fun i => nth c (lgrad (nthZ T i []) x) 0) (Z.of_nat (length T)).
  Definition rbias_value (x : list R) (T : list (list R)) workers sched : R :=
    rreduced_mean (fun i => lval (nthZ T i []) x) workers sched (Z.of_nat (length T)).
  Definition rbias_grad (x : list R) (T : list (list R)) workers sched (c : nat) : R :=
    rreduced_mean (fun i => nth c (lgrad (nthZ T i []) x) 0) workers sched (Z.of_nat (length T)).

  (* ---- gboost::scale_function_t: output_i = s_i + x[group_i] * w_i, unassigned (translated test): s_i alone ---- *)
  Definition rscale_of (x : list R) (g : Z) : R := if src_c09_scale_unassigned g then 0 else nthZ x g 0.
  Definition rscale_out (x : list R) (groups : list Z) (S Wk : list (list R)) (s : Z) : list R :=
    Rvadd (nthZ S s []) (Rvscale (rscale_of x (nthZ groups s (-1)%Z)) (nthZ Wk s [])).
  Definition rscale_naive_value x groups S Wk (T : list (list R)) (smp : list Z) : R :=
    rnaive_mean (fun i => lval (nthZ T i []) (rscale_out x groups S Wk (nthZ smp i 0%Z))) (Z.of_nat (length smp)).
  (* gradient wrt x[g]: mean over ALL samples of [group_i = g] <dloss(i), w_i>  (the code skips group < 0) *)
  Definition rscale_gterm x groups S Wk (T : list (list R)) (smp : list Z) (g : Z) (i : Z) : R :=
    let s := nthZ smp i 0%Z in
    if src_c09_scale_grad_skip (nthZ groups s (-1)%Z) then 0
    else if (nthZ groups s (-1)%Z =? g)%Z
         then Rdot (lgrad (nthZ T i []) (rscale_out x groups S Wk s)) (nthZ Wk s [])
         else 0.
  Definition rscale_naive_grad x groups S Wk T smp (g : Z) : R :=
    rnaive_mean (rscale_gterm x groups S Wk T smp g) (Z.of_nat (length smp)).
  Definition rscale_value x groups S Wk (T : list (list R)) (smp : list Z) workers sched : R :=
    rreduced_mean (fun i => lval (nthZ T i []) (rscale_out x groups S Wk (nthZ smp i 0%Z))) workers sched (Z.of_nat (length smp)).
  Definition rscale_grad x groups S Wk T smp workers sched (g : Z) : R :=
    rreduced_mean (rscale_gterm x groups S Wk T smp g) workers sched (Z.of_nat (length smp)).

  (* ---- gboost::grads_function_t: x = one output row per sample; value = m_values.mean(),
     gx = m_vgrads / static_cast<scalar_t>(samples.size()) (divisor translated) ---- *)
  Definition rgrads_naive_value (T O : list (list R)) : R :=
    rnaive_mean (fun i => lval (nthZ T i []) (nthZ O i [])) (Z.of_nat (length O)).
  Definition rgrads_naive_grad (T O : list (list R)) (i : Z) (c : nat) : R :=
    nth c (lgrad (nthZ T i []) (nthZ O i [])) 0 / IZR (src_c09_grads_divisor (Z.of_nat (length O))).
  (* the buffers m_values / m_vgrads written range by range over stale content (run_writes of C09_Defs at type R) *)
  Definition rgrads_vbuf (T O : list (list R)) (sched : list ((Z * Z) * nat)) (old : list R) : list R :=
    run_writes (fun i => lval (nthZ T i []) (nthZ O i [])) sched old.
  Definition rgrads_value (T O : list (list R)) sched (old : list R) : R :=
    rsum (rgrads_vbuf T O sched old) / rlen (rgrads_vbuf T O sched old).
End RealObjectives.

(* perturbations used by the derivative statements *)
Definition runit (n c : nat) : list R := map (fun k => if Nat.eqb k c then 1 else 0) (seq 0 n).
Definition rzeros (n : nat) : list R := repeat 0 n.
Definition runitmat (rows cols c j : nat) : list (list R) :=
  map (fun r => if Nat.eqb r c then runit cols j else rzeros cols) (seq 0 rows).
Definition rmadd (A B : list (list R)) : list (list R) := C09_Defs.map2 (fun a b => Rvadd a b) A B.
Definition rmscale (s : R) (A : list (list R)) : list (list R) := map (Rvscale s) A.

(* ---- floating-point summation over an arbitrary reduction tree ------------------------------------------------------ *)
Inductive sumtree := Leaf (x : R) | Node (l r : sumtree).
Fixpoint leaves (t : sumtree) : list R :=
  match t with Leaf x => [x] | Node l r => leaves l ++ leaves r end.
Fixpoint height (t : sumtree) : nat :=
  match t with Leaf _ => O | Node l r => S (Nat.max (height l) (height r)) end.
(* the rounded sum: every inner node performs ONE rounded addition *)
Fixpoint tsum (rnd : R -> R) (t : sumtree) : R :=
  match t with Leaf x => x | Node l r => rnd (tsum rnd l + tsum rnd r) end.
(* gamma_k = k u / (1 - k u) *)
Definition gamma (u : R) (k : nat) : R := INR k * u / (1 - INR k * u).
(* binary64: unit roundoff 2^-53, half of the smallest subnormal 2^-1075 *)
Definition u64 : R := / 9007199254740992.
Definition eta64 : R := powerRZ 2 (-1075).

(* the same bound in exact rational arithmetic (extracted; evaluated by the driver on the measured terms):
   |fx - (sum vs) / n| <= gamma_k * (sum |vs|) / n + eta *)
Local Open Scope Q_scope.
Definition u64Q : Q := 1 # 9007199254740992.
Definition eta64Q : Q := 1 # (2 ^ 1075)%positive.
Definition gammaQ (k : Z) : Q := (inject_Z k * u64Q) / (1 - inject_Z k * u64Q).
Definition qsumabs (l : list Q) : Q := fold_right (fun a acc => qabs a + acc) 0 l.
Definition fp_mean_bound (k : Z) (vs : list Q) : Q :=
  gammaQ k * qsumabs vs / inject_Z (Z.of_nat (length vs)) + eta64Q.
Definition fp_mean_okb (k : Z) (vs : list Q) (fx : Q) : bool :=
  Qle_bool (qabs (fx - qsum vs / inject_Z (Z.of_nat (length vs)))) (fp_mean_bound k vs).
(* two evaluations of the same mean (any two reduction trees, any two configurations) *)
Definition fp_pair_okb (k : Z) (vs : list Q) (fa fb : Q) : bool :=
  Qle_bool (qabs (fa - fb)) (2 * fp_mean_bound k vs).
