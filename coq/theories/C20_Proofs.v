(* C20 -- proofs about the model of C20_Defs.v.

   Everything in Section Order is proved for an arbitrary scalar type whose three-way comparison is a
   total preorder (the two Hypotheses; discharged for Z_ops and Q_ops at the end).  The arithmetic
   operations stay uninterpreted: "mean"/"median" of a bin are the operations the code performs, applied
   to the list of values the counting rule puts into the bin. *)
From Coq Require Import List ZArith Bool Lia Sorted Permutation QArith Qround Floats Arith.
From LNGen Require Import Src_pctile Src_histogram.
From LN Require Import C20_Defs.
Import ListNotations.
Local Open Scope Z_scope.

(* ------------------------------------------------------------------------------------------------ *)
(* what the translated kernels say (each lemma breaks when the source expression changes meaning)    *)
(* ------------------------------------------------------------------------------------------------ *)
Lemma k_pct_last n : src_pct_last n = n - 1.
Proof. reflexivity. Qed.
Lemma k_pct_same l r : src_pct_same l r = (l =? r).
Proof. reflexivity. Qed.
Lemma k_hist_bins n : src_hist_bins n = n + 1.
Proof. reflexivity. Qed.
Lemma k_hist_loop b n : src_hist_loop b n = (b <? n).
Proof. reflexivity. Qed.
Lemma k_hist_not_last b n : src_hist_not_last b n = (b + 1 <? n).
Proof. reflexivity. Qed.
Lemma k_goes_right c : src_hist_goes_right 0 c = (0 <=? c).
Proof. unfold src_hist_goes_right. rewrite Z.geb_leb. reflexivity. Qed.
(* the comparison handed to upper_bound is invariant under translation: evaluating it on the three-way
   comparison against 0 (as the model does) is the same as evaluating it on the two integers *)
Lemma k_goes_right_order t v : src_hist_goes_right t v = src_hist_goes_right 0 (zcmp v t).
Proof.
  unfold src_hist_goes_right, zcmp. rewrite !Z.geb_leb.
  destruct (Z.compare_spec v t); destruct (Z.leb_spec t v); destruct (Z.leb_spec 0 0);
    try reflexivity; try lia; cbn; try lia; try reflexivity.
Qed.
Lemma k_hist_nonempty c : src_hist_nonempty c = (0 <? c).
Proof. unfold src_hist_nonempty. rewrite Z.gtb_ltb. reflexivity. Qed.
Lemma k_bin_query v : src_bin_query v = v.
Proof. reflexivity. Qed.
Lemma k_bin_at_end i e : src_bin_at_end i e = (i =? e).
Proof. reflexivity. Qed.
Lemma k_bin_last n : src_bin_last n = n - 1.
Proof. reflexivity. Qed.
Lemma k_bin_found i : src_bin_found i = i.
Proof. reflexivity. Qed.

(* ------------------------------------------------------------------------------------------------ *)
(* generic list facts                                                                                *)
(* ------------------------------------------------------------------------------------------------ *)
Definition count {A} (f : A -> bool) (l : list A) : nat := length (filter f l).

Lemma count_perm {A} (f : A -> bool) l l' : Permutation l l' -> count f l = count f l'.
Proof.
  unfold count. induction 1; cbn.
  - reflexivity.
  - destruct (f x); cbn; congruence.
  - destruct (f x), (f y); reflexivity.
  - congruence.
Qed.

Lemma count_mono {A} (f g : A -> bool) l :
  (forall x, In x l -> f x = true -> g x = true) -> (count f l <= count g l)%nat.
Proof.
  unfold count. induction l as [|a l IH]; intros H; cbn; [lia|].
  assert (IH' := IH (fun x Hx => H x (or_intror Hx))).
  destruct (f a) eqn:Ef.
  - rewrite (H a (or_introl eq_refl) Ef). cbn. lia.
  - destruct (g a); cbn; lia.
Qed.

Lemma filter_all_true {A} (f : A -> bool) l : (forall x, In x l -> f x = true) -> filter f l = l.
Proof.
  induction l as [|a l IH]; intros H; cbn; [reflexivity|].
  rewrite (H a (or_introl eq_refl)). f_equal. apply IH. intros x Hx. apply H. right. exact Hx.
Qed.

Lemma filter_all_false {A} (f : A -> bool) l : (forall x, In x l -> f x = false) -> filter f l = [].
Proof.
  induction l as [|a l IH]; intros H; cbn; [reflexivity|].
  rewrite (H a (or_introl eq_refl)). apply IH. intros x Hx. apply H. right. exact Hx.
Qed.

Lemma filter_filter {A} (f g : A -> bool) l : filter f (filter g l) = filter (fun x => g x && f x) l.
Proof.
  induction l as [|a l IH]; cbn; [reflexivity|].
  destruct (g a); cbn; [destruct (f a); cbn; congruence | exact IH].
Qed.

Lemma filter_ext_in' {A} (f g : A -> bool) l : (forall x, In x l -> f x = g x) -> filter f l = filter g l.
Proof.
  induction l as [|a l IH]; intros H; cbn; [reflexivity|].
  rewrite (H a (or_introl eq_refl)). rewrite IH; [reflexivity|]. intros x Hx. apply H. right. exact Hx.
Qed.

Lemma StronglySorted_filter {A} (R : A -> A -> Prop) (f : A -> bool) l :
  StronglySorted R l -> StronglySorted R (filter f l).
Proof.
  induction 1 as [|a l Hs IH Hf]; cbn; [constructor|].
  destruct (f a); [|exact IH]. constructor; [exact IH|].
  rewrite Forall_forall in *. intros x Hx. apply filter_In in Hx. apply Hf. tauto.
Qed.

Lemma StronglySorted_nth {A} (R : A -> A -> Prop) l d :
  StronglySorted R l -> forall i j, (i < j < length l)%nat -> R (nth i l d) (nth j l d).
Proof.
  induction 1 as [|a l Hs IH Hf]; intros i j Hij; cbn in Hij; [lia|].
  destruct j as [|j]; [lia|]. destruct i as [|i]; cbn.
  - rewrite Forall_forall in Hf. apply Hf. apply nth_In. lia.
  - apply IH. lia.
Qed.

(* ------------------------------------------------------------------------------------------------ *)
(* the order                                                                                         *)
(* ------------------------------------------------------------------------------------------------ *)
Section Order.
Context {T : Type} (Op : ops T).
Hypothesis cmp_antisym : forall x y, cmp Op y x = - cmp Op x y.
Hypothesis cmp_trans : forall x y z, cmp Op x y <= 0 -> cmp Op y z <= 0 -> cmp Op x z <= 0.

Definition le (x y : T) : Prop := cmp Op x y <= 0.
Definition lt (x y : T) : Prop := cmp Op x y < 0.
Definition equiv (x y : T) : Prop := cmp Op x y = 0.

Lemma cmp_refl x : cmp Op x x = 0.
Proof. pose proof (cmp_antisym x x). lia. Qed.
Lemma le_refl x : le x x.
Proof. unfold le. rewrite cmp_refl. lia. Qed.
Lemma le_trans x y z : le x y -> le y z -> le x z.
Proof. apply cmp_trans. Qed.
Lemma lt_not_le x y : lt x y <-> ~ le y x.
Proof. unfold lt, le. rewrite (cmp_antisym x y). lia. Qed.
Lemma not_lt_le x y : ~ lt x y <-> le y x.
Proof. unfold lt, le. rewrite (cmp_antisym x y). lia. Qed.
Lemma lt_le x y : lt x y -> le x y.
Proof. unfold lt, le. lia. Qed.
Lemma lt_le_trans x y z : lt x y -> le y z -> lt x z.
Proof.
  intros Hxy Hyz. apply lt_not_le. intros Hzx.
  apply lt_not_le in Hxy. apply Hxy. eapply le_trans; eassumption.
Qed.
Lemma le_lt_trans x y z : le x y -> lt y z -> lt x z.
Proof.
  intros Hxy Hyz. apply lt_not_le. intros Hzx.
  apply lt_not_le in Hyz. apply Hyz. eapply le_trans; eassumption.
Qed.
Lemma ltb_lt x y : ltb Op x y = true <-> lt x y.
Proof. unfold ltb, lt. apply Z.ltb_lt. Qed.
Lemma ltb_false_le x y : ltb Op x y = false <-> le y x.
Proof. unfold ltb, le. rewrite Z.ltb_ge, (cmp_antisym x y). lia. Qed.
Lemma goes_right_spec v t : goes_right Op v t = negb (ltb Op v t).
Proof. unfold goes_right, ltb. rewrite k_goes_right. rewrite Z.leb_antisym. reflexivity. Qed.

(* ---- sorting ------------------------------------------------------------------------------------- *)
Lemma insert_perm x l : Permutation (insert Op x l) (x :: l).
Proof.
  induction l as [|y t IH]; cbn; [reflexivity|].
  destruct (ltb Op y x); [|reflexivity].
  rewrite IH. apply perm_swap.
Qed.

Lemma insert_sorted x l : StronglySorted le l -> StronglySorted le (insert Op x l).
Proof.
  induction 1 as [|y t Hs IH Hf]; cbn; [repeat constructor|].
  destruct (ltb Op y x) eqn:E.
  - constructor; [exact IH|].
    apply (Permutation_Forall (Permutation_sym (insert_perm x t))).
    constructor; [apply lt_le, ltb_lt, E | exact Hf].
  - apply ltb_false_le in E. constructor; [constructor; assumption|].
    constructor; [exact E|].
    rewrite Forall_forall in *. intros z Hz. eapply le_trans; [exact E | apply Hf, Hz].
Qed.

Lemma sort_perm l : Permutation (sort Op l) l.
Proof.
  induction l as [|x l IH]; cbn; [reflexivity|].
  rewrite insert_perm. constructor. exact IH.
Qed.

Lemma sort_sorted l : StronglySorted le (sort Op l).
Proof. induction l as [|x l IH]; cbn; [constructor | apply insert_sorted, IH]. Qed.

Lemma sort_length l : length (sort Op l) = length l.
Proof. apply Permutation_length, sort_perm. Qed.

(* a sorted input is left unchanged: percentile and percentile_sorted agree on sorted data *)
Lemma sort_id l : StronglySorted le l -> sort Op l = l.
Proof.
  induction 1 as [|x l Hs IH Hf]; [reflexivity|].
  change (sort Op (x :: l)) with (insert Op x (sort Op l)).
  rewrite IH. destruct l as [|y t]; cbn; [reflexivity|].
  inversion Hf as [|? ? Hxy _]; subst.
  apply ltb_false_le in Hxy. rewrite Hxy. reflexivity.
Qed.

(* ---- order statistics: the element at index k of the sorted list, characterised by ranks -------- *)
Definition count_lt (x : T) (l : list T) : nat := count (fun y => ltb Op y x) l.
Definition count_le (x : T) (l : list T) : nat := count (fun y => negb (ltb Op x y)) l.

Lemma sorted_rank_lt s d : StronglySorted le s ->
  forall k, (k < length s)%nat -> (count_lt (nth k s d) s <= k)%nat.
Proof.
  unfold count_lt, count.
  induction 1 as [|a t Hs IH Hf]; intros k Hk; cbn in Hk; [lia|].
  destruct k as [|k]; cbn [nth].
  - rewrite filter_all_false; [cbn; lia|].
    intros y [Hy|Hy].
    + subst. unfold ltb. rewrite cmp_refl. reflexivity.
    + apply ltb_false_le. rewrite Forall_forall in Hf. apply Hf, Hy.
  - cbn [filter]. assert (IHk := IH k ltac:(lia)).
    destruct (ltb Op a (nth k t d)); cbn [length]; lia.
Qed.

Lemma sorted_rank_le s d : StronglySorted le s ->
  forall k, (k < length s)%nat -> (k < count_le (nth k s d) s)%nat.
Proof.
  unfold count_le, count.
  induction 1 as [|a t Hs IH Hf]; intros k Hk; cbn in Hk; [lia|].
  destruct k as [|k]; cbn [nth filter].
  - unfold ltb at 1. rewrite cmp_refl. cbn. lia.
  - assert (IHk := IH k ltac:(lia)).
    assert (Ha : ltb Op (nth k t d) a = false).
    { apply ltb_false_le. rewrite Forall_forall in Hf. apply Hf, nth_In. lia. }
    rewrite Ha. cbn. lia.
Qed.

Lemma order_statistic l d k : (k < length l)%nat ->
  let x := nth k (sort Op l) d in
  In x l /\ (count_lt x l <= k)%nat /\ (k < count_le x l)%nat.
Proof.
  intros Hk x. assert (Hk' : (k < length (sort Op l))%nat) by (rewrite sort_length; exact Hk).
  split; [|split].
  - apply (Permutation_in _ (sort_perm l)). apply nth_In. exact Hk'.
  - unfold count_lt. rewrite <- (count_perm _ _ _ (sort_perm l)).
    apply (sorted_rank_lt _ d (sort_sorted l) k Hk').
  - unfold count_le. rewrite <- (count_perm _ _ _ (sort_perm l)).
    apply (sorted_rank_le _ d (sort_sorted l) k Hk').
Qed.

(* the ranks determine the value up to equivalence: any correct sort / nth_element gives the same answer *)
Lemma rank_unique l k x y :
  (count_lt x l <= k)%nat -> (k < count_le x l)%nat ->
  (count_lt y l <= k)%nat -> (k < count_le y l)%nat -> equiv x y.
Proof.
  intros Hx1 Hx2 Hy1 Hy2. unfold equiv.
  assert (A : forall a b, lt a b -> (count_le a l <= count_lt b l)%nat).
  { intros a b Hab. unfold count_le, count_lt. apply count_mono. intros z _ Hz.
    apply negb_true_iff, ltb_false_le in Hz. apply ltb_lt. eapply le_lt_trans; eassumption. }
  destruct (Z.lt_trichotomy (cmp Op x y) 0) as [H|[H|H]]; [|exact H|].
  - specialize (A x y H). lia.
  - assert (H' : lt y x) by (unfold lt; rewrite (cmp_antisym x y); lia).
    specialize (A y x H'). lia.
Qed.

Lemma any_sort_agrees l s' d k :
  StronglySorted le s' -> Permutation s' l -> (k < length l)%nat ->
  equiv (nth k s' d) (nth k (sort Op l) d).
Proof.
  intros Hs Hp Hk.
  assert (Hk' : (k < length s')%nat) by (rewrite (Permutation_length Hp); exact Hk).
  destruct (order_statistic l d k Hk) as (_ & H1 & H2).
  apply (rank_unique l k); try assumption.
  - unfold count_lt. rewrite <- (count_perm _ _ _ Hp). apply (sorted_rank_lt _ d Hs k Hk').
  - unfold count_le. rewrite <- (count_perm _ _ _ Hp). apply (sorted_rank_le _ d Hs k Hk').
Qed.


(* ---- percentile --------------------------------------------------------------------------------- *)
(* the midpoint as the (repaired) source computes it: [mid] of C20_Defs *)
Definition midpoint (a b : T) : T := mid Op a b.

Lemma pick_spec s l r :
  pick Op s l r = if l =? r then nthZ Op s l else midpoint (nthZ Op s l) (nthZ Op s r).
Proof. reflexivity. Qed.

Lemma percentile_spec l p :
  let s := sort Op l in
  let n := Z.of_nat (length l) in
  let lp := pct_lpos p n in
  let rp := pct_rpos p n in
  StronglySorted le s /\ Permutation s l /\
  percentile Op l p = (if lp =? rp then nthZ Op s lp else midpoint (nthZ Op s lp) (nthZ Op s rp)).
Proof.
  intros s n lp rp. split; [apply sort_sorted|split; [apply sort_perm|]].
  unfold percentile, percentile_sorted. rewrite sort_length. reflexivity.
Qed.

Lemma percentile_sorted_agrees s p :
  StronglySorted le s -> percentile_sorted Op s p = percentile Op s p.
Proof. intros H. unfold percentile. rewrite (sort_id s H). reflexivity. Qed.

(* ---- histogram: the bins -------------------------------------------------------------------------- *)
(* structural description of update(): split at each threshold in turn *)
Fixpoint bins_of (ths s : list T) : list (list T) :=
  match ths with
  | [] => [s]
  | t :: ts => let (a, b) := split_thr Op t s in a :: bins_of ts b
  end.

Lemma split_thr_app t s : fst (split_thr Op t s) ++ snd (split_thr Op t s) = s.
Proof.
  induction s as [|v r IH]; cbn; [reflexivity|].
  destruct (goes_right Op v t); [reflexivity|].
  destruct (split_thr Op t r) as [a b]. cbn in *. congruence.
Qed.

Lemma split_thr_sorted t s : StronglySorted le s ->
  split_thr Op t s = (filter (fun v => ltb Op v t) s, filter (fun v => negb (ltb Op v t)) s).
Proof.
  induction 1 as [|v r Hs IH Hf]; [reflexivity|].
  cbn [split_thr filter]. rewrite goes_right_spec.
  destruct (ltb Op v t) eqn:E; cbn [negb].
  - rewrite IH. reflexivity.
  - apply ltb_false_le in E.
    assert (A : forall z, In z r -> ltb Op z t = false).
    { intros z Hz. apply ltb_false_le. rewrite Forall_forall in Hf.
      eapply le_trans; [exact E | apply Hf, Hz]. }
    rewrite (filter_all_false (fun v0 => ltb Op v0 t) r A).
    rewrite (filter_all_true (fun v0 => negb (ltb Op v0 t)) r); [reflexivity|].
    intros z Hz. rewrite (A z Hz). reflexivity.
Qed.

Lemma nthZ_middle (done rest : list T) t :
  nthZ Op (done ++ t :: rest) (Z.of_nat (length done)) = t.
Proof.
  unfold nthZ. destruct (Z.ltb_spec (Z.of_nat (length done)) 0); [lia|].
  rewrite Nat2Z.id. apply nth_middle.
Qed.

Lemma update_loop_bins_of rest : forall done s,
  update_loop Op (S (length rest)) (Z.of_nat (length done))
              (src_hist_bins (Z.of_nat (length (done ++ rest)))) (done ++ rest) s = bins_of rest s.
Proof.
  induction rest as [|t r IH]; intros done s.
  - cbn [update_loop length bins_of]. rewrite k_hist_loop, k_hist_not_last, k_hist_bins, app_nil_r.
    destruct (Z.ltb_spec (Z.of_nat (length done)) (Z.of_nat (length done) + 1)); [|lia].
    destruct (Z.ltb_spec (Z.of_nat (length done) + 1) (Z.of_nat (length done) + 1)); [lia|].
    reflexivity.
  - cbn [update_loop bins_of]. rewrite k_hist_loop, k_hist_not_last, k_hist_bins.
    rewrite app_length. cbn [length].
    destruct (Z.ltb_spec (Z.of_nat (length done)) (Z.of_nat (length done + S (length r)) + 1)); [|lia].
    destruct (Z.ltb_spec (Z.of_nat (length done) + 1) (Z.of_nat (length done + S (length r)) + 1)); [|lia].
    rewrite nthZ_middle. destruct (split_thr Op t s) as [a b]. f_equal.
    specialize (IH (done ++ [t]) b).
    rewrite <- app_assoc in IH. cbn [app] in IH.
    rewrite app_length in IH. cbn [length] in IH.
    replace (Z.of_nat (length done) + 1) with (Z.of_nat (length done + 1)) by lia.
    rewrite <- IH. rewrite k_hist_bins. rewrite !app_length. cbn [length]. reflexivity.
Qed.

Lemma hist_bins_eq ths s : hist_bins Op ths s = bins_of ths s.
Proof.
  unfold hist_bins. pose proof (update_loop_bins_of ths [] s) as H. cbn [app length] in H.
  rewrite <- H. rewrite k_hist_bins.
  replace (Z.to_nat (Z.of_nat (length ths) + 1)) with (S (length ths)) by lia. reflexivity.
Qed.

Lemma bins_of_length ths : forall s, length (bins_of ths s) = S (length ths).
Proof.
  induction ths as [|t ts IH]; intros s; cbn; [reflexivity|].
  destruct (split_thr Op t s). cbn. rewrite IH. reflexivity.
Qed.

Lemma bins_of_concat ths : forall s, concat (bins_of ths s) = s.
Proof.
  induction ths as [|t ts IH]; intros s; cbn; [apply app_nil_r|].
  pose proof (split_thr_app t s) as H. destruct (split_thr Op t s) as [a b]. cbn in *.
  rewrite IH. exact H.
Qed.

(* bin b consists of exactly the values whose threshold search ([ub], what bin() does) gives b *)
Lemma bins_of_nth ths : forall s b, StronglySorted le s -> (b <= length ths)%nat ->
  nth b (bins_of ths s) [] = filter (fun v => Nat.eqb (ub Op ths v) b) s.
Proof.
  induction ths as [|t ts IH]; intros s b Hs Hb; cbn in Hb.
  - assert (b = 0)%nat by lia. subst. cbn. symmetry. apply filter_all_true. reflexivity.
  - cbn [bins_of]. rewrite (split_thr_sorted t s Hs).
    destruct b as [|b]; cbn [nth].
    + apply filter_ext_in'. intros v _. cbn [ub]. destruct (ltb Op v t); reflexivity.
    + rewrite IH; [|apply StronglySorted_filter, Hs|lia].
      rewrite filter_filter. apply filter_ext_in'. intros v _. cbn [ub].
      destruct (ltb Op v t); reflexivity.
Qed.

(* ---- bin(v) ------------------------------------------------------------------------------------------ *)
Lemma ub_le_length st v : (ub Op st v <= length st)%nat.
Proof. induction st as [|t r IH]; cbn; [lia|]. destruct (ltb Op v t); lia. Qed.

Lemma hist_bin_ub st v : hist_bin Op st v = Z.of_nat (ub Op st v).
Proof.
  unfold hist_bin. rewrite k_bin_at_end, k_bin_last, k_hist_bins, k_bin_found.
  destruct (Z.eqb_spec (Z.of_nat (ub Op st v)) (Z.of_nat (length st))); lia.
Qed.

(* first-index characterisation of the search (no sortedness needed) *)
Lemma ub_spec d v st : forall b,
  ub Op st v = b <->
  ((b <= length st)%nat /\ (forall i, (i < b)%nat -> le (nth i st d) v) /\
   ((b < length st)%nat -> lt v (nth b st d))).
Proof.
  induction st as [|t r IH]; intros b; cbn [ub length].
  - split.
    + intros <-. split; [lia|]. split; intros; lia.
    + intros (H & _ & _). lia.
  - destruct (ltb Op v t) eqn:E.
    + split.
      * intros <-. split; [lia|]. split; [intros; lia|]. intros _. cbn. apply ltb_lt, E.
      * intros (_ & H & _). destruct b as [|b]; [reflexivity|].
        exfalso. specialize (H 0%nat ltac:(lia)). cbn in H.
        apply ltb_lt, lt_not_le in E. contradiction.
    + destruct b as [|b].
      * split; [discriminate|]. intros (_ & _ & H). exfalso.
        specialize (H ltac:(lia)). cbn in H. apply ltb_lt in H. congruence.
      * rewrite Nat.succ_inj_wd. rewrite (IH b). apply ltb_false_le in E. split.
        -- intros (H1 & H2 & H3). split; [lia|]. split.
           ++ intros i Hi. destruct i as [|i]; cbn; [exact E | apply H2; lia].
           ++ intros Hb. cbn. apply H3. lia.
        -- intros (H1 & H2 & H3). split; [lia|]. split.
           ++ intros i Hi. apply (H2 (S i)). lia.
           ++ intros Hb. apply (H3 ltac:(lia)).
Qed.

(* the interval the counting rule assigns to bin b: thr_{b-1} <= v < thr_b *)
Definition in_bin (st : list T) (d : T) (b : nat) (v : T) : Prop :=
  (b = 0%nat \/ le (nth (b - 1) st d) v) /\ (b = length st \/ lt v (nth b st d)).

Lemma ub_in_bin d st v b : StronglySorted le st -> (b <= length st)%nat ->
  (ub Op st v = b <-> in_bin st d b v).
Proof.
  intros Hs Hb. rewrite (ub_spec d). unfold in_bin. split.
  - intros (_ & H2 & H3). split.
    + destruct b as [|b]; [left; reflexivity|right]. apply H2. lia.
    + destruct (Nat.eq_dec b (length st)); [left; assumption | right; apply H3; lia].
  - intros (H1 & H2). split; [exact Hb|]. split.
    + intros i Hi. destruct H1 as [H1|H1]; [lia|].
      destruct (Nat.eq_dec i (b - 1)) as [->|Hne]; [exact H1|].
      eapply le_trans; [|exact H1]. apply (StronglySorted_nth le st d Hs). lia.
    + intros Hlt. destruct H2 as [H2|H2]; [lia | exact H2].
Qed.


(* ---- the statements used by Properties_C20 ---------------------------------------------------------- *)
(* boolean form of the interval rule, default element = nan (never looked at for b <= length st) *)
Definition in_binb (st : list T) (b : nat) (v : T) : bool :=
  (Nat.eqb b 0 || negb (ltb Op v (nth (b - 1) st (nan Op)))) &&
  (Nat.eqb b (length st) || ltb Op v (nth b st (nan Op))).

Lemma in_binb_spec st b v : in_binb st b v = true <-> in_bin st (nan Op) b v.
Proof.
  unfold in_binb, in_bin. rewrite andb_true_iff, !orb_true_iff, !Nat.eqb_eq, negb_true_iff.
  rewrite ltb_false_le, ltb_lt. reflexivity.
Qed.

Lemma bin_agrees st v b : StronglySorted le st -> (b <= length st)%nat ->
  (hist_bin Op st v = Z.of_nat b <-> in_binb st b v = true).
Proof.
  intros Hs Hb. rewrite hist_bin_ub, in_binb_spec, <- (ub_in_bin (nan Op) st v b Hs Hb). lia.
Qed.

Lemma bin_range st v : 0 <= hist_bin Op st v <= Z.of_nat (length st).
Proof. rewrite hist_bin_ub. pose proof (ub_le_length st v). lia. Qed.

Lemma bin_summary_spec b :
  bin_summary Op b =
  (Z.of_nat (length b),
   if 0 <? Z.of_nat (length b) then mean_of Op b else nan Op,
   if 0 <? Z.of_nat (length b) then median_sorted Op b else nan Op).
Proof. unfold bin_summary. rewrite k_hist_nonempty. destruct (0 <? Z.of_nat (length b)); reflexivity. Qed.

Lemma hist_partition thr vals :
  let st := sort Op thr in
  let s := sort Op vals in
  let B := hist_bins Op st s in
  (StronglySorted le st /\ Permutation st thr) /\
  length B = S (length thr) /\
  concat B = s /\ Permutation (concat B) vals /\
  (forall b, (b <= length thr)%nat ->
     nth b B [] = filter (in_binb st b) s /\
     nth b B [] = filter (fun v => hist_bin Op st v =? Z.of_nat b) s /\
     length (nth b B []) = count (in_binb st b) vals) /\
  histogram Op thr vals = (st, map (bin_summary Op) B).
Proof.
  intros st s B. unfold B. rewrite hist_bins_eq.
  assert (Hst : StronglySorted le st) by apply sort_sorted.
  assert (Hs : StronglySorted le s) by apply sort_sorted.
  assert (Hl : length st = length thr) by apply sort_length.
  split; [split; [exact Hst | apply sort_perm]|].
  split; [rewrite bins_of_length, Hl; reflexivity|].
  split; [apply bins_of_concat|].
  split; [rewrite bins_of_concat; apply sort_perm|].
  split.
  - intros b Hb. rewrite <- Hl in Hb.
    assert (E : nth b (bins_of st s) [] = filter (in_binb st b) s).
    { rewrite (bins_of_nth st s b Hs Hb). apply filter_ext_in'. intros v _.
      destruct (Nat.eqb_spec (ub Op st v) b) as [e|e].
      - symmetry. apply in_binb_spec, (ub_in_bin (nan Op) st v b Hst Hb), e.
      - destruct (in_binb st b v) eqn:F; [|reflexivity].
        apply in_binb_spec, (ub_in_bin (nan Op) st v b Hst Hb) in F. contradiction. }
    split; [exact E|]. split.
    + rewrite E. apply filter_ext_in'. intros v _.
      destruct (Z.eqb_spec (hist_bin Op st v) (Z.of_nat b)) as [e|e].
      * apply (bin_agrees st v b Hst Hb), e.
      * destruct (in_binb st b v) eqn:F; [|reflexivity].
        apply (bin_agrees st v b Hst Hb) in F. contradiction.
    + rewrite E. apply (count_perm (in_binb st b) s vals), sort_perm.
  - unfold histogram. fold st s. rewrite hist_bins_eq. reflexivity.
Qed.

(* every data value lies in the bin that bin(v) names *)
Lemma bin_of_data thr vals v : In v vals ->
  In v (nth (Z.to_nat (hist_bin Op (sort Op thr) v)) (hist_bins Op (sort Op thr) (sort Op vals)) []).
Proof.
  intros Hv. destruct (hist_partition thr vals) as (_ & _ & _ & _ & H & _).
  pose proof (bin_range (sort Op thr) v) as R. rewrite sort_length in R.
  destruct (H (Z.to_nat (hist_bin Op (sort Op thr) v)) ltac:(lia)) as (_ & E & _).
  rewrite E. apply filter_In. split.
  - apply (Permutation_in _ (Permutation_sym (sort_perm vals))), Hv.
  - apply Z.eqb_eq. lia.
Qed.

End Order.

(* ------------------------------------------------------------------------------------------------ *)
(* the two exact instances satisfy the order hypotheses                                              *)
(* ------------------------------------------------------------------------------------------------ *)
Lemma zcmp_antisym x y : zcmp y x = - zcmp x y.
Proof. unfold zcmp. rewrite (Z.compare_antisym x y). destruct (x ?= y); reflexivity. Qed.
Lemma zcmp_le x y : zcmp x y <= 0 <-> x <= y.
Proof. unfold zcmp. destruct (Z.compare_spec x y); lia. Qed.
Lemma zcmp_trans x y z : zcmp x y <= 0 -> zcmp y z <= 0 -> zcmp x z <= 0.
Proof. rewrite !zcmp_le. lia. Qed.

Lemma qcmp_antisym x y : qcmp y x = - qcmp x y.
Proof. unfold qcmp. rewrite <- (Qcompare_antisym x y). destruct (x ?= y)%Q; reflexivity. Qed.
Lemma qcmp_le x y : qcmp x y <= 0 <-> (x <= y)%Q.
Proof.
  unfold qcmp. rewrite Qle_alt. destruct (x ?= y)%Q; split; intros H; try lia; try congruence.
Qed.
Lemma qcmp_trans x y z : qcmp x y <= 0 -> qcmp y z <= 0 -> qcmp x z <= 0.
Proof. rewrite !qcmp_le. apply Qle_trans. Qed.
Lemma qcmp_lt x y : qcmp x y < 0 <-> (x < y)%Q.
Proof.
  unfold qcmp. rewrite Qlt_alt. destruct (x ?= y)%Q; split; intros; try lia; try congruence.
Qed.

(* exact means do not depend on the order in which a bin is summed *)
Lemma qsum_perm l l' : Permutation l l' -> forall a, (fold_left Qplus l a == fold_left Qplus l' a)%Q.
Proof.
  induction 1; intros a; cbn.
  - reflexivity.
  - apply IHPermutation.
  - assert (E : forall u w, (u == w)%Q -> forall m, (fold_left Qplus m u == fold_left Qplus m w)%Q).
    { intros u w Huw m. revert u w Huw. induction m as [|c m IH]; intros u w Huw; cbn; [exact Huw|].
      apply IH. rewrite Huw. reflexivity. }
    apply E. ring.
  - rewrite IHPermutation1. apply IHPermutation2.
Qed.

(* ------------------------------------------------------------------------------------------------ *)
(* the binary64 position: floor/ceil are the integer floor/ceil of the represented number           *)
(* ------------------------------------------------------------------------------------------------ *)
Lemma SFfloor_div s m e : e < 0 ->
  SFfloor (S754_finite s m e) = (if s then Zneg m else Zpos m) / 2 ^ (- e).
Proof.
  intros He. unfold SFfloor. destruct (Z.leb_spec 0 e); [lia|].
  apply Z.shiftr_div_pow2. lia.
Qed.
Lemma SFceil_div s m e : e < 0 ->
  SFceil (S754_finite s m e) = - ((- (if s then Zneg m else Zpos m)) / 2 ^ (- e)).
Proof.
  intros He. unfold SFceil. destruct (Z.leb_spec 0 e); [lia|].
  rewrite Z.shiftr_div_pow2 by lia. reflexivity.
Qed.
Lemma SFfloor_int s m e : 0 <= e ->
  SFfloor (S754_finite s m e) = (if s then Zneg m else Zpos m) * 2 ^ e /\
  SFceil (S754_finite s m e) = (if s then Zneg m else Zpos m) * 2 ^ e.
Proof.
  intros He. unfold SFfloor, SFceil. destruct (Z.leb_spec 0 e); [|lia].
  rewrite Z.shiftl_mul_pow2 by lia. split; reflexivity.
Qed.

(* finite enumeration by computation *)
Definition Zrange (lo : Z) (n : nat) : list Z := map (fun i => lo + Z.of_nat i) (seq 0 n).
Lemma Zrange_In lo n x : lo <= x < lo + Z.of_nat n -> In x (Zrange lo n).
Proof.
  intros H. unfold Zrange. apply in_map_iff. exists (Z.to_nat (x - lo)). split; [lia|].
  apply in_seq. lia.
Qed.

(* the rational number denoted by a spec float is num/den *)
Definition SFvalue_is (x : spec_float) (num den : Z) : bool :=
  match x with
  | S754_zero _ => num =? 0
  | S754_finite s m e =>
      let z := if s then Zneg m else Zpos m in
      if 0 <=? e then z * 2 ^ e * den =? num else z * den =? num * 2 ^ (- e)
  | _ => false
  end.

(* percentages on the grid k/16 *)
Definition grid_p (k : Z) : float := (Z2F k / 16)%float.
Definition grid_check (k n : Z) : bool :=
  let x := Prim2SF (pct_position (grid_p k) n) in
  (SFfloor x =? (k * (n - 1)) / 1600) && (SFceil x =? - ((- (k * (n - 1))) / 1600)).

Lemma grid_p_exact_all : forallb (fun k => SFvalue_is (Prim2SF (grid_p k)) k 16) (Zrange 0 1601) = true.
Proof. vm_cast_no_check (eq_refl true). Qed.

(* exhaustive over the 1601 x 512 grid (about 40 s of vm_compute, evaluated once by the kernel at Qed) *)
Lemma grid_all : forallb (fun k => forallb (grid_check k) (Zrange 1 512)) (Zrange 0 1601) = true.
Proof. vm_cast_no_check (eq_refl true). Qed.

Lemma position_grid k n : 0 <= k <= 1600 -> 1 <= n <= 512 ->
  SFvalue_is (Prim2SF (grid_p k)) k 16 = true /\
  pct_lpos (grid_p k) n = (k * (n - 1)) / 1600 /\
  pct_rpos (grid_p k) n = - ((- (k * (n - 1))) / 1600).
Proof.
  intros Hk Hn.
  pose proof grid_p_exact_all as P. rewrite forallb_forall in P.
  pose proof grid_all as G. rewrite forallb_forall in G.
  assert (Ik : In k (Zrange 0 1601)) by (apply Zrange_In; lia).
  assert (In_ : In n (Zrange 1 512)) by (apply Zrange_In; lia).
  specialize (G k Ik). rewrite forallb_forall in G. specialize (G n In_).
  unfold grid_check in G. apply andb_true_iff in G. destruct G as [G1 G2].
  apply Z.eqb_eq in G1, G2. split; [apply P, Ik|]. split; assumption.
Qed.

Lemma position_grid_range k n : 0 <= k <= 1600 -> 1 <= n <= 512 ->
  let l := pct_lpos (grid_p k) n in
  let r := pct_rpos (grid_p k) n in
  0 <= l <= r /\ r <= n - 1 /\ r <= l + 1 /\ (l = r <-> (k * (n - 1)) mod 1600 = 0).
Proof.
  intros Hk Hn l r. destruct (position_grid k n Hk Hn) as (_ & Hl & Hr). unfold l, r. rewrite Hl, Hr.
  assert (A : 0 <= k * (n - 1) <= 1600 * (n - 1)) by nia.
  remember (k * (n - 1)) as a eqn:Ea. clear Ea Hl Hr l r.
  pose proof (Z.div_mod a 1600 ltac:(lia)) as D1. pose proof (Z.mod_pos_bound a 1600 ltac:(lia)) as B1.
  pose proof (Z.div_mod (- a) 1600 ltac:(lia)) as D2. pose proof (Z.mod_pos_bound (- a) 1600 ltac:(lia)) as B2.
  lia.
Qed.

(* the median position, for every list length up to 4096 *)
Lemma median_pos_all :
  forallb (fun n => (pct_lpos 50%float n =? (n - 1) / 2) && (pct_rpos 50%float n =? n / 2)) (Zrange 1 4096) = true.
Proof. vm_cast_no_check (eq_refl true). Qed.

Lemma median_pos n : 1 <= n <= 4096 ->
  pct_lpos 50%float n = (n - 1) / 2 /\ pct_rpos 50%float n = n / 2.
Proof.
  intros Hn. pose proof median_pos_all as M. rewrite forallb_forall in M.
  specialize (M n ltac:(apply Zrange_In; lia)). apply andb_true_iff in M. destruct M as [M1 M2].
  apply Z.eqb_eq in M1, M2. split; assumption.
Qed.

(* ------------------------------------------------------------------------------------------------ *)
(* the property's formula on the grid, and the median                                                *)
(* ------------------------------------------------------------------------------------------------ *)
Section Combined.
Context {T : Type} (Op : ops T).
Hypothesis cmp_antisym : forall x y, cmp Op y x = - cmp Op x y.
Hypothesis cmp_trans : forall x y z, cmp Op x y <= 0 -> cmp Op y z <= 0 -> cmp Op x z <= 0.

Lemma percentile_grid l k : 0 <= k <= 1600 -> (1 <= length l <= 512)%nat ->
  let s := sort Op l in
  let a := k * (Z.of_nat (length l) - 1) in
  percentile Op l (grid_p k) =
  if a mod 1600 =? 0 then nthZ Op s (a / 1600)
  else midpoint Op (nthZ Op s (a / 1600)) (nthZ Op s (a / 1600 + 1)).
Proof.
  intros Hk Hn s a.
  destruct (percentile_spec Op cmp_antisym cmp_trans l (grid_p k)) as (_ & _ & E). rewrite E. clear E. fold s.
  assert (Hn' : 1 <= Z.of_nat (length l) <= 512) by lia.
  destruct (position_grid k _ Hk Hn') as (_ & Hl & Hr).
  destruct (position_grid_range k _ Hk Hn') as (_ & _ & H3 & H4). cbv zeta in H3, H4.
  rewrite Hl, Hr in *. fold a in H3, H4 |- *.
  destruct (Z.eqb_spec (a mod 1600) 0) as [e|e].
  - apply H4 in e. rewrite <- e, Z.eqb_refl. reflexivity.
  - destruct (Z.eqb_spec (a / 1600) (- (- a / 1600))) as [e'|e']; [apply H4 in e'; contradiction|].
    assert (R : - (- a / 1600) = a / 1600 + 1).
    { assert (A : 0 <= a) by (unfold a; nia).
      pose proof (Z.div_mod a 1600 ltac:(lia)) as D1. pose proof (Z.mod_pos_bound a 1600 ltac:(lia)) as B1.
      pose proof (Z.div_mod (- a) 1600 ltac:(lia)) as D2. pose proof (Z.mod_pos_bound (- a) 1600 ltac:(lia)) as B2.
      lia. }
    rewrite R. reflexivity.
Qed.

Lemma median_spec l : (1 <= length l <= 4096)%nat ->
  let s := sort Op l in
  let n := Z.of_nat (length l) in
  median Op l =
  if Z.odd n then nthZ Op s ((n - 1) / 2)
  else midpoint Op (nthZ Op s (n / 2 - 1)) (nthZ Op s (n / 2)).
Proof.
  intros Hn s n. unfold median.
  destruct (percentile_spec Op cmp_antisym cmp_trans l 50%float) as (_ & _ & E). rewrite E. clear E. fold s n.
  destruct (median_pos n ltac:(lia)) as (Hl & Hr). rewrite Hl, Hr.
  pose proof (Zdiv2_odd_eqn n) as P. rewrite Z.div2_div in P.
  destruct (Z.odd n).
  - assert (E : (n - 1) / 2 = n / 2).
    { replace (n - 1) with (n / 2 * 2) by lia. rewrite Z.div_mul; lia. }
    rewrite E, Z.eqb_refl. reflexivity.
  - assert (E : (n - 1) / 2 = n / 2 - 1).
    { replace (n - 1) with (1 + (n / 2 - 1) * 2) by lia. rewrite Z.div_add by lia. reflexivity. }
    rewrite E. destruct (Z.eqb_spec (n / 2 - 1) (n / 2)); [lia|]. reflexivity.
Qed.

End Combined.

(* ------------------------------------------------------------------------------------------------ *)
(* exact rationals: the mean of a bin is the mean of the values of the ORIGINAL list in its interval *)
(* ------------------------------------------------------------------------------------------------ *)
Lemma Permutation_filter' {A} (f : A -> bool) l l' : Permutation l l' -> Permutation (filter f l) (filter f l').
Proof.
  induction 1; cbn.
  - constructor.
  - destruct (f x); [constructor|]; assumption.
  - destruct (f x), (f y); try reflexivity. apply perm_swap.
  - eapply Permutation_trans; eassumption.
Qed.

Lemma Q_bin_mean thr vals b : (b <= length thr)%nat ->
  let st := sort Q_ops thr in
  let m := nth b (hist_bins Q_ops st (sort Q_ops vals)) [] in
  let m' := filter (in_binb Q_ops st b) vals in
  length m = length m' /\
  (mean_of Q_ops m == fold_left Qplus m' 0 / inject_Z (Z.of_nat (length m')))%Q.
Proof.
  intros Hb st m m'.
  destruct (hist_partition Q_ops qcmp_antisym qcmp_trans thr vals) as (_ & _ & _ & _ & H & _).
  destruct (H b Hb) as (E & _ & _). fold st in E. fold m in E.
  assert (P : Permutation m m').
  { rewrite E. apply Permutation_filter', sort_perm. }
  split; [apply Permutation_length, P|].
  unfold mean_of. cbn [Q_ops add div ofZ]. rewrite (Permutation_length P).
  rewrite (qsum_perm m m' P). reflexivity.
Qed.

(* ------------------------------------------------------------------------------------------------ *)
(* the statements of Properties_C20.v (that file only restates them and prints their assumptions)     *)
(* ------------------------------------------------------------------------------------------------ *)

Definition order_ok {T} (Op : ops T) : Prop :=
  (forall x y, cmp Op y x = - cmp Op x y) /\
  (forall x y z, cmp Op x y <= 0 -> cmp Op y z <= 0 -> cmp Op x z <= 0).

Lemma s_order_statistic : forall T (Op : ops T), order_ok Op -> forall (l : list T) (d : T) (k : nat),
  (StronglySorted (le Op) (sort Op l) /\ Permutation (sort Op l) l) /\
  ((k < length l)%nat ->
     let x := nth k (sort Op l) d in
     In x l /\ (count_lt Op x l <= k)%nat /\ (k < count_le Op x l)%nat /\
     (forall y, (count_lt Op y l <= k)%nat -> (k < count_le Op y l)%nat -> equiv Op x y) /\
     (forall s', StronglySorted (le Op) s' -> Permutation s' l -> equiv Op (nth k s' d) x)).
Proof.
  intros T Op [Ha Ht] l d k. split; [split; [apply sort_sorted | apply sort_perm]; assumption|].
  intros Hk x. destruct (order_statistic Op Ha Ht l d k Hk) as (H0 & H1 & H2).
  split; [exact H0|]. split; [exact H1|]. split; [exact H2|]. split.
  - intros y Hy1 Hy2. exact (rank_unique Op Ha Ht l k x y H1 H2 Hy1 Hy2).
  - intros s' Hs Hp. exact (any_sort_agrees Op Ha Ht l s' d k Hs Hp Hk).
Qed.

Lemma s_percentile_spec : forall T (Op : ops T), order_ok Op -> forall (l : list T) (p : PrimFloat.float),
  let s := sort Op l in
  let n := Z.of_nat (length l) in
  let lp := pct_lpos p n in
  let rp := pct_rpos p n in
  (StronglySorted (le Op) s /\ Permutation s l /\
   percentile Op l p = (if lp =? rp then nthZ Op s lp else midpoint Op (nthZ Op s lp) (nthZ Op s rp))) /\
  (StronglySorted (le Op) l -> percentile_sorted Op l p = percentile Op l p).
Proof.
  intros T Op [Ha Ht] l p. cbv zeta. split.
  - exact (percentile_spec Op Ha Ht l p).
  - exact (percentile_sorted_agrees Op Ha l p).
Qed.

Lemma s_position_exact_partial : forall k n, 0 <= k <= 1600 -> 1 <= n <= 512 ->
  SFvalue_is (FloatOps.Prim2SF (grid_p k)) k 16 = true /\
  pct_lpos (grid_p k) n = (k * (n - 1)) / 1600 /\
  pct_rpos (grid_p k) n = - ((- (k * (n - 1))) / 1600) /\
  0 <= pct_lpos (grid_p k) n <= pct_rpos (grid_p k) n /\ pct_rpos (grid_p k) n <= n - 1 /\
  pct_rpos (grid_p k) n <= pct_lpos (grid_p k) n + 1.
Proof.
  intros k n Hk Hn. destruct (position_grid k n Hk Hn) as (H1 & H2 & H3).
  destruct (position_grid_range k n Hk Hn) as (H4 & H5 & H6 & _). tauto.
Qed.

Lemma s_percentile_formula : forall T (Op : ops T), order_ok Op -> forall (l : list T) (k : Z),
  0 <= k <= 1600 -> (1 <= length l <= 512)%nat ->
  let s := sort Op l in
  let a := k * (Z.of_nat (length l) - 1) in
  percentile Op l (grid_p k) =
  if a mod 1600 =? 0 then nthZ Op s (a / 1600)
  else midpoint Op (nthZ Op s (a / 1600)) (nthZ Op s (a / 1600 + 1)).
Proof. intros T Op [Ha Ht]. exact (percentile_grid Op Ha Ht). Qed.

Lemma s_median : forall T (Op : ops T), order_ok Op -> forall (l : list T),
  (1 <= length l <= 4096)%nat ->
  let s := sort Op l in
  let n := Z.of_nat (length l) in
  median Op l =
  if Z.odd n then nthZ Op s ((n - 1) / 2)
  else midpoint Op (nthZ Op s (n / 2 - 1)) (nthZ Op s (n / 2)).
Proof. intros T Op [Ha Ht]. exact (median_spec Op Ha Ht). Qed.

Lemma s_partition : forall T (Op : ops T), order_ok Op -> forall (thr vals : list T),
  let st := sort Op thr in
  let s := sort Op vals in
  let B := hist_bins Op st s in
  (StronglySorted (le Op) st /\ Permutation st thr) /\
  length B = S (length thr) /\
  concat B = s /\ Permutation (concat B) vals /\
  (forall b, (b <= length thr)%nat ->
     nth b B [] = filter (in_binb Op st b) s /\
     nth b B [] = filter (fun v => hist_bin Op st v =? Z.of_nat b) s /\
     length (nth b B []) = count (in_binb Op st b) vals) /\
  histogram Op thr vals = (st, map (bin_summary Op) B) /\
  (forall m, bin_summary Op m =
     (Z.of_nat (length m),
      if 0 <? Z.of_nat (length m) then mean_of Op m else nan Op,
      if 0 <? Z.of_nat (length m) then median_sorted Op m else nan Op)).
Proof.
  intros T Op [Ha Ht] thr vals. cbv zeta.
  destruct (hist_partition Op Ha Ht thr vals) as (H1 & H2 & H3 & H4 & H5 & H6).
  repeat (split; [assumption|]). exact (bin_summary_spec Op).
Qed.

Lemma s_bin_agrees : forall T (Op : ops T), order_ok Op -> forall (st : list T) (v : T),
  StronglySorted (le Op) st ->
  0 <= hist_bin Op st v <= Z.of_nat (length st) /\
  (forall b, (b <= length st)%nat -> (hist_bin Op st v = Z.of_nat b <-> in_binb Op st b v = true)) /\
  (forall thr vals, st = sort Op thr -> In v vals ->
     In v (nth (Z.to_nat (hist_bin Op st v)) (hist_bins Op st (sort Op vals)) [])).
Proof.
  intros T Op [Ha Ht] st v Hs. split; [apply bin_range|]. split.
  - intros b Hb. exact (bin_agrees Op Ha Ht st v b Hs Hb).
  - intros thr vals -> Hv. exact (bin_of_data Op Ha Ht thr vals v Hv).
Qed.

Lemma s_exact_mean : forall (thr vals : list Q) (b : nat), (b <= length thr)%nat ->
  let st := sort Q_ops thr in
  let m := nth b (hist_bins Q_ops st (sort Q_ops vals)) [] in
  let m' := filter (in_binb Q_ops st b) vals in
  length m = length m' /\
  (mean_of Q_ops m == fold_left Qplus m' 0 / inject_Z (Z.of_nat (length m')))%Q.
Proof. exact Q_bin_mean. Qed.

Lemma s_kernels : forall t v n,
  src_hist_goes_right t v = src_hist_goes_right 0 (zcmp v t) /\
  src_hist_goes_right t v = (t <=? v) /\
  src_bin_query v = v /\ src_bin_last (src_hist_bins n) = n /\ src_pct_last n = n - 1.
Proof.
  intros t v n. split; [apply k_goes_right_order|]. split.
  - unfold src_hist_goes_right. apply Z.geb_leb.
  - split; [reflexivity|]. split; [unfold src_bin_last, src_hist_bins; apply Z.add_simpl_r | reflexivity].
Qed.
