(* C18 -- proofs about the access-discipline model (C18_Defs). *)
From Coq Require Import List Arith Bool ZArith Lia Permutation.
From LNGen Require Import Src_numeric Src_c18 Src_parallel Src_mtune Src_mlresult.
From LN Require Import C17_Defs C17_Proofs C17_Statements C18_Defs.
From LN Require C11_Defs C11_Proofs C13_Defs C13_Proofs C13_Statements.
Import ListNotations.

(* ================================================================================================================ *)
(* A. footprints                                                                                                     *)
(* ================================================================================================================ *)
Lemma loc_eqb_spec a b : loc_eqb a b = true <-> a = b.
Proof.
  destruct a, b; cbn [loc_eqb]; try (split; [discriminate | intros H; discriminate H]);
    rewrite ?andb_true_iff, ?Nat.eqb_eq, ?Z.eqb_eq; split; intros H;
    try (injection H as -> ->; auto); try (injection H as -> -> ->; auto); try (injection H as ->; auto);
    try (destruct H as [[-> ->] ->]; reflexivity); try (destruct H as [-> ->]; reflexivity); try (subst; reflexivity).
Qed.

Lemma loc_eqb_refl a : loc_eqb a a = true.
Proof. apply loc_eqb_spec. reflexivity. Qed.

Lemma loc_eqb_neq a b : a <> b -> loc_eqb a b = false.
Proof. intros H. destruct (loc_eqb a b) eqn:E; [|reflexivity]. apply loc_eqb_spec in E. contradiction. Qed.

Lemma memb_spec l ls : memb l ls = true <-> In l ls.
Proof.
  unfold memb. rewrite existsb_exists. split.
  - intros [x [Hin He]]. apply loc_eqb_spec in He. subst. exact Hin.
  - intros H. exists l. split; [exact H | apply loc_eqb_refl].
Qed.

Lemma overlapb_spec a b : overlapb a b = true <-> exists l, In l a /\ In l b.
Proof.
  unfold overlapb. rewrite existsb_exists. split; intros [l [H1 H2]]; exists l; split; auto; apply memb_spec; exact H2.
Qed.

Lemma conflictb_spec f g : conflictb f g = true <-> conflict f g.
Proof.
  unfold conflictb, conflict. rewrite !orb_true_iff, !overlapb_spec. split.
  - intros [[[l [H1 H2]]|[l [H1 H2]]]|[l [H1 H2]]]; exists l; auto.
  - intros [l [[H1 [H2|H2]]|[H1 H2]]]; [left; left | left; right | right]; exists l; auto.
Qed.

Lemma conflictb_false f g :
  conflictb f g = false <->
  (forall l, In l (writes f) -> ~ In l (writes g) /\ ~ In l (reads g)) /\ (forall l, In l (reads f) -> ~ In l (writes g)).
Proof.
  split.
  - intros H. split; intros l Hl; [split|]; intros Hg;
      (assert (conflictb f g = true) by (apply conflictb_spec; exists l; auto); congruence).
  - intros [H1 H2]. destruct (conflictb f g) eqn:E; [|reflexivity]. apply conflictb_spec in E.
    destruct E as [l [[Hw [Hg|Hg]]|[Hr Hg]]]; exfalso.
    + exact (proj1 (H1 l Hw) Hg).
    + exact (proj2 (H1 l Hw) Hg).
    + exact (H2 l Hr Hg).
Qed.

Lemma conflict_sym f g : conflict f g -> conflict g f.
Proof. intros [l [[H1 [H2|H2]]|[H1 H2]]]; exists l; auto. Qed.

Lemma conflictb_sym f g : conflictb f g = conflictb g f.
Proof.
  destruct (conflictb f g) eqn:E1, (conflictb g f) eqn:E2; try reflexivity.
  - apply conflictb_spec, conflict_sym, conflictb_spec in E1. congruence.
  - apply conflictb_spec, conflict_sym, conflictb_spec in E2. congruence.
Qed.

Lemma pairwise_free_spec l :
  pairwise_free l = true ->
  forall i j f g, i <> j -> nth_error l i = Some f -> nth_error l j = Some g -> conflictb f g = false.
Proof.
  induction l as [|a r IH]; intros H i j f g Hij Hi Hj; [destruct i; discriminate|].
  cbn [pairwise_free] in H. apply andb_true_iff in H. destruct H as [Ha Hr]. rewrite forallb_forall in Ha.
  destruct i as [|i], j as [|j]; cbn [nth_error] in Hi, Hj.
  - contradiction.
  - injection Hi as <-. apply negb_true_iff. apply Ha. eapply nth_error_In. exact Hj.
  - injection Hj as <-. rewrite conflictb_sym. apply negb_true_iff. apply Ha. eapply nth_error_In. exact Hi.
  - apply (IH Hr i j); auto.
Qed.

(* ================================================================================================================ *)
(* B. schedule independence of calls with conflict-free footprints                                                   *)
(* ================================================================================================================ *)
Section MachineProofs.
  Variables V R : Type.
  Notation prog := (prog V R).
  Notation mem := (mem V).

  Definition agree (fp : footprint) (m m' : mem) : Prop := forall l, In l (reads fp ++ writes fp) -> m l = m' l.

  Lemma agree_refl fp m : agree fp m m.
  Proof. intros l _. reflexivity. Qed.

  Lemma agree_trans fp a b c : agree fp a b -> agree fp b c -> agree fp a c.
  Proof. intros H1 H2 l Hl. rewrite (H1 l Hl). apply H2. exact Hl. Qed.

  Lemma agree_mupd fp m m' l v : agree fp m m' -> agree fp (mupd m l v) (mupd m' l v).
  Proof. intros H l' Hl'. unfold mupd. destruct (loc_eqb l' l); [reflexivity | apply H; exact Hl']. Qed.

  Lemma agree_mupd_out fp m l v : ~ In l (reads fp ++ writes fp) -> agree fp m (mupd m l v).
  Proof.
    intros Hn l' Hl'. unfold mupd. destruct (loc_eqb l' l) eqn:E; [|reflexivity].
    apply loc_eqb_spec in E. subst. contradiction.
  Qed.

  (* frame: a program that obeys its footprint computes the same result, and the same values on its footprint,
     from any two memories that agree on the footprint *)
  Lemma solo_frame (p : prog) fp : forall m m', obeys fp p -> agree fp m m' ->
    fst (solo p m) = fst (solo p m') /\ agree fp (snd (solo p m)) (snd (solo p m')).
  Proof.
    induction p as [r|l k IH|l v k IH]; intros m m' Ho Ha; cbn [solo obeys] in *.
    - split; [reflexivity | exact Ha].
    - destruct Ho as [Hin Hk]. rewrite (Ha l Hin). apply IH; [apply Hk | exact Ha].
    - destruct Ho as [Hin Hk]. apply IH; [exact Hk | apply agree_mupd; exact Ha].
  Qed.

  (* a program that obeys its footprint leaves every location outside its write set untouched *)
  Lemma solo_writes_only (p : prog) fp : forall m l, obeys fp p -> ~ In l (writes fp) -> snd (solo p m) l = m l.
  Proof.
    induction p as [r|l0 k IH|l0 v k IH]; intros m l Ho Hn; cbn [solo obeys] in *.
    - reflexivity.
    - apply IH; [apply Ho | exact Hn].
    - destruct Ho as [Hin Hk]. rewrite IH by assumption. unfold mupd.
      destruct (loc_eqb l l0) eqn:E; [|reflexivity]. apply loc_eqb_spec in E. subst. contradiction.
  Qed.

  Lemma solo_step1 (p : prog) m : solo (fst (step1 p m)) (snd (step1 p m)) = solo p m.
  Proof. destruct p; reflexivity. Qed.

  Lemma obeys_step1 fp (p : prog) m : obeys fp p -> obeys fp (fst (step1 p m)).
  Proof. destruct p; cbn [step1 fst obeys]; intros H; [exact H | apply H | apply H]. Qed.

  (* the only effect of an action on the memory is a write inside the write set *)
  Lemma step1_mem fp (p : prog) m : obeys fp p ->
    snd (step1 p m) = m \/ exists l v, In l (writes fp) /\ snd (step1 p m) = mupd m l v.
  Proof.
    destruct p as [r|l k|l v k]; cbn [step1 snd obeys]; intros H; [left; reflexivity | left; reflexivity|].
    right. exists l, v. split; [apply H | reflexivity].
  Qed.

  Lemma nth_error_set_nth_same {A} (l : list A) i x y : nth_error l i = Some y -> nth_error (set_nth l i x) i = Some x.
  Proof. revert i. induction l as [|a r IH]; intros [|i] H; cbn in *; try discriminate; [reflexivity | apply IH; exact H]. Qed.

  Lemma nth_error_set_nth_other {A} (l : list A) i j x : i <> j -> nth_error (set_nth l i x) j = nth_error l j.
  Proof.
    revert i j. induction l as [|a r IH]; intros [|i] [|j] H; cbn; try reflexivity; try contradiction.
    apply IH. intros E. apply H. f_equal. exact E.
  Qed.

  Section Schedules.
    Variables (fps : list footprint) (ps0 : list prog) (m0 : mem).
    Hypothesis Hobeys : forall i fp p, nth_error fps i = Some fp -> nth_error ps0 i = Some p -> obeys fp p.
    Hypothesis Hfree : forall i j f g, i <> j -> nth_error fps i = Some f -> nth_error fps j = Some g -> conflictb f g = false.
    Hypothesis Hlen : length fps = length ps0.

    (* thread i, wherever it currently is, still computes what it computes when run alone from m0 *)
    Definition SInv (ps : list prog) (m : mem) : Prop :=
      length ps = length ps0 /\
      forall i fp p0 p, nth_error fps i = Some fp -> nth_error ps0 i = Some p0 -> nth_error ps i = Some p ->
        obeys fp p /\ fst (solo p m) = fst (solo p0 m0) /\ agree fp (snd (solo p m)) (snd (solo p0 m0)).

    Lemma sinv_init : SInv ps0 m0.
    Proof.
      split; [reflexivity|]. intros i fp p0 p Hf H0 Hp. rewrite H0 in Hp. injection Hp as <-.
      split; [eapply Hobeys; eauto | split; [reflexivity | apply agree_refl]].
    Qed.

    Lemma set_nth_length {A} (l : list A) i x : length (set_nth l i x) = length l.
    Proof. revert i. induction l as [|a r IH]; intros [|i]; cbn; auto. Qed.

    Lemma sinv_step ps m j pj : SInv ps m -> nth_error ps j = Some pj ->
      SInv (set_nth ps j (fst (step1 pj m))) (snd (step1 pj m)).
    Proof.
      intros [Hl Hi] Hj. split; [rewrite set_nth_length; exact Hl|].
      intros i fp p0 p Hf H0 Hp.
      assert (Hjl : j < length fps) by (rewrite Hlen, <- Hl; apply nth_error_Some; congruence).
      destruct (nth_error fps j) as [fj|] eqn:Efj; [|apply nth_error_None in Efj; lia].
      destruct (nth_error ps0 j) as [pj0|] eqn:Epj0; [|apply nth_error_None in Epj0; lia].
      destruct (Hi j fj pj0 pj Efj Epj0 Hj) as [Hoj [Hrj Haj]].
      destruct (Nat.eq_dec j i) as [->|Hne].
      - rewrite (nth_error_set_nth_same ps i _ pj Hj) in Hp. injection Hp as <-.
        rewrite Efj in Hf. injection Hf as <-. rewrite Epj0 in H0. injection H0 as <-.
        split; [apply obeys_step1; exact Hoj|]. rewrite solo_step1. split; assumption.
      - rewrite nth_error_set_nth_other in Hp by exact Hne.
        destruct (Hi i fp p0 p Hf H0 Hp) as [Ho [Hr Ha]]. split; [exact Ho|].
        assert (Hag : agree fp m (snd (step1 pj m))).
        { destruct (step1_mem fj pj m Hoj) as [->|[l [v [Hin ->]]]]; [apply agree_refl|].
          apply agree_mupd_out. intros Hin'.
          pose proof (proj1 (conflictb_false fj fp) (Hfree j i fj fp Hne Efj Hf)) as [Hw _].
          destruct (Hw l Hin) as [Hnw Hnr]. apply in_app_or in Hin'. destruct Hin'; contradiction. }
        destruct (solo_frame p fp m (snd (step1 pj m)) Ho Hag) as [Hr' Ha'].
        split; [rewrite <- Hr'; exact Hr|].
        intros l Hl'. rewrite <- (Ha' l Hl'). apply Ha. exact Hl'.
    Qed.

    Lemma sinv_exec sched : forall ps m, SInv ps m -> SInv (fst (exec ps m sched)) (snd (exec ps m sched)).
    Proof.
      induction sched as [|j s IH]; intros ps m Hi; cbn [exec]; [exact Hi|].
      destruct (nth_error ps j) as [pj|] eqn:Ej; [|apply IH; exact Hi].
      pose proof (sinv_step ps m j pj Hi Ej) as Hs. destruct (step1 pj m) as [p' m'] eqn:E1. cbn [fst snd] in Hs.
      apply IH. exact Hs.
    Qed.

    (* every call that has returned under ANY schedule returned what it returns alone, and the memory holds, on the
       call's footprint, exactly what the call alone would have left there *)
    Lemma s_schedule_independent sched i fp p0 r :
      nth_error fps i = Some fp -> nth_error ps0 i = Some p0 ->
      nth_error (fst (exec ps0 m0 sched)) i = Some (Done r) ->
      r = fst (solo p0 m0) /\ agree fp (snd (exec ps0 m0 sched)) (snd (solo p0 m0)).
    Proof.
      intros Hf H0 Hd. destruct (sinv_exec sched ps0 m0 sinv_init) as [_ Hi].
      destruct (Hi i fp p0 (Done r) Hf H0 Hd) as [_ [Hr Ha]]. cbn [solo fst snd] in Hr, Ha. split; assumption.
    Qed.

    (* locations nobody may write keep their initial value under every schedule *)
    Lemma s_untouched sched l :
      (forall i fp, nth_error fps i = Some fp -> ~ In l (writes fp)) -> snd (exec ps0 m0 sched) l = m0 l.
    Proof.
      intros Hn. assert (G : forall sched ps m, SInv ps m -> snd (exec ps m sched) l = m l).
      { clear sched. induction sched as [|j s IH]; intros ps m Hi; cbn [exec]; [reflexivity|].
        destruct (nth_error ps j) as [pj|] eqn:Ej; [|apply IH; exact Hi].
        pose proof (sinv_step ps m j pj Hi Ej) as Hs. destruct Hi as [Hl Hi].
        assert (Hjl : j < length fps) by (rewrite Hlen, <- Hl; apply nth_error_Some; congruence).
        destruct (nth_error fps j) as [fj|] eqn:Efj; [|apply nth_error_None in Efj; lia].
        destruct (nth_error ps0 j) as [pj0|] eqn:Epj0; [|apply nth_error_None in Epj0; lia].
        destruct (Hi j fj pj0 pj Efj Epj0 Ej) as [Hoj _].
        pose proof (step1_mem fj pj m Hoj) as Hm.
        destruct (step1 pj m) as [p' m'] eqn:E1. cbn [fst snd] in *. rewrite (IH _ _ Hs).
        destruct Hm as [->|[l' [v [Hin ->]]]]; [reflexivity|]. unfold mupd.
        destruct (loc_eqb l l') eqn:E; [|reflexivity]. apply loc_eqb_spec in E. subst l'. exfalso. exact (Hn j fj Efj Hin). }
      apply G. exact sinv_init.
    Qed.
  End Schedules.
End MachineProofs.

(* ================================================================================================================ *)
(* C. tasks of a pool: two tasks that can run at the same time never touch the same location                          *)
(* ================================================================================================================ *)
Lemma index_of_id k t : index_of k t = t.
Proof. destruct k as [| | | | | | | | | | | | | |i]; try reflexivity. do 8 (destruct i as [|i]; [reflexivity|]). reflexivity. Qed.

Lemma count_of_id k n : count_of k n = n.
Proof. destruct k as [| | | | | | | | | | | | | |i]; try reflexivity. do 8 (destruct i as [|i]; [reflexivity|]). reflexivity. Qed.

(* the translated expressions are the ones the C11 / C13 / C17 theorems are about *)
Lemma kernels_agree :
  (forall i f, src_c18_fold i f = src_mt_fold i f /\ src_c18_trial i f = src_mt_trial i f) /\
  (forall f n, src_c18_tasks f n = src_mt_tasks f n) /\
  (forall o t, src_c18_store_trial o t = src_mt_store_trial o t) /\
  (forall o, src_c18_closest_limit o = src_mt_closest_limit o) /\
  (forall t f n, src_c18_slot_store t f n = src_mr_slot_store t f n /\ src_c18_slot_load t f n = src_mr_slot_load t f n) /\
  (forall t f n, src_c18_slot_store t f n = Src_mlresult.src_slot_store t f n) /\
  (forall s c e, src_c18_chunked_inline s c e = src_chunked_inline s c e) /\
  (forall s e, src_c18_indexed_inline s e = src_indexed_inline s e).
Proof. repeat split; reflexivity. Qed.

Definition live (p : pool) (t : tid) : Prop := In t (queue p) \/ exists w, workers p w = WRunning t.
Definition noenq (l : list call) : Prop := forallb (fun c => negb (is_enqueue c)) l = true.

Section PoolInv.
  Variable progs : list (list call).

  (* the program of a submitting thread is consumed front to back; the tasks of its in-flight map() are one of
     its CMap calls; it never enqueues *)
  Definition InvP (p : pool) : Prop :=
    forall s, s < ns p ->
      stg (subs p s) <> SNotifyOne /\ noenq (todo (subs p s)) /\
      exists pre, nth s progs [] = pre ++ todo (subs p s) /\
                  (active (subs p s) = [] \/ exists r, In (CMap (active (subs p s)) r) pre).
  (* a queued or running task belongs to the in-flight map() of some submitting thread *)
  Definition InvQ (p : pool) : Prop := forall t, live p t -> exists s, s < ns p /\ In t (active (subs p s)).

  Lemma noenq_app a b : noenq (a ++ b) -> noenq b.
  Proof. unfold noenq. rewrite forallb_app. intros H. apply andb_true_iff in H. apply H. Qed.

  Lemma invP_same p q : ns q = ns p -> subs q = subs p -> InvP p -> InvP q.
  Proof. intros Hn Hs I s Hlt. rewrite Hs. apply I. rewrite <- Hn. exact Hlt. Qed.

  Lemma invP_upd p q s x :
    InvP p -> ns q = ns p -> subs q = upd (subs p) s x ->
    (s < ns p -> stg x <> SNotifyOne /\
       exists mid, todo (subs p s) = mid ++ todo x /\
                   (active x = [] \/ active x = active (subs p s) \/ exists r, In (CMap (active x) r) mid)) ->
    InvP q.
  Proof.
    intros I Hn Hs Hx s' Hlt. rewrite Hn in Hlt. rewrite Hs. upd_cases s' s; [|apply I; exact Hlt].
    destruct (I s Hlt) as [_ [Hne [pre [Hpre Hact]]]]. destruct (Hx Hlt) as [Hst [mid [Hmid Hax]]].
    split; [exact Hst|]. split; [rewrite Hmid in Hne; eapply noenq_app; exact Hne|].
    exists (pre ++ mid). split; [rewrite Hpre, Hmid, app_assoc; reflexivity|].
    destruct Hax as [Ha|[Ha|[r Hr]]].
    - left. exact Ha.
    - rewrite Ha. destruct Hact as [Hact|[r Hr]]; [left; exact Hact | right; exists r; apply in_or_app; left; exact Hr].
    - right. exists r. apply in_or_app. right. exact Hr.
  Qed.
End PoolInv.

(* ---- the two invariants are preserved by every step of the C17 protocol model ------------------------------------ *)
Ltac invp_case IP :=
  let Hs := fresh "Hs" in let Hn1 := fresh "Hn1" in let Hne := fresh "Hne" in
  eapply (invP_upd _ _ _ _ _ IP); [reflexivity | reflexivity | intros Hs];
  destruct (IP _ Hs) as [Hn1 [Hne _]];
  first
  [ exfalso; congruence
  | exfalso; match goal with E : todo _ = CEnqueue _ :: _ |- _ => rewrite E in Hne; discriminate Hne end
  | split; [discriminate|]; cbn [stg todo];
    first [ match goal with E : todo _ = ?c :: ?l |- exists mid, _ = mid ++ ?l /\ _ => exists [c]; split; [exact E|] end
          | exists []; split; [reflexivity|] ];
    unfold active; cbn [stg];
    first [ left; reflexivity
          | right; left; match goal with E : stg _ = _ |- _ => rewrite E; reflexivity end
          | right; right; eexists; left; reflexivity ] ].

Lemma invP_step progs p e q : InvP progs p -> step p e = Some q -> InvP progs q.
Proof.
  intros IP H.
  destruct e; inv_step H; simp_fields;
    try match goal with E : negb (?s <? _) = false |- _ => apply ltb_guard in E end;
    try solve [apply (invP_same progs p); [reflexivity | reflexivity | exact IP]].
  all: solve [invp_case IP].
Qed.

Lemma running_upd (f : wid -> wstate) w x w' t : upd f w x w' = WRunning t -> x = WRunning t \/ f w' = WRunning t.
Proof. unfold upd. destruct (Nat.eqb w' w); auto. Qed.

Lemma running_wake f w t : wake_all f w = WRunning t -> f w = WRunning t.
Proof. apply wake_all_running. Qed.

Lemma invQ_gen p q : InvQ p -> ns q = ns p ->
  (forall t, live q t -> live p t \/ exists s, s < ns p /\ In t (active (subs q s))) ->
  (forall s t, s < ns p -> In t (active (subs p s)) -> live q t -> In t (active (subs q s))) -> InvQ q.
Proof.
  intros IQ Hn H2 H3 t Hl. rewrite Hn. destruct (H2 t Hl) as [Hp|Hnew]; [|exact Hnew].
  destruct (IQ t Hp) as [s [Hs Hin]]. exists s. split; [exact Hs | apply H3; assumption].
Qed.

(* a finished task is neither queued nor running *)
Lemma finished_not_live p t : InvT p -> In t (finished p) -> ~ live p t.
Proof.
  intros IT Hf [Hq|[w Hw]].
  - pose proof (t_cnt p IT t) as Hc. unfold alltasks in Hc. rewrite !cnt_app in Hc.
    apply cnt_in in Hq. destruct (t_fin p IT t Hf) as [Hx|Hx]; apply cnt_in in Hx; lia.
  - exact (proj2 (t_run p IT w t Hw) Hf).
Qed.

Ltac live_old := left; first [ left; assumption | right; eexists; eassumption ].

Ltac h2_tac :=
  let t0 := fresh "t0" in let Hq := fresh "Hq" in let w' := fresh "w'" in let Hw := fresh "Hw" in
  intros t0 [Hq|[w' Hw]]; cbn [queue workers] in *;
  [ first [ live_old
          | contradiction
          | apply in_app_or in Hq; destruct Hq as [Hq|Hq];
            [ live_old
            | right; eexists; split; [eassumption|]; rewrite upd_same; unfold active; cbn [stg]; exact Hq ]
          | left; left; match goal with E : queue _ = _ :: _ |- _ => rewrite E; right; exact Hq end ]
  | repeat (apply running_upd in Hw; destruct Hw as [Hw|Hw]; [try discriminate Hw|]);
    try apply running_wake in Hw;
    first [ live_old
          | injection Hw as <-; left; left; match goal with E : queue _ = _ :: _ |- _ => rewrite E; left; reflexivity end ] ].

Ltac h3_tac :=
  let s0 := fresh "s0" in let t0 := fresh "t0" in let Hs0 := fresh "Hs0" in let Hin := fresh "Hin" in let Hl := fresh "Hl" in
  intros s0 t0 Hs0 Hin Hl;
  first [ exact Hin
        | match goal with |- In _ (active (upd _ ?s _ _)) => upd_cases s0 s; [|exact Hin] end;
          unfold active in *; cbn [stg] in *;
          match goal with E : stg _ = _ |- _ => rewrite E in Hin end;
          first [ exact Hin | contradiction ] ].

Lemma invQ_step progs p e q : Inv p -> InvP progs p -> InvQ p -> step p e = Some q -> InvQ q.
Proof.
  intros [IB IW IT IS] IP IQ H.
  destruct e; inv_step H; simp_fields;
    try match goal with E : negb (?s <? _) = false |- _ => apply ltb_guard in E end;
    try (exfalso; match goal with Hs : ?s < ns p |- _ => destruct (IP s Hs) as [Hn1 [Hne _]] end;
         first [ congruence | match goal with E : todo _ = CEnqueue _ :: _ |- _ => rewrite E in Hne; discriminate Hne end ]).
  all: apply (invQ_gen p); [exact IQ | reflexivity | |]; simp_fields.
  all: try solve [h2_tac].
  all: try solve [h3_tac].
  (* the last future of the call was waited for: every task of the call has finished, none is queued or running *)
  intros s0 t0 Hs0 Hin Hl. upd_cases s0 s; [|exact Hin]. exfalso.
  assert (Hlp : live p t0) by exact Hl.
  destruct (IS s Hs0) as [Hst _]. unfold stage_ok in Hst. unfold active in Hin.
  match goal with E : stg (subs p s) = SWait [] _ _ _ |- _ => rewrite E in Hst, Hin end.
  destruct Hst as [_ [[pre [Hall Hfin]] _]]. rewrite app_nil_r in Hall. subst pre.
  rewrite Forall_forall in Hfin. exact (finished_not_live p t0 IT (Hfin t0 Hin) Hlp).
Qed.

Lemma invP_init n thr progs : no_enqueue progs = true -> InvP progs (init n thr progs).
Proof.
  intros Hne s Hs. unfold init in *; simp_fields. split; [discriminate|]. split.
  - unfold noenq. unfold no_enqueue in Hne. rewrite forallb_forall in Hne. apply Hne. apply nth_In. exact Hs.
  - exists []. split; [reflexivity | left; reflexivity].
Qed.

Lemma invQ_init n thr progs : InvQ (init n thr progs).
Proof. intros t [Hq|[w Hw]]; unfold init in *; simp_fields; [contradiction | discriminate]. Qed.

Lemma reachable_invPQ n thr progs p :
  wf_config n progs = true -> no_enqueue progs = true -> reachable n thr progs p -> InvP progs p /\ InvQ p.
Proof.
  intros Hwf Hne Hr. pattern p. revert p Hr. apply reachable_ind_step.
  - split; [apply invP_init; exact Hne | apply invQ_init].
  - intros p e q Hr [IP IQ] Hs. split; [eapply invP_step; eauto|].
    eapply invQ_step; eauto. eapply reachable_inv; eauto.
Qed.

(* ---- static description of the tasks ----------------------------------------------------------------------------- *)
Local Open Scope Z_scope.
(* two tasks of the same map() call: same vectors allowed (they index them with their tnum), rows must be disjoint *)
Definition same_call_ok (a b : tdesc) : Prop := d_out a <> d_out b \/ d_hi a <= d_lo b \/ d_hi b <= d_lo a.
(* tasks submitted by different threads: different iterator / function / output objects *)
Definition other_thread_ok (a b : tdesc) : Prop :=
  d_out a <> d_out b /\ forall x y, In x (d_bufs a) -> In y (d_bufs b) -> fst x <> fst y.
Definition wf_desc (progs : list (list call)) (desc : tid -> tdesc) : Prop :=
  (forall s ts r t t', In (CMap ts r) (nth s progs []) -> In t ts -> In t' ts -> t <> t' -> same_call_ok (desc t) (desc t')) /\
  (forall s s' t t', s <> s' -> In t (prog_tasks (nth s progs [])) -> In t' (prog_tasks (nth s' progs [])) ->
     other_thread_ok (desc t) (desc t')).

Lemma in_rows o lo hi l : In l (rows o lo hi) -> exists i, l = LRow o i /\ lo <= i < hi.
Proof.
  unfold rows. rewrite in_map_iff. intros [k [<- Hk]]. apply in_seq in Hk. exists (lo + Z.of_nat k). split; [reflexivity | lia].
Qed.

Lemma in_bufs (d : tdesc) w l :
  In l (map (fun b => LBuf (fst b) (kind_code (snd b)) (Z.to_nat (index_of (snd b) (Z.of_nat w)))) (d_bufs d)) ->
  exists x, In x (d_bufs d) /\ l = LBuf (fst x) (kind_code (snd x)) w.
Proof.
  rewrite in_map_iff. intros [x [<- Hx]]. exists x. split; [exact Hx|]. rewrite index_of_id, Nat2Z.id. reflexivity.
Qed.

Lemma task_fp_free a w b w' :
  same_call_ok a b ->
  (w <> w' \/ forall x y, In x (d_bufs a) -> In y (d_bufs b) -> fst x <> fst y) ->
  conflictb (task_fp a w) (task_fp b w') = false.
Proof.
  intros Hout Hbuf. apply conflictb_false. unfold task_fp; cbn [reads writes]. split.
  - intros l Hl. split.
    + intros Hl'. apply in_app_or in Hl. apply in_app_or in Hl'.
      destruct Hl as [Hl|Hl], Hl' as [Hl'|Hl'].
      * apply in_bufs in Hl. apply in_bufs in Hl'. destruct Hl as [x [Hx ->]], Hl' as [y [Hy E]].
        injection E as E1 E2 E3. destruct Hbuf as [Hne|Hne]; [apply Hne; exact E3 | exact (Hne x y Hx Hy E1)].
      * apply in_bufs in Hl. apply in_rows in Hl'. destruct Hl as [x [_ ->]], Hl' as [i [E _]]. discriminate E.
      * apply in_rows in Hl. apply in_bufs in Hl'. destruct Hl as [i [-> _]], Hl' as [y [_ E]]. discriminate E.
      * apply in_rows in Hl. apply in_rows in Hl'. destruct Hl as [i [-> Hi]], Hl' as [j [E Hj]].
        injection E as E1 E2. subst j. destruct Hout as [Ho|Ho]; [apply Ho; exact E1 | lia].
    + rewrite in_map_iff. intros [c [<- _]]. apply in_app_or in Hl. destruct Hl as [Hl|Hl].
      * apply in_bufs in Hl. destruct Hl as [x [_ E]]. discriminate E.
      * apply in_rows in Hl. destruct Hl as [i [E _]]. discriminate E.
  - intros l Hl Hl'. rewrite in_map_iff in Hl. destruct Hl as [c [<- _]]. apply in_app_or in Hl'. destruct Hl' as [Hl'|Hl'].
    + apply in_bufs in Hl'. destruct Hl' as [x [_ E]]. discriminate E.
    + apply in_rows in Hl'. destruct Hl' as [i [E _]]. discriminate E.
Qed.

Lemma active_call progs p s t : InvP progs p -> (s < ns p)%nat -> In t (active (subs p s)) ->
  exists r, In (CMap (active (subs p s)) r) (nth s progs []).
Proof.
  intros IP Hs Hin. destruct (IP s Hs) as [_ [_ [pre [Hpre [Ha|[r Hr]]]]]]; [rewrite Ha in Hin; contradiction|].
  exists r. rewrite Hpre. apply in_or_app. left. exact Hr.
Qed.

Lemma call_task_in_prog (pr : list call) ts r t : In (CMap ts r) pr -> In t ts -> In t (prog_tasks pr).
Proof. intros H1 H2. unfold prog_tasks. apply in_flat_map. exists (CMap ts r). split; [exact H1 | exact H2]. Qed.

(* two tasks that are running at the same time, on any reachable state of the pool protocol *)
Lemma s_pool_tasks_disjoint n thr progs desc :
  wf_config n progs = true -> no_enqueue progs = true -> wf_desc progs desc ->
  forall p, reachable n thr progs p ->
  forall w w' t t', w <> w' -> workers p w = WRunning t -> workers p w' = WRunning t' ->
  conflictb (task_fp (desc t) w) (task_fp (desc t') w') = false.
Proof.
  intros Hwf Hne [Hd1 Hd2] p Hr w w' t t' Hww Hw Hw'.
  destruct (reachable_invPQ n thr progs p Hwf Hne Hr) as [IP IQ].
  destruct (IQ t (or_intror (ex_intro _ w Hw))) as [s [Hs Hin]].
  destruct (IQ t' (or_intror (ex_intro _ w' Hw'))) as [s' [Hs' Hin']].
  destruct (active_call progs p s t IP Hs Hin) as [r Hc]. destruct (active_call progs p s' t' IP Hs' Hin') as [r' Hc'].
  destruct (Nat.eq_dec s s') as [<-|Hss].
  - assert (Htt : t <> t').
    { intros <-. apply Hww. exact (proj1 (proj2 (s_worker_id n thr progs Hwf p Hr)) w w' t Hw Hw'). }
    apply task_fp_free; [eapply Hd1; eauto | left; exact Hww].
  - destruct (Hd2 s s' t t' Hss (call_task_in_prog _ _ _ _ Hc Hin) (call_task_in_prog _ _ _ _ Hc' Hin')) as [Ho Hb].
    apply task_fp_free; [left; exact Ho | right; exact Hb].
Qed.

(* the fast path: map() executed by the calling thread itself with tnum 0, while other threads' tasks run in the pool *)
Lemma s_inline_tasks_disjoint n thr progs desc :
  wf_config n progs = true -> no_enqueue progs = true -> wf_desc progs desc ->
  forall p, reachable n thr progs p ->
  forall s ts raise rest, (s < ns p)%nat -> stg (subs p s) = SReady -> todo (subs p s) = CMap ts raise :: rest ->
  forall t w' t', In t ts -> workers p w' = WRunning t' ->
  conflictb (task_fp (desc t) 0) (task_fp (desc t') w') = false.
Proof.
  intros Hwf Hne [Hd1 Hd2] p Hr s ts raise rest Hs Hst Htodo t w' t' Hin Hw'.
  destruct (reachable_invPQ n thr progs p Hwf Hne Hr) as [IP IQ].
  destruct (IQ t' (or_intror (ex_intro _ w' Hw'))) as [s' [Hs' Hin']].
  destruct (active_call progs p s' t' IP Hs' Hin') as [r' Hc'].
  assert (Hss : s <> s'). { intros <-. unfold active in Hin'. rewrite Hst in Hin'. contradiction. }
  destruct (IP s Hs) as [_ [_ [pre [Hpre _]]]].
  assert (Hc : In (CMap ts raise) (nth s progs [])). { rewrite Hpre, Htodo. apply in_or_app. right. left. reflexivity. }
  destruct (Hd2 s s' t t' Hss (call_task_in_prog _ _ _ _ Hc Hin) (call_task_in_prog _ _ _ _ Hc' Hin')) as [Ho Hb].
  apply task_fp_free; [left; exact Ho | right; exact Hb].
Qed.

(* the worker ids handed out by pool_t::pool_t are 0 .. n_workers-1, one buffer of every family for each of them *)
Lemma worker_ids_from_spec fuel : forall t n, worker_ids_from fuel t n = map (fun k => t + Z.of_nat k) (seq 0 (Nat.min fuel (Z.to_nat (n - t)))).
Proof.
  induction fuel as [|f IH]; intros t n; cbn [worker_ids_from]; [reflexivity|].
  unfold src_c18_worker_continue. destruct (Z.ltb_spec t n) as [Hlt|Hge].
  - rewrite IH. replace (Z.to_nat (n - t)) with (S (Z.to_nat (n - (t + 1)))) by lia.
    cbn [Nat.min seq map]. f_equal; [lia|]. rewrite <- seq_shift, map_map. apply map_ext. intros k. lia.
  - replace (Z.to_nat (n - t)) with O by lia. rewrite Nat.min_0_r. reflexivity.
Qed.

Lemma s_worker_ids threads max_size k :
  1 <= max_size ->
  let n := pool_size threads max_size in
  1 <= n <= max_size /\ (threads <= max_size -> 1 <= threads -> n = threads) /\
  worker_ids n = map Z.of_nat (seq 0 (Z.to_nat n)) /\
  (forall t, In t (worker_ids n) -> 0 <= index_of k t < count_of k n).
Proof.
  intros Hm n. unfold pool_size, src_c18_nworkers in n. assert (Hn : 1 <= n <= max_size) by (unfold n; lia).
  split; [exact Hn|]. split; [unfold n; lia|].
  assert (Hw : worker_ids n = map Z.of_nat (seq 0 (Z.to_nat n))).
  { unfold worker_ids, src_c18_worker_first. rewrite worker_ids_from_spec. rewrite Z.sub_0_r, Nat.min_id.
    apply map_ext. intros a. lia. }
  split; [exact Hw|]. intros t Ht. rewrite Hw in Ht. apply in_map_iff in Ht. destruct Ht as [a [<- Ha]].
  apply in_seq in Ha. rewrite index_of_id, count_of_id. lia.
Qed.

(* ================================================================================================================ *)
(* D. the tasks of an ml::tune batch                                                                                 *)
(* ================================================================================================================ *)
Lemma closest_okb_spec old c : closest_okb old c = true -> C13_Statements.closest_ok old c.
Proof.
  unfold closest_okb, C13_Statements.closest_ok, src_c18_closest_limit, src_mt_closest_limit.
  intros H. apply orb_true_iff in H. destruct H as [H|H]; [left|right]; lia.
Qed.

Lemma tune_store_is_slot folds old i :
  src_c18_slot_store (src_c18_store_trial old (src_c18_trial i folds)) (src_c18_fold i folds) folds
  = C13_Defs.slot folds (C13_Defs.decode folds old i).
Proof. reflexivity. Qed.

Lemma tune_load_is_slot folds c i :
  src_c18_slot_load (src_c18_extra_trial c) (src_c18_fold i folds) folds = C13_Defs.slot_load folds (c, src_mt_fold i folds).
Proof. reflexivity. Qed.

Lemma tune_slots_injective folds old i j : 0 < folds -> 0 <= i -> 0 <= j ->
  C13_Defs.slot folds (C13_Defs.decode folds old i) = C13_Defs.slot folds (C13_Defs.decode folds old j) -> i = j.
Proof.
  intros Hf Hi Hj H. rewrite !C13_Statements.decode_eq in H by lia.
  apply C13_Statements.slot_spec in H; [|exact Hf|apply Z.mod_pos_bound; exact Hf|apply Z.mod_pos_bound; exact Hf].
  injection H as H1 H2. rewrite (Z.div_mod i folds), (Z.div_mod j folds) by lia. nia.
Qed.

Lemma s_tune_tasks_disjoint res folds old n i j ci cj :
  0 < folds -> 0 <= old -> (old = 0 -> n = 1) ->
  0 <= i < src_c18_tasks folds n -> 0 <= j < src_c18_tasks folds n -> i <> j ->
  closest_okb old ci = true -> closest_okb old cj = true ->
  conflictb (tune_fp res folds old ci i) (tune_fp res folds old cj j) = false.
Proof.
  intros Hf Ho Hfirst Hi Hj Hij Hci Hcj. apply closest_okb_spec in Hci. apply closest_okb_spec in Hcj.
  apply conflictb_false. unfold tune_fp; cbn [reads writes]. rewrite !tune_store_is_slot, !tune_load_is_slot.
  change (src_c18_tasks folds n) with (src_mt_tasks folds n) in Hi, Hj.
  split.
  - intros l [<-|[]]. split.
    + intros [E|[]]. injection E as E. apply Hij. symmetry. eapply tune_slots_injective; eauto; lia.
    + intros [E|[E|[]]]; [discriminate E|]. injection E as E.
      exact (C13_Statements.s_closest_race_free folds old n j i cj Hf Ho Hfirst Hj Hi (not_eq_sym Hij) Hcj E).
  - intros l [<-|[<-|[]]] [E|[]]; [discriminate E|]. injection E as E.
    exact (C13_Statements.s_closest_race_free folds old n i j ci Hf Ho Hfirst Hi Hj Hij Hci (eq_sym E)).
Qed.

(* over a whole tuning run of the library's tuners: the premise "the first batch is a single trial" is C13's theorem *)
Lemma s_tune_run_disjoint srt prop f cfg :
  C13_Proofs.sort_contract srt -> C13_Statements.valid_config cfg -> C13_Statements.prop_shape prop cfg ->
  forall res folds pre b post, 0 < folds ->
  C13_Defs.calls_of (C13_Defs.optimize srt prop f cfg) = pre ++ b :: post ->
  let old := Z.of_nat (length (concat pre)) in
  let n := Z.of_nat (length b) in
  forall i j ci cj, 0 <= i < src_c18_tasks folds n -> 0 <= j < src_c18_tasks folds n -> i <> j ->
  closest_okb old ci = true -> closest_okb old cj = true ->
  conflictb (tune_fp res folds old ci i) (tune_fp res folds old cj j) = false.
Proof.
  intros H1 H2 H3 res folds pre b post Hf Hc old n i j ci cj Hi Hj Hij Hci Hcj.
  destruct (C13_Statements.s_first_batch_single srt prop f cfg H1 H2 H3) as [rest Hfirst].
  apply (s_tune_tasks_disjoint res folds old n); try assumption; [unfold old; lia|].
  intros Hold. rewrite Hfirst in Hc. destruct pre as [|b0 pre'].
  - cbn [app] in Hc. injection Hc as <- _. reflexivity.
  - cbn [app] in Hc. injection Hc as <- _. unfold old in Hold. cbn [concat] in Hold. rewrite app_length in Hold. cbn [length] in Hold. lia.
Qed.

(* calling result.add() inside the parallel section would break the discipline: it touches every slot *)
Lemma tune_add_conflicts res folds old n closest index :
  0 < folds -> 0 <= old -> 0 <= index < src_c18_tasks folds n ->
  conflictb (tune_add_fp res (folds * (old + n))) (tune_fp res folds old closest index) = true.
Proof.
  intros Hf Ho Hi. apply conflictb_spec. exists (LConst res). left. cbn. auto.
Qed.

(* ================================================================================================================ *)
(* E. calls through the const interface                                                                              *)
(* ================================================================================================================ *)
Lemma user_fp_free id id' c c' :
  id <> id' -> clones_in_place c = false -> clones_in_place c' = false -> private_of c <> private_of c' ->
  conflictb (user_fp id c) (user_fp id' c') = false.
Proof.
  intros Hid Hc Hc' Hp. apply conflictb_false.
  destruct c, c'; try discriminate Hc; try discriminate Hc'; cbn [user_fp reads writes private_of In] in *;
    (split; [intros l Hl; split; intros Hl' | intros l Hl Hl']);
    repeat match goal with
           | H : _ \/ _ |- _ => destruct H as [H|H]
           | H : False |- _ => contradiction
           end; subst; try discriminate;
    try (match goal with H : LClone _ _ = LClone _ _ |- _ => injection H as E1 E2; apply Hid; congruence end);
    try (apply Hp; congruence).
Qed.

Lemma user_fps_nth first cs i c : nth_error cs i = Some c -> nth_error (user_fps first cs) i = Some (user_fp (first + i) c).
Proof.
  revert first i. induction cs as [|a r IH]; intros first [|i] H; cbn in *; try discriminate.
  - injection H as ->. rewrite Nat.add_0_r. reflexivity.
  - rewrite (IH (S first) i H). f_equal. f_equal. lia.
Qed.

Lemma user_fps_length first cs : length (user_fps first cs) = length cs.
Proof. revert first. induction cs as [|a r IH]; intros first; cbn; auto. Qed.

(* any number of concurrent calls on shared const objects, each with its own private object: pairwise conflict-free *)
Lemma s_user_calls_disjoint first cs :
  Forall (fun c => clones_in_place c = false) cs -> NoDup (map private_of cs) ->
  forall i j f g, i <> j -> nth_error (user_fps first cs) i = Some f -> nth_error (user_fps first cs) j = Some g ->
  conflictb f g = false.
Proof.
  intros Hcl Hnd i j f g Hij Hi Hj.
  assert (Hil : (i < length cs)%nat) by (rewrite <- (user_fps_length first); apply nth_error_Some; congruence).
  assert (Hjl : (j < length cs)%nat) by (rewrite <- (user_fps_length first); apply nth_error_Some; congruence).
  destruct (nth_error cs i) as [ci|] eqn:Eci; [|apply nth_error_None in Eci; lia].
  destruct (nth_error cs j) as [cj|] eqn:Ecj; [|apply nth_error_None in Ecj; lia].
  rewrite (user_fps_nth first cs i ci Eci) in Hi. rewrite (user_fps_nth first cs j cj Ecj) in Hj.
  injection Hi as <-. injection Hj as <-. rewrite Forall_forall in Hcl.
  apply user_fp_free; [lia | apply Hcl; eapply nth_error_In; eauto | apply Hcl; eapply nth_error_In; eauto|].
  intros E. apply Hij. rewrite NoDup_nth_error in Hnd. apply Hnd; [rewrite map_length; exact Hil|].
  rewrite !nth_error_map, Eci, Ecj. cbn. f_equal. exact E.
Qed.

(* ================================================================================================================ *)
(* F. reductions                                                                                                     *)
(* ================================================================================================================ *)
Lemma fold_left_add l a : fold_left Z.add l a = a + zsum l.
Proof. revert a. induction l as [|x r IH]; intros a; cbn [fold_left]; [cbn; lia|]. rewrite IH. unfold zsum. cbn [fold_right]. lia. Qed.

Lemma zsum_cons x r : zsum (x :: r) = x + zsum r.
Proof. reflexivity. Qed.

Lemma zsum_app a b : zsum (a ++ b) = zsum a + zsum b.
Proof. induction a as [|x r IH]; cbn [app]; rewrite ?zsum_cons; [cbn; lia | lia]. Qed.

Lemma bin_cons t0 v r t : bin ((t0, v) :: r) t = (if Nat.eqb t0 t then v else 0) + bin r t.
Proof.
  unfold bin. cbn [filter fst]. destruct (Nat.eqb t0 t); cbn [map snd fold_left]; rewrite ?fold_left_add; cbn; lia.
Qed.

Lemma zsum_indicator t0 v (g : nat -> Z) n :
  zsum (map (fun t => (if Nat.eqb t0 t then v else 0) + g t) (seq 0 n)) = (if (t0 <? n)%nat then v else 0) + zsum (map g (seq 0 n)).
Proof.
  induction n as [|n IH]; [cbn; lia|]. rewrite seq_S, !map_app, !zsum_app, IH. cbn [map plus]. rewrite !zsum_cons.
  destruct (Nat.ltb_spec t0 n), (Nat.ltb_spec t0 (S n)), (Nat.eqb_spec t0 n); try lia.
Qed.

Lemma zsum_zero {A} (l : list A) : zsum (map (fun _ => 0) l) = 0.
Proof. induction l as [|x r IH]; [reflexivity|]. cbn [map]. rewrite zsum_cons, IH. reflexivity. Qed.

Lemma bins_total n assign : Forall (fun a => (fst a < n)%nat) assign -> zsum (bins n assign) = zsum (map snd assign).
Proof.
  unfold bins. induction 1 as [|[t0 v] r Ht _ IH].
  - rewrite (map_ext _ (fun _ => 0)) by (intros; reflexivity). apply zsum_zero.
  - rewrite (map_ext _ (fun t => (if Nat.eqb t0 t then v else 0) + bin r t)) by (intros; apply bin_cons).
    rewrite zsum_indicator, IH. cbn [fst] in Ht. cbn [map snd]. rewrite zsum_cons.
    destruct (Nat.ltb_spec t0 n); lia.
Qed.

Lemma zsum_skipn_nth (l : list Z) i : (i < length l)%nat -> zsum (skipn i l) = nth i l 0 + zsum (skipn (S i) l).
Proof.
  revert i. induction l as [|x r IH]; intros i Hi; cbn [length] in Hi; [lia|].
  destruct i as [|i]; [reflexivity|]. cbn [skipn nth]. rewrite IH by lia. reflexivity.
Qed.

Lemma reduce_loop_spec fuel : forall i accs acc0, 0 <= i -> (length accs - Z.to_nat i <= fuel)%nat ->
  reduce_loop fuel i accs acc0 = acc0 + zsum (skipn (Z.to_nat i) accs).
Proof.
  induction fuel as [|f IH]; intros i accs acc0 Hi Hf; cbn [reduce_loop].
  - rewrite skipn_all2 by lia. cbn. lia.
  - unfold src_c18_reduce_continue. destruct (Z.ltb_spec i (Z.of_nat (length accs))) as [Hlt|Hge].
    + rewrite IH by lia. rewrite (zsum_skipn_nth accs (Z.to_nat i)) by lia.
      replace (Z.to_nat (i + 1)) with (S (Z.to_nat i)) by lia. lia.
    + rewrite skipn_all2 by lia. cbn. lia.
Qed.

Lemma sum_reduce_spec accs : accs <> [] -> sum_reduce accs = zsum accs.
Proof.
  intros Hne. unfold sum_reduce, src_c18_reduce_first. rewrite reduce_loop_spec by lia. change (Z.to_nat 1) with 1%nat.
  destruct accs as [|a r]; [contradiction|]. cbn [nth skipn]. rewrite zsum_cons. reflexivity.
Qed.

(* the value reduced from the per-thread accumulators does not depend on which worker executed which chunk *)
Lemma s_reduction_order n assign :
  (0 < n)%nat -> Forall (fun a => (fst a < n)%nat) assign -> sum_reduce (bins n assign) = zsum (map snd assign).
Proof.
  intros Hn Ha. rewrite sum_reduce_spec; [apply bins_total; exact Ha|].
  unfold bins. destruct n; [lia|]. cbn. discriminate.
Qed.

(* ---- weak-learner fit: per-thread caches + min_reduce ---------------------------------------------------------- *)
Definition is_min (l : list (Z * Z)) (sf : Z * Z) : Prop := In sf l /\ forall x, In x l -> fst sf <= fst x.

Lemma best_from_spec l : forall c0,
  match fold_left cache_update l c0 with
  | None => c0 = None /\ l = []
  | Some sf => (c0 = Some sf \/ In sf l) /\ (forall x, In x l -> fst sf <= fst x) /\
               (forall sf0, c0 = Some sf0 -> fst sf <= fst sf0)
  end.
Proof.
  induction l as [|x r IH]; intros c0; cbn [fold_left].
  - destruct c0 as [sf|]; [|auto]. split; [left; reflexivity|]. split; [intros ? []|]. intros sf0 E. injection E as <-. lia.
  - specialize (IH (cache_update c0 x)). destruct (fold_left cache_update r (cache_update c0 x)) as [sf|].
    + destruct IH as [Hin [Hall Hc0]]. unfold cache_update in *. destruct c0 as [[s f]|].
      * destruct (Z.ltb_spec (fst x) s) as [Hlt|Hge].
        -- split; [destruct Hin as [E|Hin]; [injection E as <-; right; left; reflexivity | right; right; exact Hin]|].
           split; [intros y [<-|Hy]; [apply (Hc0 x eq_refl) | apply Hall; exact Hy]|].
           intros sf0 E. injection E as <-. specialize (Hc0 x eq_refl). cbn [fst]. lia.
        -- split; [destruct Hin as [E|Hin]; [left; exact E | right; right; exact Hin]|].
           split; [intros y [<-|Hy]; [specialize (Hc0 (s, f) eq_refl); cbn [fst] in Hc0; lia | apply Hall; exact Hy]|].
           intros sf0 E. injection E as <-. apply (Hc0 (s, f) eq_refl).
      * split; [destruct Hin as [E|Hin]; [injection E as <-; right; left; reflexivity | right; right; exact Hin]|].
        split; [intros y [<-|Hy]; [apply (Hc0 x eq_refl) | apply Hall; exact Hy]|]. intros sf0 E. discriminate E.
    + destruct IH as [E _]. unfold cache_update in E. destruct c0 as [[s f]|]; [destruct (fst x <? s)|]; discriminate E.
Qed.

Lemma best_spec l : match best l with None => l = [] | Some sf => is_min l sf end.
Proof.
  unfold best. pose proof (best_from_spec l None) as H. destruct (fold_left cache_update l None) as [sf|].
  - destruct H as [[E|Hin] [Hall _]]; [discriminate E|]. split; assumption.
  - apply H.
Qed.

Lemma cache_less_trans_neg c c' cur : cache_less c cur = true -> cache_less c' cur = false -> cache_less c' c = false.
Proof.
  destruct c as [[s f]|], c' as [[s' f']|], cur as [[s0 f0]|]; cbn [cache_less]; intros H1 H2; try discriminate; try reflexivity.
  apply Z.ltb_lt in H1. apply Z.ltb_ge in H2. apply Z.ltb_ge. lia.
Qed.

Lemma cache_less_neg_trans c c' cur : cache_less c cur = false -> cache_less c' cur = false -> cache_less cur c = false ->
  cache_less c' c = false.
Proof.
  destruct c as [[s f]|], c' as [[s' f']|], cur as [[s0 f0]|]; cbn [cache_less]; intros H1 H2 H3; try discriminate; try reflexivity.
  apply Z.ltb_ge in H1, H2, H3. apply Z.ltb_ge. lia.
Qed.

Lemma cache_less_irrefl c : cache_less c c = false.
Proof. destruct c as [[s f]|]; cbn; [apply Z.ltb_irrefl | reflexivity]. Qed.

Lemma min_reduce_go_spec rest : forall cur seen,
  (forall c', In c' seen -> cache_less c' cur = false) ->
  let c := min_reduce_go cur rest in
  (c = cur \/ In c rest) /\ (forall c', In c' (cur :: seen ++ rest) -> cache_less c' c = false).
Proof.
  induction rest as [|x r IH]; intros cur seen Hseen; cbn [min_reduce_go].
  - split; [left; reflexivity|]. intros c' [<-|Hin]; [apply cache_less_irrefl|]. rewrite app_nil_r in Hin. apply Hseen. exact Hin.
  - destruct (cache_less x cur) eqn:E.
    + destruct (IH x (cur :: seen)) as [Hc Hall].
      { intros c' [<-|Hin]; [destruct x as [[s f]|], cur as [[s0 f0]|]; cbn in *; try discriminate; try reflexivity;
                             apply Z.ltb_lt in E; apply Z.ltb_ge; lia|].
        eapply cache_less_trans_neg; [exact E | apply Hseen; exact Hin]. }
      split; [destruct Hc as [->|Hc]; right; [left; reflexivity | right; exact Hc]|].
      intros c' Hin. apply Hall. destruct Hin as [<-|Hin]; [right; left; reflexivity|].
      apply in_app_or in Hin. destruct Hin as [Hin|[<-|Hin]].
      * right. right. apply in_or_app. left. exact Hin.
      * left. reflexivity.
      * right. right. apply in_or_app. right. exact Hin.
    + destruct (IH cur (seen ++ [x])) as [Hc Hall].
      { intros c' Hin. apply in_app_or in Hin. destruct Hin as [Hin|[<-|[]]]; [apply Hseen; exact Hin | exact E]. }
      split; [destruct Hc as [->|Hc]; [left; reflexivity | right; right; exact Hc]|].
      intros c' Hin. apply Hall. rewrite <- app_assoc. exact Hin.
Qed.

Lemma min_reduce_spec cs : cs <> [] -> In (min_reduce cs) cs /\ forall c', In c' cs -> cache_less c' (min_reduce cs) = false.
Proof.
  destruct cs as [|c r]; [contradiction|]. intros _. cbn [min_reduce].
  destruct (min_reduce_go_spec r c [] ltac:(intros ? [])) as [Hc Hall].
  split; [destruct Hc as [->|Hc]; [left; reflexivity | right; exact Hc] | exact Hall].
Qed.

Lemma nodup_fst_inj (l : list (Z * Z)) a b : NoDup (map fst l) -> In a l -> In b l -> fst a = fst b -> a = b.
Proof.
  induction l as [|x r IH]; intros Hnd Ha Hb E; [contradiction|]. cbn [map] in Hnd. inversion Hnd as [|? ? Hnin Hnd']. subst.
  destruct Ha as [<-|Ha], Hb as [<-|Hb].
  - reflexivity.
  - exfalso. apply Hnin. rewrite E. apply in_map. exact Hb.
  - exfalso. apply Hnin. rewrite <- E. apply in_map. exact Ha.
  - apply IH; assumption.
Qed.

Lemma is_min_unique l a b : NoDup (map fst l) -> is_min l a -> is_min l b -> a = b.
Proof.
  intros Hnd [Ha Hla] [Hb Hlb]. apply (nodup_fst_inj l); try assumption. specialize (Hla b Hb). specialize (Hlb a Ha). lia.
Qed.

Lemma in_caches n sched t : (t < n)%nat ->
  In (best (map snd (filter (fun a => Nat.eqb (fst a) t) sched))) (caches n sched).
Proof. intros Ht. unfold caches. apply in_map_iff. exists t. split; [reflexivity | apply in_seq; lia]. Qed.

(* whatever worker evaluated which feature, in whatever order: the fit selects a minimum-score (score, feature) pair *)
Lemma fit_select_is_min n sched :
  Forall (fun a => (fst a < n)%nat) sched -> sched <> [] ->
  exists sf, fit_select n sched = Some sf /\ is_min (map snd sched) sf.
Proof.
  intros Ha Hne. rewrite Forall_forall in Ha. unfold fit_select.
  assert (Hcs : caches n sched <> []).
  { destruct sched as [|a r]; [contradiction|]. specialize (Ha a (or_introl eq_refl)). unfold caches.
    destruct n; [lia|]. cbn. discriminate. }
  destruct (min_reduce_spec (caches n sched) Hcs) as [Hin Hall].
  (* the cache of a worker that evaluated something is not empty and bounds everything it evaluated *)
  assert (Hitem : forall a, In a sched -> exists sf', fst sf' <= fst (snd a) /\
                                                      cache_less (Some sf') (min_reduce (caches n sched)) = false).
  { intros a Hin_a. pose proof (in_caches n sched (fst a) (Ha a Hin_a)) as Hc.
    pose proof (best_spec (map snd (filter (fun a0 => Nat.eqb (fst a0) (fst a)) sched))) as Hb.
    assert (Hmem : In (snd a) (map snd (filter (fun a0 => Nat.eqb (fst a0) (fst a)) sched))).
    { apply in_map. apply filter_In. split; [exact Hin_a | apply Nat.eqb_refl]. }
    destruct (best (map snd (filter (fun a0 => Nat.eqb (fst a0) (fst a)) sched))) as [sf'|].
    - exists sf'. split; [apply Hb; exact Hmem | apply Hall; exact Hc].
    - rewrite Hb in Hmem. contradiction. }
  destruct (min_reduce (caches n sched)) as [sf|] eqn:Em.
  - exists sf. split; [reflexivity|]. split.
    + unfold caches in Hin. apply in_map_iff in Hin. destruct Hin as [t [Ht _]].
      pose proof (best_spec (map snd (filter (fun a => Nat.eqb (fst a) t) sched))) as Hb. rewrite Ht in Hb.
      destruct Hb as [Hb _]. apply in_map_iff in Hb. destruct Hb as [a [<- Hf]]. apply filter_In in Hf. apply in_map. apply Hf.
    + intros x Hx. apply in_map_iff in Hx. destruct Hx as [a [<- Hin_a]]. destruct (Hitem a Hin_a) as [sf' [Hle Hless]].
      cbn [cache_less] in Hless. destruct sf' as [s' f'], sf as [s f]. apply Z.ltb_ge in Hless. cbn [fst] in *. lia.
  - destruct sched as [|a r]; [contradiction|]. destruct (Hitem a (or_introl eq_refl)) as [[s' f'] [_ Hless]]. discriminate Hless.
Qed.

(* when no two features have the same score, the selected (score, feature) is the same for every assignment of the
   features to workers, every evaluation order and every number of workers *)
Lemma s_fit_select_schedule_independent n1 n2 sched1 sched2 :
  Forall (fun a => (fst a < n1)%nat) sched1 -> Forall (fun a => (fst a < n2)%nat) sched2 ->
  Permutation (map snd sched1) (map snd sched2) -> NoDup (map fst (map snd sched1)) ->
  fit_select n1 sched1 = fit_select n2 sched2.
Proof.
  intros H1 H2 Hp Hnd. destruct sched1 as [|a1 r1].
  - cbn [map] in Hp. apply Permutation_nil in Hp. destruct sched2; [|discriminate Hp].
    unfold fit_select, caches. cbn [filter map best fold_left].
    assert (G : forall n, min_reduce (map (fun _ : nat => @None (Z * Z)) (seq 0 n)) = None).
    { intros n. destruct n; [reflexivity|]. cbn [seq map min_reduce]. generalize (seq 1 n). intros l.
      induction l as [|x r IH]; [reflexivity | exact IH]. }
    rewrite !G. reflexivity.
  - assert (Hne2 : sched2 <> []).
    { intros ->. cbn [map] in Hp. apply Permutation_sym, Permutation_nil in Hp. discriminate Hp. }
    destruct (fit_select_is_min n1 (a1 :: r1) H1 ltac:(discriminate)) as [sf1 [E1 M1]].
    destruct (fit_select_is_min n2 sched2 H2 Hne2) as [sf2 [E2 M2]].
    rewrite E1, E2. f_equal. apply (is_min_unique (map snd (a1 :: r1))); [exact Hnd | exact M1|].
    destruct M2 as [Hin Hall]. split; [eapply Permutation_in; [apply Permutation_sym; exact Hp | exact Hin]|].
    intros x Hx. apply Hall. eapply Permutation_in; [exact Hp | exact Hx].
Qed.

(* the single-thread fit (fast path: every feature evaluated in index order with tnum 0) keeps the first best feature *)
Lemma fit_select_sequential items : fit_select 1 (map (fun x => (0%nat, x)) items) = best items.
Proof.
  unfold fit_select, caches. cbn [seq map min_reduce min_reduce_go]. f_equal.
  induction items as [|x r IH]; [reflexivity|]. cbn [map filter fst Nat.eqb snd]. f_equal. exact IH.
Qed.

(* ================================================================================================================ *)
(* the selection rule of the model IS the source's (translated) rule                                                 *)
(* ================================================================================================================ *)
Lemma better_src_strict k s b : better_src k s b = (s <? b)%Z.
Proof. destruct k as [| | | |i]; try reflexivity. destruct i as [|[|i]]; reflexivity. Qed.

Lemma reduce_less_strict a b : src_c18_reduce_less a b = (a <? b)%Z.
Proof. reflexivity. Qed.

Lemma cache_update_src_eq k c sf : cache_update_src k c sf = cache_update c sf.
Proof.
  destruct c as [[s f]|]; [|reflexivity]. unfold cache_update_src, cache_update. rewrite better_src_strict. reflexivity.
Qed.

Lemma fold_update_src_eq k l : forall c, fold_left (cache_update_src k) l c = fold_left cache_update l c.
Proof. induction l as [|x l IH]; intro c; [reflexivity|]. cbn [fold_left]. rewrite cache_update_src_eq. apply IH. Qed.

Lemma best_src_eq k l : best_src k l = best l.
Proof. unfold best_src, best. apply fold_update_src_eq. Qed.

Lemma cache_less_src_eq a b : cache_less_src a b = cache_less a b.
Proof. destruct a as [[s f]|], b as [[s' f']|]; reflexivity. Qed.

Lemma min_reduce_go_src_eq rest : forall cur, min_reduce_go_src cur rest = min_reduce_go cur rest.
Proof.
  induction rest as [|c r IH]; intro cur; [reflexivity|]. cbn [min_reduce_go_src min_reduce_go].
  rewrite cache_less_src_eq. destruct (cache_less c cur); apply IH.
Qed.

Lemma fit_select_src_eq k n sched : fit_select_src k n sched = fit_select n sched.
Proof.
  unfold fit_select_src, fit_select, caches_src, caches.
  assert (E : map (fun t => best_src k (map snd (filter (fun a => Nat.eqb (fst a) t) sched))) (seq 0 n)
            = map (fun t => best (map snd (filter (fun a => Nat.eqb (fst a) t) sched))) (seq 0 n))
    by (apply map_ext; intro t; apply best_src_eq).
  rewrite E. unfold min_reduce_src, min_reduce.
  destruct (map (fun t => best (map snd (filter (fun a => Nat.eqb (fst a) t) sched))) (seq 0 n)) as [|c r]; [reflexivity|].
  apply min_reduce_go_src_eq.
Qed.

