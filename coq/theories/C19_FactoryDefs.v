(* C19 extension -- the factory clause as a statement about the table regenerated from the source on every run
   (LNGen.Src_c19_params, written by tools/checks/c19_params.py).  Executable definitions only, no proofs.

   * `param_storage p`  what parameter_t::make_<kind>(...) hands to the private constructor: make_scalar_ casts every
                        argument with static_cast<tscalar> (include/nano/parameter.h) -- an integer literal given to a
                        floating-point kind goes through i2f, a floating literal given to an integer kind through f2i
                        (None = that cast is undefined behaviour, cf. make_integer_d / C19_outside_construction_cast);
   * `param_ok p`       the model's own `make` (C19_Defs) accepts it: "default inside its declared domain" is the very
                        predicate of the assignment theorems;
   * `object_config o`  the constructor chain of a class replayed on the model's configurable with `cbuild`: unlike
                        `crun` it fails as soon as one registration or constructor-body assignment throws (the exception
                        would leave the constructor, the object could not be built);
   * `use_ok`           a typed read `parameter(name).value<T>()` / constant assignment of the library's own code against the
                        parameter it addresses. *)
From Coq Require Import ZArith List Bool String Ascii Floats.
From LNGen Require Import Src_c19_params.
From LN Require Import C19_Defs.
Import ListNotations.
Local Open Scope Z_scope.

(* std::string -> the model's byte strings *)
Definition bytes_of (s : string) : str := map (fun a => Z.of_N (N_of_ascii a)) (list_ascii_of_string s).

Definition cmp_of (b : bool) : cmp := if b then LE else LT.

(* static_cast<scalar_t>(x) / static_cast<int64_t>(x) of a make_* argument *)
Definition num_f (n : snum) : float := match n with NI z => i2f z | NF f => f end.
Definition num_i (n : snum) : option Z :=
  match n with
  | NI z => if in_int64 z then Some z else None
  | NF f => f2i f
  end.

Definition storage_of (k : skind) (le : list bool) (nums : list snum) (strs : list string) : option storage :=
  match k, le, nums, strs with
  | KScalar, [c1; c2], [mn; v; mx], [] =>
      Some (SFRange (num_f v) (num_f mn) (num_f mx) (cmp_of c1) (cmp_of c2))
  | KInteger, [c1; c2], [mn; v; mx], [] =>
      match num_i v, num_i mn, num_i mx with
      | Some v', Some mn', Some mx' => Some (SIRange v' mn' mx' (cmp_of c1) (cmp_of c2))
      | _, _, _ => None
      end
  | KScalarPair, [c1; c2; c3], [mn; v1; v2; mx], [] =>
      Some (SFPair (num_f v1) (num_f v2) (num_f mn) (num_f mx) (cmp_of c1) (cmp_of c2) (cmp_of c3))
  | KIntegerPair, [c1; c2; c3], [mn; v1; v2; mx], [] =>
      match num_i v1, num_i v2, num_i mn, num_i mx with
      | Some a, Some b, Some mn', Some mx' => Some (SIPair a b mn' mx' (cmp_of c1) (cmp_of c2) (cmp_of c3))
      | _, _, _, _ => None
      end
  | KEnum, [], [], v :: dom => Some (SEnum (bytes_of v) (map bytes_of dom))
  | KString, [], [], [v] => Some (SString (bytes_of v))
  | _, _, _, _ => None
  end.

Definition param_storage (p : sparam) : option storage := storage_of (sp_kind p) (sp_le p) (sp_nums p) (sp_strs p).

Definition made (s : storage) : bool := match make s with Ok _ => true | _ => false end.

Definition param_ok (p : sparam) : bool :=
  match param_storage p with Some s => made s | None => false end.

(* ---------------------------------------------------------------------------------------------- *)
(* objects: the constructor chain on the model's configurable                                      *)
Definition arg_of_val (v : sval) : arg :=
  match v with
  | VNum (NI z) => AInt z
  | VNum (NF f) => AFlt f
  | VPair (NI a) (NI b) => AIPair a b
  | VPair a b => AFPair (num_f a) (num_f b)
  | VStr s => AEnum (bytes_of s)
  end.

Definition entry_op (e : sentry) : option cop :=
  match e with
  | EReg i name =>
      match nth_error src_c19_params i with
      | Some p => option_map (CRegister (bytes_of name)) (param_storage p)
      | None => None
      end
  | ESet name v _ _ => Some (CAssign (bytes_of name) (arg_of_val v))
  end.

Fixpoint all_some {A} (l : list (option A)) : option (list A) :=
  match l with
  | [] => Some []
  | Some x :: r => option_map (cons x) (all_some r)
  | None :: _ => None
  end.

(* a constructor: every statement must succeed *)
Fixpoint cbuild (c : config) (h : list cop) : option config :=
  match h with
  | [] => Some c
  | o :: h' => match cstep c o with COk c' => cbuild c' h' | _ => None end
  end.

Definition object_ops (o : sobject) : option (list cop) := all_some (map entry_op (so_entries o)).
Definition object_config (o : sobject) : option config :=
  match object_ops o with Some h => cbuild [] h | None => None end.

Definition is_reg (e : sentry) : bool := match e with EReg _ _ => true | _ => false end.
Definition regs (o : sobject) : nat := List.length (filter is_reg (so_entries o)).

Definition object_ok (o : sobject) : bool :=
  match object_config o with Some c => Nat.eqb (List.length c) (regs o) | None => false end.

(* every object entry is an instance of a raw source record: the name is the record's name expression with the
   object's type id for type_id() and some string for the prefix argument of a ::config helper *)
Fixpoint drop (n : nat) (s : string) : string :=
  match n, s with
  | O, _ => s
  | S k, String _ r => drop k r
  | S _, EmptyString => EmptyString
  end.

Fixpoint name_matches (ps : list spart) (tid : string) (s : string) : bool :=
  match ps with
  | [] => String.eqb s EmptyString
  | PLit l :: r => prefix l s && name_matches r tid (drop (String.length l) s)
  | PTypeId :: r => prefix tid s && name_matches r tid (drop (String.length tid) s)
  | PArg _ :: r => existsb (fun k => name_matches r tid (drop k s)) (List.seq 0 (S (String.length s)))
  end.

Definition entry_from_source (tid : string) (e : sentry) : bool :=
  match e with
  | EReg i name => match nth_error src_c19_params i with Some p => name_matches (sp_name p) tid name | None => false end
  | ESet _ _ _ _ => true
  end.

Definition object_from_source (o : sobject) : bool := forallb (entry_from_source (so_type_id o)) (so_entries o).

(* ---------------------------------------------------------------------------------------------- *)
(* uses: parameter(name).value<T>() / value_pair<T>() / = constant                                  *)
Definition find_store (c : config) (name : str) : option storage :=
  if cfound name c then option_map pstore (nth_error c (Z.to_nat (cfind_pos name c))) else None.

(* the reader of the model that a typed read executes *)
Definition reader (rd : sread) : option (storage -> rres) :=
  match rd with
  | RdF64 => Some read_f64
  | RdI32 | RdI64 | RdU32 | RdU64 => Some read_i64
  | RdStr => Some read_str
  | RdPairF => Some read_fp
  | RdPairI => Some read_ip
  | RdEnum _ _ => Some read_enum
  | RdName | WrVal _ => None
  end.

(* representable range of the C++ result type: [ilo, ihi] for integer parameters; for floating-point parameters the
   open interval (flo, fhi) of doubles whose truncation is representable (static_cast outside it is undefined) *)
Definition int_range (rd : sread) : option (Z * Z * float * float) :=
  match rd with
  | RdI32 => Some (-2147483648, 2147483647, (-0x1.00000002p+31)%float, 0x1p+31%float)
  | RdI64 => Some (int64_min, int64_max, (-0x1.0000000000001p+63)%float, 0x1p+63%float)
  | RdU32 => Some (0, 4294967295, (-0x1p+0)%float, 0x1p+32%float)
  | RdU64 => Some (0, int64_max, (-0x1p+0)%float, 0x1p+64%float)
  | RdPairI => Some (int64_min, int64_max, (-0x1.0000000000001p+63)%float, 0x1p+63%float)
  | _ => None
  end.

(* every value of the declared domain converts into the result type (bounds of the domain inside its range) *)
Definition range_ok (rd : sread) (s : storage) : bool :=
  match int_range rd with
  | None => true
  | Some (ilo, ihi, flo, fhi) =>
      match s with
      | SIRange _ mn mx _ _ | SIPair _ _ mn mx _ _ _ => (ilo <=? mn) && (mx <=? ihi)
      | SFRange _ mn mx _ _ | SFPair _ _ mn mx _ _ _ => PrimFloat.ltb flo mn && PrimFloat.ltb mx fhi
      | _ => true
      end
  end.

(* an integer-typed read of a floating-point parameter drops the fraction *)
Definition lossy (rd : sread) (s : storage) : bool :=
  match int_range rd, s with
  | Some _, SFRange _ _ _ _ _ | Some _, SFPair _ _ _ _ _ _ _ => true
  | _, _ => false
  end.

(* truncating reads present in the library and accepted as they are (recorded in notes/C19.md): the two percentages of
   the synthetic linear data source are declared make_scalar and read with value<int>() *)
Definition lossy_reads_accepted : list string :=
  ["datasource::linear::missing"; "datasource::linear::relevant"]%string.

Fixpoint strs_eqb (a b : list str) : bool :=
  match a, b with
  | [], [] => true
  | x :: a', y :: b' => str_eqb x y && strs_eqb a' b'
  | _, _ => false
  end.

Definition kind_ok (rd : sread) (s : storage) : bool :=
  match rd, s with
  | (RdF64 | RdI32 | RdI64 | RdU32 | RdU64), (SIRange _ _ _ _ _ | SFRange _ _ _ _ _) => true
  | (RdPairF | RdPairI), (SIPair _ _ _ _ _ _ _ | SFPair _ _ _ _ _ _ _) => true
  | RdStr, SString _ => true
  | RdEnum _ names, SEnum _ dom => strs_eqb dom (map bytes_of names)
  | RdName, _ => true
  | WrVal v, _ => match step s (arg_of_val v) with Ok _ => true | _ => false end
  | _, _ => false
  end.

Definition use_ok (name : string) (rd : sread) (s : storage) : bool :=
  kind_ok rd s && range_ok rd s && (negb (lossy rd s) || existsb (String.eqb name) lossy_reads_accepted).

Definition use_checked (u : suse) : bool :=
  match nth_error src_c19_objects (su_obj u) with
  | Some o =>
      match object_config o with
      | Some c => match find_store c (bytes_of (su_name u)) with
                  | Some s => use_ok (su_name u) (su_read u) s
                  | None => false
                  end
      | None => false
      end
  | None => false
  end.

(* ---------------------------------------------------------------------------------------------- *)
(* what the driver compares with the compiled library: per object its key (class name as the harness' demangled
   typeid, namespaces stripped) and the configuration its constructor chain builds                                      *)
Definition object_table : list (str * str * str * option config * bool) :=
  map (fun o => (bytes_of (so_label o), bytes_of (so_key o), bytes_of (so_type_id o), object_config o, object_ok o))
      src_c19_objects.

Definition object_ops_table : list (option (list cop)) := map object_ops src_c19_objects.

Definition param_table : list (str * Z * option storage * bool) :=
  map (fun p => (bytes_of (sp_file p), sp_line p, param_storage p, param_ok p)) src_c19_params.

Definition use_table : list (str * Z * str * bool) :=
  map (fun u => (bytes_of (su_file u), su_line u, bytes_of (su_name u), use_checked u)) src_c19_uses.
