(* C01 -- the real-analysis part: distance to the minimiser of a strongly convex quadratic from the gradient
   criterion (style C over R).  Vectors are lists of reals of equal length. *)
From Coq Require Import Reals List Lra Lia Psatz.
Import ListNotations.
Local Open Scope R_scope.

Fixpoint dot (a b : list R) : R :=
  match a, b with
  | x :: a', y :: b' => x * y + dot a' b'
  | _, _ => 0
  end.
Definition norm2 (a : list R) : R := sqrt (dot a a).

Lemma dot_self_nonneg a : 0 <= dot a a.
Proof. induction a as [|x a IH]; simpl; [lra|nra]. Qed.

Lemma amgm_step x y s A B : 0 <= A -> 0 <= B -> s * s <= A * B -> 2 * x * y * s <= x * x * B + y * y * A.
Proof.
  intros HA HB HS.
  set (u := 2 * x * y * s). set (v := x * x * B + y * y * A).
  assert (V0 : 0 <= v) by (unfold v; apply Rplus_le_le_0_compat; apply Rmult_le_pos; auto; nra).
  destruct (Rle_dec u v) as [L|N]; [exact L|]. exfalso. apply Rnot_le_lt in N.
  assert (H1 : u * u <= v * v).
  { unfold u, v.
    assert (Q : 0 <= (x * y) * (x * y)) by (apply Rle_0_sqr).
    pose proof (Rmult_le_compat_l _ _ _ Q HS) as M.
    assert (Hsq : 0 <= (x * x * B - y * y * A) * (x * x * B - y * y * A)) by (apply Rle_0_sqr).
    nra. }
  assert (P : 0 < (u - v) * (u + v)) by (apply Rmult_lt_0_compat; lra).
  nra.
Qed.

Lemma cauchy_schwarz : forall a b, dot a b * dot a b <= dot a a * dot b b.
Proof.
  induction a as [|x a IH]; intros b; simpl; [lra|].
  destruct b as [|y b]; simpl; [pose proof (dot_self_nonneg a); nra|].
  pose proof (dot_self_nonneg a) as HA. pose proof (dot_self_nonneg b) as HB. specialize (IH b).
  pose proof (amgm_step x y (dot a b) (dot a a) (dot b b) HA HB IH). nra.
Qed.

Lemma dot_bound c : forall g, 0 <= c -> Forall (fun gi => Rabs gi <= c) g -> dot g g <= INR (length g) * (c * c).
Proof.
  induction g as [|y g IH]; intros C F; [simpl; lra|].
  inversion F; subst. specialize (IH C H2).
  change (length (y :: g)) with (S (length g)). rewrite S_INR. simpl dot.
  assert (y * y <= c * c).
  { destruct (Rcase_abs y) as [N|P]; [rewrite (Rabs_left _ N) in H1|rewrite (Rabs_right _ P) in H1]; nra. }
  nra.
Qed.

(* d = x - x*, g = gradient at x = A d; strong convexity of the quadratic gives lmin |d|^2 <= d . g;
   the stopping criterion gives |g_i| <= c with c = eps * max(1, |f(x)|) *)
Lemma error_bound d g lmin c :
  0 < lmin -> 0 <= c -> length g = length d ->
  lmin * dot d d <= dot d g ->
  Forall (fun gi => Rabs gi <= c) g ->
  norm2 d <= sqrt (INR (length d)) * c / lmin.
Proof.
  intros HL HC Len SC F. unfold norm2.
  pose proof (dot_self_nonneg d) as D0. set (D := dot d d) in *.
  pose proof (cauchy_schwarz d g) as CS. fold D in CS.
  pose proof (dot_bound c g HC F) as GB. rewrite Len in GB.
  set (n := INR (length d)) in *. assert (N0 : 0 <= n) by (apply pos_INR).
  assert (RHS0 : 0 <= sqrt n * c / lmin).
  { apply Rmult_le_pos; [apply Rmult_le_pos; [apply sqrt_pos|exact HC]|left; apply Rinv_0_lt_compat; exact HL]. }
  apply Rsqr_incr_0_var; [|exact RHS0].
  rewrite Rsqr_sqrt by exact D0.
  unfold Rsqr.
  replace (sqrt n * c / lmin * (sqrt n * c / lmin)) with ((sqrt n * sqrt n) * (c * c) / (lmin * lmin)) by (field; lra).
  rewrite sqrt_sqrt by exact N0.
  (* (lmin D)^2 <= (d.g)^2 <= D n c^2 *)
  assert (K : (lmin * D) * (lmin * D) <= D * (n * (c * c))).
  { assert (0 <= lmin * D) by nra. assert (lmin * D * (lmin * D) <= dot d g * dot d g) by nra.
    assert (D * dot g g <= D * (n * (c * c))) by (apply Rmult_le_compat_l; lra). lra. }
  destruct (Req_dec D 0) as [Z|NZ].
  - rewrite Z. apply Rmult_le_pos; [nra|]. left. apply Rinv_0_lt_compat. nra.
  - assert (DP : 0 < D) by lra.
    assert (L2 : lmin * lmin * D <= n * (c * c)).
    { apply (Rmult_le_reg_l D); [exact DP|]. nra. }
    apply (Rmult_le_reg_r (lmin * lmin)); [nra|].
    unfold Rdiv. rewrite Rmult_assoc, Rinv_l by nra. lra.
Qed.
