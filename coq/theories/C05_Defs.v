(* C05 -- executable model of
     * the 11 constraint kinds of include/nano/function/constraint.h with value and gradient as
       src/function/constraint.cpp computes them (functional constraints: the wrapped function is an oracle),
     * linear_penalty_function_t / quadratic_penalty_function_t / augmented_lagrangian_function_t::do_vgrad
       of src/function/penalty.cpp (same loop, same branches, same multiplier counters),
     * the `convex` flag of the penalty objects,
     * solver_state_t::update_constraints of src/solver/state.cpp,
     * the outer loop of solver_augmented_lagrangian_t::do_minimize (src/solver/augmented.cpp) as a step function
       over the results of the inner solver (oracle) + solver_t::done (src/solver.cpp),
   over exact rationals. The boolean / integer decision structure is imported from the kernels translated from the
   source on every run (LNGen.Src_c05); the floating-point roundings of the outer loop are parameters ([rops]).
   No proofs in this file. *)
From Coq Require Import List ZArith QArith Bool.
From LNGen Require Import Src_c05.
Import ListNotations.
Local Open Scope Q_scope.

Definition vec := list Q.

(* ---- scalars ------------------------------------------------------------------------------------ *)
Definition qltb (a b : Q) : bool := negb (Qle_bool b a).                 (* a < b *)
Definition qmax (a b : Q) : Q := if Qle_bool a b then b else a.          (* std::max / Eigen max *)
Definition qmin (a b : Q) : Q := if Qle_bool a b then a else b.
Definition qabs (a : Q) : Q := if Qle_bool 0 a then a else - a.          (* std::fabs *)

(* ---- vectors ------------------------------------------------------------------------------------ *)
Fixpoint dot (u v : vec) : Q :=
  match u, v with a :: u', b :: v' => a * b + dot u' v' | _, _ => 0 end.
Fixpoint vadd (u v : vec) : vec :=
  match u, v with
  | a :: u', b :: v' => (a + b) :: vadd u' v'
  | [], _ => v
  | _, [] => u
  end.
Definition vscale (k : Q) (v : vec) : vec := map (Qmult k) v.
Definition vsub (u v : vec) : vec := vadd u (vscale (-1) v).
Definition vnth (v : vec) (k : nat) : Q := nth k v 0.
(* gx.full(0.0)(d) = s *)
Definition unit_vec (n d : nat) (s : Q) : vec := map (fun i => if Nat.eqb i d then s else 0) (seq 0 n).
Definition mv (P : list vec) (x : vec) : vec := map (fun row => dot row x) P.
Fixpoint map2 {A B C : Type} (f : A -> B -> C) (l1 : list A) (l2 : list B) : list C :=
  match l1, l2 with a :: l1', b :: l2' => f a b :: map2 f l1' l2' | _, _ => [] end.
Definition qsum (l : list Q) : Q := fold_right Qplus 0 l.

(* ---- constraints (constraint.h: the 11 alternatives of constraint_t) ------------------------------- *)
Inductive constraint : Type :=
| CConstant (v : Q) (d : nat)                      (* h(x) = x(d) - v *)
| CMinimum (v : Q) (d : nat)                       (* g(x) = v - x(d) *)
| CMaximum (v : Q) (d : nat)                       (* g(x) = x(d) - v *)
| CBallEq (o : vec) (r : Q)                        (* h(x) = |x-o|^2 - r^2 *)
| CBallIneq (o : vec) (r : Q)
| CLinEq (q : vec) (r : Q)                         (* h(x) = q.x + r *)
| CLinIneq (q : vec) (r : Q)
| CQuadEq (P : list vec) (q : vec) (r : Q)         (* h(x) = 1/2 x.Px + q.x + r *)
| CQuadIneq (P : list vec) (q : vec) (r : Q)
| CFunEq (f : vec -> Q * vec)                      (* h(x) = f(x), oracle *)
| CFunIneq (f : vec -> Q * vec).

Definition is_constant_t c := match c with CConstant _ _ => true | _ => false end.
Definition is_linear_equality_t c := match c with CLinEq _ _ => true | _ => false end.
Definition is_quadratic_equality_t c := match c with CQuadEq _ _ _ => true | _ => false end.
Definition is_functional_equality_t c := match c with CFunEq _ => true | _ => false end.
Definition is_euclidean_ball_equality_t c := match c with CBallEq _ _ => true | _ => false end.

(* nano::is_equality (translated) *)
Definition is_equality (c : constraint) : bool :=
  src_is_equality (is_constant_t c) (is_linear_equality_t c) (is_quadratic_equality_t c)
                  (is_functional_equality_t c) (is_euclidean_ball_equality_t c).
(* is_linear_equality of penalty.cpp (translated) *)
Definition is_linear_equality (c : constraint) : bool :=
  src_is_linear_equality (is_constant_t c) (is_linear_equality_t c).

(* ::vgrad overloads of constraint.cpp *)
Definition ball_vgrad (o : vec) (r : Q) (x : vec) : Q * vec :=
  (dot (vsub x o) (vsub x o) - r * r, vscale 2 (vsub x o)).
Definition lin_vgrad (q : vec) (r : Q) (x : vec) : Q * vec := (dot q x + r, q).
Definition quad_vgrad (P : list vec) (q : vec) (r : Q) (x : vec) : Q * vec :=
  ((1 # 2) * dot x (mv P x) + dot q x + r, vadd (mv P x) q).
Definition min_vgrad (v : Q) (d : nat) (x : vec) : Q * vec := (v - vnth x d, unit_vec (length x) d (-1)).
Definition max_vgrad (v : Q) (d : nat) (x : vec) : Q * vec := (vnth x d - v, unit_vec (length x) d 1).

Definition cvgrad (c : constraint) (x : vec) : Q * vec :=
  match c with
  | CConstant v d => max_vgrad v d x
  | CMinimum v d => min_vgrad v d x
  | CMaximum v d => max_vgrad v d x
  | CBallEq o r | CBallIneq o r => ball_vgrad o r x
  | CLinEq q r | CLinIneq q r => lin_vgrad q r x
  | CQuadEq P q r | CQuadIneq P q r => quad_vgrad P q r x
  | CFunEq f | CFunIneq f => f x
  end.

(* an evaluated constraint: (is_equality, fc, gc) *)
Record cev : Type := mkcev { ce_eq : bool; ce_val : Q; ce_grad : vec }.
Definition eval1 (x : vec) (c : constraint) : cev :=
  mkcev (is_equality c) (fst (cvgrad c x)) (snd (cvgrad c x)).
Definition evals (cs : list constraint) (x : vec) : list cev := map (eval1 x) cs.

(* ---- penalty functions (penalty.cpp) ------------------------------------------------------------- *)
Definition acc : Type := (Q * vec)%type.               (* (fx, gx) *)
(* fx += dv; gx += k * gc *)
Definition add_term (a : acc) (dv k : Q) (gc : vec) : acc := (fst a + dv, vadd (snd a) (vscale k gc)).

Definition lin_step (rho : Q) (a : acc) (e : cev) : acc :=
  if src_pen_active (ce_eq e) (qltb 0 (ce_val e))
  then add_term a (rho * qabs (ce_val e))
                  (rho * inject_Z (src_lin_sign (Qle_bool 0 (ce_val e)))) (ce_grad e)
  else a.
Definition linear_penalty (rho : Q) (f0 : acc) (es : list cev) : acc := fold_left (lin_step rho) es f0.

Definition quad_step (rho : Q) (a : acc) (e : cev) : acc :=
  if src_pen_active (ce_eq e) (qltb 0 (ce_val e))
  then add_term a (rho * ce_val e * ce_val e) (rho * 2 * ce_val e) (ce_grad e)
  else a.
Definition quadratic_penalty (rho : Q) (f0 : acc) (es : list cev) : acc := fold_left (quad_step rho) es f0.

(* mu = eq ? m_lambda(ilambda++) : m_miu(imiu++): the counters are the consumed prefixes *)
Definition al_state1 : Type := (acc * vec * vec)%type.
Definition al_step1 (rho : Q) (s : al_state1) (e : cev) : al_state1 :=
  let '(a, ls, ms) := s in
  let mu := if ce_eq e then hd 0 ls else hd 0 ms in
  let ls' := if ce_eq e then tl ls else ls in
  let ms' := if ce_eq e then ms else tl ms in
  let t := ce_val e + mu / rho in
  (if src_al_active (ce_eq e) (qltb 0 t)
   then add_term a ((1 # 2) * rho * t * t) (rho * t) (ce_grad e)
   else a, ls', ms').
Definition augmented_lagrangian (rho : Q) (lambda miu : vec) (f0 : acc) (es : list cev) : acc :=
  fst (fst (fold_left (al_step1 rho) es (f0, lambda, miu))).

(* the three objects evaluated at x for an objective oracle fobj *)
Definition linear_penalty_at (fobj : vec -> acc) (cs : list constraint) (rho : Q) (x : vec) : acc :=
  linear_penalty rho (fobj x) (evals cs x).
Definition quadratic_penalty_at (fobj : vec -> acc) (cs : list constraint) (rho : Q) (x : vec) : acc :=
  quadratic_penalty rho (fobj x) (evals cs x).
Definition augmented_lagrangian_at (fobj : vec -> acc) (cs : list constraint) (rho : Q) (lambda miu : vec)
           (x : vec) : acc :=
  augmented_lagrangian rho lambda miu (fobj x) (evals cs x).

(* ::convex(function) of penalty.cpp; the eigenvalue test nano::convex(P) and function_t::convex() of a wrapped
   function are oracle answers paired with the constraint *)
Definition ct_convex (co : constraint * bool) : bool :=
  match fst co with
  | CQuadEq _ _ _ | CQuadIneq _ _ _ | CFunEq _ | CFunIneq _ => snd co
  | _ => true
  end.
Definition pen_convex (fconvex : bool) (cs : list (constraint * bool)) : bool :=
  fconvex && forallb (fun co => src_pen_convex_ct (ct_convex co) (is_equality (fst co)) (is_linear_equality (fst co))) cs.

(* ---- solver_state_t::update_constraints (state.cpp) --------------------------------------------- *)
Fixpoint set_nth (l : vec) (i : nat) (v : Q) : vec :=
  match l, i with
  | [], _ => []
  | _ :: l', O => v :: l'
  | a :: l', S i' => a :: set_nth l' i' v
  end.
Definition uc_state : Type := (vec * vec * vec * nat * nat)%type.   (* m_ceq, m_cineq, m_lgx, eq, ineq *)
Definition uc_step (x meq mineq : vec) (s : uc_state) (c : constraint) : uc_state :=
  let '(ceq, cineq, lgx, ie, ii) := s in
  let vg := cvgrad c x in
  if is_equality c
  then (set_nth ceq ie (fst vg), cineq, vadd lgx (vscale (vnth meq ie) (snd vg)), S ie, ii)
  else (ceq, set_nth cineq ii (fst vg), vadd lgx (vscale (vnth mineq ii) (snd vg)), ie, S ii).
Definition update_constraints (cs : list constraint) (x gx meq mineq ceq0 cineq0 : vec) : uc_state :=
  fold_left (uc_step x meq mineq) cs (ceq0, cineq0, gx, O, O).

(* lpNorm<Infinity> (0 for the empty vector) *)
Definition linf (v : vec) : Q := fold_left (fun m a => qmax m (qabs a)) v 0.
(* kkt_optimality_test2 / kkt_optimality_test1 *)
Definition kkt2 (ceq : vec) : Q := linf ceq.
Definition kkt1 (cineq : vec) : Q := linf (map (fun g => qmax g 0) cineq).

(* ---- outer loop of the augmented-Lagrangian solver (augmented.cpp) ---------------------------------- *)
(* the rounded double operations of the loop: parameters of the model *)
Record rops : Type := mkrops { rmul : Q -> Q -> Q; radd : Q -> Q -> Q; rdiv : Q -> Q -> Q }.
Definition exact_rops : rops := mkrops Qmult Qplus Qdiv.

Record al_params : Type := mkparams {
  p_eps : Q; p_tau : Q; p_gamma : Q; p_miu_max : Q; p_lmin : Q; p_lmax : Q; p_max_outers : Z }.

(* what one run of the inner solver delivers (cstate) + the oracle booleans the loop consults *)
Record al_event : Type := mkevent {
  e_x : vec; e_ceq : vec; e_cineq : vec;
  e_ok : bool;         (* cstate.valid() *)
  e_dx : bool;         (* ::nano::converged(bstate, cstate, epsilon) *)
  e_bvalid : bool }.   (* bstate.valid() inside done() *)

Inductive al_status : Type := MaxIters | Converged | Failed.
Definition status_of_Z (z : Z) : al_status :=
  if Z.eqb z 1 then Converged else if Z.eqb z 2 then Failed else MaxIters.

Record al_state : Type := mkstate {
  s_x : vec; s_ceq : vec; s_cineq : vec;       (* bstate *)
  s_ro : Q; s_lambda : vec; s_miu : vec; s_old : Q; s_outer : Z;
  s_status : al_status; s_stopped : bool }.

(* make_criterion *)
Definition criterion (R : rops) (ceq cineq miu : vec) (ro : Q) : Q :=
  qmax (linf ceq) (linf (map2 qmax cineq (map (fun m => rdiv R (- m) ro) miu))).

Definition al_init (R : rops) (x0 ceq0 cineq0 : vec) (ro0 : Q) : al_state :=
  let lambda := repeat 0 (length ceq0) in
  let miu := repeat 0 (length cineq0) in
  mkstate x0 ceq0 cineq0 ro0 lambda miu (criterion R ceq0 cineq0 miu ro0) 0%Z MaxIters false.

Definition al_step (R : rops) (P : al_params) (s : al_state) (e : al_event) : al_state :=
  let crit := criterion R (e_ceq e) (e_cineq e) (s_miu s) (s_ro s) in
  let conv := src_al_converged (e_ok e) (Qle_bool crit (p_eps P)) (e_dx e) in
  let upd := src_al_update (e_ok e) (qltb crit (s_old s)) in
  let bx := if upd then e_x e else s_x s in
  let bceq := if upd then e_ceq e else s_ceq s in
  let bcineq := if upd then e_cineq e else s_cineq s in
  if src_done_stop conv (src_done_step_ok (e_ok e) (e_bvalid e))
  then mkstate bx bceq bcineq (s_ro s) (s_lambda s) (s_miu s) (s_old s) (s_outer s)
               (status_of_Z (src_done_status conv (src_done_step_ok (e_ok e) (e_bvalid e)))) true
  else
    let ro' := if src_al_grow (s_outer s) (qltb (rmul R (p_tau P) (s_old s)) crit)
               then rmul R (p_gamma P) (s_ro s) else s_ro s in
    let lambda' := map2 (fun l c => qmin (qmax (radd R l (rmul R (s_ro s) c)) (p_lmin P)) (p_lmax P))
                        (s_lambda s) (e_ceq e) in
    let miu' := map2 (fun m c => qmin (qmax (radd R m (rmul R (s_ro s) c)) 0) (p_miu_max P))
                     (s_miu s) (e_cineq e) in
    mkstate bx bceq bcineq ro' lambda' miu' crit (s_outer s + 1)%Z MaxIters false.

(* the loop: one event per outer iteration, until done() or max_outers *)
Fixpoint al_run (R : rops) (P : al_params) (s : al_state) (es : list al_event) : al_state :=
  match es with
  | [] => s
  | e :: es' =>
      if negb (s_stopped s) && src_al_loop (s_outer s) (p_max_outers P)
      then al_run R P (al_step R P s e) es'
      else s
  end.

(* diagnostics used by the driver: the values one step computes *)
Definition al_step_criterion (R : rops) (s : al_state) (e : al_event) : Q :=
  criterion R (e_ceq e) (e_cineq e) (s_miu s) (s_ro s).
Definition al_step_converged (R : rops) (P : al_params) (s : al_state) (e : al_event) : bool :=
  src_al_converged (e_ok e) (Qle_bool (al_step_criterion R s e) (p_eps P)) (e_dx e).
Definition al_step_updated (R : rops) (s : al_state) (e : al_event) : bool :=
  src_al_update (e_ok e) (qltb (al_step_criterion R s e) (s_old s)).
