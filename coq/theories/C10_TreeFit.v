(* C10 extension 3 -- proofs about the greedy decision-tree fit of C10_TreeFit_Defs (dtree_wlearner_t::do_fit). *)
From Coq Require Import List ZArith QArith Qminmax Bool Lia Lra Psatz Permutation Sorted Setoid Morphisms.
From LNGen Require Import Src_c10.
From LN Require Import C10_Defs C10_Proofs C10_Ext_Defs C10_Ext C10_TreeFit_Defs.
Import ListNotations.
Local Open Scope Q_scope.

(* ======================================================================================================================== *)
(* A. the stump fit with its argmin is the stump fit of C10_Defs                                                              *)
(* ======================================================================================================================== *)
Lemma sweep_map {A B} (g : A -> B) no (emit : Q -> vmom -> list A) l : forall acc,
  sweep no (fun t a => map g (emit t a)) acc l = map g (sweep no emit acc l).
Proof.
  induction l as [|e1 tl IH]; intro acc; [reflexivity|]. destruct tl as [|e2 tl']; [reflexivity|].
  change (sweep no (fun t a => map g (emit t a)) acc (e1 :: e2 :: tl'))
    with ((if qlt (fst e1) (fst e2) then map g (emit ((1 # 2) * (fst e1 + fst e2)) (vupd no acc e1)) else [])
            ++ sweep no (fun t a => map g (emit t a)) (vupd no acc e1) (e2 :: tl')).
  change (sweep no emit acc (e1 :: e2 :: tl'))
    with ((if qlt (fst e1) (fst e2) then emit ((1 # 2) * (fst e1 + fst e2)) (vupd no acc e1) else [])
            ++ sweep no emit (vupd no acc e1) (e2 :: tl')).
  rewrite IH, map_app. f_equal. destruct (qlt (fst e1) (fst e2)); reflexivity.
Qed.

Definition cand_of (x : scand) : cand := (sc_thr x, true, sc_score x).
Lemma stump_xcands_cands no floor f c : map cand_of (stump_xcands no floor f c) = stump_cands no floor c.
Proof. unfold stump_xcands, stump_cands. rewrite <- sweep_map. reflexivity. Qed.
Lemma stump_xcands_scores no floor f c : map sc_score (stump_xcands no floor f c) = map c_score (stump_cands no floor c).
Proof. rewrite <- (stump_xcands_cands no floor f c), map_map. reflexivity. Qed.

Lemma xbest_fold l : forall b,
  option_map sc_score (fold_left xbetter l b) = fold_left better (map sc_score l) (option_map sc_score b).
Proof.
  induction l as [|x l IH]; intro b; [reflexivity|]. cbn [fold_left map]. rewrite IH. f_equal.
  destruct b as [y|]; cbn [xbetter better option_map]; [|reflexivity]. destruct (qlt (sc_score x) (sc_score y)); reflexivity.
Qed.
Lemma xbest_score l : option_map sc_score (xbest l) = best_of (map sc_score l).
Proof. unfold xbest, best_of. now rewrite xbest_fold. Qed.
Lemma xbest_in l : forall b x, fold_left xbetter l b = Some x -> b = Some x \/ In x l.
Proof.
  induction l as [|y l IH]; intros b x H; [now left|]. cbn [fold_left] in H. apply IH in H. destruct H as [H|H]; [|right; now right].
  destruct b as [z|]; cbn [xbetter] in H.
  - destruct (qlt (sc_score y) (sc_score z)); injection H as <-; [right; now left | now left].
  - injection H as <-. right; now left.
Qed.

Lemma flat_map_map {A B C} (f : B -> list C) (g : A -> B) l : flat_map f (map g l) = flat_map (fun a => f (g a)) l.
Proof. induction l as [|a l IH]; [reflexivity|]. cbn [map flat_map]. now rewrite IH. Qed.

(* the score of the argmin is the (proved optimal) score of C10_Defs.stump_fit on the gathered columns *)
Lemma stump_best_score no floor ds res nf ids :
  option_map sc_score (stump_best no floor ds res nf ids) = stump_fit no floor (tcols ds res nf ids).
Proof.
  unfold stump_best, stump_fit, tcols. rewrite xbest_score, flat_map_map. f_equal.
  induction (seq 0 nf) as [|f l IH]; [reflexivity|]. cbn [flat_map]. rewrite !map_app, IH, stump_xcands_scores. reflexivity.
Qed.

(* every candidate: its threshold is a mid-point of the column, its tables are the mean residuals of the rows below / above the
   threshold, its score is the clamped RSS of exactly that stump *)
Lemma stump_xcand_spec no floor f (c : col Q) x : In x (stump_xcands no floor f c) ->
  sc_f x = f /\ In (sc_thr x) (thresholds c) /\
  sc_score x == clamp floor (rss_of no (stump_pred (sc_thr x) (sc_lo x) (sc_hi x)) c) /\
  exists n p, Permutation (present c) (n ++ p) /\ n <> [] /\ p <> [] /\
              Forall (fun e => fst e < sc_thr x) n /\ Forall (fun e => sc_thr x < fst e) p /\
              sc_lo x = tab no (fun o => mean_of (mom_of1 (proj o n))) /\
              (forall o, (o < no)%nat -> rget o (sc_hi x) == mean_of (mom_of1 (proj o p))).
Proof.
  unfold stump_xcands. intro H. pose proof H as H'. apply sweep_in in H. destruct H as (thr & n & p & Hx & P & Hn & Hp & Fn & Fp & _).
  destruct Hx as [<-|[]]. cbn [sc_f sc_thr sc_lo sc_hi sc_score]. split; [reflexivity|]. split.
  { apply sweep_thr_of in H'. destruct H' as (t & n' & Ht & [E|[]]). unfold thresholds. injection E as E1 _ _ _. now rewrite <- E1. }
  assert (Hlo : forall lo hi e o, In e n -> (o < no)%nat -> rget o (stump_pred thr lo hi (fst e)) == (fun _ => 0) o * fst e + (fun o => rget o lo) o).
  { intros lo hi e o He Ho. rewrite Forall_forall in Fn. specialize (Fn e He). apply qlt_true in Fn. unfold stump_pred. rewrite Fn. ring. }
  assert (Hhi : forall lo hi e o, In e p -> (o < no)%nat -> rget o (stump_pred thr lo hi (fst e)) == (fun _ => 0) o * fst e + (fun o => rget o hi) o).
  { intros lo hi e o He Ho. rewrite Forall_forall in Fp. specialize (Fp e He). assert (F : qlt (fst e) thr = false) by (apply qlt_false; lra).
    unfold stump_pred. rewrite F. ring. }
  split.
  - apply clamp_proper; [reflexivity|].
    rewrite (two_sided no _ c n p _ _ _ _ P (Hlo _ _) (Hhi _ _)). unfold stump_rss.
    apply Qplus_inj_r. apply qsum_tab_eq. intros o Ho. rewrite !rget_tab by exact Ho.
    rewrite <- !rss_const_is_arss. reflexivity.
  - exists n, p. repeat split; try assumption.
    + unfold tab. apply map_ext_in. intros o Ho. apply in_tab_iff in Ho. now rewrite vget_vmom_of.
    + intros o Ho. rewrite rget_tab by exact Ho. rewrite !vget_vmom_of by exact Ho.
      assert (Pp : Permutation (proj o (present c)) (proj o n ++ proj o p)) by (rewrite <- proj_app; now apply proj_perm).
      destruct (mom_sub_fields (proj o (present c)) (proj o n) (proj o p) Pp) as (E0 & _ & _ & E1 & _).
      destruct (mom_of1_fields (proj o p)) as (F0 & _ & _ & F1 & _). unfold mean_of. rewrite E0, E1, F0, F1. reflexivity.
Qed.

Lemma stump_best_in no floor ds res nf ids x : stump_best no floor ds res nf ids = Some x ->
  (sc_f x < nf)%nat /\ In x (stump_xcands no floor (sc_f x) (tcol ds res (sc_f x) ids)).
Proof.
  unfold stump_best, xbest. intro H. apply xbest_in in H. destruct H as [H|H]; [discriminate|].
  apply in_flat_map in H. destruct H as (f & Hf & Hx). apply in_seq in Hf.
  destruct (stump_xcand_spec _ _ _ _ _ Hx) as (E & _). subst f. split; [lia | exact Hx].
Qed.

(* ======================================================================================================================== *)
(* B. list / index helpers                                                                                                     *)
(* ======================================================================================================================== *)
From LN Require Import ListAux.

Lemma znth_nonneg {A} i (l : list A) d : (0 <= i)%Z -> znth i l d = nth (Z.to_nat i) l d.
Proof. intro H. unfold znth. destruct (i <? 0)%Z eqn:E; [apply Z.ltb_lt in E; lia | reflexivity]. Qed.
Lemma znth_app_l {A} i (l r : list A) d : (0 <= i < Z.of_nat (length l))%Z -> znth i (l ++ r) d = znth i l d.
Proof. intros [H0 H1]. rewrite !znth_nonneg by lia. apply app_nth1. lia. Qed.
Lemma znth_app_r {A} i (l r : list A) d : (Z.of_nat (length l) <= i)%Z -> znth i (l ++ r) d = znth (i - Z.of_nat (length l)) r d.
Proof. intro H. rewrite !znth_nonneg by lia. rewrite app_nth2 by lia. f_equal. lia. Qed.

Lemma replace_nth_length {A} i (x : A) l : (i < length l)%nat -> length (replace_nth i x l) = length l.
Proof. intro H. unfold replace_nth. rewrite app_length, firstn_length. cbn [length]. rewrite skipn_length. lia. Qed.
Lemma nth_replace_nth {A} i j (x : A) l d : (i < length l)%nat -> nth j (replace_nth i x l) d = if (j =? i)%nat then x else nth j l d.
Proof.
  intro H. unfold replace_nth. destruct (Nat.eqb_spec j i) as [->|N].
  - rewrite app_nth2 by (rewrite firstn_length; lia). rewrite firstn_length. replace (i - Nat.min i (length l))%nat with 0%nat by lia. reflexivity.
  - destruct (Nat.lt_ge_cases j i) as [Hl|Hg].
    + rewrite app_nth1 by (rewrite firstn_length; lia). apply nth_firstn_lt. exact Hl.
    + rewrite app_nth2 by (rewrite firstn_length; lia). rewrite firstn_length. replace (j - Nat.min i (length l))%nat with (S (j - S i)) by lia.
      cbn [nth]. rewrite nth_skipn_add. f_equal. lia.
Qed.

Definition relink (nd : node) (v : Z) : node := mknode (n_feature nd) (n_thr nd) v (n_table nd).
Lemma set_next_length nodes p v : (0 <= p < nlen nodes)%Z -> nlen (set_next nodes p v) = nlen nodes.
Proof. intro H. unfold nlen, set_next in *. rewrite replace_nth_length by lia. reflexivity. Qed.
Lemma znth_set_next nodes p v i : (0 <= p < nlen nodes)%Z -> (0 <= i)%Z ->
  znth i (set_next nodes p v) node0 = if (i =? p)%Z then relink (znth p nodes node0) v else znth i nodes node0.
Proof.
  intros Hp Hi. unfold nlen in Hp. rewrite (znth_nonneg i) by lia. unfold set_next. rewrite nth_replace_nth by lia.
  destruct (Z.eqb_spec i p) as [->|N].
  - rewrite Nat.eqb_refl. reflexivity.
  - destruct (Nat.eqb_spec (Z.to_nat i) (Z.to_nat p)) as [E|_]; [lia|]. now rewrite znth_nonneg.
Qed.

Lemma nodup_map_inj {A B} (f : A -> B) l a b : NoDup (map f l) -> In a l -> In b l -> f a = f b -> a = b.
Proof.
  induction l as [|c l IH]; intros Hn Ha Hb E; [contradiction|]. cbn [map] in Hn. inversion Hn as [|? ? Hnot Hn']; subst.
  destruct Ha as [<-|Ha], Hb as [<-|Hb]; try reflexivity.
  - exfalso. apply Hnot. rewrite E. now apply in_map.
  - exfalso. apply Hnot. rewrite <- E. now apply in_map.
  - now apply IH.
Qed.

(* ======================================================================================================================== *)
(* C. the invariant of the work queue                                                                                          *)
(* ======================================================================================================================== *)
Section FitProofs.
  Variables (no : nat) (floor : Q) (adm : Z -> bool) (ds : list sample) (res : list (list Q)) (nf : nat).
  Variables (max_depth min_size : Z).
  Local Notation SN := (stump_node no floor adm ds res nf).
  Local Notation LOOP := (fit_loop no floor adm ds res nf max_depth min_size).

  Definition tr_at (tr : trace) (k : nat) : list nat * Z := nth k tr ([], 0%Z).
  Definition term_of (e : list nat * Z) : bool :=
    src_c10_tree_terminal_fit (Z.of_nat (length (fst e))) min_size (snd e) max_depth.
  Definition pend (q : list tcache) : list Z := map tc_parent q.
  Definition zk (k : nat) : Z := (2 * Z.of_nat k)%Z.
  Definition leaf_term (e : list nat * Z) : Q :=
    if term_of e then match SN (fst e) with Some x => sc_score x | None => 0 end else 0.
  Definition leaf_sum (tr : trace) : Q := qsum (map leaf_term tr).
  Definition child_of (tr : trace) (k : nat) (x : scand) (g : Z) : list nat * Z :=
    (child_ids ds (sc_f x) (sc_thr x) g (fst (tr_at tr k)), (snd (tr_at tr k) + 1)%Z).

  (* entry zk k + g of a split pair: either its child is still queued (link not yet written) or it points forward to the pair of
     its child, whose stump was fitted on exactly the samples of side g *)
  Definition entryI (q : list tcache) (nodes : list node) (tr : trace) (k : nat) (x : scand) (g : Z) : Prop :=
    let e := znth (zk k + g) nodes node0 in
    (n_next e = 0%Z /\ In (mkcache (fst (child_of tr k x g)) (snd (child_of tr k x g)) (zk k + g)) q) \/
    (~ In (zk k + g)%Z (pend q) /\ (zk k + 1 < n_next e)%Z /\ (n_next e + 1 < nlen nodes)%Z /\ Z.even (n_next e) = true /\
     tr_at tr (Z.to_nat (n_next e / 2)) = child_of tr k x g).

  Definition pairI (q : list tcache) (nodes : list node) (tables : list (list Q)) (tr : trace) (k : nat) : Prop :=
    exists x, SN (fst (tr_at tr k)) = Some x /\
      let a := znth (zk k) nodes node0 in
      let b := znth (zk k + 1) nodes node0 in
      n_feature a = sc_f x /\ n_feature b = sc_f x /\ n_thr a = sc_thr x /\ n_thr b = sc_thr x /\
      if term_of (tr_at tr k)
      then n_next a = 0%Z /\ n_next b = 0%Z /\ (0 <= n_table a)%Z /\ n_table b = (n_table a + 1)%Z /\
           (n_table a + 1 < Z.of_nat (length tables))%Z /\
           znth (n_table a) tables [] = sc_lo x /\ znth (n_table a + 1) tables [] = sc_hi x /\
           ~ In (zk k) (pend q) /\ ~ In (zk k + 1)%Z (pend q)
      else entryI q nodes tr k x 0 /\ entryI q nodes tr k x 1.

  Record Inv (q : list tcache) (nodes : list node) (tables : list (list Q)) (score : Q) (tr : trace) : Prop := {
    I_len : nlen nodes = zk (length tr);
    I_pos : (0 < length tr)%nat;
    I_nodup : NoDup (pend q);
    I_range : forall e, In e (pend q) -> (0 <= e < nlen nodes)%Z;
    I_pairs : forall k, (k < length tr)%nat -> pairI q nodes tables tr k;
    I_parent : forall k, (0 < k < length tr)%nat ->
                 exists j g, (j < k)%nat /\ (g = 0 \/ g = 1)%Z /\ term_of (tr_at tr j) = false /\
                             n_next (znth (zk j + g) nodes node0) = zk k;
    I_score : score == leaf_sum tr }.

  (* what the invariant says about the front cache *)
  Lemma head_facts c rest nodes tables score tr : Inv (c :: rest) nodes tables score tr ->
    (0 <= tc_parent c < nlen nodes)%Z /\
    exists k0 g0 x0, (g0 = 0 \/ g0 = 1)%Z /\ tc_parent c = (zk k0 + g0)%Z /\ (k0 < length tr)%nat /\
      term_of (tr_at tr k0) = false /\ SN (fst (tr_at tr k0)) = Some x0 /\
      n_next (znth (tc_parent c) nodes node0) = 0%Z /\
      (tc_ids c, tc_depth c) = child_of tr k0 x0 g0.
  Proof.
    intro I. pose proof (I_range _ _ _ _ _ I (tc_parent c) (or_introl eq_refl)) as Hr. split; [exact Hr|].
    pose proof (I_len _ _ _ _ _ I) as HL. unfold zk in HL.
    set (k0 := Z.to_nat (tc_parent c / 2)). set (g0 := (tc_parent c mod 2)%Z).
    assert (Hg : (g0 = 0 \/ g0 = 1)%Z) by (subst g0; pose proof (Z.mod_pos_bound (tc_parent c) 2); lia).
    assert (He : tc_parent c = (zk k0 + g0)%Z).
    { unfold zk, k0, g0. rewrite Z2Nat.id by (apply Z.div_pos; lia). apply Z.div_mod. lia. }
    assert (Hk : (k0 < length tr)%nat) by (unfold zk in He; lia).
    destruct (I_pairs _ _ _ _ _ I k0 Hk) as (x0 & Hx0 & _ & _ & _ & _ & Hc).
    exists k0, g0, x0. split; [exact Hg|]. split; [exact He|]. split; [exact Hk|].
    destruct (term_of (tr_at tr k0)) eqn:Et.
    - exfalso. destruct Hc as (_ & _ & _ & _ & _ & _ & _ & N0 & N1).
      destruct Hg as [G|G]; rewrite G in He; [apply N0 | apply N1]; cbn [pend map]; left; rewrite He; ring.
    - split; [reflexivity|]. split; [exact Hx0|].
      assert (HE : entryI (c :: rest) nodes tr k0 x0 g0) by (destruct Hc as (E0 & E1); destruct Hg as [-> | ->]; assumption).
      unfold entryI in HE. rewrite <- He in HE. destruct HE as [(Hn & Hin)|(Hnot & _)].
      + split; [exact Hn|]. 
        assert (E : c = mkcache (fst (child_of tr k0 x0 g0)) (snd (child_of tr k0 x0 g0)) (tc_parent c)).
        { apply (nodup_map_inj tc_parent (c :: rest)); [exact (I_nodup _ _ _ _ _ I) | now left | exact Hin | reflexivity]. }
        rewrite E at 1 2. cbn [tc_ids tc_depth]. now destruct (child_of tr k0 x0 g0).
      + exfalso. apply Hnot. now left.
  Qed.

  Lemma nodup_snoc2 (l : list Z) L : NoDup l -> (forall e, In e l -> (e < L)%Z) -> NoDup (l ++ [L; (L + 1)%Z]).
  Proof.
    induction l as [|a l IH]; intros Hn Hlt.
    - cbn. constructor; [cbn; lia|]. constructor; [cbn; tauto | constructor].
    - inversion Hn as [|? ? Hnot Hn']; subst. cbn [app]. constructor.
      + rewrite in_app_iff. intros [H|H]; [contradiction|]. specialize (Hlt a (or_introl eq_refl)). cbn in H. lia.
      + apply IH; [exact Hn'|]. intros e He. apply Hlt. now right.
  Qed.

  (* one turn of the loop keeps the invariant (both branches) *)
  Lemma step_inv c rest nodes tables score tr x n1 n2 q' tables' score' :
    Inv (c :: rest) nodes tables score tr -> SN (tc_ids c) = Some x ->
    n_feature n1 = sc_f x -> n_feature n2 = sc_f x -> n_thr n1 = sc_thr x -> n_thr n2 = sc_thr x ->
    n_next n1 = 0%Z -> n_next n2 = 0%Z ->
    (term_of (tc_ids c, tc_depth c) = true /\ q' = rest /\ tables' = tables ++ [sc_lo x; sc_hi x] /\ score' = score + sc_score x /\
     n_table n1 = Z.of_nat (length tables) /\ n_table n2 = (Z.of_nat (length tables) + 1)%Z) \/
    (term_of (tc_ids c, tc_depth c) = false /\
     q' = rest ++ [mkcache (child_ids ds (sc_f x) (sc_thr x) 0 (tc_ids c)) (tc_depth c + 1) (nlen nodes);
                   mkcache (child_ids ds (sc_f x) (sc_thr x) 1 (tc_ids c)) (tc_depth c + 1) (nlen nodes + 1)] /\
     tables' = tables /\ score' = score) ->
    Inv q' (set_next nodes (tc_parent c) (nlen nodes) ++ [n1; n2]) tables' score' (tr ++ [(tc_ids c, tc_depth c)]).
  Proof.
    intros I Hx F1 F2 T1 T2 N1 N2 Hcase.
    destruct (head_facts _ _ _ _ _ _ I) as (Hr & k0 & g0 & x0 & Hg0 & He0 & Hk0 & Ht0 & Hx0 & Hn0 & Hch0).
    set (e0 := tc_parent c) in *. set (L := nlen nodes) in *.
    set (nodes' := set_next nodes e0 L ++ [n1; n2]). set (tr' := tr ++ [(tc_ids c, tc_depth c)]).
    pose proof (I_len _ _ _ _ _ I) as HL. fold L in HL.
    pose proof (I_nodup _ _ _ _ _ I) as Hnd. cbn [pend map] in Hnd. fold (pend rest) in Hnd. fold e0 in Hnd.
    inversion Hnd as [|? ? Hnot0 Hnd']; subst.
    assert (Hlen1 : nlen (set_next nodes e0 L) = L) by (apply set_next_length; exact Hr).
    assert (Hlen' : nlen nodes' = (L + 2)%Z).
    { unfold nodes', nlen in *. rewrite app_length. cbn [length]. lia. }
    assert (Z1 : forall i, (0 <= i < L)%Z ->
               n_feature (znth i nodes' node0) = n_feature (znth i nodes node0) /\
               n_thr (znth i nodes' node0) = n_thr (znth i nodes node0) /\
               n_table (znth i nodes' node0) = n_table (znth i nodes node0) /\
               n_next (znth i nodes' node0) = if (i =? e0)%Z then L else n_next (znth i nodes node0)).
    { intros i Hi. unfold nodes'. rewrite znth_app_l by (unfold nlen in Hlen1; lia). rewrite znth_set_next by lia.
      destruct (Z.eqb_spec i e0) as [->|_]; cbn [relink n_feature n_thr n_table n_next]; repeat split; reflexivity. }
    assert (Z2 : znth L nodes' node0 = n1 /\ znth (L + 1) nodes' node0 = n2).
    { unfold nodes'. split; rewrite znth_app_r by (unfold nlen in Hlen1; lia); unfold nlen in Hlen1; rewrite Hlen1.
      - replace (L - L)%Z with 0%Z by lia. reflexivity.
      - replace (L + 1 - L)%Z with 1%Z by lia. reflexivity. }
    assert (A1 : forall k, (k < length tr)%nat -> tr_at tr' k = tr_at tr k) by (intros k Hk; unfold tr_at, tr'; now apply app_nth1).
    assert (A2 : tr_at tr' (length tr) = (tc_ids c, tc_depth c)).
    { unfold tr_at, tr'. rewrite app_nth2 by lia. now rewrite Nat.sub_diag. }
    assert (P1 : forall e, In e (pend rest) -> e <> e0 /\ (0 <= e < L)%Z).
    { intros e He. split; [intros ->; contradiction|]. apply (I_range _ _ _ _ _ I). now right. }
    assert (Q1 : forall c', In c' rest -> In c' q').
    { intros c' Hc'. destruct Hcase as [(_ & -> & _)|(_ & -> & _)]; [exact Hc' | apply in_or_app; now left]. }
    assert (Q2 : forall e, In e (pend q') -> In e (pend rest) \/ (L <= e < L + 2)%Z).
    { intros e He. destruct Hcase as [(_ & -> & _)|(_ & -> & _)]; [now left|]. unfold pend in He. rewrite map_app, in_app_iff in He.
      destruct He as [He|He]; [now left|]. right. cbn in He. fold L in He. lia. }
    assert (Q3 : forall i, (0 <= i < L)%Z -> ~ In i (pend rest) -> ~ In i (pend q')).
    { intros i Hi Hni Hin. apply Q2 in Hin. destruct Hin as [H|H]; [contradiction | lia]. }
    assert (Q4 : exists ext, tables' = tables ++ ext).
    { destruct Hcase as [(_ & _ & -> & _)|(_ & _ & -> & _)]; [eexists; reflexivity | exists []; now rewrite app_nil_r]. }
    destruct Q4 as (ext & Htab).
    (* entries of old split pairs *)
    assert (EN : forall k x' g, (k < length tr)%nat -> (g = 0 \/ g = 1)%Z -> SN (fst (tr_at tr k)) = Some x' ->
                 entryI (c :: rest) nodes tr k x' g -> entryI q' nodes' tr' k x' g).
    { intros k x' g Hk Hg Hx' HE. unfold entryI in *. unfold child_of in *. rewrite (A1 k Hk).
      assert (Hi : (0 <= zk k + g < L)%Z) by (unfold zk in *; lia).
      destruct (Z1 _ Hi) as (_ & _ & _ & Znext). rewrite Znext. destruct (Z.eqb_spec (zk k + g) e0) as [Ee|Ne].
      - (* the entry of the front cache: linked now *)
        assert (k = k0 /\ g = g0) as (-> & ->) by (unfold zk in *; lia).
        rewrite Hx0 in Hx'. injection Hx' as <-.
        right. split; [apply Q3; [lia | rewrite Ee; exact Hnot0]|].
        split; [unfold zk in *; lia|]. split; [lia|]. split; [rewrite HL; unfold zk; rewrite Z.even_mul; reflexivity|].
        replace (Z.to_nat (L / 2)) with (length tr).
        + rewrite A2. exact Hch0.
        + rewrite HL. unfold zk. rewrite Z.mul_comm, Z.div_mul by lia. lia.
      - destruct HE as [(Hn & Hin)|(Hnot & Hlt & Hlt2 & Hev & Htr)].
        + left. split; [exact Hn|]. apply Q1. destruct Hin as [E|Hin]; [|exact Hin]. exfalso. apply Ne. unfold e0. rewrite E. reflexivity.
        + right. split; [apply Q3; [lia|]; intro H; apply Hnot; now right|]. split; [exact Hlt|]. split; [lia|]. split; [exact Hev|].
          rewrite A1; [exact Htr|]. fold L in Hlt2. rewrite HL in Hlt2. unfold zk in *.
          assert (n_next (znth (2 * Z.of_nat k + g) nodes node0) / 2 < Z.of_nat (length tr))%Z by (apply Z.div_lt_upper_bound; lia).
          assert (0 <= n_next (znth (2 * Z.of_nat k + g) nodes node0) / 2)%Z by (apply Z.div_pos; lia). lia. }
    constructor.
    - rewrite Hlen'. unfold tr', zk. rewrite app_length. cbn [length]. unfold zk in HL. lia.
    - unfold tr'. rewrite app_length. cbn [length]. lia.
    - destruct Hcase as [(_ & -> & _)|(_ & -> & _)]; [exact Hnd'|]. unfold pend. rewrite map_app. cbn [map tc_parent]. fold L.
      apply nodup_snoc2; [exact Hnd'|]. intros e He. apply P1 in He. lia.
    - intros e He. rewrite Hlen'. apply Q2 in He. destruct He as [He|He]; [apply P1 in He; lia | lia].
    - intros k Hk. unfold tr' in Hk. rewrite app_length in Hk. cbn [length] in Hk.
      destruct (Nat.eq_dec k (length tr)) as [->|Nk].
      + (* the pair appended by this turn *)
        exists x. rewrite A2. cbn [fst]. split; [exact Hx|]. replace (zk (length tr)) with L by (symmetry; exact HL).
        pose proof Z2 as Z2'. destruct Z2 as (-> & ->). cbv zeta. repeat (split; [assumption|]).
        destruct Hcase as [(Ht & -> & Htb & _ & Tb1 & Tb2)|(Ht & -> & _ & _)]; rewrite Ht.
        * rewrite Htb. split; [exact N1|]. split; [exact N2|]. split; [lia|]. split; [lia|].
          split; [rewrite app_length; cbn [length]; lia|].
          split; [rewrite Tb1, znth_app_r by lia; now rewrite Z.sub_diag|].
          split; [rewrite Tb1, znth_app_r by lia; replace (Z.of_nat (length tables) + 1 - Z.of_nat (length tables))%Z with 1%Z by lia; reflexivity|].
          split; intro H; apply P1 in H; lia.
        * split.
          -- left. unfold entryI, child_of. rewrite A2. cbn [fst snd]. rewrite <- HL, Z.add_0_r, (proj1 Z2'). split; [exact N1|].
             apply in_or_app. right. left. reflexivity.
          -- left. unfold entryI, child_of. rewrite A2. cbn [fst snd]. rewrite <- HL, (proj2 Z2'). split; [exact N2|].
             apply in_or_app. right. right. left. reflexivity.
      + assert (Hk' : (k < length tr)%nat) by lia.
        destruct (I_pairs _ _ _ _ _ I k Hk') as (x' & Hx' & Fa & Fb & Ta & Tb & Hc).
        exists x'. rewrite (A1 k Hk'). split; [exact Hx'|].
        assert (Hi0 : (0 <= zk k < L)%Z) by (unfold zk in *; lia). assert (Hi1 : (0 <= zk k + 1 < L)%Z) by (unfold zk in *; lia).
        destruct (Z1 _ Hi0) as (Zf0 & Zt0 & Zb0 & Zn0). destruct (Z1 _ Hi1) as (Zf1 & Zt1 & Zb1 & Zn1).
        cbv zeta. rewrite Zf0, Zf1, Zt0, Zt1. repeat (split; [assumption|]).
        destruct (term_of (tr_at tr k)) eqn:Et.
        * destruct Hc as (Na & Nb & Ha & Hb & Hlt & Hlo & Hhi & Np0 & Np1).
          assert (D0 : zk k <> e0) by (intros E; apply Np0; cbn [pend map]; left; now rewrite E).
          assert (D1 : (zk k + 1)%Z <> e0) by (intros E; apply Np1; cbn [pend map]; left; now rewrite E).
          rewrite Zn0, Zn1, Zb0, Zb1. destruct (Z.eqb_spec (zk k) e0) as [|_]; [contradiction|].
          destruct (Z.eqb_spec (zk k + 1) e0) as [|_]; [contradiction|]. rewrite Htab.
          split; [exact Na|]. split; [exact Nb|]. split; [exact Ha|]. split; [exact Hb|].
          split; [rewrite app_length; lia|]. split; [rewrite znth_app_l by lia; exact Hlo|]. split; [rewrite znth_app_l by lia; exact Hhi|].
          split; (apply Q3; [lia|]); intro H; [apply Np0 | apply Np1]; right; exact H.
        * destruct Hc as (E0 & E1). split; apply EN; auto.
    - intros k (Hk1 & Hk2). unfold tr' in Hk2. rewrite app_length in Hk2. cbn [length] in Hk2.
      destruct (Nat.eq_dec k (length tr)) as [->|Nk].
      + exists k0, g0. split; [exact Hk0|]. split; [exact Hg0|]. split; [rewrite A1 by exact Hk0; exact Ht0|].
        rewrite <- He0. destruct (Z1 e0 Hr) as (_ & _ & _ & Zn). rewrite Zn, Z.eqb_refl. exact HL.
      + assert (Hk3 : (0 < k < length tr)%nat) by lia.
        destruct (I_parent _ _ _ _ _ I k Hk3) as (j & g & Hj & Hg & Htj & Hnj).
        exists j, g. split; [exact Hj|]. split; [exact Hg|]. split; [rewrite A1 by lia; exact Htj|].
        assert (Hi : (0 <= zk j + g < L)%Z) by (unfold zk in *; lia).
        destruct (Z1 _ Hi) as (_ & _ & _ & Zn). rewrite Zn. destruct (Z.eqb_spec (zk j + g) e0) as [E|_]; [|exact Hnj].
        exfalso. rewrite E in Hnj. rewrite Hn0 in Hnj. unfold zk in Hnj. lia.
    - unfold leaf_sum, tr'. rewrite map_app, qsum_app. cbn [map]. rewrite qsum_cons, qsum_nil. unfold leaf_term at 2. cbn [fst].
      pose proof (I_score _ _ _ _ _ I) as Hs. fold (leaf_sum tr).
      destruct Hcase as [(Ht & _ & _ & -> & _)|(Ht & _ & _ & ->)]; rewrite Ht; [rewrite Hx|]; rewrite Hs; ring.
  Qed.

  Lemma loop_inv : forall fuel q nodes tables score tr nodes' tables' score' tr',
    Inv q nodes tables score tr -> LOOP fuel q nodes tables score tr = FitOK nodes' tables' score' tr' ->
    Inv [] nodes' tables' score' tr' /\ exists suffix, tr' = tr ++ suffix.
  Proof.
    induction fuel as [|f IH]; intros q nodes tables score tr nodes' tables' score' tr' I H.
    - destruct q as [|c rest]; cbn [fit_loop] in H; [|discriminate]. injection H as <- <- <- <-.
      split; [exact I | exists []; now rewrite app_nil_r].
    - destruct q as [|c rest]; cbn [fit_loop] in H.
      + injection H as <- <- <- <-. split; [exact I | exists []; now rewrite app_nil_r].
      + destruct (SN (tc_ids c)) as [x|] eqn:Hx; [|discriminate].
        destruct (head_facts _ _ _ _ _ _ I) as (Hr & _).
        assert (Hp : src_c10_tree_has_parent (tc_parent c) (nlen nodes) = true) by (unfold src_c10_tree_has_parent; apply Z.ltb_lt; lia).
        cbv zeta in H. rewrite Hp in H.
        unfold src_c10_tree_link, src_c10_tree_leaf_table, src_c10_tree_child_depth, src_c10_tree_child_parent in H.
        rewrite (set_next_length _ _ _ Hr) in H.
        destruct (src_c10_tree_terminal_fit (Z.of_nat (length (tc_ids c))) min_size (tc_depth c) max_depth) eqn:Ht.
        * apply IH in H.
          -- destruct H as (I' & sfx & ->). split; [exact I'|]. exists ((tc_ids c, tc_depth c) :: sfx). now rewrite <- app_assoc.
          -- eapply step_inv; try exact I; try exact Hx; try reflexivity. left. repeat split; exact Ht.
        * apply IH in H.
          -- destruct H as (I' & sfx & ->). split; [exact I'|]. exists ((tc_ids c, tc_depth c) :: sfx). now rewrite <- app_assoc.
          -- eapply step_inv; try exact I; try exact Hx; try reflexivity. right. repeat split; exact Ht.
  Qed.

  Lemma inv_root_term ids x : SN ids = Some x -> term_of (ids, 0%Z) = true ->
    Inv [] [mknode (sc_f x) (sc_thr x) 0 0; mknode (sc_f x) (sc_thr x) 0 (0 + 1)] [sc_lo x; sc_hi x] (0 + sc_score x) [(ids, 0%Z)].
  Proof.
    intros Hx Ht. constructor.
    - reflexivity.
    - cbn; lia.
    - constructor.
    - intros e [].
    - intros k Hk. cbn [length] in Hk. assert (k = 0%nat) as -> by lia. exists x. cbn [tr_at nth fst]. split; [exact Hx|].
      change (tr_at [(ids, 0%Z)] 0) with (ids, 0%Z). rewrite Ht. cbn. repeat split; try reflexivity; try lia; tauto.
    - intros k Hk. cbn [length] in Hk. lia.
    - unfold leaf_sum. cbn [map]. rewrite qsum_cons, qsum_nil. unfold leaf_term. rewrite Ht. cbn [fst]. rewrite Hx. ring.
  Qed.
  Lemma inv_root_split ids x : SN ids = Some x -> term_of (ids, 0%Z) = false ->
    Inv [mkcache (child_ids ds (sc_f x) (sc_thr x) 0 ids) (0 + 1) 0; mkcache (child_ids ds (sc_f x) (sc_thr x) 1 ids) (0 + 1) (0 + 1)]
        [mknode (sc_f x) (sc_thr x) 0 (-1); mknode (sc_f x) (sc_thr x) 0 (-1)] [] 0 [(ids, 0%Z)].
  Proof.
    intros Hx Ht. constructor.
    - reflexivity.
    - cbn; lia.
    - cbn. constructor; [cbn; lia|]. constructor; [cbn; tauto | constructor].
    - intros e He. cbn in He. cbn. lia.
    - intros k Hk. cbn [length] in Hk. assert (k = 0%nat) as -> by lia. exists x. cbn [tr_at nth fst]. split; [exact Hx|].
      change (tr_at [(ids, 0%Z)] 0) with (ids, 0%Z). rewrite Ht. cbv zeta. repeat (split; [reflexivity|]).
      split; left; (split; [reflexivity|]); unfold child_of; change (tr_at [(ids, 0%Z)] 0) with (ids, 0%Z); cbn; tauto.
    - intros k Hk. cbn [length] in Hk. lia.
    - unfold leaf_sum. cbn [map]. rewrite qsum_cons, qsum_nil. unfold leaf_term. rewrite Ht. ring.
  Qed.

  (* the whole run from the root cache *)
  Lemma run_inv fuel ids nodes tables score tr :
    LOOP fuel [mkcache ids 0 0] [] [] 0 [] = FitOK nodes tables score tr ->
    Inv [] nodes tables score tr /\ exists suffix, tr = (ids, 0%Z) :: suffix.
  Proof.
    destruct fuel as [|f]; cbn [fit_loop]; [discriminate|]. cbn [tc_ids tc_depth tc_parent].
    destruct (SN ids) as [x|] eqn:Hx; [|discriminate].
    change (src_c10_tree_has_parent 0 (nlen [])) with false. cbv zeta iota.
    unfold src_c10_tree_link, src_c10_tree_leaf_table, src_c10_tree_child_depth, src_c10_tree_child_parent.
    change (nlen []) with 0%Z. cbn [app length Z.of_nat].
    destruct (src_c10_tree_terminal_fit (Z.of_nat (length ids)) min_size 0 max_depth) eqn:Ht; intro H.
    - apply loop_inv in H; [|now apply inv_root_term]. destruct H as (I & sfx & ->). split; [exact I | now exists sfx].
    - apply loop_inv in H; [|now apply inv_root_split]. destruct H as (I & sfx & ->). split; [exact I | now exists sfx].
  Qed.

  (* ---- (1) the fitted node table is well formed ------------------------------------------------------------------------------- *)
  Lemma inv_entry_done nodes tr k x g : entryI [] nodes tr k x g ->
    let nx := n_next (znth (zk k + g) nodes node0) in
    (zk k + 1 < nx)%Z /\ (nx + 1 < nlen nodes)%Z /\ Z.even nx = true /\ tr_at tr (Z.to_nat (nx / 2)) = child_of tr k x g.
  Proof. intros [(_ & [])|(_ & H)]. exact H. Qed.

  Lemma inv_wf nodes tables score tr : Inv [] nodes tables score tr -> tree_wf nodes (Z.of_nat (length tables)) = true.
  Proof.
    intro I. pose proof (I_len _ _ _ _ _ I) as HL. pose proof (I_pos _ _ _ _ _ I) as Hp. unfold zk in HL.
    assert (Hln : length nodes = (2 * length tr)%nat) by (unfold nlen in HL; lia).
    unfold tree_wf. rewrite !andb_true_iff. split; [split|].
    - apply Z.ltb_lt. lia.
    - rewrite HL, Z.even_mul. reflexivity.
    - apply forallb_forall. intros i Hi. apply in_seq in Hi. rewrite Hln, Nat.div2_double in Hi.
      destruct (I_pairs _ _ _ _ _ I i ltac:(lia)) as (x & _ & Fa & Fb & Ta & Tb & Hc). fold (zk i) . unfold pair_ok.
      rewrite Fa, Fb, Ta, Tb, Nat.eqb_refl, Qeq_bool_refl. cbn [andb].
      destruct (term_of (tr_at tr i)).
      + destruct Hc as (Na & Nb & Ha & Hb & Hlt & _). rewrite Na, Nb, Hb. change (src_c10_tree_terminal 0) with true. cbn [andb].
        rewrite !andb_true_iff. repeat split; [apply Z.leb_le; lia | apply Z.eqb_refl | apply Z.ltb_lt; lia].
      + destruct Hc as (E0 & E1). apply inv_entry_done in E0, E1. cbv zeta in E0, E1. rewrite Z.add_0_r in E0.
        destruct E0 as (A0 & B0 & C0 & _), E1 as (A1 & B1 & C1 & _).
        assert (Hnt : src_c10_tree_terminal (n_next (znth (zk i) nodes node0)) = false).
        { unfold src_c10_tree_terminal. apply Z.eqb_neq. unfold zk in *. lia. }
        rewrite Hnt. unfold child_ok, src_c10_tree_child. rewrite Z.add_0_r, C0, C1, !andb_true_iff.
        repeat split; apply Z.ltb_lt; lia.
  Qed.

  (* ---- (2) every pair is the stump of the samples recorded for it; children get exactly the samples of their side ------------ *)
  Definition greedy_pair (nodes : list node) (tables : list (list Q)) (tr : trace) (k : nat) : Prop :=
    exists x, SN (fst (tr_at tr k)) = Some x /\
      n_feature (znth (zk k) nodes node0) = sc_f x /\ n_thr (znth (zk k) nodes node0) = sc_thr x /\
      if term_of (tr_at tr k)
      then n_next (znth (zk k) nodes node0) = 0%Z /\
           znth (n_table (znth (zk k) nodes node0)) tables [] = sc_lo x /\
           znth (n_table (znth (zk k) nodes node0) + 1) tables [] = sc_hi x
      else forall g, (g = 0 \/ g = 1)%Z ->
             let nx := n_next (znth (zk k + g) nodes node0) in
             (zk k + 1 < nx)%Z /\ Z.even nx = true /\ (Z.to_nat (nx / 2) < length tr)%nat /\
             tr_at tr (Z.to_nat (nx / 2)) = child_of tr k x g.
  Lemma inv_greedy nodes tables score tr : Inv [] nodes tables score tr -> forall k, (k < length tr)%nat -> greedy_pair nodes tables tr k.
  Proof.
    intros I k Hk. destruct (I_pairs _ _ _ _ _ I k Hk) as (x & Hx & Fa & _ & Ta & _ & Hc). exists x.
    split; [exact Hx|]. split; [exact Fa|]. split; [exact Ta|].
    pose proof (I_len _ _ _ _ _ I) as HL. unfold zk in HL.
    destruct (term_of (tr_at tr k)).
    - destruct Hc as (Na & _ & _ & _ & _ & Hlo & Hhi & _). auto.
    - destruct Hc as (E0 & E1). intros g Hg.
      assert (HE : entryI [] nodes tr k x g) by (destruct Hg as [-> | ->]; assumption).
      apply inv_entry_done in HE. cbv zeta in *. destruct HE as (A & B & C & D). repeat split; try assumption.
      assert (n_next (znth (zk k + g) nodes node0) / 2 < Z.of_nat (length tr))%Z by (apply Z.div_lt_upper_bound; lia).
      assert (0 <= n_next (znth (zk k + g) nodes node0) / 2)%Z by (apply Z.div_pos; unfold zk in *; lia). lia.
  Qed.

  Lemma in_child_ids f thr g ids i : In i (child_ids ds f thr g ids) <->
    In i ids /\ (i < length ds)%nat /\ exists v, fget f (nth i ds []) = FNum v /\ side_of v thr = g.
  Proof.
    unfold child_ids. rewrite filter_In, in_seq, andb_true_iff. unfold nmem, on_side. rewrite existsb_exists. split.
    - intros (Hi & (j & Hj & Ej) & Hs). apply Nat.eqb_eq in Ej. subst j. split; [exact Hj|]. split; [lia|].
      destruct (fget f (nth i ds [])) as [|v|h]; try discriminate. exists v. split; [reflexivity | now apply Z.eqb_eq].
    - intros (Hin & Hlt & v & Ev & Es). split; [lia|]. split; [exists i; split; [exact Hin | apply Nat.eqb_refl]|].
      rewrite Ev. now apply Z.eqb_eq.
  Qed.

  (* a sample recorded at a pair reaches that pair by the walk: its walk from the root is its walk from that pair *)
  Lemma inv_reach nodes tables score tr : Inv [] nodes tables score tr ->
    forall k, (k < length tr)%nat -> forall i, In i (fst (tr_at tr k)) ->
      (k = 0%nat \/ In i (fst (tr_at tr 0))) /\ walk_from nodes 0 (nth i ds []) = walk_from nodes (zk k) (nth i ds []).
  Proof.
    intro I. pose proof (inv_wf _ _ _ _ I) as Hwf. pose proof (I_len _ _ _ _ _ I) as HL.
    induction k as [k IH] using lt_wf_ind. intros Hk i Hi. destruct (Nat.eq_dec k 0) as [->|Nk]; [split; [now left | reflexivity]|].
    destruct (I_parent _ _ _ _ _ I k ltac:(lia)) as (j & g & Hj & Hg & Htj & Hnj).
    destruct (inv_greedy _ _ _ _ I j ltac:(lia)) as (x & Hx & Fa & Ta & Hc). rewrite Htj in Hc.
    pose proof (Hc g Hg) as Hcg. cbv zeta in Hcg. rewrite Hnj in Hcg. destruct Hcg as (_ & _ & _ & Htr).
    assert (Ek : Z.to_nat (zk k / 2) = k) by (unfold zk; rewrite Z.mul_comm, Z.div_mul by lia; lia).
    rewrite Ek in Htr. rewrite Htr in Hi. unfold child_of in Hi. cbn [fst] in Hi. apply in_child_ids in Hi.
    destruct Hi as (Hin & _ & v & Ev & Es).
    destruct (IH j Hj ltac:(lia) i Hin) as (Hroot & Hw). split.
    - right. destruct Hroot as [-> | H]; assumption.
    - rewrite Hw. unfold walk_from. rewrite (tree_group_step nodes _ _ (zk j) Hwf).
      + rewrite Fa, Ev, Ta, Es.
        pose proof (Hc 0%Z (or_introl eq_refl)) as Hc0. cbv zeta in Hc0. rewrite Z.add_0_r in Hc0. destruct Hc0 as (A0 & _).
        assert (Hnt : src_c10_tree_terminal (n_next (znth (zk j) nodes node0)) = false).
        { unfold src_c10_tree_terminal. apply Z.eqb_neq. unfold zk in *. lia. }
        rewrite Hnt. unfold src_c10_tree_child. rewrite Hnj. reflexivity.
      + unfold valid_pair. unfold zk in *. repeat split; [lia | rewrite Z.even_mul; reflexivity | lia].
  Qed.

  (* ... hence the tree predicts, for every sample recorded at a terminal pair, the table of its side (or nothing when it misses
     the feature of that pair) *)
  Lemma inv_leaf_walk nodes tables score tr : Inv [] nodes tables score tr ->
    forall k x, (k < length tr)%nat -> term_of (tr_at tr k) = true -> SN (fst (tr_at tr k)) = Some x ->
    forall i, In i (fst (tr_at tr k)) ->
      match fnum (fget (sc_f x) (nth i ds [])) with
      | Some v => exists g, walk_from nodes 0 (nth i ds []) = Some g /\ znth g tables [] = stump_pred (sc_thr x) (sc_lo x) (sc_hi x) v
      | None => walk_from nodes 0 (nth i ds []) = None
      end.
  Proof.
    intros I k x Hk Ht Hx i Hi. pose proof (inv_wf _ _ _ _ I) as Hwf. pose proof (I_len _ _ _ _ _ I) as HL.
    destruct (inv_reach _ _ _ _ I k Hk i Hi) as (_ & Hw). rewrite Hw.
    destruct (inv_greedy _ _ _ _ I k Hk) as (x' & Hx' & Fa & Ta & Hc). rewrite Hx in Hx'. injection Hx' as <-. rewrite Ht in Hc.
    destruct Hc as (Na & Hlo & Hhi). unfold walk_from. rewrite (tree_group_step nodes _ _ (zk k) Hwf).
    - rewrite Fa, Ta, Na. change (src_c10_tree_terminal 0) with true. cbv iota.
      destruct (fget (sc_f x) (nth i ds [])) as [|v|h]; cbn [fnum]; try reflexivity.
      eexists. split; [reflexivity|]. unfold src_c10_tree_leaf, side_of, stump_pred. destruct (qlt v (sc_thr x)); [rewrite Z.add_0_r|]; assumption.
    - unfold valid_pair. unfold zk in *. repeat split; [lia | rewrite Z.even_mul; reflexivity | lia].
  Qed.

  (* ---- (5) termination: a cache at depth d costs at most 2^(max_depth - d) - 1 turns ----------------------------------------- *)
  Definition cweight (d : Z) : nat := 2 ^ Z.to_nat (Z.max 1 (max_depth - d)) - 1.
  Definition qweight (q : list tcache) : nat := fold_right (fun c acc => (cweight (tc_depth c) + acc)%nat) 0%nat q.
  Lemma cweight_pos d : (1 <= cweight d)%nat.
  Proof.
    unfold cweight. destruct (Z.to_nat (Z.max 1 (max_depth - d))) as [|n] eqn:E; [lia|].
    rewrite Nat.pow_succ_r'. pose proof (Nat.pow_nonzero 2 n ltac:(lia)). lia.
  Qed.
  Lemma cweight_split size d : src_c10_tree_terminal_fit size min_size d max_depth = false ->
    cweight d = (1 + 2 * cweight (d + 1))%nat.
  Proof.
    unfold src_c10_tree_terminal_fit. rewrite orb_false_iff, Z.geb_leb, Z.leb_gt. intros (_ & H). unfold cweight.
    replace (Z.max 1 (max_depth - d)) with (max_depth - d)%Z by lia.
    replace (Z.max 1 (max_depth - (d + 1))) with (max_depth - d - 1)%Z by lia.
    replace (Z.to_nat (max_depth - d)) with (S (Z.to_nat (max_depth - d - 1))) by lia.
    rewrite Nat.pow_succ_r'. pose proof (Nat.pow_nonzero 2 (Z.to_nat (max_depth - d - 1)) ltac:(lia)). lia.
  Qed.
  Lemma qweight_app a b : qweight (a ++ b) = (qweight a + qweight b)%nat.
  Proof. induction a as [|c a IH]; [reflexivity|]. cbn [app qweight fold_right]. fold (qweight (a ++ b)) (qweight a). lia. Qed.

  Lemma qweight_cons c q : qweight (c :: q) = (cweight (tc_depth c) + qweight q)%nat.
  Proof. reflexivity. Qed.
  Lemma qweight_two a b : qweight [a; b] = (cweight (tc_depth a) + cweight (tc_depth b))%nat.
  Proof. unfold qweight. cbn [fold_right]. lia. Qed.

  Lemma loop_fuel : forall fuel q nodes tables score tr,
    (forall c, In c q -> (0 <= tc_parent c)%Z) -> (qweight q <= fuel)%nat ->
    match LOOP fuel q nodes tables score tr with
    | FitFuel => False
    | FitNone _ => True
    | FitOK nodes' _ _ tr' => (length nodes' <= length nodes + 2 * qweight q)%nat /\ (length tr' <= length tr + qweight q)%nat
    end.
  Proof.
    induction fuel as [|f IH]; intros q nodes tables score tr Hpar Hw.
    - destruct q as [|c rest]; cbn [fit_loop]; [cbn; lia|]. rewrite qweight_cons in Hw. pose proof (cweight_pos (tc_depth c)). lia.
    - destruct q as [|c rest]; cbn [fit_loop]; [cbn; lia|].
      destruct (SN (tc_ids c)) as [x|]; [|exact I]. cbv zeta.
      set (nodes1 := if src_c10_tree_has_parent (tc_parent c) (nlen nodes) then set_next nodes (tc_parent c) (src_c10_tree_link (nlen nodes)) else nodes).
      assert (Hl1 : length nodes1 = length nodes).
      { unfold nodes1. destruct (src_c10_tree_has_parent (tc_parent c) (nlen nodes)) eqn:E; [|reflexivity].
        unfold src_c10_tree_has_parent in E. apply Z.ltb_lt in E. pose proof (Hpar c (or_introl eq_refl)).
        pose proof (set_next_length nodes (tc_parent c) (src_c10_tree_link (nlen nodes)) ltac:(lia)) as HH. unfold nlen in *. lia. }
      rewrite qweight_cons in *. pose proof (cweight_pos (tc_depth c)) as Hc1.
      destruct (src_c10_tree_terminal_fit (Z.of_nat (length (tc_ids c))) min_size (tc_depth c) max_depth) eqn:Ht.
      + match goal with |- match LOOP f rest ?n ?t ?s ?r with _ => _ end => specialize (IH rest n t s r) end.
        assert (Hpar' : forall c', In c' rest -> (0 <= tc_parent c')%Z) by (intros c' Hc'; apply Hpar; now right).
        specialize (IH Hpar' ltac:(lia)).
        match goal with |- match ?L with _ => _ end => destruct L end; try exact IH.
        rewrite !app_length in IH. cbn [length] in IH. lia.
      + pose proof (cweight_split _ _ Ht) as Hsp. unfold src_c10_tree_child_depth.
        match goal with |- match LOOP f ?q' ?n ?t ?s ?r with _ => _ end => specialize (IH q' n t s r) end.
        match type of IH with (?A -> _) => assert (Hpar' : A) end.
        { intros c' Hc'. apply in_app_or in Hc'. destruct Hc' as [Hc'|Hc']; [apply Hpar; now right|].
          unfold src_c10_tree_child_parent, nlen in Hc'. destruct Hc' as [<-|[<-|[]]]; cbn [tc_parent]; lia. }
        specialize (IH Hpar'). rewrite qweight_app, qweight_two in IH. cbn [tc_depth] in IH.
        specialize (IH ltac:(lia)).
        match goal with |- match ?L with _ => _ end => destruct L end; try exact IH.
        rewrite !app_length in IH. cbn [length] in IH. lia.
  Qed.
End FitProofs.

(* ======================================================================================================================== *)
(* D. statements about tree_fit                                                                                                *)
(* ======================================================================================================================== *)
(* the stump fitted at a node: optimal over all features, all mid-point thresholds, all pairs of tables; tables = mean residuals *)
Lemma stump_node_optimal no floor adm ds res nf ids x : stump_node no floor adm ds res nf ids = Some x ->
  adm (Z.of_nat (length ids)) = true /\ (sc_f x < nf)%nat /\ In (sc_thr x) (thresholds (tcol ds res (sc_f x) ids)) /\
  sc_score x == clamp floor (rss_of no (stump_pred (sc_thr x) (sc_lo x) (sc_hi x)) (tcol ds res (sc_f x) ids)) /\
  (forall f thr lo hi, (f < nf)%nat -> In thr (thresholds (tcol ds res f ids)) ->
     sc_score x <= clamp floor (rss_of no (stump_pred thr lo hi) (tcol ds res f ids))) /\
  (exists n p, Permutation (present (tcol ds res (sc_f x) ids)) (n ++ p) /\ n <> [] /\ p <> [] /\
               Forall (fun e => fst e < sc_thr x) n /\ Forall (fun e => sc_thr x < fst e) p /\
               sc_lo x = tab no (fun o => mean_of (mom_of1 (proj o n))) /\
               (forall o, (o < no)%nat -> rget o (sc_hi x) == mean_of (mom_of1 (proj o p)))).
Proof.
  unfold stump_node. destruct (adm (Z.of_nat (length ids))); [|discriminate]. intro H. split; [reflexivity|].
  destruct (stump_best_in _ _ _ _ _ _ _ H) as (Hf & Hin). split; [exact Hf|].
  destruct (stump_xcand_spec _ _ _ _ _ Hin) as (_ & Ht & Hs & Hm). split; [exact Ht|]. split; [exact Hs|]. split; [|exact Hm].
  intros f thr lo hi Hf' Ht'. pose proof (stump_best_score no floor ds res nf ids) as E. rewrite H in E. cbn [option_map] in E.
  pose proof (stump_fit_optimal no floor (tcols ds res nf ids)) as O. rewrite <- E in O. destruct O as (_ & O).
  apply O; [|exact Ht']. unfold tcols. apply in_map_iff. exists f. split; [reflexivity | apply in_seq; lia].
Qed.

Lemma rss_of_tcol no (pred : Q -> list Q) ds res f ids :
  rss_of no pred (tcol ds res f ids) =
  qsum (map (fun i => match fnum (fget f (nth i ds [])) with
                      | None => sq_norm no (nth i res [])
                      | Some v => sqdist no (nth i res []) (pred v)
                      end) ids).
Proof. unfold rss_of, tcol. rewrite map_map. reflexivity. Qed.

Section Top.
  Variables (no : nat) (floor : Q) (adm : Z -> bool) (ds : list sample) (res : list (list Q)) (nf : nat).
  Variables (max_depth min_split : Z) (ids : list nat).
  Let min_size := src_c10_min_samples (Z.of_nat (length ds)) min_split.
  Local Notation FIT := (tree_fit no floor adm ds res nf max_depth min_split ids).
  Local Notation SN := (stump_node no floor adm ds res nf).

  Lemma fit_inv nodes tables score tr : FIT = FitOK nodes tables score tr ->
    Inv no floor adm ds res nf max_depth min_size [] nodes tables score tr /\ exists sfx, tr = (ids, 0%Z) :: sfx.
  Proof. unfold tree_fit. apply run_inv. Qed.

  (* (1) *)
  Lemma treefit_wf nodes tables score tr : FIT = FitOK nodes tables score tr -> tree_wf nodes (Z.of_nat (length tables)) = true.
  Proof. intro H. destruct (fit_inv _ _ _ _ H) as (I & _). exact (inv_wf _ _ _ _ _ _ _ _ _ _ _ _ I). Qed.

  (* (2) + (4) *)
  Lemma treefit_greedy nodes tables score tr : FIT = FitOK nodes tables score tr ->
    nlen nodes = (2 * Z.of_nat (length tr))%Z /\ (exists sfx, tr = (ids, 0%Z) :: sfx) /\
    (forall k, (k < length tr)%nat -> greedy_pair no floor adm ds res nf max_depth min_size nodes tables tr k) /\
    (forall k, (0 < k < length tr)%nat -> exists j g, (j < k)%nat /\ (g = 0 \/ g = 1)%Z /\
        term_of max_depth min_size (tr_at tr j) = false /\ n_next (znth (zk j + g) nodes node0) = zk k) /\
    (forall k, (k < length tr)%nat -> forall i, In i (fst (tr_at tr k)) ->
        In i ids /\ walk_from nodes 0 (nth i ds []) = walk_from nodes (zk k) (nth i ds [])).
  Proof.
    intro H. destruct (fit_inv _ _ _ _ H) as (I & sfx & Etr). split; [exact (I_len _ _ _ _ _ _ _ _ _ _ _ _ _ I)|].
    split; [now exists sfx|]. split; [exact (inv_greedy _ _ _ _ _ _ _ _ _ _ _ _ I)|].
    split; [exact (I_parent _ _ _ _ _ _ _ _ _ _ _ _ _ I)|].
    intros k Hk i Hi. destruct (inv_reach _ _ _ _ _ _ _ _ _ _ _ _ I k Hk i Hi) as (Hr & Hw). split; [|exact Hw].
    destruct Hr as [-> | Hr]; [rewrite Etr in Hi | rewrite Etr in Hr]; assumption.
  Qed.
  Lemma treefit_root nodes tables score tr : FIT = FitOK nodes tables score tr ->
    exists x, SN ids = Some x /\ n_feature (znth 0%Z nodes node0) = sc_f x /\ n_thr (znth 0%Z nodes node0) = sc_thr x /\
              (src_c10_tree_terminal_fit (Z.of_nat (length ids)) min_size 0 max_depth = true ->
               nodes = [mknode (sc_f x) (sc_thr x) 0 0; mknode (sc_f x) (sc_thr x) 0 1] /\ tables = [sc_lo x; sc_hi x] /\ score == sc_score x).
  Proof.
    intro H. pose proof H as H'. unfold tree_fit in H'. fold min_size in H'.
    assert (Hf : exists f, fit_fuel max_depth = S f).
    { unfold fit_fuel. pose proof (Nat.pow_nonzero 2 (Z.to_nat (Z.max 1 max_depth)) ltac:(lia)). destruct (2 ^ Z.to_nat (Z.max 1 max_depth))%nat; [lia | eauto]. }
    destruct Hf as (f & Ef). rewrite Ef in H'. cbn [fit_loop tc_ids tc_depth tc_parent] in H'.
    destruct (SN ids) as [x|] eqn:Hx; [|discriminate]. exists x. split; [reflexivity|].
    destruct (treefit_greedy _ _ _ _ H) as (_ & (sfx & Etr) & G & _). specialize (G 0%nat ltac:(rewrite Etr; cbn; lia)).
    destruct G as (x' & Hx' & Fa & Ta & _). rewrite Etr in Hx'. cbn [tr_at nth fst] in Hx'. rewrite Hx in Hx'. injection Hx' as <-.
    split; [exact Fa|]. split; [exact Ta|]. intro Ht. rewrite Ht in H'.
    change (src_c10_tree_has_parent 0 (nlen [])) with false in H'. cbv zeta iota in H'. destruct f; cbn [fit_loop app length] in H'.
    - injection H' as <- <- <- _. repeat split; try reflexivity. ring.
    - injection H' as <- <- <- _. repeat split; try reflexivity. ring.
  Qed.

  (* (3) *)
  Lemma treefit_score nodes tables score tr : FIT = FitOK nodes tables score tr ->
    score == leaf_sum no floor adm ds res nf max_depth min_size tr /\
    score == leaf_rss_sum no floor ds res max_depth min_size nodes tables tr.
  Proof.
    intro H. destruct (fit_inv _ _ _ _ H) as (I & _). pose proof (I_score _ _ _ _ _ _ _ _ _ _ _ _ _ I) as Hs. split; [exact Hs|].
    rewrite Hs. unfold leaf_sum, leaf_rss_sum.
    assert (G : forall k, (k < length tr)%nat -> leaf_term no floor adm ds res nf max_depth min_size (tr_at tr k) ==
              (fun e => if src_c10_tree_terminal_fit (Z.of_nat (length (fst e))) min_size (snd e) max_depth
                        then clamp floor (tree_rss no ds res nodes tables (fst e)) else 0) (tr_at tr k)).
    { intros k Hk. unfold leaf_term. cbv beta. fold (term_of max_depth min_size (tr_at tr k)).
      destruct (term_of max_depth min_size (tr_at tr k)) eqn:Et; [|reflexivity].
      destruct (inv_greedy _ _ _ _ _ _ _ _ _ _ _ _ I k Hk) as (x & Hx & _). rewrite Hx.
      destruct (stump_node_optimal _ _ _ _ _ _ _ _ Hx) as (_ & _ & _ & Hsc & _). rewrite Hsc. apply clamp_proper; [reflexivity|].
      rewrite rss_of_tcol. unfold tree_rss. apply qsum_map_eq. intros i Hi.
      pose proof (inv_leaf_walk _ _ _ _ _ _ _ _ _ _ _ _ I k x Hk Et Hx i Hi) as W. unfold tree_err.
      destruct (fnum (fget (sc_f x) (nth i ds []))) as [v|].
      - destruct W as (g & -> & ->). reflexivity.
      - rewrite W. reflexivity. }
    clear Hs H I. unfold tr_at in G. induction tr as [|e t IH]; [reflexivity|]. cbn [map]. rewrite !qsum_cons.
    rewrite (G 0%nat ltac:(cbn; lia)). cbn [nth]. rewrite IH; [reflexivity|]. intros k Hk. apply (G (S k)). cbn; lia.
  Qed.

  (* (5) *)
  Lemma treefit_terminates : FIT <> FitFuel /\
    forall nodes tables score tr, FIT = FitOK nodes tables score tr ->
      (length nodes <= 2 ^ (Z.to_nat (Z.max 1 max_depth) + 1) - 2)%nat /\ (length tr <= 2 ^ Z.to_nat (Z.max 1 max_depth) - 1)%nat.
  Proof.
    pose proof (loop_fuel no floor adm ds res nf max_depth min_size (fit_fuel max_depth) [mkcache ids 0 0] [] [] 0 []) as L.
    assert (W : qweight max_depth [mkcache ids 0 0] = (2 ^ Z.to_nat (Z.max 1 max_depth) - 1)%nat).
    { unfold qweight, cweight. cbn [fold_right tc_depth]. rewrite Z.sub_0_r. lia. }
    rewrite W in L. unfold tree_fit. fold min_size.
    match type of L with (?A -> ?B -> _) => assert (HA : A) by (intros c [<-|[]]; cbn; lia); assert (HB : B) by (unfold fit_fuel; lia) end.
    specialize (L HA HB). split.
    - intro E. rewrite E in L. exact L.
    - intros nodes tables score tr E. rewrite E in L. cbn [length] in L. rewrite Nat.add_1_r, Nat.pow_succ_r'. lia.
  Qed.

  (* no_fit_score propagates: as soon as a queued cache has no stump the whole fit fails *)
  Lemma loop_nofit_propagates : forall fuel q nodes tables score tr,
    (exists c, In c q /\ SN (tc_ids c) = None) ->
    forall n t s r, fit_loop no floor adm ds res nf max_depth min_size fuel q nodes tables score tr <> FitOK n t s r.
  Proof.
    induction fuel as [|f IH]; intros q nodes tables score tr (c & Hc & Hn) n t s r.
    - destruct q; [contradiction | cbn [fit_loop]; discriminate].
    - destruct q as [|c' rest]; [contradiction|]. cbn [fit_loop]. destruct (SN (tc_ids c')) as [x|] eqn:Hx; [|discriminate].
      assert (Hin : In c rest) by (destruct Hc as [<-|Hc]; [congruence | exact Hc]). cbv zeta.
      destruct (src_c10_tree_terminal_fit _ _ _ _); apply IH; exists c; (split; [|exact Hn]); [exact Hin | apply in_or_app; now left].
  Qed.
  Lemma treefit_nofit_root : SN ids = None -> FIT = FitNone [(ids, 0%Z)].
  Proof.
    intro H. unfold tree_fit. fold min_size. unfold fit_fuel.
    pose proof (Nat.pow_nonzero 2 (Z.to_nat (Z.max 1 max_depth)) ltac:(lia)). destruct (2 ^ Z.to_nat (Z.max 1 max_depth))%nat; [lia|].
    cbn [fit_loop tc_ids]. now rewrite H.
  Qed.
End Top.

(* ---- observation F7 made precise: the score of a tree deeper than 1 omits the samples dropped at a split pair ------------------- *)
Definition f7_ds : list sample := [[FNum 0]; [FNum 1]; [FNum 2]; [FNum 3]; [FMiss]].
Definition f7_res : list (list Q) := [[1]; [2]; [5]; [6]; [10]].
Definition f7_ids : list nat := [0; 1; 2; 3; 4]%nat.
Lemma treefit_score_omits_dropped : exists nodes tables score tr,
  tree_fit 1 (1 # 1000) (fun _ => true) f7_ds f7_res 1 2 1 f7_ids = FitOK nodes tables score tr /\
  length nodes = 6%nat /\ walk_from nodes 0 [FMiss] = None /\
  score == 2 # 1000 /\ tree_rss 1 f7_ds f7_res nodes tables f7_ids == 100.
Proof.
  eexists _, _, _, _. split; [vm_compute; reflexivity|]. split; [reflexivity|]. split; [vm_compute; reflexivity|].
  split; vm_compute; reflexivity.
Qed.

(* the translated integer expressions of do_fit have the shape the invariant uses *)
Lemma treefit_kernels :
  (forall p n, src_c10_tree_has_parent p n = (p <? n)%Z) /\ (forall n, src_c10_tree_link n = n) /\
  (forall d, src_c10_tree_child_depth d = (d + 1)%Z) /\ (forall n, src_c10_tree_child_parent n = n) /\
  (forall t, src_c10_tree_leaf_table t = t) /\
  (forall size ms d md, src_c10_tree_terminal_fit size ms d md = ((size <? ms) || (md <=? d + 1))%Z) /\
  (forall rows ms, src_c10_min_samples rows ms = Z.min 10 (Z.quot (rows * ms) 100)).
Proof. repeat split; try reflexivity. intros. unfold src_c10_tree_terminal_fit. now rewrite Z.geb_leb. Qed.
