(* C05 -- lemmas and proofs about the model of C05_Defs (see Properties_C05.v for the statements). *)
From Coq Require Import List ZArith QArith Bool Lia Lra Psatz Setoid Morphisms.
From LNGen Require Import Src_c05.
From LN Require Import C05_Defs.
Import ListNotations.
Local Open Scope Q_scope.

(* ------------------------------------------------------------------------------------------------ *)
(* scalars                                                                                          *)
(* ------------------------------------------------------------------------------------------------ *)
Lemma qle_true : forall a b, Qle_bool a b = true -> a <= b.
Proof. intros a b H. apply Qle_bool_iff. exact H. Qed.
Lemma qle_false : forall a b, Qle_bool a b = false -> b < a.
Proof.
  intros a b H. apply Qnot_le_lt. intro L. apply Qle_bool_iff in L. rewrite L in H. discriminate.
Qed.
Lemma qltb_true : forall a b, qltb a b = true -> a < b.
Proof. unfold qltb. intros a b H. apply negb_true_iff in H. apply qle_false. exact H. Qed.
Lemma qltb_false : forall a b, qltb a b = false -> b <= a.
Proof. unfold qltb. intros a b H. apply negb_false_iff in H. apply qle_true. exact H. Qed.

Ltac qcase a b :=
  let E := fresh "E" in
  destruct (Qle_bool a b) eqn:E; [apply qle_true in E | apply qle_false in E].

Lemma qmax_l : forall a b, a <= qmax a b.
Proof. intros a b. unfold qmax. qcase a b; lra. Qed.
Lemma qmax_r : forall a b, b <= qmax a b.
Proof. intros a b. unfold qmax. qcase a b; lra. Qed.
Lemma qmax_lub : forall a b c, a <= c -> b <= c -> qmax a b <= c.
Proof. intros a b c Ha Hb. unfold qmax. qcase a b; lra. Qed.
Lemma qmax_le_iff : forall a b c, qmax a b <= c <-> a <= c /\ b <= c.
Proof.
  intros a b c. split.
  - intro H. pose proof (qmax_l a b). pose proof (qmax_r a b). split; lra.
  - intros [Ha Hb]. apply qmax_lub; assumption.
Qed.
Lemma qmin_le_r : forall a b, qmin a b <= b.
Proof. intros a b. unfold qmin. qcase a b; lra. Qed.
Lemma qmin_glb : forall a b c, c <= a -> c <= b -> c <= qmin a b.
Proof. intros a b c Ha Hb. unfold qmin. qcase a b; lra. Qed.
Lemma qabs_nonneg : forall a, 0 <= qabs a.
Proof. intros a. unfold qabs. qcase 0 a; lra. Qed.
Lemma qabs_le : forall a, a <= qabs a.
Proof. intros a. unfold qabs. qcase 0 a; lra. Qed.
Lemma qabs_zero : forall a, a == 0 -> qabs a == 0.
Proof. intros a H. unfold qabs. qcase 0 a; lra. Qed.

(* ------------------------------------------------------------------------------------------------ *)
(* infinity norm                                                                                    *)
(* ------------------------------------------------------------------------------------------------ *)
Lemma linf_fold_le : forall v m b,
  fold_left (fun m a => qmax m (qabs a)) v m <= b <-> m <= b /\ Forall (fun a => qabs a <= b) v.
Proof.
  induction v as [|a v IH]; intros m b; simpl.
  - split; [intro H; split; [exact H | constructor] | intros [H _]; exact H].
  - rewrite IH. rewrite qmax_le_iff. split.
    + intros [[Hm Ha] Hv]. split; [exact Hm | constructor; assumption].
    + intros [Hm Hv]. inversion Hv; subst. split; [split|]; assumption.
Qed.

Lemma linf_le_iff : forall v b, 0 <= b -> (linf v <= b <-> Forall (fun a => qabs a <= b) v).
Proof.
  intros v b Hb. unfold linf. rewrite linf_fold_le. split; [intros [_ H]; exact H | intro H; split; assumption].
Qed.

Lemma linf_fold_ge : forall v m, m <= fold_left (fun m a => qmax m (qabs a)) v m.
Proof.
  induction v as [|a v IH]; intros m; simpl; [lra|].
  pose proof (IH (qmax m (qabs a))). pose proof (qmax_l m (qabs a)). lra.
Qed.
Lemma linf_nonneg : forall v, 0 <= linf v.
Proof. intros v. unfold linf. apply linf_fold_ge. Qed.

(* every entry is bounded by the norm *)
Lemma linf_bounds : forall v, Forall (fun a => qabs a <= linf v) v.
Proof. intros v. apply linf_le_iff; [apply linf_nonneg | lra]. Qed.

(* ------------------------------------------------------------------------------------------------ *)
(* the violation measure is bounded by the criterion of make_criterion                              *)
(* ------------------------------------------------------------------------------------------------ *)
Definition feasible_within (eps : Q) (ceq cineq : vec) : Prop :=
  Forall (fun h => qabs h <= eps) ceq /\ Forall (fun g => qmax g 0 <= eps) cineq.

(* |max(g, sh)| bounds max(g, 0) whatever the shift sh = -miu/ro is (any sign, any rounding) *)
Lemma shifted_bound : forall g sh, qabs (qmax g 0) <= qabs (qmax g sh).
Proof.
  intros g sh. unfold qabs, qmax. qcase g 0; qcase g sh;
    repeat match goal with |- context [Qle_bool ?a ?b] => qcase a b end; lra.
Qed.

Lemma criterion_ineq_part : forall (sh : vec) cineq b,
  length sh = length cineq ->
  Forall (fun a => qabs a <= b) (map2 qmax cineq sh) ->
  Forall (fun g => qmax g 0 <= b) cineq.
Proof.
  intros sh cineq b. revert sh.
  induction cineq as [|g cineq IH]; intros sh Hl Hall; [constructor|].
  destruct sh as [|m sh]; [discriminate|]. simpl in *.
  inversion Hall; subst. constructor.
  - pose proof (shifted_bound g m). pose proof (qabs_le (qmax g 0)). lra.
  - apply IH with (sh := sh); auto.
Qed.

Lemma criterion_bounds_violation : forall R ceq cineq miu ro b,
  length miu = length cineq ->
  criterion R ceq cineq miu ro <= b -> feasible_within b ceq cineq.
Proof.
  intros R ceq cineq miu ro b Hl Hc. unfold criterion in Hc.
  apply qmax_le_iff in Hc. destruct Hc as [Hh Hv].
  assert (Hb : 0 <= b) by (pose proof (linf_nonneg ceq); lra).
  split.
  - apply linf_le_iff; assumption.
  - apply criterion_ineq_part with (sh := map (fun m => rdiv R (- m) ro) miu).
    + rewrite map_length. exact Hl.
    + apply linf_le_iff; assumption.
Qed.

Lemma feasible_within_mono : forall a b ceq cineq, a <= b -> feasible_within a ceq cineq -> feasible_within b ceq cineq.
Proof.
  intros a b ceq cineq Hab [H1 H2]. split; eapply Forall_impl; try eassumption; simpl; intros; lra.
Qed.

(* ------------------------------------------------------------------------------------------------ *)
(* the invariant of the outer loop: the best state violates the constraints by at most old_criterion *)
(* ------------------------------------------------------------------------------------------------ *)
Record al_inv (P : al_params) (nin : nat) (s : al_state) : Prop := mkinv {
  inv_len : length (s_miu s) = nin;
  inv_best : feasible_within (s_old s) (s_ceq s) (s_cineq s);
  inv_conv : s_status s = Converged -> feasible_within (p_eps P) (s_ceq s) (s_cineq s);
  inv_run : s_stopped s = false -> s_status s = MaxIters }.

Lemma map2_length : forall {A B C} (f : A -> B -> C) l1 l2,
  length l1 = length l2 -> length (map2 f l1 l2) = length l1.
Proof.
  induction l1 as [|a l1 IH]; intros l2 H; destruct l2; simpl in *; try discriminate; auto.
Qed.

Lemma status_of_Z_converged : forall conv valid, status_of_Z (src_done_status conv valid) = Converged -> conv = true.
Proof. intros [|] [|]; unfold src_done_status, status_of_Z; simpl; try reflexivity; discriminate. Qed.

Lemma al_step_inv : forall R P nin s e,
  length (e_cineq e) = nin -> al_inv P nin s -> al_inv P nin (al_step R P s e).
Proof.
  intros R P nin s e Hlen I.
  destruct I as [Ilen Ibest Iconv Irun].
  unfold al_step.
  set (crit := criterion R (e_ceq e) (e_cineq e) (s_miu s) (s_ro s)).
  assert (Hcrit : feasible_within crit (e_ceq e) (e_cineq e)).
  { apply criterion_bounds_violation with (R := R) (miu := s_miu s) (ro := s_ro s); try lia.
    unfold crit. lra. }
  unfold src_al_converged, src_al_update, src_done_stop, src_done_step_ok.
  destruct (e_ok e) eqn:Eok; simpl.
  - (* the inner solver returned a valid state *)
    destruct (qltb crit (s_old s)) eqn:El;
      [apply qltb_true in El | apply qltb_false in El].
    + (* better criterion: the best state becomes the current one *)
      destruct ((Qle_bool crit (p_eps P) && e_dx e) || negb (e_bvalid e)) eqn:Estop.
      * constructor; simpl; auto.
        -- eapply feasible_within_mono; [|exact Hcrit]. lra.
        -- intro Hs. apply status_of_Z_converged in Hs.
           apply andb_true_iff in Hs. destruct Hs as [Hle _]. apply qle_true in Hle.
           eapply feasible_within_mono; [exact Hle | exact Hcrit].
        -- discriminate.
      * constructor; simpl; auto.
        -- rewrite map2_length; lia.
        -- discriminate.
    + (* no improvement: the best state stays; criterion >= old_criterion >= its violation *)
      destruct ((Qle_bool crit (p_eps P) && e_dx e) || negb (e_bvalid e)) eqn:Estop.
      * constructor; simpl; auto.
        -- intro Hs. apply status_of_Z_converged in Hs.
           apply andb_true_iff in Hs. destruct Hs as [Hle _]. apply qle_true in Hle.
           eapply feasible_within_mono; [|exact Ibest]. lra.
        -- discriminate.
      * constructor; simpl; auto.
        -- rewrite map2_length; lia.
        -- eapply feasible_within_mono; [|exact Ibest]. lra.
        -- discriminate.
  - (* invalid inner state: done() stops with `failed`, nothing is updated *)
    constructor; simpl; auto; discriminate.
Qed.

Lemma al_run_inv : forall R P nin es s,
  Forall (fun e => length (e_cineq e) = nin) es -> al_inv P nin s -> al_inv P nin (al_run R P s es).
Proof.
  intros R P nin es. induction es as [|e es IH]; intros s Hes I; simpl; [exact I|].
  inversion Hes; subst.
  destruct (negb (s_stopped s) && src_al_loop (s_outer s) (p_max_outers P)); [|exact I].
  apply IH; auto. apply al_step_inv; auto.
Qed.

Lemma al_init_inv : forall R P x0 ceq0 cineq0 ro0, al_inv P (length cineq0) (al_init R x0 ceq0 cineq0 ro0).
Proof.
  intros R P x0 ceq0 cineq0 ro0. unfold al_init. constructor; simpl; auto.
  - apply repeat_length.
  - apply criterion_bounds_violation with (R := R) (miu := repeat 0 (length cineq0)) (ro := ro0).
    + apply repeat_length.
    + lra.
  - discriminate.
Qed.

(* the returned best state is the initial one or what some inner run delivered *)
Definition triple_of (s : al_state) : vec * vec * vec := (s_x s, s_ceq s, s_cineq s).
Definition ev_triple (e : al_event) : vec * vec * vec := (e_x e, e_ceq e, e_cineq e).

Lemma al_step_triple : forall R P s e,
  triple_of (al_step R P s e) = triple_of s \/ triple_of (al_step R P s e) = ev_triple e.
Proof.
  intros R P s e. unfold al_step, triple_of, ev_triple.
  destruct (src_al_update (e_ok e) (qltb (criterion R (e_ceq e) (e_cineq e) (s_miu s) (s_ro s)) (s_old s)));
    destruct (src_done_stop _ _); simpl; auto.
Qed.

Lemma al_run_triple : forall R P es s,
  triple_of (al_run R P s es) = triple_of s \/ In (triple_of (al_run R P s es)) (map ev_triple es).
Proof.
  intros R P es. induction es as [|e es IH]; intros s; simpl; auto.
  destruct (negb (s_stopped s) && src_al_loop (s_outer s) (p_max_outers P)); auto.
  destruct (IH (al_step R P s e)) as [H | H].
  - rewrite H. destruct (al_step_triple R P s e) as [H1 | H1]; rewrite H1; auto.
  - auto.
Qed.

Theorem al_feasible : forall R P x0 ceq0 cineq0 ro0 es,
  Forall (fun e => length (e_cineq e) = length cineq0) es ->
  let s := al_run R P (al_init R x0 ceq0 cineq0 ro0) es in
  (s_status s = Converged -> feasible_within (p_eps P) (s_ceq s) (s_cineq s)) /\
  (triple_of s = (x0, ceq0, cineq0) \/ In (triple_of s) (map ev_triple es)).
Proof.
  intros R P x0 ceq0 cineq0 ro0 es Hes s. split.
  - apply (inv_conv P (length cineq0) s).
    apply al_run_inv; auto. apply al_init_inv; auto.
  - apply (al_run_triple R P es (al_init R x0 ceq0 cineq0 ro0)).
Qed.

(* ================================================================================================ *)
(* vectors                                                                                          *)
(* ================================================================================================ *)
Lemma vnth_nil : forall k, vnth [] k = 0.
Proof. intros [|k]; reflexivity. Qed.

Lemma vnth_vadd : forall u v k, vnth (vadd u v) k == vnth u k + vnth v k.
Proof.
  induction u as [|a u IH]; intros v k.
  - simpl. rewrite vnth_nil. ring.
  - destruct v as [|b v].
    + simpl. rewrite vnth_nil. ring.
    + destruct k as [|k]; simpl; [unfold vnth; simpl; ring|]. apply (IH v k).
Qed.

Lemma vnth_vscale : forall c v k, vnth (vscale c v) k == c * vnth v k.
Proof.
  intros c. induction v as [|a v IH]; intros k.
  - simpl. rewrite vnth_nil. ring.
  - destruct k as [|k]; simpl; [unfold vnth; simpl; ring|]. apply (IH k).
Qed.

Lemma qsum_cons : forall a l, qsum (a :: l) = a + qsum l.
Proof. reflexivity. Qed.

(* a sum over all constraints splits into the equalities' and the inequalities' sums *)
Definition eqs (es : list cev) : list cev := filter ce_eq es.
Definition ineqs (es : list cev) : list cev := filter (fun e => negb (ce_eq e)) es.

Lemma qsum_split : forall (F G : cev -> Q) es,
  qsum (map (fun e => if ce_eq e then F e else G e) es) == qsum (map F (eqs es)) + qsum (map G (ineqs es)).
Proof.
  intros F G. induction es as [|e es IH]; simpl; [ring|].
  unfold eqs, ineqs in *. simpl. destruct (ce_eq e); simpl; rewrite IH; ring.
Qed.

(* ================================================================================================ *)
(* accumulation loops: value and every gradient component are sums over the constraints             *)
(* ================================================================================================ *)
Lemma fold_acc : forall (A : Type) (step : acc -> A -> acc) (tv tg : A -> Q) (gr : A -> vec),
  (forall a e, fst (step a e) == fst a + tv e) ->
  (forall a e j, vnth (snd (step a e)) j == vnth (snd a) j + tg e * vnth (gr e) j) ->
  forall es a,
    fst (fold_left step es a) == fst a + qsum (map tv es) /\
    (forall j, vnth (snd (fold_left step es a)) j ==
               vnth (snd a) j + qsum (map (fun e => tg e * vnth (gr e) j) es)).
Proof.
  intros A step tv tg gr Hv Hg. induction es as [|e es IH]; intros a; simpl.
  - split; [ring | intro j; ring].
  - destruct (IH (step a e)) as [IHv IHg]. split.
    + rewrite IHv, Hv. ring.
    + intro j. rewrite IHg, Hg. ring.
Qed.

Lemma add_term_value : forall a dv k gc, fst (add_term a dv k gc) = fst a + dv.
Proof. reflexivity. Qed.
Lemma add_term_grad : forall a dv k gc j, vnth (snd (add_term a dv k gc)) j == vnth (snd a) j + k * vnth gc j.
Proof. intros. unfold add_term. simpl. rewrite vnth_vadd, vnth_vscale. ring. Qed.
Arguments add_term : simpl never.

(* sub-gradient selectors of the linear penalty: sign(h) with sign(0) = +1, [g > 0] *)
Definition sgn (v : Q) : Q := if Qle_bool 0 v then 1 else -1.
Definition pos (v : Q) : Q := if qltb 0 v then 1 else 0.

Lemma pos_qabs : forall v, 0 < v -> qabs v == v.
Proof. intros v H. unfold qabs. qcase 0 v; lra. Qed.
Lemma pos_qmax : forall v, 0 < v -> qmax 0 v == v.
Proof. intros v H. unfold qmax. qcase 0 v; lra. Qed.
Lemma nonpos_qmax : forall v, v <= 0 -> qmax 0 v == 0.
Proof. intros v H. unfold qmax. qcase 0 v; lra. Qed.

(* ---- linear penalty ------------------------------------------------------------------------------ *)
Definition lin_tv (rho : Q) (e : cev) : Q := rho * (if ce_eq e then qabs (ce_val e) else qmax 0 (ce_val e)).
Definition lin_tg (rho : Q) (e : cev) : Q := rho * (if ce_eq e then sgn (ce_val e) else pos (ce_val e)).

Lemma lin_step_value : forall rho a e, fst (lin_step rho a e) == fst a + lin_tv rho e.
Proof.
  intros rho a e. unfold lin_step, lin_tv, src_pen_active. destruct (ce_eq e); lazy beta iota delta [src_pen_active orb].
  - rewrite add_term_value. ring.
  - destruct (qltb 0 (ce_val e)) eqn:E.
    + apply qltb_true in E. rewrite add_term_value, (pos_qabs _ E), (pos_qmax _ E). ring.
    + apply qltb_false in E. rewrite (nonpos_qmax _ E). ring.
Qed.

Lemma lin_step_grad : forall rho a e j,
  vnth (snd (lin_step rho a e)) j == vnth (snd a) j + lin_tg rho e * vnth (ce_grad e) j.
Proof.
  intros rho a e j. unfold lin_step, lin_tg, src_pen_active, src_lin_sign, sgn, pos. destruct (ce_eq e); lazy beta iota delta [src_pen_active orb].
  - rewrite add_term_grad. destruct (Qle_bool 0 (ce_val e)); simpl; ring.
  - destruct (qltb 0 (ce_val e)) eqn:E.
    + apply qltb_true in E. rewrite add_term_grad.
      qcase 0 (ce_val e); [simpl; ring | lra].
    + ring.
Qed.

Theorem defs_linear : forall rho f0 es,
  fst (linear_penalty rho f0 es) ==
    fst f0 + rho * qsum (map (fun e => qabs (ce_val e)) (eqs es))
           + rho * qsum (map (fun e => qmax 0 (ce_val e)) (ineqs es)) /\
  (forall j, vnth (snd (linear_penalty rho f0 es)) j ==
    vnth (snd f0) j + rho * qsum (map (fun e => sgn (ce_val e) * vnth (ce_grad e) j) (eqs es))
                    + rho * qsum (map (fun e => pos (ce_val e) * vnth (ce_grad e) j) (ineqs es))).
Proof.
  intros rho f0 es. unfold linear_penalty.
  destruct (fold_acc cev (lin_step rho) (lin_tv rho) (lin_tg rho) ce_grad
                     (lin_step_value rho) (lin_step_grad rho) es f0) as [Hv Hg].
  assert (Hsum : forall (F : cev -> Q) l, qsum (map (fun e => rho * F e) l) == rho * qsum (map F l)).
  { intros F l. induction l as [|x l IHl]; simpl; [ring | rewrite IHl; ring]. }
  split.
  - rewrite Hv. unfold lin_tv. rewrite Hsum, qsum_split. ring.
  - intro j. rewrite Hg. unfold lin_tg.
    assert (E : qsum (map (fun e => rho * (if ce_eq e then sgn (ce_val e) else pos (ce_val e)) * vnth (ce_grad e) j) es) ==
                rho * qsum (map (fun e => if ce_eq e then sgn (ce_val e) * vnth (ce_grad e) j
                                          else pos (ce_val e) * vnth (ce_grad e) j) es)).
    { clear. induction es as [|x l IHl]; simpl; [ring|]. rewrite IHl. destruct (ce_eq x); ring. }
    rewrite E, qsum_split. ring.
Qed.

(* ---- quadratic penalty ----------------------------------------------------------------------------- *)
Definition quad_tv (rho : Q) (e : cev) : Q :=
  rho * (if ce_eq e then ce_val e * ce_val e else qmax 0 (ce_val e) * qmax 0 (ce_val e)).
Definition quad_tg (rho : Q) (e : cev) : Q := 2 * rho * (if ce_eq e then ce_val e else qmax 0 (ce_val e)).

Lemma quad_step_value : forall rho a e, fst (quad_step rho a e) == fst a + quad_tv rho e.
Proof.
  intros rho a e. unfold quad_step, quad_tv, src_pen_active. destruct (ce_eq e); lazy beta iota delta [src_pen_active orb].
  - rewrite add_term_value. ring.
  - destruct (qltb 0 (ce_val e)) eqn:E.
    + apply qltb_true in E. rewrite add_term_value, (pos_qmax _ E). ring.
    + apply qltb_false in E. rewrite (nonpos_qmax _ E). ring.
Qed.

Lemma quad_step_grad : forall rho a e j,
  vnth (snd (quad_step rho a e)) j == vnth (snd a) j + quad_tg rho e * vnth (ce_grad e) j.
Proof.
  intros rho a e j. unfold quad_step, quad_tg, src_pen_active. destruct (ce_eq e); lazy beta iota delta [src_pen_active orb].
  - rewrite add_term_grad. ring.
  - destruct (qltb 0 (ce_val e)) eqn:E.
    + apply qltb_true in E. rewrite add_term_grad. rewrite (pos_qmax _ E). ring.
    + apply qltb_false in E. rewrite (nonpos_qmax _ E). ring.
Qed.

Theorem defs_quadratic : forall rho f0 es,
  fst (quadratic_penalty rho f0 es) ==
    fst f0 + rho * qsum (map (fun e => ce_val e * ce_val e) (eqs es))
           + rho * qsum (map (fun e => qmax 0 (ce_val e) * qmax 0 (ce_val e)) (ineqs es)) /\
  (forall j, vnth (snd (quadratic_penalty rho f0 es)) j ==
    vnth (snd f0) j + 2 * rho * qsum (map (fun e => ce_val e * vnth (ce_grad e) j) (eqs es))
                    + 2 * rho * qsum (map (fun e => qmax 0 (ce_val e) * vnth (ce_grad e) j) (ineqs es))).
Proof.
  intros rho f0 es. unfold quadratic_penalty.
  destruct (fold_acc cev (quad_step rho) (quad_tv rho) (quad_tg rho) ce_grad
                     (quad_step_value rho) (quad_step_grad rho) es f0) as [Hv Hg].
  split.
  - rewrite Hv. unfold quad_tv.
    assert (E : qsum (map (fun e => rho * (if ce_eq e then ce_val e * ce_val e else qmax 0 (ce_val e) * qmax 0 (ce_val e))) es) ==
                rho * qsum (map (fun e => if ce_eq e then ce_val e * ce_val e else qmax 0 (ce_val e) * qmax 0 (ce_val e)) es)).
    { clear. induction es as [|x l IHl]; simpl; [ring | rewrite IHl; ring]. }
    rewrite E, qsum_split. ring.
  - intro j. rewrite Hg. unfold quad_tg.
    assert (E : qsum (map (fun e => 2 * rho * (if ce_eq e then ce_val e else qmax 0 (ce_val e)) * vnth (ce_grad e) j) es) ==
                2 * rho * qsum (map (fun e => if ce_eq e then ce_val e * vnth (ce_grad e) j
                                              else qmax 0 (ce_val e) * vnth (ce_grad e) j) es)).
    { clear. induction es as [|x l IHl]; simpl; [ring|]. rewrite IHl. destruct (ce_eq x); ring. }
    rewrite E, qsum_split. ring.
Qed.

(* ---- augmented Lagrangian ---------------------------------------------------------------------------- *)
(* the multiplier counters ilambda++ / imiu++ pair the j-th equality with lambda_j and the i-th inequality with miu_i *)
Fixpoint pair_mults (es : list cev) (ls ms : vec) : list (cev * Q) :=
  match es with
  | [] => []
  | e :: es' => if ce_eq e then (e, hd 0 ls) :: pair_mults es' (tl ls) ms
                else (e, hd 0 ms) :: pair_mults es' ls (tl ms)
  end.

Definition shifted (rho : Q) (p : cev * Q) : Q := ce_val (fst p) + snd p / rho.
Definition al_pstep (rho : Q) (a : acc) (p : cev * Q) : acc :=
  if src_al_active (ce_eq (fst p)) (qltb 0 (shifted rho p))
  then add_term a ((1 # 2) * rho * shifted rho p * shifted rho p) (rho * shifted rho p) (ce_grad (fst p))
  else a.

Lemma al_fold_pairs : forall rho es a ls ms,
  fst (fst (fold_left (al_step1 rho) es (a, ls, ms))) = fold_left (al_pstep rho) (pair_mults es ls ms) a.
Proof.
  intros rho. induction es as [|e es IH]; intros a ls ms; [reflexivity|].
  cbn [fold_left pair_mults]. unfold al_step1 at 2.
  destruct (ce_eq e) eqn:E; cbn [fold_left]; rewrite IH; unfold al_pstep, shifted; cbn [fst snd]; rewrite E; reflexivity.
Qed.

Definition al_tv (rho : Q) (p : cev * Q) : Q :=
  (1 # 2) * rho * (if ce_eq (fst p) then shifted rho p * shifted rho p
                   else qmax 0 (shifted rho p) * qmax 0 (shifted rho p)).
Definition al_tg (rho : Q) (p : cev * Q) : Q :=
  rho * (if ce_eq (fst p) then shifted rho p else qmax 0 (shifted rho p)).

Lemma al_pstep_value : forall rho a p, fst (al_pstep rho a p) == fst a + al_tv rho p.
Proof.
  intros rho a p. unfold al_pstep, al_tv. destruct (ce_eq (fst p)); lazy beta iota delta [src_al_active orb].
  - rewrite add_term_value. ring.
  - destruct (qltb 0 (shifted rho p)) eqn:E.
    + apply qltb_true in E. rewrite add_term_value, (pos_qmax _ E). ring.
    + apply qltb_false in E. rewrite (nonpos_qmax _ E). ring.
Qed.

Lemma al_pstep_grad : forall rho a p j,
  vnth (snd (al_pstep rho a p)) j == vnth (snd a) j + al_tg rho p * vnth (ce_grad (fst p)) j.
Proof.
  intros rho a p j. unfold al_pstep, al_tg. destruct (ce_eq (fst p)); lazy beta iota delta [src_al_active orb].
  - rewrite add_term_grad. ring.
  - destruct (qltb 0 (shifted rho p)) eqn:E.
    + apply qltb_true in E. rewrite add_term_grad, (pos_qmax _ E). ring.
    + apply qltb_false in E. rewrite (nonpos_qmax _ E). ring.
Qed.

Lemma qsum_split_pairs : forall (F G : cev * Q -> Q) ps,
  qsum (map (fun p => if ce_eq (fst p) then F p else G p) ps) ==
  qsum (map F (filter (fun p => ce_eq (fst p)) ps)) + qsum (map G (filter (fun p => negb (ce_eq (fst p))) ps)).
Proof.
  intros F G. induction ps as [|p ps IH]; simpl; [ring|].
  destruct (ce_eq (fst p)); simpl; rewrite IH; ring.
Qed.

Lemma pair_mults_eqs : forall es ls ms, length ls = length (eqs es) ->
  filter (fun p => ce_eq (fst p)) (pair_mults es ls ms) = combine (eqs es) ls.
Proof.
  induction es as [|e es IH]; intros ls ms H; [reflexivity|].
  unfold eqs in *. simpl in *. destruct (ce_eq e) eqn:E; simpl; rewrite E.
  - destruct ls as [|l ls]; simpl in H; [discriminate|]. simpl. f_equal. apply IH. lia.
  - apply IH. exact H.
Qed.

Lemma pair_mults_ineqs : forall es ls ms, length ms = length (ineqs es) ->
  filter (fun p => negb (ce_eq (fst p))) (pair_mults es ls ms) = combine (ineqs es) ms.
Proof.
  induction es as [|e es IH]; intros ls ms H; [reflexivity|].
  unfold ineqs in *. simpl in *. destruct (ce_eq e) eqn:E; simpl; rewrite E; simpl.
  - apply IH. exact H.
  - destruct ms as [|m ms]; simpl in H; [discriminate|]. simpl. f_equal. apply IH. lia.
Qed.

Theorem defs_augmented : forall rho lambda miu f0 es,
  length lambda = length (eqs es) -> length miu = length (ineqs es) ->
  fst (augmented_lagrangian rho lambda miu f0 es) ==
    fst f0 + (1 # 2) * rho * qsum (map (fun p => shifted rho p * shifted rho p) (combine (eqs es) lambda))
           + (1 # 2) * rho * qsum (map (fun p => qmax 0 (shifted rho p) * qmax 0 (shifted rho p)) (combine (ineqs es) miu)) /\
  (forall j, vnth (snd (augmented_lagrangian rho lambda miu f0 es)) j ==
    vnth (snd f0) j + rho * qsum (map (fun p => shifted rho p * vnth (ce_grad (fst p)) j) (combine (eqs es) lambda))
                    + rho * qsum (map (fun p => qmax 0 (shifted rho p) * vnth (ce_grad (fst p)) j) (combine (ineqs es) miu))).
Proof.
  intros rho lambda miu f0 es Hl Hm. unfold augmented_lagrangian. rewrite al_fold_pairs.
  destruct (fold_acc (cev * Q) (al_pstep rho) (al_tv rho) (al_tg rho) (fun p => ce_grad (fst p))
                     (al_pstep_value rho) (al_pstep_grad rho) (pair_mults es lambda miu) f0) as [Hv Hg].
  split.
  - rewrite Hv. unfold al_tv.
    assert (E : forall ps, qsum (map (fun p => (1 # 2) * rho * (if ce_eq (fst p) then shifted rho p * shifted rho p
                                               else qmax 0 (shifted rho p) * qmax 0 (shifted rho p))) ps) ==
                (1 # 2) * rho * qsum (map (fun p => if ce_eq (fst p) then shifted rho p * shifted rho p
                                               else qmax 0 (shifted rho p) * qmax 0 (shifted rho p)) ps)).
    { induction ps as [|x l IHl]; simpl; [ring | rewrite IHl; ring]. }
    rewrite E, qsum_split_pairs, (pair_mults_eqs _ _ _ Hl), (pair_mults_ineqs _ _ _ Hm). ring.
  - intro j. rewrite Hg. unfold al_tg.
    assert (E : forall ps, qsum (map (fun p => rho * (if ce_eq (fst p) then shifted rho p else qmax 0 (shifted rho p)) *
                                                 vnth (ce_grad (fst p)) j) ps) ==
                rho * qsum (map (fun p => if ce_eq (fst p) then shifted rho p * vnth (ce_grad (fst p)) j
                                          else qmax 0 (shifted rho p) * vnth (ce_grad (fst p)) j) ps)).
    { induction ps as [|x l IHl]; simpl; [ring|]. rewrite IHl. destruct (ce_eq (fst x)); ring. }
    rewrite E, qsum_split_pairs, (pair_mults_eqs _ _ _ Hl), (pair_mults_ineqs _ _ _ Hm). ring.
Qed.

(* ================================================================================================ *)
(* feasible points, zero multipliers                                                                *)
(* ================================================================================================ *)
Definition feasible_ev (e : cev) : Prop := if ce_eq e then ce_val e == 0 else ce_val e <= 0.
Definition feasible (es : list cev) : Prop := Forall feasible_ev es.

Lemma qsum_map_zero : forall (A : Type) (f : A -> Q) l, Forall (fun x => f x == 0) l -> qsum (map f l) == 0.
Proof.
  intros A f l H. induction H as [|x l Hx Hl IH]; simpl; [ring | rewrite Hx, IH; ring].
Qed.

Lemma Forall_impl_in : forall (A : Type) (P R : A -> Prop) l, (forall x, P x -> R x) -> Forall P l -> Forall R l.
Proof. intros A P R l H HF. eapply Forall_impl; eauto. Qed.

Lemma lin_tv_feasible : forall rho e, feasible_ev e -> lin_tv rho e == 0.
Proof.
  intros rho e H. unfold lin_tv, feasible_ev in *. destruct (ce_eq e).
  - rewrite (qabs_zero _ H). ring.
  - rewrite (nonpos_qmax _ H). ring.
Qed.
Lemma quad_tv_feasible : forall rho e, feasible_ev e -> quad_tv rho e == 0.
Proof.
  intros rho e H. unfold quad_tv, feasible_ev in *. destruct (ce_eq e).
  - rewrite H. ring.
  - rewrite (nonpos_qmax _ H). ring.
Qed.
Lemma quad_tg_feasible : forall rho e, feasible_ev e -> quad_tg rho e == 0.
Proof.
  intros rho e H. unfold quad_tg, feasible_ev in *. destruct (ce_eq e).
  - rewrite H. ring.
  - rewrite (nonpos_qmax _ H). ring.
Qed.
Lemma lin_tg_feasible : forall rho e, feasible_ev e -> lin_tg rho e == if ce_eq e then rho else 0.
Proof.
  intros rho e H. unfold lin_tg, feasible_ev, sgn, pos in *. destruct (ce_eq e).
  - qcase 0 (ce_val e); [ring | lra].
  - destruct (qltb 0 (ce_val e)) eqn:E; [apply qltb_true in E; lra | ring].
Qed.

Lemma shifted_zero : forall rho p, snd p == 0 -> shifted rho p == ce_val (fst p).
Proof. intros rho p H. unfold shifted. rewrite H. unfold Qdiv. ring. Qed.

Lemma al_tv_feasible : forall rho p, feasible_ev (fst p) -> snd p == 0 -> al_tv rho p == 0.
Proof.
  intros rho p H Hz. unfold al_tv, feasible_ev in *. pose proof (shifted_zero rho p Hz) as Hs.
  destruct (ce_eq (fst p)).
  - rewrite Hs, H. ring.
  - assert (Hn : shifted rho p <= 0) by (rewrite Hs; exact H). rewrite (nonpos_qmax _ Hn). ring.
Qed.
Lemma al_tg_feasible : forall rho p, feasible_ev (fst p) -> snd p == 0 -> al_tg rho p == 0.
Proof.
  intros rho p H Hz. unfold al_tg, feasible_ev in *. pose proof (shifted_zero rho p Hz) as Hs.
  destruct (ce_eq (fst p)).
  - rewrite Hs, H. ring.
  - assert (Hn : shifted rho p <= 0) by (rewrite Hs; exact H). rewrite (nonpos_qmax _ Hn). ring.
Qed.

Definition all_zero (v : vec) : Prop := Forall (fun m => m == 0) v.
Lemma all_zero_hd : forall v, all_zero v -> hd 0 v == 0.
Proof. intros v H. destruct H; simpl; [reflexivity | assumption]. Qed.
Lemma all_zero_tl : forall v, all_zero v -> all_zero (tl v).
Proof. intros v H. destruct H; simpl; [constructor | assumption]. Qed.

Lemma pair_mults_feasible : forall es ls ms, feasible es -> all_zero ls -> all_zero ms ->
  Forall (fun p => feasible_ev (fst p) /\ snd p == 0) (pair_mults es ls ms).
Proof.
  induction es as [|e es IH]; intros ls ms Hf Hl Hm; simpl; [constructor|].
  inversion Hf; subst. destruct (ce_eq e); constructor; simpl; auto using all_zero_hd, all_zero_tl.
Qed.

Theorem feasible_coincide : forall rho lambda miu f0 es,
  feasible es -> all_zero lambda -> all_zero miu ->
  fst (linear_penalty rho f0 es) == fst f0 /\
  fst (quadratic_penalty rho f0 es) == fst f0 /\
  fst (augmented_lagrangian rho lambda miu f0 es) == fst f0 /\
  (forall j, vnth (snd (quadratic_penalty rho f0 es)) j == vnth (snd f0) j) /\
  (forall j, vnth (snd (augmented_lagrangian rho lambda miu f0 es)) j == vnth (snd f0) j) /\
  (* the linear penalty is not differentiable at h = 0: the code returns the sub-gradient with sign(0) = +1 *)
  (forall j, vnth (snd (linear_penalty rho f0 es)) j ==
             vnth (snd f0) j + rho * qsum (map (fun e => vnth (ce_grad e) j) (eqs es))).
Proof.
  intros rho lambda miu f0 es Hf Hl Hm.
  destruct (fold_acc cev (lin_step rho) (lin_tv rho) (lin_tg rho) ce_grad
                     (lin_step_value rho) (lin_step_grad rho) es f0) as [Lv Lg].
  destruct (fold_acc cev (quad_step rho) (quad_tv rho) (quad_tg rho) ce_grad
                     (quad_step_value rho) (quad_step_grad rho) es f0) as [Qv Qg].
  destruct (fold_acc (cev * Q) (al_pstep rho) (al_tv rho) (al_tg rho) (fun p => ce_grad (fst p))
                     (al_pstep_value rho) (al_pstep_grad rho) (pair_mults es lambda miu) f0) as [Av Ag].
  pose proof (pair_mults_feasible es lambda miu Hf Hl Hm) as Hp.
  unfold linear_penalty, quadratic_penalty, augmented_lagrangian. rewrite al_fold_pairs.
  repeat split.
  - rewrite Lv, qsum_map_zero; [ring|]. eapply Forall_impl_in; [|exact Hf]. intros; apply lin_tv_feasible; assumption.
  - rewrite Qv, qsum_map_zero; [ring|]. eapply Forall_impl_in; [|exact Hf]. intros; apply quad_tv_feasible; assumption.
  - rewrite Av, qsum_map_zero; [ring|]. eapply Forall_impl_in; [|exact Hp]. intros p [H1 H2]; apply al_tv_feasible; assumption.
  - intro j. rewrite Qg, qsum_map_zero; [ring|]. eapply Forall_impl_in; [|exact Hf].
    intros e He. simpl. rewrite (quad_tg_feasible rho e He). ring.
  - intro j. rewrite Ag, qsum_map_zero; [ring|]. eapply Forall_impl_in; [|exact Hp].
    intros p [H1 H2]. simpl. rewrite (al_tg_feasible rho p H1 H2). ring.
  - intro j. rewrite Lg.
    assert (E : qsum (map (fun e => lin_tg rho e * vnth (ce_grad e) j) es) ==
                rho * qsum (map (fun e => if ce_eq e then vnth (ce_grad e) j else 0) es)).
    { clear - Hf. induction Hf as [|e es He Hes IH]; simpl; [ring|].
      rewrite IH, (lin_tg_feasible rho e He). destruct (ce_eq e); ring. }
    rewrite E, (qsum_split (fun e => vnth (ce_grad e) j) (fun _ => 0)).
    rewrite (qsum_map_zero cev (fun _ => 0) (ineqs es)); [ring|].
    apply Forall_forall. intros; reflexivity.
Qed.

(* the gradient of the linear penalty does NOT coincide with the objective's at a feasible point with an equality *)
Lemma linear_feasible_grad_refuted :
  exists rho f0 es, feasible es /\ ~ (forall j, vnth (snd (linear_penalty rho f0 es)) j == vnth (snd f0) j).
Proof.
  exists 1, (0, [0]), [mkcev true 0 [1]]. split.
  - constructor; [reflexivity | constructor].
  - intro H. specialize (H 0%nat). vm_compute in H. discriminate H.
Qed.

(* ================================================================================================ *)
(* solver_state_t::update_constraints                                                               *)
(* ================================================================================================ *)
Definition uc_ceq (s : uc_state) : vec := fst (fst (fst (fst s))).
Definition uc_cineq (s : uc_state) : vec := snd (fst (fst (fst s))).
Definition uc_lgx (s : uc_state) : vec := snd (fst (fst s)).
Definition uc_ie (s : uc_state) : nat := snd (fst s).
Definition uc_ii (s : uc_state) : nat := snd s.
Definition eq_cs (cs : list constraint) := filter is_equality cs.
Definition ineq_cs (cs : list constraint) := filter (fun c => negb (is_equality c)) cs.

Lemma set_nth_length : forall l i v, length (set_nth l i v) = length l.
Proof. induction l as [|a l IH]; intros [|i] v; simpl; auto. Qed.

Lemma firstn_set_nth : forall l i v, (i < length l)%nat -> firstn (S i) (set_nth l i v) = firstn i l ++ [v].
Proof.
  induction l as [|a l IH]; intros i v H; simpl in H; [lia|].
  destruct i as [|i]; [reflexivity|].
  change (set_nth (a :: l) (S i) v) with (a :: set_nth l i v).
  change (firstn (S (S i)) (a :: set_nth l i v)) with (a :: firstn (S i) (set_nth l i v)).
  rewrite IH by lia. reflexivity.
Qed.

Lemma firstn_set_nth_lt : forall l i k v, (k <= i)%nat -> firstn k (set_nth l i v) = firstn k l.
Proof.
  induction l as [|a l IH]; intros i k v H; [destruct i; reflexivity|].
  destruct k as [|k]; [reflexivity|]. destruct i as [|i]; [lia|].
  simpl. rewrite IH by lia. reflexivity.
Qed.

Lemma uc_fold : forall x meq mineq cs ceq cineq lgx ie ii,
  (ie + length (eq_cs cs) = length ceq)%nat -> (ii + length (ineq_cs cs) = length cineq)%nat ->
  let s := fold_left (uc_step x meq mineq) cs (ceq, cineq, lgx, ie, ii) in
  uc_ceq s = firstn ie ceq ++ map (fun c => fst (cvgrad c x)) (eq_cs cs) /\
  uc_cineq s = firstn ii cineq ++ map (fun c => fst (cvgrad c x)) (ineq_cs cs) /\
  uc_ie s = (ie + length (eq_cs cs))%nat /\ uc_ii s = (ii + length (ineq_cs cs))%nat.
Proof.
  intros x meq mineq. induction cs as [|c cs IH]; intros ceq cineq lgx ie ii He Hi.
  - simpl in *. unfold uc_ceq, uc_cineq, uc_ie, uc_ii. simpl.
    rewrite !app_nil_r, !firstn_all2 by lia. repeat split; lia.
  - unfold eq_cs, ineq_cs in *. cbn [fold_left]. simpl in He, Hi. cbn [filter].
    assert (Hstep : uc_step x meq mineq (ceq, cineq, lgx, ie, ii) c =
                    if is_equality c
                    then (set_nth ceq ie (fst (cvgrad c x)), cineq, vadd lgx (vscale (vnth meq ie) (snd (cvgrad c x))), S ie, ii)
                    else (ceq, set_nth cineq ii (fst (cvgrad c x)), vadd lgx (vscale (vnth mineq ii) (snd (cvgrad c x))), ie, S ii))
      by reflexivity.
    rewrite Hstep. clear Hstep.
    destruct (is_equality c) eqn:E; cbn [negb] in *; simpl in He, Hi.
    + specialize (IH (set_nth ceq ie (fst (cvgrad c x))) cineq
                     (vadd lgx (vscale (vnth meq ie) (snd (cvgrad c x)))) (S ie) ii).
      rewrite set_nth_length in IH. destruct IH as (H1 & H2 & H3 & H4); try lia.
      split; [|split; [|split]].
      * etransitivity; [exact H1|]. rewrite firstn_set_nth by lia. rewrite <- app_assoc. reflexivity.
      * exact H2.
      * etransitivity; [exact H3|]. simpl. lia.
      * exact H4.
    + specialize (IH ceq (set_nth cineq ii (fst (cvgrad c x)))
                     (vadd lgx (vscale (vnth mineq ii) (snd (cvgrad c x)))) ie (S ii)).
      rewrite set_nth_length in IH. destruct IH as (H1 & H2 & H3 & H4); try lia.
      split; [|split; [|split]].
      * exact H1.
      * etransitivity; [exact H2|]. rewrite firstn_set_nth by lia. rewrite <- app_assoc. reflexivity.
      * exact H3.
      * etransitivity; [exact H4|]. simpl. lia.
Qed.

Theorem state_constraints : forall cs x gx meq mineq ceq0 cineq0,
  length ceq0 = length (eq_cs cs) -> length cineq0 = length (ineq_cs cs) ->
  let s := update_constraints cs x gx meq mineq ceq0 cineq0 in
  uc_ceq s = map (fun c => fst (cvgrad c x)) (eq_cs cs) /\
  uc_cineq s = map (fun c => fst (cvgrad c x)) (ineq_cs cs) /\
  uc_ie s = length ceq0 /\ uc_ii s = length cineq0.
Proof.
  intros cs x gx meq mineq ceq0 cineq0 He Hi. unfold update_constraints.
  destruct (uc_fold x meq mineq cs ceq0 cineq0 gx 0 0) as (H1 & H2 & H3 & H4); try lia.
  simpl in *. split; [exact H1 | split; [exact H2 | split]].
  - etransitivity; [exact H3 | lia].
  - etransitivity; [exact H4 | lia].
Qed.

(* the feasibility KKT residuals are exactly the worst equality / inequality violation *)
Lemma qabs_qmax0 : forall g, qabs (qmax g 0) == qmax g 0.
Proof. intros g. unfold qabs, qmax. qcase g 0; qcase 0 0; try lra; qcase 0 g; lra. Qed.

Theorem kkt_feasibility : forall eps ceq cineq, 0 <= eps ->
  (kkt2 ceq <= eps /\ kkt1 cineq <= eps <-> feasible_within eps ceq cineq).
Proof.
  intros eps ceq cineq He. unfold kkt1, kkt2, feasible_within.
  rewrite !linf_le_iff by exact He. rewrite Forall_map.
  split; intros [H1 H2]; split; auto; eapply Forall_impl; try exact H2; simpl; intros g Hg;
    pose proof (qabs_qmax0 g); lra.
Qed.

(* ================================================================================================ *)
(* the coefficient each branch adds to the gradient is the derivative (sub-gradient at the kink)    *)
(* of the value it adds, as a function of the constraint value                                      *)
(* ================================================================================================ *)
Ltac qcases :=
  repeat match goal with
         | |- context [Qle_bool ?a ?b] => qcase a b
         | |- context [qltb ?a ?b] =>
             let E := fresh "E" in destruct (qltb a b) eqn:E; [apply qltb_true in E | apply qltb_false in E]
         end.

(* equalities of the quadratic penalty / augmented Lagrangian: exact second-order expansion *)
Lemma term_square : forall k t s, k * (t + s) * (t + s) == k * t * t + (2 * k * t) * s + k * s * s.
Proof. intros. ring. Qed.

(* multiply an inequality between opaque terms by a non-negative factor *)
Lemma scale_le : forall k a b, 0 <= k -> a <= b -> k * a <= k * b.
Proof. intros k a b Hk H. nra. Qed.

(* inequalities: phi(t) = k max(0,t)^2 lies between its tangent and tangent + k s^2: differentiable, derivative
   2 k max(0,t), convex; monotone, so it composes with a convex constraint *)
Lemma hinge_square0 : forall t s ty, t + s <= ty ->
  qmax 0 t * qmax 0 t + (2 * qmax 0 t) * s <= qmax 0 ty * qmax 0 ty.
Proof.
  intros t s ty Hy. unfold qmax. qcases; try lra; destruct (Qlt_le_dec (t + s) 0); nra.
Qed.
Lemma term_hinge_square : forall k t s ty, 0 <= k -> t + s <= ty ->
  k * qmax 0 t * qmax 0 t + (2 * k * qmax 0 t) * s <= k * qmax 0 ty * qmax 0 ty.
Proof.
  intros k t s ty Hk Hy. pose proof (scale_le k _ _ Hk (hinge_square0 t s ty Hy)) as H.
  revert H. generalize (qmax 0 t) (qmax 0 ty). intros a b H. lra.
Qed.
Lemma hinge_square_upper0 : forall t s,
  qmax 0 (t + s) * qmax 0 (t + s) <= qmax 0 t * qmax 0 t + (2 * qmax 0 t) * s + s * s.
Proof.
  intros t s. unfold qmax. qcases; try lra; nra.
Qed.
Lemma term_hinge_square_upper : forall k t s, 0 <= k ->
  k * qmax 0 (t + s) * qmax 0 (t + s) <= k * qmax 0 t * qmax 0 t + (2 * k * qmax 0 t) * s + k * s * s.
Proof.
  intros k t s Hk. pose proof (scale_le k _ _ Hk (hinge_square_upper0 t s)) as H.
  revert H. generalize (qmax 0 t) (qmax 0 (t + s)). intros a b H. lra.
Qed.

(* linear penalty: |.| and max(0,.) are convex, the code's coefficient is a sub-gradient, and it is the derivative
   away from the kink *)
Lemma abs_subgradient0 : forall v s, qabs v + sgn v * s <= qabs (v + s).
Proof. intros v s. unfold qabs, sgn. qcases; lra. Qed.
Lemma term_abs_subgradient : forall k v s, 0 <= k -> k * qabs v + (k * sgn v) * s <= k * qabs (v + s).
Proof.
  intros k v s Hk. pose proof (scale_le k _ _ Hk (abs_subgradient0 v s)) as H.
  revert H. generalize (qabs v) (qabs (v + s)) (sgn v). intros a b c H. lra.
Qed.
Lemma abs_derivative0 : forall v s, qabs s < qabs v -> qabs (v + s) == qabs v + sgn v * s.
Proof. intros v s. unfold qabs, sgn. qcases; intro H; lra. Qed.
Lemma term_abs_derivative : forall k v s, qabs s < qabs v -> k * qabs (v + s) == k * qabs v + (k * sgn v) * s.
Proof. intros k v s H. rewrite (abs_derivative0 v s H). ring. Qed.
Lemma hinge_subgradient0 : forall v s vy, v + s <= vy -> qmax 0 v + pos v * s <= qmax 0 vy.
Proof. intros v s vy Hy. unfold qmax, pos. qcases; lra. Qed.
Lemma term_hinge_subgradient : forall k v s vy, 0 <= k -> v + s <= vy ->
  k * qmax 0 v + (k * pos v) * s <= k * qmax 0 vy.
Proof.
  intros k v s vy Hk Hy. pose proof (scale_le k _ _ Hk (hinge_subgradient0 v s vy Hy)) as H.
  revert H. generalize (qmax 0 v) (qmax 0 vy) (pos v). intros a b c H. lra.
Qed.
Lemma hinge_derivative0 : forall v s, qabs s < qabs v -> qmax 0 (v + s) == qmax 0 v + pos v * s.
Proof. intros v s. unfold qabs, qmax, pos. qcases; intro H; lra. Qed.
Lemma term_hinge_derivative : forall k v s, qabs s < qabs v -> k * qmax 0 (v + s) == k * qmax 0 v + (k * pos v) * s.
Proof. intros k v s H. rewrite (hinge_derivative0 v s H). ring. Qed.

(* ================================================================================================ *)
(* the gradient of every non-functional constraint kind is the derivative of its value:              *)
(* exact expansion c(x + d) = c(x) + grad c(x) . d + remainder(d), remainder quadratic in d          *)
(* ================================================================================================ *)
Lemma dot_vadd_r : forall u x d, length x = length d -> dot u (vadd x d) == dot u x + dot u d.
Proof.
  induction u as [|a u IH]; intros x d H; simpl; [ring|].
  destruct x as [|b x], d as [|c d]; simpl in H; try discriminate; simpl; [ring|].
  rewrite IH by lia. ring.
Qed.

Lemma dot_vadd_l : forall x d u, length x = length d -> dot (vadd x d) u == dot x u + dot d u.
Proof.
  induction x as [|b x IH]; intros d u H; destruct d as [|c d]; simpl in H; try discriminate; simpl; [ring|].
  destruct u as [|a u]; simpl; [ring|]. rewrite IH by lia. ring.
Qed.

Lemma dot_comm : forall u v, dot u v == dot v u.
Proof.
  induction u as [|a u IH]; intros v; destruct v as [|b v]; simpl; try ring. rewrite IH. ring.
Qed.

Lemma mv_vadd : forall P u x d, length x = length d ->
  dot u (mv P (vadd x d)) == dot u (mv P x) + dot u (mv P d).
Proof.
  induction P as [|row P IH]; intros u x d H; destruct u as [|a u]; simpl; try ring.
  rewrite (dot_vadd_r row x d H), (IH u x d H). ring.
Qed.

Lemma mv_length : forall P x, length (mv P x) = length P.
Proof. intros. unfold mv. apply map_length. Qed.

(* linear: affine *)
Lemma expand_linear : forall q r x d, length x = length d ->
  fst (lin_vgrad q r (vadd x d)) == fst (lin_vgrad q r x) + dot (snd (lin_vgrad q r x)) d.
Proof. intros q r x d H. unfold lin_vgrad. simpl. rewrite dot_vadd_r by exact H. ring. Qed.

(* Euclidean ball: remainder |d|^2 (hence convex) *)
Lemma expand_ball_aux : forall x o d, length o = length x -> length d = length x ->
  dot (vadd (vadd x d) (map (Qmult (-1)) o)) (vadd (vadd x d) (map (Qmult (-1)) o)) ==
  dot (vadd x (map (Qmult (-1)) o)) (vadd x (map (Qmult (-1)) o)) +
  dot (map (Qmult 2) (vadd x (map (Qmult (-1)) o))) d + dot d d.
Proof.
  induction x as [|a x IH]; intros o d Ho Hd; destruct o as [|b o], d as [|c d]; simpl in *; try discriminate; [ring|].
  rewrite IH by lia. ring.
Qed.
Lemma expand_ball : forall o r x d, length o = length x -> length d = length x ->
  fst (ball_vgrad o r (vadd x d)) == fst (ball_vgrad o r x) + dot (snd (ball_vgrad o r x)) d + dot d d.
Proof.
  intros o r x d Ho Hd. unfold ball_vgrad, vsub, vscale. simpl. rewrite expand_ball_aux by assumption. ring.
Qed.

Lemma dot_self_nonneg : forall d, 0 <= dot d d.
Proof. induction d as [|a d IH]; simpl; [lra | nra]. Qed.

(* quadratic: remainder 1/2 d.Pd, provided P is symmetric (the code's gradient is P x + q) *)
Definition sym_form (P : list vec) (n : nat) : Prop :=
  forall u v, length u = n -> length v = n -> dot u (mv P v) == dot v (mv P u).

Lemma expand_quadratic : forall P q r x d, sym_form P (length x) -> length d = length x -> length q = length P ->
  fst (quad_vgrad P q r (vadd x d)) ==
  fst (quad_vgrad P q r x) + dot (snd (quad_vgrad P q r x)) d + (1 # 2) * dot d (mv P d).
Proof.
  intros P q r x d Hs Hd Hq. unfold quad_vgrad. simpl.
  rewrite (dot_vadd_l x d) by lia. rewrite !mv_vadd by lia. rewrite (dot_vadd_r q x d) by lia.
  rewrite (dot_vadd_l (mv P x) q d) by (rewrite mv_length; lia).
  rewrite (Hs x d) by lia. rewrite (dot_comm (mv P x) d). ring.
Qed.

(* bounds / constants: value changes by +-d(k), gradient is the signed unit vector *)
Lemma expand_max : forall v k x d,
  fst (max_vgrad v k (vadd x d)) == fst (max_vgrad v k x) + 1 * vnth d k.
Proof. intros. unfold max_vgrad. simpl. rewrite vnth_vadd. ring. Qed.
Lemma expand_min : forall v k x d,
  fst (min_vgrad v k (vadd x d)) == fst (min_vgrad v k x) + (-1) * vnth d k.
Proof. intros. unfold min_vgrad. simpl. rewrite vnth_vadd. ring. Qed.

Lemma vnth_unit_vec : forall n k s j,
  vnth (unit_vec n k s) j = if (j <? n)%nat && (j =? k)%nat then s else 0.
Proof.
  intros n k s j. unfold vnth, unit_vec. set (f := fun i => if (i =? k)%nat then s else 0).
  destruct (Nat.ltb_spec j n) as [H | H]; cbn [andb].
  - rewrite nth_indep with (d' := f 0%nat) by (rewrite map_length, seq_length; lia).
    rewrite map_nth. rewrite seq_nth by lia. reflexivity.
  - rewrite nth_overflow by (rewrite map_length, seq_length; lia). reflexivity.
Qed.

(* the same statements per constraint kind of the variant *)
Definition remainder (c : constraint) (d : vec) : Q :=
  match c with
  | CBallEq _ _ | CBallIneq _ _ => dot d d
  | CQuadEq P _ _ | CQuadIneq P _ _ => (1 # 2) * dot d (mv P d)
  | _ => 0
  end.
Definition well_formed (c : constraint) (n : nat) : Prop :=
  match c with
  | CConstant _ k | CMinimum _ k | CMaximum _ k => (k < n)%nat
  | CBallEq o _ | CBallIneq o _ => length o = n
  | CLinEq q _ | CLinIneq q _ => length q = n
  | CQuadEq P q _ | CQuadIneq P q _ => sym_form P n /\ length q = length P
  | CFunEq _ | CFunIneq _ => False
  end.
(* grad . d, with the unit-vector gradients of the bound kinds read component-wise *)
Definition directional (c : constraint) (x d : vec) : Q :=
  match c with
  | CConstant _ k | CMaximum _ k => vnth d k
  | CMinimum _ k => - vnth d k
  | _ => dot (snd (cvgrad c x)) d
  end.

Theorem grad_is_derivative : forall c x d, well_formed c (length x) -> length d = length x ->
  fst (cvgrad c (vadd x d)) == fst (cvgrad c x) + directional c x d + remainder c d.
Proof.
  intros c x d Hw Hd. destruct c; simpl in Hw; unfold directional, remainder; simpl cvgrad.
  - rewrite expand_max. ring.
  - rewrite expand_min. ring.
  - rewrite expand_max. ring.
  - rewrite expand_ball by lia. reflexivity.
  - rewrite expand_ball by lia. reflexivity.
  - rewrite expand_linear by lia. ring.
  - rewrite expand_linear by lia. ring.
  - destruct Hw as [Hs Hq]. rewrite expand_quadratic by (auto; lia). reflexivity.
  - destruct Hw as [Hs Hq]. rewrite expand_quadratic by (auto; lia). reflexivity.
  - contradiction.
  - contradiction.
Qed.

(* ... and the bound kinds' gradients are the signed unit vectors *)
Theorem bound_gradients : forall v k x j,
  vnth (snd (cvgrad (CConstant v k) x)) j = (if (j <? length x)%nat && (j =? k)%nat then 1 else 0) /\
  vnth (snd (cvgrad (CMaximum v k) x)) j = (if (j <? length x)%nat && (j =? k)%nat then 1 else 0) /\
  vnth (snd (cvgrad (CMinimum v k) x)) j = (if (j <? length x)%nat && (j =? k)%nat then -1 else 0).
Proof. intros. simpl. repeat split; apply vnth_unit_vec. Qed.

(* kinds classified as equalities / linear equalities by the translated predicates *)
Lemma is_equality_spec : forall c,
  is_equality c = match c with
                  | CConstant _ _ | CBallEq _ _ | CLinEq _ _ | CQuadEq _ _ _ | CFunEq _ => true
                  | _ => false
                  end.
Proof. intros c. destruct c; reflexivity. Qed.
Lemma is_linear_equality_spec : forall c,
  is_linear_equality c = match c with CConstant _ _ | CLinEq _ _ => true | _ => false end.
Proof. intros c. destruct c; reflexivity. Qed.

(* ================================================================================================ *)
(* the convex flag: convex objective, convex inequalities, affine equalities => sub-gradient         *)
(* inequality P(y) >= P(x) + G(x).(y - x) for the three penalty objects                              *)
(* ================================================================================================ *)
(* n-dimensional dot product read component-wise (no length side conditions) *)
Definition dotn (n : nat) (u d : vec) : Q := qsum (map (fun j => vnth u j * vnth d j) (seq 0 n)).

Lemma dotn_step : forall n u v w k d,
  (forall j, vnth u j == vnth v j + k * vnth w j) -> dotn n u d == dotn n v d + k * dotn n w d.
Proof.
  intros n u v w k d H. unfold dotn. generalize (seq 0 n). induction l as [|j l IH]; simpl; [ring|].
  rewrite H, IH. ring.
Qed.

Lemma fold_acc_dot : forall (A : Type) (step : acc -> A -> acc) (tg : A -> Q) (gr : A -> vec),
  (forall a e j, vnth (snd (step a e)) j == vnth (snd a) j + tg e * vnth (gr e) j) ->
  forall n d es a,
    dotn n (snd (fold_left step es a)) d == dotn n (snd a) d + qsum (map (fun e => tg e * dotn n (gr e) d) es).
Proof.
  intros A step tg gr Hg n d. induction es as [|e es IH]; intros a; simpl; [ring|].
  rewrite IH. rewrite (dotn_step n _ _ _ _ d (Hg a e)). ring.
Qed.

Lemma qsum_Forall2_le : forall (A B : Type) (R : A -> B -> Prop) (F : A -> Q) (G : B -> Q),
  (forall a b, R a b -> F a <= G b) -> forall la lb, Forall2 R la lb -> qsum (map F la) <= qsum (map G lb).
Proof.
  intros A B R F G H la lb HF. induction HF as [|a b la lb Hab _ IH]; simpl; [lra|].
  pose proof (H a b Hab). lra.
Qed.

Lemma qsum_plus : forall (A : Type) (F G : A -> Q) l,
  qsum (map (fun a => F a + G a) l) == qsum (map F l) + qsum (map G l).
Proof. intros A F G. induction l as [|a l IH]; simpl; [ring | rewrite IH; ring]. Qed.

Lemma qabs_compat : forall a b, a == b -> qabs a == qabs b.
Proof. intros a b H. unfold qabs. qcases; lra. Qed.
Lemma qmax0_mono : forall a b, a <= b -> qmax 0 a <= qmax 0 b.
Proof. intros a b H. unfold qmax. qcases; lra. Qed.

(* ex, ey: the same constraint evaluated at x and at y = x + d; equalities are affine, inequalities convex *)
Definition along (n : nat) (d : vec) (ex ey : cev) : Prop :=
  ce_eq ey = ce_eq ex /\
  (if ce_eq ex then ce_val ey == ce_val ex + dotn n (ce_grad ex) d
   else ce_val ex + dotn n (ce_grad ex) d <= ce_val ey).

Lemma lin_term_convex : forall rho n d ex ey, 0 <= rho -> along n d ex ey ->
  lin_tv rho ex + lin_tg rho ex * dotn n (ce_grad ex) d <= lin_tv rho ey.
Proof.
  intros rho n d ex ey Hr [He Hv]. unfold lin_tv, lin_tg. rewrite He. destruct (ce_eq ex).
  - rewrite (qabs_compat _ _ Hv). apply term_abs_subgradient. exact Hr.
  - apply term_hinge_subgradient; assumption.
Qed.

Lemma quad_term_convex : forall rho n d ex ey, 0 <= rho -> along n d ex ey ->
  quad_tv rho ex + quad_tg rho ex * dotn n (ce_grad ex) d <= quad_tv rho ey.
Proof.
  intros rho n d ex ey Hr [He Hv]. unfold quad_tv, quad_tg. rewrite He. destruct (ce_eq ex).
  - rewrite Hv. set (s := dotn n (ce_grad ex) d). set (v := ce_val ex).
    assert (0 <= rho * (s * s)) by nra. nra.
  - pose proof (term_hinge_square rho (ce_val ex) (dotn n (ce_grad ex) d) (ce_val ey) Hr Hv) as H.
    revert H. generalize (qmax 0 (ce_val ex)) (qmax 0 (ce_val ey)) (dotn n (ce_grad ex) d). intros a b c H. lra.
Qed.

Theorem convex_linear : forall rho n d fx fy esx esy,
  0 <= rho -> fst fx + dotn n (snd fx) d <= fst fy -> Forall2 (along n d) esx esy ->
  fst (linear_penalty rho fx esx) + dotn n (snd (linear_penalty rho fx esx)) d <= fst (linear_penalty rho fy esy).
Proof.
  intros rho n d fx fy esx esy Hr Hf Ha. unfold linear_penalty.
  destruct (fold_acc cev (lin_step rho) (lin_tv rho) (lin_tg rho) ce_grad
                     (lin_step_value rho) (lin_step_grad rho) esx fx) as [Xv _].
  destruct (fold_acc cev (lin_step rho) (lin_tv rho) (lin_tg rho) ce_grad
                     (lin_step_value rho) (lin_step_grad rho) esy fy) as [Yv _].
  rewrite Xv, Yv, (fold_acc_dot cev (lin_step rho) (lin_tg rho) ce_grad (lin_step_grad rho)).
  pose proof (qsum_Forall2_le cev cev (along n d)
                (fun e => lin_tv rho e + lin_tg rho e * dotn n (ce_grad e) d) (lin_tv rho)
                (fun a b H => lin_term_convex rho n d a b Hr H) esx esy Ha) as Hs.
  rewrite qsum_plus in Hs. lra.
Qed.

Theorem convex_quadratic : forall rho n d fx fy esx esy,
  0 <= rho -> fst fx + dotn n (snd fx) d <= fst fy -> Forall2 (along n d) esx esy ->
  fst (quadratic_penalty rho fx esx) + dotn n (snd (quadratic_penalty rho fx esx)) d <=
  fst (quadratic_penalty rho fy esy).
Proof.
  intros rho n d fx fy esx esy Hr Hf Ha. unfold quadratic_penalty.
  destruct (fold_acc cev (quad_step rho) (quad_tv rho) (quad_tg rho) ce_grad
                     (quad_step_value rho) (quad_step_grad rho) esx fx) as [Xv _].
  destruct (fold_acc cev (quad_step rho) (quad_tv rho) (quad_tg rho) ce_grad
                     (quad_step_value rho) (quad_step_grad rho) esy fy) as [Yv _].
  rewrite Xv, Yv, (fold_acc_dot cev (quad_step rho) (quad_tg rho) ce_grad (quad_step_grad rho)).
  pose proof (qsum_Forall2_le cev cev (along n d)
                (fun e => quad_tv rho e + quad_tg rho e * dotn n (ce_grad e) d) (quad_tv rho)
                (fun a b H => quad_term_convex rho n d a b Hr H) esx esy Ha) as Hs.
  rewrite qsum_plus in Hs. lra.
Qed.

(* augmented Lagrangian: the same multipliers are paired with the same constraints at x and at y *)
Definition along_p (rho : Q) (n : nat) (d : vec) (px py : cev * Q) : Prop :=
  along n d (fst px) (fst py) /\ snd py = snd px.

Lemma pair_mults_along : forall rho n d esx esy, Forall2 (along n d) esx esy ->
  forall ls ms, Forall2 (along_p rho n d) (pair_mults esx ls ms) (pair_mults esy ls ms).
Proof.
  intros rho n d esx esy H. induction H as [|ex ey esx esy Hxy _ IH]; intros ls ms; simpl; [constructor|].
  destruct Hxy as [He Hv]. rewrite He. destruct (ce_eq ex) eqn:E; constructor; try apply IH;
    (split; [split; [simpl; rewrite E; exact He | simpl; rewrite E; exact Hv] | reflexivity]).
Qed.

Lemma al_term_convex : forall rho n d px py, 0 < rho -> along_p rho n d px py ->
  al_tv rho px + al_tg rho px * dotn n (ce_grad (fst px)) d <= al_tv rho py.
Proof.
  intros rho n d px py Hr [[He Hv] Hm]. unfold al_tv, al_tg, shifted. rewrite He, Hm.
  set (s := dotn n (ce_grad (fst px)) d) in *. set (m := snd px / rho).
  destruct (ce_eq (fst px)).
  - rewrite Hv. set (v := ce_val (fst px)). assert (0 <= rho * (s * s)) by nra. nra.
  - assert (Hy : (ce_val (fst px) + m) + s <= ce_val (fst py) + m) by lra.
    assert (Hk : 0 <= (1 # 2) * rho) by lra.
    pose proof (term_hinge_square ((1 # 2) * rho) _ s _ Hk Hy) as H.
    revert H. generalize (qmax 0 (ce_val (fst px) + m)) (qmax 0 (ce_val (fst py) + m)). intros a b H. lra.
Qed.

Theorem convex_augmented : forall rho lambda miu n d fx fy esx esy,
  0 < rho -> fst fx + dotn n (snd fx) d <= fst fy -> Forall2 (along n d) esx esy ->
  fst (augmented_lagrangian rho lambda miu fx esx) + dotn n (snd (augmented_lagrangian rho lambda miu fx esx)) d <=
  fst (augmented_lagrangian rho lambda miu fy esy).
Proof.
  intros rho lambda miu n d fx fy esx esy Hr Hf Ha. unfold augmented_lagrangian. rewrite !al_fold_pairs.
  destruct (fold_acc (cev * Q) (al_pstep rho) (al_tv rho) (al_tg rho) (fun p => ce_grad (fst p))
                     (al_pstep_value rho) (al_pstep_grad rho) (pair_mults esx lambda miu) fx) as [Xv _].
  destruct (fold_acc (cev * Q) (al_pstep rho) (al_tv rho) (al_tg rho) (fun p => ce_grad (fst p))
                     (al_pstep_value rho) (al_pstep_grad rho) (pair_mults esy lambda miu) fy) as [Yv _].
  rewrite Xv, Yv, (fold_acc_dot (cev * Q) (al_pstep rho) (al_tg rho) (fun p => ce_grad (fst p)) (al_pstep_grad rho)).
  pose proof (qsum_Forall2_le (cev * Q) (cev * Q) (along_p rho n d)
                (fun p => al_tv rho p + al_tg rho p * dotn n (ce_grad (fst p)) d) (al_tv rho)
                (fun a b H => al_term_convex rho n d a b Hr H) _ _ (pair_mults_along rho n d esx esy Ha lambda miu)) as Hs.
  rewrite qsum_plus in Hs. lra.
Qed.

(* what the flag of the penalty objects requires of every constraint (logic of ::convex(function)) *)
Lemma pen_convex_spec : forall fconvex cos, pen_convex fconvex cos = true ->
  fconvex = true /\
  Forall (fun co => ct_convex co = true /\ (is_equality (fst co) = true -> is_linear_equality (fst co) = true)) cos.
Proof.
  intros fconvex cos H. unfold pen_convex in H. apply andb_true_iff in H. destruct H as [Hf Hc]. split; [exact Hf|].
  apply Forall_forall. intros co Hin. rewrite forallb_forall in Hc. specialize (Hc co Hin).
  unfold src_pen_convex_ct in Hc. apply andb_true_iff in Hc. destruct Hc as [H1 H2]. split; [exact H1|].
  intro He. rewrite He in H2. simpl in H2. exact H2.
Qed.
