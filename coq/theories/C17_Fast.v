(* C17 (extension) -- the fast acceptor C17_Fast_Defs.stepN refines the proved protocol model C17_Defs.step.
   abs : poolN -> pool maps binary ids to unary ones, positional lists to functions, newest-first histories to
   oldest-first ones and forgets the tries.  On every state satisfying the representation invariant wfN (the
   tries hold exactly the elements of the lists)
        step (abs s) (abs_e e) = option_map abs (stepN s e)              (sim_step: a bisimulation through abs)
   wfN is preserved, the initial states correspond and wf_configN implies wf_config; hence every trace accepted
   by runN from initN is an execution of the proved model and every C17 theorem holds of the state reached. *)
From Coq Require Import List Arith Bool ZArith NArith PArith Lia Permutation MSets.MSetPositive FunctionalExtensionality.
From LNGen Require Import Src_parallel Src_pool.
From LN Require Import C17_Defs C17_Proofs C17_Statements C17_Fast_Defs.
Import ListNotations.

(* ---- the abstraction ------------------------------------------------------------------------------ *)
Definition abs_w (x : wstateN) : wstate :=
  match x with WIdleN => WIdle | WSleepingN => WSleeping | WRunningN t => WRunning (tn t) | WExitedN => WExited end.
Definition abs_call (c : callN) : call :=
  match c with CEnqueueN t => CEnqueue (tn t) | CMapN ts r => CMap (map tn ts) r | CDestroyN => CDestroy end.
Definition abs_stage (st : stageN) : stage :=
  match st with
  | SReadyN => SReady
  | SNotifyOneN => SNotifyOne
  | SNotifyAllN ts r => SNotifyAll (map tn ts) r
  | SGetN rem all r => SGet (map tn rem) (map tn all) r
  | SWaitN rem all r exn => SWait (map tn rem) (map tn all) r (option_map tn exn)
  | SNotifyStopN => SNotifyStop
  | SJoinN => SJoin
  end.
Definition abs_res (r : mapresN) : mapres :=
  {| r_tasks := map tn (rn_tasks r); r_raise := rn_raise r; r_inline := rn_inline r; r_exn := option_map tn (rn_exn r) |}.
Definition abs_sub (x : subN) : sub :=
  {| stg := abs_stage (stgN x); todo := map abs_call (todoN x); results := map abs_res (resultsN x) |}.
Definition abs_pair (x : N * N) : nat * nat := (tn (fst x), tn (snd x)).
Definition abs_thr (thr : N -> bool) : tid -> bool := fun t => thr (N.of_nat t).
Definition abs_progs (progs : list (list callN)) : list (list call) := map (map abs_call) progs.

Definition abs (s : poolN) : pool :=
  {| nw := length (f_workers s); ns := length (f_subs s);
     throws := abs_thr (f_throws s);
     queue := map tn (f_queue s); stop := f_stop s;
     workers := fun w => abs_w (nth w (f_workers s) WIdleN);
     subs := fun i => abs_sub (nth i (f_subs s) dsubN);
     ran := map abs_pair (rev (f_ran s)); inline := map abs_pair (rev (f_inline s));
     finished := map tn (rev (f_finished s)); dropped := map tn (f_dropped s) |}.

Definition abs_e (e : eventN) : event :=
  match e with
  | EPushN s => EPush (tn s)
  | ENotifyN s w => ENotify (tn s) (option_map tn w)
  | EGetN s => EGet (tn s)
  | EWaitN s => EWait (tn s)
  | ECheckN w => ECheck (tn w)
  | EFinishN w => EFinish (tn w)
  | ESpuriousN w => ESpurious (tn w)
  | EStopN s => EStop (tn s)
  | ENotifyStopN s => ENotifyStop (tn s)
  | EJoinN s => EJoin (tn s)
  end.

(* representation invariant: the tries hold exactly the elements of the lists *)
Definition wfN (s : poolN) : Prop :=
  (forall t, PositiveSet.mem (key t) (f_finset s) = true <-> In t (f_finished s)) /\
  (forall t, PositiveSet.mem (key t) (f_dropset s) = true <-> In t (f_dropped s)).

(* ---- identifiers ------------------------------------------------------------------------------------ *)
Lemma tn_inj a b : tn a = tn b -> a = b.
Proof. apply N2Nat.inj. Qed.

Lemma key_inj a b : key a = key b -> a = b.
Proof.
  unfold key. intros H. apply N.succ_inj. rewrite <- !N.succ_pos_spec. rewrite H. reflexivity.
Qed.

Lemma of_tn t : N.of_nat (tn t) = t.
Proof. apply N2Nat.id. Qed.

Lemma tn_of n : tn (N.of_nat n) = n.
Proof. apply Nat2N.id. Qed.

Lemma in_map_tn t l : In (tn t) (map tn l) <-> In t l.
Proof.
  rewrite in_map_iff. split.
  - intros [x [Hx Hin]]. apply tn_inj in Hx. subst. exact Hin.
  - intros H. exists t. auto.
Qed.

Lemma bool_iff_eq (a b : bool) : (a = true <-> b = true) -> a = b.
Proof. destruct a, b; intros [H1 H2]; try reflexivity; [symmetry; apply H1 | apply H2]; reflexivity. Qed.

Lemma mem_tn t l : mem (tn t) (map tn l) = true <-> In t l.
Proof. rewrite mem_spec. apply in_map_tn. Qed.

(* ---- positional lists ------------------------------------------------------------------------------ *)
Lemma set_nth_length {A} (l : list A) i x : length (set_nth l i x) = length l.
Proof. revert i. induction l as [|a l IH]; intros [|i]; cbn; auto. Qed.

Lemma nth_set_nth {A} (l : list A) i j x d :
  i < length l -> nth j (set_nth l i x) d = if Nat.eqb j i then x else nth j l d.
Proof.
  revert i j. induction l as [|a l IH]; intros i j Hi; cbn [length] in Hi; [lia|].
  destruct i as [|i], j as [|j]; cbn; try reflexivity. apply IH. lia.
Qed.

Lemma abs_workers_upd ws i v : i < length ws ->
  (fun w => abs_w (nth w (set_nth ws i v) WIdleN)) = upd (fun w => abs_w (nth w ws WIdleN)) i (abs_w v).
Proof.
  intros Hi. apply functional_extensionality. intros w. unfold upd. rewrite nth_set_nth by exact Hi.
  destruct (Nat.eqb w i); reflexivity.
Qed.

Lemma abs_subs_upd ss i y X : i < length ss -> X = abs_sub y ->
  (fun j => abs_sub (nth j (set_nth ss i y) dsubN)) = upd (fun j => abs_sub (nth j ss dsubN)) i X.
Proof.
  intros Hi ->. apply functional_extensionality. intros j. unfold upd. rewrite nth_set_nth by exact Hi.
  destruct (Nat.eqb j i); reflexivity.
Qed.

Lemma abs_w_wake x : abs_w (wakeN x) = if is_sleeping (abs_w x) then WIdle else abs_w x.
Proof. destruct x; reflexivity. Qed.

Lemma nth_map_wake ws w : nth w (map wakeN ws) WIdleN = wakeN (nth w ws WIdleN).
Proof. change WIdleN with (wakeN WIdleN) at 1. apply map_nth. Qed.

Lemma abs_workers_wake ws :
  (fun w => abs_w (nth w (map wakeN ws) WIdleN)) = wake_all (fun w => abs_w (nth w ws WIdleN)).
Proof.
  apply functional_extensionality. intros w. unfold wake_all. rewrite nth_map_wake. apply abs_w_wake.
Qed.

Lemma is_sleeping_abs x : is_sleeping (abs_w x) = is_sleepingN x.
Proof. destruct x; reflexivity. Qed.

Lemma is_exited_abs x : is_exited (abs_w x) = is_exitedN x.
Proof. destruct x; reflexivity. Qed.

Lemma sub_done_abs x : sub_done (abs_sub x) = sub_doneN x.
Proof. unfold sub_done, sub_doneN. cbn [abs_sub stg todo]. destruct (stgN x), (todoN x); reflexivity. Qed.

Lemma any_sleeping_abs p : any_sleeping (abs p) = any_sleepingN p.
Proof.
  unfold any_sleeping, any_sleepingN. cbn [abs nw workers]. f_equal.
  apply functional_extensionality. intros w. apply is_sleeping_abs.
Qed.

Lemma all_exited_abs p : all_exited (abs p) = all_exitedN p.
Proof.
  unfold all_exited, all_exitedN. cbn [abs nw workers]. f_equal.
  apply functional_extensionality. intros w. apply is_exited_abs.
Qed.

Lemma others_done_abs p s : others_done (abs p) s = others_doneN p s.
Proof.
  unfold others_done, others_doneN. cbn [abs ns subs]. f_equal.
  apply functional_extensionality. intros s'. rewrite sub_done_abs. reflexivity.
Qed.

Lemma final_abs p : final (abs p) = finalN p.
Proof.
  unfold final, finalN. cbn [abs ns subs]. f_equal.
  apply functional_extensionality. intros s'. apply sub_done_abs.
Qed.

(* ---- throwing tasks, fast path ---------------------------------------------------------------------- *)
Lemma abs_thr_tn thr t : abs_thr thr (tn t) = thr t.
Proof. unfold abs_thr. rewrite of_tn. reflexivity. Qed.

Lemma find_abs thr ts : find (abs_thr thr) (map tn ts) = option_map tn (find thr ts).
Proof.
  induction ts as [|t r IH]; [reflexivity|]. cbn [map find]. rewrite abs_thr_tn. destruct (thr t); [reflexivity | exact IH].
Qed.

Lemma inline_prefix_abs thr ts : inline_prefix (abs_thr thr) (map tn ts) = map tn (inline_prefixN thr ts).
Proof.
  induction ts as [|t r IH]; [reflexivity|]. cbn [map inline_prefix inline_prefixN]. rewrite abs_thr_tn.
  destruct (thr t); [reflexivity|]. cbn [map]. f_equal. exact IH.
Qed.

Lemma map_inline_abs p ts : map_inline (abs p) (map tn ts) = map_inlineN p ts.
Proof. unfold map_inline, map_inlineN. cbn [abs nw]. rewrite map_length. reflexivity. Qed.

(* ---- the tries --------------------------------------------------------------------------------------- *)
Lemma mem_add t u s : PositiveSet.mem (key t) (PositiveSet.add (key u) s) = true <-> t = u \/ PositiveSet.mem (key t) s = true.
Proof.
  rewrite !PositiveSet.mem_spec, PositiveSet.add_spec. split.
  - intros [H|H]; [left; apply key_inj; exact H | right; exact H].
  - intros [->|H]; [left; reflexivity | right; exact H].
Qed.

Lemma mem_add_all t l s : PositiveSet.mem (key t) (add_all l s) = true <-> In t l \/ PositiveSet.mem (key t) s = true.
Proof.
  unfold add_all. revert s. induction l as [|u l IH]; intros s; cbn [fold_left In].
  - tauto.
  - rewrite IH, mem_add. intuition auto.
Qed.

Lemma complete_abs p t : wfN p -> complete (abs p) (tn t) = completeN p t.
Proof.
  intros [Wf Wd]. unfold complete, completeN. cbn [abs finished dropped]. f_equal; apply bool_iff_eq.
  - rewrite mem_tn, <- in_rev. symmetry. apply Wf.
  - rewrite mem_tn. symmetry. apply Wd.
Qed.

Lemma fails_abs p t : wfN p -> fails (abs p) (tn t) = failsN p t.
Proof.
  intros [_ Wd]. unfold fails, failsN. cbn [abs throws dropped]. rewrite abs_thr_tn. f_equal. apply bool_iff_eq.
  rewrite mem_tn. symmetry. apply Wd.
Qed.

(* ---- set_sub ------------------------------------------------------------------------------------------- *)
Lemma abs_set_sub p i y X : i < length (f_subs p) -> X = abs_sub y -> abs (set_subN p i y) = set_sub (abs p) i X.
Proof.
  intros Hi HX. unfold abs, set_subN, set_sub.
  cbn [f_throws f_queue f_stop f_workers f_subs f_ran f_inline f_finished f_finset f_dropped f_dropset
       nw ns throws queue stop workers subs ran inline finished dropped].
  rewrite set_nth_length. f_equal. apply abs_subs_upd; assumption.
Qed.

(* ---- the simulation ----------------------------------------------------------------------------------- *)
Ltac proj_abs :=
  cbn [abs nw ns throws queue stop workers subs ran inline finished dropped
       abs_sub stg todo results].
Ltac proj_f :=
  cbn [f_throws f_queue f_stop f_workers f_subs f_ran f_inline f_finished f_finset f_dropped f_dropset
       stgN todoN resultsN rn_tasks rn_raise rn_inline rn_exn].

Ltac guard_tac :=
  match goal with
  | |- context [negb (?a <? ?b)] =>
      let Hg := fresh "Hg" in destruct (a <? b) eqn:Hg; cbn [negb]; [apply Nat.ltb_lt in Hg | reflexivity]
  end.

(* equality of the abstraction of an explicit fast record with an explicit record of the unary model *)
Ltac abs_record :=
  cbn [option_map]; f_equal; unfold abs; proj_f;
  cbn [nw ns throws queue stop workers subs ran inline finished dropped];
  f_equal;
  try reflexivity;
  try (rewrite ?set_nth_length, ?map_length; reflexivity);
  try (rewrite ?map_app; reflexivity);
  try (symmetry; apply abs_subs_upd; [assumption | reflexivity]);
  try (symmetry; apply abs_workers_upd; assumption);
  try (symmetry; apply abs_workers_wake).

Ltac sub_record :=
  cbn [option_map]; f_equal; symmetry; apply abs_set_sub; [assumption | reflexivity].

Lemma sim_step p e : wfN p -> step (abs p) (abs_e e) = option_map abs (stepN p e).
Proof.
  intros W. destruct e as [s0|s0 w|s0|s0|w0|w0|w0|s0|s0|s0]; cbn [abs_e]; unfold step, stepN; cbv zeta; proj_abs.
  - (* EPush *)
    guard_tac. set (x := nth (tn s0) (f_subs p) dsubN).
    destruct (stgN x) eqn:Es; cbn [abs_stage]; try reflexivity.
    destruct (todoN x) as [|c rest] eqn:Et; cbn [map]; [reflexivity|].
    destruct c as [t|ts raise|]; cbn [abs_call]; [| |reflexivity].
    + abs_record.
    + rewrite map_inline_abs. destruct (map_inlineN p ts).
      * cbn [option_map]; f_equal; unfold abs; proj_f;
          cbn [nw ns throws queue stop workers subs ran inline finished dropped].
        rewrite set_nth_length, !rev_append_rev, !rev_app_distr, !rev_involutive, !map_app.
        rewrite inline_prefix_abs, find_abs. f_equal.
        -- symmetry. apply abs_subs_upd; [assumption|]. unfold abs_sub; cbn [stgN todoN resultsN abs_stage].
           rewrite map_app. reflexivity.
        -- f_equal. rewrite !map_map. reflexivity.
      * abs_record.
  - (* ENotify *)
    guard_tac. set (x := nth (tn s0) (f_subs p) dsubN).
    destruct (stgN x) eqn:Es; cbn [abs_stage]; try reflexivity.
    + destruct w as [w0|]; cbn [option_map].
      * rewrite is_sleeping_abs.
        destruct (tn w0 <? length (f_workers p)) eqn:Hw; cbn [andb]; [|reflexivity]. apply Nat.ltb_lt in Hw.
        destruct (is_sleepingN (nth (tn w0) (f_workers p) WIdleN)); [|reflexivity].
        abs_record.
      * rewrite any_sleeping_abs. destruct (any_sleepingN p); [reflexivity|]. sub_record.
    + destruct w as [w0|]; cbn [option_map]; [reflexivity|]. abs_record.
  - (* EGet *)
    guard_tac. set (x := nth (tn s0) (f_subs p) dsubN).
    destruct (stgN x) eqn:Es; cbn [abs_stage]; try reflexivity.
    destruct rem as [|t rem]; cbn [map].
    + sub_record.
    + rewrite complete_abs, fails_abs by exact W. destruct (completeN p t); [|reflexivity].
      destruct (raise && failsN p t); sub_record.
  - (* EWait *)
    guard_tac. set (x := nth (tn s0) (f_subs p) dsubN).
    destruct (stgN x) eqn:Es; cbn [abs_stage]; try reflexivity.
    destruct rem as [|t rem]; cbn [map].
    + cbn [option_map]; f_equal; symmetry; apply abs_set_sub; [assumption|].
      unfold abs_sub; cbn [stgN todoN resultsN abs_stage]. rewrite map_app. reflexivity.
    + rewrite complete_abs by exact W. destruct (completeN p t); [|reflexivity]. sub_record.
  - (* ECheck *)
    guard_tac. destruct (nth (tn w0) (f_workers p) WIdleN) eqn:Ew; cbn [abs_w]; try reflexivity.
    (* the translated tests of the worker loop: wait predicate `m_stop || !m_tasks.empty()`, exit test `m_stop` *)
    unfold src_wait_pred, src_exit_test.
    destruct (f_stop p) eqn:Est; cbn [orb negb].
    + cbn [option_map]; f_equal; unfold abs; proj_f;
        cbn [nw ns throws queue stop workers subs ran inline finished dropped].
      rewrite set_nth_length, map_length, map_app. f_equal.
      rewrite abs_workers_upd by (rewrite map_length; exact Hg). rewrite abs_workers_wake. reflexivity.
    + destruct (f_queue p) as [|t q] eqn:Eq; cbn [map negb].
      * abs_record.
      * cbn [option_map]; f_equal; unfold abs; proj_f;
          cbn [nw ns throws queue stop workers subs ran inline finished dropped].
        rewrite set_nth_length. cbn [rev]. rewrite map_app. f_equal.
        symmetry; apply abs_workers_upd; assumption.
  - (* EFinish *)
    guard_tac. destruct (nth (tn w0) (f_workers p) WIdleN) eqn:Ew; cbn [abs_w]; try reflexivity.
    cbn [option_map]; f_equal; unfold abs; proj_f;
      cbn [nw ns throws queue stop workers subs ran inline finished dropped].
    rewrite set_nth_length. cbn [rev]. rewrite map_app. f_equal.
    symmetry; apply abs_workers_upd; assumption.
  - (* ESpurious *)
    guard_tac. destruct (nth (tn w0) (f_workers p) WIdleN) eqn:Ew; cbn [abs_w]; try reflexivity.
    abs_record.
  - (* EStop *)
    guard_tac. set (x := nth (tn s0) (f_subs p) dsubN).
    destruct (stgN x) eqn:Es; cbn [abs_stage]; try reflexivity.
    destruct (todoN x) as [|c rest] eqn:Et; cbn [map]; [reflexivity|].
    destruct c as [t|ts raise|]; cbn [abs_call]; try reflexivity.
    rewrite others_done_abs. destruct (others_doneN p (tn s0) && negb (f_stop p)); [|reflexivity].
    abs_record.
  - (* ENotifyStop *)
    guard_tac. set (x := nth (tn s0) (f_subs p) dsubN).
    destruct (stgN x) eqn:Es; cbn [abs_stage]; try reflexivity.
    abs_record.
  - (* EJoin *)
    guard_tac. set (x := nth (tn s0) (f_subs p) dsubN).
    destruct (stgN x) eqn:Es; cbn [abs_stage]; try reflexivity.
    rewrite all_exited_abs. destruct (all_exitedN p); [|reflexivity]. sub_record.
Qed.

(* ---- the representation invariant is preserved ----------------------------------------------------------- *)
Ltac inv_stepN H :=
  unfold stepN, set_subN in H; cbv zeta in H;
  repeat match type of H with
  | (if ?c then _ else _) = Some _ => let E := fresh "E" in destruct c eqn:E; try discriminate H
  | match ?x with _ => _ end = Some _ => let E := fresh "E" in destruct x eqn:E; try discriminate H
  end;
  try (injection H as H; subst).

Lemma wfN_step p e q : wfN p -> stepN p e = Some q -> wfN q.
Proof.
  intros [Wf Wd] H. destruct e; inv_stepN H; unfold wfN; proj_f; try (split; assumption).
  - (* inline map *)
    split; [|exact Wd]. intros u. rewrite mem_add_all, rev_append_rev, in_app_iff, <- in_rev, Wf. reflexivity.
  - (* worker exit drops the queue *)
    split; [exact Wf|]. intros u. rewrite mem_add_all, in_app_iff, Wd. tauto.
  - (* finish *)
    split; [|exact Wd]. intros u. rewrite mem_add. cbn [In]. rewrite Wf. intuition auto.
Qed.

Lemma stepN_throws p e q : stepN p e = Some q -> f_throws q = f_throws p.
Proof. intros H. destruct e; inv_stepN H; reflexivity. Qed.

Lemma runN_throws es : forall p q, runN p es = Some q -> f_throws q = f_throws p.
Proof.
  induction es as [|e es IH]; intros p q H; cbn [runN] in H.
  - injection H as <-. reflexivity.
  - destruct (stepN p e) as [m|] eqn:Em; [|discriminate]. rewrite (IH _ _ H). eapply stepN_throws; eauto.
Qed.

Lemma sim_run es : forall p, wfN p -> run (abs p) (map abs_e es) = option_map abs (runN p es).
Proof.
  induction es as [|e es IH]; intros p W; cbn [map run runN]; [reflexivity|].
  rewrite sim_step by exact W. destruct (stepN p e) as [q|] eqn:Eq; cbn [option_map]; [|reflexivity].
  apply IH. eapply wfN_step; eauto.
Qed.

Lemma wfN_run es : forall p q, wfN p -> runN p es = Some q -> wfN q.
Proof.
  induction es as [|e es IH]; intros p q W H; cbn [runN] in H.
  - injection H as <-. exact W.
  - destruct (stepN p e) as [m|] eqn:Em; [|discriminate]. eapply IH; [|exact H]. eapply wfN_step; eauto.
Qed.

(* ---- initial states and well-formed configurations ----------------------------------------------------- *)
Lemma nth_repeat_same {A} (a : A) n i : nth i (repeat a n) a = a.
Proof. revert i. induction n as [|n IH]; intros [|i]; cbn; auto. Qed.

Lemma init_abs n thr progs : abs (initN n thr progs) = init n (abs_thr thr) (abs_progs progs).
Proof.
  unfold abs, initN, init, abs_progs. proj_f. rewrite repeat_length, !map_length. cbn [rev map]. f_equal.
  - apply functional_extensionality. intros w. rewrite nth_repeat_same. reflexivity.
  - apply functional_extensionality. intros s.
    change dsubN with ((fun pr => {| stgN := SReadyN; todoN := pr; resultsN := [] |}) []). rewrite map_nth.
    unfold abs_sub. cbn [stgN todoN resultsN abs_stage map]. f_equal.
    symmetry. change (@nil call) with (map abs_call []). apply map_nth.
Qed.

Lemma wfN_init n thr progs : wfN (initN n thr progs).
Proof. split; intros t; cbn; split; intros H; [discriminate | contradiction | discriminate | contradiction]. Qed.

Lemma nodup_set_sound l : forall seen, nodup_set l seen = true ->
  NoDup l /\ forall t, In t l -> PositiveSet.mem (key t) seen = false.
Proof.
  induction l as [|t l IH]; intros seen H; cbn [nodup_set] in H.
  - split; [constructor | intros t []].
  - destruct (PositiveSet.mem (key t) seen) eqn:Em; [discriminate|].
    destruct (IH _ H) as [Hnd Hfresh]. split.
    + constructor; [|exact Hnd]. intros Hin. specialize (Hfresh t Hin).
      assert (PositiveSet.mem (key t) (PositiveSet.add (key t) seen) = true) by (apply mem_add; left; reflexivity).
      congruence.
    + intros u [<-|Hin]; [exact Em|]. specialize (Hfresh u Hin).
      destruct (PositiveSet.mem (key u) seen) eqn:Eu; [|reflexivity].
      assert (PositiveSet.mem (key u) (PositiveSet.add (key t) seen) = true) by (apply mem_add; right; exact Eu).
      congruence.
Qed.

Lemma nodupb_complete l : NoDup l -> nodupb l = true.
Proof.
  induction 1 as [|x l Hx _ IH]; cbn; [reflexivity|]. rewrite IH, andb_true_r. apply negb_true_iff.
  destruct (mem x l) eqn:Em; [|reflexivity]. apply mem_spec in Em. contradiction.
Qed.

Lemma NoDup_map_tn l : NoDup l -> NoDup (map tn l).
Proof.
  induction 1 as [|x l Hx _ IH]; cbn; constructor; [|exact IH]. rewrite in_map_tn. exact Hx.
Qed.

Lemma call_tasks_abs c : call_tasks (abs_call c) = map tn (call_tasksN c).
Proof. destruct c; reflexivity. Qed.

Lemma prog_tasks_abs pr : prog_tasks (map abs_call pr) = map tn (prog_tasksN pr).
Proof.
  unfold prog_tasks, prog_tasksN. induction pr as [|c pr IH]; [reflexivity|].
  cbn [map flat_map]. rewrite map_app, call_tasks_abs, IH. reflexivity.
Qed.

Lemma all_tasks_abs progs : flat_map prog_tasks (abs_progs progs) = map tn (flat_map prog_tasksN progs).
Proof.
  unfold abs_progs. induction progs as [|pr progs IH]; [reflexivity|].
  cbn [map flat_map]. rewrite map_app, prog_tasks_abs, IH. reflexivity.
Qed.

Lemma no_destroy_abs pr : no_destroy (map abs_call pr) = no_destroyN pr.
Proof. induction pr as [|c pr IH]; [reflexivity|]. destruct c; cbn; auto. Qed.

Lemma destroy_last_abs pr : destroy_last (map abs_call pr) = destroy_lastN pr.
Proof.
  induction pr as [|c pr IH]; [reflexivity|]. destruct c; cbn [map abs_call destroy_last destroy_lastN]; auto.
  destruct pr; reflexivity.
Qed.

Lemma wf_config_abs n progs : wf_config n (abs_progs progs) = wf_configN n progs.
Proof.
  unfold wf_config, wf_configN. f_equal; [f_equal; [f_equal|]|].
  - (* unique ids: the trie test implies the quadratic one; conversely both are decided, compare as booleans *)
    rewrite all_tasks_abs. apply bool_iff_eq. split.
    + intros H. apply nodupb_spec in H.
      (* completeness of nodup_set *)
      assert (Hc : forall l seen, NoDup l -> (forall t, In t l -> PositiveSet.mem (key t) seen = false) -> nodup_set l seen = true).
      { induction l as [|t l IH]; intros seen Hnd Hf; [reflexivity|]. cbn [nodup_set].
        rewrite (Hf t (or_introl eq_refl)). inversion Hnd as [|? ? Hx Hnd']; subst. apply IH; [exact Hnd'|].
        intros u Hu. destruct (PositiveSet.mem (key u) (PositiveSet.add (key t) seen)) eqn:Eu; [|reflexivity].
        apply mem_add in Eu. destruct Eu as [->|Eu]; [contradiction|].
        rewrite (Hf u (or_intror Hu)) in Eu. discriminate. }
      apply Hc.
      * clear Hc. revert H. generalize (flat_map prog_tasksN progs). induction l as [|x l IH]; intros H; [constructor|].
        cbn [map] in H. inversion H as [|? ? Hx Hnd]; subst. constructor; [|apply IH; exact Hnd].
        intros Hin. apply Hx. apply in_map_tn. exact Hin.
      * intros t _. reflexivity.
    + intros H. apply nodupb_complete. apply NoDup_map_tn. exact (proj1 (nodup_set_sound _ _ H)).
  - unfold abs_progs. induction progs as [|pr progs IH]; [reflexivity|]. cbn [map forallb]. rewrite destroy_last_abs, IH. reflexivity.
  - unfold abs_progs. f_equal.
    induction progs as [|pr progs IH]; [reflexivity|]. cbn [map filter]. rewrite no_destroy_abs.
    destruct (negb (no_destroyN pr)); cbn [length]; rewrite IH; reflexivity.
Qed.

(* ---- every accepted trace is an execution of the proved model ---------------------------------------- *)
Theorem fast_refines : forall p e, wfN p ->
  step (abs p) (abs_e e) = option_map abs (stepN p e) /\ (forall q, stepN p e = Some q -> wfN q).
Proof. intros p e W. split; [apply sim_step; exact W | intros q H; eapply wfN_step; eauto]. Qed.

Theorem fast_reachable : forall n thr progs es s,
  wf_configN n progs = true -> runN (initN n thr progs) es = Some s ->
  wf_config n (abs_progs progs) = true /\
  run (init n (abs_thr thr) (abs_progs progs)) (map abs_e es) = Some (abs s) /\
  reachable n (abs_thr thr) (abs_progs progs) (abs s) /\ wfN s.
Proof.
  intros n thr progs es s Hwf Hr.
  assert (Hrun : run (init n (abs_thr thr) (abs_progs progs)) (map abs_e es) = Some (abs s)).
  { rewrite <- init_abs, sim_run by apply wfN_init. rewrite Hr. reflexivity. }
  split; [rewrite wf_config_abs; exact Hwf|]. split; [exact Hrun|]. split.
  - exists (map abs_e es). exact Hrun.
  - eapply wfN_run; [apply wfN_init | exact Hr].
Qed.

(* completeness: the fast acceptor rejects only what the proved model rejects *)
Theorem fast_complete : forall n thr progs es,
  runN (initN n thr progs) es = None -> run (init n (abs_thr thr) (abs_progs progs)) (map abs_e es) = None.
Proof.
  intros n thr progs es H. rewrite <- init_abs, sim_run by apply wfN_init. rewrite H. reflexivity.
Qed.

(* ---- the C17 theorems, read off the fast state (what the driver compares with the implementation) ------ *)
Section Transfer.
  Variables (n : nat) (thr : N -> bool) (progs : list (list callN)) (es : list eventN) (s : poolN).
  Hypothesis Hwf : wf_configN n progs = true.
  Hypothesis Hrun : runN (initN n thr progs) es = Some s.

  Let Hwf' := proj1 (fast_reachable n thr progs es s Hwf Hrun).
  Let Hreach := proj1 (proj2 (proj2 (fast_reachable n thr progs es s Hwf Hrun))).
  Let HwfN := proj2 (proj2 (proj2 (fast_reachable n thr progs es s Hwf Hrun))).

  Lemma map_fst_abs_pair l : map fst (map abs_pair l) = map tn (map fst l).
  Proof. rewrite !map_map. reflexivity. Qed.

  Lemma NoDup_map_inv' {A B} (f : A -> B) l : NoDup (map f l) -> NoDup l.
  Proof.
    induction l as [|x l IH]; cbn; intros H; [constructor|]. inversion H as [|? ? Hx Hnd]; subst.
    constructor; [|apply IH; exact Hnd]. intros Hin. apply Hx. apply in_map. exact Hin.
  Qed.

  (* no task is executed twice (pops by workers + fast-path executions) *)
  Lemma fast_at_most_once : NoDup (map fst (f_ran s) ++ map fst (f_inline s)).
  Proof.
    pose proof (s_at_most_once n (abs_thr thr) (abs_progs progs) Hwf' (abs s) Hreach) as H.
    cbn [abs ran inline] in H. rewrite !map_fst_abs_pair, <- map_app in H. apply NoDup_map_inv' in H.
    rewrite !map_rev in H.
    eapply Permutation_NoDup; [|exact H].
    apply Permutation_app; apply Permutation_sym, Permutation_rev.
  Qed.

  (* the worker id handed to a task is below the pool size *)
  Lemma fast_worker_id t w : In (t, w) (f_ran s) -> tn w < length (f_workers s).
  Proof.
    intros Hin.
    destruct (s_worker_id n (abs_thr thr) (abs_progs progs) Hwf' (abs s) Hreach) as [H _].
    apply (H (tn t) (tn w)). cbn [abs ran]. apply in_map_iff. exists (t, w). split; [reflexivity|].
    apply in_rev. rewrite rev_involutive. exact Hin.
  Qed.

  (* a map() that returned through the pool: all its tasks finished, executed exactly once, and the exception is
     the one of the first throwing task in submission order iff raise *)
  Lemma fast_map_returns i r :
    i < length (f_subs s) -> In r (resultsN (nth i (f_subs s) dsubN)) -> rn_inline r = false ->
    Forall (fun t => In t (f_finished s) /\
                     count_occ N.eq_dec (map fst (f_ran s) ++ map fst (f_inline s)) t = 1) (rn_tasks r) /\
    rn_exn r = (if rn_raise r then find thr (rn_tasks r) else None).
  Proof.
    intros Hi Hin Hnl.
    destruct (s_map_returns n (abs_thr thr) (abs_progs progs) Hwf' (abs s) i (abs_res r) Hreach) as [Hall Hexn].
    - cbn [abs ns]. exact Hi.
    - cbn [abs subs abs_sub results]. apply in_map. exact Hin.
    - cbn [abs_res r_inline]. exact Hnl.
    - split.
      + cbn [abs_res r_tasks] in Hall. rewrite Forall_forall in *. intros t Ht.
        specialize (Hall (tn t) (in_map tn _ _ Ht)). destruct Hall as [Hf _]. split.
        * cbn [abs finished] in Hf. apply in_map_tn in Hf. apply in_rev. exact Hf.
        * pose proof fast_at_most_once as Hnd.
          assert (Hin' : In t (map fst (f_ran s) ++ map fst (f_inline s))).
          { (* finished tasks were executed: InvT.t_fin on the abstract state *)
            pose proof (i_t _ (reachable_inv n (abs_thr thr) (abs_progs progs) (abs s) Hwf' Hreach)) as IT.
            pose proof (t_fin _ IT (tn t) Hf) as Hx. cbn [abs ran inline] in Hx. rewrite !map_fst_abs_pair in Hx.
            rewrite !in_map_tn, !map_rev, <- !in_rev in Hx. apply in_or_app. exact Hx. }
          apply (count_occ_In N.eq_dec) in Hin'. pose proof (proj1 (NoDup_count_occ N.eq_dec _) Hnd t). lia.
      + cbn [abs_res r_exn r_raise r_tasks abs throws] in Hexn. rewrite find_abs in Hexn.
        rewrite (runN_throws _ _ _ Hrun) in Hexn. cbn [initN f_throws] in Hexn.
        destruct (rn_raise r).
        * destruct (rn_exn r) as [a|], (find thr (rn_tasks r)) as [b|]; cbn in Hexn; try congruence.
          injection Hexn as Hab. apply tn_inj in Hab. congruence.
        * destruct (rn_exn r); [discriminate | reflexivity].
  Qed.

  (* clean shutdown: after the destructor returned every worker has exited *)
  Lemma fast_shutdown : f_stop s = true -> finalN s = true -> Forall (fun x => x = WExitedN) (f_workers s).
  Proof.
    intros Hs Hf. rewrite <- final_abs in Hf.
    pose proof (s_shutdown n (abs_thr thr) (abs_progs progs) Hwf' (abs s) Hreach Hs Hf) as H. cbn [abs nw workers] in H.
    apply Forall_forall. intros x Hx. apply (In_nth _ _ WIdleN) in Hx. destruct Hx as [i [Hi Hx]].
    specialize (H i Hi). rewrite Hx in H. destruct x; cbn in H; congruence.
  Qed.

  (* dropped tasks were never executed *)
  Lemma fast_dropped_never_ran t : In t (f_dropped s) -> ~ In t (map fst (f_ran s)) /\ ~ In t (f_finished s).
  Proof.
    intros Hd.
    destruct (s_dropped_never_ran n (abs_thr thr) (abs_progs progs) Hwf' (abs s) (tn t) Hreach) as [H1 H2].
    - cbn [abs dropped]. apply in_map_tn. exact Hd.
    - cbn [abs ran finished] in H1, H2. rewrite map_fst_abs_pair, in_map_tn, map_rev, <- in_rev in H1.
      rewrite in_map_tn, <- in_rev in H2. auto.
  Qed.
End Transfer.

(* ---- the enabled set used for the hang analysis -------------------------------------------------------- *)
Lemma enabledN_sound p e : wfN p -> In e (enabledN p) -> exists q, step (abs p) (abs_e e) = Some q.
Proof.
  intros W Hin. unfold enabledN in Hin. apply filter_In in Hin. destruct Hin as [_ H].
  rewrite sim_step by exact W. destruct (stepN p e) as [q|]; [exists (abs q); reflexivity | discriminate].
Qed.

Lemma candidates_abs p : candidates (abs p) = map abs_e (candidatesN p).
Proof.
  unfold candidates, candidatesN. cbn [abs nw ns]. rewrite map_app, !flat_map_concat_map, !concat_map, !map_map. f_equal.
  - f_equal. apply map_ext. intros s. rewrite map_app, map_map. cbn [map abs_e option_map]. rewrite !tn_of. f_equal. apply map_ext. intros w. rewrite tn_of. reflexivity.
  - f_equal. apply map_ext. intros w. cbn [map abs_e]. rewrite !tn_of. reflexivity.
Qed.

Lemma filter_map_comm {A B} (f : A -> B) (g : B -> bool) l : filter g (map f l) = map f (filter (fun x => g (f x)) l).
Proof. induction l as [|a l IH]; [reflexivity|]. cbn. destruct (g (f a)); cbn; rewrite IH; reflexivity. Qed.

(* the enabled sets coincide: the hang analysis of the driver (an implementation stuck where the model has enabled
   steps) is an analysis of the proved model *)
Theorem enabled_abs p : wfN p -> enabled (abs p) = map abs_e (enabledN p).
Proof.
  intros W. unfold enabled, enabledN. rewrite candidates_abs, filter_map_comm. f_equal.
  apply filter_ext. intros e. rewrite sim_step by exact W. destruct (stepN p e); reflexivity.
Qed.

(* ---- the translated decisions of the worker loop / destructor pin the proved model ------------------------ *)
Definition is_nil {A} (l : list A) : bool := match l with [] => true | _ => false end.

(* the locked worker step of the proved model sleeps exactly when the translated wait predicate is false, leaves the
   loop exactly when the translated exit test holds (predicate true), and pops the front task otherwise *)
Theorem worker_loop_decisions : forall p w q, step p (ECheck w) = Some q ->
  let pred := src_wait_pred (stop p) (is_nil (queue p)) in
  let ex := src_exit_test (stop p) (is_nil (queue p)) in
  (pred = false <-> workers q w = WSleeping) /\
  (pred = true /\ ex = true <-> workers q w = WExited) /\
  (pred = true /\ ex = false <-> exists t, workers q w = WRunning t /\ queue p = t :: queue q /\ ran q = ran p ++ [(t, w)]).
Proof.
  intros p w q H. unfold src_wait_pred, src_exit_test. inv_step H; simp_fields; rewrite upd_same.
  - (* exit *) cbn [orb]. split; [split; congruence|]. split; [tauto|]. split; [intros [_ Hx]; discriminate | intros [t [Hx _]]; discriminate].
  - (* sleep *) cbn [is_nil orb negb]. split; [tauto|]. split; [split; [intros [Hx _]; discriminate | discriminate]|].
    split; [intros [Hx _]; discriminate | intros [t [Hx _]]; discriminate].
  - (* pop *) cbn [is_nil orb negb]. split; [split; congruence|]. split; [split; [intros [_ Hx]; discriminate | discriminate]|].
    split; [intros _; eexists; repeat split; reflexivity | auto].
Qed.

Theorem stop_value_decision : forall p s q, step p (EStop s) = Some q -> stop q = src_stop_value.
Proof. intros p s q H. inv_step H. reflexivity. Qed.
