(* C08 -- value-level model of the gradient generator (include/nano/generator/gradient.h, elemwise_gradient.{h,cpp}).
   Style B of DESIGN.md 1.3: the scalar `double` code is reproduced bit for bit with Coq's primitive binary64 floats
   (same operation order: `kernel[0] * d0 + kernel[1] * d1 + kernel[2] * d2` = (k0*d0 + k1*d1) + k2*d2,
   `std::sqrt(gx * gx + gy * gy)`); `std::atan2` (libm, not bit-reproducible) is a section variable.
   The window offsets (row + 0/1/2, col + 0/1/2 of the twelve reads), the (rows + 2) x (cols + 2) input size, the output
   dims, the loop bound 4 and the (channel, mode) mapping columns are the expressions translated from the source on every
   run (coq/generated/Src_c08.v); the float arithmetic (make_gg, the weights of make_kernel3x3, the mode dispatch) is
   written by hand here and tied by the bit-exact value comparison of every run.  No proofs here. *)
From Coq Require Import List ZArith Bool Floats.
From LNGen Require Import Src_c08.
From LN Require Import C08_Defs.
Import ListNotations.
Local Open Scope Z_scope.

(* ---------------------------------------------------------------------------------------------- *)
(* static_cast<double>(integer)                                                                   *)
(* ---------------------------------------------------------------------------------------------- *)
(* exact for |z| <= 2^53 (every partial result is an integer below 2^53, so no step rounds); the stored values of the
   explored domain satisfy |z| <= 2^52, where the C++ cast is exact as well *)
Fixpoint pos2f (p : positive) : float :=
  match p with
  | xH => 1%float
  | xO q => (2 * pos2f q)%float
  | xI q => (2 * pos2f q + 1)%float
  end.
Definition z2f (z : Z) : float :=
  match z with Z0 => 0%float | Zpos p => pos2f p | Zneg p => (- pos2f p)%float end.

(* named constants (float literals do not parse in the Properties file) *)
Definition f_zero : float := 0%float.
Definition f_quarter : float := 0x1p-2%float.
Definition f_half : float := 0x1p-1%float.
Definition f_3_16 : float := 0x1.8p-3%float.
Definition f_10_16 : float := 0x1.4p-1%float.
Definition f_third : float := 0x1.5555555555555p-2%float.
Definition f_nan : float := nan.
Definition f_is_nan (x : float) : bool := PrimFloat.is_nan x.

(* ---------------------------------------------------------------------------------------------- *)
(* make_kernel3x3<double>                                                                         *)
(* ---------------------------------------------------------------------------------------------- *)
Inductive kernel3 := Sobel | Scharr | Prewitt.
Definition kweights := (float * float * float)%type.
(* static_cast<double>(a) / static_cast<double>(b), computed in double as the code does *)
Definition fratio (a b : Z) : float := (z2f a / z2f b)%float.
Definition make_kernel3x3 (k : kernel3) : kweights :=
  match k with
  | Sobel => (fratio 1 4, fratio 2 4, fratio 1 4)
  | Scharr => (fratio 3 16, fratio 10 16, fratio 3 16)
  | Prewitt => (fratio 1 3, fratio 1 3, fratio 1 3)
  end.

(* ---------------------------------------------------------------------------------------------- *)
(* gradient3x3                                                                                    *)
(* ---------------------------------------------------------------------------------------------- *)
(* make_gg: the six values are already cast to double *)
Definition make_gg (kw : kweights) (v0 v1 v2 v3 v4 v5 : float) : float :=
  let '(k0, k1, k2) := kw in
  let d0 := (v0 - v1)%float in
  let d1 := (v2 - v3)%float in
  let d2 := (v4 - v5)%float in
  (k0 * d0 + k1 * d1 + k2 * d2)%float.

(* input(r, c) of a row-major tensor with in_cols columns *)
Definition in_index (in_cols r c : Z) : Z := r * in_cols + c.
Definition in_at (in_cols : Z) (img : list float) (r c : Z) : float := znth (in_index in_cols r c) img f_nan.

(* the six (row, column) reads of make_gx / make_gy, in argument order *)
Definition gx_reads (row col : Z) : list (Z * Z) :=
  [(src_gx_r0 row, src_gx_c0 col); (src_gx_r1 row, src_gx_c1 col); (src_gx_r2 row, src_gx_c2 col);
   (src_gx_r3 row, src_gx_c3 col); (src_gx_r4 row, src_gx_c4 col); (src_gx_r5 row, src_gx_c5 col)].
Definition gy_reads (row col : Z) : list (Z * Z) :=
  [(src_gy_r0 row, src_gy_c0 col); (src_gy_r1 row, src_gy_c1 col); (src_gy_r2 row, src_gy_c2 col);
   (src_gy_r3 row, src_gy_c3 col); (src_gy_r4 row, src_gy_c4 col); (src_gy_r5 row, src_gy_c5 col)].

Definition gg_of_reads (kw : kweights) (in_cols : Z) (img : list float) (rs : list (Z * Z)) : float :=
  match map (fun rc => in_at in_cols img (fst rc) (snd rc)) rs with
  | [v0; v1; v2; v3; v4; v5] => make_gg kw v0 v1 v2 v3 v4 v5
  | _ => f_nan
  end.
Definition make_gx (kw : kweights) (in_cols : Z) (img : list float) (row col : Z) : float :=
  gg_of_reads kw in_cols img (gx_reads row col).
Definition make_gy (kw : kweights) (in_cols : Z) (img : list float) (row col : Z) : float :=
  gg_of_reads kw in_cols img (gy_reads row col).

Definition magnitude (gx gy : float) : float := PrimFloat.sqrt (gx * gx + gy * gy)%float.

Section Angle.
Variable atan2 : float -> float -> float.        (* std::atan2(y, x): libm, compared within 1e-12 *)

(* one output cell; mode = the integer stored in the mapping (0 gradx, 1 grady, 2 magnitude, anything else: angle) *)
Definition grad_cell (mode : Z) (kw : kweights) (in_cols : Z) (img : list float) (row col : Z) : float :=
  if mode =? 0 then make_gx kw in_cols img row col
  else if mode =? 1 then make_gy kw in_cols img row col
  else if mode =? 2 then magnitude (make_gx kw in_cols img row col) (make_gy kw in_cols img row col)
  else atan2 (make_gy kw in_cols img row col) (make_gx kw in_cols img row col).

(* the two loops `for row < rows  for col < cols  output(row, col) = ...`: the row-major output image *)
Definition gradient3x3 (mode : Z) (kw : kweights) (rows cols : Z) (img : list float) : list float :=
  flat_map (fun row => map (fun col => grad_cell mode kw (src_grad_in_cols cols) img row col) (zseq cols)) (zseq rows).

(* ---------------------------------------------------------------------------------------------- *)
(* elemwise_gradient_t: generated feature -> (channel, mode), per-sample value                      *)
(* ---------------------------------------------------------------------------------------------- *)
Definition grad_channel (g : gfeat) : Z := Z.quot (g_o2 g) src_grad_modes.     (* mapping()(ifeature, 5) *)
Definition grad_mode (g : gfeat) : Z := Z.rem (g_o2 g) src_grad_modes.         (* mapping()(ifeature, 6) *)
Definition grad_rows (g : gfeat) : Z := f_d1 (g_desc g).                       (* std::get<1>(mapped_dims) *)
Definition grad_cols (g : gfeat) : Z := f_d2 (g_desc g).
Definition grad_in_size (g : gfeat) : Z := src_grad_in_rows (grad_rows g) * src_grad_in_cols (grad_cols g).

(* values.tensor(channel) of the per-sample (channels, rows + 2, cols + 2) tensor, each element cast to double *)
Definition grad_input (g : gfeat) (v : list Z) : list float :=
  map z2f (read_seg (Z.to_nat (grad_channel g * grad_in_size g)) (Z.to_nat (grad_in_size g)) v).

(* what process() writes into the (rows x cols) storage of one sample *)
Definition grad_image (kern : kernel3) (g : gfeat) (v : list Z) : list float :=
  gradient3x3 (grad_mode g) (make_kernel3x3 kern) (grad_rows g) (grad_cols g) (grad_input g v).

(* ---------------------------------------------------------------------------------------------- *)
(* the float-valued views (None = the NaN written for a missing value)                            *)
(* ---------------------------------------------------------------------------------------------- *)
Definition fcell := option float.
Definition frow := list fcell.
Definition zcell2f (c : option Z) : fcell := match c with Some z => Some (z2f z) | None => None end.

(* the source cell a gradient feature reads (None: dropped, or the source sample is not given) *)
Definition grad_source (rd : reader) (g : gfeat) (fl : flag) (s : Z) : option (list Z) :=
  if is_dropped fl then None else rd (g_o1 g) (eff_sample fl s).

(* elemwise.h flatten(): the segment written for one feature and one sample; non-gradient features: the integer model *)
Definition enc_flat_f (kern : kernel3) (rd : reader) (g : gfeat) (fl : flag) (s : Z) : frow :=
  match g_kind g with
  | GGradient => match grad_source rd g fl s with
                 | Some v => map Some (grad_image kern g v)
                 | None => zrepeat None (g_colsize g)
                 end
  | _ => map zcell2f (enc_flat rd g fl s)
  end.

Definition view_cells (v : view) : list (option Z) :=
  match v with VSclass l => [Some l] | VMclass h => map Some h | VScalar x => [x] | VStruct xs => xs end.

(* generator_t::select (structured view) of one sample *)
Definition select_view_f (kern : kernel3) (rd : reader) (g : gfeat) (fl : flag) (s : Z) : frow :=
  match g_kind g with
  | GGradient => match grad_source rd g fl s with
                 | Some v => map Some (grad_image kern g v)
                 | None => zrepeat None (fsize (g_desc g))
                 end
  | _ => map zcell2f (view_cells (select_view rd g fl s))
  end.

(* flatten with the same column arithmetic as C08_Defs.flat_gen / flat_gens (`column += colsize`, `offset +=
   m_generator_mapping`), generic in the cell type and the per-feature encoder; one kernel type per generator *)
Section Flat.
Context {V : Type}.
Variable E : kernel3 -> gfeat -> flag -> list V.
Fixpoint flat_gen_v (kern : kernel3) (fs : list gfeat) (fls : list flag) (column : Z) (r : list V) : list V :=
  match fs with
  | [] => r
  | g :: fs' => flat_gen_v kern fs' (tl fls) (column + g_colsize g) (write_seg (Z.to_nat column) (E kern g (hd Normal fls)) r)
  end.
Fixpoint flat_gens_v (kerns : list kernel3) (gs : gens) (fl : flags) (gm : list Z) (offset : Z) (r : list V) : list V :=
  match gs with
  | [] => r
  | fs :: gs' => flat_gens_v (tl kerns) gs' (tl fl) (tl gm) (offset + hd 0 gm)
                             (flat_gen_v (hd Sobel kerns) fs (hd [] fl) offset r)
  end.
End Flat.

Definition flat_row_f (kerns : list kernel3) (rd : reader) (gs : gens) (fl : flags) (s : Z) (r : frow) : frow :=
  flat_gens_v (fun kern g f => enc_flat_f kern rd g f s) kerns gs fl (generator_mapping gs) 0 r.

(* dataset_t::flatten on a fresh (all-NaN) buffer; None = exception *)
Definition flatten_f (kerns : list kernel3) (rd : reader) (n : Z) (gs : gens) (fl : flags) (samples : list Z)
  : option (list frow) :=
  if check_samples n samples
  then Some (map (fun s => flat_row_f kerns rd gs fl s (zrepeat None (columns gs))) samples)
  else None.

(* dataset_t::select(samples, feature, buffer); None = exception *)
Definition select_f (kerns : list kernel3) (rd : reader) (n : Z) (gs : gens) (fl : flags) (samples : list Z) (f : Z)
  : option (list frow) :=
  if check_samples n samples && check_feature gs f
  then let '(gi, li) := znth f (feature_mapping gs) (0, 0) in
       let g := znth li (znth gi gs []) (mkG GScalar 0 0 dflt_feature 1) in
       Some (map (select_view_f (znth gi kerns Sobel) rd g (get_flag fl gi li)) samples)
  else None.
End Angle.
