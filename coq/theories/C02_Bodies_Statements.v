(* C02 (extension 2) -- example oracles, non-vacuity witnesses and the refuted reading "converged => near-optimal"
   of the sgm / cocob / sda / wda bodies (C02_Bodies_Defs.v). *)
From Coq Require Import ZArith List Bool Floats Uint63.
From LN Require Import C02_Defs C02_Bodies_Defs.
Import ListNotations.
Local Open Scope Z_scope.

Definition bz (z : Z) : float := PrimFloat.of_uint63 (Uint63.of_Z z).
Definition b_nan : float := PrimFloat.div PrimFloat.zero PrimFloat.zero.

(* a 1-D objective given by value and derivative; the reductions of a 1-D vector; pow(b, 1) = b; tanh replaced by the identity
   clipped to [-1, 1] (any function is an admissible oracle: the theorems quantify over all of them) *)
Definition orc1 (f df : float -> float) : boracles :=
  mkBO (fun _ x => match x with [v] => (f v, [df v]) | _ => (b_nan, []) end)
       (fun v => match v with [a] => PrimFloat.abs a | _ => PrimFloat.zero end)
       (fun b _ => bz b)
       (fun v => if PrimFloat.ltb 1%float v then 1%float else if PrimFloat.ltb v (-1)%float then (-1)%float else v).

(* s |x - c|: a steep kink next to the start *)
Definition ex_kink : boracles :=
  orc1 (fun v => PrimFloat.mul 1048576%float (PrimFloat.abs (PrimFloat.sub v 0x1p-10%float)))
       (fun v => if PrimFloat.ltb 0x1p-10%float v then 1048576%float else if PrimFloat.ltb v 0x1p-10%float then (-1048576)%float else 0%float).
(* (x - 3)^2 *)
Definition ex_parab : boracles :=
  orc1 (fun v => PrimFloat.mul (PrimFloat.sub v 3%float) (PrimFloat.sub v 3%float))
       (fun v => PrimFloat.mul 2%float (PrimFloat.sub v 3%float)).
(* finite value with a NaN beyond 1 *)
Definition ex_wall : boracles :=
  orc1 (fun v => if PrimFloat.ltb v 1%float then PrimFloat.opp v else b_nan) (fun v => if PrimFloat.ltb v 1%float then (-1)%float else b_nan).

Definition ex_bcfg (maxev patience : Z) (p : float) : bconf := mkBC 0x1p-20%float maxev patience p.

Definition b_show (r : brun) :=
  (sx (br_s r), sfx (br_s r), sstatus (br_s r), (br_fc r, br_gc r), br_dones r, (br_ok r, br_conv r), br_exit r).

(* the stronger reading of `converged` -- "the returned value is near the smallest value of the objective" -- is FALSE of the
   faithful model: sgm (power 1: unit, half, third ... steps) on 2^20 |x - 2^-10| from x0 = 0: each of the first ten iterates
   lands farther from the kink than the start, after `patience` = 10 passes without improvement value_test = 0 < epsilon and
   the run ends `converged` at x0 with the value 1024, although the objective is 0 at 2^-10 *)
Definition C02_bodies_converged_near_optimal_refuted_statement : Prop :=
  exists (b : bbody) (orc : boracles) (cfg : bconf) (x0 xs : bpoint),
    let s := body_minimize b orc cfg x0 in
    sstatus s = ST_CONVERGED /\ valid s = true /\
    PrimFloat.ltb (PrimFloat.add (fst (bo_eval orc 0 xs)) 1000%float) (sfx s) = true.

Lemma bodies_converged_near_optimal_refuted : C02_bodies_converged_near_optimal_refuted_statement.
Proof.
  exists BSgm, ex_kink, (ex_bcfg 1000 10 1%float), [0%float], [0x1p-10%float]. vm_compute. repeat split; reflexivity.
Qed.

(* sgm's step length 1 / pow(iteration + 1, power) is positive only as far as the libm answer is: pow is an input of the
   model, so "lambda > 0" is false of the model for an arbitrary oracle (it is checked on every recorded pow value) *)
Lemma sgm_lambda_positive_refuted :
  exists orc p k, PrimFloat.ltb PrimFloat.zero (sgm_lambda orc p k) = false.
Proof. exists (mkBO (fun _ x => (b_nan, x)) (fun _ => b_nan) (fun _ _ => (-1)%float) (fun v => v)), 1%float, 0. reflexivity. Qed.

Lemma b_examples :
  (* sgm on (x-3)^2 from 0: moves, improves, leaves through the budget test after 4 passes (max_evals = 10) *)
  (let r := body_run BSgm ex_parab (ex_bcfg 10 10 1%float) (b_fuel (ex_bcfg 10 10 1%float)) [0%float] in
   br_exit r = BX_BUDGET /\ br_iters r = 4 /\ br_fc r + br_gc r = 10 /\ sstatus (br_s r) = ST_MAX_ITERS /\
   PrimFloat.ltb (sfx (br_s r)) 9%float = true) /\
  (* zero sub-gradient at the start: the exact exit, status converged, one evaluation *)
  b_show (body_run BSgm ex_parab (ex_bcfg 100 10 1%float) (b_fuel (ex_bcfg 100 10 1%float)) [3%float])
  = ([3%float], 0%float, ST_CONVERGED, (1, 1), 1, (true, true), BX_ZERO) /\
  (* a non-finite value: iter_ok = false, status failed, the best state is kept *)
  (let r := body_run BSda ex_wall (ex_bcfg 100 10 8%float) (b_fuel (ex_bcfg 100 10 8%float)) [0%float] in
   sstatus (br_s r) = ST_FAILED /\ br_ok r = false /\ valid (br_s r) = true /\ br_exit r = BX_DONE) /\
  (* cocob and wda make progress on the parabola *)
  (let r := body_run BCocob ex_parab (ex_bcfg 40 10 1%float) (b_fuel (ex_bcfg 40 10 1%float)) [0%float] in
   PrimFloat.ltb (sfx (br_s r)) 9%float = true /\ 2 <= br_iters r) /\
  (let r := body_run BWda ex_parab (ex_bcfg 40 10 1%float) (b_fuel (ex_bcfg 40 10 1%float)) [0%float] in
   PrimFloat.ltb (sfx (br_s r)) 9%float = true /\ 2 <= br_iters r) /\
  (* the refutation's run: converged through the value test *)
  (let r := body_run BSgm ex_kink (ex_bcfg 1000 10 1%float) (b_fuel (ex_bcfg 1000 10 1%float)) [0%float] in
   sstatus (br_s r) = ST_CONVERGED /\ br_exit r = BX_DONE /\ br_iters r = 10).
Proof. vm_compute. repeat split; try reflexivity; try discriminate. Qed.

Definition ex_one_b : float := 1%float.
