(* C07 -- More-Thuente: the exact characterisation of a reported success, for EVERY probe oracle, parameters and fuel.
   A success is returned by exactly one of the five `return {true, stp}` tests at the top of an iteration; each test is
   translated from morethuente.cpp (Src_c07_flt.v) and pinned here to the float inequality it evaluates. *)
From Coq Require Import List ZArith Bool Floats Lia.
From LNGen Require Import Src_c07_flt.
From LN Require Import C07_Defs C07_Proofs.
Import ListNotations.
Local Open Scope float_scope.

(* ---------- the translated tests are these float expressions (breaks if morethuente.cpp's expressions change) ---------- *)
Lemma mt_gtest_spec : forall prm p0, mt_gtest prm p0 = c1 prm * pg p0.
Proof. reflexivity. Qed.

Lemma mt_ftest_spec : forall prm p0 stp, mt_ftest prm p0 stp = pf p0 + stp * (c1 prm * pg p0).
Proof. reflexivity. Qed.

Lemma mt_exit_rounding_spec : forall stp m,
  mt_exit_rounding stp m = m_brackt m && ((stp <=? m_stmin m) || (m_stmax m <=? stp)).
Proof. reflexivity. Qed.

Lemma mt_exit_collapsed_spec : forall m,
  mt_exit_collapsed m = m_brackt m && (m_stmax m - m_stmin m <=? eps0 * m_stmax m).
Proof. reflexivity. Qed.

Lemma mt_exit_stpmax_spec : forall prm p0 p stp,
  mt_exit_stpmax prm p0 p stp =
  (stpmax <=? stp) && (pf p <=? pf p0 + stp * (c1 prm * pg p0)) && (pg p <=? c1 prm * pg p0).
Proof. reflexivity. Qed.

Lemma mt_exit_stpmin_spec : forall prm p0 p stp,
  mt_exit_stpmin prm p0 p stp =
  (stp <=? stpmin) && ((pf p0 + stp * (c1 prm * pg p0) <? pf p) || (c1 prm * pg p0 <=? pg p)).
Proof. reflexivity. Qed.

Lemma mt_converged_spec : forall prm p0 p stp,
  mt_converged prm p0 p stp =
  (pf p <=? pf p0 + stp * (c1 prm * pg p0)) && (abs (pg p) <=? c2 prm * - pg p0).
Proof. reflexivity. Qed.

Lemma mt_noprogress_spec : forall b stp stmin stmax,
  src_mth_noprogress_f b stp stmin stmax eps0 =
  (b && ((stp <=? stmin) || (stmax <=? stp))) || (b && (stmax - stmin <=? eps0 * stmax)).
Proof. reflexivity. Qed.

(* the four "no further progress" tests together *)
Definition mt_early_exit (prm : params) (p0 p : probe) (stp : float) (m : mtst) : bool :=
  mt_exit_rounding stp m || mt_exit_collapsed m || mt_exit_stpmax prm p0 p stp || mt_exit_stpmin prm p0 p stp.

Lemma mt_stop_split : forall prm p0 p stp m,
  mt_stop prm p0 p stp m = mt_early_exit prm p0 p stp m || mt_converged prm p0 p stp.
Proof. reflexivity. Qed.

Local Arguments C07_Defs.update : simpl never.
Local Arguments mt_stop : simpl never.
Local Arguments mt_next : simpl never.

Section MT.
  Variable phi : Z -> float -> probe.
  Variable prm : params.
  Variable p0 : probe.
  Local Notation update := (C07_Defs.update phi).

  (* the ghost of a successful return carries the locals on which one of the five tests was true *)
  Definition mt_exit (r : result) : Prop :=
    exists m, rx r = XMT m /\ mt_stop prm p0 (cur (rs r)) (rt r) m = true.

  Lemma morethuente_exit : forall fuel s stp m,
    ok (morethuente phi prm p0 fuel s stp m) = true -> mt_exit (morethuente phi prm p0 fuel s stp m).
  Proof.
    induction fuel as [|k IH]; intros s stp m H; cbn [morethuente] in *.
    - simpl in H. discriminate.
    - destruct (mt_stop prm p0 (cur s) stp m) eqn:S.
      + exists m. split; [reflexivity|exact S].
      + destruct (mt_next prm p0 (cur s) stp m) as [stp' m'].
        destruct (negb (pv (cur (update s stp')))); [simpl in H; discriminate|].
        apply IH. exact H.
  Qed.

  Lemma ls_get_mt_exit : forall t0,
    ok (ls_get phi prm p0 MoreThuente t0) = true ->
    (pg p0 <? 0) = true /\ mt_exit (ls_get phi prm p0 MoreThuente t0).
  Proof.
    intros t0 H. unfold ls_get in *. rewrite has_descent_spec in *.
    destruct (pg p0 <? 0); cbn [negb] in *; [|simpl in H; discriminate].
    split; [reflexivity|].
    destruct (shrink phi (fuel_of (maxit prm)) (init_state p0) (init_step t0)) as [s1 t1].
    destruct (src_ls_stale_guard_f (pv (cur s1))); [simpl in H; discriminate|].
    destruct (grow phi p0 (fuel_of (maxit prm)) s1 t1) as [go [s2 t2]].
    destruct go; [|simpl in H; discriminate].
    cbn [do_get] in *. apply morethuente_exit. exact H.
  Qed.

  (* the five-way case split, every test spelled out *)
  Lemma mt_stop_cases : forall p stp m,
    mt_stop prm p0 p stp m = true ->
    let gtest := c1 prm * pg p0 in
    let ftest := pf p0 + stp * gtest in
    ((pf p <=? ftest) = true /\ (abs (pg p) <=? c2 prm * - pg p0) = true) \/
    (m_brackt m = true /\ ((stp <=? m_stmin m) = true \/ (m_stmax m <=? stp) = true)) \/
    (m_brackt m = true /\ (m_stmax m - m_stmin m <=? eps0 * m_stmax m) = true) \/
    ((stpmax <=? stp) = true /\ (pf p <=? ftest) = true /\ (pg p <=? gtest) = true) \/
    ((stp <=? stpmin) = true /\ ((ftest <? pf p) = true \/ (gtest <=? pg p) = true)).
  Proof.
    intros p stp m H gtest ftest. unfold mt_stop in H.
    rewrite mt_exit_rounding_spec, mt_exit_collapsed_spec, mt_exit_stpmax_spec, mt_exit_stpmin_spec,
      mt_converged_spec in H.
    fold gtest in H. fold ftest in H.
    repeat (apply orb_true_iff in H; destruct H as [H|H]).
    - apply andb_true_iff in H. destruct H as [B H]. apply orb_true_iff in H.
      right; left. split; [exact B|exact H].
    - apply andb_true_iff in H. destruct H as [B H].
      right; right; left. split; assumption.
    - apply andb_true_iff in H. destruct H as [H G]. apply andb_true_iff in H. destruct H as [S F].
      right; right; right; left. repeat split; assumption.
    - apply andb_true_iff in H. destruct H as [S H]. apply orb_true_iff in H.
      right; right; right; right. split; assumption.
    - apply andb_true_iff in H. destruct H as [F G]. left. split; assumption.
  Qed.

  Lemma ls_get_mt_cases : forall t0,
    let r := ls_get phi prm p0 MoreThuente t0 in
    ok r = true ->
    exists m, rx r = XMT m /\
    let stp := rt r in
    let f := pf (cur (rs r)) in
    let g := pg (cur (rs r)) in
    let gtest := c1 prm * pg p0 in
    let ftest := pf p0 + stp * gtest in
    ((f <=? ftest) = true /\ (abs g <=? c2 prm * - pg p0) = true) \/
    (m_brackt m = true /\ ((stp <=? m_stmin m) = true \/ (m_stmax m <=? stp) = true)) \/
    (m_brackt m = true /\ (m_stmax m - m_stmin m <=? eps0 * m_stmax m) = true) \/
    ((stpmax <=? stp) = true /\ (f <=? ftest) = true /\ (g <=? gtest) = true) \/
    ((stp <=? stpmin) = true /\ ((ftest <? f) = true \/ (gtest <=? g) = true)).
  Proof.
    intros t0 r H. destruct (ls_get_mt_exit t0 H) as [_ [m [X S]]]. fold r in X, S.
    exists m. split; [exact X|]. exact (mt_stop_cases _ _ _ S).
  Qed.
End MT.

(* ---------- |x| = -x for x < 0 (FloatAxioms only) ---------- *)
Lemma abs_of_neg : forall x, (x <? 0) = true -> abs x = - x.
Proof.
  intros x H. apply Prim2SF_inj. rewrite abs_spec, opp_spec.
  rewrite ltb_spec in H. change (Prim2SF 0) with (S754_zero false) in H.
  destruct (Prim2SF x) as [s|s| |s m e]; cbn in H |- *.
  - discriminate.
  - destruct s; [reflexivity|discriminate].
  - discriminate.
  - destruct s; [reflexivity|discriminate].
Qed.

Section MTWolfe.
  Variable phi : Z -> float -> probe.
  Variable prm : params.
  Variable p0 : probe.

  (* no early-exit test true at the returned iterate => the convergence test decided: More-Thuente's sufficient decrease
     `f <= finit + stp * (ftol * ginit)` and state.cpp's has_strong_wolfe *)
  Lemma ls_get_mt_strong_wolfe : forall t0,
    let r := ls_get phi prm p0 MoreThuente t0 in
    ok r = true ->
    forall m, rx r = XMT m ->
    mt_early_exit prm p0 (cur (rs r)) (rt r) m = false ->
    (pf (cur (rs r)) <=? pf p0 + rt r * (c1 prm * pg p0)) = true /\
    has_strong_wolfe p0 (cur (rs r)) (c2 prm) = true.
  Proof.
    intros t0 r H m X E. destruct (ls_get_mt_exit phi prm p0 t0 H) as [D [m' [X' S]]]. fold r in X', S.
    rewrite X in X'. injection X' as <-.
    rewrite mt_stop_split, E in S. cbn [orb] in S. rewrite mt_converged_spec in S.
    apply andb_true_iff in S. destruct S as [F G]. split; [exact F|].
    rewrite has_strong_wolfe_spec, (abs_of_neg _ D). exact G.
  Qed.

  (* the same with the four early-exit tests spelled out *)
  Lemma ls_get_mt_strong_wolfe_explicit : forall t0,
    let r := ls_get phi prm p0 MoreThuente t0 in
    ok r = true ->
    forall m, rx r = XMT m ->
    let stp := rt r in
    let f := pf (cur (rs r)) in
    let g := pg (cur (rs r)) in
    let gtest := c1 prm * pg p0 in
    let ftest := pf p0 + stp * gtest in
    (m_brackt m && ((stp <=? m_stmin m) || (m_stmax m <=? stp))) = false ->
    (m_brackt m && (m_stmax m - m_stmin m <=? eps0 * m_stmax m)) = false ->
    ((stpmax <=? stp) && (f <=? ftest) && (g <=? gtest)) = false ->
    ((stp <=? stpmin) && ((ftest <? f) || (gtest <=? g))) = false ->
    (f <=? ftest) = true /\ (abs g <=? c2 prm * abs (pg p0)) = true.
  Proof.
    intros t0 r H m X stp f g gtest ftest E1 E2 E3 E4.
    apply (ls_get_mt_strong_wolfe t0 H m X).
    unfold mt_early_exit.
    rewrite mt_exit_rounding_spec, mt_exit_collapsed_spec, mt_exit_stpmax_spec, mt_exit_stpmin_spec.
    fold r. fold stp. fold f. fold g. fold gtest. fold ftest.
    rewrite E1, E2, E3, E4. reflexivity.
  Qed.
End MTWolfe.

(* ---------- the "bracket collapsed" return is never the one that fires ----------
   When the iteration finds `brackt && (stmax - stmin) <= xtol * stmax` it sets stp = stx, and stx is one end of
   [stmin, stmax] = [min(stx, sty), max(stx, sty)]: at the top of the next iteration the rounding test, which comes
   first in the source, is true as well. (FloatAxioms only: comparisons through SpecFloat.SFcompare.) *)
Lemma sf_leb_refl : forall s, s <> S754_nan -> SFleb s s = true.
Proof.
  intros s N. unfold SFleb, SFcompare.
  destruct s as [b|b| |b m e]; try destruct b; try reflexivity; try contradiction;
    rewrite Z.compare_refl, Pos.compare_cont_refl; reflexivity.
Qed.

Lemma leb_refl_of_ltb : forall x y, (y <? x) = true -> (x <=? x) = true.
Proof.
  intros x y H. rewrite leb_spec. apply sf_leb_refl. intros E. rewrite ltb_spec, E in H.
  unfold SFltb, SFcompare in H. destruct (Prim2SF y); discriminate.
Qed.

Lemma leb_of_ltb : forall x y, (y <? x) = true -> (y <=? x) = true.
Proof.
  intros x y H. rewrite leb_spec. rewrite ltb_spec in H. unfold SFltb, SFleb in *.
  destruct (SFcompare (Prim2SF y) (Prim2SF x)) as [[| |]|]; try discriminate; reflexivity.
Qed.

Lemma leb_refl_of_sub_leb : forall a b c, (a - b <=? c) = true -> (b <=? b) = true.
Proof.
  intros a b c H. rewrite leb_spec. apply sf_leb_refl. intros E.
  rewrite leb_spec, sub_spec, E in H. unfold SF64sub, SFsub in H.
  destruct (Prim2SF a); cbn in H; discriminate.
Qed.

Lemma collapsed_forces_rounding : forall stx sty stp2,
  (fmax stx sty - fmin stx sty <=? eps0 * fmax stx sty) = true ->
  let stp3 := if src_mth_noprogress_f true stp2 (fmin stx sty) (fmax stx sty) eps0 then stx else stp2 in
  ((stp3 <=? fmin stx sty) || (fmax stx sty <=? stp3)) = true.
Proof.
  intros stx sty stp2 C stp3. subst stp3.
  rewrite mt_noprogress_spec, C. cbn [andb]. rewrite orb_true_r.
  unfold fmin, fmax in *.
  destruct (sty <? stx) eqn:L.
  - (* stmin = sty *)
    destruct (stx <? sty) eqn:L'.
    + rewrite (leb_of_ltb _ _ L'). reflexivity.
    + rewrite (leb_refl_of_ltb _ _ L). apply orb_true_r.
  - (* stmin = stx *)
    rewrite (leb_refl_of_sub_leb _ _ _ C). reflexivity.
Qed.

Section MTDead.
  Variable phi : Z -> float -> probe.
  Variable prm : params.
  Variable p0 : probe.
  Local Notation update := (C07_Defs.update phi).

  Definition mt_inv (stp : float) (m : mtst) : Prop :=
    mt_exit_collapsed m = true -> mt_exit_rounding stp m = true.

  Lemma mt_next_inv : forall p stp m,
    mt_inv (fst (mt_next prm p0 p stp m)) (snd (mt_next prm p0 p stp m)).
  Proof.
    intros p stp m. unfold mt_inv, mt_next. cbv zeta.
    match goal with |- context [d_brackt ?d] => set (D := d) end.
    cbn [fst snd]. rewrite mt_exit_rounding_spec, mt_exit_collapsed_spec. cbn [m_brackt m_stmin m_stmax].
    destruct (d_brackt D); cbn [andb]; [|discriminate].
    intros C. exact (collapsed_forces_rounding _ _ _ C).
  Qed.

  Lemma morethuente_exit_inv : forall fuel s stp m,
    mt_inv stp m -> ok (morethuente phi prm p0 fuel s stp m) = true ->
    exists m', rx (morethuente phi prm p0 fuel s stp m) = XMT m' /\
               mt_inv (rt (morethuente phi prm p0 fuel s stp m)) m'.
  Proof.
    induction fuel as [|k IH]; intros s stp m I H; cbn [morethuente] in *.
    - simpl in H. discriminate.
    - destruct (mt_stop prm p0 (cur s) stp m).
      + exists m. split; [reflexivity|exact I].
      + pose proof (mt_next_inv (cur s) stp m) as I'.
        destruct (mt_next prm p0 (cur s) stp m) as [stp' m']. cbn [fst snd] in I'.
        destruct (negb (pv (cur (update s stp')))); [simpl in H; discriminate|].
        apply IH; assumption.
  Qed.

  Lemma ls_get_mt_collapsed_never_first : forall t0,
    let r := ls_get phi prm p0 MoreThuente t0 in
    ok r = true ->
    forall m, rx r = XMT m ->
    (m_brackt m && (m_stmax m - m_stmin m <=? eps0 * m_stmax m)) = true ->
    (m_brackt m && ((rt r <=? m_stmin m) || (m_stmax m <=? rt r))) = true.
  Proof.
    intros t0 r H m X. subst r. unfold ls_get in *.
    destruct (negb (has_descent p0)); [simpl in H; discriminate|].
    destruct (shrink phi (fuel_of (maxit prm)) (init_state p0) (init_step t0)) as [s1 t1].
    destruct (src_ls_stale_guard_f (pv (cur s1))); [simpl in H; discriminate|].
    destruct (grow phi p0 (fuel_of (maxit prm)) s1 t1) as [go [s2 t2]].
    destruct go; [|simpl in H; discriminate].
    cbn [do_get] in *.
    assert (I0 : mt_inv t2 (mt_init p0 t2)) by (unfold mt_inv; rewrite mt_exit_collapsed_spec; cbn; discriminate).
    destruct (morethuente_exit_inv _ _ _ _ I0 H) as [m' [X' I]].
    rewrite X in X'. injection X' as <-. exact I.
  Qed.
End MTDead.
