(* C16 -- the summed-area table of integral.h equals the naive prefix sums (box sums). *)
From Coq Require Import List ZArith Bool Lia Arith.
From LNGen Require Import Src_dims Src_tensor.
From LN Require Import ListAux C16_Defs C16_Proofs.
Import ListNotations.
Local Open Scope Z_scope.

(* ---- sums ------------------------------------------------------------------------------------ *)
Lemma zsum_app a b : zsum (a ++ b) = zsum a + zsum b.
Proof. unfold zsum. induction a as [|x a IH]; cbn; [reflexivity | rewrite IH; lia]. Qed.

Lemma zsum_cons x l : zsum (x :: l) = x + zsum l.
Proof. reflexivity. Qed.

Lemma zsum_nil : zsum [] = 0.
Proof. reflexivity. Qed.

Lemma firstn_S_nth {A} (k : nat) (l : list A) (d : A) :
  (k < length l)%nat -> firstn (S k) l = firstn k l ++ [nth k l d].
Proof.
  revert l. induction k as [|k IH]; intros l H; destruct l as [|x l]; cbn [length] in H; try lia.
  - reflexivity.
  - cbn [firstn nth app]. f_equal. apply IH. lia.
Qed.

Lemma prefix_sums_length acc l : length (prefix_sums acc l) = length l.
Proof. revert acc. induction l as [|x l IH]; intros acc; cbn; [reflexivity | rewrite IH; reflexivity]. Qed.

Lemma prefix_sums_nth l : forall acc k, (k < length l)%nat ->
  nth k (prefix_sums acc l) 0 = acc + zsum (firstn (S k) l).
Proof.
  induction l as [|x l IH]; intros acc k H; cbn [length] in H; [lia|].
  destruct k as [|k]; cbn [prefix_sums nth].
  - cbn [firstn]. rewrite zsum_cons, zsum_nil. lia.
  - rewrite IH by lia. change (firstn (S (S k)) (x :: l)) with (x :: firstn (S k) l). rewrite zsum_cons. lia.
Qed.

(* ---- chunks ------------------------------------------------------------------------------------ *)
Lemma chunks_of_length row n l : length (chunks_of row n l) = n.
Proof. revert l. induction n as [|n IH]; intros l; cbn; [reflexivity | rewrite IH; reflexivity]. Qed.

Lemma chunks_of_nth row : forall n l a, (a < n)%nat ->
  nth a (chunks_of row n l) [] = firstn row (skipn (a * row) l).
Proof.
  induction n as [|n IH]; intros l a H; [lia|]. cbn [chunks_of].
  destruct a as [|a]; cbn [nth]; [reflexivity|].
  rewrite IH by lia. rewrite skipn_skipn_add. reflexivity.
Qed.

Lemma chunk_length row n (l : list Z) a :
  length l = (n * row)%nat -> (a < n)%nat -> length (firstn row (skipn (a * row) l)) = row.
Proof. intros Hl Ha. rewrite firstn_length, skipn_length. nia. Qed.

Lemma chunk_nth row n (l : list Z) a o :
  length l = (n * row)%nat -> (a < n)%nat -> (o < row)%nat ->
  nth o (firstn row (skipn (a * row) l)) 0 = nth (a * row + o) l 0.
Proof. intros Hl Ha Ho. rewrite nth_firstn_lt by exact Ho. apply nth_skipn_add. Qed.

(* ---- vector sums and the running scan ------------------------------------------------------------ *)
Lemma vadd_length a b : length a = length b -> length (vadd a b) = length a.
Proof.
  revert b. induction a as [|x a IH]; intros [|y b] H; cbn in *; try lia. rewrite IH by lia. reflexivity.
Qed.

Lemma vadd_nth a : forall b o, length a = length b -> nth o (vadd a b) 0 = nth o a 0 + nth o b 0.
Proof.
  induction a as [|x a IH]; intros [|y b] o H; cbn [length] in H; try lia.
  - destruct o; reflexivity.
  - destruct o as [|o]; cbn [vadd nth]; [reflexivity | apply IH; lia].
Qed.

(* sum of column o over the first k+1 chunks *)
Definition colsum (cs : list (list Z)) (o k : nat) : Z :=
  zsum (map (fun a => nth o (nth a cs []) 0) (seq 0 (S k))).

Lemma seq_S_app s k : seq s (S k) = seq s k ++ [(s + k)%nat].
Proof. apply seq_S. Qed.

Lemma scan_chunks_spec row : forall cs prev k o,
  Forall (fun c => length c = row) cs ->
  match prev with Some p => length p = row | None => True end ->
  (k < length cs)%nat ->
  length (nth k (scan_chunks prev cs) []) = row /\
  nth o (nth k (scan_chunks prev cs) []) 0 =
    match prev with Some p => nth o p 0 | None => 0 end + colsum cs o k.
Proof.
  induction cs as [|c cs IH]; intros prev k o Hall Hprev Hk; cbn [length] in Hk; [lia|].
  inversion Hall as [|? ? Hc Hcs]; subst.
  cbn [scan_chunks].
  set (c' := match prev with None => c | Some p => vadd c p end).
  assert (Hc' : length c' = length c).
  { unfold c'. destruct prev as [p|]; [apply vadd_length; congruence | reflexivity]. }
  assert (Hn : nth o c' 0 = match prev with Some p => nth o p 0 | None => 0 end + nth o c 0).
  { unfold c'. destruct prev as [p|]; [rewrite vadd_nth by congruence; lia | lia]. }
  destruct k as [|k]; cbn [nth].
  - split; [exact Hc'|]. rewrite Hn. unfold colsum. cbn [seq map nth]. rewrite zsum_cons, zsum_nil. lia.
  - destruct (IH (Some c') k o Hcs Hc' ltac:(lia)) as [H1 H2]. split; [exact H1|].
    rewrite H2, Hn. unfold colsum.
    change (seq 0 (S (S k))) with (0%nat :: seq 1 (S k)). cbn [map]. rewrite zsum_cons.
    rewrite <- seq_shift, map_map. cbn [nth]. lia.
Qed.

Lemma scan_chunks_length prev cs : length (scan_chunks prev cs) = length cs.
Proof. revert prev. induction cs as [|c cs IH]; intros prev; cbn; [reflexivity | rewrite IH; reflexivity]. Qed.

Lemma nth_concat_uniform (row : nat) : forall (cs : list (list Z)) (k o : nat),
  Forall (fun c => length c = row) cs -> (k < length cs)%nat -> (o < row)%nat ->
  nth (k * row + o) (concat cs) 0 = nth o (nth k cs []) 0.
Proof.
  induction cs as [|c cs IH]; intros k o Hall Hk Ho; cbn [length] in Hk; [lia|].
  inversion Hall as [|? ? Hc Hcs]; subst. cbn [concat]. destruct k as [|k].
  - cbn [Nat.mul Nat.add nth]. rewrite app_nth1 by lia. reflexivity.
  - rewrite app_nth2 by nia. replace (S k * length c + o - length c)%nat with (k * length c + o)%nat by nia.
    cbn [nth]. apply IH; [exact Hcs | lia | exact Ho].
Qed.

Lemma concat_length_uniform (row : nat) (cs : list (list Z)) :
  Forall (fun c => length c = row) cs -> length (concat cs) = (length cs * row)%nat.
Proof. induction 1 as [|c cs Hc _ IH]; cbn; [reflexivity | rewrite app_length, IH, Hc; lia]. Qed.

(* ---- the recursive box sum ------------------------------------------------------------------------- *)
Fixpoint boxsum (d : dims) (flat : list Z) (i : list Z) : Z :=
  match d with
  | [] => 0
  | n :: r =>
      match r with
      | [] => match i with [k] => zsum (firstn (S (Z.to_nat k)) flat) | _ => 0 end
      | _ :: _ =>
          match i with
          | k :: i' =>
              let row := Z.to_nat (size r) in
              zsum (map (fun a => boxsum r (firstn row (skipn (a * row) flat)) i') (seq 0 (S (Z.to_nat k))))
          | [] => 0
          end
      end
  end.

Lemma size_pos d : Forall (fun x => 0 < x) d -> 0 < size d.
Proof. induction 1 as [|x l Hx _ IH]; [rewrite size_nil; lia | rewrite size_cons; nia]. Qed.

Lemma integral_rec_spec d : forall flat i,
  Forall (fun x => 0 < x) d -> d <> [] -> length flat = Z.to_nat (size d) -> valid d i ->
  length (integral_rec d flat) = length flat /\
  nth (Z.to_nat (offs d i)) (integral_rec d flat) 0 = boxsum d flat i.
Proof.
  induction d as [|n r IH]; intros flat i Hpos Hne Hlen Hv; [contradiction|].
  inversion Hpos as [|? ? Hn Hr]; subst.
  destruct i as [|k i']; cbn [valid] in Hv; [contradiction|]. destruct Hv as [Hk Hv'].
  destruct r as [|m r'].
  - (* rank 1 *)
    destruct i' as [|? ?]; cbn [valid] in Hv'; [|contradiction].
    cbn [integral_rec boxsum offs]. rewrite size_nil, size_cons, size_nil in *.
    split; [apply prefix_sums_length|].
    replace (Z.to_nat (k * 1 + 0)) with (Z.to_nat k) by lia.
    rewrite prefix_sums_nth by lia. lia.
  - (* rank > 1 *)
    set (r := m :: r') in *.
    assert (Hsr : 0 < size r) by (apply size_pos; exact Hr).
    change (integral_rec (n :: r) flat) with
      (concat (scan_chunks None (map (integral_rec r) (chunks_of (Z.to_nat (size r)) (Z.to_nat n) flat)))).
    set (row := Z.to_nat (size r)). set (cnt := Z.to_nat n).
    rewrite size_cons in Hlen. assert (Hlen' : length flat = (cnt * row)%nat) by (unfold cnt, row; nia).
    set (cs := map (integral_rec r) (chunks_of row cnt flat)).
    assert (Hcs_len : length cs = cnt) by (unfold cs; rewrite map_length; apply chunks_of_length).
    assert (Hchunk : forall a, (a < cnt)%nat ->
              nth a cs [] = integral_rec r (firstn row (skipn (a * row) flat))).
    { intros a Ha. unfold cs.
      rewrite (nth_indep _ [] (integral_rec r [])) by (rewrite map_length, chunks_of_length; exact Ha).
      rewrite map_nth. rewrite chunks_of_nth by exact Ha. reflexivity. }
    assert (Hcs_all : Forall (fun c => length c = row) cs).
    { apply Forall_forall. intros c Hin. apply (In_nth _ _ []) in Hin. destruct Hin as [a [Ha Hc]].
      rewrite Hcs_len in Ha. rewrite Hchunk in Hc by exact Ha. subst c.
      assert (Hcl : length (firstn row (skipn (a * row) flat)) = row) by (apply (chunk_length row cnt); assumption).
      (* any valid index gives the length clause of the induction hypothesis *)
      destruct (offs_unoffset r 0 Hr ltac:(lia)) as [Hv0 _].
      destruct (IH _ _ Hr ltac:(unfold r; discriminate) ltac:(rewrite Hcl; reflexivity) Hv0) as [Hl _].
      rewrite Hl. exact Hcl. }
    pose proof (offs_range r i' Hv') as Horange.
    set (o := Z.to_nat (offs r i')). assert (Ho : (o < row)%nat) by (unfold o, row; lia).
    set (kk := Z.to_nat k). assert (Hkk : (kk < cnt)%nat) by (unfold kk, cnt; lia).
    assert (Hscan_all : Forall (fun c => length c = row) (scan_chunks None cs)).
    { apply Forall_forall. intros c Hin. apply (In_nth _ _ []) in Hin. destruct Hin as [a [Ha Hc]].
      rewrite scan_chunks_length, Hcs_len in Ha. subst c.
      apply (scan_chunks_spec row cs None a 0%nat Hcs_all I). rewrite Hcs_len. exact Ha. }
    split.
    + rewrite (concat_length_uniform row) by exact Hscan_all. rewrite scan_chunks_length, Hcs_len. lia.
    + cbn [offs]. replace (Z.to_nat (k * size r + offs r i')) with (kk * row + o)%nat by (unfold kk, row, o; nia).
      rewrite (nth_concat_uniform row) by (try exact Hscan_all; try exact Ho; rewrite scan_chunks_length, Hcs_len; exact Hkk).
      destruct (scan_chunks_spec row cs None kk o Hcs_all I ltac:(rewrite Hcs_len; exact Hkk)) as [_ Hsum].
      rewrite Hsum. unfold colsum.
      change (boxsum (n :: r) flat (k :: i')) with
        (zsum (map (fun a => boxsum r (firstn row (skipn (a * row) flat)) i') (seq 0 (S kk)))).
      rewrite Z.add_0_l. f_equal. apply map_ext_in. intros a Ha. apply in_seq in Ha.
      rewrite Hchunk by lia.
      assert (Hcl : length (firstn row (skipn (a * row) flat)) = row) by (apply (chunk_length row cnt); [assumption | lia]).
      destruct (IH _ i' Hr ltac:(unfold r; discriminate) ltac:(rewrite Hcl; reflexivity) Hv') as [_ He].
      exact He.
Qed.

(* ---- the box sum is the naive sum over all dominated indices ---------------------------------------- *)
Lemma zsum_flat_map {A} (f : A -> list Z) l : zsum (flat_map f l) = zsum (map (fun x => zsum (f x)) l).
Proof. induction l as [|x l IH]; cbn [flat_map map]; [reflexivity|]. rewrite zsum_app, zsum_cons, IH. reflexivity. Qed.

Lemma filter_flat_map {A B} (p : B -> bool) (f : A -> list B) l :
  filter p (flat_map f l) = flat_map (fun x => filter p (f x)) l.
Proof. induction l as [|x l IH]; cbn [flat_map]; [reflexivity|]. rewrite filter_app, IH. reflexivity. Qed.

Lemma filter_map_cons (p : list Z -> bool) (k : Z) (l : list (list Z)) :
  filter p (map (cons k) l) = map (cons k) (filter (fun t => p (k :: t)) l).
Proof.
  induction l as [|x l IH]; cbn [map filter]; [reflexivity|].
  destruct (p (k :: x)); cbn [map]; rewrite IH; reflexivity.
Qed.

Lemma zsum_map_ext {A} (f g : A -> Z) l : (forall x, In x l -> f x = g x) -> zsum (map f l) = zsum (map g l).
Proof. intros H. f_equal. apply map_ext_in. exact H. Qed.

(* all indices of a shape are valid *)
Lemma all_indices_valid d : Forall (fun x => 0 <= x) d -> forall j, In j (all_indices d) -> valid d j.
Proof.
  induction d as [|n r IH]; intros Hd j Hin; cbn [all_indices] in Hin.
  - destruct Hin as [<-|[]]. exact I.
  - inversion Hd as [|? ? Hn Hr]; subst. apply in_flat_map in Hin. destruct Hin as [k [Hk Hj]].
    apply in_map_iff in Hk. destruct Hk as [a [<- Ha]]. apply in_seq in Ha.
    apply in_map_iff in Hj. destruct Hj as [t [<- Ht]]. cbn [valid]. split; [lia | apply IH; assumption].
Qed.

Lemma map_flat_map {A B C} (g : B -> C) (f : A -> list B) l :
  map g (flat_map f l) = flat_map (fun x => map g (f x)) l.
Proof. induction l as [|x l IH]; cbn [flat_map]; [reflexivity|]. rewrite map_app, IH. reflexivity. Qed.

Lemma zsum_firstn_seq (l : list Z) : forall m, (m <= length l)%nat ->
  zsum (map (fun a => nth a l 0) (seq 0 m)) = zsum (firstn m l).
Proof.
  induction m as [|m IH]; intros Hm; [reflexivity|].
  rewrite seq_S, map_app, zsum_app, IH by lia. cbn [map Nat.add]. rewrite zsum_cons, zsum_nil.
  rewrite (firstn_S_nth m l 0) by lia. rewrite zsum_app, zsum_cons, zsum_nil. reflexivity.
Qed.

Lemma zsum_zero {A} (l : list A) : zsum (map (fun _ => 0) l) = 0.
Proof. induction l as [|x l IH]; cbn [map]; [reflexivity | rewrite zsum_cons, IH; reflexivity]. Qed.

Lemma dominated_cons a t k i' : dominated (a :: t) (k :: i') = (a <=? k) && dominated t i'.
Proof. reflexivity. Qed.

Lemma filter_false {A} (l : list A) : filter (fun _ => false) l = [].
Proof. induction l as [|x l IH]; cbn; [reflexivity | exact IH]. Qed.

(* the naive sum over one leading index a *)
Definition slab (r : dims) (n : Z) (flat : list Z) (i' : list Z) (k a : Z) : Z :=
  zsum (map (fun j => nth (Z.to_nat (offset (n :: r) j)) flat 0)
            (map (cons a) (filter (fun t => dominated (a :: t) (k :: i')) (all_indices r)))).

Lemma naive_split n r flat k i' :
  naive_integral_at (n :: r) flat (k :: i') =
  zsum (map (slab r n flat i' k) (map Z.of_nat (seq 0 (Z.to_nat n)))).
Proof.
  unfold naive_integral_at. cbn [all_indices].
  rewrite filter_flat_map, map_flat_map, zsum_flat_map. apply zsum_map_ext. intros a _.
  unfold slab. rewrite filter_map_cons. reflexivity.
Qed.

Lemma naive_eq_boxsum d : forall flat i,
  Forall (fun x => 0 < x) d -> d <> [] -> length flat = Z.to_nat (size d) -> valid d i ->
  naive_integral_at d flat i = boxsum d flat i.
Proof.
  induction d as [|n r IH]; intros flat i Hpos Hne Hlen Hv; [contradiction|].
  inversion Hpos as [|? ? Hn Hr]; subst.
  destruct i as [|k i']; cbn [valid] in Hv; [contradiction|]. destruct Hv as [Hk Hv'].
  rewrite naive_split.
  (* split the leading indices into a <= k and a > k *)
  assert (Hseq : seq 0 (Z.to_nat n) = seq 0 (S (Z.to_nat k)) ++ seq (S (Z.to_nat k)) (Z.to_nat n - S (Z.to_nat k))).
  { rewrite <- seq_app. f_equal. lia. }
  rewrite Hseq, !map_app, zsum_app.
  assert (Hhigh : zsum (map (slab r n flat i' k) (map Z.of_nat (seq (S (Z.to_nat k)) (Z.to_nat n - S (Z.to_nat k))))) = 0).
  { rewrite map_map. erewrite zsum_map_ext; [apply zsum_zero|]. intros a Ha. apply in_seq in Ha.
    unfold slab. erewrite (filter_ext _ (fun _ => false)); [rewrite filter_false; reflexivity|].
    intros t. rewrite dominated_cons. destruct (Z.leb_spec (Z.of_nat a) k); [lia | reflexivity]. }
  rewrite Hhigh, Z.add_0_r, map_map.
  rewrite size_cons in Hlen.
  destruct r as [|m r'].
  - (* rank 1 *)
    destruct i' as [|? ?]; cbn [valid] in Hv'; [|contradiction].
    cbn [boxsum]. rewrite size_nil in Hlen.
    rewrite <- zsum_firstn_seq by lia. apply zsum_map_ext. intros a Ha. apply in_seq in Ha.
    unfold slab. cbn [all_indices filter]. rewrite dominated_cons. cbn [dominated].
    destruct (Z.leb_spec (Z.of_nat a) k); [|lia]. cbn [andb map]. rewrite zsum_cons, zsum_nil.
    cbn [offset]. unfold src_get_index_last. rewrite Nat2Z.id. lia.
  - (* rank > 1 *)
    set (r := m :: r') in *. assert (Hsr : 0 < size r) by (apply size_pos; exact Hr).
    change (boxsum (n :: r) flat (k :: i')) with
      (zsum (map (fun a => boxsum r (firstn (Z.to_nat (size r)) (skipn (a * Z.to_nat (size r)) flat)) i') (seq 0 (S (Z.to_nat k))))).
    apply zsum_map_ext. intros a Ha. apply in_seq in Ha.
    set (row := Z.to_nat (size r)). set (chunk := firstn row (skipn (a * row) flat)).
    assert (Hlen' : length flat = (Z.to_nat n * row)%nat) by (unfold row; nia).
    assert (Hcl : length chunk = row) by (apply (chunk_length row (Z.to_nat n)); [exact Hlen' | lia]).
    rewrite <- (IH chunk i' Hr ltac:(unfold r; discriminate) ltac:(rewrite Hcl; reflexivity) Hv').
    unfold slab, naive_integral_at. rewrite map_map.
    erewrite (filter_ext _ (fun t => dominated t i')).
    2:{ intros t. rewrite dominated_cons. destruct (Z.leb_spec (Z.of_nat a) k); [reflexivity | lia]. }
    apply zsum_map_ext. intros t Ht. apply filter_In in Ht. destruct Ht as [Ht _].
    assert (Hvt : valid r t).
    { apply all_indices_valid; [|exact Ht]. eapply Forall_impl; [|exact Hr]. intros x Hx; cbn beta in Hx; lia. }
    pose proof (offs_range r t Hvt) as Hor.
    assert (Hva : valid (n :: r) (Z.of_nat a :: t)) by (cbn [valid]; split; [lia | exact Hvt]).
    rewrite (offset_offs (n :: r)) by (apply valid_length; exact Hva).
    rewrite (offset_offs r) by (apply valid_length; exact Hvt).
    cbn [offs]. unfold chunk.
    rewrite (chunk_nth row (Z.to_nat n)) by (try exact Hlen'; unfold row; lia).
    f_equal. unfold row. nia.
Qed.

(* ---- the theorem ---------------------------------------------------------------------------------- *)
Theorem integral_is_prefix_sums d flat i :
  Forall (fun x => 0 < x) d -> d <> [] -> Z.of_nat (length flat) = size d -> validb d i = true ->
  nth (Z.to_nat (offset d i)) (integral d flat) 0 = naive_integral_at d flat i.
Proof.
  intros Hpos Hne Hlen Hv. apply validb_spec in Hv.
  assert (Hs : 0 < size d) by (apply size_pos; exact Hpos).
  unfold integral. destruct (Z.gtb_spec (size d) 0); [|lia].
  rewrite (offset_offs d) by (apply valid_length; exact Hv).
  destruct (integral_rec_spec d flat i Hpos Hne ltac:(lia) Hv) as [_ H1].
  rewrite H1. symmetry. apply naive_eq_boxsum; try assumption. lia.
Qed.
