(* extraction of the executable C14 model. Z / positive are mapped to Zarith big integers
   (ExtrOcamlZBigInt): the statistics of a 300-sample column of doubles are rationals with
   numerators of several hundred bits, far too slow on the unary-binary inductives. *)
From Coq Require Import List ZArith QArith Extraction ExtrOcamlBasic ExtrOcamlZBigInt.
From LN Require Import C14_Defs.
Extraction Language OCaml.
Extraction "extracted/c14_model.ml" qlt qmin qmax acc0 update1 accumulate accumulate_batched finite var_of done1
  col_stats mode_of_Z scale1 upscale1 scale_row upscale_row scaling_w scaling_b dot up_bias up_wrow
  batches qred_stats Qred Qplus Qminus Qmult Qdiv Qopp Qle_bool Qeq_bool inject_Z.
