(* extraction of the executable C14 model. Z / positive are mapped to Zarith big integers
   (ExtrOcamlZBigInt): the statistics of a 300-sample column of doubles are rationals with
   numerators of several hundred bits, far too slow on the unary-binary inductives.
   Extension: the binary64 twin (C14_FloatDefs) goes into the same module; primitive floats / 63-bit integers map to
   OCaml's native floats / Uint63 of coq-core.kernel (ExtrOCamlFloats, ExtrOCamlInt63).
   Second extension: C14_Float2Defs (scaled columns of the twin) and C14_WrapDefs (linear_t::fit / predict as compositions). *)
From Coq Require Import List ZArith QArith Floats Extraction ExtrOcamlBasic ExtrOcamlZBigInt ExtrOCamlFloats ExtrOCamlInt63.
From LN Require Import C14_Defs C14_FloatDefs C14_Float2Defs C14_WrapDefs.
Extraction Language OCaml.
Extraction "extracted/c14_model.ml" qlt qmin qmax acc0 update1 accumulate accumulate_batched finite var_of done1
  col_stats mode_of_Z scale1 upscale1 scale_row upscale_row scaling_w scaling_b dot up_bias up_wrow
  batches qred_stats Qred Qplus Qminus Qmult Qdiv Qopp Qle_bool Qeq_bool inject_Z
  fmax_cpp fmin_cpp fscale_one fupscale_one f_off f_div f_mul chain_finite facc0 fupdate1 faccumulate fdone fcol_stats
  fmk_w fmk_b fup_w fup_b fup_term feq_bits float_of_count var_finite
  (* second extension: scaled columns of the twin, the wrappers of src/linear.cpp *)
  ffin_entries fscale_col scale_finite col_scale_finite fcol_acc
  Z_of_mode lin_store fit_mode_f fit_mode_t train_mode fit_store predict_mode lin_predict wrap_predict scaled_outputs ref_predict
  zero_missing miss_vec miss_terms qadd_list.
