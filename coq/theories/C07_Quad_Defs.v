(* C07, QUAD extension -- the line searches in EXACT arithmetic (no proofs here).

   The same algorithms as C07_Defs.v (lsearchk_t::get, backtrack, lemarechal, fletcher + zoom, and the pieces of
   More-Thuente / CG_DESCENT that decide a success), read over the ordered field Q instead of binary64:
   every arithmetic expression is the exact-rational reading (Src_c07_q.v, generated on every run from the same
   translated source trees as the PrimFloat reading) of the C++ expression; `std::isfinite(x)` of the double code
   becomes "no division by zero / no square root of a negative number" (option type); std::min / std::max / std::clamp
   keep libstdc++'s argument order.  The probe oracle is `phi : Q -> qprobe` (valid, f, dg); C07_Quad.v specialises
   it to the convex quadratic  phi(t) = f0 + g0 t + (a/2) t^2.

   Values handed to the oracle are normalised with Qred (== is preserved, numerators stay small).

   anchors: src/lsearchk.cpp, src/lsearchk/{backtrack,lemarechal,fletcher,morethuente,cgdescent}.cpp,
            src/solver/lstep.cpp, src/solver/state.cpp *)
From Coq Require Import List ZArith QArith Qabs Bool.
From LNGen Require Import Src_c07_q.
Import ListNotations.
Local Open Scope Q_scope.

(* ---------- data ---------- *)
Record qprobe := mkQP { qv : bool; qf : Q; qg : Q }.                 (* state.valid(), state.fx(), state.dg(descent) *)
Record qstep := mkQS { qs_t : Q; qs_f : Q; qs_g : Q }.               (* lsearch_step_t {t, f, g} *)

Record qparams := mkQPrm {
  qc1 : Q; qc2 : Q;                  (* lsearchk::tolerance *)
  qmaxit : Z;                        (* lsearchk::max_iterations *)
  qinterp : Z;                       (* 0 bisection, 1 quadratic, 2 cubic *)
  qsafeguard : Q;                    (* backtrack / lemarechal *)
  qtau1 : Q;                         (* lemarechal / fletcher *)
  qtau2 : Q; qtau3 : Q;              (* fletcher tau23 *)
  qcg_epsilon : Q }.                 (* cgdescent::epsilon *)

Record qstate := mkQSt { qcur : qprobe; qcnt : Z; qtrace : list Q }.   (* last probe + ghosts: #probes, requested t's *)
Record qresult := mkQR { qok : bool; qrt : Q; qrs : qstate }.

(* ---------- libstdc++ helpers ---------- *)
Definition qmin (a b : Q) : Q := if qltb b a then b else a.            (* std::min(a, b) *)
Definition qmax (a b : Q) : Q := if qltb a b then b else a.            (* std::max(a, b) *)
Definition qclamp (v lo hi : Q) : Q := qmin (qmax v lo) hi.            (* std::clamp(v, lo, hi) *)

(* exact on squares of rationals (floor of the roots of numerator / denominator of the reduced fraction otherwise) *)
Definition qsqrt (q : Q) : Q := let r := Qred q in (Z.sqrt (Qnum r)) # (Pos.sqrt (Qden r)).
Definition qsqrt_exact (q : Q) : bool := Qeq_bool (qsqrt q * qsqrt q) q.

(* ---------- constants: the exact values of the binary64 constants of C07_Defs.v ---------- *)
Definition q_eps : Q := 1 # 4503599627370496.                                        (* 2^-52 *)
Definition q_eps0 : Q := 2535301200456459 # 2535301200456458802993406410752.         (* 0x1.203af9ee75616p-50 = (double)1e-15 *)
Definition q_eps1 : Q := 7737125245533627 # 77371252455336267181195264.              (* 0x1.b7cdfd9d7bdbbp-34 = (double)1e-10 *)
Definition q_stpmin : Q := src_ls_stpmin_q q_eps.
Definition q_k03 : Q := 5404319552844595 # 18014398509481984.                        (* 0x1.3333333333333p-2 = (double)0.3 *)

(* ---------- predicates of state.cpp ---------- *)
Definition q_has_descent (p : qprobe) : bool := src_has_descent_q (qg p).
Definition q_has_armijo (p0 p : qprobe) (t c1 : Q) : bool := src_has_armijo_q (qf p) (qf p0) t c1 (qg p0).
Definition q_has_approx_armijo (p0 p : qprobe) (epsilon : Q) : bool := src_has_approx_armijo_q (qf p) (qf p0) epsilon.
Definition q_has_wolfe (p0 p : qprobe) (c2 : Q) : bool := src_has_wolfe_q (qg p) c2 (qg p0).
Definition q_has_strong_wolfe (p0 p : qprobe) (c2 : Q) : bool :=
  src_has_strong_wolfe_q (Qabs (qg p)) c2 (Qabs (qg p0)).
Definition q_has_approx_wolfe (p0 p : qprobe) (c1 c2 : Q) : bool := src_has_approx_wolfe_q (qg p) c1 c2 (qg p0).

(* ---------- lstep.cpp; None = the double code would produce a non-finite value ---------- *)
Definition K6 {A : Type} (f : Q -> Q -> Q -> Q -> Q -> Q -> A) (u v : qstep) : A :=
  f (qs_t u) (qs_f u) (qs_g u) (qs_t v) (qs_f v) (qs_g v).

Definition q_cubic (u v : qstep) : option Q :=
  if Qeq_bool (qs_t u - qs_t v) 0 then None
  else
    let d1 := K6 src_cubic_d1_q u v in
    let disc := K6 src_cubic_disc_q u v d1 in
    if qltb disc 0 then None
    else
      let d2 := K6 src_cubic_sign_q u v * qsqrt disc in
      if Qeq_bool (K6 src_cubic_den_q u v d2) 0 then None
      else Some (K6 src_cubic_ret_q u v d1 d2).

Definition q_quadratic (u v : qstep) : option Q :=
  let dt := K6 src_quadratic_dt_q u v in
  let df := K6 src_quadratic_df_q u v in
  if Qeq_bool dt 0 then None
  else if Qeq_bool (K6 src_quadratic_den_q u v dt df) 0 then None
  else Some (K6 src_quadratic_ret_q u v dt df (1 # 2)).

Definition q_secant (u v : qstep) : option Q :=
  if Qeq_bool (K6 src_secant_den_q u v) 0 then None else Some (K6 src_secant_q u v).

Definition q_bisection (u v : qstep) : Q := K6 src_bisection_q u v (1 # 2).

Definition q_interpolate (u v : qstep) (method : Z) : Q :=
  let tb := q_bisection u v in
  let tq := match q_quadratic u v with Some x => x | None => tb end in
  if (method =? 2)%Z then match q_cubic u v with Some x => x | None => tq end
  else if (method =? 1)%Z then tq
  else tb.

Definition qstep_of (t : Q) (p : qprobe) : qstep := mkQS t (qf p) (qg p).

Inductive qalg := QBacktrack | QLemarechal | QFletcher.

Section QModel.
  Variable phi : Q -> qprobe.              (* exact probe oracle *)
  Variable prm : qparams.
  Variable p0 : qprobe.                    (* state0 *)

  Definition q_fuel (z : Z) : nat := Z.to_nat z.

  Definition q_update (s : qstate) (t : Q) : qstate := mkQSt (phi t) (qcnt s + 1)%Z (t :: qtrace s).

  Definition q_armijo (s : qstate) (t : Q) : bool := q_has_armijo p0 (qcur s) t (qc1 prm).
  Definition q_wolfe (s : qstate) : bool := q_has_wolfe p0 (qcur s) (qc2 prm).
  Definition q_swolfe (s : qstate) : bool := q_has_strong_wolfe p0 (qcur s) (qc2 prm).
  Definition q_step0 : qstep := qstep_of 0 p0.

  (* ---------- backtrack.cpp ---------- *)
  Definition q_bt_next (s : qstate) (t : Q) : Q :=
    let tmin := qmin 0 t in
    let tmax := qmax 0 t in
    let imin := src_bt_interp_min_q tmin (qsafeguard prm) tmax in
    let imax := src_bt_interp_max_q tmin (qsafeguard prm) tmax in
    Qred (qclamp (q_interpolate q_step0 (qstep_of t (qcur s)) (qinterp prm)) imin imax).

  Fixpoint q_backtrack (fuel : nat) (s : qstate) (t : Q) : qresult :=
    match fuel with
    | O => mkQR false t s
    | S k =>
      if negb (qv (qcur s)) then mkQR false t s
      else if q_armijo s t then mkQR true t s
      else
        let t' := q_bt_next s t in
        let s' := q_update s t' in
        if qv (qcur s') then q_backtrack k s' t' else mkQR false t' s'
    end.

  (* ---------- lemarechal.cpp ---------- *)
  Definition q_lem_interp_a (L R : qstep) : Q :=
    qclamp (q_interpolate L R (qinterp prm)) (src_lem_interp_min_a_q (qs_t L) (qsafeguard prm) (qs_t R))
           (src_lem_interp_max_a_q (qs_t L) (qsafeguard prm) (qs_t R)).
  Definition q_lem_interp_b (L R : qstep) : Q :=
    qclamp (q_interpolate L R (qinterp prm)) (src_lem_interp_min_b_q (qs_t L) (qsafeguard prm) (qs_t R))
           (src_lem_interp_max_b_q (qs_t L) (qsafeguard prm) (qs_t R)).

  Fixpoint q_lemarechal (fuel : nat) (s : qstate) (t : Q) (L R : qstep) : qresult :=
    match fuel with
    | O => mkQR false t s
    | S k =>
      if q_armijo s t then
        if q_wolfe s then mkQR true t s
        else
          let L' := qstep_of t (qcur s) in
          let t' := Qred (if src_lem_r_unset_q (qs_t R) q_eps0 then src_lem_extrapolate_q (qtau1 prm) (qs_t L')
                          else q_lem_interp_a L' R) in
          let s' := q_update s t' in
          if qv (qcur s') then q_lemarechal k s' t' L' R else mkQR false t' s'
      else
        let R' := qstep_of t (qcur s) in
        let t' := Qred (q_lem_interp_b L R') in
        let s' := q_update s t' in
        if qv (qcur s') then q_lemarechal k s' t' L R' else mkQR false t' s'
    end.

  (* ---------- fletcher.cpp ---------- *)
  Definition q_zoom_next (lo hi : qstep) : Q :=
    let adiff := Qabs (qs_t hi - qs_t lo) in
    Qred (qclamp (q_interpolate lo hi (qinterp prm))
                 (src_zoom_tmin_q (qs_t lo) (qs_t hi) (qtau2 prm) (qc2 prm) adiff)
                 (src_zoom_tmax_q (qs_t lo) (qs_t hi) (qtau3 prm) adiff)).

  Fixpoint q_zoom (fuel : nat) (s : qstate) (lo hi : qstep) : qresult :=
    match fuel with
    | O => mkQR false (qs_t hi) s
    | S k =>
      if negb (src_zoom_guard_q (Qabs (qs_t lo - qs_t hi)) q_eps0) then mkQR false (qs_t hi) s
      else
        let t := q_zoom_next lo hi in
        let s' := q_update s t in
        if negb (qv (qcur s')) then mkQR false t s'
        else if src_zoom_to_hi_q (q_armijo s' t) (qf (qcur s')) (qs_f lo) then q_zoom k s' lo (qstep_of t (qcur s'))
        else if q_swolfe s' then mkQR true t s'
        else
          let hi' := if src_zoom_flip_q (qg (qcur s')) (qs_t hi) (qs_t lo) then lo else hi in
          q_zoom k s' (qstep_of t (qcur s')) hi'
    end.

  Definition q_fl_next (prev curr : qstep) : Q :=
    Qred (qclamp (q_interpolate prev curr (qinterp prm)) (src_fl_tmin_q (qs_t curr) (qs_t prev))
                 (src_fl_tmax_q (qs_t curr) (qtau1 prm) (qs_t prev))).

  Fixpoint q_fletcher (fuel : nat) (s : qstate) (t : Q) (prev curr : qstep) : qresult :=
    match fuel with
    | O => mkQR false t s
    | S k =>
      if src_fl_to_zoom_q (q_armijo s t) (qs_f curr) (qs_f prev) then q_zoom (q_fuel (qmaxit prm)) s prev curr
      else if q_swolfe s then mkQR true t s
      else if negb (q_has_descent (qcur s)) then q_zoom (q_fuel (qmaxit prm)) s curr prev
      else
        let t' := q_fl_next prev curr in
        let s' := q_update s t' in
        if negb (qv (qcur s')) then mkQR false t' s'
        else q_fletcher k s' t' curr (qstep_of t' (qcur s'))
    end.

  (* ---------- morethuente.cpp: the convergence test (the exit every success on a quadratic should take) ---------- *)
  Definition q_mt_gtest : Q := src_mth_gtest_q (qc1 prm) (qg p0).
  Definition q_mt_ftest (stp : Q) : Q := src_mth_ftest_q (qf p0) stp q_mt_gtest.
  Definition q_mt_converged (p : qprobe) (stp : Q) : bool :=
    src_mth_converged_q (qf p) (q_mt_ftest stp) (Qabs (qg p)) (qg p) (qc2 prm) (qg p0).

  (* ---------- cgdescent.cpp: interval_t::done and the first secant step of the main loop ---------- *)
  Definition q_cg_epsk : Q := src_cg_epsilonk_q (qcg_epsilon prm) (Qabs (qf p0)).
  Definition q_cg_accept (p : qprobe) (t : Q) : bool :=
    src_cg_done_accept_q (q_has_armijo p0 p t (qc1 prm)) (q_has_wolfe p0 p (qc2 prm))
                         (q_has_approx_armijo p0 p q_cg_epsk) (q_has_approx_wolfe p0 p (qc1 prm) (qc2 prm)).
  Definition q_cg_done (a b : qstep) (t : Q) (p : qprobe) (bracketed : bool) : bool :=
    if src_cg_done_failed_q bracketed (qs_f a) (qf p0) q_cg_epsk (qs_g b) (qv p) then true
    else if src_cg_done_outside_q t (qs_t a) (qs_t b) then false
    else q_cg_accept p t.

  (* `move_update_and_check_done(secant(a, b))` up to its first `done` *)
  Definition q_cg_first_secant (s : qstate) (a b : qstep) : option (bool * Q * qstate) :=
    match q_secant a b with
    | None => None
    | Some tc => let t := Qred tc in let s' := q_update s t in Some (q_cg_done a b t (qcur s') true, t, s')
    end.

  (* ---------- lsearchk.cpp: lsearchk_t::get ---------- *)
  Definition q_do_get (a : qalg) (s : qstate) (t : Q) : qresult :=
    match a with
    | QBacktrack => q_backtrack (q_fuel (qmaxit prm)) s t
    | QLemarechal => q_lemarechal (q_fuel (qmaxit prm - 1)) s t q_step0 q_step0
    | QFletcher => q_fletcher (q_fuel (qmaxit prm - 1)) s t q_step0 (qstep_of t (qcur s))
    end.

  Fixpoint q_shrink (fuel : nat) (s : qstate) (t : Q) : qstate * Q :=
    match fuel with
    | O => (s, t)
    | S k => let s' := q_update s t in if qv (qcur s') then (s', t) else q_shrink k s' (Qred (t * q_k03))
    end.

  Fixpoint q_grow (fuel : nat) (s : qstate) (t : Q) : bool * (qstate * Q) :=
    match fuel with
    | O => (true, (s, t))
    | S k =>
      if qltb (Qabs (qf (qcur s) - qf p0)) q_eps1 then
        let t' := Qred (t * 3) in
        let s' := q_update s t' in
        if qv (qcur s') then q_grow k s' t' else (false, (s', t'))
      else (true, (s, t))
    end.

  Definition q_init_state : qstate := mkQSt p0 0%Z [].
  (* every rational is finite *)
  Definition q_init_step (t0 : Q) : Q := Qred (src_ls_init_step_q true (qclamp t0 q_stpmin 1)).

  Definition q_ls_get (a : qalg) (t0 : Q) : qresult :=
    if negb (q_has_descent p0) then mkQR false t0 q_init_state
    else
      let '(s1, t1) := q_shrink (q_fuel (qmaxit prm)) q_init_state (q_init_step t0) in
      if src_ls_stale_guard_q (qv (qcur s1)) then mkQR false t1 s1
      else
        let '(go, (s2, t2)) := q_grow (q_fuel (qmaxit prm)) s1 t1 in
        if go then q_do_get a s2 t2 else mkQR false t2 s2.
End QModel.

Definition qalg_of_Z (z : Z) : qalg :=
  if (z =? 0)%Z then QBacktrack else if (z =? 1)%Z then QLemarechal else QFletcher.

(* ---------- the convex quadratic  phi(t) = f0 + g0 t + (a/2) t^2,  dphi(t) = g0 + a t ---------- *)
Definition quad_f (f0 g0 a t : Q) : Q := f0 + g0 * t + a * t * t * (1 # 2).
Definition quad_g (g0 a t : Q) : Q := g0 + a * t.
Definition quad (f0 g0 a : Q) (t : Q) : qprobe := mkQP true (Qred (quad_f f0 g0 a t)) (Qred (quad_g g0 a t)).
Definition quad0 (f0 g0 : Q) : qprobe := mkQP true f0 g0.
Definition tstar (g0 a : Q) : Q := - g0 / a.

(* the ends of the acceptance regions *)
Definition armijo_hi (c1 g0 a : Q) : Q := 2 * (1 - c1) * tstar g0 a.      (* U *)
Definition wolfe_lo (c2 g0 a : Q) : Q := (1 - c2) * tstar g0 a.           (* W *)
Definition swolfe_hi (c2 g0 a : Q) : Q := (1 + c2) * tstar g0 a.          (* V *)

Fixpoint qpow (x : Q) (n : nat) : Q := match n with O => 1 | S k => x * qpow x k end.

(* explicit iteration bounds: the least n <= fuel with  rho^n * w <= target  (None: not reached within fuel) *)
Fixpoint geo_steps (fuel : nat) (rho w target : Q) : option nat :=
  if Qle_bool w target then Some O
  else match fuel with
       | O => None
       | S k => match geo_steps k rho (Qred (rho * w)) target with Some n => Some (S n) | None => None end
       end.

(* the least n <= fuel with  target <= rho^n * w  (growth, rho > 1) *)
Fixpoint geo_grow (fuel : nat) (rho w target : Q) : option nat :=
  if Qle_bool target w then Some O
  else match fuel with
       | O => None
       | S k => match geo_grow k rho (Qred (rho * w)) target with Some n => Some (S n) | None => None end
       end.

(* N(t0, t*, c1) of backtracking: probes after the first one; any interpolation *)
Definition bt_bound (fuel : nat) (s c1 g0 a t : Q) : option nat := geo_steps fuel (1 - s) t (armijo_hi c1 g0 a).
(* sharper, quadratic interpolation and c1 <= 1/2: 1 + least m with s^m * (s t) <= t*  *)
Definition bt_bound_quadratic (fuel : nat) (s g0 a t : Q) : option nat :=
  match geo_steps fuel s (s * t) (tstar g0 a) with Some m => Some (S m) | None => None end.
(* lemarechal: extrapolations until W is passed + bracket shrinking until the bracket is narrower than U - W *)
Definition lem_bound (fuel : nat) (s tau1 c1 c2 g0 a t : Q) : option nat :=
  match geo_grow fuel tau1 t (wolfe_lo c2 g0 a) with
  | None => None
  | Some n1 =>
    match geo_steps fuel (1 - s) (qmax t (tau1 * wolfe_lo c2 g0 a)) (armijo_hi c1 g0 a - wolfe_lo c2 g0 a) with
    | None => None
    | Some n2 => Some (n1 + n2)%nat
    end
  end.
