(* extraction of the executable C15 codec model (ExtrOcamlBasic only; N/Z/positive stay the extracted inductives) *)
From Coq Require Import List ZArith NArith Extraction ExtrOcamlBasic.
From LN Require Import C15_Defs C15_Dest_Defs.
Extraction Language OCaml.
Extraction "extracted/c15_model.ml" enc dec accepts reencodes tensor_fmt param_fmt config_fmt feature_fmt string_fmt
  vector_fmt learner_fmt linear_fmt gboost_fmt object_fmt plain_object_fmt wlearner_table affine_fmt stump_fmt hinge_fmt
  table_fmt dtree_fmt hash_elems hash_combine tensor_elems hdr_rawdims hdr_hash vfst vsnd vnat vlist vstring
  mk_tensor mk_string param_type
  (* extension: the stateful readers *)
  rd read_into erase reuse_result reuse_state dest_of_bytes src_policy early_exit_policy skip_resize_policy zero_junk
  d_string d_vector d_param d_config d_feature d_learner d_linear d_gboost d_object d_plain_object d_wlearner_table
  d_affine d_stump d_hinge d_table d_dtree state_dims state_elems.
