(* extraction of the executable C15 codec model (ExtrOcamlBasic only; N/Z/positive stay the extracted inductives) *)
From Coq Require Import List ZArith NArith Extraction ExtrOcamlBasic.
From LN Require Import C15_Defs.
Extraction Language OCaml.
Extraction "extracted/c15_model.ml" enc dec accepts reencodes tensor_fmt param_fmt config_fmt feature_fmt string_fmt
  vector_fmt learner_fmt linear_fmt gboost_fmt object_fmt plain_object_fmt wlearner_table affine_fmt stump_fmt hinge_fmt
  table_fmt dtree_fmt hash_elems hash_combine tensor_elems hdr_rawdims hdr_hash vfst vsnd vnat vlist vstring
  mk_tensor mk_string param_type.
