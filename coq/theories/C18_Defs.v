(* C18 -- shared const objects are thread-safe with schedule-independent results: the ACCESS-DISCIPLINE model.
   (style E/A, partial by nature: the theorems are about the discipline below; that the C++ code follows it is
   validated on every run by ThreadSanitizer + differential runs, see tools/checks/c18.py)

   A call / task is abstracted to its FOOTPRINT: the abstract locations it reads and writes.  Locations:
     LConst o        state of object o reached only through its const interface (solver parameters and line-search
                     prototypes, loss, dataset storage, fitted model, result_t::m_params after add())
     LClone c k      k-th object created inside call c (make_lsearch() clones, solver state, local iterators)
     LBuf o fam i    i-th per-thread buffer of family fam of object o (m_flatten_buffers[i], m_accumulators[i], caches[i])
     LRow o i        row i of an output tensor of o (m_flatten.slice(range), outputs.slice(range), values)
     LSlot r i       slot i of result_t r (m_values.tensor(trial, fold), m_extras[trial * folds + fold])
     LCounter f      function_t::m_fcalls / m_gcalls of function object f (mutable, not synchronised)
   The INDICES used by the code (which buffer, which slot, how many buffers) are the kernels translated from the source
   on every run (coq/generated/Src_c18.v).  No proofs in this file. *)
From Coq Require Import List Arith Bool ZArith.
From LNGen Require Import Src_numeric Src_c18.
From LN Require Import C17_Defs.
Import ListNotations.

(* ================================================================================================================ *)
(* A. locations, footprints, conflicts                                                                               *)
(* ================================================================================================================ *)
Inductive loc :=
| LConst (obj : nat)
| LClone (call k : nat)
| LBuf (owner fam idx : nat)
| LRow (owner : nat) (i : Z)
| LSlot (res : nat) (i : Z)
| LCounter (fn : nat).

Definition loc_eqb (a b : loc) : bool :=
  match a, b with
  | LConst x, LConst y => Nat.eqb x y
  | LClone c k, LClone c' k' => Nat.eqb c c' && Nat.eqb k k'
  | LBuf o f i, LBuf o' f' i' => Nat.eqb o o' && Nat.eqb f f' && Nat.eqb i i'
  | LRow o i, LRow o' i' => Nat.eqb o o' && Z.eqb i i'
  | LSlot r i, LSlot r' i' => Nat.eqb r r' && Z.eqb i i'
  | LCounter f, LCounter f' => Nat.eqb f f'
  | _, _ => false
  end.

Record footprint := { reads : list loc; writes : list loc }.

Definition memb (l : loc) (ls : list loc) : bool := existsb (loc_eqb l) ls.
Definition overlapb (a b : list loc) : bool := existsb (fun l => memb l b) a.
(* write/write, write/read or read/write overlap *)
Definition conflictb (f g : footprint) : bool :=
  overlapb (writes f) (writes g) || overlapb (writes f) (reads g) || overlapb (reads f) (writes g).
Definition conflict (f g : footprint) : Prop :=
  exists l, (In l (writes f) /\ (In l (writes g) \/ In l (reads g))) \/ (In l (reads f) /\ In l (writes g)).

(* pairwise conflict freedom of a list of footprints (executable) *)
Fixpoint pairwise_free (l : list footprint) : bool :=
  match l with
  | [] => true
  | f :: r => forallb (fun g => negb (conflictb f g)) r && pairwise_free r
  end.

(* ================================================================================================================ *)
(* B. a small shared-memory machine: deterministic sequential programs with data-dependent control flow and          *)
(*    addresses; threads interleave at the granularity of single reads / writes                                      *)
(* ================================================================================================================ *)
Section Machine.
  Variables V R : Type.

  Inductive prog :=
  | Done (r : R)
  | Read (l : loc) (k : V -> prog)
  | Write (l : loc) (v : V) (k : prog).

  Definition mem := loc -> V.
  Definition mupd (m : mem) (l : loc) (v : V) : mem := fun l' => if loc_eqb l' l then v else m l'.

  (* the call executed alone *)
  Fixpoint solo (p : prog) (m : mem) : R * mem :=
    match p with
    | Done r => (r, m)
    | Read l k => solo (k (m l)) m
    | Write l v k => solo k (mupd m l v)
    end.

  (* one atomic action *)
  Definition step1 (p : prog) (m : mem) : prog * mem :=
    match p with
    | Done _ => (p, m)
    | Read l k => (k (m l), m)
    | Write l v k => (k, mupd m l v)
    end.

  Fixpoint set_nth {A} (l : list A) (i : nat) (x : A) : list A :=
    match l, i with
    | [], _ => []
    | _ :: r, O => x :: r
    | a :: r, S j => a :: set_nth r j x
    end.

  (* a schedule is the list of thread indices in the order in which they perform their next action
     (an index of a finished or non-existing thread stutters) *)
  Fixpoint exec (ps : list prog) (m : mem) (sched : list nat) : list prog * mem :=
    match sched with
    | [] => (ps, m)
    | i :: s =>
        match nth_error ps i with
        | None => exec ps m s
        | Some p => let (p', m') := step1 p m in exec (set_nth ps i p') m' s
        end
    end.

  Definition finished_prog (p : prog) : option R := match p with Done r => Some r | _ => None end.

  (* the program only touches its declared footprint, whatever it reads *)
  Fixpoint obeys (fp : footprint) (p : prog) : Prop :=
    match p with
    | Done _ => True
    | Read l k => In l (reads fp ++ writes fp) /\ forall v, obeys fp (k v)
    | Write l _ k => In l (writes fp) /\ obeys fp k
    end.
End Machine.
Arguments Done {V R}. Arguments Read {V R}. Arguments Write {V R}.
Arguments solo {V R}. Arguments step1 {V R}. Arguments exec {V R}. Arguments obeys {V R}. Arguments mupd {V}.
Arguments finished_prog {V R}. Arguments set_nth {A}.

(* ================================================================================================================ *)
(* C. tasks of a pool (dataset iterators, objective functions, weak learners): per-thread buffers indexed by tnum     *)
(* ================================================================================================================ *)
Local Open Scope Z_scope.

(* the families of per-thread vectors in the library, each with the translated index expression and size expression *)
Inductive okind :=
| KFlatten | KFlattenCache | KTargets | KTargetsCache
| KSelSclass | KSelMclass | KSelScalar | KSelStruct
| KLinearAcc | KGboostAcc0 | KGboostAcc1
| KStump | KAffine | KHinge | KTable (i : nat).

Definition index_of (k : okind) (tnum : Z) : Z :=
  match k with
  | KFlatten => src_c18_flatten_buf_index tnum
  | KFlattenCache => src_c18_flatten_cache_buf_index tnum
  | KTargets => src_c18_targets_buf_index tnum
  | KTargetsCache => src_c18_targets_cache_buf_index tnum
  | KSelSclass => src_c18_select_sclass_index tnum
  | KSelMclass => src_c18_select_mclass_index tnum
  | KSelScalar => src_c18_select_scalar_index tnum
  | KSelStruct => src_c18_select_struct_index tnum
  | KLinearAcc => src_c18_linear_acc_index tnum
  | KGboostAcc0 => src_c18_gboost_acc_index_0 tnum
  | KGboostAcc1 => src_c18_gboost_acc_index_1 tnum
  | KStump => src_c18_stump_cache_index tnum
  | KAffine => src_c18_affine_cache_index tnum
  | KHinge => src_c18_hinge_cache_index tnum
  | KTable 0 => src_c18_table_cache_index_0 tnum
  | KTable 1 => src_c18_table_cache_index_1 tnum
  | KTable 2 => src_c18_table_cache_index_2 tnum
  | KTable 3 => src_c18_table_cache_index_3 tnum
  | KTable 4 => src_c18_table_cache_index_4 tnum
  | KTable 5 => src_c18_table_cache_index_5 tnum
  | KTable 6 => src_c18_table_cache_index_6 tnum
  | KTable _ => src_c18_table_cache_index_7 tnum
  end.

(* number of buffers of the family, given the size of the dataset's pool *)
Definition count_of (k : okind) (pool_size : Z) : Z :=
  let conc := src_c18_iterator_concurrency (src_c18_dataset_concurrency pool_size) in
  match k with
  | KFlatten | KFlattenCache => src_c18_flatten_buffers conc
  | KTargets | KTargetsCache => src_c18_targets_buffers conc
  | KSelSclass | KSelMclass | KSelScalar | KSelStruct => src_c18_select_buffers conc
  | KLinearAcc => src_c18_linear_accumulators conc
  | KGboostAcc0 => src_c18_gboost_accumulators_0 conc
  | KGboostAcc1 => src_c18_gboost_accumulators_1 conc
  | KStump => src_c18_stump_caches conc
  | KAffine => src_c18_affine_caches conc
  | KHinge => src_c18_hinge_caches conc
  | KTable 0 | KTable 1 => src_c18_table_caches_0 conc
  | KTable 2 | KTable 3 => src_c18_table_caches_1 conc
  | KTable 4 | KTable 5 => src_c18_table_caches_2 conc
  | KTable _ => src_c18_table_caches_3 conc
  end.

Definition kind_code (k : okind) : nat :=
  match k with
  | KFlatten | KFlattenCache => 0 | KTargets | KTargetsCache => 1
  | KSelSclass => 2 | KSelMclass => 3 | KSelScalar => 4 | KSelStruct => 5
  | KLinearAcc => 6 | KGboostAcc0 => 7 | KGboostAcc1 => 8 | KStump => 9 | KAffine => 10 | KHinge => 11
  | KTable _ => 12
  end%nat.

(* number of workers of a pool constructed with `threads`, and the ids handed to them *)
Definition pool_size (threads max_size : Z) : Z := src_c18_nworkers threads max_size.
Fixpoint worker_ids_from (fuel : nat) (tnum n_workers : Z) : list Z :=
  match fuel with
  | O => []
  | S f => if src_c18_worker_continue tnum n_workers then tnum :: worker_ids_from f (tnum + 1) n_workers else []
  end.
Definition worker_ids (n_workers : Z) : list Z := worker_ids_from (Z.to_nat n_workers) src_c18_worker_first n_workers.

(* static description of a task: the per-thread vectors its operator indexes with tnum (object, family), the output
   tensor of which it writes the rows [lo, hi), and the const objects it reads *)
Record tdesc := {
  d_bufs   : list (nat * okind);
  d_out    : nat;
  d_lo     : Z;
  d_hi     : Z;
  d_consts : list nat;
}.

Definition rows (o : nat) (lo hi : Z) : list loc :=
  map (fun i => LRow o (lo + Z.of_nat i)) (seq 0 (Z.to_nat (hi - lo))).

(* the footprint of the task when it runs on the worker with id w (= the tnum it is handed) *)
Definition task_fp (d : tdesc) (w : nat) : footprint :=
  {| reads  := map LConst (d_consts d);
     writes := map (fun b => LBuf (fst b) (kind_code (snd b)) (Z.to_nat (index_of (snd b) (Z.of_nat w)))) (d_bufs d)
               ++ rows (d_out d) (d_lo d) (d_hi d) |}.

(* the tasks of the in-flight map() call of a submitting thread *)
Definition active (x : sub) : list tid :=
  match stg x with
  | SNotifyAll ts _ => ts
  | SGet _ all _ => all
  | SWait _ all _ _ => all
  | _ => []
  end.

Definition is_enqueue (c : call) : bool := match c with CEnqueue _ => true | _ => false end.
(* the library only uses map(); fire-and-forget enqueue() is not part of the discipline *)
Definition no_enqueue (progs : list (list call)) : bool := forallb (fun pr => forallb (fun c => negb (is_enqueue c)) pr) progs.

(* ================================================================================================================ *)
(* D. the tasks of one ml::tune batch                                                                                *)
(* ================================================================================================================ *)
(* task `index` of a batch appended after old_trials trials; `closest` = result.closest_trial(params, old_trials) *)
Definition tune_fp (res : nat) (folds old_trials closest index : Z) : footprint :=
  let fold := src_c18_fold index folds in
  let trial := src_c18_trial index folds in
  {| reads  := [LConst res; LSlot res (src_c18_slot_load (src_c18_extra_trial closest) fold folds)];
     writes := [LSlot res (src_c18_slot_store (src_c18_store_trial old_trials trial) fold folds)] |}.

Definition closest_okb (old_trials c : Z) : bool :=
  ((0 <=? c) && (c <? src_c18_closest_limit old_trials)) || (c =? 0).

(* what a (hypothetical) tune that called result.add() inside the parallel section would touch: the whole table *)
Definition tune_add_fp (res : nat) (slots : Z) : footprint :=
  {| reads := []; writes := LConst res :: map (fun i => LSlot res (Z.of_nat i)) (seq 0 (Z.to_nat slots)) |}.

(* ================================================================================================================ *)
(* E. calls through the const interface from user threads                                                            *)
(* ================================================================================================================ *)
Inductive ucall :=
| UMinimize (solver fn : nat)               (* solver.minimize(fn, x0): clones the line-search prototypes per call *)
| UMinimizeShared (solver fn : nat)         (* counter-model: a minimize that used the prototypes in place *)
| ULoss (loss targets outputs buf : nat)    (* loss.error/value/vgrad(targets, outputs, buf) *)
| UDataset (dataset buf : nat)              (* dataset.flatten/select/targets(samples, buf) *)
| UPredict (model dataset out : nat).       (* model.predict(dataset, samples) -> out *)

Definition user_fp (call_id : nat) (c : ucall) : footprint :=
  match c with
  | UMinimize s f => {| reads := [LConst s]; writes := [LClone call_id 0; LClone call_id 1; LClone call_id 2; LCounter f] |}
  | UMinimizeShared s f => {| reads := [LConst s]; writes := [LConst s; LClone call_id 2; LCounter f] |}
  | ULoss l t o b => {| reads := [LConst l; LConst t; LConst o]; writes := [LBuf b 0 0] |}
  | UDataset d b => {| reads := [LConst d]; writes := [LBuf b 0 0] |}
  | UPredict m d o => {| reads := [LConst m; LConst d]; writes := [LClone call_id 0; LBuf o 0 0] |}
  end.

(* the private (per-thread) object of a call: the thing that must not be shared *)
Definition private_of (c : ucall) : loc :=
  match c with
  | UMinimize _ f | UMinimizeShared _ f => LCounter f
  | ULoss _ _ _ b | UDataset _ b => LBuf b 0 0
  | UPredict _ _ o => LBuf o 0 0
  end.
Definition clones_in_place (c : ucall) : bool := match c with UMinimizeShared _ _ => true | _ => false end.

Fixpoint user_fps (first_id : nat) (cs : list ucall) : list footprint :=
  match cs with
  | [] => []
  | c :: r => user_fp first_id c :: user_fps (S first_id) r
  end.

(* ================================================================================================================ *)
(* F. reductions over the per-thread accumulators                                                                    *)
(* ================================================================================================================ *)
Definition zsum (l : list Z) : Z := fold_right Z.add 0 l.

(* accumulator[t] = sum of the values of the chunks executed with tnum t (assign : (tnum, value) in execution order) *)
Definition bin (assign : list (nat * Z)) (t : nat) : Z :=
  fold_left Z.add (map snd (filter (fun a => Nat.eqb (fst a) t) assign)) 0.
Definition bins (n : nat) (assign : list (nat * Z)) : list Z := map (bin assign) (seq 0 n).

(* sum_reduce: for (i = 1; i < size; ++i) acc[0] += acc[i] *)
Fixpoint reduce_loop (fuel : nat) (i : Z) (accs : list Z) (acc0 : Z) : Z :=
  match fuel with
  | O => acc0
  | S f => if src_c18_reduce_continue i (Z.of_nat (length accs))
           then reduce_loop f (i + 1) accs (acc0 + nth (Z.to_nat i) accs 0)
           else acc0
  end.
Definition sum_reduce (accs : list Z) : Z := reduce_loop (length accs) src_c18_reduce_first accs (nth 0 accs 0).

(* weak-learner fit: cache[t] keeps the best (score, feature) among the features evaluated with tnum t
   (`score < cache.m_score`, strict; None = no_fit_score); min_reduce = std::min_element = FIRST smallest *)
Definition cache := option (Z * Z).
Definition cache_update (c : cache) (sf : Z * Z) : cache :=
  match c with
  | None => Some sf
  | Some (s, _) => if fst sf <? s then Some sf else c
  end.
Definition best (l : list (Z * Z)) : cache := fold_left cache_update l None.
Definition cache_less (a b : cache) : bool :=
  match a, b with
  | Some (s, _), Some (s', _) => s <? s'
  | Some _, None => true
  | None, _ => false
  end.
Fixpoint min_reduce_go (cur : cache) (rest : list cache) : cache :=
  match rest with
  | [] => cur
  | c :: r => if cache_less c cur then min_reduce_go c r else min_reduce_go cur r
  end.
Definition min_reduce (cs : list cache) : cache := match cs with [] => None | c :: r => min_reduce_go c r end.
(* sched : (tnum, (score, feature)) in execution order *)
Definition caches (n : nat) (sched : list (nat * (Z * Z))) : list cache :=
  map (fun t => best (map snd (filter (fun a => Nat.eqb (fst a) t) sched))) (seq 0 n).
Definition fit_select (n : nat) (sched : list (nat * (Z * Z))) : cache := min_reduce (caches n sched).

(* F'. the SAME selection with the comparisons the source really uses (translated on every run): the per-thread "better than
   the best kept so far" test of every weak-learner fit cache and the comparison of min_reduce.  C18_Proofs shows these are the
   strict `<` of cache_update / cache_less above, i.e. ONE strict order inside a worker and across workers: that is what makes
   the selection a minimum and hence independent of the assignment of features to workers. *)
Inductive wkind := WAffine | WStump | WHingeNeg | WHingePos | WTable (i : nat).
Definition better_src (k : wkind) (score best_ : Z) : bool :=
  match k with
  | WAffine => src_c18_better_affine score best_
  | WStump => src_c18_better_stump score best_
  | WHingeNeg => src_c18_better_hinge_neg score best_
  | WHingePos => src_c18_better_hinge_pos score best_
  | WTable 0 => src_c18_better_table_0 score best_
  | WTable 1 => src_c18_better_table_1 score best_
  | WTable _ => src_c18_better_table_2 score best_
  end.
Definition cache_update_src (k : wkind) (c : cache) (sf : Z * Z) : cache :=
  match c with
  | None => Some sf
  | Some (s, _) => if better_src k (fst sf) s then Some sf else c
  end.
Definition best_src (k : wkind) (l : list (Z * Z)) : cache := fold_left (cache_update_src k) l None.
Definition cache_less_src (a b : cache) : bool :=
  match a, b with
  | Some (s, _), Some (s', _) => src_c18_reduce_less s s'
  | Some _, None => true
  | None, _ => false
  end.
Fixpoint min_reduce_go_src (cur : cache) (rest : list cache) : cache :=
  match rest with
  | [] => cur
  | c :: r => if cache_less_src c cur then min_reduce_go_src c r else min_reduce_go_src cur r
  end.
Definition min_reduce_src (cs : list cache) : cache := match cs with [] => None | c :: r => min_reduce_go_src c r end.
Definition caches_src (k : wkind) (n : nat) (sched : list (nat * (Z * Z))) : list cache :=
  map (fun t => best_src k (map snd (filter (fun a => Nat.eqb (fst a) t) sched))) (seq 0 n).
Definition fit_select_src (k : wkind) (n : nat) (sched : list (nat * (Z * Z))) : cache := min_reduce_src (caches_src k n sched).

(* counter-model: a worker that only accepts improvements larger than eps, combined with the strict min_reduce *)
Definition cache_update_eps (eps : Z) (c : cache) (sf : Z * Z) : cache :=
  match c with
  | None => Some sf
  | Some (s, _) => if fst sf <? s - eps then Some sf else c
  end.
Definition fit_select_eps (eps : Z) (n : nat) (sched : list (nat * (Z * Z))) : cache :=
  min_reduce (map (fun t => fold_left (cache_update_eps eps) (map snd (filter (fun a => Nat.eqb (fst a) t) sched)) None) (seq 0 n)).

(* ================================================================================================================ *)
(* G. executable checks of what the instrumented implementation was observed to do (used by ocaml/c18_driver.ml)     *)
(* ================================================================================================================ *)
Record obs := {
  o_owner : nat; o_kinds : list okind; o_lo : Z; o_hi : Z; o_tnum : Z; o_t0 : Z; o_t1 : Z;
}.
Definition obs_fp (o : obs) : footprint :=
  task_fp {| d_bufs := map (fun k => (o_owner o, k)) (o_kinds o); d_out := o_owner o; d_lo := o_lo o; d_hi := o_hi o;
             d_consts := [0%nat] |} (Z.to_nat (o_tnum o)).
Definition time_overlap (a b : obs) : bool := (o_t0 a <=? o_t1 b) && (o_t0 b <=? o_t1 a).
(* every two observed tasks that overlapped in time have conflict-free model footprints *)
Fixpoint overlaps_free (l : list obs) : bool :=
  match l with
  | [] => true
  | a :: r => forallb (fun b => negb (time_overlap a b) || negb (conflictb (obs_fp a) (obs_fp b))) r && overlaps_free r
  end.
(* the tnum handed to a task indexes an existing buffer of every family it uses *)
Definition tnum_in_range (pool : Z) (o : obs) : bool :=
  forallb (fun k => (0 <=? index_of k (o_tnum o)) && (index_of k (o_tnum o) <? count_of k pool)) (o_kinds o).
(* chunked map: the fast-path decision and the chunk list of the model (C17_Defs.chunks, proved to tile [0, n)) *)
Definition loop_inline (pool chunk n : Z) : bool := src_c18_chunked_inline pool chunk n.
Definition loop_chunks (n chunk : Z) : list (Z * Z) := chunks n chunk.
Definition select_chunk (features pool : Z) : Z :=
  src_c18_features_per_thread features (src_c18_iterator_concurrency (src_c18_dataset_concurrency pool)).

(* one observed tune task: (trial, fold, closest trial or -1 when the extra was empty, t0, t1) *)
Record tobs := { u_trial : Z; u_fold : Z; u_closest : Z; u_t0 : Z; u_t1 : Z }.
Definition tune_index (folds old_trials : Z) (u : tobs) : Z := (u_trial u - old_trials) * folds + u_fold u.
Definition tune_decodes (folds old_trials : Z) (u : tobs) : bool :=
  let i := tune_index folds old_trials u in
  (src_c18_store_trial old_trials (src_c18_trial i folds) =? u_trial u) && (src_c18_fold i folds =? u_fold u).
Definition tobs_fp (folds old_trials : Z) (u : tobs) : footprint :=
  tune_fp 0 folds old_trials (Z.max 0 (u_closest u)) (tune_index folds old_trials u).
Definition tune_time_overlap (a b : tobs) : bool := (u_t0 a <=? u_t1 b) && (u_t0 b <=? u_t1 a).
Fixpoint tune_overlaps_free (folds old_trials : Z) (l : list tobs) : bool :=
  match l with
  | [] => true
  | a :: r => forallb (fun b => negb (tune_time_overlap a b)
                                || negb (conflictb (tobs_fp folds old_trials a) (tobs_fp folds old_trials b))) r
              && tune_overlaps_free folds old_trials r
  end.
Definition tune_batch_inline (pool folds new_trials : Z) : bool := src_c18_indexed_inline pool (src_c18_tasks folds new_trials).
Definition tune_slot (folds trial fold : Z) : Z := src_c18_slot_store trial fold folds.
