(* C19, third extension -- the clone clause as statements about the CLONE table regenerated from the source on every run
   (LNGen.Src_c19_clones, written by tools/checks/c19_clones.py).  Executable definitions only, no proofs.

   * `clone_copy_this r`     the return expression of T::clone() is std::make_unique<T>( *this ) with T the enclosing class
                             (as written, or its injected class name);
   * `copy_ctor_complete c`  a user-written copy constructor passes `other` to every base, copies / deep-clones every data
                             member (owning pointers must be deep-cloned), has no other initialiser and an empty body;
   * `implicit_copy_memberwise c`  a class without user-written copy constructor has only value members or read-only
                             (pointer/reference to const) ones: the member-wise copy neither is ill-formed (unique_ptr) nor
                             aliases mutable state (raw pointer / reference / shared_ptr);
   * semantic model: an object = (class, parameter state, owned components); `oclone` is virtual clone() as the TABLE
     classifies it (CopyOfThis -> copy construction along the class chain as the table classifies the member initialisers,
     DefaultConstructed -> the default object of that class); a store of objects with clone and assignment through a path
     of owned components. *)
From Coq Require Import ZArith List Bool String Ascii.
From LNGen Require Import Src_c19_params Src_c19_clones.
From LN Require Import C19_Defs C19_FactoryDefs.
Import ListNotations.

(* ---------------------------------------------------------------------------------------------- *)
(* checks on the table                                                                              *)
Definition own_class (r : sclone_rec) (t : string) : bool := String.eqb t (sc_class r) || String.eqb t (sc_key r).

Definition clone_copy_this (r : sclone_rec) : bool :=
  match sc_ret r with CopyOfThis t => own_class r t | _ => false end.

Definition owning (k : smember_kind) : bool := match k with MUniquePtr | MUniquePtrVec => true | _ => false end.
Definition aliasing (k : smember_kind) : bool := match k with MSharedPtr | MRawPtr | MRef => true | _ => false end.

Definition deep_init (m : string) (i : sinit) : bool := match i with IDeepCloned n => String.eqb n m | _ => false end.
Definition copy_init (m : string) (i : sinit) : bool := match i with ICopied n => String.eqb n m | _ => false end.
Definition base_passed (inits : list sinit) (b : string) : bool :=
  existsb (fun i => match i with IBase n true => String.eqb n b | _ => false end) inits.
Definition init_plain (i : sinit) : bool := match i with IOther _ _ | IBase _ false => false | _ => true end.

Definition member_copied (inits : list sinit) (m : smember) : bool :=
  if owning (sm_kind m) then existsb (deep_init (sm_name m)) inits
  else existsb (copy_init (sm_name m)) inits || existsb (deep_init (sm_name m)) inits.

Definition copy_ctor_complete (c : sclass) : bool :=
  match cl_copy c with
  | UserCopy _ _ inits body_empty =>
      forallb (member_copied inits) (cl_members c) && forallb (base_passed inits) (cl_bases c) &&
      forallb init_plain inits && body_empty
  | _ => true
  end.

Definition implicit_copy_memberwise (c : sclass) : bool :=
  match cl_copy c with
  | ImplicitCopy | DefaultedCopy => forallb (fun m => negb (owning (sm_kind m)) && negb (aliasing (sm_kind m))) (cl_members c)
  | DeletedCopy => false
  | UserCopy _ _ _ _ => forallb (fun m => negb (aliasing (sm_kind m))) (cl_members c)
  end.

(* ---------------------------------------------------------------------------------------------- *)
(* the semantic model, generic in the tables                                                        *)
Inductive obj := Obj (cls : string) (cfg : config) (comps : list (string * obj)).

Definition obj_cls (o : obj) : string := match o with Obj c _ _ => c end.
Definition obj_cfg (o : obj) : config := match o with Obj _ c _ => c end.
Definition obj_comps (o : obj) : list (string * obj) := match o with Obj _ _ l => l end.

Inductive ckind := KThis | KDefault (t : string) | KBad.
Inductive minit := InitDeep | InitFresh | InitIllFormed.

Definition is_this (k : ckind) : bool := match k with KThis => true | _ => false end.
Definition is_deep (k : minit) : bool := match k with InitDeep => true | _ => false end.

Section Model.
  Variable clones : list sclone_rec.
  Variable classes : list sclass.
  Variable fresh : string -> obj.       (* what `T()` builds *)

  Definition find_class (n : string) : option sclass := find (fun c => String.eqb (cl_name c) n) classes.
  Definition find_clone (key : string) : option sclone_rec := find (fun r => String.eqb (sc_key r) key) clones.

  Fixpoint chain (fuel : nat) (n : string) : list sclass :=
    match fuel with
    | O => []
    | S f => match find_class n with
             | Some c => c :: flat_map (chain f) (cl_bases c)
             | None => []
             end
    end.
  Definition chain_of (n : string) : list sclass := chain (S (List.length classes)) n.

  Definition clone_kind (cls : string) : ckind :=
    match find_clone cls with
    | Some r => match sc_ret r with
                | CopyOfThis t => if own_class r t then KThis else KBad
                | DefaultConstructed t => KDefault t
                | _ => KBad
                end
    | None => KBad
    end.

  (* the configurable_t base receives `other` through every constructor of the chain; otherwise it is default-constructed:
     no parameter at all (registrations happen in the bodies of the default constructors only) *)
  Definition params_copied (cls : string) : bool :=
    forallb (fun c => match cl_copy c with
                      | UserCopy _ _ inits _ => forallb (base_passed inits) (cl_bases c)
                      | DeletedCopy => false
                      | _ => true
                      end) (chain_of cls).

  Definition class_member_init (c : sclass) (m : string) : option minit :=
    match find (fun x => String.eqb (sm_name x) m) (cl_members c) with
    | Some x =>
        if owning (sm_kind x) then
          Some (match cl_copy c with
                | UserCopy _ _ inits body_empty =>
                    if existsb (deep_init m) inits && body_empty then InitDeep
                    else if existsb (copy_init m) inits then InitIllFormed else InitFresh
                | _ => InitIllFormed
                end)
        else None
    | None => None
    end.

  Fixpoint first_some {A B} (f : A -> option B) (l : list A) : option B :=
    match l with [] => None | x :: r => match f x with Some y => Some y | None => first_some f r end end.

  Definition member_init (cls m : string) : minit :=
    match first_some (fun c => class_member_init c m) (chain_of cls) with Some k => k | None => InitIllFormed end.

  (* virtual clone(), as the table classifies it *)
  Fixpoint oclone (o : obj) : option obj :=
    match o with
    | Obj cls cfg comps =>
        match clone_kind cls with
        | KThis =>
            let fix go (l : list (string * obj)) : option (list (string * obj)) :=
              match l with
              | [] => Some []
              | (m, c) :: r =>
                  match (match member_init cls m with
                         | InitDeep => oclone c
                         | InitFresh => Some (fresh (obj_cls c))
                         | InitIllFormed => None
                         end), go r with
                  | Some c', Some r' => Some ((m, c') :: r')
                  | _, _ => None
                  end
              end in
            match go comps with
            | Some comps' => Some (Obj cls (if params_copied cls then cfg else []) comps')
            | None => None
            end
        | KDefault t => Some (fresh t)
        | KBad => None
        end
    end.

  Fixpoint obj_ok (o : obj) : bool :=
    match o with
    | Obj cls _ comps =>
        is_this (clone_kind cls) && params_copied cls &&
        (fix go (l : list (string * obj)) : bool :=
           match l with [] => true | (m, c) :: r => is_deep (member_init cls m) && obj_ok c && go r end) comps
    end.

  Definition has_clone (cls : string) : bool := match find_clone cls with Some _ => true | None => false end.
  Definition owned_member (cls m : string) : bool :=
    existsb (fun c => existsb (fun x => String.eqb (sm_name x) m && owning (sm_kind x)) (cl_members c)) (chain_of cls).

  (* an object over the table: its class overrides clone(), components hang on owning members declared along its chain *)
  Fixpoint shaped (o : obj) : bool :=
    match o with
    | Obj cls _ comps =>
        has_clone cls &&
        (fix go (l : list (string * obj)) : bool :=
           match l with [] => true | (m, c) :: r => owned_member cls m && shaped c && go r end) comps
    end.

  Definition class_clone_ok (key : string) : bool :=
    is_this (clone_kind key) && params_copied key &&
    forallb (fun c => forallb (fun x => negb (owning (sm_kind x)) || is_deep (member_init key (sm_name x))) (cl_members c))
            (chain_of key).

  (* ---- a store of objects: clone, assignment to a parameter of a (nested) owned component --------------------------- *)
  Fixpoint oset (o : obj) (path : list nat) (name : str) (a : arg) : obj :=
    match o with
    | Obj cls cfg comps =>
        match path with
        | [] => Obj cls (match cassign cfg name a with COk c' => c' | _ => cfg end) comps
        | k :: p =>
            Obj cls cfg
              ((fix go (l : list (string * obj)) (i : nat) : list (string * obj) :=
                  match l with
                  | [] => []
                  | (m, c) :: r => match i with
                                   | O => (m, oset c p name a) :: r
                                   | S j => (m, c) :: go r j
                                   end
                  end) comps k)
        end
    end.

  Definition ostore := list obj.
  Inductive oop := OSet (i : nat) (path : list nat) (name : str) (a : arg) | OClone (i : nat).

  Fixpoint oupdate (st : ostore) (i : nat) (o : obj) : ostore :=
    match st, i with
    | [], _ => []
    | _ :: r, O => o :: r
    | x :: r, S j => x :: oupdate r j o
    end.

  Definition ostep (st : ostore) (op : oop) : option ostore :=
    match op with
    | OSet i path name a => match nth_error st i with Some o => Some (oupdate st i (oset o path name a)) | None => Some st end
    | OClone i => match nth_error st i with
                  | Some o => match oclone o with Some o' => Some (st ++ [o']) | None => None end
                  | None => Some st
                  end
    end.

  Fixpoint orun (st : ostore) (h : list oop) : option ostore :=
    match h with [] => Some st | op :: h' => match ostep st op with Some st' => orun st' h' | None => None end end.

  Definition otargets (op : oop) (j : nat) : bool := match op with OSet i _ _ _ => Nat.eqb i j | OClone _ => false end.
End Model.

(* ---------------------------------------------------------------------------------------------- *)
(* the instance of the run: the tables regenerated from the source                                 *)
Definition default_obj (t : string) : obj :=
  Obj t (match find (fun o => String.eqb (so_key o) t || String.eqb (so_label o) t) src_c19_objects with
         | Some o => match object_config o with Some c => c | None => [] end
         | None => []
         end) [].

Definition src_oclone : obj -> option obj := oclone src_c19_clones src_c19_classes default_obj.
Definition src_class_clone_ok : string -> bool := class_clone_ok src_c19_clones src_c19_classes.
Definition src_shaped : obj -> bool := shaped src_c19_clones src_c19_classes.

(* what the driver reports per table entry *)
Definition clone_table : list (str * Z * str * str * bool * bool) :=
  map (fun r => (bytes_of (sc_file r), sc_line r, bytes_of (sc_class r), bytes_of (sc_key r), clone_copy_this r,
                 src_class_clone_ok (sc_key r))) src_c19_clones.

Definition class_table : list (str * str * Z * bool * bool) :=
  map (fun c => (bytes_of (cl_name c), bytes_of (cl_file c), cl_line c, copy_ctor_complete c, implicit_copy_memberwise c))
      src_c19_classes.

(* hand-made tables for the refutations / non-vacuity *)
Local Open Scope Z_scope.
Definition demo_cfg : config := [mkParam [97] (SIRange 5 0 10 LE LE)].
Definition demo_fresh (t : string) : obj := Obj t demo_cfg [].
Definition demo_classes (solver_copy : scopy) : list sclass :=
  [mkSClass "S" "demo.h" 1 ["configurable_t"]
     [mkSMember "m_l" "rl_t" MUniquePtr "L"; mkSMember "m_type" "int" MValue ""] solver_copy;
   mkSClass "L" "demo.h" 2 ["configurable_t"] [] ImplicitCopy;
   mkSClass "configurable_t" "demo.h" 3 [] [mkSMember "m_parameters" "parameters_t" MValue ""] DefaultedCopy]%string.
Definition demo_clones (s_ret : sclone_kind) : list sclone_rec :=
  [mkSClone "demo.cpp" 1 "S" "S" false s_ret; mkSClone "demo.cpp" 2 "L" "L" false (CopyOfThis "L")]%string.
Definition demo_copy_good : scopy :=
  UserCopy "demo.cpp" 3 [IBase "configurable_t" true; IDeepCloned "m_l"; ICopied "m_type"] true.
Definition demo_copy_forgets : scopy := UserCopy "demo.cpp" 3 [IBase "configurable_t" true; ICopied "m_type"] false.
Definition demo_copy_nobase : scopy := UserCopy "demo.cpp" 3 [IDeepCloned "m_l"; ICopied "m_type"] true.
Definition demo_obj (v w : Z) : obj :=
  Obj "S" [mkParam [97] (SIRange v 0 10 LE LE)] [("m_l"%string, Obj "L" [mkParam [97] (SIRange w 0 10 LE LE)] [])].
