(* C20 extension -- the percentile position as the source writes it, and its exact-integer reference.
   Executable definitions only (proofs: C20_Float.v).

   include/nano/core/stats.h, detail::percentile:
       const double position = percentage * static_cast<double>(size - 1) / 100.0;
       const auto lpos = static_cast<decltype(size)>(std::floor(position));
       const auto rpos = static_cast<decltype(size)>(std::ceil(position));
       if (lpos == rpos) return from_position(lpos);
       else { sum = lvalue + rvalue; return std::isfinite(sum) ? (sum / 2) : (lvalue / 2 + rvalue / 2); }
   [pct_position] (C20_Defs) is the binary64 expression; here the two index expressions and the midpoint are taken
   from the translated kernels of group `pctpos` (Src_pctpos: the casts of floor/ceil, `(lvalue + rvalue) / 2`, and
   the position expression with the double conversions erased). *)
From Coq Require Import List ZArith Bool Floats.
From LNGen Require Import Src_pctile Src_pctpos.
From LN Require Import C20_Defs.
Import ListNotations.
Local Open Scope Z_scope.

(* lpos / rpos through the translated index expressions *)
Definition pct_lpos_src (p : float) (size : Z) : Z :=
  let pos := pct_position p size in src_pct_lpos (float_floor pos) (float_ceil pos).
Definition pct_rpos_src (p : float) (size : Z) : Z :=
  let pos := pct_position p size in src_pct_rpos (float_floor pos) (float_ceil pos) (pct_lpos_src p size).

(* detail::percentile over a lazily generated sorted array: from_position(i) = f i *)
Definition percentile_fn {T} (Op : ops T) (f : Z -> T) (size : Z) (p : float) : T :=
  let l := pct_lpos_src p size in
  let r := pct_rpos_src p size in
  if src_pct_same l r then f l else mid Op (f l) (f r).
(* ... the array a[i] = i of `size` doubles (sizes up to 2^31 and beyond without storing the array) *)
Definition percentile_iota (size : Z) (p : float) : float := percentile_fn float_ops Z2F size p.

(* the dyadic rational denoted by a finite binary64 number: Some (k, j) with value k / 2^j, j >= 0, in lowest
   terms (trailing zero bits of the significand are cancelled against the negative exponent) *)
Fixpoint ctz (p : positive) : Z := match p with xO q => 1 + ctz q | _ => 0 end.
Definition SF_dyadic (x : spec_float) : option (Z * Z) :=
  match x with
  | S754_zero _ => Some (0, 0)
  | S754_finite s m e =>
      let z := if s then Zneg m else Zpos m in
      if 0 <=? e then Some (z * 2 ^ e, 0)
      else let t := Z.min (- e) (ctz m) in Some (z / 2 ^ t, - e - t)
  | _ => None
  end.
Definition float_dyadic (p : float) : option (Z * Z) := SF_dyadic (Prim2SF p).

(* the sorted-array reference of the property, in exact integer arithmetic:
   floor and ceiling of the rational position (k / 2^j) * (n - 1) / 100 *)
Definition ref_lpos (k j n : Z) : Z := (k * (n - 1)) / (100 * 2 ^ j).
Definition ref_rpos (k j n : Z) : Z := - ((- (k * (n - 1))) / (100 * 2 ^ j)).

(* the side condition of C20_position_exact: the product k (n-1) fits the 53-bit significand (so the product is
   exact and the rounding error of the quotient is below the distance 1/(100 2^j) of a non-integral quotient to the
   integers) and the quotient cannot underflow (j <= 1015: a non-zero quotient is at least 2^-1022) *)
Definition pos_side_ok (k j n : Z) : bool :=
  (0 <=? k) && (0 <=? j) && (j <=? 1015) && (1 <=? n) && (n - 1 <? 2 ^ 53) && (k * (n - 1) <? 2 ^ 53).

(* Some (reference lpos, reference rpos) when the theorem applies to (p, n) *)
Definition pos_reference (p : float) (n : Z) : option (Z * Z) :=
  match float_dyadic p with
  | Some (k, j) => if pos_side_ok k j n then Some (ref_lpos k j n, ref_rpos k j n) else None
  | None => None
  end.

(* the midpoint as the source writes it, in binary64 (/repo 985fdb5):
     const auto sum = lvalue + rvalue;  return std::isfinite(sum) ? (sum / 2) : (lvalue / 2 + rvalue / 2); *)
Definition fmid (a b : float) : float :=
  let sum := (a + b)%float in
  if PrimFloat.is_finite sum then (sum / 2)%float else (a / 2 + b / 2)%float.
(* ... and as it was before the repair: `(lvalue + rvalue) / 2` (kept for C20_midpoint_prefix_refuted) *)
Definition fmid_prefix (a b : float) : float := ((a + b) / 2)%float.

(* the domain of the percentage: `assert(percentage >= 0.0 && percentage <= 100.0)` (false for NaN) *)
Definition pct_in_range (p : float) : bool := (0 <=? p)%float && (p <=? 100)%float.
Definition pct_le (p q : float) : bool := (p <=? q)%float.
