(* C11, extension "assemble" -- executable model of the model-assembly code of src/gboost/model.cpp:
     * gboost_model_t::do_predict, per sample: the row of the outputs buffer is ASSIGNED the bias (whatever it held), then
       every weak learner adds its prediction, in list order;
     * ::fit (anonymous namespace), the per-round accumulation of the outputs buffer: the chosen learner is scaled by
       gstate.x() * shrinkage_ratio, its prediction from zero (woutputs) is computed, with local shrinkage both the learner and
       woutputs are multiplied by the tuned ratio (which also REPLACES shrinkage_ratio for the following rounds), then
       outputs += woutputs and the learner is stored;
     * result.done(optimum.round()): erase [begin + round, end), then wlearner::merge;
     * gboost_model_t::fit, the block after ml::tune: bias := 0, m_wlearners.clear(), for every fold of the optimum trial
       bias += fold bias and the fold's learners are appended (clones), wlearner::merge, bias *= 1/folds, every learner
       scaled by (1/folds).
   Weak learners, their predict / scale / try_merge / merge are the ones of the C10 model (C10_Defs: wl, predict,
   predict_all, scale, merge), not restated. The loop bounds, the 1/folds factor, the (trial, fold) read, the reset of the
   learner list and the cut-back index are kernels translated from the source on every run (Src_asm).
   No proofs here. *)
From Coq Require Import List ZArith Bool QArith.
From LNGen Require Import Src_earlystop Src_mlresult Src_asm.
From LN Require Import C10_Defs C11_Defs.
Import ListNotations.
Local Open Scope Q_scope.

(* {m_bias, m_wlearners} of gboost_model_t and of gboost::result_t (a per-fold model) *)
Record gbm := mk_gbm { g_bias : list Q; g_ws : list wl }.
Definition gbm0 : gbm := mk_gbm [] [].

(* ------------------------------------------------------------------------------------------------------------ *)
(* do_predict                                                                                                     *)
(* ------------------------------------------------------------------------------------------------------------ *)
(* outputs.reshape(samples, -1).matrix().rowwise() = m_bias.vector().transpose(): the row is assigned; how many times its
   previous contents [prev] survive is read from the assignment operator of the source (kernel: 0 for `=`) *)
Definition assign_row (no : nat) (bias prev : list Q) : list Q :=
  tab no (fun o => if (src_predict_keep_prev =? 0)%Z then rget o bias
                   else inject_Z src_predict_keep_prev * rget o prev + rget o bias).
(* for (const auto& wlearner : m_wlearners) wlearner->predict(dataset, samples, outputs) *)
Definition gbm_predict (no : nat) (m : gbm) (s : sample) (prev : list Q) : list Q :=
  predict_all no (g_ws m) s (assign_row no (g_bias m) prev).

(* the same accumulation when every learner is given by the increment it adds at the sample (None = sample untouched):
   what the driver evaluates on the per-learner prediction vectors of the real library *)
Definition add_incr (no : nat) (out : list Q) (d : option (list Q)) : list Q :=
  match d with None => out | Some d => tab no (fun o => rget o out + rget o d) end.
Definition sum_incrs (no : nat) (bias : list Q) (ds : list (option (list Q))) (prev : list Q) : list Q :=
  fold_left (add_incr no) ds (assign_row no bias prev).
(* component-wise mean of a list of output rows *)
Definition avg_rows (no : nat) (rows : list (list Q)) : list Q :=
  tab no (fun o => C10_Defs.qsum (map (rget o) rows) / inject_Z (Z.of_nat (length rows))).

(* ------------------------------------------------------------------------------------------------------------ *)
(* ::fit -- the outputs buffer of the boosting loop, for one sample                                                *)
(* ------------------------------------------------------------------------------------------------------------ *)
(* one round: the fitted learner, gstate.x() (one factor, or one per group with wscale = tboost), and the ratio tuned by
   tune_shrinkage when shrinkage = local *)
Record bround := mk_br { br_w : wl; br_gx : list Q; br_local : option Q }.
(* loop state: shrinkage_ratio, the sample's row of `outputs`, result.m_wlearners *)
Record bstate := mk_bs { bs_ratio : Q; bs_out : list Q; bs_ws : list wl }.

Definition bround_step (no : nat) (s : sample) (st : bstate) (r : bround) : bstate :=
  (* best_wlearner->scale(gstate.x() * shrinkage_ratio); woutputs.zero(); best_wlearner->predict(.., woutputs) *)
  let w1 := scale (map (fun x => x * bs_ratio st) (br_gx r)) (br_w r) in
  let wout1 := predict no w1 s (zeros no) in
  match br_local r with
  | None =>
      mk_bs (bs_ratio st) (tab no (fun o => rget o (bs_out st) + rget o wout1)) (bs_ws st ++ [w1])
  | Some t =>
      (* shrinkage_ratio = tune_shrinkage(..); best_wlearner->scale({shrinkage_ratio}); woutputs.array() *= shrinkage_ratio *)
      let w2 := scale [t] w1 in
      let wout2 := map (fun x => x * t) wout1 in
      mk_bs t (tab no (fun o => rget o (bs_out st) + rget o wout2)) (bs_ws st ++ [w2])
  end.
(* outputs row := bstate.x() (the bias), then the rounds *)
Definition bloop (no : nat) (s : sample) (ratio0 : Q) (bias : list Q) (rs : list bround) : bstate :=
  fold_left (bround_step no s) rs (mk_bs ratio0 (assign_row no bias []) []).

(* ------------------------------------------------------------------------------------------------------------ *)
(* the cut-back to the optimum round                                                                              *)
(* ------------------------------------------------------------------------------------------------------------ *)
(* gboost::result_t::done(optimum_round) on m_wlearners: erase [begin + optimum_round, end), then wlearner::merge *)
Definition result_done (optimum_round : Z) (ws : list wl) : list wl :=
  merge (firstn (Z.to_nat (src_gb_erase_from optimum_round)) ws).
(* ::fit: result.done(static_cast<tensor_size_t>(optimum.round())) applied to the state the boosting loop (C11_Defs.boost)
   ended in; the bias is the one estimated before the rounds *)
Definition fold_model {T V : Type} (bias : list Q) (st : lstate T V wl) : gbm :=
  mk_gbm bias (result_done (src_fit_done_round (es_round (ls_es st))) (ls_learners st)).

(* ------------------------------------------------------------------------------------------------------------ *)
(* gboost_model_t::fit -- assembling the final model from the fold models of the optimum trial                     *)
(* ------------------------------------------------------------------------------------------------------------ *)
(* const auto denom = 1.0 / static_cast<scalar_t>(folds) *)
Definition asm_denom (folds : Z) : Q := inject_Z src_asm_denom_num / inject_Z (src_asm_denom_den folds).

(* the values of `fold` for which the body of `for (fold = first; cont; step)` runs (fuel: two more than needed, so that
   a changed bound is followed by the model) *)
Fixpoint asm_fold_loop (fuel : nat) (fold folds : Z) : list Z :=
  match fuel with
  | O => []
  | S f => if src_asm_fold_cont fold folds then fold :: asm_fold_loop f (src_asm_fold_step fold) folds else []
  end.
Definition asm_folds_visited (folds : Z) : list Z := asm_fold_loop (Z.to_nat folds + 2) src_asm_fold_first folds.

(* std::any_cast<gboost::result_t>(&fit_result.extra(optimum_trial, fold)): [extras] is m_extras of ml::result_t *)
Definition asm_pick (extras : list gbm) (folds optimum_trial fold : Z) : gbm :=
  nth (Z.to_nat (slot_read folds (src_asm_extra_trial optimum_trial fold) (src_asm_extra_fold optimum_trial fold)))
      extras gbm0.

(* m_bias = make_full_tensor(dims, 0.0); m_wlearners.clear() -- [m] is the state the object is in when fit is called *)
Definition asm_reset (no : nat) (m : gbm) : gbm :=
  mk_gbm (zeros no) (firstn (Z.to_nat (src_asm_reset_size (Z.of_nat (length (g_ws m))))) (g_ws m)).
(* m_bias.vector() += pgboost->m_bias.vector(); every learner of the fold is cloned and appended *)
Definition asm_add (no : nat) (m f : gbm) : gbm :=
  mk_gbm (tab no (fun o => rget o (g_bias m) + rget o (g_bias f))) (g_ws m ++ g_ws f).
Definition asm_collect (no : nat) (m : gbm) (extras : list gbm) (folds optimum_trial : Z) : gbm :=
  fold_left (fun m fold => asm_add no m (asm_pick extras folds optimum_trial fold)) (asm_folds_visited folds)
            (asm_reset no m).
(* wlearner::merge(m_wlearners); m_bias.vector() *= denom; for every learner: scale(vdenom) *)
Definition asm_finish (folds : Z) (m : gbm) : gbm :=
  let d := asm_denom folds in
  mk_gbm (map (fun x => x * d) (g_bias m)) (map (scale [d]) (merge (g_ws m))).
Definition assemble (no : nat) (m : gbm) (extras : list gbm) (folds optimum_trial : Z) : gbm :=
  asm_finish folds (asm_collect no m extras folds optimum_trial).

(* the fold models of trial [t] in m_extras, fold 0 first *)
Definition fold_models (extras : list gbm) (folds t : Z) : list gbm :=
  map (fun f => nth (Z.to_nat (t * folds + Z.of_nat f)) extras gbm0) (seq 0 (Z.to_nat folds)).
