(* C16 -- Tensor indexing, slicing and reshaping address exactly the right elements.
   Only statements + `exact` + Print Assumptions live here. Model: C16_Defs (imports the kernels
   translated from include/nano/tensor/{dims,tensor}.h on every run). *)
From Coq Require Import List ZArith Bool.
From LN Require Import C16_Defs C16_Statements C16_Integral C16_StorageDefs C16_Storage C16_Compose.
Import ListNotations.
Local Open Scope Z_scope.

(* the linear offset of a valid index tuple lies in [0, size) ... *)
Theorem C16_offset_range : forall d i, validb d i = true -> 0 <= offset d i < size d.
Proof. exact s_offset_range. Qed.
Print Assumptions C16_offset_range.

(* ... and is the row-major bijection onto [0, size) (explicit inverse by div/mod) *)
Theorem C16_offset_bijection :
  (forall d i, validb d i = true -> unoffset d (offset d i) = i) /\
  (forall d o, Forall (fun x => 0 < x) d -> 0 <= o < size d ->
     validb d (unoffset d o) = true /\ offset d (unoffset d o) = o).
Proof. exact s_offset_bijection. Qed.
Print Assumptions C16_offset_bijection.

Theorem C16_offset_injective : forall d i j,
  validb d i = true -> validb d j = true -> offset d i = offset d j -> i = j.
Proof. exact s_offset_injective. Qed.
Print Assumptions C16_offset_injective.

(* every partial-index sub-tensor view aliases exactly the elements obtained by full indexing, in bounds *)
Theorem C16_subview : forall d p r,
  validb d (p ++ r) = true ->
  validb (snd (view_tensor d p)) r = true /\
  view_at (view_tensor d p) r = offset d (p ++ r) /\
  0 <= view_at (view_tensor d p) r < size d.
Proof. exact s_subview. Qed.
Print Assumptions C16_subview.

Theorem C16_vector_view : forall d p r,
  validb d (p ++ r) = true ->
  let '(b, n) := view_vector d p in
  offset d (p ++ r) = b + offset (dims0 d p) r /\ 0 <= offset (dims0 d p) r < n /\
  0 <= b /\ b + n <= size d.
Proof. exact s_vector_view. Qed.
Print Assumptions C16_vector_view.

Theorem C16_matrix_view : forall d p i j,
  validb d (p ++ [i; j]) = true ->
  let '(b, rows, cols) := view_matrix d p in
  offset d (p ++ [i; j]) = b + i * cols + j /\ 0 <= i < rows /\ 0 <= j < cols.
Proof. exact s_matrix_view. Qed.
Print Assumptions C16_matrix_view.

(* first-axis slices *)
Theorem C16_slice : forall x r b e k j,
  slice_validb (x :: r) b e = true ->
  validb (snd (view_slice (x :: r) b e)) (k :: j) = true ->
  validb (x :: r) (b + k :: j) = true /\
  view_at (view_slice (x :: r) b e) (k :: j) = offset (x :: r) (b + k :: j) /\
  0 <= view_at (view_slice (x :: r) b e) (k :: j) < size (x :: r).
Proof. exact s_slice. Qed.
Print Assumptions C16_slice.

(* reshape, including one inferred -1 dimension (guard: the product of the others is > 0 and divides) *)
Theorem C16_reshape_infer : forall d pre post,
  Forall (fun x => x <> -1) pre -> Forall (fun x => x <> -1) post ->
  0 < size pre * size post -> 0 <= size d -> (size pre * size post | size d) ->
  reshape d (pre ++ (-1) :: post) = pre ++ size d / (size pre * size post) :: post /\
  size (reshape d (pre ++ (-1) :: post)) = size d.
Proof. exact s_reshape_infer. Qed.
Print Assumptions C16_reshape_infer.

Theorem C16_reshape_plain : forall d target,
  Forall (fun x => x <> -1) target -> reshape d target = target.
Proof. exact s_reshape_plain. Qed.
Print Assumptions C16_reshape_plain.

Theorem C16_reshape_same_elements : forall d d' i,
  Forall (fun x => 0 < x) d -> size d' = size d -> validb d' i = true ->
  let j := unoffset d (offset d' i) in
  validb d j = true /\ offset d j = offset d' i /\ 0 <= offset d' i < size d.
Proof. exact s_reshape_same_elements. Qed.
Print Assumptions C16_reshape_same_elements.

(* index-gather copies exactly the rows obtained by full indexing *)
Theorem C16_gather : forall (n : Z) (r : dims) (flat : list Z) idx i rest dflt,
  Z.of_nat (length flat) = size (n :: r) ->
  Forall (fun k => 0 <= k < n) idx ->
  0 <= i < Z.of_nat (length idx) ->
  validb r rest = true ->
  nth (Z.to_nat (offset (Z.of_nat (length idx) :: r) (i :: rest))) (gather (n :: r) flat idx) dflt =
  nth (Z.to_nat (offset (n :: r) (nth (Z.to_nat i) idx 0 :: rest))) flat dflt.
Proof. exact (@s_gather Z). Qed.
Print Assumptions C16_gather.

(* the summed-area table (integral.h) equals the naive prefix sums: entry i is the sum of the input over all
   indices dominated by i *)
Theorem C16_integral_prefix_sums : forall d flat i,
  Forall (fun x => 0 < x) d -> d <> [] -> Z.of_nat (length flat) = size d -> validb d i = true ->
  nth (Z.to_nat (offset d i)) (integral d flat) 0 = naive_integral_at d flat i.
Proof. exact integral_is_prefix_sums. Qed.
Print Assumptions C16_integral_prefix_sums.

(* ---- storage conversions (include/nano/tensor/storage.h; model C16_StorageDefs: heap of buffers, a freed buffer reads None) ---- *)
(* owning := view (tensor_vector_storage_t::operator=(const map&)) for EVERY heap and every readable view -- also a view into
   the destination's own buffer, of any offset and size: the destination ends up with exactly the viewed elements and the
   view's dims, and storages over other buffers are untouched *)
Theorem C16_storage_own_assign : forall h dst src d, hread h src = Some d ->
  exists h' t, own_assign h dst src = Some (h', t) /\ hread h' t = Some d /\ s_dims t = s_dims src /\ s_kind t = KOwn /\
               (forall s, (s_buf s < length h)%nat -> s_buf s <> s_buf dst -> hread h' s = hread h s).
Proof. exact own_assign_copies. Qed.
Print Assumptions C16_storage_own_assign.

(* constructor tensor(view): a fresh buffer (no aliasing) with the viewed elements; every existing storage reads the same *)
Theorem C16_storage_own_of : forall h src d, hread h src = Some d ->
  exists h' t, own_of h src = Some (h', t) /\ hread h' t = Some d /\ s_dims t = s_dims src /\ s_kind t = KOwn /\
               s_buf t <> s_buf src /\ (forall s, (s_buf s < length h)%nat -> hread h' s = hread h s).
Proof. exact own_of_copies. Qed.
Print Assumptions C16_storage_own_of.

(* mapping / constant-mapping storages alias: they show the same elements as their source in every heap *)
Theorem C16_storage_views_alias : forall h k s, hread h (map_of k s) = hread h s.
Proof. exact map_of_reads. Qed.
Print Assumptions C16_storage_views_alias.

(* mutable view := storage of the same size: the view's range holds the source's elements afterwards and every storage
   that does not overlap that range (other buffers, disjoint ranges of the same buffer) is unchanged *)
Theorem C16_storage_map_assign : forall h dst src d old, hread h src = Some d -> hread h dst = Some old -> length d = length old ->
  exists h', map_assign h dst src = Some h' /\ hread h' dst = Some d /\
             (forall s, disjointb dst s = true -> hread h' s = hread h s).
Proof. exact map_assign_copies. Qed.
Print Assumptions C16_storage_map_assign.

(* why the copy must precede the resize: the variant that frees the destination first loses a source that aliases it
   (owner of 6 elements, dims 3x2, assigned from the const slice [1,3) of itself) and is harmless otherwise *)
Theorem C16_storage_resize_first_refuted :
  (hread ex_heap ex_view = Some [12; 13; 14; 15] /\
   (exists h' t, own_assign ex_heap ex_owner ex_view = Some (h', t) /\ hread h' t = Some [12; 13; 14; 15] /\ s_dims t = [2; 2]) /\
   own_assign_resize_first ex_heap ex_owner ex_view = None) /\
  (forall h dst src, s_buf src <> s_buf dst -> (s_buf src < length h)%nat ->
     own_assign_resize_first h dst src = own_assign h dst src).
Proof. split; [exact resize_first_loses_aliased_source | exact resize_first_same_when_not_aliased]. Qed.
Print Assumptions C16_storage_resize_first_refuted.

(* non-vacuity: a concrete rank-3 tensor meets the hypotheses *)
Example C16_nonvacuous :
  validb [3; 4; 5] [2; 3; 4] = true /\ offset [3; 4; 5] [2; 3; 4] = 59 /\
  unoffset [3; 4; 5] 59 = [2; 3; 4] /\ view_tensor [3; 4; 5] [2; 3] = (55, [5]) /\
  reshape [3; 4; 5] [6; -1] = [6; 10] /\ slice_validb [3; 4; 5] 1 3 = true /\
  integral [2; 3] [1; 2; 3; 4; 5; 6] = [1; 3; 6; 5; 12; 21].
Proof. vm_compute. repeat split; reflexivity. Qed.

(* ---- composition of views (C16_Compose.v) ------------------------------------------------------- *)
(* tensor(p).tensor(q) is tensor(p ++ q): same start, same remaining dimensions, prefix still valid *)
Theorem C16_nested_view : forall d p q,
  validpb d (p ++ q) = true ->
  validpb d p = true /\ validpb (snd (view_tensor d p)) q = true /\
  fst (view_tensor d p) + fst (view_tensor (snd (view_tensor d p)) q) = fst (view_tensor d (p ++ q)) /\
  snd (view_tensor (snd (view_tensor d p)) q) = snd (view_tensor d (p ++ q)).
Proof. exact c_nested_view. Qed.
Print Assumptions C16_nested_view.

(* slice(b, e).slice(b', e') is slice(b + b', b + e'), and that slice is valid for the parent *)
Theorem C16_slice_of_slice : forall x r b e b' e',
  slice_validb (x :: r) b e = true ->
  slice_validb (snd (view_slice (x :: r) b e)) b' e' = true ->
  slice_validb (x :: r) (b + b') (b + e') = true /\
  fst (view_slice (x :: r) b e) + fst (view_slice (snd (view_slice (x :: r) b e)) b' e') =
    fst (view_slice (x :: r) (b + b') (b + e')) /\
  snd (view_slice (snd (view_slice (x :: r) b e)) b' e') = snd (view_slice (x :: r) (b + b') (b + e')).
Proof. exact c_slice_of_slice. Qed.
Print Assumptions C16_slice_of_slice.

(* "exactly": two different partial indices of the same length address disjoint, equally long element ranges
   (guard: the product of the remaining dimensions is not negative) *)
Theorem C16_views_disjoint : forall d p q,
  validpb d p = true -> validpb d q = true -> length p = length q -> p <> q ->
  0 <= size (dims0 d p) ->
  let '(bp, n) := view_vector d p in
  let '(bq, m) := view_vector d q in
  n = m /\ (bp + n <= bq \/ bq + m <= bp).
Proof. exact c_views_disjoint. Qed.
Print Assumptions C16_views_disjoint.

(* ... and they cover the tensor: every element offset lies in the range of a valid partial index of every length
   k <= rank (guard: all dimensions positive, i.e. the tensor is not empty); with C16_views_disjoint: a partition *)
Theorem C16_views_cover : forall d k o,
  Forall (fun x => 0 < x) d -> (k <= length d)%nat -> 0 <= o < size d ->
  exists p, length p = k /\ validpb d p = true /\
    let '(b, n) := view_vector d p in b <= o < b + n.
Proof. exact c_views_cover. Qed.
Print Assumptions C16_views_cover.

(* indexed(b, b+1, ..., b+n-1) copies exactly the elements that slice(b, b+n) aliases: the flat segment of n rows
   starting at row b (rows of size (tl d) elements; guard: that row size is not negative) *)
Theorem C16_gather_consecutive : forall (d : dims) (flat : list Z) (n b : nat),
  0 <= size (tl d) ->
  gather d flat (map Z.of_nat (seq b n)) =
  segment (Z.of_nat b * size (tl d)) (Z.of_nat n * size (tl d)) flat.
Proof. intros d flat n b. exact (c_gather_consecutive d flat n b). Qed.
Print Assumptions C16_gather_consecutive.

Example C16_gather_consecutive_nonvacuous :
  gather [4; 2] [10; 11; 20; 21; 30; 31; 40; 41] (map Z.of_nat (seq 1 2)) = [20; 21; 30; 31] /\
  fst (view_slice [4; 2] 1 3) = 1 * size (tl [4; 2]) /\ size (snd (view_slice [4; 2] 1 3)) = 2 * size (tl [4; 2]).
Proof. vm_compute. repeat split; reflexivity. Qed.

(* the guards of C16_views_disjoint and C16_gather_consecutive hold for every shape whose dimensions are not negative *)
Theorem C16_compose_guards : forall d p,
  Forall (fun x => 0 <= x) d -> 0 <= size (dims0 d p) /\ 0 <= size (tl d).
Proof. exact c_guards_hold. Qed.
Print Assumptions C16_compose_guards.

Example C16_compose_nonvacuous :
  validpb [3; 4; 5] ([2] ++ [3]) = true /\ view_tensor [4; 5] [3] = (15, [5]) /\ view_tensor [3; 4; 5] [2] = (40, [4; 5]) /\
  slice_validb [6; 2] 1 5 = true /\ slice_validb (snd (view_slice [6; 2] 1 5)) 1 3 = true /\
  view_slice [6; 2] 2 4 = (4, [2; 2]) /\
  validpb [3; 4; 5] [1; 3] = true /\ validpb [3; 4; 5] [2; 0] = true /\
  view_vector [3; 4; 5] [1; 3] = (35, 5) /\ view_vector [3; 4; 5] [2; 0] = (40, 5).
Proof. vm_compute. repeat split; reflexivity. Qed.
