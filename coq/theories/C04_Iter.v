(* C04 -- proofs about the iteration model of C04_Iter_Defs (exact rationals; every program, state, oracle answer).
   Vectors are compared entrywise up to Qeq ([veq]); [qnorm]/[vnorm] are the identity up to Qeq. *)
From Coq Require Import List ZArith QArith Qminmax Qabs Bool Lia Lqa Setoid Morphisms.
From LNGen Require Import Src_c04.
From LN Require Import C04_Defs C04_Proofs C04_Step C04_StepProofs C04_Iter_Defs.
Import ListNotations.
Local Open Scope Q_scope.

(* ------------------------------------------------------------------------------------------------------------ *)
(* 0. entrywise equality                                                                                           *)
(* ------------------------------------------------------------------------------------------------------------ *)
Definition veq (a b : vec) : Prop := Forall2 Qeq a b.
Definition meq (M N : mat) : Prop := Forall2 veq M N.

Lemma veq_refl a : veq a a.
Proof. induction a; constructor; auto. reflexivity. Qed.
Lemma veq_sym a b : veq a b -> veq b a.
Proof. induction 1; constructor; auto. symmetry; assumption. Qed.
Lemma veq_trans a b c : veq a b -> veq b c -> veq a c.
Proof.
  intros H; revert c; induction H as [|x y a b Hxy Hab IH]; intros c Hc.
  - inversion Hc; subst. constructor.
  - inversion Hc as [|y' z b' c' Hyz Hbc]; subst. constructor; [etransitivity; eassumption | apply IH; assumption].
Qed.
#[global] Instance veq_Equiv : Equivalence veq.
Proof. split; [exact veq_refl | exact veq_sym | exact veq_trans]. Qed.

Lemma veq_length a b : veq a b -> length a = length b.
Proof. induction 1; simpl; congruence. Qed.

Lemma meq_refl M : meq M M.
Proof. induction M; constructor; auto. reflexivity. Qed.

Lemma veq_nth a b : veq a b -> forall i, nth i a 0 == nth i b 0.
Proof. induction 1; intros [|i]; simpl; auto; reflexivity. Qed.

Lemma nth_veq : forall a b, length a = length b -> (forall i, nth i a 0 == nth i b 0) -> veq a b.
Proof.
  induction a as [|x a IH]; intros [|y b] L H; try discriminate; constructor.
  - exact (H O).
  - apply IH; [simpl in L; congruence|]. intros i. exact (H (S i)).
Qed.

Lemma veq_app_inv : forall a c b d, length a = length c -> veq (a ++ b) (c ++ d) -> veq a c /\ veq b d.
Proof.
  induction a as [|x a IH]; intros [|y c] b d L H; try discriminate; simpl in *.
  - split; [constructor|assumption].
  - inversion H; subst. destruct (IH c b d) as [H1 H2]; [congruence|assumption|]. split; [constructor|]; assumption.
Qed.

Lemma veq_Forall (Pr : Q -> Prop) : (forall s t, s == t -> Pr s -> Pr t) -> forall a b, veq a b -> Forall Pr a -> Forall Pr b.
Proof. intros HP a b H; induction H; intros F; inversion F; subst; constructor; eauto. Qed.

(* ---- qnorm -------------------------------------------------------------------------------------------------- *)
Lemma qnorm_eq q : qnorm q == q.
Proof.
  unfold qnorm. destruct q as [n d]. simpl.
  set (g := Z.gcd n (Zpos d)).
  assert (Hg : (0 < g)%Z).
  { pose proof (Z.gcd_nonneg n (Zpos d)) as Hn. fold g in Hn.
    assert (g <> 0)%Z by (intro H0; apply Z.gcd_eq_0_r in H0; discriminate). lia. }
  destruct (Z.gcd_divide_l n (Zpos d)) as [a Ha]. destruct (Z.gcd_divide_r n (Zpos d)) as [b Hb].
  fold g in Ha, Hb. clearbody g.
  assert (E1 : (n / g = a)%Z) by (rewrite Ha; apply Z.div_mul; lia).
  assert (E2 : (Zpos d / g = b)%Z) by (rewrite Hb; apply Z.div_mul; lia).
  rewrite E2. destruct b as [|b|b]; try reflexivity.
  unfold Qeq. simpl. rewrite E1, Hb, Ha. ring.
Qed.

Lemma vnorm_veq v : veq (vnorm v) v.
Proof. induction v; constructor; auto. apply qnorm_eq. Qed.
Lemma length_vnorm v : length (vnorm v) = length v.
Proof. apply map_length. Qed.

(* ---- compatibility of the vector operations with veq --------------------------------------------------------- *)
Lemma dot_veq : forall a a' b b', veq a a' -> veq b b' -> dot a b == dot a' b'.
Proof.
  intros a a' b b' H; revert b b'; induction H as [|x x' a a' Hx Ha IH]; intros b b' Hb; destruct Hb as [|y y' b b' Hy Hb];
    simpl; try reflexivity.
  rewrite Hx, Hy, (IH _ _ Hb). reflexivity.
Qed.
Lemma vadd_veq : forall a a' b b', veq a a' -> veq b b' -> veq (vadd a b) (vadd a' b').
Proof.
  intros a a' b b' H; revert b b'; induction H as [|x x' a a' Hx Ha IH]; intros b b' Hb; destruct Hb as [|y y' b b' Hy Hb];
    simpl; try constructor.
  - rewrite Hx, Hy; reflexivity.
  - apply IH; assumption.
Qed.
Lemma vsub_veq : forall a a' b b', veq a a' -> veq b b' -> veq (vsub a b) (vsub a' b').
Proof.
  intros a a' b b' H; revert b b'; induction H as [|x x' a a' Hx Ha IH]; intros b b' Hb; destruct Hb as [|y y' b b' Hy Hb];
    simpl; try constructor.
  - rewrite Hx, Hy; reflexivity.
  - apply IH; assumption.
Qed.
Lemma vmul_veq : forall a a' b b', veq a a' -> veq b b' -> veq (vmul a b) (vmul a' b').
Proof.
  intros a a' b b' H; revert b b'; induction H as [|x x' a a' Hx Ha IH]; intros b b' Hb; destruct Hb as [|y y' b b' Hy Hb];
    simpl; try constructor.
  - rewrite Hx, Hy; reflexivity.
  - apply IH; assumption.
Qed.
Lemma vquo_veq : forall a a' b b', veq a a' -> veq b b' -> veq (vquo a b) (vquo a' b').
Proof.
  intros a a' b b' H; revert b b'; induction H as [|x x' a a' Hx Ha IH]; intros b b' Hb; destruct Hb as [|y y' b b' Hy Hb];
    simpl; try constructor.
  - rewrite Hx, Hy; reflexivity.
  - apply IH; assumption.
Qed.
Lemma vscale_veq k k' a a' : k == k' -> veq a a' -> veq (vscale k a) (vscale k' a').
Proof. intros Hk H; induction H; simpl; constructor; auto. rewrite Hk, H; reflexivity. Qed.
Lemma vopp_veq a a' : veq a a' -> veq (vopp a) (vopp a').
Proof. intros H; induction H; simpl; constructor; auto. rewrite H; reflexivity. Qed.
Lemma app_veq a a' b b' : veq a a' -> veq b b' -> veq (a ++ b) (a' ++ b').
Proof. intros H Hb; induction H; simpl; auto. constructor; auto. Qed.
Lemma mv_veq M x x' : veq x x' -> veq (mv M x) (mv M x').
Proof. intros H. induction M; simpl; constructor; auto. apply dot_veq; [reflexivity|assumption]. Qed.
Lemma mv_meq M N x : meq M N -> veq (mv M x) (mv N x).
Proof. intros H; induction H; simpl; constructor; auto. apply dot_veq; [assumption|reflexivity]. Qed.
Lemma mtv_veq n M : forall v v', veq v v' -> veq (mtv n M v) (mtv n M v').
Proof.
  induction M as [|r M IH]; intros v v' H; destruct H as [|k k' v v' Hk Hv]; simpl; try reflexivity.
  apply vadd_veq; [apply vscale_veq; [assumption|reflexivity]|apply IH; assumption].
Qed.
Lemma gxh_veq P x x' : veq x x' -> veq (gxh P x) (gxh P x').
Proof. intros H. unfold gxh. apply vsub_veq; [apply mv_veq; assumption|reflexivity]. Qed.
Lemma sumsq_veq a a' : veq a a' -> sumsq a == sumsq a'.
Proof. intros H. unfold sumsq. apply dot_veq; assumption. Qed.

#[global] Instance dot_Proper : Proper (veq ==> veq ==> Qeq) dot.
Proof. intros a a' Ha b b' Hb. apply dot_veq; assumption. Qed.
#[global] Instance vadd_Proper : Proper (veq ==> veq ==> veq) vadd.
Proof. intros a a' Ha b b' Hb. apply vadd_veq; assumption. Qed.
#[global] Instance vsub_Proper : Proper (veq ==> veq ==> veq) vsub.
Proof. intros a a' Ha b b' Hb. apply vsub_veq; assumption. Qed.
#[global] Instance vmul_Proper : Proper (veq ==> veq ==> veq) vmul.
Proof. intros a a' Ha b b' Hb. apply vmul_veq; assumption. Qed.
#[global] Instance vquo_Proper : Proper (veq ==> veq ==> veq) vquo.
Proof. intros a a' Ha b b' Hb. apply vquo_veq; assumption. Qed.
#[global] Instance vscale_Proper : Proper (Qeq ==> veq ==> veq) vscale.
Proof. intros k k' Hk a a' Ha. apply vscale_veq; assumption. Qed.
#[global] Instance vopp_Proper : Proper (veq ==> veq) vopp.
Proof. intros a a' Ha. apply vopp_veq; assumption. Qed.
#[global] Instance app_Proper : Proper (veq ==> veq ==> veq) (@app Q).
Proof. intros a a' Ha b b' Hb. apply app_veq; assumption. Qed.
#[global] Instance mv_Proper M : Proper (veq ==> veq) (mv M).
Proof. intros a a' Ha. apply mv_veq; assumption. Qed.
#[global] Instance mtv_Proper n M : Proper (veq ==> veq) (mtv n M).
Proof. intros a a' Ha. apply mtv_veq; assumption. Qed.
#[global] Instance gxh_Proper P : Proper (veq ==> veq) (gxh P).
Proof. intros a a' Ha. apply gxh_veq; assumption. Qed.
#[global] Instance sumsq_Proper : Proper (veq ==> Qeq) sumsq.
Proof. intros a a' Ha. apply sumsq_veq; assumption. Qed.

(* ---- lengths and entries --------------------------------------------------------------------------------------- *)
Lemma length_vmul : forall a b, length a = length b -> length (vmul a b) = length a.
Proof. induction a; intros [|y b] L; simpl in *; try discriminate; auto. Qed.
Lemma length_vquo : forall a b, length a = length b -> length (vquo a b) = length a.
Proof. induction a; intros [|y b] L; simpl in *; try discriminate; auto. Qed.
Lemma length_vopp a : length (vopp a) = length a.
Proof. apply map_length. Qed.
Lemma length_gxh P x : wf P -> length (gxh P x) = length (pG P).
Proof. intros W. unfold gxh. rewrite length_vsub; rewrite length_mv; [reflexivity|]. symmetry; apply (wf_h P W). Qed.

Lemma nth_vadd : forall a b i, length a = length b -> nth i (vadd a b) 0 == nth i a 0 + nth i b 0.
Proof. induction a; intros [|y b] [|i] L; simpl in *; try discriminate; try ring. apply IHa; congruence. Qed.
Lemma nth_vsub : forall a b i, length a = length b -> nth i (vsub a b) 0 == nth i a 0 - nth i b 0.
Proof. induction a; intros [|y b] [|i] L; simpl in *; try discriminate; try ring. apply IHa; congruence. Qed.
Lemma nth_vmul : forall a b i, length a = length b -> nth i (vmul a b) 0 == nth i a 0 * nth i b 0.
Proof. induction a; intros [|y b] [|i] L; simpl in *; try discriminate; try ring. apply IHa; congruence. Qed.
Lemma nth_vquo : forall a b i, length a = length b -> nth i (vquo a b) 0 == nth i a 0 / nth i b 0.
Proof.
  induction a; intros [|y b] [|i] L; simpl in *; try discriminate; try reflexivity; try (unfold Qdiv; ring).
  apply IHa; congruence.
Qed.
Lemma nth_vscale k : forall a i, nth i (vscale k a) 0 == k * nth i a 0.
Proof. induction a; intros [|i]; simpl; try ring. apply IHa. Qed.
Lemma nth_vopp : forall a i, nth i (vopp a) 0 == - nth i a 0.
Proof. induction a; intros [|i]; simpl; try ring. apply IHa. Qed.
Lemma nth_zeros n i : nth i (zeros n) 0 == 0.
Proof. unfold zeros. revert i; induction n; intros [|i]; simpl; try reflexivity. apply IHn. Qed.

(* ---- linearity ------------------------------------------------------------------------------------------------- *)
Lemma dot_vadd_r w a b : length a = length b -> dot w (vadd a b) == dot w a + dot w b.
Proof. intros L. rewrite dot_comm, dot_vadd_l by assumption. rewrite (dot_comm a), (dot_comm b). reflexivity. Qed.
Lemma dot_vscale_r k w a : dot w (vscale k a) == k * dot w a.
Proof. rewrite dot_comm, dot_vscale_l, (dot_comm a). reflexivity. Qed.

Lemma mv_lin M x d s : length x = length d -> veq (mv M (vadd x (vscale s d))) (vadd (mv M x) (vscale s (mv M d))).
Proof.
  intros L. induction M as [|r M IH]; simpl; constructor; auto.
  rewrite dot_vadd_r by (rewrite length_vscale; assumption). rewrite dot_vscale_r. reflexivity.
Qed.

Lemma zeros_lin n s : veq (zeros n) (vadd (zeros n) (vscale s (zeros n))).
Proof.
  apply nth_veq.
  - rewrite length_vadd by (rewrite length_vscale; reflexivity). reflexivity.
  - intros i. rewrite nth_vadd by (rewrite length_vscale; reflexivity). rewrite nth_vscale, !nth_zeros. ring.
Qed.

Lemma mtv_nil_l n v : mtv n [] v = zeros n.
Proof. reflexivity. Qed.
Lemma mtv_nil_r n M : mtv n M [] = zeros n.
Proof. destruct M; reflexivity. Qed.

Lemma mtv_lin n M : rows_ok n M -> forall a b s, length a = length b ->
  veq (mtv n M (vadd a (vscale s b))) (vadd (mtv n M a) (vscale s (mtv n M b))).
Proof.
  intros R. induction R as [|r M Hr R IH]; intros a b s L.
  - rewrite !mtv_nil_l. apply zeros_lin.
  - destruct a as [|x a], b as [|y b]; try discriminate.
    + simpl vadd. rewrite !mtv_nil_r. apply zeros_lin.
    + simpl in L. simpl vadd. simpl vscale. simpl mtv.
      assert (L' : length a = length b) by congruence.
      pose proof (IH a b s L') as E.
      assert (Lm : forall v, length (mtv n M v) = n) by (intros v; apply length_mtv; assumption).
      apply nth_veq.
      * rewrite !length_vadd; rewrite ?length_vscale; rewrite ?length_vadd; rewrite ?length_vscale; rewrite ?Lm; try congruence.
      * intros i.
        rewrite nth_vadd by (rewrite length_vscale, Lm; assumption).
        rewrite (veq_nth _ _ E i).
        rewrite (nth_vadd (mtv n M a)) by (rewrite length_vscale, !Lm; reflexivity).
        rewrite (nth_vadd (vadd (vscale x r) (mtv n M a))).
        2:{ rewrite length_vscale. rewrite !length_vadd; rewrite ?length_vscale; rewrite ?Lm; congruence. }
        rewrite (nth_vadd (vscale x r)) by (rewrite length_vscale, Lm; assumption).
        rewrite !nth_vscale.
        rewrite (nth_vadd (vscale y r)) by (rewrite length_vscale, Lm; assumption).
        rewrite !nth_vscale. ring.
Qed.

Ltac len :=
  repeat (first
    [ rewrite length_vscale | rewrite length_vopp | rewrite length_mv | rewrite length_vnorm | rewrite length_zeros
    | rewrite length_mtv by assumption
    | rewrite length_vadd by len | rewrite length_vsub by len | rewrite length_vmul by len | rewrite length_vquo by len ]);
  try assumption; try reflexivity; try (symmetry; assumption); try congruence; try lia.

(* ------------------------------------------------------------------------------------------------------------ *)
(* 1. the reduced KKT system and the elimination of du                                                             *)
(* ------------------------------------------------------------------------------------------------------------ *)
Lemma rows_ok_map_vnorm n M : rows_ok n M -> rows_ok n (map vnorm M).
Proof. intros R; induction R; simpl; constructor; auto. rewrite length_vnorm; assumption. Qed.

Lemma rows_ok_outer a b : rows_ok (length b) (outer a b).
Proof. unfold outer. induction a; simpl; constructor; auto. apply length_vscale. Qed.

Lemma shape_madd n : forall M N, rows_ok n M -> rows_ok n N -> length M = length N ->
  rows_ok n (madd M N) /\ length (madd M N) = length M.
Proof.
  induction M as [|r M IH]; intros [|t N] RM RN L; try discriminate; simpl.
  - split; [constructor|reflexivity].
  - inversion RM as [|? ? Hr RM']; inversion RN as [|? ? Ht RN']; subst.
    destruct (IH N RM' RN') as [E1 E2]; [simpl in L; congruence|].
    split; [constructor; [rewrite length_vadd; congruence|assumption]|congruence].
Qed.

Lemma shape_mzero n : rows_ok n (mzero n) /\ length (mzero n) = n.
Proof.
  unfold mzero. split; [|apply repeat_length].
  assert (H : forall k, rows_ok n (repeat (zeros n) k)) by (induction k; simpl; constructor; auto; apply length_zeros).
  apply H.
Qed.

Lemma shape_hess n : forall G w, rows_ok n G -> rows_ok n (hess_rows n G w) /\ length (hess_rows n G w) = n.
Proof.
  induction G as [|g G IH]; intros w R.
  - simpl. apply shape_mzero.
  - destruct w as [|wk w]; [apply shape_mzero|]. inversion R as [|? ? Hg RG]; subst. cbn [hess_rows].
    destruct (IH w RG) as [H1 H2].
    assert (Ro : rows_ok (length g) (outer (vscale wk g) g)) by apply rows_ok_outer.
    assert (Lo : length (outer (vscale wk g) g) = length g) by (unfold outer; rewrite map_length, length_vscale; reflexivity).
    destruct (shape_madd (length g) (outer (vscale wk g) g) (hess_rows (length g) G w)) as [H3 H4]; try assumption; [congruence|].
    split; [apply rows_ok_map_vnorm; assumption|rewrite map_length; exact (eq_trans H4 Lo)].
Qed.

Lemma mv_map_vnorm M d : veq (mv (map vnorm M) d) (mv M d).
Proof. apply mv_meq. induction M; constructor; auto. apply vnorm_veq. Qed.

Lemma mv_madd n : forall M N d, rows_ok n M -> rows_ok n N -> veq (mv (madd M N) d) (vadd (mv M d) (mv N d)).
Proof.
  induction M as [|r M IH]; intros [|t N] d RM RN; simpl; try constructor.
  - inversion RM; inversion RN; subst. apply dot_vadd_l; congruence.
  - inversion RM; inversion RN; subst. apply IH; assumption.
Qed.

Lemma mv_outer a b d : veq (mv (outer a b) d) (vscale (dot b d) a).
Proof. unfold outer. induction a; simpl; constructor; auto. rewrite dot_vscale_l. ring. Qed.

Lemma mv_mzero n d : veq (mv (mzero n) d) (zeros n).
Proof.
  unfold mzero.
  assert (H : forall k, veq (mv (repeat (zeros n) k) d) (zeros k)) by (induction k; simpl; constructor; auto; apply dot_zeros_l).
  apply H.
Qed.

Lemma mv_hess n : forall G w d, rows_ok n G -> veq (mv (hess_rows n G w) d) (mtv n G (vmul w (mv G d))).
Proof.
  induction G as [|g G IH]; intros w d R.
  - simpl. apply mv_mzero.
  - destruct w as [|wk w]; [simpl; apply mv_mzero|]. inversion R as [|? ? Hg RG]; subst.
    change (mv (g :: G) d) with (dot g d :: mv G d). cbn [hess_rows vmul mtv].
    rewrite mv_map_vnorm.
    destruct (shape_hess (length g) G w RG) as [H1 H2].
    rewrite (mv_madd (length g)); [|apply rows_ok_outer|assumption].
    apply vadd_veq; [|apply IH; assumption].
    rewrite mv_outer. apply nth_veq; [rewrite !length_vscale; reflexivity|].
    intros i. rewrite !nth_vscale. ring.
Qed.

Lemma dot_vopp_l : forall a d, dot (vopp a) d == - dot a d.
Proof. induction a; intros [|y d]; simpl; try ring. rewrite IHa. ring. Qed.

Lemma mv_mopp M d : veq (mv (mopp M) d) (vopp (mv M d)).
Proof. unfold mopp. induction M; simpl; constructor; auto. apply dot_vopp_l. Qed.

Lemma mv_msub n : forall M N d, rows_ok n M -> rows_ok n N -> veq (mv (msub M N) d) (vsub (mv M d) (mv N d)).
Proof.
  induction M as [|r M IH]; intros [|t N] d RM RN; simpl; try constructor.
  - inversion RM; inversion RN; subst. apply dot_vsub_l; congruence.
  - inversion RM; inversion RN; subst. apply IH; assumption.
Qed.

Lemma dot_app : forall a b c d, length a = length c -> dot (a ++ b) (c ++ d) == dot a c + dot b d.
Proof.
  induction a as [|x a IH]; intros b [|y c] d L; try discriminate; simpl.
  - ring.
  - rewrite IH by (simpl in L; congruence). ring.
Qed.

Lemma mv_happ n : forall M N z1 z2, rows_ok n M -> length z1 = n ->
  veq (mv (happ M N) (z1 ++ z2)) (vadd (mv M z1) (mv N z2)).
Proof.
  induction M as [|r M IH]; intros [|t N] z1 z2 RM L; simpl; try constructor.
  - inversion RM; subst. apply dot_app. congruence.
  - inversion RM; subst. apply IH; auto.
Qed.

Lemma nth_map_seq (f : nat -> Q) n i : (i < n)%nat -> nth i (map f (seq 0 n)) 0 = f i.
Proof.
  intros H. rewrite (nth_indep _ 0 (f 0%nat)) by (rewrite map_length, seq_length; assumption).
  rewrite map_nth. rewrite seq_nth by assumption. reflexivity.
Qed.

Lemma nth_mv_tcols n A v i : (i < n)%nat -> nth i (mv (tcols n A) v) 0 = dot (col i A) v.
Proof.
  intros H. unfold mv, tcols. rewrite map_map. apply (nth_map_seq (fun j => dot (col j A) v)). assumption.
Qed.

Lemma mv_tcols n : forall A v, rows_ok n A -> veq (mv (tcols n A) v) (mtv n A v).
Proof.
  induction A as [|a A IH]; intros v R.
  - rewrite mtv_nil_l. unfold tcols, mv. rewrite map_map. simpl.
    apply nth_veq; [rewrite map_length, seq_length, length_zeros; reflexivity|].
    intros i. rewrite nth_zeros. destruct (Nat.lt_ge_cases i n) as [Hi|Hi].
    + rewrite (nth_map_seq (fun _ => 0)) by assumption. reflexivity.
    + rewrite nth_overflow by (rewrite map_length, seq_length; assumption). reflexivity.
  - inversion R as [|? ? Ha RA]; subst. destruct v as [|k v].
    + rewrite mtv_nil_r. unfold tcols, mv. rewrite map_map.
      apply nth_veq; [rewrite map_length, seq_length, length_zeros; reflexivity|].
      intros i. rewrite nth_zeros. destruct (Nat.lt_ge_cases i (length a)) as [Hi|Hi].
      * rewrite (nth_map_seq (fun j => dot (col j (a :: A)) [])) by assumption. apply dot_nil_r.
      * rewrite nth_overflow by (rewrite map_length, seq_length; assumption). reflexivity.
    + simpl mtv.
      assert (Lm : length (mtv (length a) A v) = length a) by (apply length_mtv; assumption).
      apply nth_veq.
      * unfold tcols, mv. rewrite !map_length, seq_length. rewrite length_vadd; rewrite length_vscale; congruence.
      * intros i. rewrite nth_vadd by (rewrite length_vscale; congruence). rewrite nth_vscale.
        rewrite <- (veq_nth _ _ (IH v RA) i).
        destruct (Nat.lt_ge_cases i (length a)) as [Hi|Hi].
        -- rewrite !nth_mv_tcols by assumption. simpl. ring.
        -- rewrite !nth_overflow; try ring; try lia.
           ++ unfold tcols, mv. rewrite !map_length, seq_length. assumption.
           ++ unfold tcols, mv. rewrite !map_length, seq_length. assumption.
Qed.

Lemma mv_bottom n p : forall A dx dv, rows_ok n A -> length dx = n ->
  veq (mv (map (fun a => a ++ zeros p) A) (dx ++ dv)) (mv A dx).
Proof.
  induction A as [|a A IH]; intros dx dv R L; simpl; constructor.
  - inversion R; subst. rewrite dot_app by congruence. rewrite dot_zeros_l. ring.
  - inversion R; subst. apply IH; auto.
Qed.

Lemma mv_app M N z : mv (M ++ N) z = mv M z ++ mv N z.
Proof. unfold mv. apply map_app. Qed.

(* the n x n block of the matrix, applied to dx *)
Definition qmv (P : program) (d : vec) : vec := match pQ P with [] => zeros (dim P) | _ => mv (pQ P) d end.

Lemma length_qmv P d : wf P -> length (qmv P d) = dim P.
Proof.
  intros W. unfold qmv. destruct (pQ P) as [|r M] eqn:E; [apply length_zeros|].
  rewrite length_mv. destruct (wf_Qsize P W) as [H|H]; rewrite E in H; [discriminate|assumption].
Qed.

Lemma shape_hessvar P x u : wf P -> rows_ok (dim P) (hessvar P x u) /\ length (hessvar P x u) = dim P.
Proof. intros W. unfold hessvar. apply shape_hess. apply (wf_Grows P W). Qed.

Lemma mv_lmat_tl P x u d : wf P ->
  veq (mv (lmat_tl P x u) d) (vsub (qmv P d) (mtv (dim P) (pG P) (vmul (wvec P x u) (mv (pG P) d)))).
Proof.
  intros W. destruct (shape_hessvar P x u W) as [RH LH].
  pose proof (mv_hess (dim P) (pG P) (wvec P x u) d (wf_Grows P W)) as EH. fold (hessvar P x u) in EH.
  unfold lmat_tl, qmv. destruct (pQ P) as [|r M] eqn:E.
  - rewrite mv_mopp. rewrite EH.
    assert (Lt : length (mtv (dim P) (pG P) (vmul (wvec P x u) (mv (pG P) d))) = dim P) by (apply length_mtv; apply (wf_Grows P W)).
    apply nth_veq; [rewrite length_vopp, length_vsub; rewrite ?length_zeros; congruence|].
    intros i. rewrite nth_vopp, nth_vsub by (rewrite length_zeros; congruence). rewrite nth_zeros. ring.
  - rewrite (mv_msub (dim P)); [|rewrite <- E; apply (wf_Qrows P W)|assumption].
    apply vsub_veq; [reflexivity|assumption].
Qed.

Lemma rows_ok_mopp n M : rows_ok n M -> rows_ok n (mopp M).
Proof. intros R; induction R; simpl; constructor; auto. rewrite length_vopp; assumption. Qed.

Lemma rows_ok_msub n : forall M N, rows_ok n M -> rows_ok n N -> rows_ok n (msub M N).
Proof.
  induction M as [|a M IH]; intros [|b N] RM RN; simpl; constructor.
  - inversion RM; inversion RN; subst. rewrite length_vsub; congruence.
  - inversion RM; inversion RN; subst. apply IH; assumption.
Qed.

Lemma length_lmat_tl P x u : wf P -> rows_ok (dim P) (lmat_tl P x u).
Proof.
  intros W. destruct (shape_hessvar P x u W) as [RH LH]. unfold lmat_tl. destruct (pQ P) as [|r M] eqn:E.
  - apply rows_ok_mopp; assumption.
  - apply rows_ok_msub; [rewrite <- E; apply (wf_Qrows P W)|assumption].
Qed.

(* what the assembled matrix does to (dx, dv) *)
Lemma mv_lmat P x u dx dv : wf P -> length dx = dim P ->
  veq (mv (lmat P x u) (dx ++ dv))
      (vadd (vsub (qmv P dx) (mtv (dim P) (pG P) (vmul (wvec P x u) (mv (pG P) dx)))) (mtv (dim P) (pA P) dv) ++ mv (pA P) dx).
Proof.
  intros W L. unfold lmat. rewrite mv_app. apply app_veq.
  - rewrite (mv_happ (dim P)); [|apply length_lmat_tl; assumption|assumption].
    apply vadd_veq; [apply mv_lmat_tl; assumption|apply mv_tcols; apply (wf_Arows P W)].
  - apply (mv_bottom (dim P)); [apply (wf_Arows P W)|assumption].
Qed.

Lemma wvec_veq P x u : veq (wvec P x u) (vquo u (gxh P x)).
Proof. unfold wvec. rewrite vnorm_veq. apply vquo_veq; [reflexivity|apply vnorm_veq]. Qed.

Lemma back_subst_veq P x u rc dx : veq (back_subst P x u rc dx) (vquo (vsub rc (vmul u (mv (pG P) dx))) (gxh P x)).
Proof. unfold back_subst. rewrite vnorm_veq. apply vquo_veq; [reflexivity|apply vnorm_veq]. Qed.

Lemma lvec_veq P x rd rc rp : veq (lvec P x rd rc rp) (vopp (vadd rd (mtv (dim P) (pG P) (vquo rc (gxh P x)))) ++ vopp rp).
Proof.
  unfold lvec. apply app_veq; [|reflexivity]. apply vopp_veq. apply vadd_veq; [reflexivity|].
  apply mtv_veq. apply vquo_veq; [reflexivity|apply vnorm_veq].
Qed.

(* (1) elimination: a solution of the reduced system + the back-substitution solve the full primal-dual Newton system *)
Lemma iter_elimination P x u rd rc rp dx dv du :
  wf P -> length x = dim P -> length u = length (pG P) -> length rd = dim P -> length rc = length (pG P) ->
  length rp = length (pA P) -> length dx = dim P -> length dv = length (pA P) ->
  Forall (fun t => ~ t == 0) (gxh P x) ->
  veq (mv (lmat P x u) (dx ++ dv)) (lvec P x rd rc rp) ->
  veq du (back_subst P x u rc dx) ->
  veq (vadd (vadd (qmv P dx) (mtv (dim P) (pG P) du)) (mtv (dim P) (pA P) dv)) (vopp rd) /\
  veq (vsub (vopp (vmul u (mv (pG P) dx))) (vmul (gxh P x) du)) (vopp rc) /\
  veq (mv (pA P) dx) (vopp rp).
Proof.
  intros W Lx Lu Lrd Lrc Lrp Ldx Ldv Hnz Hsys Hdu.
  pose proof (wf_Grows P W) as RG. pose proof (wf_Arows P W) as RA.
  assert (Lg : length (gxh P x) = length (pG P)) by (apply length_gxh; assumption).
  assert (Lq : length (qmv P dx) = dim P) by (apply length_qmv; assumption).
  assert (Lw : length (wvec P x u) = length (pG P)) by (rewrite (veq_length _ _ (wvec_veq P x u)); len).
  rewrite mv_lmat in Hsys by assumption. rewrite lvec_veq in Hsys.
  rewrite back_subst_veq in Hdu.
  remember (dim P) as n eqn:En. remember (pG P) as G eqn:EG. remember (pA P) as A eqn:EA.
  remember (gxh P x) as g eqn:Eg. remember (qmv P dx) as qd eqn:Eqd. remember (wvec P x u) as w eqn:Ew.
  assert (Ewq : veq w (vquo u g)) by (subst w g; apply wvec_veq).
  clear Ew Eg Eqd.
  assert (Lt : length (mv G dx) = length G) by apply length_mv.
  remember (mv G dx) as t eqn:Et. clear Et.
  apply veq_app_inv in Hsys; [|len].
  destruct Hsys as [Htop Hbot].
  assert (Ldu : length du = length G) by (rewrite (veq_length _ _ Hdu); len).
  (* du = rc / g - w .* t entrywise *)
  assert (Edu : veq du (vsub (vquo rc g) (vmul w t))).
  { rewrite Hdu. apply nth_veq; [len|].
    intros i. rewrite nth_vquo by len. rewrite !nth_vsub by len. rewrite !nth_vmul by len. rewrite nth_vquo by len.
    rewrite (veq_nth _ _ Ewq i). rewrite nth_vquo by len. unfold Qdiv. ring. }
  repeat split.
  - (* dual row *)
    assert (Emt : veq (mtv n G du) (vsub (mtv n G (vquo rc g)) (mtv n G (vmul w t)))).
    { rewrite Edu.
      assert (Eq1 : veq (vsub (vquo rc g) (vmul w t)) (vadd (vquo rc g) (vscale (- (1)) (vmul w t)))).
      { apply nth_veq; [len|]. intros i. rewrite nth_vsub, nth_vadd by len. rewrite nth_vscale. ring. }
      rewrite Eq1. rewrite (mtv_lin n G RG) by len.
      apply nth_veq; [len|]. intros i. rewrite nth_vsub, nth_vadd by len. rewrite nth_vscale. ring. }
    apply nth_veq; [len|].
    intros i. pose proof (veq_nth _ _ Htop i) as Hi.
    rewrite nth_vadd in Hi by len. rewrite nth_vsub in Hi by len. rewrite nth_vopp, nth_vadd in Hi by len.
    rewrite !nth_vadd by len. rewrite (veq_nth _ _ Emt i). rewrite nth_vsub by len. rewrite nth_vopp. lra.
  - (* centrality row *)
    apply nth_veq; [len|].
    intros i. rewrite nth_vsub by len. rewrite !nth_vopp, !nth_vmul by len.
    rewrite (veq_nth _ _ Hdu i). rewrite nth_vquo by len. rewrite nth_vsub by len. rewrite nth_vmul by len.
    destruct (Nat.lt_ge_cases i (length g)) as [Hi|Hi].
    + assert (Hn : ~ nth i g 0 == 0) by (rewrite Forall_forall in Hnz; apply Hnz; apply nth_In; assumption).
      field. assumption.
    + rewrite (nth_overflow g), (nth_overflow u), (nth_overflow rc) by lia. unfold Qdiv. ring.
  - exact Hbot.
Qed.

(* ------------------------------------------------------------------------------------------------------------ *)
(* 2. the residuals are affine: exact contraction along the Newton direction                                       *)
(* ------------------------------------------------------------------------------------------------------------ *)
Lemma iter_rprim_contracts P x dx s : wf P -> length x = dim P -> length dx = dim P ->
  veq (mv (pA P) dx) (vopp (m_rprim P x)) ->
  veq (m_rprim P (vadd x (vscale s dx))) (vscale (1 - s) (m_rprim P x)).
Proof.
  intros W Lx Ldx H. pose proof (wf_b P W) as Lb. unfold m_rprim in *.
  rewrite mv_lin by congruence. apply nth_veq; [len|].
  intros i. pose proof (veq_nth _ _ H i) as Hi. rewrite nth_vopp, nth_vsub in Hi by len.
  rewrite nth_vsub by len. rewrite nth_vadd by len. rewrite !nth_vscale. rewrite nth_vsub by len. rewrite Hi. ring.
Qed.

Lemma qmv_lin P x d s : wf P -> length x = length d ->
  veq (qmv P (vadd x (vscale s d))) (vadd (qmv P x) (vscale s (qmv P d))).
Proof.
  intros W L. unfold qmv. destruct (pQ P); [apply zeros_lin|apply mv_lin; assumption].
Qed.

(* the dual residual as a sum (the guards of update() only skip zero contributions) *)
Lemma m_rdual_char P x u v : wf P ->
  veq (m_rdual P x u v) (vadd (vadd (vadd (qmv P x) (pc P)) (mtv (dim P) (pA P) v)) (mtv (dim P) (pG P) u)).
Proof.
  intros W. pose proof (wf_Grows P W) as RG. pose proof (wf_Arows P W) as RA. pose proof (length_qmv P x W) as Lq.
  assert (Lc : length (pc P) = dim P) by reflexivity.
  unfold m_rdual.
  assert (E0 : veq (grad P x) (vadd (qmv P x) (pc P))).
  { unfold grad, qmv. destruct (pQ P); [|reflexivity].
    apply nth_veq; [len|]. intros i. rewrite nth_vadd by len. rewrite nth_zeros. ring. }
  assert (L0 : length (grad P x) = dim P) by (apply length_grad; assumption).
  assert (E1 : veq (match pA P with [] => grad P x | _ => vadd (grad P x) (mtv (dim P) (pA P) v) end)
                   (vadd (vadd (qmv P x) (pc P)) (mtv (dim P) (pA P) v))).
  { destruct (pA P) eqn:E.
    - rewrite mtv_nil_l, E0. apply nth_veq; [len|]. intros i. rewrite (nth_vadd _ (zeros _)) by len. rewrite nth_zeros. ring.
    - rewrite E0. reflexivity. }
  assert (L1 : length (match pA P with [] => grad P x | _ => vadd (grad P x) (mtv (dim P) (pA P) v) end) = dim P).
  { destruct (pA P); [assumption|len]. }
  destruct (pG P) eqn:E.
  - rewrite mtv_nil_l, E1. apply nth_veq; [len|]. intros i. rewrite (nth_vadd _ (zeros _)) by len. rewrite nth_zeros. ring.
  - rewrite E1. reflexivity.
Qed.

Lemma iter_rdual_contracts P x u v dx du dv s :
  wf P -> length x = dim P -> length u = length (pG P) -> length v = length (pA P) ->
  length dx = dim P -> length du = length (pG P) -> length dv = length (pA P) ->
  veq (vadd (vadd (qmv P dx) (mtv (dim P) (pG P) du)) (mtv (dim P) (pA P) dv)) (vopp (m_rdual P x u v)) ->
  veq (m_rdual P (vadd x (vscale s dx)) (vadd u (vscale s du)) (vadd v (vscale s dv))) (vscale (1 - s) (m_rdual P x u v)).
Proof.
  intros W Lx Lu Lv Ldx Ldu Ldv H.
  pose proof (wf_Grows P W) as RG. pose proof (wf_Arows P W) as RA.
  assert (Lc : length (pc P) = dim P) by reflexivity.
  rewrite !m_rdual_char in * by assumption.
  rewrite qmv_lin by (try assumption; congruence).
  rewrite (mtv_lin _ _ RA) by congruence. rewrite (mtv_lin _ _ RG) by congruence.
  pose proof (length_qmv P x W) as Lq. pose proof (length_qmv P dx W) as Lqd.
  remember (qmv P x) as q. remember (qmv P dx) as qd. remember (pc P) as c.
  remember (mtv (dim P) (pA P) v) as a. remember (mtv (dim P) (pA P) dv) as ad.
  remember (mtv (dim P) (pG P) u) as g. remember (mtv (dim P) (pG P) du) as gd.
  assert (La : length a = dim P) by (subst a; apply length_mtv; assumption).
  assert (Lad : length ad = dim P) by (subst ad; apply length_mtv; assumption).
  assert (Lg : length g = dim P) by (subst g; apply length_mtv; assumption).
  assert (Lgd : length gd = dim P) by (subst gd; apply length_mtv; assumption).
  clear Heqq Heqqd Heqa Heqad Heqg Heqgd.
  apply nth_veq; [len|].
  intros i. pose proof (veq_nth _ _ H i) as Hi.
  rewrite nth_vopp in Hi. rewrite !nth_vadd in Hi by len.
  rewrite nth_vscale. rewrite !nth_vadd by len. rewrite !nth_vscale.
  setoid_replace (nth i qd 0) with (- (nth i q 0 + nth i c 0 + nth i a 0 + nth i g 0) - nth i gd 0 - nth i ad 0) by lra.
  ring.
Qed.

(* ------------------------------------------------------------------------------------------------------------ *)
(* 3. the two backtracking stages and the invariants of the iterates                                               *)
(* ------------------------------------------------------------------------------------------------------------ *)
Definition strict (P : program) (x : vec) : Prop := Forall (fun t => t < 0) (gxh P x).
Definition allpos (u : vec) : Prop := Forall (fun t => 0 < t) u.

Record inv (P : program) (st : istate) : Prop := mkInv {
  inv_x : length (i_x st) = dim P;
  inv_u : length (i_u st) = length (pG P);
  inv_v : length (i_v st) = length (pA P);
  inv_strict : strict P (i_x st);
  inv_pos : allpos (i_u st) }.

Lemma Forall_nth_iff (Pr : Q -> Prop) a : Forall Pr a <-> (forall i, (i < length a)%nat -> Pr (nth i a 0)).
Proof.
  split.
  - intros H i Hi. rewrite Forall_forall in H. apply H. apply nth_In. assumption.
  - induction a as [|t a IH]; intros H; constructor.
    + apply (H O). simpl. lia.
    + apply IH. intros i Hi. apply (H (S i)). simpl. lia.
Qed.

Lemma shrink1_eq s beta : qnorm (qmul_with src_c04_step_shrink1 s beta) == s * beta.
Proof. rewrite qnorm_eq. reflexivity. Qed.
Lemma shrink2_eq s beta : qnorm (qmul_with src_c04_step_shrink2 s beta) == s * beta.
Proof. rewrite qnorm_eq. reflexivity. Qed.

Lemma shrink_bounds s beta : 0 < s -> 0 < beta -> beta <= 1 -> 0 < s * beta /\ s * beta <= s.
Proof. intros. split; nra. Qed.

(* stage 1: the step only shrinks, and a return that is not an exhaustion passed the test *)
Lemma stage1_spec P x dx beta maxls : 0 < beta -> beta <= 1 ->
  forall fuel iter s k s', 0 < s -> (iter <= maxls)%Z -> (Z.to_nat (maxls - iter) < fuel)%nat ->
    stage1 fuel iter maxls P x dx s beta = (k, s') ->
    0 < s' /\ s' <= s /\ (src_c04_ls_exhausted1 k maxls = false -> stage1_ok P x dx s' = true).
Proof.
  intros Hb Hb1. induction fuel as [|f IH]; intros iter s k s' Hs Hi Hf E; [lia|].
  simpl in E. unfold src_c04_ls_cond1 in E. destruct (Z.ltb iter maxls) eqn:C.
  - apply Z.ltb_lt in C. destruct (stage1_ok P x dx s) eqn:T.
    + inversion E; subst. repeat split; [assumption|apply Qle_refl|intros _; assumption].
    + destruct (shrink_bounds s beta Hs Hb Hb1) as [B1 B2].
      apply IH in E; [| rewrite shrink1_eq; assumption | lia | lia].
      destruct E as [E1 [E2 E3]]. rewrite shrink1_eq in E2. repeat split; [assumption|lra|assumption].
  - apply Z.ltb_ge in C. inversion E; subst. repeat split; [assumption|apply Qle_refl|].
    unfold src_c04_ls_exhausted1. intros X. apply Z.eqb_neq in X. lia.
Qed.

Lemma stage2_spec P mufx miu alpha x u v dx du dv beta r0sq maxls : 0 < beta -> beta <= 1 ->
  forall fuel iter s res k s' res', 0 < s -> (iter <= maxls)%Z -> (Z.to_nat (maxls - iter) < fuel)%nat ->
    stage2 fuel iter maxls P mufx miu alpha x u v dx du dv s beta r0sq res = (k, s', res') ->
    0 < s' /\ s' <= s /\
    (src_c04_ls_exhausted2 k maxls = false ->
     exists rprev, res' = upd P mufx miu (trial x dx s') (trial u du s') (trial v dv s') rprev /\
                   stage2_ok (res2 res') alpha s' r0sq = true).
Proof.
  intros Hb Hb1. induction fuel as [|f IH]; intros iter s res k s' res' Hs Hi Hf E; [lia|].
  simpl in E. unfold src_c04_ls_cond2 in E. destruct (Z.ltb iter maxls) eqn:C.
  - apply Z.ltb_lt in C.
    destruct (stage2_ok (res2 (upd P mufx miu (trial x dx s) (trial u du s) (trial v dv s) res)) alpha s r0sq) eqn:T.
    + inversion E; subst. repeat split; [assumption|apply Qle_refl|]. intros _. exists res. split; [reflexivity|assumption].
    + destruct (shrink_bounds s beta Hs Hb Hb1) as [B1 B2].
      apply IH in E; [| rewrite shrink2_eq; assumption | lia | lia].
      destruct E as [E1 [E2 E3]]. rewrite shrink2_eq in E2. repeat split; [assumption|lra|assumption].
  - apply Z.ltb_ge in C. inversion E; subst. repeat split; [assumption|apply Qle_refl|].
    unfold src_c04_ls_exhausted2. intros X. apply Z.eqb_neq in X. lia.
Qed.

(* the tests, as the source states them *)
Lemma zs2_le a b : forall z1 z2, zs2 a b = (z1, z2) -> (Z.leb z1 z2 = true <-> a <= b).
Proof. intros z1 z2 E. unfold zs2 in E. inversion E; subst. rewrite Z.leb_le. unfold Qle. reflexivity. Qed.
Lemma zs2_gt a b : forall z1 z2, zs2 a b = (z1, z2) -> (Z.gtb z1 z2 = true <-> b < a).
Proof. intros z1 z2 E. unfold zs2 in E. inversion E; subst. rewrite Z.gtb_lt. unfold Qlt. reflexivity. Qed.

Lemma stage2_ok_iff R2 alpha s R0 : stage2_ok R2 alpha s R0 = true <-> R2 <= phi (1 - alpha * s) * R0.
Proof. unfold stage2_ok. destruct (zs2 R2 (phi (1 - alpha * s) * R0)) as [z1 z2] eqn:E. unfold src_c04_stage2_ok. apply (zs2_le _ _ _ _ E). Qed.

Lemma revert_test_iff R2 R0 : revert_test R2 R0 = true <-> R0 < R2.
Proof. unfold revert_test. destruct (zs2 R2 R0) as [z1 z2] eqn:E. unfold src_c04_revert. apply (zs2_gt _ _ _ _ E). Qed.

Lemma stage1_ok_strict P x dx s : stage1_ok P x dx s = true -> strict P (trial x dx s).
Proof.
  unfold stage1_ok, src_c04_stage1_ok, strict. intros H. apply Z.ltb_lt in H.
  assert (Hm : vmaxc (gxh P (trial x dx s)) < 0) by (unfold Qlt; simpl; lia).
  destruct (gxh P (trial x dx s)) as [|t a] eqn:E.
  - simpl in Hm. lra.
  - apply (vmaxc_lt (t :: a) 0); [discriminate|assumption].
Qed.

Lemma gxh_lin P x d s : wf P -> length x = length d ->
  veq (gxh P (vadd x (vscale s d))) (vadd (gxh P x) (vscale s (mv (pG P) d))).
Proof.
  intros W L. pose proof (wf_h P W) as Lh. unfold gxh. rewrite mv_lin by assumption.
  apply nth_veq; [len|]. intros i. rewrite nth_vsub by len. rewrite !nth_vadd by len. rewrite nth_vsub by len. ring.
Qed.

(* the segment between two strictly feasible points is strictly feasible: shrinking the step in stage 2 is safe *)
Lemma strict_segment P x d s1 s2 : wf P -> length x = dim P -> length d = dim P ->
  strict P x -> strict P (trial x d s1) -> 0 < s2 -> s2 <= s1 -> strict P (trial x d s2).
Proof.
  intros W Lx Ld H0 H1 Hs2 Hs21. unfold strict, trial in *.
  assert (E : forall s, veq (gxh P (vnorm (vadd x (vscale s d)))) (vadd (gxh P x) (vscale s (mv (pG P) d)))).
  { intros s. rewrite vnorm_veq. apply gxh_lin; [assumption|congruence]. }
  pose proof (length_gxh P x W) as Lg.
  rewrite Forall_nth_iff in *. intros i Hi.
  rewrite (veq_length _ _ (E s2)) in Hi. rewrite length_vadd in Hi by len.
  rewrite (veq_nth _ _ (E s2) i). rewrite nth_vadd by len. rewrite nth_vscale.
  specialize (H0 i Hi). specialize (H1 i). rewrite (veq_length _ _ (E s1)) in H1. rewrite length_vadd in H1 by len.
  specialize (H1 Hi). rewrite (veq_nth _ _ (E s1) i) in H1. rewrite nth_vadd in H1 by len. rewrite nth_vscale in H1.
  set (g := nth i (gxh P x) 0) in *. set (t := nth i (mv (pG P) d) 0) in *.
  destruct (Qlt_le_dec t 0) as [Ht|Ht]; [nra|].
  assert (s2 * t <= s1 * t) by (apply Qmult_le_compat_r; assumption). lra.
Qed.

(* any step 0 < s <= s0 * make_smax with s0 < 1 keeps the multipliers strictly positive (the proof of C04_step_keeps_positive) *)
Lemma step_pos_any big s0 u du s : 0 < big -> allpos u -> length du = length u -> 0 < s0 -> s0 < 1 ->
  0 < s -> s <= s0 * make_smax big u du -> allpos (vadd u (vscale s du)).
Proof.
  intros Hb Hu Hl Hs0 Hs1 Hp Hle. pose proof (Forall_nth_pos u Hu) as Hu'.
  destruct (make_smax_spec big u du Hb Hu') as [Hm [_ Hbound]].
  set (m := make_smax big u du) in *.
  assert (s < m) as Hsm.
  { apply (Qle_lt_trans _ _ _ Hle). setoid_replace m with (1 * m) at 2 by ring. apply Qmult_lt_compat_r; assumption. }
  apply pos_pointwise; [exact Hl|]. intros i Hi.
  destruct (Qlt_le_dec (nth i du 0) 0) as [Hneg|Hnn].
  - pose proof (Hbound i Hi Hneg) as Hbi.
    assert (s * (- nth i du 0) < m * (- nth i du 0)) as Hlt by (apply Qmult_lt_compat_r; [lra | exact Hsm]).
    lra.
  - assert (0 <= s * nth i du 0) as H0 by (apply Qmult_le_0_compat; lra).
    pose proof (Hu' i Hi). lra.
Qed.

Lemma length_trial x d s : length x = length d -> length (trial x d s) = length x.
Proof. intros L. unfold trial. len. Qed.

Lemma inv_done P par st : inv P st -> inv P (i_done P par st).
Proof. intros [H1 H2 H3 H4 H5]. constructor; assumption. Qed.

Lemma Z_to_nat_fuel maxls : (0 <= maxls)%Z -> (Z.to_nat (maxls - 0) < S (Z.to_nat maxls))%nat.
Proof. intros. rewrite Z.sub_0_r. lia. Qed.

(* (3) one pass of the loop keeps G x - h < 0 strictly and u > 0, for every oracle answer and every du *)
Lemma iter_core_invariant P mufx par st ans du :
  wf P -> 0 < p_big par -> 0 < p_s0 par -> p_s0 par < 1 -> 0 < p_beta par -> p_beta par <= 1 -> (0 <= p_maxls par)%Z ->
  inv P st -> inv P (snd (fst (iter_core P mufx par st ans du))).
Proof.
  intros W Hbig Hs0 Hs1 Hb Hb1 Hml I. destruct I as [Lx Lu Lv Hst Hpos].
  assert (I : inv P st) by (constructor; assumption).
  unfold iter_core.
  destruct (negb (a_stable ans && (Nat.eqb (length (a_dx ans)) (dim P) && Nat.eqb (length (a_dv ans)) (length (pA P)) &&
                                   Nat.eqb (length du) (length (i_u st))))) eqn:Esh.
  { simpl. apply inv_done; assumption. }
  apply negb_false_iff in Esh. apply andb_prop in Esh. destruct Esh as [_ Esh].
  apply andb_prop in Esh. destruct Esh as [Esh Ldu]. apply andb_prop in Esh. destruct Esh as [Ldx Ldv].
  apply Nat.eqb_eq in Ldx. apply Nat.eqb_eq in Ldv. apply Nat.eqb_eq in Ldu.
  set (sinit := qnorm (step_init (p_s0 par) (make_smax (p_big par) (i_u st) du))).
  assert (Esinit : sinit == p_s0 par * make_smax (p_big par) (i_u st) du) by (unfold sinit; rewrite qnorm_eq; reflexivity).
  destruct (make_smax_spec (p_big par) (i_u st) du Hbig (Forall_nth_pos _ Hpos)) as [Hm _].
  assert (Hsinit : 0 < sinit) by (rewrite Esinit; apply Qmult_lt_0_compat; assumption).
  destruct (stage1 (S (Z.to_nat (p_maxls par))) src_c04_ls_start1 (p_maxls par) P (i_x st) (a_dx ans) sinit (p_beta par)) as [k1 s1] eqn:E1.
  apply (stage1_spec P (i_x st) (a_dx ans) (p_beta par) (p_maxls par) Hb Hb1) in E1;
    [|assumption|unfold src_c04_ls_start1; lia|unfold src_c04_ls_start1; apply Z_to_nat_fuel; assumption].
  destruct E1 as [Hs1p [Hs1le Hok1]].
  destruct (src_c04_ls_exhausted1 k1 (p_maxls par)) eqn:X1.
  { simpl. apply inv_done; assumption. }
  specialize (Hok1 eq_refl). apply stage1_ok_strict in Hok1.
  destruct (stage2 (S (Z.to_nat (p_maxls par))) src_c04_ls_start2 (p_maxls par) P mufx (p_miu par) (p_alpha par)
                   (i_x st) (i_u st) (i_v st) (a_dx ans) du (a_dv ans) s1 (p_beta par) (res2 (i_res st)) (i_res st)) as [[k2 s2] res'] eqn:E2.
  apply (stage2_spec P mufx (p_miu par) (p_alpha par) (i_x st) (i_u st) (i_v st) (a_dx ans) du (a_dv ans) (p_beta par)
                     (res2 (i_res st)) (p_maxls par) Hb Hb1) in E2;
    [|assumption|unfold src_c04_ls_start2; lia|unfold src_c04_ls_start2; apply Z_to_nat_fuel; assumption].
  destruct E2 as [Hs2p [Hs2le _]].
  destruct (src_c04_ls_exhausted2 k2 (p_maxls par)) eqn:X2.
  { simpl. apply inv_done. constructor; assumption. }
  assert (Inew : inv P (mkI (trial (i_x st) (a_dx ans) s2) (vnorm (step_point (i_u st) du s2)) (trial (i_v st) (a_dv ans) s2) res' (i_status st))).
  { constructor; simpl.
    - rewrite length_trial; congruence.
    - unfold step_point. len.
    - rewrite length_trial; congruence.
    - apply (strict_segment P (i_x st) (a_dx ans) s1 s2); assumption.
    - unfold allpos. apply (veq_Forall (fun t => 0 < t)) with (a := vadd (i_u st) (vscale s2 du)).
      + intros a b Hab Ha. rewrite <- Hab. assumption.
      + unfold step_point. rewrite step_applied_id. symmetry. apply vnorm_veq.
      + apply (step_pos_any (p_big par) (p_s0 par)); try assumption. rewrite <- Esinit. lra. }
  destruct (negb (a_finite ans)); [simpl; destruct Inew; constructor; assumption|].
  destruct (precise_test _ _ _ _ _ _ _); simpl; [apply inv_done|]; assumption.
Qed.

Lemma iter_step_invariant P mufx par st ans :
  wf P -> 0 < p_big par -> 0 < p_s0 par -> p_s0 par < 1 -> 0 < p_beta par -> p_beta par <= 1 -> (0 <= p_maxls par)%Z ->
  inv P st -> inv P (snd (fst (iter_step P mufx par st ans))).
Proof. intros. unfold iter_step. apply iter_core_invariant; assumption. Qed.

Lemma neg_recip_pos g : Forall (fun t => t < 0) g -> Forall (fun t => 0 < t) (map (fun t => - (1) / t) g).
Proof.
  induction g as [|t a IH]; intros H; simpl; constructor; inversion H; subst.
  - assert (0 < / (- t)) by (apply Qinv_lt_0_compat; lra).
    setoid_replace (- (1) / t) with (/ (- t)); [assumption|]. field. lra.
  - apply IH. assumption.
Qed.

(* the start: u0 = -1 / (G x0 - h) > 0 when the start test lets x0 through *)
Lemma iter_start_invariant P mufx par x0 st : wf P -> length x0 = dim P -> iter_start P mufx par x0 = Some st -> inv P st.
Proof.
  intros W Lx E. unfold iter_start in E. destruct (start_unfeasible_dec P x0) eqn:S; [discriminate|].
  inversion E; subst; clear E. unfold start_unfeasible_dec, src_c04_start_unfeasible in S.
  assert (Hm : vmaxc (gxh P x0) < 0).
  { rewrite Z.geb_leb in S. apply Z.leb_gt in S. unfold Qlt. simpl. lia. }
  pose proof (length_gxh P x0 W) as Lg.
  assert (Hs : strict P x0).
  { unfold strict. destruct (gxh P x0) as [|t a] eqn:Eg; [simpl in Hm; lra|].
    apply (vmaxc_lt (t :: a) 0); [discriminate|assumption]. }
  constructor; simpl.
  - assumption.
  - rewrite length_vnorm, map_length. assumption.
  - apply length_zeros.
  - assumption.
  - unfold allpos, strict in *. apply (veq_Forall (fun t => 0 < t)) with (a := map (fun t => - (1) / t) (gxh P x0)).
    + intros a b Hab Ha. rewrite <- Hab. assumption.
    + symmetry. apply vnorm_veq.
    + apply neg_recip_pos. assumption.
Qed.

Lemma iter_run_invariant P mufx par :
  wf P -> 0 < p_big par -> 0 < p_s0 par -> p_s0 par < 1 -> 0 < p_beta par -> p_beta par <= 1 -> (0 <= p_maxls par)%Z ->
  forall fuel iters maxit st answers, inv P st -> inv P (fst (iter_run fuel iters maxit P mufx par st answers)).
Proof.
  intros W Hbig Hs0 Hs1 Hb Hb1 Hml. induction fuel as [|f IH]; intros iters maxit st answers I; [simpl; assumption|].
  destruct answers as [|ans rest]; [simpl; assumption|]. simpl.
  destruct (src_c04_outer_cond iters maxit); [|simpl; assumption].
  pose proof (iter_step_invariant P mufx par st ans W Hbig Hs0 Hs1 Hb Hb1 Hml I) as I'.
  destruct (iter_step P mufx par st ans) as [[k st'] tr]. simpl in I'.
  destruct (Z.eqb k 0); [apply IH; assumption|simpl; assumption].
Qed.

Lemma dot_pos_neg : forall u g, allpos u -> Forall (fun t => t < 0) g -> length u = length g -> u <> [] -> dot u g < 0.
Proof.
  induction u as [|a u IH]; intros [|b g] Hu Hg L Hne; try discriminate; [congruence|].
  inversion Hu; inversion Hg; subst. simpl.
  assert (a * b < 0) by nra.
  destruct u as [|a' u'].
  - destruct g; [simpl; lra|discriminate].
  - assert (dot (a' :: u') g < 0) by (apply IH; [assumption|assumption|simpl in *; congruence|discriminate]). lra.
Qed.

(* hence the surrogate duality gap of every iterate is positive (and update() never divides by zero: G x - h < 0) *)
Lemma inv_eta_positive P st : wf P -> inv P st -> pG P <> [] -> 0 < m_eta P (i_x st) (i_u st).
Proof.
  intros W [Lx Lu Lv Hs Hp] Hne. unfold m_eta.
  assert (dot (i_u st) (gxh P (i_x st)) < 0).
  { apply dot_pos_neg; try assumption.
    - rewrite length_gxh by assumption. assumption.
    - intro E. rewrite E in Lu. simpl in Lu. destruct (pG P); [congruence|discriminate]. }
  lra.
Qed.

Lemma inv_domain P st : inv P st -> Forall (fun t => ~ t == 0) (gxh P (i_x st)).
Proof. intros [_ _ _ Hs _]. unfold strict in Hs. eapply Forall_impl; [|exact Hs]. intros t Ht E. simpl in Ht. lra. Qed.

(* ------------------------------------------------------------------------------------------------------------ *)
(* 4. the exits                                                                                                    *)
(* ------------------------------------------------------------------------------------------------------------ *)
(* (4) stage 2 returns either by exhaustion or at a trial point whose residual passed the test *)
Lemma iter_stage2_exit P mufx miu alpha x u v dx du dv beta r0sq maxls s res k s' res' :
  0 < beta -> beta <= 1 -> 0 < s -> (0 <= maxls)%Z ->
  stage2 (S (Z.to_nat maxls)) src_c04_ls_start2 maxls P mufx miu alpha x u v dx du dv s beta r0sq res = (k, s', res') ->
  k = maxls \/
  (exists rprev, res' = upd P mufx miu (trial x dx s') (trial u du s') (trial v dv s') rprev) /\
  res2 res' <= phi (1 - alpha * s') * r0sq /\
  (0 <= 1 - alpha * s' -> res2 res' <= (1 - alpha * s') * (1 - alpha * s') * r0sq).
Proof.
  intros Hb Hb1 Hs Hml E.
  apply (stage2_spec P mufx miu alpha x u v dx du dv beta r0sq maxls Hb Hb1) in E;
    [|assumption|unfold src_c04_ls_start2; lia|unfold src_c04_ls_start2; apply Z_to_nat_fuel; assumption].
  destruct E as [_ [_ E]]. unfold src_c04_ls_exhausted2 in E. destruct (Z.eqb k maxls) eqn:X.
  - left. apply Z.eqb_eq. assumption.
  - right. destruct (E eq_refl) as [rprev [E1 E2]]. apply stage2_ok_iff in E2.
    split; [exists rprev; assumption|]. split; [assumption|]. intros Hn. rewrite phi_nonneg in E2 by assumption. assumption.
Qed.

(* update() with both guards open does not read the previous residual fields *)
Lemma upd_independent P mufx miu x u v r1 r2 : pG P <> [] -> pA P <> [] -> upd P mufx miu x u v r1 = upd P mufx miu x u v r2.
Proof.
  intros HG HA. unfold upd, src_c04_upd_gap_guard, src_c04_upd_eq_guard, src_c04_upd_ineq_guard.
  assert (Z.gtb (Z.of_nat (length (pG P))) 0 = true) as ->.
  { destruct (pG P); [congruence|]. simpl length. rewrite Z.gtb_ltb. apply Z.ltb_lt. lia. }
  assert (Z.gtb (Z.of_nat (length (pA P))) 0 = true) as ->.
  { destruct (pA P); [congruence|]. simpl length. rewrite Z.gtb_ltb. apply Z.ltb_lt. lia. }
  reflexivity.
Qed.

(* without equalities only m_rprim (an empty vector for every state of the loop) is carried over *)
Lemma upd_independent_ineq P mufx miu x u v r1 r2 : pG P <> [] ->
  s_fx (upd P mufx miu x u v r1) = s_fx (upd P mufx miu x u v r2) /\
  s_eta (upd P mufx miu x u v r1) = s_eta (upd P mufx miu x u v r2) /\
  s_rdual (upd P mufx miu x u v r1) = s_rdual (upd P mufx miu x u v r2) /\
  s_rcent (upd P mufx miu x u v r1) = s_rcent (upd P mufx miu x u v r2) /\
  (pA P = [] -> s_rprim (upd P mufx miu x u v r1) = s_rprim r1).
Proof.
  intros HG. unfold upd, src_c04_upd_gap_guard, src_c04_upd_eq_guard, src_c04_upd_ineq_guard.
  assert (Z.gtb (Z.of_nat (length (pG P))) 0 = true) as ->.
  { destruct (pG P); [congruence|]. simpl length. rewrite Z.gtb_ltb. apply Z.ltb_lt. lia. }
  simpl. repeat split. intros ->. reflexivity.
Qed.

(* the exits of one pass: which state and which status each of them leaves *)
Definition stored_done (P : program) (par : params) (st : istate) : Z :=
  model_done P (i_x st) (s_eta (i_res st)) (s_rdual (i_res st)) (s_rprim (i_res st)) (p_eps par) (p_eps2 par).

Lemma iter_core_exits P mufx par st ans du :
  let k := fst (fst (iter_core P mufx par st ans du)) in
  let st' := snd (fst (iter_core P mufx par st ans du)) in
  ((k = 1%Z \/ k = 2%Z) /\ i_x st' = i_x st /\ i_u st' = i_u st /\ i_v st' = i_v st /\ i_res st' = i_res st /\ i_status st' = stored_done P par st')
  \/ (k = 3%Z /\ i_x st' = i_x st /\ i_u st' = i_u st /\ i_v st' = i_v st /\ i_status st' = stored_done P par st' /\
      exists rt, (res2 (i_res st) < res2 rt /\ i_res st' = upd P mufx (p_miu par) (i_x st) (i_u st) (i_v st) rt)
                 \/ (res2 rt <= res2 (i_res st) /\ i_res st' = rt))
  \/ (k = 4%Z /\ i_status st' = st_failed)
  \/ (k = 5%Z /\ i_status st' = stored_done P par st')
  \/ (k = 0%Z /\ i_status st' = i_status st).
Proof.
  unfold iter_core.
  destruct (negb (a_stable ans && (Nat.eqb (length (a_dx ans)) (dim P) && Nat.eqb (length (a_dv ans)) (length (pA P)) &&
                                   Nat.eqb (length du) (length (i_u st))))).
  { simpl. left. repeat split; auto. }
  destruct (stage1 _ _ _ _ _ _ _ _) as [k1 s1].
  destruct (src_c04_ls_exhausted1 k1 (p_maxls par)).
  { simpl. left. repeat split; auto. }
  destruct (stage2 _ _ _ _ _ _ _ _ _ _ _ _ _ _ _ _ _) as [[k2 s2] res'] eqn:E2.
  destruct (src_c04_ls_exhausted2 k2 (p_maxls par)).
  { simpl. right. left. repeat split; auto. exists res'.
    destruct (revert_test (res2 res') (res2 (i_res st))) eqn:R.
    - left. apply revert_test_iff in R. split; [assumption|reflexivity].
    - right. split; [|reflexivity].
      destruct (Qlt_le_dec (res2 (i_res st)) (res2 res')) as [H|H]; [|assumption].
      apply revert_test_iff in H. congruence. }
  destruct (negb (a_finite ans)).
  { simpl. right. right. left. auto. }
  destruct (precise_test _ _ _ _ _ _ _); simpl.
  - right. right. right. left. auto.
  - right. right. right. right. auto.
Qed.

(* (5) `converged` after a pass only through done(): feasible and all three below epsilon, on the numbers stored in the state *)
Lemma iter_converged_only_through_done P mufx par st ans du : 0 <= p_eps par -> i_status st <> st_converged ->
  let k := fst (fst (iter_core P mufx par st ans du)) in
  let st' := snd (fst (iter_core P mufx par st ans du)) in
  i_status st' = st_converged ->
  (k = 1 \/ k = 2 \/ k = 3 \/ k = 5)%Z /\
  feasible_dec P (i_x st') (p_eps2 par) = true /\ s_eta (i_res st') < p_eps par /\
  sumsq (s_rdual (i_res st')) < p_eps par * p_eps par /\ sumsq (s_rprim (i_res st')) < p_eps par * p_eps par.
Proof.
  intros He Hst k st' Hc. subst k st'.
  assert (D : forall s, stored_done P par s = st_converged ->
            feasible_dec P (i_x s) (p_eps2 par) = true /\ s_eta (i_res s) < p_eps par /\
            sumsq (s_rdual (i_res s)) < p_eps par * p_eps par /\ sumsq (s_rprim (i_res s)) < p_eps par * p_eps par).
  { intros s Hs. unfold stored_done, model_done in Hs. rewrite status_dec_converged in Hs.
    apply converged_dec_iff in Hs; assumption. }
  destruct (iter_core_exits P mufx par st ans du) as [H|[H|[H|[H|H]]]].
  - destruct H as [Hk [_ [_ [_ [_ Hs]]]]]. rewrite Hs in Hc. split; [destruct Hk; auto|apply D; assumption].
  - destruct H as [Hk [_ [_ [_ [Hs _]]]]]. rewrite Hs in Hc. split; [auto|apply D; assumption].
  - destruct H as [_ Hs]. rewrite Hs in Hc. discriminate.
  - destruct H as [Hk Hs]. rewrite Hs in Hc. split; [auto|apply D; assumption].
  - destruct H as [_ Hs]. rewrite Hs in Hc. contradiction.
Qed.

(* the revert branch of an exhausted stage 2 puts back the residual fields of the current point (with inequalities and
   equalities present update() overwrites every field it owns; without equalities m_rprim is the empty vector throughout) *)
Lemma iter_revert_restores P mufx miu x u v r0 rt : pG P <> [] -> pA P <> [] ->
  upd P mufx miu x u v rt = upd P mufx miu x u v r0.
Proof. intros. apply upd_independent; assumption. Qed.

(* the `very precise convergence` test compares differences of square roots: decided exactly on the squares *)
Lemma sgn_sd_nonneg_spec a b e ra rb : 0 <= ra -> 0 <= rb -> ra * ra == a -> rb * rb == b -> 0 <= e ->
  (sgn_sd_nonneg a b e = Lt <-> ra - rb < e).
Proof.
  intros Hra Hrb Ea Eb He. unfold sgn_sd_nonneg.
  destruct (Qltb (a - b - e * e) 0) eqn:T.
  - apply Qltb_lt in T. split; [intros _|reflexivity]. nra.
  - assert (T' : 0 <= a - b - e * e).
    { destruct (Qlt_le_dec (a - b - e * e) 0) as [H|H]; [apply Qltb_lt in H; congruence|assumption]. }
    rewrite <- Qlt_alt. split; intros H.
    + assert (0 <= 2 * e * rb) by nra.
      assert (Hk : (a - b - e * e) * (a - b - e * e) < (2 * e * rb) * (2 * e * rb)) by (rewrite <- Eb in H; nra).
      assert (a - b - e * e < 2 * e * rb) by nra. nra.
    + assert (a - b - e * e < 2 * e * rb) by nra.
      assert (0 <= 2 * e * rb) by nra.
      assert ((a - b - e * e) * (a - b - e * e) < (2 * e * rb) * (2 * e * rb)) by nra. rewrite <- Eb. nra.
Qed.

Lemma precise_test_iff peta ceta prd2 crd2 prp2 crp2 eps0 :
  precise_test peta ceta prd2 crd2 prp2 crp2 eps0 = true <->
  peta - ceta < eps0 /\ sgn_sd prd2 crd2 eps0 = Lt /\ sgn_sd prp2 crp2 eps0 = Lt.
Proof.
  unfold precise_test, src_c04_precise. rewrite Z.ltb_lt, Qlt_alt.
  destruct (peta - ceta ?= eps0), (sgn_sd prd2 crd2 eps0), (sgn_sd prp2 crp2 eps0); simpl;
    split; intros H; try lia; try (repeat split; reflexivity); try (destruct H as [H1 [H2 H3]]; discriminate).
Qed.

(* exit 5 is taken exactly when none of eta, |rdual|_2, |rprim|_2 decreased by epsilon0 or more (rational roots ra, rb, ... of the
   squared norms; epsilon0 >= 0 as registered) *)
Lemma precise_test_spec peta ceta prd2 crd2 prp2 crp2 eps0 a b c d :
  0 <= eps0 -> 0 <= a -> 0 <= b -> 0 <= c -> 0 <= d -> a * a == prd2 -> b * b == crd2 -> c * c == prp2 -> d * d == crp2 ->
  (precise_test peta ceta prd2 crd2 prp2 crp2 eps0 = true <-> peta - ceta < eps0 /\ a - b < eps0 /\ c - d < eps0).
Proof.
  intros He Ha Hb Hc Hd Ea Eb Ec Ed. rewrite precise_test_iff. unfold sgn_sd.
  assert (Qle_bool 0 eps0 = true) as -> by (apply Qle_bool_iff; assumption).
  rewrite (sgn_sd_nonneg_spec prd2 crd2 eps0 a b), (sgn_sd_nonneg_spec prp2 crp2 eps0 c d) by assumption. reflexivity.
Qed.
