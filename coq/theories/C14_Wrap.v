(* C14 (second extension) -- proofs about the wrappers linear_t::fit / linear_t::predict (exact arithmetic). *)
From Coq Require Import List ZArith QArith Bool Lia Lra Lqa.
From LNGen Require Import Src_dstats Src_dlinear.
From LN Require Import C14_Defs C14_Proofs C14_WrapDefs.
Import ListNotations.
Local Open Scope Q_scope.

(* the translated modes: both arguments of nano::upscale are the model's scaling parameter, prediction is unscaled *)
Lemma wrap_modes : forall p, fit_mode_f p = p /\ fit_mode_t p = p /\ train_mode p = p /\ predict_mode = MNone /\
  mode_of_Z src_c14l_evaluate_mode = MNone.
Proof. intros p. destruct p; repeat split; reflexivity. Qed.

Lemma scale_row_none : forall fs raw, length fs = length raw -> scale_row MNone fs raw = zero_missing raw.
Proof.
  induction fs as [|f fs IH]; destruct raw as [|v raw]; simpl; intros L; try discriminate; [reflexivity|].
  injection L as L. rewrite (IH raw L). destruct v; reflexivity.
Qed.

Lemma zero_missing_some : forall x, zero_missing (map Some x) = x.
Proof. induction x as [|a x IH]; simpl; [reflexivity|now rewrite IH]. Qed.
Lemma zero_missing_length : forall raw, length (zero_missing raw) = length raw.
Proof. intros. unfold zero_missing. apply map_length. Qed.

Lemma scale1_zero : forall fm f, scale1 fm f (Some 0) == scaling_b fm f.
Proof. intros fm f. destruct fm; simpl; ring. Qed.

(* reading the missing inputs as raw zeros adds their scaled offsets to the scaled dot product *)
Lemma dot_scale_missing : forall fm fs w raw, length fs = length w -> length w = length raw ->
  dot w (scale_row fm fs (map Some (zero_missing raw))) == dot w (scale_row fm fs raw) + dot w (miss_vec fm fs raw).
Proof.
  intros fm. induction fs as [|f fs IH]; intros w raw L1 L2.
  - destruct w; [|discriminate]. simpl. ring.
  - destruct w as [|w0 w]; [discriminate|]. destruct raw as [|v raw]; [discriminate|].
    simpl in L1, L2. injection L1 as L1. injection L2 as L2.
    change (dot (w0 :: w) (scale_row fm (f :: fs) (map Some (zero_missing (v :: raw)))))
      with (w0 * scale1 fm f (Some (match v with Some x => x | None => 0 end)) + dot w (scale_row fm fs (map Some (zero_missing raw)))).
    change (dot (w0 :: w) (scale_row fm (f :: fs) (v :: raw))) with (w0 * scale1 fm f v + dot w (scale_row fm fs raw)).
    change (dot (w0 :: w) (miss_vec fm (f :: fs) (v :: raw)))
      with (w0 * (match v with None => scaling_b fm f | Some _ => 0 end) + dot w (miss_vec fm fs raw)).
    rewrite (IH w raw L1 L2). destruct v as [x|].
    + ring.
    + rewrite scale1_zero. change (scale1 fm f None) with 0. ring.
Qed.

(* one output: the stored row applied to the raw inputs as do_predict reads them *)
Theorem wrap_row : forall fm tm fs t w b raw, stats_wf t -> length fs = length w -> length w = length raw ->
  dot (up_wrow fm tm fs t w) (scale_row MNone fs raw) + up_bias fm tm fs t w b ==
  upscale1 tm t (dot w (scale_row fm fs raw) + b) + dot w (miss_vec fm fs raw) / scaling_w tm t.
Proof.
  intros fm tm fs t w b raw WF L1 L2.
  rewrite scale_row_none by congruence.
  assert (L3 : length w = length (zero_missing raw)) by (rewrite zero_missing_length; exact L2).
  rewrite (affine_conversion fm tm fs t w b (zero_missing raw) WF L1 L3).
  destruct (wf_scaling tm t WF) as [NZ UP]. rewrite !UP, (dot_scale_missing fm fs w raw L1 L2). field. exact NZ.
Qed.

Lemma dot_miss_some : forall fm fs w x, dot w (miss_vec fm fs (map Some x)) == 0.
Proof.
  intros fm. induction fs as [|f fs IH]; intros w x; destruct w as [|w0 w]; destruct x as [|x0 x]; simpl; try reflexivity.
  rewrite IH. ring.
Qed.

Lemma dot_miss_none_mode : forall fs w raw, dot w (miss_vec MNone fs raw) == 0.
Proof.
  induction fs as [|f fs IH]; intros w raw; destruct w as [|w0 w]; destruct raw as [|v raw]; simpl; try reflexivity.
  rewrite IH. destruct v; ring.
Qed.

(* well-shaped model: one statistics record, one weight row (of the input width) and one bias per output *)
Inductive shaped (n : nat) : list stats -> list (list Q) -> list Q -> Prop :=
| shaped_nil : shaped n [] [] []
| shaped_cons : forall t ts w W bi b, stats_wf t -> length w = n -> shaped n ts W b -> shaped n (t :: ts) (w :: W) (bi :: b).

(* the whole wrapper on finite raw inputs: predict of the stored model = up-scaled outputs of the scaled-space model on the
   scaled inputs, for every mode pair (the wrapper instance is fm = tm = the model's parameter, see wrap_modes) *)
Theorem wrap_predict_finite : forall fm tm fs ts W b x, shaped (length fs) ts W b -> length x = length fs ->
  Forall2 Qeq (wrap_predict fs (lin_store fm tm fs ts W b) (map Some x)) (ref_predict fm tm fs ts W b (map Some x)).
Proof.
  intros fm tm fs ts W b x SH Lx. unfold wrap_predict, ref_predict, lin_predict.
  replace predict_mode with MNone by (symmetry; apply wrap_modes; exact MNone).
  induction SH as [|t ts w W bi b WF Lw SH IH]; simpl; [constructor|].
  constructor; [|exact IH].
  assert (L2 : length w = length (map Some x)) by (rewrite map_length; congruence).
  rewrite (wrap_row fm tm fs t w bi (map Some x) WF (eq_sym Lw) L2), dot_miss_some.
  destruct (wf_scaling tm t WF) as [NZ _]. field. exact NZ.
Qed.

(* ... and on raw inputs with missing entries: the EXACT discrepancy to "missing -> 0 in scaled space" *)
Theorem wrap_predict_missing : forall fm tm fs ts W b raw, shaped (length fs) ts W b -> length raw = length fs ->
  Forall2 Qeq (wrap_predict fs (lin_store fm tm fs ts W b) raw)
              (qadd_list (ref_predict fm tm fs ts W b raw) (miss_terms fm tm fs ts W raw)).
Proof.
  intros fm tm fs ts W b raw SH Lx. unfold wrap_predict, ref_predict, lin_predict.
  replace predict_mode with MNone by (symmetry; apply wrap_modes; exact MNone).
  induction SH as [|t ts w W bi b WF Lw SH IH]; simpl; [constructor|].
  constructor; [|exact IH].
  assert (L2 : length w = length raw) by congruence.
  exact (wrap_row fm tm fs t w bi raw WF (eq_sym Lw) L2).
Qed.

(* do_predict reads a missing input as RAW zero, i.e. as the scaled value scale(0) = -offset * div, not as scaled zero:
   the stored model on a raw row with missing entries equals the reference on the row with the missing entries replaced by 0 *)
Theorem wrap_predict_missing_is_raw_zero : forall fm tm fs ts W b raw, shaped (length fs) ts W b -> length raw = length fs ->
  Forall2 Qeq (wrap_predict fs (lin_store fm tm fs ts W b) raw)
              (ref_predict fm tm fs ts W b (map Some (zero_missing raw))).
Proof.
  intros fm tm fs ts W b raw SH Lx.
  pose proof (wrap_predict_finite fm tm fs ts W b (zero_missing raw) SH ltac:(rewrite zero_missing_length; exact Lx)) as H.
  unfold wrap_predict in *. replace predict_mode with MNone in * by (symmetry; apply wrap_modes; exact MNone).
  rewrite scale_row_none in * by (rewrite ?map_length, ?zero_missing_length; congruence).
  now rewrite zero_missing_some in H.
Qed.

(* no discrepancy when the inputs are not scaled (mode none) *)
Theorem wrap_predict_missing_none : forall tm fs ts W b raw, shaped (length fs) ts W b -> length raw = length fs ->
  Forall2 Qeq (wrap_predict fs (lin_store MNone tm fs ts W b) raw) (ref_predict MNone tm fs ts W b raw).
Proof.
  intros tm fs ts W b raw SH Lx. unfold wrap_predict, ref_predict, lin_predict.
  replace predict_mode with MNone by (symmetry; apply wrap_modes; exact MNone).
  induction SH as [|t ts w W bi b WF Lw SH IH]; simpl; [constructor|].
  constructor; [|exact IH].
  assert (L2 : length w = length raw) by congruence.
  rewrite (wrap_row MNone tm fs t w bi raw WF (eq_sym Lw) L2), dot_miss_none_mode.
  destruct (wf_scaling tm t WF) as [NZ _]. field. exact NZ.
Qed.

(* the discrepancy is real: mean scaling of the column [1; 3; 5] (mean 3, range 4), W = [[1]], b = [0], unscaled target, the
   input missing: the stored model predicts -3/4 (= scale(0)), the property's "missing -> 0 in scaled space" gives 0 *)
Lemma wx_stats_wf : stats_wf wx_stats.
Proof. unfold stats_wf, wx_stats; simpl. repeat split; reflexivity. Qed.

Lemma wrap_missing_refuted : exists fm tm fs ts W b raw, shaped (length fs) ts W b /\ length raw = length fs /\
  ~ Forall2 Qeq (wrap_predict fs (lin_store fm tm fs ts W b) raw) (ref_predict fm tm fs ts W b raw).
Proof.
  exists MMean, MNone, [wx_stats], [stats_off 3], [[1]], [0], [None].
  split; [|split; [reflexivity|]].
  - constructor; [apply stats_off_wf|reflexivity|constructor].
  - intros H. inversion H as [|x y l l' E _]; subst. vm_compute in E. discriminate E.
Qed.

Lemma wrap_nonvacuous :
  shaped (length [wx_stats]) [stats_off 3] [[1]] [0] /\ length [Some 5] = length [wx_stats] /\
  Forall2 Qeq (wrap_predict [wx_stats] (lin_store MMean MNone [wx_stats] [stats_off 3] [[1]] [0]) [Some 5]) [1 # 2] /\
  Forall2 Qeq (ref_predict MMean MNone [wx_stats] [stats_off 3] [[1]] [0] [Some 5]) [1 # 2] /\
  Forall2 Qeq (wrap_predict [wx_stats] (lin_store MMean MNone [wx_stats] [stats_off 3] [[1]] [0]) [None]) [- (3 # 4)] /\
  Forall2 Qeq (ref_predict MMean MNone [wx_stats] [stats_off 3] [[1]] [0] [None]) [0].
Proof.
  split; [constructor; [apply stats_off_wf|reflexivity|constructor]|]. split; [reflexivity|].
  repeat split; repeat constructor; vm_compute; reflexivity.
Qed.
