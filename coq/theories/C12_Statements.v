(* C12 -- real-number model of sample_from_ball (src/core/sampling.cpp) and the proof that the sampled point
   lies in the ball.  Kept apart from C12_Defs/C12_Proofs (discrete, extracted) because it needs the reals.

   The code draws a direction u (non-zero with probability one), a scale z = pow(uniform[0,1), 1/n) in [0,1] and
   sets  x(k) = x0(k) + radius * z * u(k) / |u|_2. *)
From Coq Require Import Reals List Lra.
Import ListNotations.
Local Open Scope R_scope.

Fixpoint sumsq (v : list R) : R :=
  match v with
  | [] => 0
  | x :: r => x * x + sumsq r
  end.

Definition norm2 (v : list R) : R := sqrt (sumsq v).

(* component-wise  a + radius * z * b / nrm *)
Fixpoint ball_point (x0 u : list R) (radius z nrm : R) : list R :=
  match x0, u with
  | a :: x0', b :: u' => (a + radius * z * b / nrm) :: ball_point x0' u' radius z nrm
  | _, _ => []
  end.

Definition sample_from_ball (x0 u : list R) (radius z : R) : list R := ball_point x0 u radius z (norm2 u).

Fixpoint vsub (x y : list R) : list R :=
  match x, y with
  | a :: x', b :: y' => (a - b) :: vsub x' y'
  | _, _ => []
  end.

Lemma sumsq_nonneg v : 0 <= sumsq v.
Proof. induction v as [|x r IH]; cbn [sumsq]; [lra|]. pose proof (Rle_0_sqr x) as H. unfold Rsqr in H. lra. Qed.

Lemma ball_point_length x0 : forall u radius z nrm, length x0 = length u ->
  length (ball_point x0 u radius z nrm) = length x0.
Proof.
  induction x0 as [|a x0 IH]; intros [|b u] radius z nrm H; cbn in *; try reflexivity; try discriminate.
  f_equal. apply IH. congruence.
Qed.

Lemma ball_offset_sumsq x0 : forall u radius z nrm, length x0 = length u -> nrm <> 0 ->
  sumsq (vsub (ball_point x0 u radius z nrm) x0) = (radius * z / nrm) * (radius * z / nrm) * sumsq u.
Proof.
  induction x0 as [|a x0 IH]; intros [|b u] radius z nrm H Hn; cbn in H; try discriminate.
  - cbn. lra.
  - cbn [ball_point vsub sumsq]. rewrite IH by (try congruence; assumption). field. exact Hn.
Qed.

Lemma p_ball x0 u radius z :
  length x0 = length u -> 0 < radius -> 0 <= z <= 1 -> 0 < sumsq u ->
  length (sample_from_ball x0 u radius z) = length x0 /\
  norm2 (vsub (sample_from_ball x0 u radius z) x0) = radius * z /\
  norm2 (vsub (sample_from_ball x0 u radius z) x0) <= radius.
Proof.
  intros HL Hr Hz Hu. unfold sample_from_ball.
  assert (Hn : 0 < norm2 u) by (unfold norm2; apply sqrt_lt_R0; exact Hu).
  assert (Hsq : norm2 u * norm2 u = sumsq u) by (unfold norm2; apply sqrt_sqrt; lra).
  assert (E : norm2 (vsub (ball_point x0 u radius z (norm2 u)) x0) = radius * z).
  { unfold norm2 at 1. rewrite ball_offset_sumsq by (try assumption; lra).
    replace (radius * z / norm2 u * (radius * z / norm2 u) * sumsq u) with ((radius * z) * (radius * z)).
    - apply sqrt_square. nra.
    - rewrite <- Hsq. field. lra. }
  split; [apply ball_point_length; exact HL|]. split; [exact E|]. rewrite E. nra.
Qed.
