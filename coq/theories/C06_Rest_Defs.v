(* C06 extension (third round, "finish the table") -- executable definitions only, over the abstract scalar structure [ops T] of
   C06_Defs.v ([Qops] is extracted and compared with the library, [Rops] is what C06_Rest.v proves things about).

   1. Taylor coefficients along a line: for the polynomial benchmark functions (degree <= 4)
          f(x + s d) = f(x) + s g(x).d + s^2 R2(x,d) + s^3 R3(x,d) + s^4 R4(x,d)        for every real s,
      with R2, R3, R4 written out here (homogeneous of degree 2, 3, 4 in d): schumer-steiglitz, styblinski-tang, qing, axis ellipsoid
      (separable), chung-reynolds, sargan, zakharov (functions of x.x and x.b), rosenbrock, dixon-price (chains), powell (blocks of 4).
   2. powell (function_powell_t, not modelled before), value and gradient as the source writes them.
   3. the quadratic surrogate of src/tuner/surrogate.cpp: feature map (1, p, p_i p_j for i <= j) as the constructor of the FIT
      objective fills it, the surrogate m . phi(x) with the gradient loops of the source, the fit objective sum_i L(y_i, phi(p_i) . x).
   4. gboost `grads` objective: mean_i L(t_i, x_i) over the concatenated per-sample outputs, gradient G(t_i, x_i) / n block by block.
   5. maxquad: the constructor's fill of A_k (mirrored off-diagonal entries, diagonal = own term + sum of |off-diagonal| of the row) and b_k.
   6. functional constraints: the wrapped function's value / gradient / flags forwarded (translated kernels).
   No proofs in this file. *)
From Coq Require Import ZArith QArith List Bool Reals.
From LNGen Require Import Src_c06 Src_c06rest.
From LN Require Import C06_Defs C06_Convex2_Defs.
Import ListNotations.

Section Rest.
  Context {T : Type} (OP : ops T).
  Local Notation zr := (o_zero OP).
  Local Notation un := (o_one OP).
  Local Notation "x + y" := (o_add OP x y) : poly_scope.
  Local Notation "x - y" := (o_sub OP x y) : poly_scope.
  Local Notation "x * y" := (o_mul OP x y) : poly_scope.
  Local Notation "- x" := (o_opp OP x) : poly_scope.
  Local Notation "x <? y" := (o_ltb OP x y) : poly_scope.
  Local Open Scope poly_scope.
  Local Notation sq := (sq OP).
  Local Notation cube := (cube OP).
  Local Notation quartic := (quartic OP).
  Definition ci (n : Z) : T := cst OP n 1%positive.

  (* the point x + s d *)
  Definition along (x : list T) (s : T) (d : list T) : list T := vadd OP x (vscale OP s d).
  (* the polynomial  s^2 r2 + s^3 r3 + s^4 r4  (the remainder along s d) *)
  Definition rem_poly (s r2 r3 r4 : T) : T := sq s * r2 + cube s * r3 + quartic s * r4.

  Fixpoint sum3 (h : T -> T -> T -> T) (w x d : list T) : T :=
    match w, x, d with a :: w', u :: x', e :: d' => h a u e + sum3 h w' x' d' | _, _, _ => zr end.
  (* adjacent pairs (a, b) = (x_i, x_{i+1}) with their direction (ea, eb) *)
  Fixpoint chain5 (h : T -> T -> T -> T -> T -> T) (w x d : list T) : T :=
    match w, x, d with
    | wi :: w', a :: ((b :: _) as x'), ea :: ((eb :: _) as d') => h wi a b ea eb + chain5 h w' x' d'
    | _, _, _ => zr
    end.

  (* ---- scalar building blocks: (u + s e)^4 = u^4 + 4 u^3 e s + 6 u^2 e^2 s^2 + 4 u e^3 s^3 + e^4 s^4 ---- *)
  Definition q2 (u e : T) : T := ci 6 * sq u * sq e.
  Definition q3 (u e : T) : T := ci 4 * u * cube e.
  Definition q4 (e : T) : T := quartic e.

  (* ---- separable functions ---- *)
  Definition schumer_r2 (x d : list T) : T := sum3 (fun _ u e => q2 u e) x x d.
  Definition schumer_r3 (x d : list T) : T := sum3 (fun _ u e => q3 u e) x x d.
  Definition schumer_r4 (x d : list T) : T := sum3 (fun _ _ e => q4 e) x x d.
  Definition styblinski_r2 (x d : list T) : T := sum3 (fun _ u e => q2 u e - ci 16 * sq e) x x d.
  Definition qing_r2 (x d : list T) : T := sum3 (fun w u e => q2 u e - ci 2 * w * sq e) (bias1 OP x) x d.
  Definition axis_r2 (x d : list T) : T := sum3 (fun w _ e => sq e * w) (bias1 OP x) x d.

  (* ---- functions of u = x.x (p = x.d, q = d.d) and of v = x.b (e = d.b) ---- *)
  Definition chung_r2 (x d : list T) : T := ci 4 * sq (dot OP x d) + ci 2 * dot OP x x * dot OP d d.
  Definition chung_r3 (x d : list T) : T := ci 4 * dot OP x d * dot OP d d.
  Definition chung_r4 (x d : list T) : T := sq (dot OP d d).
  Definition sargan_r2 (x d : list T) : T := cst OP 6 10 * dot OP d d + cst OP 4 10 * chung_r2 x d.
  Definition sargan_r3 (x d : list T) : T := cst OP 4 10 * chung_r3 x d.
  Definition sargan_r4 (x d : list T) : T := cst OP 4 10 * chung_r4 x d.
  Definition zakharov_r2 (x d : list T) : T :=
    let v := dot OP x (biash OP x) in let e := dot OP d (biash OP x) in dot OP d d + sq e + q2 v e.
  Definition zakharov_r3 (x d : list T) : T := let v := dot OP x (biash OP x) in let e := dot OP d (biash OP x) in q3 v e.
  Definition zakharov_r4 (x d : list T) : T := let e := dot OP d (biash OP x) in q4 e.

  (* ---- chains ---- *)
  (* rosenbrock pair 100 (b - a^2)^2 + (a - 1)^2: t = b - a^2 moves as t + s l - s^2 m, l = eb - 2 a ea, m = ea^2 *)
  Definition rosen_c2 (_ a b ea eb : T) : T :=
    let t := b - a * a in let l := eb - ci 2 * a * ea in let m := sq ea in ci 100 * (sq l - ci 2 * t * m) + sq ea.
  Definition rosen_c3 (_ a b ea eb : T) : T := let l := eb - ci 2 * a * ea in let m := sq ea in - (ci 200 * l * m).
  Definition rosen_c4 (_ a b ea eb : T) : T := ci 100 * sq (sq ea).
  Definition rosenbrock_r2 (x d : list T) : T := chain5 rosen_c2 (bias2 OP x) x d.
  Definition rosenbrock_r3 (x d : list T) : T := chain5 rosen_c3 (bias2 OP x) x d.
  Definition rosenbrock_r4 (x d : list T) : T := chain5 rosen_c4 (bias2 OP x) x d.
  (* dixon-price pair w (2 b^2 - a)^2: t = 2 b^2 - a moves as t + s l + s^2 m, l = 4 b eb - ea, m = 2 eb^2 *)
  Definition dixon_c2 (w a b ea eb : T) : T :=
    let t := ci 2 * sq b - a in let l := ci 4 * b * eb - ea in let m := ci 2 * sq eb in w * (sq l + ci 2 * t * m).
  Definition dixon_c3 (w a b ea eb : T) : T := let l := ci 4 * b * eb - ea in let m := ci 2 * sq eb in ci 2 * w * l * m.
  Definition dixon_c4 (w a b ea eb : T) : T := w * sq (ci 2 * sq eb).
  Definition dixon_r2 (x d : list T) : T := match d with [] => zr | e0 :: _ => sq e0 + chain5 dixon_c2 (bias2 OP x) x d end.
  Definition dixon_r3 (x d : list T) : T := chain5 dixon_c3 (bias2 OP x) x d.
  Definition dixon_r4 (x d : list T) : T := chain5 dixon_c4 (bias2 OP x) x d.

  (* ---- powell (src/function/benchmark/powell.cpp): blocks of four coordinates ---- *)
  Definition pw_l0 (x0 x1 : T) : T := x0 + x1 * ci 10.
  Definition pw_l1 (x2 x3 : T) : T := x2 - x3.
  Definition pw_l2 (x1 x2 : T) : T := x1 - x2 * ci 2.
  Definition pw_l3 (x0 x3 : T) : T := x0 - x3.
  Fixpoint powell_v (x : list T) : T :=
    match x with
    | x0 :: x1 :: x2 :: x3 :: x' =>
      sq (pw_l0 x0 x1) + sq (pw_l1 x2 x3) * ci 5 + quartic (pw_l2 x1 x2) + quartic (pw_l3 x0 x3) * ci 10 + powell_v x'
    | _ => zr
    end.
  Fixpoint powell_g (x : list T) : list T :=
    match x with
    | x0 :: x1 :: x2 :: x3 :: x' =>
      let gfx0 := pw_l0 x0 x1 * ci 2 in
      let gfx1 := pw_l1 x2 x3 * ci 5 * ci 2 in
      let gfx2 := cube (pw_l2 x1 x2) * ci 4 in
      let gfx3 := cube (pw_l3 x0 x3) * ci 10 * ci 4 in
      (gfx0 + gfx3) :: (gfx0 * ci 10 + gfx2) :: (gfx1 - ci 2 * gfx2) :: ((- gfx1) - gfx3) :: powell_g x'
    | _ => map (fun _ => zr) x
    end.
  Fixpoint powell_r2 (x d : list T) : T :=
    match x, d with
    | x0 :: x1 :: x2 :: x3 :: x', e0 :: e1 :: e2 :: e3 :: d' =>
      sq (pw_l0 e0 e1) + ci 5 * sq (pw_l1 e2 e3) + q2 (pw_l2 x1 x2) (pw_l2 e1 e2) + ci 10 * q2 (pw_l3 x0 x3) (pw_l3 e0 e3) + powell_r2 x' d'
    | _, _ => zr
    end.
  Fixpoint powell_r3 (x d : list T) : T :=
    match x, d with
    | x0 :: x1 :: x2 :: x3 :: x', e0 :: e1 :: e2 :: e3 :: d' =>
      q3 (pw_l2 x1 x2) (pw_l2 e1 e2) + ci 10 * q3 (pw_l3 x0 x3) (pw_l3 e0 e3) + powell_r3 x' d'
    | _, _ => zr
    end.
  Fixpoint powell_r4 (x d : list T) : T :=
    match x, d with
    | x0 :: x1 :: x2 :: x3 :: x', e0 :: e1 :: e2 :: e3 :: d' => q4 (pw_l2 e1 e2) + ci 10 * q4 (pw_l3 e0 e3) + powell_r4 x' d'
    | _, _ => zr
    end.

  (* ---- quadratic surrogate (src/tuner/surrogate.cpp) ---- *)
  (* the products p_i p_j, j >= i, in the order of the loops `for i: for j = i` *)
  Fixpoint quadfeat (x : list T) : list T :=
    match x with [] => [] | a :: x' => map (o_mul OP a) (a :: x') ++ quadfeat x' end.
  (* a row of m_p2: 1, p_0 .. p_{n-1}, p_i p_j *)
  Definition p2_row (p : list T) : list T := un :: p ++ quadfeat p.
  (* value loops of quadratic_surrogate_t::do_vgrad: m(0) + sum m(k) x(i) + sum m(k) x(i) x(j) *)
  Definition sur_v (m x : list T) : T := dot OP m (p2_row x).
  (* gradient loops: gx(i) += m(k) for the linear part; gx(i) += m(k) x(j), gx(j) += m(k) x(i) for j >= i *)
  Fixpoint sur_qg (m x : list T) : list T :=
    match x with
    | [] => []
    | a :: x' =>
      let row := firstn (length x) m in
      vadd OP (vadd OP (dot OP row x :: zeros OP (length x')) (vscale OP a row)) (zr :: sur_qg (skipn (length x) m) x')
    end.
  Definition sur_g (m x : list T) : list T := vadd OP (firstn (length x) (tl m)) (sur_qg (skipn (S (length x)) m) x).
  (* the quadratic part evaluated at the direction: the exact remainder *)
  Definition sur_q (m d : list T) : T := dot OP (skipn (S (length d)) m) (quadfeat d).
  (* fit objective: sum_i L([y_i], [phi(p_i) . x]) (no 1/n), gradient P2' G *)
  Definition fit_data (ps : list (list T)) (ys : list T) : list (list T * list (list T) * list T) :=
    map (fun py => ([snd py], [p2_row (fst py)], [zr])) (combine ps ys).
  Definition fit_v (L : list T -> list T -> T) (data : list (list T * list (list T) * list T)) (x : list T) : T :=
    total OP (map (fun s => L (fst (fst s)) (sample_out OP s x)) data).
  Definition fit_g (G : list T -> list T -> list T) (data : list (list T * list (list T) * list T)) (x : list T) : list T :=
    fold_right (fun s acc => vadd OP (mtv OP (length x) (snd (fst s)) (G (fst (fst s)) (sample_out OP s x))) acc) (zeros OP (length x)) data.

  (* ---- gboost grads_function_t: x = the outputs of all samples, one block of k = tsize per sample ---- *)
  Fixpoint gr_sum (L : list T -> list T -> T) (ts : list (list T)) (k : nat) (x : list T) : T :=
    match ts with [] => zr | t :: ts' => L t (firstn k x) + gr_sum L ts' k (skipn k x) end.
  Fixpoint gr_cat (G : list T -> list T -> list T) (ts : list (list T)) (k : nat) (x : list T) : list T :=
    match ts with [] => [] | t :: ts' => G t (firstn k x) ++ gr_cat G ts' k (skipn k x) end.
  (* m_values.vector().mean(), grads.vector() / samples *)
  Definition grads_v L (ts : list (list T)) (k : nat) (x : list T) : T := inv_nat OP (length ts) * gr_sum L ts k x.
  Definition grads_g G (ts : list (list T)) (k : nat) (x : list T) : list T := vscale OP (inv_nat OP (length ts)) (gr_cat G ts k x).

  (* ---- maxquad: fill(A, k) of src/function/benchmark/maxquad.cpp ----
     for i: for j = i + 1 ..: A(i, j) = A(j, i) = e i j;  A(i, i) = dg i + sum_{j != i} |A(i, j)|
     [e] = the off-diagonal entry exp(si / sj) cos(si sj) sin(sk), [dg] = si |sin sk| / dims: parameters here, real specifications below *)
  Definition mq_assigned_in_row (i j : nat) : bool := Z.leb (src_c06rest_maxquad_jstart (Z.of_nat i)) (Z.of_nat j).
  Definition mq_offdiag (i j : nat) : bool := src_c06rest_maxquad_offdiag (Z.of_nat i) (Z.of_nat j).
  Definition mqf_entry (e : nat -> nat -> T) (i j : nat) : T := if mq_assigned_in_row i j then e i j else e j i.
  Definition mqf_offsum (e : nat -> nat -> T) (n i : nat) : T :=
    total OP (map (fun j => pabs OP (mqf_entry e i j)) (filter (mq_offdiag i) (seq 0 n))).
  Definition mqf_matrix (e : nat -> nat -> T) (dg : nat -> T) (n : nat) : list (list T) :=
    map (fun i => map (fun j => if mq_offdiag i j then mqf_entry e i j else dg i + mqf_offsum e n i) (seq 0 n)) (seq 0 n).

  (* ---- functional constraints (constraint.cpp): value and gradient of the wrapped function, flags forwarded ---- *)
  Definition cons_functional_v (f : list T -> T) (x : list T) : T := f x.
  Definition cons_functional_g (g : list T -> list T) (x : list T) : list T := g x.
End Rest.

(* flags of the wrapping objects as the source computes them from the wrapped object's flags (translated kernels) *)
Definition functional_convex (fconvex : bool) : bool := src_c06rest_functional_convex fconvex.
Definition functional_smooth (fsmooth : bool) : bool := src_c06rest_functional_smooth fsmooth.
Definition functional_strong_convexity (fsc : Z) : Z := src_c06rest_functional_sc fsc.
Definition grads_convex (lconvex : bool) : bool := src_c06rest_grads_convex lconvex.
Definition surrogate_fit_convex (lconvex : bool) : bool := src_c06rest_fit_convex lconvex.

(* triangular numbers: the surrogate over n parameters has 1 + n + tri n coefficients *)
Fixpoint tri (n : nat) : nat := match n with O => O | S k => (S k + tri k)%nat end.

(* ------------------------------------------------------------------------------------------------ *)
(* over R only                                                                                       *)
(* ------------------------------------------------------------------------------------------------ *)
Local Open Scope R_scope.

(* the elastic-net cauchy loss of src/function/benchmark/elastic_net.h: ln(delta^2 + 1), gradient 2 delta / (1 + delta^2) (twice the
   kernel of flatten.h) *)
Definition kr_ecauchy_v (t o : R) : R := ln ((o - t) * (o - t) + 1).
Definition kr_ecauchy_g (t o : R) : R := 2 * (o - t) / (1 + (o - t) * (o - t)).

(* maxquad: the real specifications of the entries; si = i + 1 etc. are translated index expressions *)
Definition mq_s (i : nat) : R := IZR (src_c06rest_maxquad_si (Z.of_nat i)).
Definition mq_sj (j : nat) : R := IZR (src_c06rest_maxquad_sj (Z.of_nat j)).
Definition mq_sk (k : nat) : R := IZR (src_c06rest_maxquad_sk (Z.of_nat k)).
Definition mq_e (k i j : nat) : R := exp (mq_s i / mq_sj j) * cos (mq_s i * mq_sj j) * sin (mq_sk k).
Definition mq_dg (k n i : nat) : R := mq_s i * Rabs (sin (mq_sk k)) / INR n.
Definition mq_b (k n : nat) : list R := map (fun i => exp (mq_s i / mq_sk k) * sin (mq_s i * mq_sk k)) (seq 0 n).
Definition mq_A (k n : nat) : list (list R) := mqf_matrix Rops (mq_e k) (mq_dg k n) n.
(* function_maxquad_t(dims, kdims): the pieces (A_k, b_k), k = 0 .. kdims-1 *)
Definition mq_pieces (n kd : nat) : list (list (list R) * list R) := map (fun k => (mq_A k n, mq_b k n)) (seq 0 kd).
