(* C01F -- proofs: finite termination of the conjugate-gradient, BFGS and L-BFGS loops on strictly convex quadratics with
   exact line searches, over ANY ordered field (the section hypotheses of C01Q_Proofs / C01CG_Proofs, whose lemmas are
   re-used). *)
From Coq Require Import List ZArith Bool Lia Field Ring Arith.
From LNGen Require Import Src_c01q Src_c01cg Src_c01f.
From LN Require Import C01Q_Defs C01Q_Proofs C01CG_Defs C01CG_Proofs C01_Finite_Defs.
Import ListNotations.

(* the shape of the translated loop decisions of quasi.cpp / lbfgs.cpp *)
Lemma kernels_c01f :
  (forall hd, src_qn_restart hd = negb hd) /\
  (forall first init scaled, src_qn_scaled_init first init scaled = andb first (Z.eqb init scaled)) /\
  (forall hd, src_lbfgs_force hd = negb hd) /\
  (forall hd, src_lbfgs_store hd = hd).
Proof. repeat split; reflexivity. Qed.

Section FiniteAlgebra.
  Variable F : Type.
  Variable FO : fops F.
  Local Notation "0" := (f0 FO).
  Local Notation "1" := (f1 FO).
  Local Infix "+" := (fadd FO).
  Local Infix "*" := (fmul FO).
  Local Infix "-" := (fsub FO).
  Local Infix "/" := (fdiv FO).
  Local Notation "- x" := (fopp FO x).
  Local Notation "/ x" := (finv FO x).
  Hypothesis Fth : field_theory 0 1 (fadd FO) (fmul FO) (fsub FO) (fopp FO) (fdiv FO) (finv FO) (@eq F).
  Add Field Ffield_fin : Fth.
  Variable pos : F -> Prop.
  Hypothesis pos_add : forall a b, pos a -> pos b -> pos (a + b).
  Hypothesis pos_mul : forall a b, pos a -> pos b -> pos (a * b).
  Hypothesis pos_cases : forall a, a = 0 \/ pos a \/ pos (- a).
  Hypothesis pos_0 : ~ pos 0.
  Hypothesis fcmp_spec : forall a b,
    (fcmp FO a b = 1%Z /\ pos (a - b)) \/ (fcmp FO a b = 0%Z /\ a = b) \/ (fcmp FO a b = (-1)%Z /\ pos (b - a)).

  Local Notation dot := (dot FO).
  Local Notation vadd := (vadd FO).
  Local Notation vsub := (vsub FO).
  Local Notation vscale := (vscale FO).
  Local Notation vopp := (vopp FO).
  Local Notation mv := (mv FO).
  Local Notation zeros := (zeros FO).
  Local Notation nonneg := (nonneg FO pos).
  Local Notation msym := (msym FO).
  Local Notation pd := (C01Q_Proofs.pd FO pos).

  (* the lemmas of C01Q_Proofs / C01CG_Proofs at this field *)
  Local Notation Qdiv_def := (div_def F FO Fth).
  Local Notation Qdot_comm := (dot_comm F FO Fth).
  Local Notation Qpos_nz := (pos_nz F FO pos pos_0).
  Local Notation Qpos_asym := (pos_asym F FO Fth pos pos_add pos_0).
  Local Notation Qpos_inv := (pos_inv F FO Fth pos pos_add pos_mul pos_cases pos_0).
  Local Notation Qpos_sq := (pos_sq F FO Fth pos pos_mul pos_cases).
  Local Notation Qeq0_dec := (eq0_dec F FO Fth pos pos_cases pos_0).
  Local Notation Qdot_self_pos := (dot_self_pos F FO Fth pos pos_add pos_mul pos_cases pos_0).
  Local Notation Qvec_zero_dec := (vec_zero_dec F FO Fth pos pos_cases pos_0).
  Local Notation Qpos_2 := (pos_2 F FO Fth pos pos_add pos_mul pos_cases).
  Local Notation Qnonneg_sq := (nonneg_sq F FO Fth pos pos_mul pos_cases pos_0).

  Ltac expand :=
    cbv zeta;
    repeat (rewrite ?(mv_vadd F FO Fth), ?(mv_vsub F FO Fth), ?(mv_vscale F FO Fth),
            ?(dot_vadd_r F FO Fth), ?(dot_vsub_r F FO Fth), ?(dot_vscale_r F FO Fth), ?(dot_vopp_r F FO Fth),
            ?(dot_vadd_l F FO Fth), ?(dot_vsub_l F FO Fth), ?(dot_vscale_l F FO Fth), ?(dot_vopp_l F FO Fth)).

  (* ================================================================================================================
     (A) a linear-algebra fact, proved directly for lists: a TRIANGULAR BI-ORTHOGONAL family  (u_1,v_1), ..., (u_k,v_k)
     of vectors of length n  --  u_i.v_i <> 0  and  u_j.v_i = 0 for every j AFTER i  --  has k <= n.
     (With u = v: k mutually orthogonal non-zero vectors; with v = A u: k mutually A-conjugate vectors.)
     Proof: induction on n, Gaussian elimination of the first coordinate with the LAST u whose first entry is not zero.
     ================================================================================================================ *)
  Definition fam := list (vec F * vec F).
  Fixpoint tri (l : fam) : Prop :=
    match l with
    | [] => True
    | p :: l' => dot (fst p) (snd p) <> 0 /\ (forall q, In q l' -> dot (fst q) (snd p) = 0) /\ tri l'
    end.

  Lemma tri_app l1 l2 :
    tri (l1 ++ l2) <-> tri l1 /\ tri l2 /\ (forall p1 p2, In p1 l1 -> In p2 l2 -> dot (fst p2) (snd p1) = 0).
  Proof.
    induction l1 as [|p l1 IH]; simpl.
    - split; [intros T; repeat split; [exact T|intros ? ? []]|intros (_ & T & _); exact T].
    - rewrite IH. split.
      + intros (D & O & T1 & T2 & C). repeat split; try assumption.
        * intros q I. apply O. apply in_or_app. left. exact I.
        * intros p1 p2 [E|I1] I2; [subst p1; apply O; apply in_or_app; right; exact I2|apply C; assumption].
      + intros ((D & O & T1) & T2 & C). repeat split; try assumption.
        * intros q I. apply in_app_or in I. destruct I as [I|I]; [apply O; exact I|apply C; [left; reflexivity|exact I]].
        * intros p1 p2 I1 I2. apply C; [right; exact I1|exact I2].
  Qed.

  Definition hd0 (v : vec F) : F := hd 0 v.
  Lemma dot_cons_l x a v : dot (x :: a) v = x * hd0 v + dot a (tl v).
  Proof. destruct v as [|y b]; simpl; [rewrite (dot_nil_r F FO); ring|reflexivity]. Qed.
  Lemma dot_hd0 u v : u <> [] -> hd0 u = 0 -> dot u v = dot (tl u) (tl v).
  Proof.
    intros N H. destruct u as [|x a]; [contradiction|]. rewrite dot_cons_l. simpl in *. unfold hd0 in H. simpl in H.
    rewrite H. ring.
  Qed.

  (* either every u has first entry zero, or there is a last one whose first entry is not zero *)
  Lemma heads_split (l : fam) :
    (forall p, In p l -> hd0 (fst p) = 0) \/
    exists l1 p l2, l = l1 ++ p :: l2 /\ hd0 (fst p) <> 0 /\ forall q, In q l2 -> hd0 (fst q) = 0.
  Proof.
    induction l as [|p l IH]; [left; intros ? []|].
    destruct IH as [Z|(l1 & q & l2 & E & N & Z)].
    - destruct (Qeq0_dec (hd0 (fst p))) as [E|N].
      + left. intros q [Q|I]; [subst q; exact E|apply Z; exact I].
      + right. exists [], p, l. repeat split; assumption.
    - right. exists (p :: l1), q, l2. subst l. repeat split; assumption.
  Qed.

  Section Dimension.
    Variable n : nat.
    Hypothesis IHn : forall l : fam, tri l -> (forall p, In p l -> length (fst p) = n) -> (length l <= n)%nat.

    Lemma tri_heads_zero (l : fam) :
      tri l -> (forall p, In p l -> length (fst p) = S n) -> (forall p, In p l -> hd0 (fst p) = 0) -> (length l <= n)%nat.
    Proof.
      intros T L Z.
      set (tls := map (fun p : vec F * vec F => (tl (fst p), tl (snd p))) l).
      assert (E : length tls = length l) by apply map_length. rewrite <- E. apply IHn.
      - unfold tls. clear E tls. induction l as [|p l IH]; [exact I|].
        simpl in T. destruct T as (D & O & T). simpl.
        assert (Np : fst p <> []) by (intros X; specialize (L p (or_introl eq_refl)); rewrite X in L; discriminate).
        repeat split.
        + rewrite <- (dot_hd0 _ _ Np (Z p (or_introl eq_refl))). exact D.
        + intros q I. apply in_map_iff in I. destruct I as (q0 & Eq & I). subst q. simpl.
          assert (Nq : fst q0 <> []) by (intros X; specialize (L q0 (or_intror I)); rewrite X in L; discriminate).
          rewrite <- (dot_hd0 _ _ Nq (Z q0 (or_intror I))). apply O. exact I.
        + apply IH; [exact T|intros q I; apply L; right; exact I|intros q I; apply Z; right; exact I].
      - intros q I. unfold tls in I. apply in_map_iff in I. destruct I as (q0 & Eq & I). subst q. simpl.
        specialize (L q0 I). destruct (fst q0); simpl in *; [discriminate|lia].
    Qed.

    (* subtract from u' the multiple of u that clears its first entry *)
    Definition elim (u : vec F) (p : vec F * vec F) : vec F * vec F :=
      (vsub (fst p) (vscale (hd0 (fst p) / hd0 u) u), snd p).

    Lemma tri_elim u (l1 : fam) :
      tri l1 -> (forall p, In p l1 -> dot u (snd p) = 0) -> tri (map (elim u) l1).
    Proof.
      induction l1 as [|p l1 IH]; intros T U; [exact I|]. simpl in T. destruct T as (D & O & T). simpl.
      repeat split.
      - expand. rewrite (U p (or_introl eq_refl)).
        intros X. apply D. transitivity (dot (fst p) (snd p) - hd0 (fst p) / hd0 u * 0); [ring|exact X].
      - intros q I. apply in_map_iff in I. destruct I as (q0 & Eq & I). subst q. simpl. expand.
        rewrite (O q0 I), (U p (or_introl eq_refl)). ring.
      - apply IH; [exact T|intros q I; apply U; right; exact I].
    Qed.

    Lemma tri_bound_step (l : fam) :
      tri l -> (forall p, In p l -> length (fst p) = S n) -> (length l <= S n)%nat.
    Proof.
      intros T L. destruct (heads_split l) as [Z|(l1 & p & l2 & E & N & Z)].
      - pose proof (tri_heads_zero l T L Z). lia.
      - subst l. apply tri_app in T. destruct T as (T1 & T2 & C). simpl in T2. destruct T2 as (D & O & T2).
        set (u := fst p) in *.
        assert (Lu : length u = S n) by (apply L; apply in_or_app; right; left; reflexivity).
        assert (LE : (length (map (elim u) l1 ++ l2) <= n)%nat).
        { apply tri_heads_zero.
          - apply tri_app. repeat split.
            + apply tri_elim; [exact T1|]. intros q I. apply (C q p I). left. reflexivity.
            + exact T2.
            + intros p1 p2 I1 I2. apply in_map_iff in I1. destruct I1 as (q0 & Eq & I1). subst p1. simpl.
              apply (C q0 p2 I1). right. exact I2.
          - intros q I. apply in_app_or in I. destruct I as [I|I].
            + apply in_map_iff in I. destruct I as (q0 & Eq & I). subst q. simpl.
              rewrite (length_vsub F FO), (length_vscale F FO), Lu, (L q0) by (apply in_or_app; left; exact I). lia.
            + apply L. apply in_or_app. right. right. exact I.
          - intros q I. apply in_app_or in I. destruct I as [I|I]; [|apply Z; exact I].
            apply in_map_iff in I. destruct I as (q0 & Eq & I). subst q. simpl.
            assert (L0 : length (fst q0) = S n) by (apply L; apply in_or_app; left; exact I).
            destruct (fst q0) as [|x a]; [discriminate|]. destruct u as [|h b] eqn:Eu; [discriminate|].
            unfold hd0 in *. simpl in *. rewrite Qdiv_def. field. exact N. }
        rewrite app_length in *. rewrite map_length in LE. simpl. lia.
    Qed.
  End Dimension.

  Theorem tri_bound : forall n (l : fam),
    tri l -> (forall p, In p l -> length (fst p) = n) -> (length l <= n)%nat.
  Proof.
    induction n as [|n IH]; intros l T L.
    - destruct l as [|p l]; [simpl; lia|]. exfalso. simpl in T. destruct T as (D & _).
      specialize (L p (or_introl eq_refl)). destruct (fst p); [|discriminate]. apply D. reflexivity.
    - apply (tri_bound_step n IH); assumption.
  Qed.

  (* ================================================================================================================
     (B) the quadratic f(x) = x'Ax/2 + a'x and the exact line search
     ================================================================================================================ *)
  Lemma zeros_dec n (z : vec F) : z = zeros n \/ z <> zeros n.
  Proof.
    destruct (Nat.eq_dec (length z) n) as [E|N].
    - rewrite <- E. apply Qvec_zero_dec.
    - right. intros X. apply N. rewrite X. apply (length_zeros F FO).
  Qed.
  Lemma f2_nz : f2 FO <> 0.
  Proof. apply Qpos_nz. apply Qpos_2. Qed.

  Section Quadratic.
    Variable n : nat.
    Variable A : mat F.
    Variable a : vec F.
    Hypothesis A_len : length A = n.
    Hypothesis a_len : length a = n.
    Hypothesis A_sym : msym n A.

    Lemma quad_grad_length x : length (quad_grad FO A a x) = n.
    Proof. unfold quad_grad. rewrite (length_vadd F FO), (length_mv F FO). lia. Qed.

    (* the gradient along a line:  grad f(x + t d) = grad f(x) + t A d *)
    Lemma quad_grad_point x t d :
      quad_grad FO A a (ls_point FO x t d) = vadd (quad_grad FO A a x) (vscale t (mv A d)).
    Proof.
      apply (vec_ext F FO Fth).
      - unfold quad_grad, ls_point. rewrite !(length_vadd F FO), (length_vscale F FO), !(length_mv F FO). lia.
      - intros w. unfold quad_grad, ls_point. expand. ring.
    Qed.

    (* f along a line:  f(x + t d) = f(x) + t g.d + t^2 d'Ad / 2 *)
    Lemma quad_f_point x t d : length x = n -> length d = n ->
      quad_f FO A a (ls_point FO x t d) =
      quad_f FO A a x + t * dot (quad_grad FO A a x) d + t * t * dot d (mv A d) / f2 FO.
    Proof.
      intros Lx Ld. unfold quad_f, quad_grad, ls_point. expand.
      rewrite (A_sym x d Lx Ld), (Qdot_comm (mv A x) d), !Qdiv_def. unfold f2. field. exact f2_nz.
    Qed.

    (* the exact step is the minimiser along d: f(x + t' d) - f(x + t d) = (t' - t)^2 d'Ad / 2 >= 0 *)
    Lemma ls_minimiser x d t' : length x = n -> length d = n -> dot d (mv A d) <> 0 ->
      quad_f FO A a (ls_point FO x t' d) - quad_f FO A a (ls_point FO x (ls_step FO A (quad_grad FO A a x) d) d) =
      (t' - ls_step FO A (quad_grad FO A a x) d) * (t' - ls_step FO A (quad_grad FO A a x) d) * dot d (mv A d) / f2 FO.
    Proof.
      intros Lx Ld NQ. rewrite !quad_f_point by assumption. unfold ls_step. rewrite !Qdiv_def. unfold f2. field.
      split; [exact f2_nz|exact NQ].
    Qed.
    Lemma ls_minimiser_nonneg x d t' : length x = n -> length d = n -> pos (dot d (mv A d)) ->
      nonneg (quad_f FO A a (ls_point FO x t' d) - quad_f FO A a (ls_point FO x (ls_step FO A (quad_grad FO A a x) d) d)).
    Proof.
      intros Lx Ld PQ. rewrite ls_minimiser by (try assumption; apply Qpos_nz; exact PQ). rewrite Qdiv_def.
      apply (nonneg_mul_pos F FO Fth pos pos_mul); [|apply Qpos_inv; apply Qpos_2].
      apply (nonneg_mul_pos F FO Fth pos pos_mul); [apply Qnonneg_sq|exact PQ].
    Qed.
    (* and it decreases f strictly unless g.d = 0:  f(x) - f(x + t d) = (g.d)^2 / (2 d'Ad) *)
    Lemma ls_decrease x d : length x = n -> length d = n -> pos (dot d (mv A d)) -> dot (quad_grad FO A a x) d <> 0 ->
      pos (quad_f FO A a x - quad_f FO A a (ls_point FO x (ls_step FO A (quad_grad FO A a x) d) d)).
    Proof.
      intros Lx Ld PQ NG. pose proof (Qpos_nz _ PQ) as NQ. rewrite quad_f_point by assumption. unfold ls_step.
      set (g := quad_grad FO A a x) in *. set (q := dot d (mv A d)) in *.
      replace (quad_f FO A a x - (quad_f FO A a x + - dot g d / q * dot g d + - dot g d / q * (- dot g d / q) * q / f2 FO))
        with (dot g d * dot g d * (/ q * / f2 FO)) by (rewrite !Qdiv_def; unfold f2; field; split; [exact f2_nz|exact NQ]).
      apply pos_mul; [apply Qpos_sq; exact NG|apply pos_mul; apply Qpos_inv; [exact PQ|apply Qpos_2]].
    Qed.
    (* the gradient at the minimiser is [exact_next] and is orthogonal to d *)
    Lemma ls_gradient x d :
      quad_grad FO A a (ls_point FO x (ls_step FO A (quad_grad FO A a x) d) d) = exact_next FO A (quad_grad FO A a x) d.
    Proof. rewrite quad_grad_point. reflexivity. Qed.
    Lemma ls_orthogonal g d : dot d (mv A d) <> 0 -> dot (exact_next FO A g d) d = 0.
    Proof. intros NQ. unfold exact_next. expand. rewrite (Qdot_comm (mv A d) d), !Qdiv_def. field. exact NQ. Qed.
    (* ONE extra gradient evaluation at any trial point x + tau d gives the exact step (secant on the derivative) *)
    Lemma secant_exact x d tau : tau <> 0 -> dot d (mv A d) <> 0 ->
      secant_step FO tau (quad_grad FO A a x) (quad_grad FO A a (ls_point FO x tau d)) d = ls_step FO A (quad_grad FO A a x) d.
    Proof.
      intros NT NQ. unfold secant_step, ls_step. rewrite quad_grad_point. set (g := quad_grad FO A a x).
      assert (E : dot (vsub (vadd g (vscale tau (mv A d))) g) d = tau * dot d (mv A d)).
      { expand. rewrite (Qdot_comm (mv A d) d). ring. }
      rewrite E, !Qdiv_def. field. split; assumption.
    Qed.

  End Quadratic.

  Section Iterations.
    Variable n : nat.
    Variable A : mat F.
    Hypothesis A_len : length A = n.
    Hypothesis A_sym : msym n A.
    (* ==============================================================================================================
       (C) conjugate gradients: the whole history
       ============================================================================================================== *)
    Hypothesis A_pd : pd n A.
    Variable nrm : vec F -> F.
    Hypothesis nrm_spec : forall v, nonneg (nrm v) /\ nrm v * nrm v = dot v v.
    Variable k : cgkind.
    Variables eta orthotest : F.
    Hypothesis eta_pos : pos eta.
    Hypothesis ot_pos : pos orthotest.

    Local Notation cgq_inv := (cgq_inv F FO n A).
    Local Notation run := (cg_quad_run FO k eta orthotest nrm A).
    Local Notation step st g := (cg_step FO k eta orthotest (nrm (cs_pd st)) (nrm (cs_pg st)) st g).
    Local Notation Qstep_spec :=
      (cgq_step_spec F FO Fth pos pos_add pos_mul pos_cases pos_0 fcmp_spec n A A_len A_sym A_pd nrm nrm_spec k eta orthotest
                     eta_pos ot_pos).

    Definition hst := list (vec F * vec F).                  (* (g_j, d_j), NEWEST first *)
    (* p :: l: p is newer than every element of l *)
    Fixpoint pw (R : vec F * vec F -> vec F * vec F -> Prop) (l : hst) : Prop :=
      match l with
      | [] => True
      | p :: l' => (forall q, In q l' -> R p q) /\ pw R l'
      end.
    Definition R_og (p q : vec F * vec F) : Prop := dot (fst p) (fst q) = 0.              (* g_j . g_i = 0 *)
    Definition R_cj (p q : vec F * vec F) : Prop := dot (snd p) (mv A (snd q)) = 0.      (* d_j' A d_i = 0 *)
    Definition R_gd (p q : vec F * vec F) : Prop := dot (fst p) (snd q) = 0.              (* g_j . d_i = 0, i < j *)
    Definition wf_entry (p : vec F * vec F) : Prop := length (fst p) = n /\ length (snd p) = n /\ fst p <> zeros n.
    (* A d_j lies in the span of g_{j+1} and g_j *)
    Fixpoint span_ok (gnext : vec F) (l : hst) : Prop :=
      match l with
      | [] => True
      | p :: l' => (forall w, dot w gnext = 0 -> dot w (fst p) = 0 -> dot w (mv A (snd p)) = 0) /\ span_ok (fst p) l'
      end.

    Definition cgf_props (l : hst) : Prop := Forall wf_entry l /\ pw R_og l /\ pw R_cj l /\ pw R_gd l.

    Definition cgf_inv (hist : hst) (st : cgstate F) (g : vec F) : Prop :=
      (exists tl_, hist = (cs_pg st, cs_pd st) :: tl_) /\ cgq_inv st g /\ cgf_props hist /\
      (forall p, In p hist -> dot g (fst p) = 0) /\ (forall p, In p hist -> dot g (snd p) = 0) /\
      span_ok g hist /\
      (forall p, In p hist -> forall w, (forall q, In q hist -> dot w (snd q) = 0) -> dot w (fst p) = 0).

    Lemma span_tail w : forall l gs, span_ok gs l -> dot w gs = 0 -> (forall q, In q l -> dot w (fst q) = 0) ->
      forall q, In q l -> dot w (mv A (snd q)) = 0.
    Proof.
      induction l as [|p l IH]; intros gs S W0 W q I; [destruct I|]. simpl in S. destruct S as (S1 & S2).
      destruct I as [E|I].
      - subst q. apply S1; [exact W0|apply W; left; reflexivity].
      - apply (IH (fst p) S2); [apply W; left; reflexivity|intros r Ir; apply W; right; exact Ir|exact I].
    Qed.

    Lemma cgf_step hist st g :
      cgf_inv hist st g -> g <> zeros n ->
      cgf_inv ((g, snd (step st g)) :: hist) (fst (step st g)) (exact_next FO A g (snd (step st g))).
    Proof.
      intros (HD & Q & (WF & OG & CJ & GD) & I1 & I2 & SP & I5) Ng.
      pose proof (Qstep_spec st g Q Ng) as S.
      destruct (step st g) as [st' d]. simpl fst. simpl snd.
      destruct S as (E1 & E2 & Ed & CJ0 & Q').
      destruct HD as (tl_ & EH).
      set (pg := cs_pg st) in *. set (pdd := cs_pd st) in *. set (g' := exact_next FO A g d) in *.
      destruct Q as (_ & _ & Lpd & Lg & _).
      pose proof Q' as Q'c.
      destruct Q' as (_ & Lg1 & Ld1 & Lg' & _ & J1 & J2 & J4 & t & Nt & Eg').
      rewrite E1 in *. rewrite E2 in *.
      set (b := beta_FR FO pg pdd g) in *.
      assert (D2 : forall x, dot d x = - dot g x + b * dot pdd x) by (intros x; rewrite Ed; unfold cg_candidate; expand; ring).
      assert (D1 : forall x, dot x d = - dot x g + b * dot x pdd) by (intros x; rewrite Ed; unfold cg_candidate; expand; ring).
      assert (Ipd : In (pg, pdd) hist) by (rewrite EH; left; reflexivity).
      (* d is conjugate to every earlier direction *)
      assert (DC : forall q, In q hist -> dot d (mv A (snd q)) = 0).
      { intros q Iq. rewrite EH in Iq. destruct Iq as [Eq|Iq]; [subst q; exact CJ0|].
        rewrite D2. rewrite EH in SP, CJ, I1. simpl in SP, CJ. destruct SP as (_ & SP). destruct CJ as (CJh & _).
        rewrite (span_tail g tl_ pg SP); [|apply (I1 (pg, pdd)); left; reflexivity|intros r Ir; apply I1; right; exact Ir|exact Iq].
        unfold R_cj in CJh. simpl in CJh. rewrite (CJh q Iq). ring. }
      (* the new gradient is orthogonal to every direction so far *)
      assert (I2' : forall p, In p ((g, d) :: hist) -> dot g' (snd p) = 0).
      { intros p [E|Ip]; [subst p; exact J1|]. rewrite Eg'. expand.
        rewrite Forall_forall in WF. destruct (WF p Ip) as (_ & Lp & _).
        rewrite (Qdot_comm (mv A d) (snd p)), (A_sym (snd p) d Lp Ld1), (DC p Ip), (I2 p Ip). ring. }
      assert (I5' : forall p, In p ((g, d) :: hist) -> forall w, (forall q, In q ((g, d) :: hist) -> dot w (snd q) = 0) -> dot w (fst p) = 0).
      { intros p [E|Ip] w W.
        - subst p. simpl. pose proof (D1 w) as X.
          pose proof (W (g, d) (or_introl eq_refl)) as W1. pose proof (W (pg, pdd) (or_intror Ipd)) as W2. simpl in W1, W2.
          rewrite W1, W2 in X. transitivity (- (- dot w g + b * 0)); [ring|rewrite <- X; ring].
        - apply (I5 p Ip). intros q Iq. apply W. right. exact Iq. }
      assert (I1' : forall p, In p ((g, d) :: hist) -> dot g' (fst p) = 0).
      { intros p Ip. apply (I5' p Ip). exact I2'. }
      unfold cgf_inv. split; [exists hist; rewrite <- E1, <- E2; reflexivity|]. split; [exact Q'c|]. repeat split.
      - constructor; [|exact WF]. repeat split; simpl; assumption.
      - intros q Iq. unfold R_og. simpl. apply I1. exact Iq.
      - exact OG.
      - intros q Iq. unfold R_cj. simpl. apply DC. exact Iq.
      - exact CJ.
      - intros q Iq. unfold R_gd. simpl. apply I2. exact Iq.
      - exact GD.
      - exact I1'.
      - exact I2'.
      - intros w W1 W2. simpl. simpl in W2. rewrite Eg' in W1. revert W1. expand. rewrite W2. intros W1.
        apply (mul_eq0 F FO Fth _ t); [|exact Nt]. transitivity (0 + t * dot w (mv A d)); [ring|rewrite W1; reflexivity].
      - exact SP.
      - exact I5'.
    Qed.

    Lemma rev_cons_app {X} (x : X) l h : rev (x :: l) ++ h = rev l ++ x :: h.
    Proof. simpl. rewrite <- app_assoc. reflexivity. Qed.

    Lemma cgf_run : forall m hist st g,
      cgf_inv hist st g -> Forall (fun gd => fst gd <> zeros n) (run st g m) -> cgf_props (rev (run st g m) ++ hist).
    Proof.
      induction m as [|m IH]; intros hist st g I NZ; cbn [cg_quad_run] in *.
      - destruct I as (_ & _ & P & _). exact P.
      - pose proof (cgf_step hist st g I) as S.
        destruct (step st g) as [st' d]. simpl fst in S. simpl snd in S.
        inversion NZ as [|x l Ng NZ']; subst x l. simpl in Ng.
        rewrite rev_cons_app. apply IH; [apply S; exact Ng|exact NZ'].
    Qed.

    (* from the solver's initial state *)
    Lemma cgf_init_inv g0 : length g0 = n -> g0 <> zeros n ->
      cgf_inv [(g0, vopp g0)] (mk_cgstate g0 (vopp g0) (vopp g0)) (exact_next FO A g0 (vopp g0)).
    Proof.
      intros L0 N0.
      assert (Q : cgq_inv (mk_cgstate g0 (vopp g0) (vopp g0)) (exact_next FO A g0 (vopp g0))).
      { apply (cgq_next_inv F FO Fth pos pos_add pos_mul pos_cases pos_0 n A A_len A_pd); try assumption.
        - rewrite (length_vopp F FO). exact L0.
        - apply (dot_vopp_l F FO Fth).
        - rewrite (dot_vopp_r F FO Fth). ring. }
      pose proof Q as (_ & _ & Ld & Lg' & _ & J1 & J2 & J4 & t & Nt & Eg'). simpl in *.
      unfold cgf_inv. split; [exists []; reflexivity|]. split; [exact Q|]. repeat split.
      - constructor; [|constructor]. repeat split; simpl; assumption.
      - intros q [].
      - intros q [].
      - intros q [].
      - intros p [E|[]]. subst p. exact J4.
      - intros p [E|[]]. subst p. exact J1.
      - intros w W1 W2. simpl. simpl in W2. rewrite Eg' in W1. revert W1. expand. rewrite W2. intros W1.
        apply (mul_eq0 F FO Fth _ t); [|exact Nt].
        transitivity (0 + t * dot w (mv A (vopp g0))); [ring|rewrite W1; reflexivity].
      - intros p [E|[]] w W. subst p. simpl. specialize (W _ (or_introl eq_refl)). simpl in W.
        rewrite (dot_vopp_r F FO Fth) in W. transitivity (- - dot w g0); [ring|rewrite W; ring].
    Qed.

    (* (1) every run of the solver's direction block with exact line searches, as long as the gradients are non-zero: all
       gradients mutually orthogonal, all directions mutually A-conjugate, every gradient orthogonal to every earlier
       direction (the list is read newest first) *)
    Theorem cg_full_history g0 m : length g0 = n ->
      Forall (fun gd => fst gd <> zeros n) (run (cg_init (F:=F)) g0 m) ->
      cgf_props (rev (run (cg_init (F:=F)) g0 m)).
    Proof.
      intros L0 NZ. destruct m as [|m]; [simpl; repeat split; constructor|].
      cbn [cg_quad_run] in *. unfold cg_step at 1 in NZ. unfold cg_step at 1. simpl in *.
      inversion NZ as [|x l Ng NZ']; subst x l. simpl in Ng.
      rewrite <- (app_nil_r (rev _ ++ _)), <- app_assoc. simpl app.
      apply cgf_run; [apply cgf_init_inv; assumption|exact NZ'].
    Qed.

    Lemma run_length : forall m st g, length (run st g m) = m.
    Proof.
      induction m as [|m IH]; intros st g; cbn [cg_quad_run]; [reflexivity|].
      destruct (step st g) as [st' d]. simpl. rewrite IH. reflexivity.
    Qed.

    (* mutually orthogonal non-zero gradients form a triangular family *)
    Lemma og_tri : forall l : hst, Forall wf_entry l -> pw R_og l -> tri (map (fun p => (fst p, fst p)) l).
    Proof.
      induction l as [|p l IH]; intros WF OG; [exact I|]. inversion WF as [|x y (Lp & _ & Np) WF']; subst x y.
      simpl in OG. destruct OG as (O & OG). simpl. repeat split.
      - apply Qpos_nz. apply Qdot_self_pos. rewrite Lp. exact Np.
      - intros q Iq. apply in_map_iff in Iq. destruct Iq as (q0 & E & Iq). subst q. simpl.
        rewrite Qdot_comm. apply O. exact Iq.
      - apply IH; assumption.
    Qed.

    (* (2) at most n iterations: a run with n + 1 non-zero gradients does not exist *)
    Theorem cg_at_most_n g0 m : length g0 = n ->
      Forall (fun gd => fst gd <> zeros n) (run (cg_init (F:=F)) g0 m) -> (m <= n)%nat.
    Proof.
      intros L0 NZ. destruct (cg_full_history g0 m L0 NZ) as (WF & OG & _).
      pose proof (og_tri _ WF OG) as T.
      apply (tri_bound n) in T.
      - rewrite map_length, rev_length, run_length in T. exact T.
      - intros p Ip. apply in_map_iff in Ip. destruct Ip as (q & E & Iq). subst p. simpl.
        rewrite Forall_forall in WF. apply (WF q Iq).
    Qed.

    Lemma first_zero (l : hst) :
      Forall (fun gd => fst gd <> zeros n) l \/
      exists l1 x l2, l = l1 ++ x :: l2 /\ Forall (fun gd => fst gd <> zeros n) l1 /\ fst x = zeros n.
    Proof.
      induction l as [|p l IH]; [left; constructor|].
      destruct (zeros_dec n (fst p)) as [Z|N].
      - right. exists [], p, l. repeat split; [constructor|exact Z].
      - destruct IH as [NZ|(l1 & x & l2 & E & NZ & Z)]; [left; constructor; assumption|].
        right. exists (p :: l1), x, l2. subst l. repeat split; [constructor; assumption|exact Z].
    Qed.

    Lemma run_prefix : forall m j st g, firstn m (run st g (m + j)) = run st g m.
    Proof.
      induction m as [|m IH]; intros j st g; [reflexivity|]. cbn [cg_quad_run Nat.add].
      destruct (step st g) as [st' d]. simpl. rewrite IH. reflexivity.
    Qed.

    (* the gradient vanishes after at most n iterations: among g_0, ..., g_n of the run there is a first zero one, at an
       index j <= n, and up to that index the run is the genuine one (non-zero gradients: (1) applies to it) *)
    Theorem cg_finite_termination g0 : length g0 = n ->
      exists j, (j <= n)%nat /\
        Forall (fun gd => fst gd <> zeros n) (run (cg_init (F:=F)) g0 j) /\
        fst (nth j (run (cg_init (F:=F)) g0 (S n)) (zeros n, [])) = zeros n.
    Proof.
      intros L0. destruct (first_zero (run (cg_init (F:=F)) g0 (S n))) as [NZ|(l1 & x & l2 & E & NZ & Z)].
      - pose proof (cg_at_most_n g0 (S n) L0 NZ). lia.
      - pose proof (run_length (S n) (cg_init (F:=F)) g0) as LL. rewrite E, app_length in LL. simpl in LL.
        exists (length l1). assert (LE : (length l1 <= n)%nat) by lia. split; [exact LE|]. split.
        + replace (S n) with (length l1 + (S n - length l1))%nat in E by lia.
          rewrite <- (run_prefix (length l1) (S n - length l1)), E, firstn_app, Nat.sub_diag, firstn_all. simpl.
          rewrite app_nil_r. exact NZ.
        + rewrite E, app_nth2, Nat.sub_diag by lia. exact Z.
    Qed.

    (* ==============================================================================================================
       (D) BFGS with exact line searches: hereditary secant property, conjugate steps, at most n iterations
       ============================================================================================================== *)
    Ltac expandv :=
      cbv zeta;
      repeat (rewrite ?(mv_vadd F FO Fth), ?(mv_vsub F FO Fth), ?(mv_vscale F FO Fth), ?(mv_vdivs F FO Fth),
              ?(dot_vadd_r F FO Fth), ?(dot_vsub_r F FO Fth), ?(dot_vscale_r F FO Fth), ?(dot_vopp_r F FO Fth),
              ?(dot_vdivs_r F FO Fth), ?(dot_vdivs_l F FO Fth),
              ?(dot_vadd_l F FO Fth), ?(dot_vsub_l F FO Fth), ?(dot_vscale_l F FO Fth), ?(dot_vopp_l F FO Fth)).

    (* the key lemma (pure algebra, any H): a BFGS update with (s, y) keeps an older secant equation H y_j = s_j whenever
       s is conjugate to s_j in both readings  s.y_j = 0  and  y.s_j = 0 *)
    Lemma bfgs_hereditary H s y sj yj :
      length s = length H -> length yj = length H -> dot s y <> 0 ->
      mv H yj = sj -> dot s yj = 0 -> dot y sj = 0 -> mv (bfgs FO H s y) yj = sj.
    Proof.
      intros Ls Lyj N E C1 C2. apply (vec_ext F FO Fth).
      - rewrite (length_mv F FO), (length_bfgs F FO) by exact Ls. rewrite <- E, (length_mv F FO). reflexivity.
      - intros w. rewrite (bfgs_mv F FO Fth) by exact Lyj. cbv zeta. rewrite C1. expandv. rewrite E, C2. ring.
    Qed.

    Definition qentry := (vec F * vec F * vec F * vec F * vec F * mat F)%type.      (* (x, g, d, dx, dg, H after) *)
    Definition e_g (e : qentry) : vec F := snd (fst (fst (fst (fst e)))).
    Definition e_s (e : qentry) : vec F := snd (fst (fst e)).
    Definition e_y (e : qentry) : vec F := snd (fst e).
    Definition e_H (e : qentry) : mat F := snd e.

    Definition R_sc (p q : vec F * vec F) : Prop := dot (fst p) (snd q) = 0.                (* s_j . y_i = 0, i < j *)
    Definition wf_sy (p : vec F * vec F) : Prop :=
      length (fst p) = n /\ length (snd p) = n /\ snd p = mv A (fst p) /\ pos (dot (fst p) (snd p)).
    Definition qnf_inv (hist : hst) (H : mat F) (g : vec F) : Prop :=
      length H = n /\ msym n H /\ pd n H /\ length g = n /\ Forall wf_sy hist /\
      (forall p, In p hist -> mv H (snd p) = fst p) /\ pw R_sc hist /\ (forall p, In p hist -> dot g (fst p) = 0).

    Lemma qnf_step r init first hist H x g :
      qnf_inv hist H g -> (first = true -> hist = []) -> g <> zeros n ->
      let '((H', x', g'), (d, s, y)) := qn_quad_step FO KBFGS r init A first H x g in
      d = quasi_direction FO H g /\ pos (- dot g d) /\
      s = vscale (ls_step FO A g d) d /\ y = mv A s /\ g' = exact_next FO A g d /\
      x' = ls_point FO x (ls_step FO A g d) d /\
      qnf_inv ((s, y) :: hist) H' g' /\ (forall q, In q hist -> dot s (snd q) = 0).
    Proof.
      intros (LH & SH & PH & Lg & WF & HER & SC & GS) FH Ng.
      set (d := quasi_direction FO H g).
      assert (DD : pos (- dot g d)) by (apply (descent_quasi F FO Fth pos n); assumption).
      assert (HD : cg_has_descent FO g d = true)
        by (apply (cg_has_descent_spec F FO Fth pos pos_add pos_0 fcmp_spec); exact DD).
      assert (QD : qn_direction FO H g = (H, d)).
      { unfold qn_direction. fold d. rewrite HD. reflexivity. }
      unfold qn_quad_step. rewrite QD. cbv beta iota zeta.
      set (t := ls_step FO A g d). set (s := vscale t d). set (y := vscale t (mv A d)).
      assert (Ld : length d = n) by (unfold d, quasi_direction; rewrite (length_vopp F FO), (length_mv F FO); exact LH).
      assert (Nd : d <> zeros n).
      { intros Z. apply (Qpos_nz _ DD). rewrite Z, (dot_zeros_r F FO Fth). ring. }
      pose proof (A_pd d Ld Nd) as PQ. pose proof (Qpos_nz _ PQ) as NQ. set (q := dot d (mv A d)) in *.
      assert (Et : t = - dot g d * / q) by (unfold t, ls_step; fold q; apply Qdiv_def).
      assert (Pt : pos t) by (rewrite Et; apply pos_mul; [exact DD|apply Qpos_inv; exact PQ]).
      assert (Ls : length s = n) by (unfold s; rewrite (length_vscale F FO); exact Ld).
      assert (Ly : length y = n) by (unfold y; rewrite (length_vscale F FO), (length_mv F FO); exact A_len).
      assert (Ey : y = mv A s) by (unfold y, s; rewrite (mv_vscale F FO Fth); reflexivity).
      assert (SY : pos (dot s y)).
      { unfold s, y. expand. fold q. replace (t * (t * q)) with (t * t * q) by ring.
        apply pos_mul; [apply pos_mul; exact Pt|exact PQ]. }
      assert (C1 : forall p, In p hist -> dot s (snd p) = 0).
      { intros p Ip. unfold s, d, quasi_direction. expand. rewrite Forall_forall in WF. destruct (WF p Ip) as (_ & Lyp & _).
        rewrite (Qdot_comm (mv H g) (snd p)), (SH (snd p) g Lyp Lg), (HER p Ip), (GS p Ip). ring. }
      assert (C2 : forall p, In p hist -> dot y (fst p) = 0).
      { intros p Ip. rewrite Ey. rewrite Forall_forall in WF. destruct (WF p Ip) as (Lsp & _ & Eyp & _).
        rewrite (Qdot_comm (mv A s) (fst p)), (A_sym (fst p) s Lsp Ls), <- Eyp. apply C1. exact Ip. }
      set (H2 := if qn_init_scaled first init then scaled_identity FO (length H) s y else H).
      assert (H2P : length H2 = n /\ msym n H2 /\ pd n H2 /\ forall p, In p hist -> mv H2 (snd p) = fst p).
      { unfold H2. destruct (qn_init_scaled first init) eqn:QI.
        - assert (F1 : first = true).
          { unfold qn_init_scaled, src_qn_scaled_init in QI. destruct first; [reflexivity|discriminate]. }
          rewrite (FH F1), LH. repeat split.
          + apply (length_scaled F FO).
          + apply (msym_scaled F FO Fth).
          + apply (pd_scaled F FO Fth pos pos_add pos_mul pos_cases pos_0); assumption.
          + intros p [].
        - repeat split; assumption. }
      destruct H2P as (LH2 & SH2 & PH2 & HER2).
      assert (GS' : dot (exact_next FO A g d) s = 0).
      { unfold s. expand. rewrite (ls_orthogonal A g d NQ). ring. }
      change (quasi_update FO KBFGS r H2 s y) with (bfgs FO H2 s y).
      repeat split; try reflexivity; try assumption.
      - rewrite (length_bfgs F FO) by congruence. exact LH2.
      - rewrite <- LH2 at 1. rewrite <- LH2 in SH2. replace n with (length H2) by exact LH2.
        apply (msym_bfgs F FO Fth); [congruence|exact SH2].
      - apply (pd_bfgs F FO Fth pos pos_add pos_mul pos_cases pos_0); assumption.
      - rewrite (length_vadd F FO), Lg, Ly. lia.
      - constructor; [|exact WF]. repeat split; assumption.
      - intros p [E|Ip].
        + subst p. simpl. apply (secant_bfgs F FO Fth); [congruence|congruence|apply Qpos_nz; exact SY].
        + rewrite Forall_forall in WF. destruct (WF p Ip) as (_ & Lyp & _).
          apply bfgs_hereditary; [congruence|congruence|apply Qpos_nz; exact SY|apply HER2; exact Ip|apply C1; exact Ip|apply C2; exact Ip].
      - intros p [E|Ip].
        + subst p. simpl. exact GS'.
        + expand. rewrite (GS p Ip), (C2 p Ip). ring.
    Qed.

    Lemma sc_tri : forall hist : hst, Forall wf_sy hist -> pw R_sc hist -> tri hist.
    Proof.
      induction hist as [|p l IH]; intros WF SC; [exact I|]. inversion WF as [|x y0 (Lsp & Lyp & Eyp & Pp) WF']; subst x y0.
      simpl in SC. destruct SC as (S & SC). simpl. repeat split.
      - apply Qpos_nz. exact Pp.
      - intros q Iq. rewrite Forall_forall in WF'. destruct (WF' q Iq) as (Lsq & _ & Eyq & _).
        rewrite Eyp, (A_sym (fst q) (fst p) Lsq Lsp), <- Eyq. apply S. exact Iq.
      - apply IH; assumption.
    Qed.

    Local Notation qrun := (qn_quad_run FO KBFGS).
    Definition qn_nz (e : qentry) : Prop := e_g e <> zeros n.
    (* the list is read NEWEST first: H_{j+1} y_i = s_i for all i <= j;  s_j . y_i = 0  and  g_j . s_i = 0  for i < j *)
    Fixpoint qn_pw (l : list qentry) : Prop :=
      match l with
      | [] => True
      | e :: l' =>
          (length (e_H e) = n /\ msym n (e_H e) /\ length (e_s e) = n) /\
          mv (e_H e) (e_y e) = e_s e /\ e_y e = mv A (e_s e) /\ pos (dot (e_s e) (e_y e)) /\
          (forall q, In q l' -> mv (e_H e) (e_y q) = e_s q /\ dot (e_s e) (e_y q) = 0 /\ dot (e_g e) (e_s q) = 0) /\
          qn_pw l'
      end.
    Definition sy_of (e : qentry) : vec F * vec F := (e_s e, e_y e).

    Lemma qnf_run r init : forall m es first H x g,
      qnf_inv (map sy_of es) H g -> (first = true -> es = []) -> qn_pw es ->
      Forall qn_nz (qrun r init A first H x g m) ->
      qn_pw (rev (qrun r init A first H x g m) ++ es) /\ (m + length es <= n)%nat.
    Proof.
      induction m as [|m IH]; intros es first H x g I FH PW NZ; cbn [qn_quad_run] in *.
      - split; [exact PW|]. destruct I as (_ & _ & _ & _ & WF & _ & SC & _).
        pose proof (tri_bound n _ (sc_tri _ WF SC)) as B. rewrite map_length in B. simpl. apply B.
        intros p Ip. rewrite Forall_forall in WF. apply (WF p Ip).
      - assert (FH' : first = true -> map sy_of es = []) by (intros E; rewrite (FH E); reflexivity).
        pose proof (qnf_step r init first (map sy_of es) H x g I FH') as S.
        destruct (qn_quad_step FO KBFGS r init A first H x g) as [[[H' x'] g'] [[d s] y]].
        inversion NZ as [|e l Ng NZ']; subst e l. unfold qn_nz, e_g in Ng. simpl in Ng.
        destruct (S Ng) as (Ed & DD & Es & Ey & Eg' & Ex' & I' & C1).
        set (e := (x, g, d, s, y, H')).
        assert (PW' : qn_pw (e :: es)).
        { destruct I' as (LH' & SH' & _ & _ & WF' & HER' & _ & _). destruct I as (_ & _ & _ & _ & _ & _ & _ & GS).
          inversion WF' as [|a0 b0 (Lsp & _ & _ & Pp) _]; subst a0 b0. simpl in Pp, Lsp.
          simpl. unfold e_H, e_y, e_s, e_g. simpl. repeat split.
          - exact LH'.
          - exact SH'.
          - exact Lsp.
          - apply (HER' (s, y)). left. reflexivity.
          - exact Ey.
          - exact Pp.
          - apply (HER' (sy_of q)). right. apply in_map. exact H0.
          - apply (C1 (sy_of q)). apply in_map. exact H0.
          - apply (GS (sy_of q)). apply in_map. exact H0.
          - exact PW. }
        destruct (IH (e :: es) false H' x' g' I' (fun E => False_ind _ (Bool.diff_false_true E)) PW' NZ') as (R1 & R2).
        split; [rewrite rev_cons_app; exact R1|simpl in R2; lia].
    Qed.

    (* (3) BFGS from any symmetric positive definite H0 (identity or scaled initialisation), exact line searches, while the
       gradients are non-zero: hereditary secant equations, mutually conjugate steps, and at most n iterations *)
    Theorem bfgs_finite r init H0 x0 g0 m :
      length H0 = n -> msym n H0 -> pd n H0 -> length g0 = n ->
      Forall qn_nz (qrun r init A true H0 x0 g0 m) ->
      qn_pw (rev (qrun r init A true H0 x0 g0 m)) /\ (m <= n)%nat.
    Proof.
      intros LH SH PH Lg NZ.
      destruct (qnf_run r init m [] true H0 x0 g0) as (R1 & R2).
      - repeat split; try assumption; try constructor; intros p [].
      - reflexivity.
      - exact I.
      - exact NZ.
      - rewrite app_nil_r in R1. simpl in R2. split; [exact R1|lia].
    Qed.

    (* ==============================================================================================================
       (E) L-BFGS with exact line searches generates the conjugate-gradient iterates: its direction is a POSITIVE MULTIPLE
       of the Fletcher-Reeves direction, for every history bound >= 1 (the two-loop recursion collapses: the current
       gradient is orthogonal to every stored s, and to every stored y but the newest)
       ============================================================================================================== *)
    Lemma vsub_scale0 q y : length y = length q -> vsub q (vscale 0 y) = q.
    Proof.
      intros L. apply (vec_ext F FO Fth); [rewrite (length_vsub F FO), (length_vscale F FO); lia|]. intros w. expand. ring.
    Qed.
    Lemma vscale_1 v : vscale 1 v = v.
    Proof. unfold C01Q_Defs.vscale. induction v as [|x v IH]; simpl; [reflexivity|]. rewrite IH. f_equal. ring. Qed.

    Lemma tlrec_ext (A0 A1 : vec F -> vec F) : (forall q, A0 q = A1 q) -> forall l q, tlrec FO A0 l q = tlrec FO A1 l q.
    Proof.
      intros E. induction l as [|[s y] l IH]; intros q; simpl; [apply E|]. rewrite IH. reflexivity.
    Qed.

    Lemma tlrec_orth gam : forall (l : list (pair F)) q, length q = n ->
      (forall p, In p l -> length (fst p) = n /\ length (snd p) = n /\ dot (fst p) q = 0 /\ dot (snd p) q = 0) ->
      tlrec FO (vscale gam) l q = vscale gam q.
    Proof.
      induction l as [|[s y] l IH]; intros q Lq O; [reflexivity|].
      destruct (O (s, y) (or_introl eq_refl)) as (Ls & Ly & Os & Oy). simpl in Ls, Ly, Os, Oy.
      simpl tlrec. rewrite Os.
      replace (0 / dot s y) with 0 by (rewrite Qdiv_def; ring).
      rewrite vsub_scale0 by congruence.
      rewrite IH; [|exact Lq|intros p Ip; apply O; right; exact Ip].
      apply (vec_ext F FO Fth).
      - rewrite (length_vadd F FO), !(length_vscale F FO). lia.
      - intros w. expand. rewrite Oy, !Qdiv_def. ring.
    Qed.

    Lemma two_loop_newest (older : list (pair F)) (s y g : vec F) : length g = n -> length s = n -> length y = n -> dot s g = 0 ->
      (forall p, In p older -> length (fst p) = n /\ length (snd p) = n /\ dot (fst p) g = 0 /\ dot (snd p) g = 0) ->
      two_loop FO (older ++ [(s, y)]) g =
      vadd (vscale (dot s y / dot y y) g) (vscale (0 - dot y (vscale (dot s y / dot y y) g) / dot s y) s).
    Proof.
      intros Lg Ls Ly Os O. rewrite (two_loop_rec F FO). rewrite rev_app_distr. simpl rev. simpl app.
      rewrite (tlrec_ext _ (vscale (dot s y / dot y y))).
      2:{ intros q. unfold lbfgs_scale. rewrite rev_app_distr. reflexivity. }
      simpl tlrec. rewrite Os. replace (0 / dot s y) with 0 by (rewrite Qdiv_def; ring).
      rewrite vsub_scale0 by congruence.
      rewrite tlrec_orth; [reflexivity|exact Lg|]. intros p Ip. apply O. apply in_rev. exact Ip.
    Qed.

    (* the exact line search does not see a positive (non-zero) scaling of the direction *)
    Lemma scaled_direction_same g d gam : gam <> 0 -> dot d (mv A d) <> 0 ->
      vscale (ls_step FO A g (vscale gam d)) (vscale gam d) = vscale (ls_step FO A g d) d /\
      vscale (ls_step FO A g (vscale gam d)) (mv A (vscale gam d)) = vscale (ls_step FO A g d) (mv A d).
    Proof.
      intros NG NQ. split; apply (vec_ext F FO Fth); try (rewrite ?(mv_vscale F FO Fth), !(length_vscale F FO); reflexivity);
        intros w; unfold ls_step; expand; rewrite !Qdiv_def; field; split; assumption.
    Qed.

    Lemma push_cases history (hist : list (pair F)) p : (1 <= history)%Z ->
      lbfgs_push history hist p = hist ++ [p] \/ (hist <> [] /\ lbfgs_push history hist p = tl hist ++ [p]).
    Proof.
      intros H1. unfold lbfgs_push, src_lbfgs_pop. rewrite app_length. simpl length.
      destruct (Z.gtb_spec (Z.of_nat (length hist + 1)) history) as [G|G]; [|left; reflexivity].
      right. destruct hist as [|q hist]; [simpl in G; lia|]. split; [discriminate|reflexivity].
    Qed.

    (* a stored pair is a positive multiple of a conjugate-gradient direction and of its image under A *)
    Definition corr (p : vec F * vec F) (sy : pair F) : Prop :=
      exists tau, pos tau /\ fst sy = vscale tau (snd p) /\ snd sy = vscale tau (mv A (snd p)).
    Definition lsim (histL : list (pair F)) (histC : hst) : Prop :=
      exists older sy, histL = older ++ [sy] /\ corr (hd ([], []) histC) sy /\
        (forall q, In q older -> exists p, In p (tl histC) /\ corr p q).

    Lemma in_tl {X} (x : X) l : In x (tl l) -> In x l.
    Proof. destruct l; [intros []|intros I; right; exact I]. Qed.

    Lemma lbfgs_step_sim history histL histC st x g :
      (1 <= history)%Z -> cgf_inv histC st g -> lsim histL histC -> g <> zeros n ->
      let dC := snd (step st g) in
      let '((histL', x', g'), d) := lbfgs_quad_step FO history A histL x g in
      (exists gam, pos gam /\ d = vscale gam dC) /\ x' = ls_point FO x (ls_step FO A g dC) dC /\
      g' = exact_next FO A g dC /\ lsim histL' ((g, dC) :: histC).
    Proof.
      intros H1 INV (older & [s y] & EL & (tau & Ptau & Es & Ey) & OLD) Ng.
      pose proof INV as (HD & Q & (WF & OG & CJ & GD) & I1 & I2 & SP & I5).
      pose proof (Qstep_spec st g Q Ng) as S.
      destruct (step st g) as [st' dC]. simpl snd. destruct S as (E1 & E2 & Ed & CJ0 & Q').
      destruct HD as (tl_ & EH).
      destruct Q as (_ & Lpg & Lpd & Lg & Npg & K1 & K2 & K4 & t & Nt & Eg).
      destruct Q' as (_ & _ & LdC & _ & _ & _ & J2 & _). rewrite E1, E2 in J2. rewrite E2 in LdC.
      set (pg := cs_pg st) in *. set (pdd := cs_pd st) in *.
      rewrite EH in Es, Ey. simpl in Es, Ey.
      rewrite Forall_forall in WF.
      (* the scalars *)
      set (u := dot (mv A pdd) g). set (qd := dot pdd (mv A pdd)).
      assert (PP : pos (dot pg pg)) by (apply Qdot_self_pos; rewrite Lpg; exact Npg).
      assert (GG : pos (dot g g)) by (apply Qdot_self_pos; rewrite Lg; exact Ng).
      assert (EGG : dot g g = t * u).
      { unfold u. rewrite Eg at 1. expand. rewrite (Qdot_comm pg g), K4. ring. }
      assert (EPP : dot pg pg = t * qd).
      { unfold qd. transitivity (- dot pdd pg + dot pdd g); [rewrite K2, (Qdot_comm pdd g), K1; ring|].
        rewrite Eg. expand. ring. }
      assert (Nqd : qd <> 0) by (intros Z; apply (Qpos_nz _ PP); rewrite EPP, Z; ring).
      assert (Nu : u <> 0) by (intros Z; apply (Qpos_nz _ GG); rewrite EGG, Z; ring).
      pose proof (Qpos_nz _ Ptau) as Ntau.
      assert (Ls : length s = n) by (rewrite Es, (length_vscale F FO); exact Lpd).
      assert (Ly : length y = n) by (rewrite Ey, (length_vscale F FO), (length_mv F FO); exact A_len).
      assert (Os : dot s g = 0) by (rewrite Es; expand; rewrite (Qdot_comm pdd g), K1; ring).
      assert (ESY : dot s y = tau * (tau * qd)) by (rewrite Es, Ey; expand; reflexivity).
      assert (EYG : dot y g = tau * u) by (rewrite Ey; expand; reflexivity).
      assert (PSY : pos (dot s y)).
      { rewrite ESY. apply pos_mul; [exact Ptau|apply pos_mul; [exact Ptau|]].
        destruct (pos_cases qd) as [Z|[P|P]]; [contradiction|exact P|]. exfalso.
        (* qd = pd'A pd > 0 by positive definiteness *)
        assert (Npd : pdd <> zeros n).
        { intros Z. apply Nqd. unfold qd. rewrite Z at 1. apply (dot_zeros_l F FO Fth). }
        exact (Qpos_asym _ (A_pd pdd Lpd Npd) P). }
      assert (PYY : pos (dot y y)).
      { apply Qdot_self_pos. apply (dot_nz_r F FO Fth s). apply Qpos_nz. exact PSY. }
      set (gam := dot s y / dot y y).
      assert (Pgam : pos gam) by (unfold gam; rewrite Qdiv_def; apply pos_mul; [exact PSY|apply Qpos_inv; exact PYY]).
      pose proof (Qpos_nz _ Pgam) as Ngam.
      (* older pairs are orthogonal to g on both sides *)
      assert (OO : forall p, In p older -> length (fst p) = n /\ length (snd p) = n /\ dot (fst p) g = 0 /\ dot (snd p) g = 0).
      { intros q Iq. destruct (OLD q Iq) as (p & Ip & tq & _ & Eq1 & Eq2). rewrite EH in Ip. simpl in Ip.
        assert (IpH : In p histC) by (rewrite EH; right; exact Ip).
        destruct (WF p IpH) as (_ & Lp & _).
        rewrite Eq1, Eq2. repeat split.
        - rewrite (length_vscale F FO). exact Lp.
        - rewrite (length_vscale F FO), (length_mv F FO). exact A_len.
        - expand. rewrite (Qdot_comm (snd p) g), (I2 p IpH). ring.
        - expand. rewrite (Qdot_comm (mv A (snd p)) g).
          rewrite EH in SP, I1. simpl in SP. destruct SP as (_ & SP).
          rewrite (span_tail g tl_ pg SP); [ring|apply (I1 (pg, pdd)); left; reflexivity|intros r Ir; apply I1; right; exact Ir|exact Ip]. }
      (* the two-loop recursion collapses *)
      assert (ED : lbfgs_direction FO histL g = vscale gam dC).
      { unfold lbfgs_direction. rewrite EL.
        pose proof (two_loop_newest older s y g Lg Ls Ly Os OO) as TL. fold gam in TL.
        transitivity (vopp (vadd (vscale gam g) (vscale (0 - dot y (vscale gam g) / dot s y) s))); [f_equal; exact TL|].
        apply (vec_ext F FO Fth).
        - rewrite (length_vopp F FO), (length_vadd F FO), !(length_vscale F FO), Lg, Ls, LdC. lia.
        - intros w. rewrite Ed. unfold cg_candidate, beta_FR. expand. rewrite EYG, ESY, Es. expand.
          rewrite EGG, EPP, !Qdiv_def. field. repeat split; assumption. }
      assert (DgC : dot g dC = - dot g g) by (rewrite (Qdot_comm g dC); exact J2).
      assert (HDesc : cg_has_descent FO g (vscale gam dC) = true).
      { apply (cg_has_descent_spec F FO Fth pos pos_add pos_0 fcmp_spec). expand. rewrite DgC.
        replace (- (gam * - dot g g)) with (gam * dot g g) by ring. apply pos_mul; assumption. }
      assert (NdC : dC <> zeros n).
      { intros Z. apply (Qpos_nz _ GG). transitivity (- dot g dC); [rewrite DgC; ring|]. rewrite Z, (dot_zeros_r F FO Fth). ring. }
      pose proof (A_pd dC LdC NdC) as PQC. pose proof (Qpos_nz _ PQC) as NQC.
      destruct (scaled_direction_same g dC gam Ngam NQC) as (SS & SY).
      unfold lbfgs_quad_step. rewrite ED, HDesc. unfold src_lbfgs_force, src_lbfgs_store. cbv beta iota zeta. simpl negb. cbv iota.
      rewrite SS, SY.
      split; [exists gam; split; [exact Pgam|reflexivity]|]. split; [reflexivity|]. split; [reflexivity|].
      (* the new history *)
      set (tC := ls_step FO A g dC).
      assert (PtC : pos tC).
      { unfold tC, ls_step. rewrite DgC, Qdiv_def. replace (- - dot g g) with (dot g g) by ring.
        apply pos_mul; [exact GG|apply Qpos_inv; exact PQC]. }
      set (p' := (vscale tC dC, vscale tC (mv A dC))).
      assert (CN : corr (g, dC) p') by (exists tC; repeat split; exact PtC).
      assert (CO : forall q, In q (older ++ [(s, y)]) -> exists p, In p histC /\ corr p q).
      { intros q Iq. apply in_app_or in Iq. destruct Iq as [Iq|[Eq|[]]].
        - destruct (OLD q Iq) as (p & Ip & Cp). exists p. split; [apply in_tl; exact Ip|exact Cp].
        - subst q. exists (pg, pdd). split; [rewrite EH; left; reflexivity|]. exists tau. repeat split; assumption. }
      destruct (push_cases history histL p' H1) as [EP|(NE & EP)]; rewrite EP, EL.
      - exists (older ++ [(s, y)]), p'. repeat split; [exact CN|]. simpl tl. exact CO.
      - exists (tl (older ++ [(s, y)])), p'. repeat split; [exact CN|]. simpl tl. intros q Iq. apply CO. apply in_tl. exact Iq.
    Qed.

    Definition lsim_entry (eL : vec F * vec F * vec F * list (pair F)) (eC : vec F * vec F * vec F) : Prop :=
      fst (fst (fst eL)) = fst (fst eC) /\ snd (fst (fst eL)) = snd (fst eC) /\
      exists gam, pos gam /\ snd (fst eL) = vscale gam (snd eC).
    Local Notation xrun := (cg_quad_xrun FO k eta orthotest nrm A).

    Lemma lbfgs_run_sim history : (1 <= history)%Z -> forall m histL histC st x g,
      cgf_inv histC st g -> lsim histL histC -> Forall (fun gd => fst gd <> zeros n) (run st g m) ->
      Forall2 lsim_entry (lbfgs_quad_run FO history A histL x g m) (xrun st x g m).
    Proof.
      intros H1. induction m as [|m IH]; intros histL histC st x g INV SIM NZ; cbn [lbfgs_quad_run cg_quad_xrun cg_quad_run] in *;
        [constructor|].
      pose proof (lbfgs_step_sim history histL histC st x g H1 INV SIM) as S.
      pose proof (cgf_step histC st g INV) as CS.
      destruct (step st g) as [st' dC]. simpl fst in CS. simpl snd in CS, S.
      inversion NZ as [|e l Ng NZ']; subst e l. simpl in Ng.
      specialize (S Ng). specialize (CS Ng).
      destruct (lbfgs_quad_step FO history A histL x g) as [[[histL' x'] g'] d].
      destruct S as (GD & Ex & Eg & SIM').
      constructor; [repeat split; exact GD|]. rewrite Ex, Eg. apply (IH histL' ((g, dC) :: histC)); assumption.
    Qed.

    (* (4) from the empty history, any history bound >= 1, any of the ten cgd ids on the other side *)
    Theorem lbfgs_is_cg history x0 g0 m : (1 <= history)%Z -> length g0 = n ->
      Forall (fun gd => fst gd <> zeros n) (run (cg_init (F:=F)) g0 m) ->
      Forall2 lsim_entry (lbfgs_quad_run FO history A [] x0 g0 m) (xrun (cg_init (F:=F)) x0 g0 m).
    Proof.
      intros H1 L0 NZ. destruct m as [|m]; [constructor|].
      cbn [lbfgs_quad_run cg_quad_xrun cg_quad_run] in *. unfold cg_step at 1 in NZ. unfold cg_step at 1. simpl in NZ |- *.
      inversion NZ as [|e l Ng NZ']; subst e l. simpl in Ng.
      assert (N0 : g0 <> zeros (length g0)) by (rewrite L0; exact Ng).
      assert (HDesc : cg_has_descent FO g0 (vopp g0) = true).
      { apply (cg_has_descent_spec F FO Fth pos pos_add pos_0 fcmp_spec).
        apply (descent_steepest F FO Fth pos pos_add pos_mul pos_cases pos_0). exact N0. }
      unfold lbfgs_quad_step. change (lbfgs_direction FO [] g0) with (vopp g0). rewrite HDesc.
      unfold src_lbfgs_force, src_lbfgs_store. cbv beta iota zeta. simpl negb. cbv iota.
      assert (EP : lbfgs_push history [] (vscale (ls_step FO A g0 (vopp g0)) (vopp g0), vscale (ls_step FO A g0 (vopp g0)) (mv A (vopp g0)))
                   = [(vscale (ls_step FO A g0 (vopp g0)) (vopp g0), vscale (ls_step FO A g0 (vopp g0)) (mv A (vopp g0)))]).
      { unfold lbfgs_push, src_lbfgs_pop. simpl length. destruct (Z.gtb_spec (Z.of_nat 1) history) as [G|G]; [lia|reflexivity]. }
      rewrite EP.
      constructor.
      - repeat split. exists 1. split; [apply (pos_1 F FO Fth pos pos_mul pos_cases)|symmetry; apply vscale_1].
      - pose proof (cgf_init_inv g0 L0 Ng) as INV.
        apply (lbfgs_run_sim history H1 m _ [(g0, vopp g0)]); [exact INV| |exact NZ'].
        exists [], (vscale (ls_step FO A g0 (vopp g0)) (vopp g0), vscale (ls_step FO A g0 (vopp g0)) (mv A (vopp g0))).
        repeat split; [|intros q []].
        exists (ls_step FO A g0 (vopp g0)). repeat split.
        assert (Lo : length (vopp g0) = n) by (rewrite (length_vopp F FO); exact L0).
        assert (No : vopp g0 <> zeros n).
        { intros Z. apply (Qpos_nz _ (Qdot_self_pos g0 N0)). transitivity (- dot g0 (vopp g0)); [expand; ring|].
          rewrite Z, (dot_zeros_r F FO Fth). ring. }
        unfold ls_step. rewrite Qdiv_def. apply pos_mul; [|apply Qpos_inv; apply A_pd; assumption].
        expand. replace (- - dot g0 g0) with (dot g0 g0) by ring. apply Qdot_self_pos. exact N0.
    Qed.

    (* ---- the pairwise statements read by index (the run lists are oldest first) ------------------------------------- *)
    Fixpoint pwg {X} (R : X -> X -> Prop) (l : list X) : Prop :=
      match l with
      | [] => True
      | p :: l' => (forall q, In q l' -> R p q) /\ pwg R l'
      end.
    Lemma pwg_rev_nth {X} (R : X -> X -> Prop) (d : X) : forall l, pwg R (rev l) ->
      forall i j, (i < j)%nat -> (j < length l)%nat -> R (nth j l d) (nth i l d).
    Proof.
      induction l as [|x l IH] using rev_ind; intros P i j Lij Lj; [simpl in Lj; lia|].
      rewrite rev_app_distr in P. simpl in P. destruct P as (P1 & P2). rewrite app_length in Lj. simpl in Lj.
      destruct (Nat.eq_dec j (length l)) as [E|N].
      - subst j. rewrite app_nth2, Nat.sub_diag by lia. simpl. rewrite app_nth1 by lia.
        apply P1. apply in_rev. rewrite rev_involutive. apply nth_In. lia.
      - rewrite !app_nth1 by lia. apply IH; [exact P2|exact Lij|lia].
    Qed.
    Lemma pw_pwg R l : pw R l -> pwg R l.
    Proof. induction l as [|p l IH]; simpl; [trivial|]. intros (P1 & P2). split; [exact P1|apply IH; exact P2]. Qed.

    Theorem cg_full_history_nth g0 m : length g0 = n ->
      Forall (fun gd => fst gd <> zeros n) (run (cg_init (F:=F)) g0 m) ->
      forall i j, (i < j)%nat -> (j < m)%nat ->
        let gi := fst (nth i (run (cg_init (F:=F)) g0 m) ([], [])) in
        let di := snd (nth i (run (cg_init (F:=F)) g0 m) ([], [])) in
        let gj := fst (nth j (run (cg_init (F:=F)) g0 m) ([], [])) in
        let dj := snd (nth j (run (cg_init (F:=F)) g0 m) ([], [])) in
        dot gj gi = 0 /\ dot dj (mv A di) = 0 /\ dot gj di = 0.
    Proof.
      intros L0 NZ i j Lij Lj. destruct (cg_full_history g0 m L0 NZ) as (_ & OG & CJ & GD).
      rewrite <- (run_length m (cg_init (F:=F)) g0) in Lj. cbv zeta. repeat split.
      - exact (pwg_rev_nth R_og ([], []) _ (pw_pwg _ _ OG) i j Lij Lj).
      - exact (pwg_rev_nth R_cj ([], []) _ (pw_pwg _ _ CJ) i j Lij Lj).
      - exact (pwg_rev_nth R_gd ([], []) _ (pw_pwg _ _ GD) i j Lij Lj).
    Qed.

    Definition R_qn (e q : qentry) : Prop :=
      mv (e_H e) (e_y q) = e_s q /\ dot (e_s e) (e_y q) = 0 /\ dot (e_g e) (e_s q) = 0.
    Definition D_qn (e : qentry) : Prop :=
      (length (e_H e) = n /\ msym n (e_H e) /\ length (e_s e) = n) /\
      mv (e_H e) (e_y e) = e_s e /\ e_y e = mv A (e_s e) /\ pos (dot (e_s e) (e_y e)).
    Lemma qn_pw_split l : qn_pw l -> Forall D_qn l /\ pwg R_qn l.
    Proof.
      induction l as [|e l IH]; simpl; [intros _; split; [constructor|exact I]|].
      intros (D0 & D1 & D2 & D3 & P & PW). destruct (IH PW) as (FD & PG). split; [constructor; [repeat split; try assumption; apply D0|exact FD]|].
      split; [exact P|exact PG].
    Qed.
    Definition qdflt : qentry := ([], [], [], [], [], []).
    Theorem bfgs_finite_nth r init H0 x0 g0 m :
      length H0 = n -> msym n H0 -> pd n H0 -> length g0 = n ->
      Forall qn_nz (qrun r init A true H0 x0 g0 m) ->
      (m <= n)%nat /\
      forall j, (j < m)%nat ->
        let ej := nth j (qrun r init A true H0 x0 g0 m) qdflt in
        mv (e_H ej) (e_y ej) = e_s ej /\ e_y ej = mv A (e_s ej) /\ pos (dot (e_s ej) (e_y ej)) /\
        forall i, (i < j)%nat ->
          let ei := nth i (qrun r init A true H0 x0 g0 m) qdflt in
          mv (e_H ej) (e_y ei) = e_s ei /\ dot (e_s ej) (e_y ei) = 0 /\ dot (e_g ej) (e_s ei) = 0.
    Proof.
      intros LH SH PH Lg NZ. destruct (bfgs_finite r init H0 x0 g0 m LH SH PH Lg NZ) as (PW & LE). split; [exact LE|].
      destruct (qn_pw_split _ PW) as (FD & PG). intros j Lj. cbv zeta.
      assert (LR : length (qrun r init A true H0 x0 g0 m) = m).
      { clear. generalize true at 1. generalize H0 x0 g0. induction m as [|m IH]; intros H x g b; cbn [qn_quad_run]; [reflexivity|].
        destruct (qn_quad_step FO KBFGS r init A b H x g) as [[[H' x'] g'] [[d s] y]]. simpl. rewrite IH. reflexivity. }
      rewrite Forall_forall in FD.
      assert (Ij : In (nth j (qrun r init A true H0 x0 g0 m) qdflt) (rev (qrun r init A true H0 x0 g0 m))).
      { apply in_rev. rewrite rev_involutive. apply nth_In.
        apply (Nat.lt_le_trans _ m); [exact Lj|]. apply Nat.eq_le_incl. symmetry. exact LR. }
      destruct (FD _ Ij) as (_ & D1 & D2 & D3). split; [exact D1|]. split; [exact D2|]. split; [exact D3|].
      intros i Li. cbv zeta. apply (pwg_rev_nth R_qn qdflt _ PG i j); [exact Li|].
      apply (Nat.lt_le_trans _ m); [exact Lj|]. apply Nat.eq_le_incl. symmetry. exact LR.
    Qed.

    (* after n iterations with non-zero gradients the BFGS matrix IS the inverse of A:  H_n (A v) = v  for every v *)
    Lemma qn_tri : forall l : list qentry, Forall D_qn l -> pwg R_qn l -> tri (map (fun q => (e_y q, e_s q)) l).
    Proof.
      induction l as [|e l IH]; intros FD PG; [exact I|]. inversion FD as [|a0 b0 (_ & _ & _ & Pe) FD']; subst a0 b0.
      simpl in PG. destruct PG as (P & PG). simpl. repeat split.
      - rewrite Qdot_comm. apply Qpos_nz. exact Pe.
      - intros q Iq. apply in_map_iff in Iq. destruct Iq as (q0 & E & Iq). subst q. simpl.
        rewrite Qdot_comm. apply (P q0 Iq).
      - apply IH; assumption.
    Qed.

    Theorem bfgs_inverse r init H0 x0 g0 :
      length H0 = n -> msym n H0 -> pd n H0 -> length g0 = n ->
      Forall qn_nz (qrun r init A true H0 x0 g0 n) ->
      forall e, hd_error (rev (qrun r init A true H0 x0 g0 n)) = Some e ->
      forall v, length v = n -> mv (e_H e) (mv A v) = v.
    Proof.
      intros LH SH PH Lg NZ e HE v Lv.
      destruct (bfgs_finite r init H0 x0 g0 n LH SH PH Lg NZ) as (PW & _).
      assert (LR : length (rev (qrun r init A true H0 x0 g0 n)) = n).
      { rewrite rev_length. clear. generalize true at 1. generalize H0 x0 g0. induction n as [|m IH]; intros H x g b; cbn [qn_quad_run]; [reflexivity|].
        destruct (qn_quad_step FO KBFGS r init A b H x g) as [[[H' x'] g'] [[d s] y]]. simpl. rewrite IH. reflexivity. }
      destruct (rev (qrun r init A true H0 x0 g0 n)) as [|e0 l] eqn:EL; [discriminate|]. simpl in HE. inversion HE; subst e0.
      destruct (qn_pw_split _ PW) as (FD & PG).
      pose proof PW as PW0. simpl in PW0. destruct PW0 as ((LHe & SHe & _) & He & _ & _ & Hq & _).
      assert (HER : forall q, In q (e :: l) -> mv (e_H e) (e_y q) = e_s q).
      { intros q [E|Iq]; [subst q; exact He|apply (Hq q Iq)]. }
      set (z := vsub (mv (e_H e) (mv A v)) v).
      assert (Lz : length z = n) by (unfold z; rewrite (length_vsub F FO), !(length_mv F FO), LHe, Lv; lia).
      assert (OZ : forall q, In q (e :: l) -> dot (e_y q) z = 0).
      { intros q Iq. rewrite Forall_forall in FD. destruct (FD q Iq) as ((_ & _ & Lsq) & _ & Eyq & _).
        assert (Lyq : length (e_y q) = n) by (rewrite Eyq, (length_mv F FO); exact A_len).
        assert (LAv : length (mv A v) = n) by (rewrite (length_mv F FO); exact A_len).
        unfold z. expand. rewrite (SHe (e_y q) (mv A v) Lyq LAv), (HER q Iq), (Qdot_comm (mv A v) (e_s q)),
          (A_sym (e_s q) v Lsq Lv), <- Eyq, (Qdot_comm v (e_y q)). ring. }
      destruct (zeros_dec n z) as [Z|NZz].
      - apply (vec_ext F FO Fth); [rewrite !(length_mv F FO), LHe, Lv; reflexivity|]. intros w.
        assert (X : dot w z = 0) by (rewrite Z; apply (dot_zeros_r F FO Fth)). unfold z in X. revert X. expand. intros X.
        transitivity (dot w (mv (e_H e) (mv A v)) - dot w v + dot w v); [ring|rewrite X; ring].
      - exfalso.
        assert (T : tri ((z, z) :: map (fun q => (e_y q, e_s q)) (e :: l))).
        { cbn [tri]. split; [|split].
          - simpl. apply Qpos_nz. apply Qdot_self_pos. rewrite Lz. exact NZz.
          - intros q Iq. apply in_map_iff in Iq. destruct Iq as (q0 & E & Iq). subst q. simpl fst. simpl snd. apply OZ. exact Iq.
          - apply qn_tri; assumption. }
        apply (tri_bound n) in T.
        + simpl in T. rewrite map_length in T. rewrite <- LR in T. simpl in T. exact (Nat.nle_succ_diag_l _ T).
        + intros p [E|Ip]; [subst p; exact Lz|]. apply in_map_iff in Ip. destruct Ip as (q0 & E & Iq). subst p. simpl.
          rewrite Forall_forall in FD. destruct (FD q0 Iq) as (_ & _ & Eyq & _). rewrite Eyq, (length_mv F FO). exact A_len.
    Qed.
  End Iterations.
End FiniteAlgebra.
