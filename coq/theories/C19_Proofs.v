(* C19 -- proofs about the executable model C19_Defs (parameter_t / configurable_t).
   The translated kernels (Src_parameter, Src_configurable, Src_numeric, Src_parameter_flt) are unfolded here, so
   every lemma is re-checked against what the source says now. *)
From Coq Require Import ZArith List Bool Floats Lia.
From LNGen Require Import Src_numeric Src_parameter Src_parameter_flt Src_configurable.
From LN Require Import C19_Defs.
Import ListNotations.
Local Open Scope Z_scope.

(* ---------------------------------------------------------------------------------------------- *)
(* the declared domain, as mathematics                                                             *)
Definition zrel (c : cmp) (a b : Z) : Prop := match c with LE => a <= b | LT => a < b end.
Definition frel (c : cmp) (a b : float) : Prop :=
  match c with LE => PrimFloat.leb a b = true | LT => PrimFloat.ltb a b = true end.

(* `r` (a typed value) lies in the domain declared by `s` *)
Definition in_dom (s : storage) (r : rres) : Prop :=
  match s, r with
  | SEnum _ dom, RS v => In v dom
  | SIRange _ mn mx c1 c2, RI v => zrel c1 mn v /\ zrel c2 v mx
  | SFRange _ mn mx c1 c2, RF v => is_finite v = true /\ frel c1 mn v /\ frel c2 v mx
  | SIPair _ _ mn mx c1 c2 c3, RIP a b => zrel c1 mn a /\ zrel c2 a b /\ zrel c3 b mx
  | SFPair _ _ mn mx c1 c2 c3, RFP a b =>
      is_finite a = true /\ is_finite b = true /\ frel c1 mn a /\ frel c2 a b /\ frel c3 b mx
  | SString _, RS _ => True
  | _, _ => False
  end.

(* the stored value of a parameter, as a typed value (no conversion) *)
Definition stored (s : storage) : rres :=
  match s with
  | SNone => RThrow
  | SEnum v _ => RS v
  | SIRange v _ _ _ _ => RI v
  | SFRange v _ _ _ _ => RF v
  | SIPair a b _ _ _ _ _ => RIP a b
  | SFPair a b _ _ _ _ _ => RFP a b
  | SString v => RS v
  end.

(* the invariant: the stored value lies in the declared domain, with its ordering constraints *)
Definition Inv (s : storage) : Prop :=
  match s with SNone => True | _ => in_dom s (stored s) end.

(* ---------------------------------------------------------------------------------------------- *)
(* basic facts                                                                                      *)
Lemma str_eqb_eq : forall a b, str_eqb a b = true <-> a = b.
Proof.
  induction a as [|x a IH]; destruct b as [|y b]; simpl; split; intro H; try reflexivity; try discriminate.
  - apply andb_true_iff in H. destruct H as [H1 H2]. apply Z.eqb_eq in H1. apply IH in H2. subst. reflexivity.
  - inversion H; subst. apply andb_true_iff. split. apply Z.eqb_refl. apply IH. reflexivity.
Qed.

Lemma str_eqb_refl : forall a, str_eqb a a = true.
Proof. intro a. apply str_eqb_eq. reflexivity. Qed.

Lemma str_eqb_neq : forall a b, str_eqb a b = false <-> a <> b.
Proof.
  intros a b. split; intro H.
  - intro E. apply str_eqb_eq in E. rewrite E in H. discriminate.
  - destruct (str_eqb a b) eqn:E; [|reflexivity]. apply str_eqb_eq in E. contradiction.
Qed.

Lemma zcheck_spec : forall c a b, zcheck c a b = true <-> zrel c a b.
Proof.
  intros c a b. unfold zcheck, src_param_check. destruct c; simpl.
  - apply Z.leb_le.
  - apply Z.ltb_lt.
Qed.

Lemma fcheck_spec : forall c a b, fcheck c a b = true <-> frel c a b.
Proof. intros c a b. unfold fcheck, src_param_check_f. destruct c; simpl; split; intro H; exact H. Qed.

Lemma find_pos_cons : forall v d r, find_pos v (d :: r) = if str_eqb d v then 0 else 1 + find_pos v r.
Proof. reflexivity. Qed.
Lemma find_pos_nil : forall v, find_pos v [] = 0.
Proof. reflexivity. Qed.

Lemma find_pos_range : forall v dom, 0 <= find_pos v dom <= Z.of_nat (length dom).
Proof.
  intros v dom. induction dom as [|d r IH]; rewrite ?find_pos_cons, ?find_pos_nil; simpl length.
  - simpl. lia.
  - destruct (str_eqb d v); lia.
Qed.

Lemma find_pos_absent : forall v dom, find_pos v dom = Z.of_nat (length dom) <-> ~ In v dom.
Proof.
  intros v dom. induction dom as [|d r IH]; rewrite ?find_pos_cons, ?find_pos_nil; simpl length.
  - simpl. split; intro H; [intros []|reflexivity].
  - destruct (str_eqb d v) eqn:E.
    + apply str_eqb_eq in E. subst. split; intro H.
      * lia.
      * exfalso. apply H. left. reflexivity.
    + apply str_eqb_neq in E. pose proof (find_pos_range v r) as R. split; intro H.
      * intros [H1|H1]; [contradiction|]. apply IH in H1; [exact H1|lia].
      * assert (~ In v r) as H2 by (intro H3; apply H; right; exact H3).
        apply IH in H2. lia.
Qed.

(* ---------------------------------------------------------------------------------------------- *)
(* the guard of fix 0c6dfeb makes the cast defined: convertible<int64_t>(v) (finite, -2^63 <= v < 2^63, evaluated
   with the double comparisons the code uses) implies that the truncation of v is an int64.
   Uses the IEEE specification of PrimFloat (FloatAxioms: ltb_spec, leb_spec, Prim2SF_valid). *)
Lemma digits2_bound : forall m, Z.pos m < 2 ^ Z.pos (digits2_pos m).
Proof.
  induction m as [m IH|m IH|]; cbn [digits2_pos].
  - rewrite Pos2Z.inj_succ, Z.pow_succ_r by lia. rewrite Pos2Z.inj_xI. lia.
  - rewrite Pos2Z.inj_succ, Z.pow_succ_r by lia. rewrite Pos2Z.inj_xO. lia.
  - reflexivity.
Qed.

Lemma valid_mantissa_bound : forall s m e, valid_binary (S754_finite s m e) = true -> Z.pos m < 2 ^ 53.
Proof.
  intros s m e V. unfold valid_binary, bounded, canonical_mantissa in V.
  apply andb_true_iff in V. destruct V as [V _]. apply Zeq_is_eq_bool in V.
  unfold fexp, prec, emin, emax in V.
  pose proof (digits2_bound m) as D.
  assert (Z.pos (digits2_pos m) <= 53) as L by lia.
  apply Z.lt_le_trans with (1 := D). apply Z.pow_le_mono_r; lia.
Qed.

Lemma sf_hi : Prim2SF (- dbl_lowest)%float = S754_finite false 4503599627370496 11.
Proof. vm_compute. reflexivity. Qed.
Lemma sf_lo : Prim2SF dbl_lowest = S754_finite true 4503599627370496 11.
Proof. vm_compute. reflexivity. Qed.

Definition mag (m : positive) (e : Z) : Z := if 0 <=? e then Z.pos m * 2 ^ e else Z.pos m / 2 ^ (- e).

Lemma mag_nonneg : forall m e, 0 <= mag m e.
Proof.
  intros m e. unfold mag. destruct (0 <=? e) eqn:E.
  - apply Z.leb_le in E. assert (0 < 2 ^ e) by (apply Z.pow_pos_nonneg; lia). nia.
  - apply Z.leb_gt in E. apply Z.div_pos; [lia|apply Z.pow_pos_nonneg; lia].
Qed.

Lemma mag_small_exp : forall m e, Z.pos m < 2 ^ 53 -> e <= 10 -> mag m e < 2 ^ 63.
Proof.
  intros m e M E. unfold mag. destruct (0 <=? e) eqn:E0.
  - apply Z.leb_le in E0. assert (2 ^ e <= 2 ^ 10) as P by (apply Z.pow_le_mono_r; lia).
    assert (0 < 2 ^ e) as Q by (apply Z.pow_pos_nonneg; lia).
    apply Z.le_lt_trans with (Z.pos m * 2 ^ 10).
    + apply Z.mul_le_mono_nonneg_l; [lia|exact P].
    + replace (2 ^ 63) with (2 ^ 53 * 2 ^ 10) by reflexivity.
      apply Z.mul_lt_mono_pos_r; [reflexivity|exact M].
  - apply Z.leb_gt in E0. assert (0 < 2 ^ (- e)) as P by (apply Z.pow_pos_nonneg; lia).
    apply Z.le_lt_trans with (Z.pos m).
    + apply Z.div_le_upper_bound; [exact P|].
      rewrite <- (Z.mul_1_l (Z.pos m)) at 1. apply Z.mul_le_mono_nonneg_r; lia.
    + apply Z.lt_trans with (1 := M). reflexivity.
Qed.

Lemma mag_11 : forall m, mag m 11 = Z.pos m * 2048.
Proof. reflexivity. Qed.

Lemma conv_f2i : forall f, conv_i f = true -> exists z, f2i f = Some z.
Proof.
  intros f C. unfold conv_i, src_convertible in C.
  apply andb_true_iff in C. destruct C as [C LT]. apply andb_true_iff in C. destruct C as [_ LE].
  rewrite ltb_spec, sf_hi in LT. rewrite leb_spec, sf_lo in LE.
  pose proof (Prim2SF_valid f) as V.
  unfold f2i, trunc_f. destruct (Prim2SF f) as [s|s| |s m e] eqn:P.
  - exists 0. reflexivity.
  - destruct s; [discriminate LE|discriminate LT].
  - discriminate LE.
  - pose proof (valid_mantissa_bound s m e V) as M.
    fold (mag m e). pose proof (mag_nonneg m e) as N.
    assert (in_int64 (if s then - mag m e else mag m e) = true) as R.
    { unfold in_int64, int64_min, int64_max. apply andb_true_iff. destruct s.
      - (* negative: lowest <= f *)
        split; apply Z.leb_le; [|clear - N; lia].
        unfold SFleb, SFcompare in LE.
        destruct (11 ?= e) eqn:E.
        + apply Z.compare_eq in E. subst e.
          destruct (Pos.compare_cont Eq 4503599627370496 m) eqn:PC; simpl in LE; try discriminate LE.
          * pose proof (Pos.compare_eq 4503599627370496 m) as H. unfold Pos.compare in H. specialize (H PC).
            subst m. rewrite mag_11. clear. lia.
          * pose proof (proj1 (Pos.compare_gt_iff 4503599627370496 m)) as H. unfold Pos.compare in H.
            specialize (H PC). rewrite mag_11. apply Pos2Z.pos_lt_pos in H. clear - H. lia.
        + discriminate LE.
        + apply Z.compare_gt_iff in E. pose proof (mag_small_exp m e M ltac:(lia)) as B.
          change (2 ^ 63) with 9223372036854775808 in B. lia.
      - (* positive: f < -lowest *)
        split; apply Z.leb_le; [clear - N; lia|].
        unfold SFltb, SFcompare in LT.
        destruct (e ?= 11) eqn:E.
        + apply Z.compare_eq in E. subst e.
          destruct (Pos.compare_cont Eq m 4503599627370496) eqn:PC; try discriminate LT.
          pose proof (proj1 (Pos.compare_lt_iff m 4503599627370496)) as H. unfold Pos.compare in H.
          specialize (H PC). rewrite mag_11. apply Pos2Z.pos_lt_pos in H. clear - H. lia.
        + change (e < 11) in E. pose proof (mag_small_exp m e M ltac:(lia)) as B.
          change (2 ^ 63) with 9223372036854775808 in B. lia.
        + discriminate LT. }
    rewrite R. eexists. reflexivity.
Qed.

Lemma conv_false_cases : forall f, conv_i f = false ->
  is_finite f = false \/ PrimFloat.leb dbl_lowest f = false \/ PrimFloat.ltb f (- dbl_lowest)%float = false.
Proof.
  intros f C. unfold conv_i, src_convertible in C.
  destruct (is_finite f); [|left; reflexivity].
  destruct (PrimFloat.leb dbl_lowest f); [|right; left; reflexivity].
  destruct (PrimFloat.ltb f (- dbl_lowest)%float); [discriminate C|right; right; reflexivity].
Qed.

(* the guards in front of the conversions *)
Lemma g1_id : forall r, g1 r = r.
Proof. reflexivity. Qed.
Lemma g2_id : forall r, g2 r = r.
Proof. reflexivity. Qed.
Lemma guard1_spec : forall c r, guard1 c r = if c then r else Throw.
Proof. intros [|] r; reflexivity. Qed.
Lemma guard2_spec : forall c1 c2 r, guard2 c1 c2 r = if c1 && c2 then r else Throw.
Proof. intros [|] [|] r; reflexivity. Qed.

(* ---------------------------------------------------------------------------------------------- *)
(* the update kernels: accepted exactly when the value lies in the domain, never UB, store exactly  *)
Lemma upd_enum_spec : forall dom v,
  (In v dom /\ upd_enum dom v = Ok (SEnum v dom)) \/ (~ In v dom /\ upd_enum dom v = Throw).
Proof.
  intros dom v. unfold upd_enum, src_enum_reject.
  destruct (find_pos v dom =? Z.of_nat (length dom)) eqn:E.
  - right. apply Z.eqb_eq in E. apply find_pos_absent in E. split; [exact E|reflexivity].
  - left. apply Z.eqb_neq in E. split; [|reflexivity].
    destruct (in_dec (list_eq_dec Z.eq_dec) v dom) as [H|H]; [exact H|].
    apply find_pos_absent in H. contradiction.
Qed.

Lemma upd_i_spec : forall mn mx c1 c2 v,
  ((zrel c1 mn v /\ zrel c2 v mx) /\ upd_i mn mx c1 c2 v = Ok (SIRange v mn mx c1 c2)) \/
  (~ (zrel c1 mn v /\ zrel c2 v mx) /\ upd_i mn mx c1 c2 v = Throw).
Proof.
  intros mn mx c1 c2 v. unfold upd_i, src_range_reject, src_isfinite_int, src_range_assign.
  destruct (zcheck c1 mn v) eqn:E1; destruct (zcheck c2 v mx) eqn:E2; simpl.
  - left. apply zcheck_spec in E1. apply zcheck_spec in E2. split; [split; assumption|reflexivity].
  - right. split; [|reflexivity]. intros [_ H]. apply zcheck_spec in H. rewrite H in E2. discriminate.
  - right. split; [|reflexivity]. intros [H _]. apply zcheck_spec in H. rewrite H in E1. discriminate.
  - right. split; [|reflexivity]. intros [H _]. apply zcheck_spec in H. rewrite H in E1. discriminate.
Qed.

Lemma upd_f_spec : forall mn mx c1 c2 v,
  ((is_finite v = true /\ frel c1 mn v /\ frel c2 v mx) /\ upd_f mn mx c1 c2 v = Ok (SFRange v mn mx c1 c2)) \/
  (~ (is_finite v = true /\ frel c1 mn v /\ frel c2 v mx) /\ upd_f mn mx c1 c2 v = Throw).
Proof.
  intros mn mx c1 c2 v. unfold upd_f, src_range_reject, src_range_assign_f.
  destruct (is_finite v) eqn:E0; destruct (fcheck c1 mn v) eqn:E1; destruct (fcheck c2 v mx) eqn:E2; simpl;
    try (left; apply fcheck_spec in E1; apply fcheck_spec in E2; split; [repeat split; assumption|reflexivity]);
    right; (split; [|reflexivity]); intros (H0 & H1 & H2);
    try discriminate H0;
    try (apply fcheck_spec in H1; rewrite H1 in E1; discriminate);
    try (apply fcheck_spec in H2; rewrite H2 in E2; discriminate).
Qed.

Lemma upd_ip_spec : forall mn mx c1 c2 c3 a b,
  ((zrel c1 mn a /\ zrel c2 a b /\ zrel c3 b mx) /\ upd_ip mn mx c1 c2 c3 a b = Ok (SIPair a b mn mx c1 c2 c3)) \/
  (~ (zrel c1 mn a /\ zrel c2 a b /\ zrel c3 b mx) /\ upd_ip mn mx c1 c2 c3 a b = Throw).
Proof.
  intros mn mx c1 c2 c3 a b. unfold upd_ip, src_pair_reject, src_isfinite_int, src_pair_assign1, src_pair_assign2.
  destruct (zcheck c1 mn a) eqn:E1; destruct (zcheck c2 a b) eqn:E2; destruct (zcheck c3 b mx) eqn:E3; simpl;
    try (left; apply zcheck_spec in E1; apply zcheck_spec in E2; apply zcheck_spec in E3;
         split; [repeat split; assumption|reflexivity]);
    right; (split; [|reflexivity]); intros (H1 & H2 & H3);
    try (apply zcheck_spec in H1; rewrite H1 in E1; discriminate);
    try (apply zcheck_spec in H2; rewrite H2 in E2; discriminate);
    try (apply zcheck_spec in H3; rewrite H3 in E3; discriminate).
Qed.

Lemma upd_fp_spec : forall mn mx c1 c2 c3 a b,
  ((is_finite a = true /\ is_finite b = true /\ frel c1 mn a /\ frel c2 a b /\ frel c3 b mx) /\
   upd_fp mn mx c1 c2 c3 a b = Ok (SFPair a b mn mx c1 c2 c3)) \/
  (~ (is_finite a = true /\ is_finite b = true /\ frel c1 mn a /\ frel c2 a b /\ frel c3 b mx) /\
   upd_fp mn mx c1 c2 c3 a b = Throw).
Proof.
  intros mn mx c1 c2 c3 a b. unfold upd_fp, src_pair_reject, src_pair_assign1_f, src_pair_assign2_f.
  destruct (is_finite a) eqn:F1; destruct (is_finite b) eqn:F2;
  destruct (fcheck c1 mn a) eqn:E1; destruct (fcheck c2 a b) eqn:E2; destruct (fcheck c3 b mx) eqn:E3; simpl;
    try (left; apply fcheck_spec in E1; apply fcheck_spec in E2; apply fcheck_spec in E3;
         split; [repeat split; assumption|reflexivity]);
    right; (split; [|reflexivity]); intros (G1 & G2 & H1 & H2 & H3);
    try discriminate G1; try discriminate G2;
    try (apply fcheck_spec in H1; rewrite H1 in E1; discriminate);
    try (apply fcheck_spec in H2; rewrite H2 in E2; discriminate);
    try (apply fcheck_spec in H3; rewrite H3 in E3; discriminate).
Qed.

(* ---------------------------------------------------------------------------------------------- *)
(* the assignment as a relation between the converted argument and the domain                       *)

(* one statement per (converted value, domain): accepted iff in the domain, and then stored as is *)
Definition upd_of (s : storage) (r : rres) : result :=
  match s, r with
  | SEnum _ dom, RS v => upd_enum dom v
  | SIRange _ mn mx c1 c2, RI v => upd_i mn mx c1 c2 v
  | SFRange _ mn mx c1 c2, RF v => upd_f mn mx c1 c2 v
  | SIPair _ _ mn mx c1 c2 c3, RIP a b => upd_ip mn mx c1 c2 c3 a b
  | SFPair _ _ mn mx c1 c2 c3, RFP a b => upd_fp mn mx c1 c2 c3 a b
  | SString _, RS v => Ok (SString v)
  | _, _ => Throw
  end.

Lemma upd_of_spec : forall s r,
  (in_dom s r /\ exists s', upd_of s r = Ok s' /\ stored s' = r /\ domain_of s' = domain_of s /\ Inv s') \/
  (~ in_dom s r /\ upd_of s r = Throw).
Proof.
  intros s r. destruct s; destruct r; simpl; try (right; split; [intros []|reflexivity]).
  - destruct (upd_enum_spec dom s) as [[H E]|[H E]]; rewrite E.
    + left. split; [exact H|]. eexists. split; [reflexivity|]. simpl. repeat split. exact H.
    + right. split; [exact H|reflexivity].
  - destruct (upd_i_spec mn mx cmin cmax z) as [[H E]|[H E]]; rewrite E.
    + left. split; [exact H|]. eexists. split; [reflexivity|]. simpl. repeat split; apply H.
    + right. split; [exact H|reflexivity].
  - destruct (upd_f_spec mn mx cmin cmax f) as [[H E]|[H E]]; rewrite E.
    + left. split; [exact H|]. eexists. split; [reflexivity|]. simpl. repeat split; apply H.
    + right. split; [exact H|reflexivity].
  - destruct (upd_ip_spec mn mx cmin cval cmax a b) as [[H E]|[H E]]; rewrite E.
    + left. split; [exact H|]. eexists. split; [reflexivity|]. simpl. repeat split; apply H.
    + right. split; [exact H|reflexivity].
  - destruct (upd_fp_spec mn mx cmin cval cmax a b) as [[H E]|[H E]]; rewrite E.
    + left. split; [exact H|]. eexists. split; [reflexivity|]. simpl. repeat split; apply H.
    + right. split; [exact H|reflexivity].
  - left. split; [exact I|]. eexists. split; [reflexivity|]. simpl. repeat split.
Qed.

Definition is_wr (a : arg) : bool := match a with AWriteRead _ => true | _ => false end.

(* step = convert (which includes the convertibility guard), then the domain check-and-store; no UB left *)
Lemma step_factor : forall s a,
  is_wr a = false ->
  step s a = match convert s a with Some r => upd_of s r | None => Throw end.
Proof.
  intros s a W. destruct a; try discriminate W; destruct s; simpl; rewrite ?g1_id, ?g2_id; try reflexivity.
  - rewrite guard1_spec. destruct (conv_i f) eqn:C; [|reflexivity].
    destruct (conv_f2i f C) as [z E]. rewrite E. reflexivity.
  - rewrite guard2_spec. destruct (conv_i a) eqn:C1; [|reflexivity]. destruct (conv_i b) eqn:C2; [|reflexivity].
    destruct (conv_f2i a C1) as [x E1]. destruct (conv_f2i b C2) as [y E2]. rewrite E1, E2. reflexivity.
  - destruct (stoll s0); rewrite ?g1_id; reflexivity.
  - destruct d0; rewrite ?g1_id; reflexivity.
  - destruct (split_pair s0) as [t1 t2]. simpl. destruct (stoll t1); destruct (stoll t2); rewrite ?g2_id; reflexivity.
  - destruct d1; destruct d2; rewrite ?g2_id; reflexivity.
Qed.

(* serialisation round trip *)
Lemma comp_flag : forall c, comp_of (flag_of c) = c.
Proof. intro c. destruct c; reflexivity. Qed.

Lemma decode_encode : forall name s, decode (encode name s) = Some (name, s).
Proof. intros name s. destruct s; simpl; rewrite ?comp_flag; reflexivity. Qed.

Lemma step_wr : forall s name, step s (AWriteRead name) = Ok s.
Proof. intros s name. destruct s; simpl; rewrite ?comp_flag; reflexivity. Qed.

(* ---------------------------------------------------------------------------------------------- *)
(* the main lemmas about one assignment                                                             *)
Lemma step_ok : forall s a s',
  step s a = Ok s' ->
  (is_wr a = true /\ s' = s) \/
  (is_wr a = false /\ exists r, convert s a = Some r /\ in_dom s r /\ stored s' = r /\
                                 domain_of s' = domain_of s /\ Inv s').
Proof.
  intros s a s' H. destruct (is_wr a) eqn:W.
  - left. destruct a; try discriminate W. rewrite step_wr in H. inversion H. split; reflexivity.
  - right. split; [reflexivity|]. rewrite (step_factor s a W) in H.
    destruct (convert s a) as [r|]; [|discriminate].
    exists r. split; [reflexivity|].
    destruct (upd_of_spec s r) as [[D (s2 & E & R & Dm & I2)]|[D E]]; rewrite E in H; [|discriminate].
    inversion H; subst. repeat split; assumption.
Qed.

Lemma step_accepts : forall s a r,
  is_wr a = false -> convert s a = Some r -> in_dom s r -> exists s', step s a = Ok s'.
Proof.
  intros s a r W C D. rewrite (step_factor s a W), C.
  destruct (upd_of_spec s r) as [[_ (s2 & E & _)]|[N _]]; [|contradiction].
  exists s2. exact E.
Qed.

Lemma step_throw : forall s a,
  step s a = Throw ->
  is_wr a = false /\ (convert s a = None \/ exists r, convert s a = Some r /\ ~ in_dom s r).
Proof.
  intros s a H. destruct (is_wr a) eqn:W.
  - destruct a; try discriminate W. rewrite step_wr in H. discriminate.
  - split; [reflexivity|]. rewrite (step_factor s a W) in H.
    destruct (convert s a) as [r|]; [|left; reflexivity].
    right. exists r. split; [reflexivity|].
    destruct (upd_of_spec s r) as [[_ (s2 & E & _)]|[N _]]; [rewrite E in H; discriminate|exact N].
Qed.

Lemma step_no_ub : forall s a, step s a <> UB.
Proof.
  intros s a. destruct (is_wr a) eqn:W.
  - destruct a; try discriminate W. rewrite step_wr. discriminate.
  - rewrite (step_factor s a W). destruct (convert s a) as [r|]; [|discriminate].
    destruct (upd_of_spec s r) as [[_ (s2 & E & _)]|[_ E]]; rewrite E; discriminate.
Qed.

(* a double that is not convertible (NaN, +-inf, v < -2^63 or v >= 2^63 -- as decided by the double comparisons of
   `convertible`) is rejected by integer and integer-pair parameters *)
Lemma nonconvertible_rejected :
  (forall v mn mx c1 c2 f, conv_i f = false -> step (SIRange v mn mx c1 c2) (AFlt f) = Throw) /\
  (forall v1 v2 mn mx c1 c2 c3 a b, conv_i a = false \/ conv_i b = false ->
     step (SIPair v1 v2 mn mx c1 c2 c3) (AFPair a b) = Throw).
Proof.
  split.
  - intros v mn mx c1 c2 f C. simpl. rewrite guard1_spec, C. reflexivity.
  - intros v1 v2 mn mx c1 c2 c3 a b C. simpl. rewrite guard2_spec.
    destruct C as [C|C]; rewrite C; [reflexivity|]. rewrite andb_false_r. reflexivity.
Qed.

Lemma step_inv : forall s a s', Inv s -> step s a = Ok s' -> Inv s' /\ domain_of s' = domain_of s.
Proof.
  intros s a s' I H. apply step_ok in H. destruct H as [[_ E]|[_ (r & _ & _ & _ & D & I2)]].
  - subst. split; [exact I|reflexivity].
  - split; assumption.
Qed.

Lemma make_spec : forall s,
  (Inv s /\ make s = Ok s) \/ (~ Inv s /\ make s = Throw).
Proof.
  intro s. destruct s; simpl; rewrite ?g1_id, ?g2_id.
  - left. split; [exact I|reflexivity].
  - destruct (upd_enum_spec dom v) as [[H E]|[H E]]; rewrite E; [left|right]; split; auto.
  - destruct (upd_i_spec mn mx cmin cmax v) as [[H E]|[H E]]; rewrite E; [left|right]; split; auto.
  - destruct (upd_f_spec mn mx cmin cmax v) as [[H E]|[H E]]; rewrite E; [left|right]; split; auto.
  - destruct (upd_ip_spec mn mx cmin cval cmax v1 v2) as [[H E]|[H E]]; rewrite E; [left|right]; split; auto.
  - destruct (upd_fp_spec mn mx cmin cval cmax v1 v2) as [[H E]|[H E]]; rewrite E; [left|right]; split; auto.
  - left. split; [exact I|reflexivity].
Qed.

(* what is still outside: make_integer called with doubles casts them unguarded (include/nano/parameter.h) *)
Lemma make_integer_d_ub : forall v mn mx c1 c2,
  make_integer_d v mn mx c1 c2 = UB <-> (f2i v = None \/ f2i mn = None \/ f2i mx = None).
Proof.
  intros v mn mx c1 c2. unfold make_integer_d.
  destruct (f2i v) as [v'|]; [|split; [intros _; left; reflexivity|reflexivity]].
  destruct (f2i mn) as [mn'|]; [|split; [intros _; right; left; reflexivity|reflexivity]].
  destruct (f2i mx) as [mx'|]; [|split; [intros _; right; right; reflexivity|reflexivity]].
  split.
  - intro H. destruct (make_spec (SIRange v' mn' mx' c1 c2)) as [[_ E]|[_ E]]; rewrite E in H; discriminate.
  - intros [H|[H|H]]; discriminate.
Qed.

(* histories *)
Lemma after_total : forall s a, exists s1, after s (step s a) = Some s1 /\ (step s a = Ok s1 \/ (step s a = Throw /\ s1 = s)).
Proof.
  intros s a. destruct (step s a) as [s1| |] eqn:E.
  - exists s1. split; [reflexivity|left; reflexivity].
  - exists s. split; [reflexivity|right; split; reflexivity].
  - exfalso. exact (step_no_ub s a E).
Qed.

Lemma run_inv : forall h s, Inv s -> exists s', run s h = Some s' /\ Inv s' /\ domain_of s' = domain_of s.
Proof.
  induction h as [|a h IH]; intros s I; simpl.
  - exists s. repeat split. exact I.
  - destruct (after_total s a) as (s1 & A & [E|[E Eq]]); rewrite A.
    + destruct (step_inv s a s1 I E) as [I1 D1]. destruct (IH s1 I1) as (s' & R & I2 & D2).
      exists s'. repeat split; [exact R|exact I2|]. rewrite D2. exact D1.
    + subst s1. apply IH. exact I.
Qed.

Lemma run_app : forall h1 h2 s, run s (h1 ++ h2) = match run s h1 with Some s1 => run s1 h2 | None => None end.
Proof.
  induction h1 as [|a h1 IH]; intros h2 s; simpl; [reflexivity|].
  destruct (after s (step s a)); [apply IH|reflexivity].
Qed.

(* ---------------------------------------------------------------------------------------------- *)
(* reads                                                                                            *)
Definition kind_scalar (s : storage) : bool :=
  match s with SIRange _ _ _ _ _ | SFRange _ _ _ _ _ => true | _ => false end.
Definition kind_pair (s : storage) : bool :=
  match s with SIPair _ _ _ _ _ _ _ | SFPair _ _ _ _ _ _ _ => true | _ => false end.
Definition kind_string (s : storage) : bool := match s with SString _ => true | _ => false end.
Definition kind_enum (s : storage) : bool := match s with SEnum _ _ => true | _ => false end.

Lemma natural_read_stored : forall s, natural_read s = stored s.
Proof. intro s. destruct s; reflexivity. Qed.

Lemma reads_mismatch : forall s,
  (kind_scalar s = false -> read_i64 s = RThrow /\ read_f64 s = RThrow) /\
  (kind_pair s = false -> read_ip s = RThrow /\ read_fp s = RThrow) /\
  (kind_string s = false -> read_str s = RThrow) /\
  (kind_enum s = false -> read_enum s = RThrow).
Proof. intro s. destruct s; simpl; repeat split; try reflexivity; easy. Qed.

Lemma reads_match : forall s,
  (kind_scalar s = true -> read_i64 s <> RThrow /\ read_f64 s <> RThrow) /\
  (kind_pair s = true -> read_ip s <> RThrow /\ read_fp s <> RThrow) /\
  (kind_string s = true -> read_str s <> RThrow) /\
  (kind_enum s = true -> read_enum s <> RThrow).
Proof.
  intro s. destruct s; simpl; repeat split; try easy;
    unfold rd_f2i; try (destruct (f2i v); easy).
  - destruct (f2i v1); [|easy]. destruct (f2i v2); easy.
Qed.

Lemma assign_mismatch : forall s,
  (kind_scalar s = false -> forall z f, step s (AInt z) = Throw /\ step s (AFlt f) = Throw) /\
  (kind_pair s = false -> forall a b x y, step s (AIPair a b) = Throw /\ step s (AFPair x y) = Throw) /\
  (kind_enum s = false -> forall v, step s (AEnum v) = Throw) /\
  (s = SNone -> forall v d0 d1 d2, step s (AStr v d0 d1 d2) = Throw).
Proof.
  intro s. destruct s; simpl; repeat split; intros; try reflexivity; easy.
Qed.

(* ---------------------------------------------------------------------------------------------- *)
(* configurable_t                                                                                   *)
Definition names (c : config) : list str := map pname c.
Definition CInv (c : config) : Prop := NoDup (names c) /\ Forall (fun p => Inv (pstore p)) c.

Lemma cfind_pos_cons : forall name p r,
  cfind_pos name (p :: r) = if str_eqb (pname p) name then 0 else 1 + cfind_pos name r.
Proof. reflexivity. Qed.
Lemma cfind_pos_nil : forall name, cfind_pos name [] = 0.
Proof. reflexivity. Qed.

Lemma cfind_pos_range : forall name c, 0 <= cfind_pos name c <= clen c.
Proof.
  intros name c. unfold clen. induction c as [|p r IH]; rewrite ?cfind_pos_cons, ?cfind_pos_nil; simpl length.
  - simpl. lia.
  - destruct (str_eqb (pname p) name); lia.
Qed.

Lemma cfind_absent : forall name c, cfind_pos name c = clen c <-> ~ In name (names c).
Proof.
  intros name c. unfold clen. induction c as [|p r IH]; rewrite ?cfind_pos_cons, ?cfind_pos_nil; simpl length; simpl names.
  - simpl. split; intro H; [intros []|reflexivity].
  - destruct (str_eqb (pname p) name) eqn:E.
    + apply str_eqb_eq in E. split; intro H; [lia|]. exfalso. apply H. left. exact E.
    + apply str_eqb_neq in E. pose proof (cfind_pos_range name r) as R. unfold clen in R. split; intro H.
      * intros [H1|H1]; [contradiction|]. apply IH in H1; [exact H1|lia].
      * assert (~ In name (names r)) as H2 by (intro H3; apply H; right; exact H3).
        apply IH in H2. lia.
Qed.

Lemma cfound_spec : forall name c, cfound name c = true <-> In name (names c).
Proof.
  intros name c. unfold cfound. destruct (cfind_pos name c =? clen c) eqn:E; simpl.
  - apply Z.eqb_eq in E. apply cfind_absent in E. split; [discriminate|contradiction].
  - apply Z.eqb_neq in E. split; [|reflexivity]. intros _.
    destruct (in_dec (list_eq_dec Z.eq_dec) name (names c)) as [H|H]; [exact H|].
    apply cfind_absent in H. contradiction.
Qed.

(* the parameter found by name: the first one carrying it *)
Lemma cfind_nth : forall name c,
  In name (names c) ->
  exists p, nth_error c (Z.to_nat (cfind_pos name c)) = Some p /\ pname p = name.
Proof.
  intros name c. induction c as [|p r IH]; rewrite ?cfind_pos_cons, ?cfind_pos_nil; simpl names; intro H.
  - destruct H.
  - destruct (str_eqb (pname p) name) eqn:E.
    + apply str_eqb_eq in E. exists p. split; [reflexivity|exact E].
    + apply str_eqb_neq in E. destruct H as [H|H]; [contradiction|].
      destruct (IH H) as (q & Hq & Nq). exists q. split; [|exact Nq].
      pose proof (cfind_pos_range name r) as R.
      replace (Z.to_nat (1 + cfind_pos name r)) with (S (Z.to_nat (cfind_pos name r))) by lia.
      exact Hq.
Qed.

Lemma cupdate_names : forall c i s, names (cupdate c i s) = names c.
Proof.
  induction c as [|p r IH]; intros i s; destruct i; simpl; try reflexivity.
  rewrite IH. reflexivity.
Qed.

Lemma cupdate_forall : forall (P : param -> Prop) c i s p,
  Forall P c -> nth_error c i = Some p -> P (mkParam (pname p) s) -> Forall P (cupdate c i s).
Proof.
  intros P. induction c as [|q r IH]; intros i s p F N H; destruct i; simpl in *; try discriminate.
  - inversion N; subst. inversion F; subst. constructor; assumption.
  - inversion F; subst. constructor; [assumption|]. apply (IH i s p); assumption.
Qed.

Lemma cupdate_nth_other : forall c i j s, i <> j -> nth_error (cupdate c i s) j = nth_error c j.
Proof.
  induction c as [|q r IH]; intros i j s N; destruct i; destruct j; simpl; try reflexivity.
  - contradiction.
  - apply IH. intro E. apply N. rewrite E. reflexivity.
Qed.

Lemma cupdate_nth_same : forall c i s p,
  nth_error c i = Some p -> nth_error (cupdate c i s) i = Some (mkParam (pname p) s).
Proof.
  induction c as [|q r IH]; intros i s p N; destruct i; simpl in *; try discriminate.
  - inversion N; subst. reflexivity.
  - apply IH. exact N.
Qed.

(* assignment through parameter(name) *)
Lemma cassign_unknown : forall c name a, ~ In name (names c) -> cassign c name a = CThrow.
Proof.
  intros c name a H. unfold cassign, src_find_throws. apply cfind_absent in H. rewrite H, Z.eqb_refl. reflexivity.
Qed.

Lemma cread_unknown : forall c name rd, ~ In name (names c) -> cread c name rd = RThrow.
Proof.
  intros c name rd H. unfold cread, src_find_throws_const. apply cfind_absent in H. rewrite H, Z.eqb_refl. reflexivity.
Qed.

Lemma cassign_known : forall c name a,
  In name (names c) ->
  exists p, nth_error c (Z.to_nat (cfind_pos name c)) = Some p /\ pname p = name /\
            cassign c name a = match step (pstore p) a with
                               | Ok s' => COk (cupdate c (Z.to_nat (cfind_pos name c)) s')
                               | Throw => CThrow
                               | UB => CUB
                               end.
Proof.
  intros c name a H. destruct (cfind_nth name c H) as (p & Hp & Np). exists p. split; [exact Hp|]. split; [exact Np|].
  unfold cassign, src_find_throws.
  destruct (cfind_pos name c =? clen c) eqn:E.
  - apply Z.eqb_eq in E. apply cfind_absent in E. contradiction.
  - simpl. rewrite Hp. reflexivity.
Qed.

Lemma cread_known : forall c name rd,
  In name (names c) ->
  exists p, nth_error c (Z.to_nat (cfind_pos name c)) = Some p /\ pname p = name /\ cread c name rd = rd (pstore p).
Proof.
  intros c name rd H. destruct (cfind_nth name c H) as (p & Hp & Np). exists p. split; [exact Hp|]. split; [exact Np|].
  unfold cread, src_find_throws_const.
  destruct (cfind_pos name c =? clen c) eqn:E.
  - apply Z.eqb_eq in E. apply cfind_absent in E. contradiction.
  - simpl. rewrite Hp. reflexivity.
Qed.

Lemma cstep_inv : forall c o c', CInv c -> cstep c o = COk c' -> CInv c'.
Proof.
  intros c o c' [ND FA] H. destruct o as [name a|name s]; simpl in H.
  - destruct (in_dec (list_eq_dec Z.eq_dec) name (names c)) as [K|K].
    + destruct (cassign_known c name a K) as (p & Hp & Np & E). rewrite E in H.
      destruct (step (pstore p) a) as [s'| |] eqn:S; try discriminate. inversion H; subst c'.
      split.
      * rewrite cupdate_names. exact ND.
      * apply (cupdate_forall _ c _ s' p FA Hp). simpl.
        assert (Inv (pstore p)) as Ip.
        { rewrite Forall_forall in FA. apply FA. apply nth_error_In with (n := Z.to_nat (cfind_pos name c)). exact Hp. }
        apply (step_inv _ _ _ Ip S).
    + rewrite (cassign_unknown c name a K) in H. discriminate.
  - destruct (make_spec s) as [[Is E]|[Is E]]; rewrite E in H; [|discriminate].
    unfold cregister in H. simpl in H. destruct (cfound name c) eqn:F; [discriminate|].
    inversion H; subst c'. split.
    + unfold names. rewrite map_app. simpl.
      assert (~ In name (names c)) as K.
      { intro K. apply cfound_spec in K. rewrite K in F. discriminate. }
      clear - ND K. unfold names in *. induction (map pname c) as [|x l IH]; simpl.
      * constructor; [intros []|constructor].
      * inversion ND; subst. constructor.
        -- rewrite in_app_iff. intros [H|[H|[]]]; [contradiction|]. apply K. left. symmetry. exact H.
        -- apply IH; [assumption|]. intro H. apply K. right. exact H.
    + apply Forall_app. split; [exact FA|]. constructor; [exact Is|constructor].
Qed.

Lemma crun_inv : forall h c c', CInv c -> crun c h = Some c' -> CInv c'.
Proof.
  induction h as [|o h IH]; intros c c' I H; simpl in H.
  - inversion H; subst. exact I.
  - destruct (cstep c o) as [c1| |] eqn:E; simpl in H.
    + apply (IH c1); [apply (cstep_inv c o c1 I E)|exact H].
    + apply (IH c); assumption.
    + discriminate.
Qed.

Lemma cstep_no_ub : forall c o, cstep c o <> CUB.
Proof.
  intros c o. destruct o as [name a|name s]; simpl.
  - unfold cassign. destruct (src_find_throws true (cfind_pos name c) (clen c)); [discriminate|].
    destruct (nth_error c (Z.to_nat (cfind_pos name c))) as [p|]; [|discriminate].
    destruct (step (pstore p) a) eqn:E; try discriminate. exfalso. exact (step_no_ub _ _ E).
  - destruct (make_spec s) as [[_ E]|[_ E]]; rewrite E; [|discriminate].
    destruct (cregister c (mkParam name s)); discriminate.
Qed.

Lemma crun_total_inv : forall h c, CInv c -> exists c', crun c h = Some c' /\ CInv c'.
Proof.
  induction h as [|o h IH]; intros c I; simpl.
  - exists c. split; [reflexivity|exact I].
  - destruct (cstep c o) as [c1| |] eqn:E; simpl.
    + apply IH. exact (cstep_inv c o c1 I E).
    + apply IH. exact I.
    + exfalso. exact (cstep_no_ub c o E).
Qed.

Lemma CInv_nil : CInv [].
Proof. split; constructor. Qed.

(* frame: an assignment changes the value of the addressed parameter only *)
Lemma cassign_frame : forall c name a c',
  cassign c name a = COk c' ->
  names c' = names c /\
  exists i p s', nth_error c i = Some p /\ pname p = name /\ step (pstore p) a = Ok s' /\
                 nth_error c' i = Some (mkParam name s') /\
                 forall j, j <> i -> nth_error c' j = nth_error c j.
Proof.
  intros c name a c' H.
  destruct (in_dec (list_eq_dec Z.eq_dec) name (names c)) as [K|K].
  - destruct (cassign_known c name a K) as (p & Hp & Np & E). rewrite E in H.
    destruct (step (pstore p) a) as [s'| |] eqn:S; try discriminate. inversion H; subst c'.
    split; [apply cupdate_names|].
    exists (Z.to_nat (cfind_pos name c)), p, s'. repeat split; try assumption.
    + rewrite (cupdate_nth_same c _ s' p Hp). rewrite Np. reflexivity.
    + intros j N. apply cupdate_nth_other. intro E2. apply N. symmetry. exact E2.
  - rewrite (cassign_unknown c name a K) in H. discriminate.
Qed.

(* ---------------------------------------------------------------------------------------------- *)
(* clones                                                                                           *)
Lemma supdate_length : forall st i c, length (supdate st i c) = length st.
Proof. induction st as [|x r IH]; intros i c; destruct i; simpl; try reflexivity. rewrite IH. reflexivity. Qed.

Lemma supdate_nth_other : forall st i j c, i <> j -> nth_error (supdate st i c) j = nth_error st j.
Proof.
  induction st as [|x r IH]; intros i j c N; destruct i; destruct j; simpl; try reflexivity.
  - contradiction.
  - apply IH. intro E. apply N. rewrite E. reflexivity.
Qed.

Lemma supdate_nth_same : forall st i c, (i < length st)%nat -> nth_error (supdate st i c) i = Some c.
Proof.
  induction st as [|x r IH]; intros i c L; destruct i; simpl in *; try lia; try reflexivity.
  apply IH. lia.
Qed.

Lemma sclone_spec : forall st i c,
  nth_error st i = Some c ->
  nth_error (sclone st i) (length st) = Some c /\
  length (sclone st i) = S (length st) /\
  forall j, (j < length st)%nat -> nth_error (sclone st i) j = nth_error st j.
Proof.
  intros st i c H. unfold sclone. rewrite H. repeat split.
  - rewrite nth_error_app2 by lia. rewrite Nat.sub_diag. reflexivity.
  - rewrite app_length. simpl. lia.
  - intros j L. apply nth_error_app1. exact L.
Qed.

Definition targets (o : sop) (j : nat) : bool :=
  match o with SOp i _ => Nat.eqb i j | SClone _ => false end.

Lemma sstep_other : forall st o st' j,
  (j < length st)%nat -> targets o j = false -> sstep st o = Some st' ->
  nth_error st' j = nth_error st j /\ (length st <= length st')%nat.
Proof.
  intros st o st' j L T H. destruct o as [i co|i]; simpl in *.
  - destruct (nth_error st i) as [c|] eqn:E.
    + destruct (cafter c (cstep c co)) as [c1|]; [|discriminate]. inversion H; subst.
      split; [|rewrite supdate_length; lia]. apply supdate_nth_other. intro E2. subst. rewrite Nat.eqb_refl in T. discriminate.
    + inversion H; subst. split; [reflexivity|lia].
  - inversion H; subst. unfold sclone. destruct (nth_error st i) as [c|].
    + split; [apply nth_error_app1; exact L|rewrite app_length; simpl; lia].
    + split; [reflexivity|lia].
Qed.

Lemma srun_other : forall h st st' j,
  (j < length st)%nat -> forallb (fun o => negb (targets o j)) h = true -> srun st h = Some st' ->
  nth_error st' j = nth_error st j.
Proof.
  induction h as [|o h IH]; intros st st' j L T H; simpl in *.
  - inversion H; subst. reflexivity.
  - apply andb_true_iff in T. destruct T as [T1 T2]. apply negb_true_iff in T1.
    destruct (sstep st o) as [st1|] eqn:E; [|discriminate].
    destruct (sstep_other st o st1 j L T1 E) as [N1 L1].
    rewrite <- N1. apply IH; [lia|exact T2|exact H].
Qed.

(* ---------------------------------------------------------------------------------------------- *)
(* tokenizer / split_pair                                                                           *)
Definition no_delim (t : str) : Prop := Forall (fun c => is_delim c = false) t.
Definition all_delim (t : str) : Prop := Forall (fun c => is_delim c = true) t.

Lemma tokens_aux_token : forall t cur rest,
  no_delim t -> tokens_aux (t ++ rest) cur = tokens_aux rest (rev t ++ cur).
Proof.
  induction t as [|c t IH]; intros cur rest N; simpl; [reflexivity|].
  inversion N; subst. rewrite H1. rewrite IH by assumption. rewrite <- app_assoc. reflexivity.
Qed.

Lemma tokens_aux_delims : forall d rest, all_delim d -> tokens_aux (d ++ rest) [] = tokens_aux rest [].
Proof.
  induction d as [|c d IH]; intros rest A; simpl; [reflexivity|].
  inversion A; subst. rewrite H1. apply IH. assumption.
Qed.

Lemma tokens_cons : forall t d rest,
  no_delim t -> t <> [] -> all_delim d -> d <> [] ->
  tokens_aux (t ++ d ++ rest) [] = t :: tokens_aux rest [].
Proof.
  intros t d rest N NE A DE. rewrite tokens_aux_token by assumption. rewrite app_nil_r.
  destruct d as [|c d]; [contradiction|]. inversion A; subst. simpl. rewrite H1.
  destruct (rev t) eqn:R.
  - exfalso. apply NE. rewrite <- (rev_involutive t), R. reflexivity.
  - rewrite <- R, rev_involutive. f_equal. apply tokens_aux_delims. assumption.
Qed.

Lemma tokens_last : forall t, no_delim t -> t <> [] -> tokens_aux t [] = [t].
Proof.
  intros t N NE. rewrite <- (app_nil_r t) at 1. rewrite tokens_aux_token by assumption. simpl. rewrite app_nil_r.
  destruct (rev t) eqn:R.
  - exfalso. apply NE. rewrite <- (rev_involutive t), R. reflexivity.
  - rewrite <- R, rev_involutive. reflexivity.
Qed.

(* a list of non-empty delimiter-free tokens joined (and optionally surrounded) by non-empty delimiter runs *)
Fixpoint joined (ts : list str) (d : str) : str :=
  match ts with
  | [] => []
  | [t] => t
  | t :: r => t ++ d ++ joined r d
  end.

Lemma tokens_joined : forall ts d,
  Forall (fun t => no_delim t /\ t <> []) ts -> all_delim d -> d <> [] ->
  tokens (joined ts d) = ts.
Proof.
  unfold tokens. induction ts as [|t r IH]; intros d F A DE; [reflexivity|].
  inversion F as [|? ? [N NE] Fr]; subst. destruct r as [|t2 r].
  - simpl. apply tokens_last; assumption.
  - change (joined (t :: t2 :: r) d) with (t ++ d ++ joined (t2 :: r) d).
    rewrite tokens_cons by assumption. f_equal. apply IH; assumption.
Qed.

Lemma split_pair_joined : forall t1 ts d pre post,
  Forall (fun t => no_delim t /\ t <> []) (t1 :: ts) -> all_delim d -> d <> [] -> all_delim pre -> all_delim post ->
  split_pair (pre ++ joined (t1 :: ts) d ++ post) = (t1, last ts []).
Proof.
  intros t1 ts d pre post F A DE P Q. unfold split_pair, tokens.
  rewrite tokens_aux_delims by assumption.
  assert (tokens_aux (joined (t1 :: ts) d ++ post) [] = t1 :: ts) as E.
  { clear P pre. revert t1 F. induction ts as [|t2 r IH]; intros t1 F.
    - inversion F as [|? ? [N NE] _]; subst. simpl joined.
      destruct post as [|c post].
      + rewrite app_nil_r. apply tokens_last; assumption.
      + replace (t1 ++ c :: post) with (t1 ++ (c :: post) ++ []) by (rewrite app_nil_r; reflexivity).
        rewrite (tokens_cons t1 (c :: post) []); try assumption; [reflexivity|discriminate].
    - inversion F as [|? ? [N NE] Fr]; subst.
      change (joined (t1 :: t2 :: r) d) with (t1 ++ d ++ joined (t2 :: r) d).
      rewrite <- !app_assoc. rewrite tokens_cons by assumption. f_equal. apply IH. exact Fr. }
  rewrite E. reflexivity.
Qed.

(* ---------------------------------------------------------------------------------------------- *)
(* std::stoll on plain decimal text                                                                 *)
Fixpoint dec_value (ds : str) (acc : Z) : Z :=
  match ds with
  | [] => acc
  | c :: r => dec_value r (10 * acc + (c - 48))
  end.

Definition all_digits (ds : str) : Prop := Forall (fun c => is_digit c = true) ds.
Definition stops (rest : str) : Prop := match rest with [] => True | c :: _ => is_digit c = false end.

Lemma digits_run : forall ds rest acc seen,
  all_digits ds -> stops rest -> ds <> [] \/ seen = true ->
  digits (ds ++ rest) acc seen = (dec_value ds acc, true).
Proof.
  induction ds as [|c ds IH]; intros rest acc seen A S NE; cbn [app dec_value].
  - destruct NE as [NE|NE]; [contradiction|]. subst. destruct rest as [|c r]; [reflexivity|].
    unfold stops in S. cbn [digits]. rewrite S. reflexivity.
  - inversion A; subst. cbn [digits app]. rewrite H1. apply IH; [assumption|assumption|right; reflexivity].
Qed.

Lemma skip_ws_spaces : forall ws rest,
  Forall (fun c => is_space c = true) ws -> match rest with [] => True | c :: _ => is_space c = false end ->
  skip_ws (ws ++ rest) = rest.
Proof.
  induction ws as [|c ws IH]; intros rest F S; simpl.
  - destruct rest as [|c r]; [reflexivity|]. simpl. rewrite S. reflexivity.
  - inversion F; subst. rewrite H1. apply IH; assumption.
Qed.

Lemma digit_not_space : forall c, is_digit c = true -> is_space c = false.
Proof.
  intros c H. unfold is_digit in H. unfold is_space. apply andb_true_iff in H. destruct H as [H1 H2].
  apply Z.leb_le in H1. apply Z.leb_le in H2.
  destruct (c =? 32) eqn:E1; [apply Z.eqb_eq in E1; lia|].
  destruct (9 <=? c) eqn:E2; destruct (c <=? 13) eqn:E3; try reflexivity.
  apply Z.leb_le in E3. lia.
Qed.

Lemma digit_not_sign : forall c, is_digit c = true -> c <> 45 /\ c <> 43.
Proof.
  intros c H. unfold is_digit in H. apply andb_true_iff in H. destruct H as [H1 H2].
  apply Z.leb_le in H1. apply Z.leb_le in H2. lia.
Qed.

(* optional white space, optional sign, a non-empty run of digits, then anything not starting with a digit *)
Definition sign_str (neg : option bool) : str :=
  match neg with None => [] | Some true => [45] | Some false => [43] end.
Definition sign_neg (neg : option bool) : bool := match neg with Some true => true | _ => false end.

Lemma strip_sign_other : forall c r, c <> 45 -> c <> 43 -> strip_sign (c :: r) = (false, c :: r).
Proof.
  intros c r N1 N2. unfold strip_sign.
  destruct (c =? 45) eqn:E1; [apply Z.eqb_eq in E1; contradiction|].
  destruct (c =? 43) eqn:E2; [apply Z.eqb_eq in E2; contradiction|]. reflexivity.
Qed.

Lemma stoll_decimal : forall ws neg ds rest,
  Forall (fun c => is_space c = true) ws -> all_digits ds -> ds <> [] -> stops rest ->
  stoll (ws ++ sign_str neg ++ ds ++ rest) =
    let z := if sign_neg neg then - dec_value ds 0 else dec_value ds 0 in
    if in_int64 z then PVal z else PRange.
Proof.
  intros ws neg ds rest W A NE S. unfold stoll.
  destruct ds as [|d0 ds]; [contradiction|]. inversion A as [|? ? D0 A']; subst.
  assert (skip_ws (ws ++ sign_str neg ++ (d0 :: ds) ++ rest) = sign_str neg ++ (d0 :: ds) ++ rest) as E.
  { apply skip_ws_spaces; [exact W|]. destruct neg as [[|]|]; simpl; try reflexivity. apply digit_not_space. exact D0. }
  rewrite E. destruct (digit_not_sign d0 D0) as [N1 N2].
  pose proof (digits_run (d0 :: ds) rest 0 false A S (or_introl NE)) as DR.
  destruct neg as [[|]|]; simpl sign_str; simpl sign_neg; cbv zeta.
  - change ([45] ++ (d0 :: ds) ++ rest) with (45 :: (d0 :: ds) ++ rest).
    change (strip_sign (45 :: (d0 :: ds) ++ rest)) with (true, (d0 :: ds) ++ rest).
    cbv iota beta. rewrite DR. reflexivity.
  - change ([43] ++ (d0 :: ds) ++ rest) with (43 :: (d0 :: ds) ++ rest).
    change (strip_sign (43 :: (d0 :: ds) ++ rest)) with (false, (d0 :: ds) ++ rest).
    cbv iota beta. rewrite DR. reflexivity.
  - change ([] ++ (d0 :: ds) ++ rest) with (d0 :: (ds ++ rest)).
    rewrite (strip_sign_other d0 (ds ++ rest) N1 N2).
    change (d0 :: ds ++ rest) with ((d0 :: ds) ++ rest). cbv iota beta. rewrite DR. reflexivity.
Qed.

Lemma stoll_no_digits : forall ws neg rest,
  Forall (fun c => is_space c = true) ws -> stops rest ->
  match rest with [] => True | c :: _ => is_space c = false /\ (neg = None -> c <> 45 /\ c <> 43) end ->
  stoll (ws ++ sign_str neg ++ rest) = PInvalid.
Proof.
  intros ws neg rest W S NS. unfold stoll.
  assert (skip_ws (ws ++ sign_str neg ++ rest) = sign_str neg ++ rest) as E.
  { apply skip_ws_spaces; [exact W|]. destruct neg as [[|]|]; simpl; try reflexivity.
    destruct rest as [|c r]; [exact I|apply NS]. }
  rewrite E.
  assert (forall r, stops r -> digits r 0 false = (0, false)) as D.
  { intros r Sr. destruct r as [|c r]; [reflexivity|]. unfold stops in Sr. cbn [digits]. rewrite Sr. reflexivity. }
  destruct neg as [[|]|]; simpl sign_str.
  - change ([45] ++ rest) with (45 :: rest). change (strip_sign (45 :: rest)) with (true, rest).
    cbv iota beta. rewrite (D rest S). reflexivity.
  - change ([43] ++ rest) with (43 :: rest). change (strip_sign (43 :: rest)) with (false, rest).
    cbv iota beta. rewrite (D rest S). reflexivity.
  - simpl app. destruct rest as [|c r]; [reflexivity|].
    destruct NS as [_ NS]. destruct (NS eq_refl) as [N1 N2].
    rewrite (strip_sign_other c r N1 N2). cbv iota beta. rewrite (D (c :: r) S). reflexivity.
Qed.

(* ---------------------------------------------------------------------------------------------- *)
(* double constants for the non-vacuity examples of Properties_C19 (which does not import Floats, so that
   Print Assumptions prints the primitives with their qualified names) *)
Definition fx_0 : float := 0%float.
Definition fx_025 : float := 0.25%float.
Definition fx_05 : float := 0.5%float.
Definition fx_075 : float := 0.75%float.
Definition fx_1 : float := 1%float.
Definition fx_1up : float := 0x1.0000000000001p+0%float.
Definition fx_2 : float := 2%float.
Definition fx_2_7 : float := 0x1.599999999999ap+1%float.
Definition fx_2p53 : float := 0x1p+53%float.
Definition fx_2p63 : float := 0x1p+63%float.
Definition fx_m2p63 : float := (-0x1p+63)%float.

(* ---------------------------------------------------------------------------------------------- *)
(* int64 <-> double conversions: the general exactness statement is NOT proved (it needs the IEEE semantics of
   of_uint63/frshiftexp); it is checked by computation on boundary points here and bit-exactly against static_cast on
   every numeric case of every run *)
Definition int_roundtrip_full_statement : Prop :=
  forall z, - 2 ^ 53 <= z <= 2 ^ 53 -> f2i (i2f z) = Some z.

Definition rt_ok (z : Z) : bool := match f2i (i2f z) with Some t => t =? z | None => false end.
Definition rt_points : list Z :=
  let small := map Z.of_nat (seq 0 300) in
  let pows := flat_map (fun k => [2 ^ Z.of_nat k - 1; 2 ^ Z.of_nat k; 2 ^ Z.of_nat k + 1]) (seq 1 52) in
  let all := small ++ pows ++ [2 ^ 53 - 1; 2 ^ 53; 999999999999; 4503599627370497] in
  all ++ map Z.opp all.

Lemma rt_points_ok : forallb rt_ok rt_points = true.
Proof. vm_compute. reflexivity. Qed.

Lemma int_roundtrip_points : Forall (fun z => - 2 ^ 53 <= z <= 2 ^ 53 /\ f2i (i2f z) = Some z) rt_points.
Proof.
  apply Forall_forall. intros z H. split.
  - assert (forallb (fun z => (- 2 ^ 53 <=? z) && (z <=? 2 ^ 53)) rt_points = true) as R by (vm_compute; reflexivity).
    rewrite forallb_forall in R. specialize (R z H). apply andb_true_iff in R. destruct R as [R1 R2].
    apply Z.leb_le in R1. apply Z.leb_le in R2. split; assumption.
  - pose proof rt_points_ok as R. rewrite forallb_forall in R. specialize (R z H). unfold rt_ok in R.
    destruct (f2i (i2f z)) as [t|]; [|discriminate]. apply Z.eqb_eq in R. subst. reflexivity.
Qed.
