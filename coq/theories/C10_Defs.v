(* C10 -- executable model of the weak learners of src/wlearner/*.cpp over exact rationals (Q).

   * a fitting problem is, per feature, the column gathered over the selected samples (in the order of
     the sample list, repetitions included): [(Some value | None = missing, residual vector)]; the residual
     of a sample is minus its gradient (accumulator_t::update does r1 -= vgrad, rx -= vgrad * value,
     r2 += vgrad * vgrad), one entry per output;
   * [mom] are the moment accumulators x0,x1,x2,r1,rx,r2 of accumulator_t (one record per output, the
     x-moments are repeated in every record); [sweep] is the sorted sweep of stump.cpp / hinge.cpp with the
     running accumulator m_acc_neg, a candidate being evaluated only where value(i) < value(i+1);
   * [clamp floor] is make_score(rss, ...) = std::max(rss, epsilon * 1e+3) for the RSS criterion;
   * [better]/[best_of] is the strict `score < m_score` update followed by min_reduce;
   * the second half models the fitted learners: predict (adds to the outputs), split (group), scale, merge
     (incl. the early break of wlearner::merge), std::lower_bound as used by nano::find on the stored hashes,
     and the node walk of dtree_wlearner_t::do_split; the integer expressions come from the source
     (LNGen.Src_c10, regenerated on every run).
   No proofs here. *)
From Coq Require Import List ZArith QArith Bool.
From LNGen Require Import Src_c10.
Import ListNotations.
Local Open Scope Q_scope.

(* ---- basics ---------------------------------------------------------------------------------------- *)
Definition qlt (a b : Q) : bool := negb (Qle_bool b a).
Definition qsum (l : list Q) : Q := fold_right Qplus 0 l.
Definition tab {A : Type} (n : nat) (f : nat -> A) : list A := map f (seq 0 n).
Definition rget (o : nat) (rs : list Q) : Q := nth o rs 0.

(* make_score for the RSS criterion: std::max(rss, floor) = (rss < floor) ? floor : rss *)
Definition clamp (floor s : Q) : Q := if qlt s floor then floor else s.

(* `if (score < cache.m_score) cache.m_score = score`, None = no_fit_score *)
Definition better (best : option Q) (s : Q) : option Q :=
  match best with
  | None => Some s
  | Some b => if qlt s b then Some s else Some b
  end.
Definition best_of (l : list Q) : option Q := fold_left better l None.

(* ---- insertion sort by a rational key (std::sort of the (value, sample) pairs / of the deltas) ---- *)
Section ISort.
  Variable A : Type.
  Variable key : A -> Q.
  Fixpoint insert (a : A) (l : list A) : list A :=
    match l with
    | [] => [a]
    | b :: t => if Qle_bool (key a) (key b) then a :: l else b :: insert a t
    end.
  Fixpoint isort (l : list A) : list A :=
    match l with
    | [] => []
    | a :: t => insert a (isort t)
    end.
End ISort.
Arguments insert {A}.
Arguments isort {A}.

(* ---- moment accumulators ----------------------------------------------------------------------------- *)
Record mom := mkmom { m_x0 : Q; m_x1 : Q; m_x2 : Q; m_r1 : Q; m_rx : Q; m_r2 : Q }.
Definition mom0 : mom := mkmom 0 0 0 0 0 0.
(* accumulator_t::update(value, vgrad) with r = -vgrad *)
Definition mom_add (m : mom) (x r : Q) : mom :=
  mkmom (m_x0 m + 1) (m_x1 m + x) (m_x2 m + x * x) (m_r1 m + r) (m_rx m + r * x) (m_r2 m + r * r).
(* x0_pos() = m_acc_sum.x0() - m_acc_neg.x0(), ... *)
Definition mom_sub (a b : mom) : mom :=
  mkmom (m_x0 a - m_x0 b) (m_x1 a - m_x1 b) (m_x2 a - m_x2 b) (m_r1 a - m_r1 b) (m_rx a - m_rx b) (m_r2 a - m_r2 b).

Definition row := (Q * list Q)%type.          (* present feature value, residual vector *)
Definition vmom := list mom.                   (* one record per output *)
Definition vget (o : nat) (v : vmom) : mom := nth o v mom0.
Definition vmom0 (no : nat) : vmom := tab no (fun _ => mom0).
Definition vupd (no : nat) (v : vmom) (e : row) : vmom :=
  tab no (fun o => mom_add (vget o v) (fst e) (rget o (snd e))).
Definition vmom_of (no : nat) (l : list row) : vmom := fold_left (vupd no) l (vmom0 no).

(* a gathered column: key (scalar value or class hash) or missing, and the residual vector *)
Definition col (K : Type) := list (option K * list Q).
Fixpoint present {K : Type} (c : col K) : list (K * list Q) :=
  match c with
  | [] => []
  | (Some x, rs) :: t => (x, rs) :: present t
  | (None, _) :: t => present t
  end.
Definition sq_norm (no : nat) (rs : list Q) : Q := qsum (tab no (fun o => rget o rs * rget o rs)).
(* missing_rss += gradients.array(sample).square().sum() *)
Fixpoint miss_rss {K : Type} (no : nat) (c : col K) : Q :=
  match c with
  | [] => 0
  | (None, rs) :: t => sq_norm no rs + miss_rss no t
  | (Some _, _) :: t => miss_rss no t
  end.

(* ---- the sorted sweep (stump.cpp / hinge.cpp do_fit) ---------------------------------------------------- *)
Fixpoint sweep {B : Type} (no : nat) (emit : Q -> vmom -> list B) (acc : vmom) (l : list row) : list B :=
  match l with
  | [] => []
  | e1 :: tl =>
      match tl with
      | [] => []
      | e2 :: _ =>
          let acc' := vupd no acc e1 in
          (if qlt (fst e1) (fst e2) then emit ((1 # 2) * (fst e1 + fst e2)) acc' else [])
            ++ sweep no emit acc' tl
      end
  end.

(* candidate: threshold, direction (true = isleft hinge; always true for stumps), clamped score *)
Definition cand := (Q * bool * Q)%type.
Definition c_thr (c : cand) : Q := fst (fst c).
Definition c_dir (c : cand) : bool := snd (fst c).
Definition c_score (c : cand) : Q := snd c.

(* ---- stump ------------------------------------------------------------------------------------------ *)
(* ::score(r0, r1, r2, outputs) with outputs = r1 / r0 *)
Definition rss_const (m : mom) : Q :=
  let o := m_r1 m / m_x0 m in m_r2 m + o * o * m_x0 m - 2 * o * m_r1 m.
Definition stump_rss (no : nat) (tot neg : vmom) (miss : Q) : Q :=
  qsum (tab no (fun o => rss_const (vget o neg) + rss_const (mom_sub (vget o tot) (vget o neg)))) + miss.
Definition stump_cands (no : nat) (floor : Q) (c : col Q) : list cand :=
  let rows := present c in
  let tot := vmom_of no rows in
  let miss := miss_rss no c in
  sweep no (fun thr neg => [(thr, true, clamp floor (stump_rss no tot neg miss))]) (vmom0 no) (isort fst rows).
Definition stump_fit (no : nat) (floor : Q) (cs : list (col Q)) : option Q :=
  best_of (map c_score (flat_map (stump_cands no floor) cs)).
(* the fitted tables at a cut *)
Definition mean_of (m : mom) : Q := m_r1 m / m_x0 m.

(* ---- hinge ------------------------------------------------------------------------------------------ *)
Definition hdenom (m : mom) (t : Q) : Q := m_x2 m + m_x0 m * t * t - 2 * m_x1 m * t.
Definition hbeta (m : mom) (t : Q) : Q := (m_rx m - m_r1 m * t) / hdenom m t.
Definition hscore (m : mom) (t beta : Q) : Q :=
  m_r2 m + beta * beta * (m_x2 m + m_x0 m * (t * t) - 2 * m_x1 m * t) - 2 * beta * (m_rx m - m_r1 m * t).
Definition hinge_rss_left (no : nat) (tot neg : vmom) (miss t : Q) : Q :=
  qsum (tab no (fun o => hscore (vget o neg) t (hbeta (vget o neg) t)
                         + hscore (mom_sub (vget o tot) (vget o neg)) t 0)) + miss.
Definition hinge_rss_right (no : nat) (tot neg : vmom) (miss t : Q) : Q :=
  qsum (tab no (fun o => hscore (vget o neg) t 0
                         + hscore (mom_sub (vget o tot) (vget o neg)) t (hbeta (mom_sub (vget o tot) (vget o neg)) t))) + miss.
Definition hinge_cands (no : nat) (floor : Q) (c : col Q) : list cand :=
  let rows := present c in
  let tot := vmom_of no rows in
  let miss := miss_rss no c in
  sweep no (fun thr neg => [(thr, true, clamp floor (hinge_rss_left no tot neg miss thr));
                            (thr, false, clamp floor (hinge_rss_right no tot neg miss thr))])
        (vmom0 no) (isort fst rows).
Definition hinge_fit (no : nat) (floor : Q) (cs : list (col Q)) : option Q :=
  best_of (map c_score (flat_map (hinge_cands no floor) cs)).

(* ---- affine ----------------------------------------------------------------------------------------- *)
Definition adet (m : mom) : Q := m_x2 m * m_x0 m - m_x1 m * m_x1 m.
Definition aw (m : mom) : Q := (m_rx m * m_x0 m - m_r1 m * m_x1 m) / adet m.
Definition ab (m : mom) : Q := (m_r1 m * m_x2 m - m_rx m * m_x1 m) / adet m.
Definition arss (m : mom) (w b : Q) : Q :=
  m_r2 m + w * w * m_x2 m + b * b * m_x0 m - 2 * w * m_rx m - 2 * b * m_r1 m + 2 * w * b * m_x1 m.
Definition affine_rss (no : nat) (v : vmom) (miss : Q) : Q :=
  qsum (tab no (fun o => arss (vget o v) (aw (vget o v)) (ab (vget o v)))) + miss.
(* a zero determinant gives a non-finite score in the code: the feature is skipped *)
Definition affine_cands (no : nat) (floor : Q) (c : col Q) : list Q :=
  let v := vmom_of no (present c) in
  if Qeq_bool (adet (vget 0 v)) 0 then [] else [clamp floor (affine_rss no v (miss_rss no c))].
Definition affine_fit (no : nat) (floor : Q) (cs : list (col Q)) : option Q :=
  best_of (flat_map (affine_cands no floor) cs).

(* ---- look-up tables ---------------------------------------------------------------------------------- *)
(* the distinct hashes in increasing order (std::set<uint64_t>) *)
Fixpoint zinsert (k : Z) (l : list Z) : list Z :=
  match l with
  | [] => [k]
  | h :: t => if (k <? h)%Z then k :: l else if (k =? h)%Z then l else h :: zinsert k t
  end.
Definition keys_of (rows : list (Z * list Q)) : list Z := fold_right zinsert [] (map fst rows).
(* the samples of one bin (no feature moments are accumulated: update(vgrad, bin)) *)
Definition krows (k : Z) (rows : list (Z * list Q)) : list row :=
  map (fun e => (0, snd e)) (filter (fun e => (fst e =? k)%Z) rows).
Definition bin_mom (no : nat) (rows : list (Z * list Q)) (k : Z) : vmom := vmom_of no (krows k rows).
(* table cache_t::score(bin) *)
Definition bin_rss (m : mom) : Q := m_r2 m - m_r1 m * m_r1 m / m_x0 m.
Definition vbin_rss (no : nat) (v : vmom) : Q := qsum (tab no (fun o => bin_rss (vget o v))).
Definition dense_rss (no : nat) (c : col Z) : Q :=
  let rows := present c in
  miss_rss no c + qsum (map (fun k => vbin_rss no (bin_mom no rows k)) (keys_of rows)).
Definition dense_cands (no : nat) (floor : Q) (c : col Z) : list Q := [clamp floor (dense_rss no c)].
Definition dense_fit (no : nat) (floor : Q) (cs : list (col Z)) : option Q :=
  best_of (flat_map (dense_cands no floor) cs).

(* accumulator_t::sort(): -r1(bin).square().sum() / x0(bin), ascending *)
Definition bin_delta (no : nat) (v : vmom) : Q :=
  - (qsum (tab no (fun o => m_r1 (vget o v) * m_r1 (vget o v))) / m_x0 (vget 0 v)).
Definition vbin_r2 (no : nat) (v : vmom) : Q := qsum (tab no (fun o => m_r2 (vget o v))).
Fixpoint prefix_sums (s : Q) (l : list Q) : list Q :=
  match l with
  | [] => []
  | d :: t => (s + d) :: prefix_sums (s + d) t
  end.
Definition kbest_rss_seq (no : nat) (maxk : Z) (c : col Z) : list Q :=
  let rows := present c in
  let bins := map (bin_mom no rows) (keys_of rows) in
  let deltas := isort (fun d => d) (map (bin_delta no) bins) in
  let rss0 := miss_rss no c + qsum (map (vbin_r2 no) bins) in
  let kmax := src_c10_max_kbest maxk (Z.of_nat (length bins)) in
  prefix_sums rss0 (firstn (Z.to_nat kmax) deltas).
Definition kbest_cands (no : nat) (floor : Q) (maxk : Z) (c : col Z) : list Q :=
  map (clamp floor) (kbest_rss_seq no maxk c).
(* maxk = -1: k-best table, maxk = 1: discrete step *)
Definition kbest_fit (no : nat) (floor : Q) (maxk : Z) (cs : list (col Z)) : option Q :=
  best_of (flat_map (kbest_cands no floor maxk) cs).

(* ---- per-thread caches + min_reduce ----------------------------------------------------------------------- *)
(* the features are handed to the pool in chunks of features_per_thread; every worker keeps its own running best *)
Fixpoint chunks {A : Type} (fuel : nat) (n : nat) (l : list A) : list (list A) :=
  match fuel with
  | O => [l]
  | S f => match l with
           | [] => []
           | _ => firstn n l :: chunks f n (skipn n l)
           end
  end.
Definition min_reduce (l : list (option Q)) : option Q :=
  fold_left (fun b s => match s with None => b | Some x => better b x end) l None.
Definition fit_chunked (concurrency : Z) (percol : list (list Q)) : option Q :=
  let n := Z.to_nat (src_c10_features_per_thread (Z.of_nat (length percol)) concurrency) in
  min_reduce (map (fun ch => best_of (concat ch)) (chunks (length percol) n percol)).

(* ---- brute-force specification: RSS of a predictor on a column -------------------------------------------- *)
(* pred key = the prediction vector for a present key; missing samples are predicted zero *)
Definition rss_of {K : Type} (no : nat) (pred : K -> list Q) (c : col K) : Q :=
  qsum (map (fun e => match fst e with
                      | None => sq_norm no (snd e)
                      | Some x => qsum (tab no (fun o => (rget o (snd e) - rget o (pred x)) * (rget o (snd e) - rget o (pred x))))
                      end) c).
Definition stump_pred (thr : Q) (lo hi : list Q) (x : Q) : list Q := if qlt x thr then lo else hi.
Definition hinge_pred (no : nat) (thr : Q) (isleft : bool) (beta : list Q) (x : Q) : list Q :=
  if Bool.eqb isleft (qlt x thr) then tab no (fun o => rget o beta * (x - thr)) else [].
Definition affine_pred (no : nat) (w b : list Q) (x : Q) : list Q := tab no (fun o => rget o w * x + rget o b).

(* ---- fitted learners: predict / split / scale / merge ----------------------------------------------------- *)
Inductive fval := FMiss | FNum (x : Q) | FCls (h : Z).
Definition sample := list fval.               (* indexed by feature *)
Definition fget (f : nat) (s : sample) : fval := nth f s FMiss.

Record node := mknode { n_feature : nat; n_thr : Q; n_next : Z; n_table : Z }.
Definition node0 : node := mknode 0 0 0 0.

Inductive wl :=
| WAffine (f : nat) (w b : list Q)
| WStump (f : nat) (thr : Q) (lo hi : list Q)
| WHinge (f : nat) (thr : Q) (isleft : bool) (w b : list Q)
| WTable (f : nat) (hashes h2t : list Z) (tables : list (list Q))
| WTree (nodes : list node) (tables : list (list Q)).

Definition znth {A : Type} (i : Z) (l : list A) (d : A) : A := if (i <? 0)%Z then d else nth (Z.to_nat i) l d.

(* std::lower_bound over the stored hashes (which the k-best table stores in gain order) *)
Fixpoint lower_bound (fuel : nat) (hs : list Z) (first count v : Z) : Z :=
  match fuel with
  | O => first
  | S f =>
      if (count <=? 0)%Z then first
      else let step := Z.quot count 2 in
           let it := (first + step)%Z in
           if (znth it hs 0%Z <? v)%Z then lower_bound f hs (it + 1)%Z (count - (step + 1))%Z v
           else lower_bound f hs first step v
  end.
(* nano::find(hashes, value): index or -1 *)
Definition find (hs : list Z) (v : Z) : option Z :=
  let n := Z.of_nat (length hs) in
  let it := lower_bound (S (length hs)) hs 0%Z n v in
  if (it =? n)%Z || negb (znth it hs 0%Z =? v)%Z then None else Some it.

(* dtree_wlearner_t::do_split for one sample: walk from node [p] *)
Fixpoint tree_group (fuel : nat) (nodes : list node) (p : Z) (s : sample) : option Z :=
  match fuel with
  | O => None
  | S f =>
      let nd := znth p nodes node0 in
      match fget (n_feature nd) s with
      | FNum x =>
          let g := if qlt x (n_thr nd) then 0%Z else 1%Z in
          if src_c10_tree_terminal (n_next nd) then Some (src_c10_tree_leaf (n_table nd) g)
          else tree_group f nodes (n_next (znth (src_c10_tree_child p g) nodes node0)) s
      | _ => None
      end
  end.

(* split(): the group of a sample, None = -1 (not assigned) *)
Definition group (w : wl) (s : sample) : option Z :=
  match w with
  | WAffine f _ _ => match fget f s with FNum _ => Some 0%Z | _ => None end
  | WStump f thr _ _ => match fget f s with FNum x => Some (if qlt x thr then 0%Z else 1%Z) | _ => None end
  | WHinge f thr isleft _ _ =>
      match fget f s with
      | FNum x => if Bool.eqb isleft (qlt x thr) then Some 0%Z else None
      | _ => None
      end
  | WTable f hs h2t _ =>
      match fget f s with
      | FCls h => match find hs h with Some i => Some (znth i h2t 0%Z) | None => None end
      | _ => None
      end
  | WTree nodes _ => tree_group (S (length nodes)) nodes 0%Z s
  end.

(* the increment added to the outputs of a sample by do_predict, None = outputs untouched *)
Definition incr (no : nat) (w : wl) (s : sample) : option (list Q) :=
  match w with
  | WAffine f ww b => match fget f s with FNum x => Some (affine_pred no ww b x) | _ => None end
  | WStump f thr lo hi => match fget f s with FNum x => Some (if qlt x thr then lo else hi) | _ => None end
  | WHinge f thr isleft ww b =>
      match fget f s with
      | FNum x => if Bool.eqb isleft (qlt x thr) then Some (affine_pred no ww b x) else None
      | _ => None
      end
  | WTable f hs h2t tables =>
      match fget f s with
      | FCls h => match find hs h with Some i => Some (znth (znth i h2t 0%Z) tables []) | None => None end
      | _ => None
      end
  | WTree nodes tables =>
      match tree_group (S (length nodes)) nodes 0%Z s with Some g => Some (znth g tables []) | None => None end
  end.
Definition predict (no : nat) (w : wl) (s : sample) (out : list Q) : list Q :=
  match incr no w s with
  | None => out
  | Some d => tab no (fun o => rget o out + rget o d)
  end.
Definition zeros (no : nat) : list Q := tab no (fun _ => 0).

(* wlearner::scale(tables, scale): table i *= scale(min(i, size - 1)) *)
Definition zseq (n : nat) : list Z := map Z.of_nat (seq 0 n).
Definition scale_tables (sc : list Q) (tables : list (list Q)) : list (list Q) :=
  map (fun it => map (fun x => x * znth (src_c10_scale_index (fst it) (Z.of_nat (length sc))) sc 0) (snd it))
      (combine (zseq (length tables)) tables).
Definition scale (sc : list Q) (w : wl) : wl :=
  match w with
  | WAffine f ww b => match scale_tables sc [ww; b] with [w'; b'] => WAffine f w' b' | _ => w end
  | WStump f thr lo hi => match scale_tables sc [lo; hi] with [lo'; hi'] => WStump f thr lo' hi' | _ => w end
  | WHinge f thr isleft ww b => match scale_tables sc [ww; b] with [w'; b'] => WHinge f thr isleft w' b' | _ => w end
  | WTable f hs h2t tables => WTable f hs h2t (scale_tables sc tables)
  | WTree nodes tables => WTree nodes (scale_tables sc tables)
  end.

(* try_merge: affine with affine, any table with any table; everything else refuses *)
Definition vadd (a b : list Q) : list Q := map (fun p => fst p + snd p) (combine a b).
Definition tadd (a b : list (list Q)) : list (list Q) := map (fun p => vadd (fst p) (snd p)) (combine a b).
Fixpoint zlist_eqb (a b : list Z) : bool :=
  match a, b with
  | [], [] => true
  | x :: a', y :: b' => (x =? y)%Z && zlist_eqb a' b'
  | _, _ => false
  end.
Definition same_dims (a b : list (list Q)) : bool :=
  zlist_eqb (map (fun r => Z.of_nat (length r)) a) (map (fun r => Z.of_nat (length r)) b).
Definition try_merge (a b : wl) : option wl :=
  match a, b with
  | WAffine f w bb, WAffine f' w' b' =>
      if (f =? f')%nat && same_dims [w; bb] [w'; b'] then Some (WAffine f (vadd w w') (vadd bb b')) else None
  | WTable f hs h2t tb, WTable f' hs' h2t' tb' =>
      if zlist_eqb hs hs' && zlist_eqb h2t h2t' && (f =? f')%nat && same_dims tb tb'
      then Some (WTable f hs h2t (tadd tb tb')) else None
  | _, _ => None
  end.
(* the inner loop over j > i of wlearner::merge: returns the merged learner, the remaining slots, merged? *)
Fixpoint merge_into (a : wl) (rest : list (option wl)) : wl * list (option wl) * bool :=
  match rest with
  | [] => (a, [], false)
  | None :: t => let '(a', t', m) := merge_into a t in (a', None :: t', m)
  | Some b :: t =>
      match try_merge a b with
      | Some a1 => let '(a', t', _) := merge_into a1 t in (a', None :: t', true)
      | None => let '(a', t', m) := merge_into a t in (a', Some b :: t', m)
      end
  end.
(* the outer loop: skips emptied slots, stops at the first learner that merged with nobody *)
Fixpoint merge_loop (fuel : nat) (l : list (option wl)) : list (option wl) :=
  match fuel with
  | O => l
  | S f =>
      match l with
      | [] => []
      | None :: t => None :: merge_loop f t
      | Some a :: t =>
          let '(a', t', merged) := merge_into a t in
          if merged then Some a' :: merge_loop f t' else Some a' :: t'
      end
  end.
Fixpoint compact (l : list (option wl)) : list wl :=
  match l with
  | [] => []
  | None :: t => compact t
  | Some a :: t => a :: compact t
  end.
Definition merge (ws : list wl) : list wl := compact (merge_loop (length ws) (map Some ws)).

(* sum of the predictions of a list of learners on one sample *)
Definition predict_all (no : nat) (ws : list wl) (s : sample) (out : list Q) : list Q :=
  fold_left (fun o w => predict no w s o) ws out.

(* the tree built by dtree do_fit when the root is terminal (max_depth = 1): two leaf entries *)
Definition tree_of_stump (f : nat) (thr : Q) (lo hi : list Q) : wl :=
  WTree [mknode f thr 0 0; mknode f thr 0 1] [lo; hi].
