(* C15 -- executable byte-level model of libnano's binary serialization
   (include/nano/core/stream.h, tensor/stream.h, core/hash.h, src/parameter.cpp, configurable.cpp, feature.cpp,
   learner.cpp, linear.cpp, gboost/model.cpp, wlearner/*.cpp).

   A *format* is a term of the small combinator language [fmt]; [enc]/[dec] are the generic writer/reader over a
   universal value type [val]; every concrete wire format of the library is a [fmt] term below. A byte is an [N]
   (always < 256 in the streams exchanged with the harness), a stream is a list of bytes, the reader returns the
   decoded value and the unread rest, or [None] (failbit / exception in the implementation).
   The decisions and the arithmetic are imported from the kernels translated from the source on every run
   (coq/generated/Src_stream.v).  No proofs in this file. *)
From Coq Require Import List ZArith NArith Bool.
From LNGen Require Import Src_stream.
Import ListNotations.
Local Open Scope N_scope.

Definition bytes := list N.

Inductive val : Type :=
| VU                      (* nothing *)
| VN (n : N)              (* an unsigned little-endian integer field (signed fields keep their two's complement) *)
| VB (b : bytes)          (* raw bytes *)
| VP (a b : val)          (* a sequence of two *)
| VL (l : list val).      (* a repetition *)

Inductive fmt : Type :=
| F_fail                                   (* always rejected (unknown type tag, negative size, ...) *)
| F_unit                                   (* nothing on the wire *)
| F_uint (k : nat)                         (* k bytes, little endian: nano::write(stream, scalar) *)
| F_raw (n : N)                            (* n raw bytes *)
| F_pair (a b : fmt)                       (* a then b *)
| F_dep (a : fmt) (g : val -> fmt)         (* a, then the format selected by a's value (sizes, type tags) *)
| F_rep (n : N) (e : fmt)                  (* exactly n repetitions of e *)
| F_filter (a : fmt) (p : val -> bool).    (* a, then a validity test on the decoded value (version, hash, ...) *)

(* ---- primitive readers / writers --------------------------------------------------------------------------- *)
Fixpoint le_enc (k : nat) (n : N) : bytes :=
  match k with O => [] | S k' => (n mod 256) :: le_enc k' (n / 256) end.

Fixpoint le_dec (bs : bytes) : N :=
  match bs with [] => 0 | b :: r => b + 256 * le_dec r end.

Fixpoint take (k : nat) (bs : bytes) : option (bytes * bytes) :=
  match k with
  | O => Some ([], bs)
  | S k' => match bs with
            | [] => None
            | b :: r => match take k' r with None => None | Some (h, t) => Some (b :: h, t) end
            end
  end.

(* "fewer than n bytes left", in time O(min(n, length)) -- n comes from the stream and may be as large as 2^64 *)
Fixpoint at_least (bs : bytes) (n : N) {struct bs} : bool :=
  if n =? 0 then true else match bs with [] => false | _ :: r => at_least r (N.pred n) end.
Definition short (bs : bytes) (n : N) : bool := negb (at_least bs n).

Fixpoint rep_dec (d : bytes -> option (val * bytes)) (k : nat) (bs : bytes) : option (list val * bytes) :=
  match k with
  | O => Some ([], bs)
  | S k' => match d bs with
            | None => None
            | Some (v, r) => match rep_dec d k' r with None => None | Some (l, r') => Some (v :: l, r') end
            end
  end.

Fixpoint enc (f : fmt) (v : val) : bytes :=
  match f, v with
  | F_uint k, VN n => le_enc k n
  | F_raw _, VB b => b
  | F_pair a b, VP x y => enc a x ++ enc b y
  | F_dep a g, VP x y => enc a x ++ enc (g x) y
  | F_rep _ e, VL l => concat (map (enc e) l)
  | F_filter a _, _ => enc a v
  | _, _ => []
  end.

(* the element count of F_raw / F_rep comes from the stream: a count larger than the number of remaining bytes can
   never be satisfied (every repeated element of the formats below occupies at least one byte), the implementation
   then fails in resize (length_error / bad_alloc) or at the first short read; the guard keeps the model total and
   cheap on corrupted counts up to 2^64 *)
Fixpoint dec (f : fmt) (bs : bytes) : option (val * bytes) :=
  match f with
  | F_fail => None
  | F_unit => Some (VU, bs)
  | F_uint k => match take k bs with None => None | Some (h, r) => Some (VN (le_dec h), r) end
  | F_raw n => if short bs n then None
               else match take (N.to_nat n) bs with None => None | Some (h, r) => Some (VB h, r) end
  | F_pair a b => match dec a bs with
                  | None => None
                  | Some (x, r) => match dec b r with None => None | Some (y, r') => Some (VP x y, r') end
                  end
  | F_dep a g => match dec a bs with
                 | None => None
                 | Some (x, r) => match dec (g x) r with None => None | Some (y, r') => Some (VP x y, r') end
                 end
  | F_rep n e => if short bs n then None
                 else match rep_dec (dec e) (N.to_nat n) bs with None => None | Some (l, r) => Some (VL l, r) end
  | F_filter a p => match dec a bs with
                    | None => None
                    | Some (v, r) => if p v then Some (v, r) else None
                    end
  end.

(* the values a format can write (what the implementation's objects serialise to) *)
Fixpoint wt (f : fmt) (v : val) : Prop :=
  match f with
  | F_fail => False
  | F_unit => v = VU
  | F_uint k => exists n, v = VN n /\ n < 256 ^ N.of_nat k
  | F_raw n => exists b, v = VB b /\ N.of_nat (length b) = n
  | F_pair a b => exists x y, v = VP x y /\ wt a x /\ wt b y
  | F_dep a g => exists x y, v = VP x y /\ wt a x /\ wt (g x) y
  | F_rep n e => exists l, v = VL l /\ N.of_nat (length l) = n /\ Forall (fun x => wt e x /\ enc e x <> []) l
  | F_filter a p => wt a v /\ p v = true
  end.

(* ---- accessors ---------------------------------------------------------------------------------------------- *)
Definition vnat (v : val) : N := match v with VN n => n | _ => 0 end.
Definition vraw (v : val) : bytes := match v with VB b => b | _ => [] end.
Definition vlist (v : val) : list val := match v with VL l => l | _ => [] end.
Definition vfst (v : val) : val := match v with VP a _ => a | _ => VU end.
Definition vsnd (v : val) : val := match v with VP _ b => b | _ => VU end.

(* two's complement reading of a k-byte field *)
Definition sint (k : nat) (n : N) : Z :=
  if n <? 2 ^ (8 * N.of_nat k - 1) then Z.of_N n else (Z.of_N n - Z.of_N (2 ^ (8 * N.of_nat k)))%Z.

Definition u32 : fmt := F_uint 4.
Definition u64 : fmt := F_uint 8.

(* nano::write(stream, std::string_view): uint32 size + characters *)
Definition string_fmt : fmt := F_dep u32 (fun v => match v with VN n => F_raw n | _ => F_fail end).
(* nano::write(stream, std::vector<T>): uint64 count + elements *)
Definition vector_fmt (e : fmt) : fmt := F_dep u64 (fun v => match v with VN n => F_rep n e | _ => F_fail end).

Definition vstring (v : val) : bytes := vraw (vsnd v).
Definition mk_string (s : bytes) : val := VP (VN (N.of_nat (length s))) (VB s).
Definition mk_vector (l : list val) : val := VP (VN (N.of_nat (length l))) (VL l).

(* ---- core/hash.h -------------------------------------------------------------------------------------------- *)
Definition M64 : N := 2 ^ 64.

(* seed ^ (hash + 0x9e3779b9 + (seed << 6) + (seed >> 2)) on uint64_t: the translated sum, wrapped, then the xor *)
Definition hash_combine (seed h : N) : N :=
  N.lxor seed (Z.to_N (Z.modulo (src_hash_mix (Z.of_N seed) (Z.of_N h)) (Z.of_N M64))).

(* static_cast<uint64_t>(data[i]) (sign extension of the signed integer types), resp. the bit pattern of float/double *)
Definition ext64 (w : nat) (sgn : bool) (x : N) : N :=
  if sgn && (2 ^ (8 * N.of_nat w - 1) <=? x) then x + (M64 - 2 ^ (8 * N.of_nat w)) else x.

Definition hash_elems (w : nat) (sgn : bool) (l : list N) : N :=
  fold_left (fun h x => hash_combine h (ext64 w sgn x)) l 0.

(* ---- tensor/stream.h ---------------------------------------------------------------------------------------- *)
(* the reader is instantiated for a static rank and scalar type: rank, sizeof(scalar), signed-integer? *)
Record tspec : Type := { t_rank : nat; t_width : nat; t_signed : bool }.

Definition hdr_fmt (s : tspec) : fmt :=
  F_pair u32 (F_pair u32 (F_pair (F_rep (N.of_nat (t_rank s)) u32) (F_pair u32 u64))).

Definition hdr_version (h : val) : N := vnat (vfst h).
Definition hdr_rank (h : val) : N := vnat (vfst (vsnd h)).
Definition hdr_rawdims (h : val) : list N := map vnat (vlist (vfst (vsnd (vsnd h)))).
Definition hdr_dims (h : val) : list Z := map (sint 4) (hdr_rawdims h).
Definition hdr_sizeof (h : val) : N := vnat (vfst (vsnd (vsnd (vsnd h)))).
Definition hdr_hash (h : val) : N := vnat (vsnd (vsnd (vsnd (vsnd h)))).

(* detail::product<0>(dims): the number of elements tensor.resize(dims) allocates *)
Fixpoint dsize (d : list Z) : Z :=
  match d with [] => src_sz_base | x :: r => src_sz_step x (dsize r) end.

Definition hdr_ok (s : tspec) (h : val) : bool :=
  negb (src_tensor_hdr_bad (Z.of_N (hdr_version h)) (Z.of_N (hdr_rank h)) (Z.of_N (hdr_sizeof h))
          src_hash_version (Z.of_nat (t_rank s)) (Z.of_nat (t_width s))).

(* a negative element count makes Eigen's allocation throw (bad_alloc): rejected *)
Definition payload_fmt (s : tspec) (h : val) : fmt :=
  let n := dsize (hdr_dims h) in
  if (n <? 0)%Z then F_fail else F_rep (Z.to_N n) (F_uint (t_width s)).

Definition tensor_elems (v : val) : list N := map vnat (vlist (vsnd v)).

Definition hash_ok (s : tspec) (v : val) : bool :=
  hdr_hash (vfst v) =? hash_elems (t_width s) (t_signed s) (tensor_elems v).

Definition tensor_fmt (s : tspec) : fmt :=
  F_filter (F_dep (F_filter (hdr_fmt s) (hdr_ok s)) (payload_fmt s)) (hash_ok s).

(* a header with arbitrary field values, and the byte stream "header, then these elements" (valid or corrupted) *)
Definition mk_hdr (ver rk : N) (dims : list N) (sz h : N) : val :=
  VP (VN ver) (VP (VN rk) (VP (VL (map VN dims)) (VP (VN sz) (VN h)))).

Definition raw_tensor (hd : val) (elems : list N) : val := VP hd (VL (map VN elems)).

Definition tensor_bytes (s : tspec) (hd : val) (elems : list N) : bytes :=
  enc (hdr_fmt s) hd ++ concat (map (le_enc (t_width s)) elems).

(* what nano::write produces for a tensor with the given dimensions (raw uint32) and elements (raw w-byte values) *)
Definition mk_header (s : tspec) (dims : list N) (h : N) : val :=
  mk_hdr (Z.to_N src_hash_version) (N.of_nat (t_rank s)) dims (N.of_nat (t_width s)) h.

Definition mk_tensor (s : tspec) (dims : list N) (elems : list N) : val :=
  raw_tensor (mk_header s dims (hash_elems (t_width s) (t_signed s) elems)) elems.

(* ---- src/parameter.cpp -------------------------------------------------------------------------------------- *)
(* value, min, max (int64 or double: 8 raw bytes each), minLE, maxLE *)
Definition range_fmt : fmt := F_pair u64 (F_pair u64 (F_pair u64 (F_pair u32 u32))).
(* value1, value2, min, max, minLE, maxLE, valueLE *)
Definition prange_fmt : fmt := F_pair u64 (F_pair u64 (F_pair u64 (F_pair u64 (F_pair u32 (F_pair u32 u32))))).

Definition param_type (hd : val) : Z := sint 4 (vnat (vfst hd)).

Definition param_body (hd : val) : fmt :=
  let t := param_type hd in
  if (t =? -1)%Z then F_unit
  else if (t =? 0)%Z then F_pair string_fmt (vector_fmt string_fmt)
  else if ((t =? 1) || (t =? 2))%Z then range_fmt
  else if ((t =? 3) || (t =? 4))%Z then prange_fmt
  else if (t =? 5)%Z then string_fmt
  else F_fail.

(* int32 type, name, body *)
Definition param_fmt : fmt := F_dep (F_pair u32 string_fmt) param_body.

(* ---- src/configurable.cpp ----------------------------------------------------------------------------------- *)
Definition version3 : fmt := F_pair u32 (F_pair u32 u32).

Definition version_ok (cur : Z * Z * Z) (v : val) : bool :=
  let '(cmaj, cmin, cpat) := cur in
  negb (src_version_newer (sint 4 (vnat (vfst v))) (sint 4 (vnat (vfst (vsnd v)))) (sint 4 (vnat (vsnd (vsnd v))))
          cmaj cmin cpat).

Definition config_fmt (cur : Z * Z * Z) : fmt :=
  F_pair (F_filter version3 (version_ok cur)) (vector_fmt param_fmt).

(* ---- factory objects (core/stream.h, unique_ptr overloads): type id + body ---------------------------------- *)
Fixpoint bytes_eqb (a b : bytes) : bool :=
  match a, b with
  | [], [] => true
  | x :: a', y :: b' => (x =? y) && bytes_eqb a' b'
  | _, _ => false
  end.

Fixpoint lookup {A} (k : bytes) (tbl : list (bytes * A)) : option A :=
  match tbl with
  | [] => None
  | (k', a) :: r => if bytes_eqb k k' then Some a else lookup k r
  end.

Definition object_fmt (tbl : list (bytes * fmt)) : fmt :=
  F_dep string_fmt (fun id => match lookup (vstring id) tbl with Some f => f | None => F_fail end).

(* ---- src/feature.cpp: type name (must be a known enum name), dims (3 x int64 raw), name, labels ------------- *)
Definition known_name (names : list bytes) (v : val) : bool := existsb (bytes_eqb (vstring v)) names.

Definition feature_fmt (ftypes : list bytes) : fmt :=
  F_filter (F_pair string_fmt (F_pair (F_raw 24) (F_pair string_fmt (vector_fmt string_fmt))))
           (fun v => known_name ftypes (vfst v)).

(* ---- learner / linear / weak learners / gboost -------------------------------------------------------------- *)
Record env : Type := { e_version : Z * Z * Z; e_ftypes : list bytes }.

Definition learner_fmt (e : env) : fmt :=
  F_pair (config_fmt (e_version e))
         (F_pair (vector_fmt (feature_fmt (e_ftypes e))) (feature_fmt (e_ftypes e))).

Definition f64 (r : nat) : tspec := {| t_rank := r; t_width := 8; t_signed := false |}.
Definition i64 (r : nat) : tspec := {| t_rank := r; t_width := 8; t_signed := true |}.
Definition u64t (r : nat) : tspec := {| t_rank := r; t_width := 8; t_signed := false |}.

Definition tensor_dim0 (v : val) : option N := hd_error (hdr_rawdims (vfst v)).

(* linear_t: learner, bias (1d), weights (2d); bias.size() == weights.rows() *)
Definition linear_fmt (e : env) : fmt :=
  F_filter (F_pair (learner_fmt e) (F_pair (tensor_fmt (f64 1)) (tensor_fmt (f64 2))))
           (fun v => match tensor_dim0 (vfst (vsnd v)), tensor_dim0 (vsnd (vsnd v)) with
                     | Some a, Some b => a =? b
                     | _, _ => false
                     end).

(* single_feature_wlearner_t: learner, feature (int64), tables (4d) *)
Definition single_fmt (e : env) : fmt := F_pair (learner_fmt e) (F_pair u64 (tensor_fmt (f64 4))).
Definition affine_fmt := single_fmt.
Definition stump_fmt (e : env) : fmt := F_pair (single_fmt e) u64.
Definition hinge_fmt (e : env) : fmt := F_pair (single_fmt e) (F_pair u64 u32).
(* table weak learners: hashes (uint64 1d) + hash2tables (int64 1d) *)
Definition table_fmt (e : env) : fmt := F_pair (single_fmt e) (F_pair (tensor_fmt (u64t 1)) (tensor_fmt (i64 1))).
(* dtree: nodes (int32 feature, double threshold, uint32 next, int32 table), features (int64 1d), tables (4d) *)
Definition dtree_node_fmt : fmt := F_pair u32 (F_pair u64 (F_pair u32 u32)).
Definition dtree_fmt (e : env) : fmt :=
  F_pair (learner_fmt e) (F_pair (vector_fmt dtree_node_fmt) (F_pair (tensor_fmt (i64 1)) (tensor_fmt (f64 4)))).

Definition wlearner_table (e : env) (ids : list (bytes * N)) : list (bytes * fmt) :=
  map (fun p => (fst p,
                 match snd p with
                 | 0 => affine_fmt e
                 | 1 => stump_fmt e
                 | 2 => hinge_fmt e
                 | 3 => table_fmt e
                 | 4 => dtree_fmt e
                 | _ => F_fail
                 end)) ids.

(* gboost_model_t: learner, bias (1d), weak learners, prototypes *)
Definition gboost_fmt (e : env) (ids : list (bytes * N)) : fmt :=
  F_pair (learner_fmt e)
         (F_pair (tensor_fmt (f64 1))
                 (F_pair (vector_fmt (object_fmt (wlearner_table e ids)))
                         (vector_fmt (object_fmt (wlearner_table e ids))))).

(* a plain configurable factory object (loss, solver, tuner, splitter, ...): known id + configurable *)
Definition plain_object_fmt (cur : Z * Z * Z) (ids : list bytes) : fmt :=
  object_fmt (map (fun id => (id, config_fmt cur)) ids).

(* ---- what the driver asks ----------------------------------------------------------------------------------- *)
Definition accepts (f : fmt) (bs : bytes) : bool := match dec f bs with Some _ => true | None => false end.

(* verdicts of the reader on every strict prefix, shortest first *)
Fixpoint prefixes_rev (bs : bytes) (acc : bytes) (out : list bytes) : list bytes :=
  match bs with
  | [] => out
  | b :: r => prefixes_rev r (acc ++ [b]) (out ++ [acc])
  end.
Definition prefix_verdicts (f : fmt) (bs : bytes) : list bool := map (accepts f) (prefixes_rev bs [] []).

(* decode, re-encode: Some true iff the reader accepts the whole stream and the writer reproduces it *)
Definition reencodes (f : fmt) (bs : bytes) : option bool :=
  match dec f bs with
  | Some (v, []) => Some (bytes_eqb (enc f v) bs)
  | Some (_, _ :: _) => Some false
  | None => None
  end.
