(* C14 (extension) -- rounding-error theorems in the standard model of binary64 arithmetic (Flocq), and the bridge
   from the executable PrimFloat twin (C14_FloatDefs.v) to that model.

   1. the rounding operator [rnd], u = 2^-53, eta = 2^-1075 and the three forms of the standard model
   2. products of (1 + e_i), the error-accumulation relation [approx]
   3. round trip  upscale(scale(x))  for any (offset, multiplier) with div = rnd(1 / mul)
   4. min-max scaling: minimum -> 0, maximum -> [1 - u, 1], every value of [min, max] -> [0, 1]
   5. summation in ANY order (trees), the bias and the weights of nano::upscale
   6. bridge: PrimFloat operations on finite values with a finite result = rnd of the exact result
   7. the theorems for the PrimFloat twin
   8. the shapes are the translated kernels
   9. no NaN: the statistics of done() are finite when the sums do not overflow
   10. clause 3 in floating point: predictions of the converted model *)
From Coq Require Import ZArith Reals Lra Lia Psatz List Bool Floats Permutation.
From Flocq Require Import Core Relative Plus_error BinarySingleNaN.
From Flocq Require PrimFloat.
From LNGen Require Import Src_dstats Src_dstatsf.
From LN Require Import C14_Defs C14_FloatDefs.
Import ListNotations.
Local Open Scope R_scope.

(* ------------------------------------------------------------------------------------------------------------------- *)
(* 1. the standard model                                                                                               *)
(* ------------------------------------------------------------------------------------------------------------------- *)
Definition fexp64 : Z -> Z := FLT_exp (-1074) 53.
Definition rnd (x : R) : R := round radix2 fexp64 ZnearestE x.
Definition fmt (x : R) : Prop := generic_format radix2 fexp64 x.
Definition u : R := bpow radix2 (-53).
Definition eta : R := bpow radix2 (-1075).
(* no underflow: zero, or at least the smallest normal number *)
Definition NU (t : R) : Prop := t = 0 \/ bpow radix2 (-1022) <= Rabs t.

Local Instance prec53_gt_0 : Prec_gt_0 53. Proof. reflexivity. Qed.
Local Instance fexp64_valid : Valid_exp fexp64. Proof. apply FLT_exp_valid. reflexivity. Qed.
Local Instance rndNE_valid : Valid_rnd ZnearestE. Proof. apply valid_rnd_N. Qed.

Lemma u_val : u = / 9007199254740992.
Proof. unfold u. change (-53)%Z with (- (53))%Z. rewrite bpow_opp. f_equal. all: simpl; try reflexivity; try lra. Qed.
Lemma u_pos : 0 < u. Proof. apply bpow_gt_0. Qed.
Lemma u_small : u <= / 1024. Proof. rewrite u_val. lra. Qed.
Lemma eta_pos : 0 < eta. Proof. apply bpow_gt_0. Qed.
Lemma u_ro_is_u : u_ro radix2 53 = u.
Proof.
  unfold u_ro, u. change (-53)%Z with (-1 + (-53 + 1))%Z. rewrite (bpow_plus radix2 (-1) (-53 + 1)).
  simpl. lra.
Qed.
Lemma half_emin_is_eta : / 2 * bpow radix2 (-1074) = eta.
Proof. unfold eta. change (-1075)%Z with (-1 + -1074)%Z. rewrite (bpow_plus radix2 (-1) (-1074)). simpl. lra. Qed.

Lemma rnd_0 : rnd 0 = 0. Proof. apply round_0; apply rndNE_valid. Qed.
Lemma rnd_fmt x : fmt (rnd x). Proof. apply generic_format_round; auto with typeclass_instances. Qed.
Lemma rnd_id x : fmt x -> rnd x = x. Proof. apply round_generic; auto with typeclass_instances. Qed.
Lemma rnd_le x y : x <= y -> rnd x <= rnd y. Proof. apply round_le; auto with typeclass_instances. Qed.
Lemma rnd_ge_0 x : 0 <= x -> 0 <= rnd x. Proof. intros H. rewrite <- rnd_0. now apply rnd_le. Qed.
Lemma rnd_le_0 x : x <= 0 -> rnd x <= 0. Proof. intros H. rewrite <- rnd_0. now apply rnd_le. Qed.
Lemma fmt_0 : fmt 0. Proof. apply generic_format_0. Qed.
Lemma fmt_opp x : fmt x -> fmt (- x). Proof. apply generic_format_opp. Qed.
Lemma rnd_opp x : rnd (- x) = - rnd x. Proof. apply round_NE_opp. Qed.
Lemma fmt_1 : fmt 1.
Proof.
  change 1 with (bpow radix2 0). apply generic_format_bpow. unfold fexp64, FLT_exp. simpl. lia.
Qed.

(* (a) any real: relative error u and absolute error eta *)
Lemma model_any t : exists e h, Rabs e <= u /\ Rabs h <= eta /\ rnd t = t * (1 + e) + h.
Proof.
  destruct (relative_error_N_FLT'_ex radix2 (-1074) 53 prec53_gt_0 (fun x => negb (Z.even x)) t)
    as (e & h & He & Hh & _ & Hr).
  exists e, h. split; [|split].
  - eapply Rle_trans; [exact He|]. rewrite <- u_ro_is_u. apply u_rod1pu_ro_le_u_ro.
  - now rewrite <- half_emin_is_eta.
  - exact Hr.
Qed.

(* (b) no underflow: relative error only *)
Lemma model_NU t : NU t -> exists e, Rabs e <= u /\ rnd t = t * (1 + e).
Proof.
  intros [Z|N].
  - exists 0. subst t. rewrite rnd_0, Rabs_R0. split; [apply Rlt_le, u_pos|ring].
  - destruct (relative_error_N_FLT_ex radix2 (-1074) 53 prec53_gt_0 (fun x => negb (Z.even x)) t) as (e & He & Hr).
    + exact N.
    + exists e. split; [|exact Hr]. fold (u_ro radix2 53) in He. now rewrite u_ro_is_u in He.
Qed.

(* (c) sum / difference of two numbers of the format: relative error only (a subnormal sum is exact) *)
Lemma model_add a b : fmt a -> fmt b -> exists e, Rabs e <= u /\ rnd (a + b) = (a + b) * (1 + e).
Proof.
  intros Fa Fb.
  destruct (FLT_plus_error_N_ex radix2 (-1074) 53 (fun x => negb (Z.even x)) a b Fa Fb) as (e & He & Hr).
  exists e. split; [|exact Hr].
  eapply Rle_trans; [exact He|]. rewrite <- u_ro_is_u. apply u_rod1pu_ro_le_u_ro.
Qed.
Lemma model_sub a b : fmt a -> fmt b -> exists e, Rabs e <= u /\ rnd (a - b) = (a - b) * (1 + e).
Proof. intros Fa Fb. apply (model_add a (- b)); [exact Fa|now apply fmt_opp]. Qed.

(* sharper relative bound u / (1 + u) when there is no underflow (needed for the tie-free rounding near 1) *)
Lemma model_NU_sharp t : NU t -> exists e, Rabs e <= u / (1 + u) /\ rnd t = t * (1 + e).
Proof.
  intros [Z|N].
  - exists 0. subst t. rewrite rnd_0, Rabs_R0. split; [|ring].
    apply Rmult_le_pos; [apply Rlt_le, u_pos|]. apply Rlt_le, Rinv_0_lt_compat. pose proof u_pos. lra.
  - destruct (relative_error_N_FLX'_ex radix2 53 prec53_gt_0 (fun x => negb (Z.even x)) t) as (e & He & Hr).
    exists e. rewrite u_ro_is_u in He. split; [exact He|].
    unfold rnd, fexp64. rewrite <- Hr. apply round_FLT_FLX. exact N.
Qed.

(* ------------------------------------------------------------------------------------------------------------------- *)
(* 2. accumulated relative errors                                                                                      *)
(* ------------------------------------------------------------------------------------------------------------------- *)
(* g n = (1 + u)^n - 1  (= n u + O(u^2); at most n u / (1 - n u) when n u < 1) *)
Definition g (n : nat) : R := (1 + u) ^ n - 1.

Lemma g_0 : g 0 = 0. Proof. unfold g. simpl. ring. Qed.
Lemma g_S n : g (S n) = g n * (1 + u) + u. Proof. unfold g. simpl. ring. Qed.
Lemma g_nonneg n : 0 <= g n.
Proof. induction n; [rewrite g_0; lra|]. rewrite g_S. pose proof u_pos. nra. Qed.
Lemma g_le_S n : g n <= g (S n).
Proof. rewrite g_S. pose proof u_pos. pose proof (g_nonneg n). nra. Qed.
Lemma g_mono n m : (n <= m)%nat -> g n <= g m.
Proof. induction 1; [lra|]. eapply Rle_trans; [exact IHle|apply g_le_S]. Qed.
Lemma g_1 : g 1 = u. Proof. unfold g. simpl. ring. Qed.
Lemma g_plus n m : g (n + m) = g n * (1 + u) ^ m + g m.
Proof. unfold g. rewrite pow_add. ring. Qed.

(* the classical constant: g n <= n u / (1 - n u) as long as n u < 1 *)
Lemma g_le_gamma n : INR n * u < 1 -> g n <= INR n * u / (1 - INR n * u).
Proof.
  induction n; intros H.
  - rewrite g_0. simpl. lra.
  - rewrite g_S. rewrite S_INR in *. pose proof u_pos. pose proof (pos_INR n).
    assert (Hn : INR n * u < 1) by nra. specialize (IHn Hn).
    set (a := INR n * u) in *. assert (0 <= a) by (unfold a; nra).
    replace ((INR n + 1) * u) with (a + u) in * by (unfold a; ring).
    apply Rle_trans with (a / (1 - a) * (1 + u) + u); [nra|].
    apply Rmult_le_reg_r with ((1 - a) * (1 - (a + u))); [nra|].
    field_simplify; [|lra|lra]. nra.
Qed.

(* y approximates Y = (a sum of terms of total magnitude at most M) after at most k roundings of each term *)
Definition approx (k : nat) (y Y M : R) : Prop := Rabs (y - Y) <= g k * M /\ Rabs Y <= M.

Lemma approx_M_nonneg k y Y M : approx k y Y M -> 0 <= M.
Proof. intros [_ H]. pose proof (Rabs_pos Y). lra. Qed.
Lemma approx_exact Y : approx 0 Y Y (Rabs Y).
Proof. split; [|lra]. rewrite g_0. replace (Y - Y) with 0 by ring. rewrite Rabs_R0. lra. Qed.
Lemma approx_weaken k k' y Y M M' : (k <= k')%nat -> M <= M' -> approx k y Y M -> approx k' y Y M'.
Proof.
  intros Hk HM [H1 H2]. split; [|lra].
  pose proof (g_mono _ _ Hk). pose proof (g_nonneg k). pose proof (Rabs_pos Y). nra.
Qed.
Lemma approx_round k y Y M e : Rabs e <= u -> approx k y Y M -> approx (S k) (y * (1 + e)) Y M.
Proof.
  intros He [H1 H2]. split; [|exact H2].
  replace (y * (1 + e) - Y) with ((y - Y) * (1 + e) + e * Y) by ring.
  eapply Rle_trans; [apply Rabs_triang|]. rewrite !Rabs_mult, g_S.
  assert (H3 : Rabs (1 + e) <= 1 + u).
  { eapply Rle_trans; [apply Rabs_triang|]. rewrite Rabs_R1. lra. }
  pose proof (Rabs_pos (y - Y)). pose proof (Rabs_pos (1 + e)). pose proof (Rabs_pos e). pose proof (Rabs_pos Y).
  pose proof (g_nonneg k). pose proof u_pos.
  assert (Rabs (y - Y) * Rabs (1 + e) <= g k * M * (1 + u)) by (apply Rmult_le_compat; lra).
  assert (Rabs e * Rabs Y <= u * M) by (apply Rmult_le_compat; lra).
  lra.
Qed.
Lemma approx_add k y1 Y1 M1 y2 Y2 M2 :
  approx k y1 Y1 M1 -> approx k y2 Y2 M2 -> approx k (y1 + y2) (Y1 + Y2) (M1 + M2).
Proof.
  intros [A1 A2] [B1 B2]. split.
  - replace (y1 + y2 - (Y1 + Y2)) with ((y1 - Y1) + (y2 - Y2)) by ring.
    eapply Rle_trans; [apply Rabs_triang|]. lra.
  - eapply Rle_trans; [apply Rabs_triang|]. lra.
Qed.
Lemma approx_opp k y Y M : approx k y Y M -> approx k (- y) (- Y) M.
Proof.
  intros [A1 A2]. split; [|now rewrite Rabs_Ropp].
  replace (- y - - Y) with (- (y - Y)) by ring. now rewrite Rabs_Ropp.
Qed.
Lemma approx_scale k y Y M c : approx k y Y M -> approx k (c * y) (c * Y) (Rabs c * M).
Proof.
  intros [A1 A2]. pose proof (Rabs_pos c). split.
  - replace (c * y - c * Y) with (c * (y - Y)) by ring. rewrite Rabs_mult.
    replace (g k * (Rabs c * M)) with (Rabs c * (g k * M)) by ring. now apply Rmult_le_compat_l.
  - rewrite Rabs_mult. now apply Rmult_le_compat_l.
Qed.

(* a product of four factors (1 + e_i) *)
Lemma prod4 e1 e2 e3 e4 : Rabs e1 <= u -> Rabs e2 <= u -> Rabs e3 <= u -> Rabs e4 <= u ->
  Rabs ((1 + e1) * (1 + e2) * (1 + e3) * (1 + e4) - 1) <= g 4.
Proof.
  intros H1 H2 H3 H4.
  pose proof (approx_exact 1) as A. rewrite Rabs_R1 in A.
  apply (approx_round _ _ _ _ e1 H1) in A. apply (approx_round _ _ _ _ e2 H2) in A.
  apply (approx_round _ _ _ _ e3 H3) in A. apply (approx_round _ _ _ _ e4 H4) in A.
  destruct A as [A _]. rewrite Rmult_1_r, Rmult_1_l in A. exact A.
Qed.

Lemma g4_bound : g 4 * (1 + u) <= 4 * u * (1 + 3 * u).
Proof.
  unfold g. pose proof u_pos. pose proof u_small. simpl.
  assert (0 <= u * u) by nra. assert (u * u <= u / 1024) by nra.
  assert (u * u * u <= u * u / 1024) by nra.
  assert (0 <= u * u * u) by nra.
  assert (u * u * u * u <= u * u / 1024) by nra. assert (0 <= u * u * u * u) by nra.
  assert (u * u * u * u * u <= u * u / 1024) by nra. nra.
Qed.

(* ------------------------------------------------------------------------------------------------------------------- *)
(* 3. the round trip                                                                                                   *)
(* ------------------------------------------------------------------------------------------------------------------- *)
(* scale: s = rnd (rnd (x - off) * dv) with dv = rnd (1 / mul);  upscale: rnd (off + rnd (s * mul)) *)
Definition rt_scale (x off mul : R) : R := rnd (rnd (x - off) * rnd (/ mul)).
Definition rt_upscale (y off mul : R) : R := rnd (off + rnd (y * mul)).

Lemma NU_inv mul : 0 < mul -> mul <= bpow radix2 1022 -> NU (/ mul).
Proof.
  intros P L. right. rewrite Rabs_pos_eq by (apply Rlt_le, Rinv_0_lt_compat; exact P).
  change (-1022)%Z with (- (1022))%Z. rewrite bpow_opp.
  apply Rinv_le_contravar; [exact P|exact L].
Qed.

Theorem roundtrip_R x off mul : fmt x -> fmt off -> 0 < mul -> mul <= bpow radix2 1022 ->
  Rabs (rt_upscale (rt_scale x off mul) off mul - x)
  <= (5 * Rabs x + 4 * Rabs off) * (u * (1 + 3 * u)) + 2 * eta * (mul + 1).
Proof.
  intros Fx Fo P L. unfold rt_upscale, rt_scale.
  destruct (model_NU _ (NU_inv mul P L)) as (ed & Hed & Ed).
  destruct (model_sub x off Fx Fo) as (e1 & He1 & E1).
  set (dv := rnd (/ mul)) in *. set (d := rnd (x - off)) in *.
  destruct (model_any (d * dv)) as (e2 & h2 & He2 & Hh2 & E2).
  set (s := rnd (d * dv)) in *.
  destruct (model_any (s * mul)) as (e3 & h3 & He3 & Hh3 & E3).
  set (p := rnd (s * mul)) in *.
  destruct (model_add off p Fo (rnd_fmt _)) as (e4 & He4 & E4).
  rewrite E4.
  set (T := (1 + e1) * (1 + ed) * (1 + e2) * (1 + e3) - 1).
  set (A := h2 * mul * (1 + e3) + h3).
  assert (Ep : p = (x - off) * (1 + T) + A).
  { rewrite E3, E2, E1, Ed. unfold T, A. field. lra. }
  replace ((off + p) * (1 + e4) - x) with (x * e4 + (x - off) * T * (1 + e4) + A * (1 + e4)) by (rewrite Ep; ring).
  assert (HT : Rabs T <= g 4) by (apply prod4; assumption).
  assert (H4 : Rabs (1 + e4) <= 1 + u).
  { eapply Rle_trans; [apply Rabs_triang|]. rewrite Rabs_R1. lra. }
  assert (H3 : Rabs (1 + e3) <= 1 + u).
  { eapply Rle_trans; [apply Rabs_triang|]. rewrite Rabs_R1. lra. }
  assert (HA : Rabs A <= eta * mul * (1 + u) + eta).
  { unfold A. eapply Rle_trans; [apply Rabs_triang|]. rewrite !Rabs_mult, (Rabs_pos_eq mul) by lra.
    pose proof (Rabs_pos h2). pose proof (Rabs_pos (1 + e3)). pose proof eta_pos.
    assert (Rabs h2 * mul <= eta * mul) by (apply Rmult_le_compat_r; lra).
    assert (Rabs h2 * mul * Rabs (1 + e3) <= eta * mul * (1 + u)) by (apply Rmult_le_compat; nra).
    lra. }
  eapply Rle_trans; [apply Rabs_triang|]. eapply Rle_trans; [apply Rplus_le_compat_r, Rabs_triang|].
  rewrite !Rabs_mult.
  pose proof (Rabs_pos x). pose proof (Rabs_pos off). pose proof (Rabs_pos e4). pose proof (Rabs_pos T).
  pose proof (Rabs_pos (1 + e4)). pose proof (Rabs_pos A). pose proof u_pos. pose proof u_small. pose proof eta_pos.
  pose proof (g_nonneg 4). pose proof g4_bound.
  assert (Hxo : Rabs (x - off) <= Rabs x + Rabs off).
  { unfold Rminus. eapply Rle_trans; [apply Rabs_triang|]. rewrite Rabs_Ropp. lra. }
  pose proof (Rabs_pos (x - off)).
  assert (B1 : Rabs x * Rabs e4 <= Rabs x * u) by (apply Rmult_le_compat_l; lra).
  assert (B2 : Rabs (x - off) * Rabs T * Rabs (1 + e4) <= (Rabs x + Rabs off) * (g 4 * (1 + u))).
  { replace ((Rabs x + Rabs off) * (g 4 * (1 + u))) with ((Rabs x + Rabs off) * g 4 * (1 + u)) by ring.
    apply Rmult_le_compat; [nra|lra| |lra]. apply Rmult_le_compat; lra. }
  assert (B3 : Rabs A * Rabs (1 + e4) <= (eta * mul * (1 + u) + eta) * (1 + u)) by (apply Rmult_le_compat; nra).
  assert (B4 : (eta * mul * (1 + u) + eta) * (1 + u) <= 2 * eta * (mul + 1)).
  { assert ((1 + u) * (1 + u) <= 2) by nra. nra. }
  assert (B5 : (Rabs x + Rabs off) * (g 4 * (1 + u)) <= (Rabs x + Rabs off) * (4 * u * (1 + 3 * u))).
  { apply Rmult_le_compat_l; lra. }
  nra.
Qed.

(* ------------------------------------------------------------------------------------------------------------------- *)
(* 4. min-max scaling in floating point                                                                                *)
(* ------------------------------------------------------------------------------------------------------------------- *)
Lemma fmt_1_minus_u : fmt (1 - u).
Proof.
  apply generic_format_FLT. exists (Float radix2 9007199254740991 (-53)).
  - unfold F2R. simpl Fnum. simpl Fexp. fold u. rewrite u_val. lra.
  - simpl. lia.
  - simpl. lia.
Qed.

Lemma succ_1 : succ radix2 fexp64 1 = 1 + 2 * u.
Proof.
  rewrite succ_eq_pos by lra. f_equal.
  change 1 with (bpow radix2 0). rewrite ulp_bpow. unfold fexp64, FLT_exp. simpl Z.max.
  unfold u. change (-53)%Z with (-1 + -52)%Z at 1. rewrite (bpow_plus radix2 (-1) (-52)). simpl. lra.
Qed.

(* m * rnd (1 / m) rounds into [1 - u, 1] *)
Lemma unit_round m : 0 < m -> m <= bpow radix2 1022 -> 1 - u <= rnd (m * rnd (/ m)) <= 1.
Proof.
  intros P L. destruct (model_NU_sharp _ (NU_inv m P L)) as (e & He & E).
  rewrite E. replace (m * (/ m * (1 + e))) with (1 + e) by (field; lra).
  pose proof u_pos.
  assert (Hu : u / (1 + u) < u).
  { apply Rmult_lt_reg_r with (1 + u); [lra|]. unfold Rdiv. rewrite Rmult_assoc, Rinv_l by lra. nra. }
  apply Rabs_le_inv in He. split.
  - rewrite <- (rnd_id _ fmt_1_minus_u). apply rnd_le. lra.
  - apply round_N_le_midp; [apply fexp64_valid|exact fmt_1|]. rewrite succ_1. lra.
Qed.

(* mul is what done() stores: max (rnd (mx - mn), eps) *)
Definition mm_mul (mn mx eps : R) : R := Rmax (rnd (mx - mn)) eps.

Theorem minmax_min_R mn mul : rt_scale mn mn mul = 0.
Proof. unfold rt_scale. replace (mn - mn) with 0 by ring. rewrite rnd_0, Rmult_0_l. apply rnd_0. Qed.

Theorem minmax_max_R mn mx eps : 0 < eps -> eps <= rnd (mx - mn) -> rnd (mx - mn) <= bpow radix2 1022 ->
  1 - u <= rt_scale mx mn (mm_mul mn mx eps) <= 1.
Proof.
  intros Pe G L. unfold rt_scale, mm_mul. rewrite Rmax_left by exact G. apply unit_round; lra.
Qed.

Theorem minmax_range_R mn mx eps x : 0 < eps -> eps <= bpow radix2 1022 -> rnd (mx - mn) <= bpow radix2 1022 ->
  mn <= x <= mx -> 0 <= rt_scale x mn (mm_mul mn mx eps) <= 1.
Proof.
  intros Pe Le L [H1 H2]. unfold rt_scale.
  set (mul := mm_mul mn mx eps).
  assert (Pm : 0 < mul) by (unfold mul, mm_mul; eapply Rlt_le_trans; [exact Pe|apply Rmax_r]).
  assert (Lm : mul <= bpow radix2 1022) by (unfold mul, mm_mul; apply Rmax_lub; assumption).
  assert (Pd : 0 <= rnd (/ mul)) by (apply rnd_ge_0, Rlt_le, Rinv_0_lt_compat, Pm).
  assert (D0 : 0 <= rnd (x - mn)) by (apply rnd_ge_0; lra).
  assert (D1 : rnd (x - mn) <= mul).
  { eapply Rle_trans; [apply rnd_le with (y := mx - mn); lra|]. unfold mul, mm_mul. apply Rmax_l. }
  split.
  - apply rnd_ge_0. now apply Rmult_le_pos.
  - eapply Rle_trans; [apply rnd_le with (y := mul * rnd (/ mul)); now apply Rmult_le_compat_r|].
    now apply unit_round.
Qed.

(* ------------------------------------------------------------------------------------------------------------------- *)
(* 5. summation in any order; the bias and the weights of nano::upscale                                                *)
(* ------------------------------------------------------------------------------------------------------------------- *)
(* a summation order = a binary tree whose leaves are the (already rounded) products; every inner node rounds *)
Inductive stree := SLeaf (p : R) | SNode (l r : stree).

Fixpoint sfl (t : stree) : R := match t with SLeaf p => p | SNode l r => rnd (sfl l + sfl r) end.
Fixpoint sleaves (t : stree) : list R := match t with SLeaf p => [p] | SNode l r => sleaves l ++ sleaves r end.
Fixpoint rsum (l : list R) : R := match l with [] => 0 | x :: r => x + rsum r end.
Definition rabssum (l : list R) : R := rsum (map Rabs l).

Lemma rsum_app a b : rsum (a ++ b) = rsum a + rsum b.
Proof. induction a; simpl; [ring|rewrite IHa; ring]. Qed.
Lemma rabssum_app a b : rabssum (a ++ b) = rabssum a + rabssum b.
Proof. unfold rabssum. now rewrite map_app, rsum_app. Qed.
Lemma rsum_perm a b : Permutation a b -> rsum a = rsum b.
Proof. induction 1; simpl; try lra. Qed.
Lemma rabssum_perm a b : Permutation a b -> rabssum a = rabssum b.
Proof. intros H. unfold rabssum. apply rsum_perm. now apply Permutation_map. Qed.
Lemma rabssum_nonneg l : 0 <= rabssum l.
Proof. unfold rabssum. induction l; simpl; [lra|]. pose proof (Rabs_pos a). lra. Qed.
Lemma rsum_abs_le l : Rabs (rsum l) <= rabssum l.
Proof.
  unfold rabssum. induction l; simpl; [rewrite Rabs_R0; lra|].
  eapply Rle_trans; [apply Rabs_triang|]. lra.
Qed.
Lemma sleaves_length_pos t : (1 <= length (sleaves t))%nat.
Proof. induction t; simpl; [lia|]. rewrite app_length. lia. Qed.
Lemma sfl_fmt t : Forall fmt (sleaves t) -> fmt (sfl t).
Proof. destruct t; simpl; intros H; [now inversion H|apply rnd_fmt]. Qed.

(* the computed sum of n numbers of the format, in any order, is within g (n - 1) * sum |p_i| of the exact sum *)
Lemma sum_tree_approx t : Forall fmt (sleaves t) ->
  approx (length (sleaves t) - 1) (sfl t) (rsum (sleaves t)) (rabssum (sleaves t)).
Proof.
  induction t as [p|l IHl r IHr]; intros F.
  - simpl. unfold rabssum. simpl. rewrite !Rplus_0_r. apply approx_exact.
  - simpl in *. apply Forall_app in F. destruct F as [Fl Fr].
    specialize (IHl Fl). specialize (IHr Fr).
    destruct (model_add _ _ (sfl_fmt l Fl) (sfl_fmt r Fr)) as (e & He & E). rewrite E.
    rewrite app_length, rsum_app, rabssum_app.
    pose proof (sleaves_length_pos l). pose proof (sleaves_length_pos r).
    replace (length (sleaves l) + length (sleaves r) - 1)%nat
      with (S (length (sleaves l) + length (sleaves r) - 2))%nat by lia.
    apply approx_round; [exact He|]. apply approx_add.
    + eapply approx_weaken; [| |exact IHl]; [lia|lra].
    + eapply approx_weaken; [| |exact IHr]; [lia|lra].
Qed.

Theorem sum_any_order t ps : Forall fmt ps -> Permutation (sleaves t) ps ->
  Rabs (sfl t - rsum ps) <= g (length ps - 1) * rabssum ps.
Proof.
  intros F P.
  assert (F' : Forall fmt (sleaves t)).
  { apply Forall_forall. intros x Hx. rewrite Forall_forall in F. apply F. eapply Permutation_in; eauto. }
  destruct (sum_tree_approx t F') as [H _].
  rewrite (Permutation_length P), (rsum_perm _ _ P), (rabssum_perm _ _ P) in H. exact H.
Qed.

(* the products p_j = rnd (w_j * rnd (fbx_j)) where fbx_j is the exact value of (- offset_j * div_j) *)
Fixpoint prods (w fbx : list R) : list R :=
  match w, fbx with a :: w', b :: f' => rnd (a * rnd b) :: prods w' f' | _, _ => [] end.
Fixpoint xprods (w fbx : list R) : list R :=
  match w, fbx with a :: w', b :: f' => a * b :: xprods w' f' | _, _ => [] end.
Fixpoint NU_prods (w fbx : list R) : Prop :=
  match w, fbx with a :: w', b :: f' => NU b /\ NU (a * rnd b) /\ NU_prods w' f' | _, _ => True end.

Lemma prods_length w fbx : length (prods w fbx) = length (xprods w fbx).
Proof. revert fbx; induction w; destruct fbx; simpl; auto. Qed.
Lemma xprods_length w fbx : length w = length fbx -> length (xprods w fbx) = length w.
Proof. revert fbx; induction w; destruct fbx; simpl; intros H; try lia. f_equal. apply IHw. lia. Qed.
Lemma prods_fmt w fbx : Forall fmt (prods w fbx).
Proof. revert fbx; induction w; destruct fbx; simpl; constructor; [apply rnd_fmt|apply IHw]. Qed.

Lemma prods_approx w fbx : NU_prods w fbx ->
  Rabs (rsum (prods w fbx) - rsum (xprods w fbx)) <= g 2 * rabssum (xprods w fbx) /\
  rabssum (prods w fbx) <= (1 + u) ^ 2 * rabssum (xprods w fbx).
Proof.
  revert fbx; induction w as [|a w IH]; destruct fbx as [|b f]; simpl; intros H;
    try (unfold rabssum; simpl; replace (0 - 0) with 0 by ring; rewrite Rabs_R0; pose proof (g_nonneg 2); lra).
  destruct H as (N1 & N2 & N3). destruct (IH f N3) as [I1 I2].
  destruct (model_NU _ N1) as (e1 & He1 & E1). destruct (model_NU _ N2) as (e2 & He2 & E2).
  assert (A : approx 2 (rnd (a * rnd b)) (a * b) (Rabs (a * b))).
  { rewrite E2, E1. replace (a * (b * (1 + e1)) * (1 + e2)) with (a * b * (1 + e1) * (1 + e2)) by ring.
    apply approx_round; [exact He2|]. apply approx_round; [exact He1|]. apply approx_exact. }
  destruct A as [A1 _].
  unfold rabssum in *. simpl. split.
  - replace (rnd (a * rnd b) + rsum (prods w f) - (a * b + rsum (xprods w f)))
      with ((rnd (a * rnd b) - a * b) + (rsum (prods w f) - rsum (xprods w f))) by ring.
    eapply Rle_trans; [apply Rabs_triang|]. lra.
  - assert (Rabs (rnd (a * rnd b)) <= (1 + u) ^ 2 * Rabs (a * b)).
    { replace (rnd (a * rnd b)) with ((rnd (a * rnd b) - a * b) + a * b) by ring.
      eapply Rle_trans; [apply Rabs_triang|]. unfold g in A1. lra. }
    lra.
Qed.

(* bias' = rnd (rnd (rnd (D + b) - rnd tbx) / tw), D = the products summed in any order *)
Theorem up_bias_R t w fbx b tbx tw :
  length w = length fbx -> (1 <= length w)%nat ->
  Permutation (sleaves t) (prods w fbx) -> NU_prods w fbx -> fmt b -> NU tbx -> tw <> 0 ->
  NU (rnd (rnd (sfl t + b) - rnd tbx) / tw) ->
  let M := rabssum (xprods w fbx) + Rabs b + Rabs tbx in
  Rabs (rnd (rnd (rnd (sfl t + b) - rnd tbx) / tw) - (rsum (xprods w fbx) + b - tbx) / tw)
  <= g (length w + 4) * (M / Rabs tw).
Proof.
  intros Hl Hc P NP Fb Nt Ht Nq M.
  pose proof (xprods_length w fbx Hl) as LX.
  set (C := length w) in *.
  set (S := rabssum (xprods w fbx)) in *. set (Q := rsum (xprods w fbx)) in *.
  destruct (prods_approx w fbx NP) as [P1 P2]. fold S Q in P1, P2.
  pose proof (sum_any_order t _ (prods_fmt w fbx) P) as P3. rewrite prods_length, LX in P3.
  assert (S0 : 0 <= S) by apply rabssum_nonneg.
  (* D *)
  assert (AD : approx (C + 1) (sfl t) Q S).
  { split; [|apply rsum_abs_le].
    replace (sfl t - Q) with ((sfl t - rsum (prods w fbx)) + (rsum (prods w fbx) - Q)) by ring.
    eapply Rle_trans; [apply Rabs_triang|].
    assert (g (C - 1) * rabssum (prods w fbx) <= g (C - 1) * ((1 + u) ^ 2 * S)).
    { apply Rmult_le_compat_l; [apply g_nonneg|exact P2]. }
    replace (C + 1)%nat with ((C - 1) + 2)%nat by lia. rewrite g_plus. lra. }
  (* t1 = rnd (D + b) *)
  assert (Ft : fmt (sfl t)).
  { apply sfl_fmt. apply Forall_forall. intros x Hx. pose proof (prods_fmt w fbx) as F. rewrite Forall_forall in F.
    apply F. eapply Permutation_in; eauto. }
  destruct (model_add _ _ Ft Fb) as (e3 & He3 & E3).
  assert (A1 : approx (C + 2) (rnd (sfl t + b)) (Q + b) (S + Rabs b)).
  { rewrite E3. replace (C + 2)%nat with (Datatypes.S (C + 1)) by lia. apply approx_round; [exact He3|].
    apply approx_add; [exact AD|]. eapply approx_weaken; [| |apply approx_exact]; [lia|lra]. }
  (* tb = rnd tbx, t2 = rnd (t1 - tb) *)
  destruct (model_NU _ Nt) as (e5 & He5 & E5).
  destruct (model_sub _ _ (rnd_fmt (sfl t + b)) (rnd_fmt tbx)) as (e4 & He4 & E4).
  assert (A2 : approx (C + 3) (rnd (rnd (sfl t + b) - rnd tbx)) (Q + b - tbx) M).
  { rewrite E4. replace (C + 3)%nat with (Datatypes.S (C + 2)) by lia. apply approx_round; [exact He4|].
    unfold M, Rminus. apply approx_add; [exact A1|]. apply approx_opp.
    rewrite E5. eapply approx_weaken with (k := 1%nat); [lia|apply Rle_refl|].
    apply approx_round; [exact He5|apply approx_exact]. }
  (* bias' = rnd (t2 / tw) *)
  destruct (model_NU _ Nq) as (e6 & He6 & E6). rewrite E6.
  replace (C + 4)%nat with (Datatypes.S (C + 3)) by lia.
  assert (A3 : approx (Datatypes.S (C + 3)) (rnd (rnd (sfl t + b) - rnd tbx) / tw * (1 + e6)) ((Q + b - tbx) / tw) (M / Rabs tw)).
  { apply approx_round; [exact He6|]. unfold Rdiv at 1 2. rewrite (Rmult_comm _ (/ tw)), (Rmult_comm (Q + b - tbx) (/ tw)).
    replace (M / Rabs tw) with (Rabs (/ tw) * M) by (rewrite Rabs_inv; field; now apply Rabs_no_R0).
    now apply approx_scale. }
  exact (proj1 A3).
Qed.

(* W'(i, j) = rnd (rnd (w / tw) * fw) *)
Theorem up_weight_R w tw fw : tw <> 0 -> NU (w / tw) -> NU (rnd (w / tw) * fw) ->
  Rabs (rnd (rnd (w / tw) * fw) - w / tw * fw) <= g 2 * Rabs (w / tw * fw).
Proof.
  intros Ht N1 N2. destruct (model_NU _ N1) as (e1 & He1 & E1). destruct (model_NU _ N2) as (e2 & He2 & E2).
  rewrite E2, E1. replace (w / tw * (1 + e1) * fw * (1 + e2)) with (w / tw * fw * (1 + e1) * (1 + e2)) by ring.
  assert (A : approx 2 (w / tw * fw * (1 + e1) * (1 + e2)) (w / tw * fw) (Rabs (w / tw * fw))).
  { apply approx_round; [exact He2|]. apply approx_round; [exact He1|]. apply approx_exact. }
  exact (proj1 A).
Qed.

(* ------------------------------------------------------------------------------------------------------------------- *)
(* 6. bridge: Coq's primitive binary64 operations on finite values                                                     *)
(* ------------------------------------------------------------------------------------------------------------------- *)
From Flocq Require Import PrimFloat.

Definition FR (a : PrimFloat.float) : R := B2R (Prim2B a).
Definition fin (a : PrimFloat.float) : Prop := PrimFloat.is_finite a = true.

Lemma FR_fmt a : fmt (FR a).
Proof. unfold FR. exact (generic_format_B2R prec emax (Prim2B a)). Qed.
Lemma FR_lt_emax a : Rabs (FR a) < bpow radix2 1024.
Proof. unfold FR. exact (abs_B2R_lt_emax prec emax (Prim2B a)). Qed.
Lemma FR_one : FR fone = 1.
Proof. unfold FR. change fone with one. rewrite one_equiv, Prim2B_B2Prim. apply Bone_correct. Qed.
Lemma FR_zero : FR fzero = 0.
Proof. unfold FR. change fzero with zero. rewrite zero_equiv, Prim2B_B2Prim. reflexivity. Qed.
Lemma fin_one : fin fone. Proof. reflexivity. Qed.
Lemma fin_zero : fin fzero. Proof. reflexivity. Qed.

Lemma overflow_not_finite (x : binary_float prec emax) s :
  B2SF x = binary_overflow prec emax mode_NE s -> BinarySingleNaN.is_finite x = false.
Proof. intros H. rewrite <- is_finite_SF_B2SF, H. reflexivity. Qed.

(* a finite result is the rounding of the exact result; a result whose rounding is below 2^1024 is finite *)
Lemma fin_add a b : fin a -> fin b ->
  (fin (PrimFloat.add a b) -> FR (PrimFloat.add a b) = rnd (FR a + FR b)) /\
  (Rabs (rnd (FR a + FR b)) < bpow radix2 1024 -> fin (PrimFloat.add a b)).
Proof.
  unfold fin, FR. rewrite !is_finite_equiv, add_equiv. intros Fa Fb.
  generalize (Bplus_correct prec emax Hprec Hmax mode_NE _ _ Fa Fb).
  change (round radix2 (fexp prec emax) (round_mode mode_NE)) with rnd. change (bpow radix2 emax) with (bpow radix2 1024).
  case Rlt_bool_spec; intros C H.
  - destruct H as (H1 & H2 & _). split; intros; assumption.
  - destruct H as (H & _). rewrite (overflow_not_finite _ _ H). split; [discriminate|intros; lra].
Qed.
Lemma fin_sub a b : fin a -> fin b ->
  (fin (PrimFloat.sub a b) -> FR (PrimFloat.sub a b) = rnd (FR a - FR b)) /\
  (Rabs (rnd (FR a - FR b)) < bpow radix2 1024 -> fin (PrimFloat.sub a b)).
Proof.
  unfold fin, FR. rewrite !is_finite_equiv, sub_equiv. intros Fa Fb.
  generalize (Bminus_correct prec emax Hprec Hmax mode_NE _ _ Fa Fb).
  change (round radix2 (fexp prec emax) (round_mode mode_NE)) with rnd. change (bpow radix2 emax) with (bpow radix2 1024).
  case Rlt_bool_spec; intros C H.
  - destruct H as (H1 & H2 & _). split; intros; assumption.
  - destruct H as (H & _). rewrite (overflow_not_finite _ _ H). split; [discriminate|intros; lra].
Qed.
Lemma fin_mul a b : fin a -> fin b ->
  (fin (PrimFloat.mul a b) -> FR (PrimFloat.mul a b) = rnd (FR a * FR b)) /\
  (Rabs (rnd (FR a * FR b)) < bpow radix2 1024 -> fin (PrimFloat.mul a b)).
Proof.
  unfold fin, FR. rewrite !is_finite_equiv, mul_equiv. intros Fa Fb.
  generalize (Bmult_correct prec emax Hprec Hmax mode_NE (Prim2B a) (Prim2B b)).
  change (round radix2 (fexp prec emax) (round_mode mode_NE)) with rnd. change (bpow radix2 emax) with (bpow radix2 1024).
  case Rlt_bool_spec; intros C H.
  - destruct H as (H1 & H2 & _). rewrite Fa, Fb in H2. split; intros; assumption.
  - rewrite (overflow_not_finite _ _ H). split; [discriminate|intros; lra].
Qed.
Lemma fin_div a b : fin a -> fin b -> FR b <> 0 ->
  (fin (PrimFloat.div a b) -> FR (PrimFloat.div a b) = rnd (FR a / FR b)) /\
  (Rabs (rnd (FR a / FR b)) < bpow radix2 1024 -> fin (PrimFloat.div a b)).
Proof.
  unfold fin, FR. rewrite !is_finite_equiv, div_equiv. intros Fa Fb Nb.
  generalize (Bdiv_correct prec emax Hprec Hmax mode_NE (Prim2B a) (Prim2B b) Nb).
  change (round radix2 (fexp prec emax) (round_mode mode_NE)) with rnd. change (bpow radix2 emax) with (bpow radix2 1024).
  case Rlt_bool_spec; intros C H.
  - destruct H as (H1 & H2 & _). rewrite Fa in H2. split; intros; assumption.
  - rewrite (overflow_not_finite _ _ H). split; [discriminate|intros; lra].
Qed.

Lemma fin_ltb a b : fin a -> fin b -> (PrimFloat.ltb a b = true <-> FR a < FR b).
Proof.
  unfold fin, FR. rewrite !is_finite_equiv, ltb_equiv. intros Fa Fb. rewrite (Bltb_correct _ _ _ _ Fa Fb).
  case Rlt_bool_spec; intros; split; intros; try lra; try discriminate; reflexivity.
Qed.

(* std::max on finite values *)
Lemma fmax_cpp_fin a b : fin a -> fin b -> fin (fmax_cpp a b) /\ FR (fmax_cpp a b) = Rmax (FR a) (FR b).
Proof.
  intros Fa Fb. unfold fmax_cpp. pose proof (fin_ltb a b Fa Fb) as L.
  destruct (PrimFloat.ltb a b).
  - split; [exact Fb|]. rewrite Rmax_right; [reflexivity|]. apply Rlt_le, L. reflexivity.
  - split; [exact Fa|]. rewrite Rmax_left; [reflexivity|].
    destruct (Rle_or_lt (FR b) (FR a)) as [H|H]; [exact H|]. apply L in H. discriminate.
Qed.

(* ------------------------------------------------------------------------------------------------------------------- *)
(* 7. the theorems for the executable twin                                                                             *)
(* ------------------------------------------------------------------------------------------------------------------- *)
(* the divisor a mode uses is 1.0 / (the multiplier it uses), computed in binary64 *)
Definition denorm_ok (m : mode) (s : fstats) : Prop := f_div m s = PrimFloat.div fone (f_mul m s).

Lemma fdone_denorm_ok eps i esize eflag a m : denorm_ok m (fdone eps i esize eflag a).
Proof.
  unfold denorm_ok, fdone.
  destruct (src_c14_disabled i esize eflag); [destruct m; reflexivity|].
  destruct (src_c14_many (fa_n a)); [destruct m; reflexivity|].
  destruct (src_c14_none (fa_n a)); destruct m; reflexivity.
Qed.

(* the multiplier of a record of done() is 1.0 or std::max(spread, eps): positive as soon as it is finite *)
Lemma fdone_mul_pos eps i esize eflag a m : fin eps -> 0 < FR eps ->
  let s := fdone eps i esize eflag a in fin (f_mul m s) -> 0 < FR (f_mul m s).
Proof.
  intros Fe Pe s. unfold s, fdone.
  assert (O : 0 < FR fone) by (rewrite FR_one; lra).
  assert (K : forall sp, fin (fmax_cpp sp eps) -> 0 < FR (fmax_cpp sp eps)).
  { intros sp. unfold fmax_cpp. destruct (PrimFloat.ltb sp eps) eqn:L; intros F; [exact Pe|].
    destruct (Rle_or_lt (FR eps) (FR sp)) as [H|H]; [lra|]. apply (fin_ltb sp eps F Fe) in H. congruence. }
  destruct (src_c14_disabled i esize eflag); [destruct m; intros _; exact O|].
  destruct (src_c14_many (fa_n a)).
  - destruct m; simpl; intros F; try exact O; apply K; exact F.
  - destruct (src_c14_none (fa_n a)); destruct m; intros _; exact O.
Qed.

Lemma fscale_raw_eq m s x : m <> MNone ->
  fscale_raw m s x = PrimFloat.mul (PrimFloat.sub x (f_off m s)) (f_div m s).
Proof. destruct m; intros H; try reflexivity. now elim H. Qed.
Lemma fupscale_eq m s y : m <> MNone ->
  fupscale_one m s y = PrimFloat.add (f_off m s) (PrimFloat.mul y (f_mul m s)).
Proof. destruct m; intros H; try reflexivity. now elim H. Qed.

Definition rt_bound (x off mul : R) : R := (5 * Rabs x + 4 * Rabs off) * (u * (1 + 3 * u)) + 2 * eta * (mul + 1).

Lemma rt_bound_nonneg x off mul : 0 < mul -> 0 <= rt_bound x off mul.
Proof.
  intros P. unfold rt_bound. pose proof (Rabs_pos x). pose proof (Rabs_pos off). pose proof u_pos. pose proof eta_pos.
  assert (0 <= (5 * Rabs x + 4 * Rabs off) * (u * (1 + 3 * u))) by (apply Rmult_le_pos; nra). nra.
Qed.

Lemma mode_eq_dec (a b : mode) : {a = b} + {a <> b}.
Proof. decide equality. Qed.

Ltac split_andb H :=
  repeat match type of H with (_ && _) = true => let H' := fresh H in apply andb_prop in H; destruct H as [H H'] end.

Theorem roundtrip_twin m s x : denorm_ok m s -> chain_finite m s x = true ->
  0 < FR (f_mul m s) -> FR (f_mul m s) <= bpow radix2 1022 ->
  Rabs (FR (fupscale_one m s (fscale_one m s x)) - FR x) <= rt_bound (FR x) (FR (f_off m s)) (FR (f_mul m s)).
Proof.
  intros DN CF P L. unfold denorm_ok in DN.
  destruct (mode_eq_dec m MNone) as [->|NM].
  - unfold chain_finite in CF. split_andb CF.
    unfold fscale_one, fscale_raw, fupscale_one, nan2zero. simpl. fold (fin x) in CF. rewrite CF.
    replace (FR x - FR x) with 0 by ring. rewrite Rabs_R0. apply rt_bound_nonneg. exact P.
  - unfold chain_finite in CF. split_andb CF.
    unfold fscale_one, nan2zero. rewrite fscale_raw_eq by exact NM. rewrite CF2.
    rewrite fupscale_eq by exact NM.
    set (off := f_off m s) in *. set (dv := f_div m s) in *. set (mul := f_mul m s) in *.
    rewrite (proj1 (fin_add _ _ CF6 CF1) CF0).
    rewrite (proj1 (fin_mul _ _ CF2 CF4) CF1).
    rewrite (proj1 (fin_mul _ _ CF3 CF5) CF2).
    rewrite (proj1 (fin_sub _ _ CF CF6) CF3).
    assert (Edv : FR dv = rnd (/ FR mul)).
    { rewrite DN.
      assert (Fd : fin (PrimFloat.div fone mul)) by (rewrite <- DN; exact CF5).
      rewrite (proj1 (fin_div _ _ fin_one CF4 (Rgt_not_eq _ _ P)) Fd). rewrite FR_one. f_equal. unfold Rdiv. ring. }
    rewrite Edv.
    exact (roundtrip_R (FR x) (FR off) (FR mul) (FR_fmt x) (FR_fmt off) P L).
Qed.

(* ... for every statistics record the twin of done() produces (any history [a], any column flags) *)
Theorem roundtrip_fdone eps i esize eflag a m x : fin eps -> 0 < FR eps ->
  let s := fdone eps i esize eflag a in
  chain_finite m s x = true -> FR (f_mul m s) <= bpow radix2 1022 ->
  Rabs (FR (fupscale_one m s (fscale_one m s x)) - FR x) <= rt_bound (FR x) (FR (f_off m s)) (FR (f_mul m s)).
Proof.
  intros Fe Pe s CF L. apply roundtrip_twin; [apply fdone_denorm_ok|exact CF| |exact L].
  apply fdone_mul_pos; [exact Fe|exact Pe|].
  unfold chain_finite in CF. split_andb CF. exact CF4.
Qed.

(* min-max scaling of the twin: every value between the column minimum and maximum is mapped INTO [0, 1] (no rounding
   slack), the minimum to 0, the maximum to 1 - u or 1 unless the range is below the guard; nothing overflows *)
Theorem minmax_twin s eps x :
  fin eps -> 0 < FR eps -> FR eps <= bpow radix2 1022 ->
  f_mul_range s = fmax_cpp (PrimFloat.sub (f_max s) (f_min s)) eps ->
  f_div_range s = PrimFloat.div fone (f_mul_range s) -> fin (f_div_range s) ->
  fin (f_min s) -> fin (f_max s) -> fin x ->
  fin (PrimFloat.sub (f_max s) (f_min s)) -> FR (PrimFloat.sub (f_max s) (f_min s)) <= bpow radix2 1022 ->
  FR (f_min s) <= FR x <= FR (f_max s) ->
  let y := fscale_one MMinMax s x in
  fin y /\ 0 <= FR y <= 1 /\
  (FR x = FR (f_min s) -> FR y = 0) /\
  (FR x = FR (f_max s) -> FR eps <= FR (PrimFloat.sub (f_max s) (f_min s)) -> 1 - u <= FR y).
Proof.
  intros Fe Pe Le Hm Hd Fd Fmn Fmx Fx Fr Lr Hx y.
  set (mn := f_min s) in *. set (mx := f_max s) in *.
  pose proof (proj1 (fin_sub mx mn Fmx Fmn) Fr) as Er.
  destruct (fmax_cpp_fin _ eps Fr Fe) as [Fmul Emul]. rewrite <- Hm in Fmul, Emul.
  rewrite Er in Emul. fold (mm_mul (FR mn) (FR mx) (FR eps)) in Emul.
  rewrite Er in Lr.
  assert (Pm : 0 < FR (f_mul_range s)).
  { rewrite Emul. unfold mm_mul. eapply Rlt_le_trans; [exact Pe|apply Rmax_r]. }
  assert (Edv : FR (f_div_range s) = rnd (/ FR (f_mul_range s))).
  { rewrite Hd in Fd |- *. rewrite (proj1 (fin_div _ _ fin_one Fmul (Rgt_not_eq _ _ Pm)) Fd), FR_one.
    f_equal. unfold Rdiv. ring. }
  (* x - min *)
  assert (D0 : 0 <= rnd (FR x - FR mn)) by (apply rnd_ge_0; lra).
  assert (D1 : rnd (FR x - FR mn) <= rnd (FR mx - FR mn)) by (apply rnd_le; lra).
  assert (Fdf : fin (PrimFloat.sub x mn)).
  { apply (proj2 (fin_sub x mn Fx Fmn)). rewrite Rabs_pos_eq by exact D0.
    eapply Rle_lt_trans; [exact D1|]. rewrite <- Er. eapply Rle_lt_trans; [apply Rle_abs|apply FR_lt_emax]. }
  pose proof (proj1 (fin_sub x mn Fx Fmn) Fdf) as Ed.
  (* (x - min) * div *)
  pose proof (minmax_range_R (FR mn) (FR mx) (FR eps) (FR x) Pe Le Lr Hx) as RG.
  unfold rt_scale in RG. rewrite <- Emul, <- Edv, <- Ed in RG.
  assert (Fy : fin (PrimFloat.mul (PrimFloat.sub x mn) (f_div_range s))).
  { apply (proj2 (fin_mul _ _ Fdf Fd)). rewrite Rabs_pos_eq by apply RG.
    eapply Rle_lt_trans; [apply RG|]. apply (bpow_lt radix2 0 1024). reflexivity. }
  pose proof (proj1 (fin_mul _ _ Fdf Fd) Fy) as Ey.
  assert (Yeq : y = PrimFloat.mul (PrimFloat.sub x mn) (f_div_range s)).
  { unfold y, fscale_one, nan2zero, fscale_raw. simpl. fold mn. now rewrite Fy. }
  rewrite Yeq. split; [exact Fy|]. rewrite Ey. split; [exact RG|]. split.
  - intros E. rewrite Ed, E. replace (FR mn - FR mn) with 0 by ring. rewrite rnd_0, Rmult_0_l. apply rnd_0.
  - intros E G. rewrite Er in G.
    pose proof (minmax_max_R (FR mn) (FR mx) (FR eps) Pe G Lr) as [H _].
    unfold rt_scale in H. rewrite <- Emul, <- Edv in H. rewrite Ed, E. exact H.
Qed.

(* the statistics of done() have exactly that structure in the branch N > 1 of an enabled column *)
Lemma fdone_many_structure eps i esize eflag a :
  src_c14_disabled i esize eflag = false -> src_c14_many (fa_n a) = true ->
  let s := fdone eps i esize eflag a in
  f_min s = fa_min a /\ f_max s = fa_max a /\
  f_mul_range s = fmax_cpp (PrimFloat.sub (f_max s) (f_min s)) eps /\
  f_div_range s = PrimFloat.div fone (f_mul_range s) /\
  f_mul_stdev s = fmax_cpp (f_stdev s) eps /\
  f_div_stdev s = PrimFloat.div fone (f_mul_stdev s).
Proof. intros D M. unfold fdone. rewrite D, M. simpl. repeat split. Qed.

(* one up-scaled weight: W' = (W / tw) * fw, bit for bit the twin; its error in the standard model *)
Theorem up_weight_twin fm tm f t w :
  fin w -> fin (fmk_w tm t) -> fin (fmk_w fm f) -> FR (fmk_w tm t) <> 0 ->
  fin (PrimFloat.div w (fmk_w tm t)) -> fin (fup_w fm tm f t w) ->
  NU (FR w / FR (fmk_w tm t)) -> NU (rnd (FR w / FR (fmk_w tm t)) * FR (fmk_w fm f)) ->
  Rabs (FR (fup_w fm tm f t w) - FR w / FR (fmk_w tm t) * FR (fmk_w fm f))
  <= g 2 * Rabs (FR w / FR (fmk_w tm t) * FR (fmk_w fm f)).
Proof.
  intros Fw Ft Ff Nt Fq Fr N1 N2. unfold fup_w, up_w_shape in *. simpl in *.
  rewrite (proj1 (fin_mul _ _ Fq Ff) Fr), (proj1 (fin_div _ _ Fw Ft Nt) Fq).
  now apply up_weight_R.
Qed.

(* ------------------------------------------------------------------------------------------------------------------- *)
(* 8. the shapes are the kernels translated from the source (syntactic: proved by reflexivity)                         *)
(* ------------------------------------------------------------------------------------------------------------------- *)
Local Open Scope Z_scope.
Lemma shapes_are_source :
  (forall x mean mn mx dr mr ds ms : Z,
     src_c14f_scale_mean x mean mn mx dr mr ds ms = scale_shape zops MMean x mean mn dr ds /\
     src_c14f_scale_minmax x mean mn mx dr mr ds ms = scale_shape zops MMinMax x mean mn dr ds /\
     src_c14f_scale_standard x mean mn mx dr mr ds ms = scale_shape zops MStandard x mean mn dr ds /\
     src_c14f_upscale_mean x mean mn mx dr mr ds ms = upscale_shape zops MMean x mean mn mr ms /\
     src_c14f_upscale_minmax x mean mn mx dr mr ds ms = upscale_shape zops MMinMax x mean mn mr ms /\
     src_c14f_upscale_standard x mean mn mx dr mr ds ms = upscale_shape zops MStandard x mean mn mr ms) /\
  (forall one zero mx mn sd sum eps dN : Z,
     src_c14f_var one zero mx mn sd sum eps dN = var_shape zops one zero sd sum dN /\
     src_c14f_mean one zero mx mn sd sum eps dN = mean_shape zops sum dN /\
     src_c14f_div_range one zero mx mn sd sum eps dN = div_range_shape zops one mx mn eps /\
     src_c14f_mul_range one zero mx mn sd sum eps dN = mul_range_shape zops mx mn eps /\
     src_c14f_div_stdev one zero mx mn sd sum eps dN = div_stdev_shape zops one sd eps /\
     src_c14f_mul_stdev one zero mx mn sd sum eps dN = mul_stdev_shape zops sd eps) /\
  (forall sum sq v : Z, src_c14f_upd_sum sum v = upd_sum_shape zops sum v /\ src_c14f_upd_sq sq v = upd_sq_shape zops sq v) /\
  (forall one zero mean mn dr ds : Z,
     src_c14f_mk_w_mean mean mn dr ds = mk_w_shape one MMean dr ds /\
     src_c14f_mk_w_minmax mean mn dr ds = mk_w_shape one MMinMax dr ds /\
     src_c14f_mk_w_standard mean mn dr ds = mk_w_shape one MStandard dr ds /\
     src_c14f_mk_b_mean mean mn dr ds = mk_b_shape zops zero MMean mean mn dr ds /\
     src_c14f_mk_b_minmax mean mn dr ds = mk_b_shape zops zero MMinMax mean mn dr ds /\
     src_c14f_mk_b_standard mean mn dr ds = mk_b_shape zops zero MStandard mean mn dr ds) /\
  (forall d b tb tw w fw : Z,
     src_c14f_up_bias_div (src_c14f_up_bias_num d b tb) tw = up_b_shape zops d b tb tw /\
     src_c14f_up_w_mul (src_c14f_up_w_div w tw) fw = up_w_shape zops w tw fw).
Proof. repeat split. Qed.

(* helper for examples: the real value of a concrete primitive float is computed from its (sign, mantissa, exponent) *)
Local Open Scope R_scope.
Lemma FR_SF x : FR x = SF2R radix2 (Prim2SF x).
Proof. unfold FR, Prim2B. apply B2R_SF2B. Qed.
Lemma fmt_bpow e : (-1074 <= e)%Z -> fmt (bpow radix2 e).
Proof. intros H. apply generic_format_bpow. unfold fexp64, FLT_exp. lia. Qed.
Lemma NU_bpow e : (-1022 <= e)%Z -> NU (bpow radix2 e).
Proof. intros H. right. rewrite Rabs_pos_eq by apply bpow_ge_0. now apply bpow_le. Qed.

Lemma ex_float_values :
  FR fl1 = 1 /\ FR fl2 = 2 /\ FR fl3 = 3 /\ FR fl4 = 4 /\ FR fl5 = 5 /\ 0 < FR ex_feps /\ FR ex_feps <= 1.
Proof.
  repeat split; rewrite FR_SF; vm_compute (Prim2SF _); unfold SF2R, F2R; simpl; lra.
Qed.

(* ------------------------------------------------------------------------------------------------------------------- *)
(* 9. no NaN: every statistic of done() is finite when the sums do not overflow                                        *)
(* ------------------------------------------------------------------------------------------------------------------- *)
Lemma rnd_abs_le x y : fmt y -> Rabs x <= y -> Rabs (rnd x) <= y.
Proof. intros Fy H. apply abs_round_le_generic; auto with typeclass_instances. Qed.

Lemma fmt_IZR n : (Z.abs n < 2 ^ 53)%Z -> fmt (IZR n).
Proof.
  intros H. apply generic_format_FLT. exists (Float radix2 n 0).
  - unfold F2R. simpl. ring.
  - simpl. exact H.
  - simpl. lia.
Qed.

Lemma float_of_count_ok n : (0 <= n < 2 ^ 53)%Z -> fin (float_of_count n) /\ FR (float_of_count n) = IZR n.
Proof.
  intros H. unfold float_of_count, fin, FR. rewrite is_finite_equiv, of_int63_equiv.
  assert (E : Uint63.to_Z (Uint63.of_Z n) = n).
  { rewrite Uint63.of_Z_spec. apply Z.mod_small. split; [lia|]. eapply Z.lt_trans; [apply H|]. reflexivity. }
  rewrite E.
  generalize (binary_normalize_correct prec emax Hprec Hmax mode_NE n 0 false).
  change (round radix2 (fexp prec emax) (round_mode mode_NE)) with rnd. change (bpow radix2 emax) with (bpow radix2 1024).
  assert (X : F2R (Float radix2 n 0) = IZR n) by (unfold F2R; simpl; ring).
  cbv zeta. rewrite X. rewrite (rnd_id (IZR n)) by (apply fmt_IZR; rewrite Z.abs_eq; lia).
  rewrite Rlt_bool_true.
  - intros (H1 & H2 & _). split; assumption.
  - rewrite Rabs_pos_eq by (apply IZR_le; lia). apply Rlt_trans with (bpow radix2 53); [|apply bpow_lt; reflexivity].
    replace (bpow radix2 53) with (IZR (2 ^ 53)) by (rewrite <- (IZR_Zpower radix2 53); [reflexivity|discriminate]).
    apply IZR_lt; lia.
Qed.

Lemma fin_sqrt a : fin a -> 0 <= FR a ->
  fin (PrimFloat.sqrt a) /\ FR (PrimFloat.sqrt a) = rnd (R_sqrt.sqrt (FR a)).
Proof.
  unfold fin, FR. rewrite !is_finite_equiv, sqrt_equiv. intros Fa Pa.
  destruct (Bsqrt_correct prec emax Hprec Hmax mode_NE (Prim2B a)) as (H1 & H2 & _).
  split; [|exact H1]. rewrite H2.
  destruct (Prim2B a) as [s|s| |s m e Hb]; try discriminate; try reflexivity.
  destruct s; [|reflexivity]. exfalso. simpl in Pa.
  assert (F2R (Float radix2 (Zneg m) e) < 0) by (apply F2R_lt_0; simpl; lia). lra.
Qed.

(* |x / y| <= |x| for |y| >= 1, so a quotient by a count never overflows *)
Lemma fin_div_ge1 a b : fin a -> fin b -> 1 <= FR b -> fin (PrimFloat.div a b) /\ FR (PrimFloat.div a b) = rnd (FR a / FR b).
Proof.
  intros Fa Fb H1. assert (Nb : FR b <> 0) by lra.
  destruct (fin_div a b Fa Fb Nb) as [E F].
  assert (Fd : fin (PrimFloat.div a b)).
  { apply F. eapply Rle_lt_trans; [|apply (FR_lt_emax a)].
    apply rnd_abs_le; [apply generic_format_abs, FR_fmt|].
    unfold Rdiv. rewrite Rabs_mult, Rabs_inv. rewrite (Rabs_pos_eq (FR b)) by lra.
    pose proof (Rabs_pos (FR a)).
    rewrite <- (Rmult_1_r (Rabs (FR a))) at 2. apply Rmult_le_compat_l; [lra|].
    rewrite <- Rinv_1. apply Rinv_le_contravar; lra. }
  split; [exact Fd|exact (E Fd)].
Qed.

(* 1.0 / m for m >= eps >= 2^-1022 does not overflow and is positive *)
Lemma fin_inv_guard m : fin m -> bpow radix2 (-1022) <= FR m ->
  fin (PrimFloat.div fone m) /\ 0 < FR (PrimFloat.div fone m).
Proof.
  intros Fm G. pose proof (bpow_gt_0 radix2 (-1022)) as P.
  assert (Nm : FR m <> 0) by lra.
  destruct (fin_div fone m fin_one Fm Nm) as [E F]. rewrite FR_one in E, F.
  assert (B : bpow radix2 (-1024) <= 1 / FR m <= bpow radix2 1022).
  { unfold Rdiv. rewrite Rmult_1_l. split.
    - change (-1024)%Z with (- (1024))%Z. rewrite bpow_opp. apply Rinv_le_contravar; [lra|].
      apply Rlt_le. eapply Rle_lt_trans; [apply Rle_abs|apply FR_lt_emax].
    - change 1022%Z with (- (-1022))%Z. rewrite bpow_opp. apply Rinv_le_contravar; lra. }
  assert (R1 : rnd (1 / FR m) <= bpow radix2 1022).
  { rewrite <- (rnd_id (bpow radix2 1022)) by (apply fmt_bpow; discriminate). apply rnd_le, B. }
  assert (R0 : bpow radix2 (-1024) <= rnd (1 / FR m)).
  { rewrite <- (rnd_id (bpow radix2 (-1024))) by (apply fmt_bpow; discriminate). apply rnd_le, B. }
  pose proof (bpow_gt_0 radix2 (-1024)).
  assert (Fd : fin (PrimFloat.div fone m)).
  { apply F. rewrite Rabs_pos_eq by lra. eapply Rle_lt_trans; [exact R1|]. apply bpow_lt. reflexivity. }
  split; [exact Fd|]. rewrite (E Fd). lra.
Qed.

Theorem fdone_finite eps i esize eflag a :
  fin eps -> bpow radix2 (-1022) <= FR eps -> (2 <= fa_n a < 2 ^ 53)%Z -> var_finite a = true ->
  fin (fa_min a) -> fin (fa_max a) -> fin (PrimFloat.sub (fa_max a) (fa_min a)) ->
  let s := fdone eps i esize eflag a in
  fin (f_min s) /\ fin (f_max s) /\ fin (f_mean s) /\ fin (f_stdev s) /\ fin (f_div_range s) /\ fin (f_mul_range s) /\
  fin (f_div_stdev s) /\ fin (f_mul_stdev s) /\ 0 <= FR (f_stdev s) /\
  0 < FR (f_mul_range s) /\ 0 < FR (f_mul_stdev s) /\ 0 < FR (f_div_range s) /\ 0 < FR (f_div_stdev s).
Proof.
  intros Fe Ge HN VF Fmn Fmx Fr s. unfold s, fdone.
  pose proof (bpow_gt_0 radix2 (-1022)) as P22.
  assert (O1 : 0 < FR fone) by (rewrite FR_one; lra).
  destruct (src_c14_disabled i esize eflag).
  { simpl. rewrite FR_zero. repeat split; try reflexivity; try exact O1; lra. }
  assert (M : src_c14_many (fa_n a) = true) by (unfold src_c14_many; apply Z.gtb_lt; lia).
  rewrite M. simpl.
  unfold var_finite in VF. split_andb VF.
  destruct (float_of_count_ok (fa_n a)) as [FdN EdN]; [lia|].
  set (dN := float_of_count (fa_n a)) in *.
  assert (N2 : 2 <= FR dN) by (rewrite EdN; apply IZR_le; lia).
  (* mean *)
  destruct (fin_div_ge1 (fa_sum a) dN VF FdN ltac:(lra)) as [Fmean _].
  (* variance *)
  unfold var_shape, mean_shape, div_range_shape, mul_range_shape, div_stdev_shape, mul_stdev_shape. simpl.
  set (p := PrimFloat.mul (fa_sum a) (fa_sum a)) in *.
  destruct (fin_div_ge1 p dN VF1 FdN ltac:(lra)) as [Fq _].
  set (r := PrimFloat.sub (fa_sq a) (PrimFloat.div p dN)) in *.
  (* dN - 1 >= 1 *)
  destruct (fin_sub dN fone FdN fin_one) as [Ed1 Fd1']. rewrite FR_one in Ed1, Fd1'.
  assert (R1 : 1 <= rnd (FR dN - 1)) by (rewrite <- (rnd_id 1 fmt_1) at 1; apply rnd_le; lra).
  assert (Fd1 : fin (PrimFloat.sub dN fone)).
  { apply Fd1'. eapply Rle_lt_trans; [|apply (FR_lt_emax dN)].
    apply rnd_abs_le; [apply generic_format_abs, FR_fmt|]. rewrite !Rabs_pos_eq by lra. lra. }
  specialize (Ed1 Fd1).
  destruct (fin_div_ge1 r (PrimFloat.sub dN fone) VF0 Fd1 ltac:(lra)) as [Fv _].
  set (v := PrimFloat.div r (PrimFloat.sub dN fone)) in *.
  destruct (fmax_cpp_fin v fzero Fv fin_zero) as [Fw Ew]. rewrite FR_zero in Ew.
  assert (Pw : 0 <= FR (fmax_cpp v fzero)) by (rewrite Ew; apply Rmax_r).
  destruct (fin_sqrt _ Fw Pw) as [Fsd Esd].
  set (sd := PrimFloat.sqrt (fmax_cpp v fzero)) in *.
  assert (Psd : 0 <= FR sd) by (rewrite Esd; apply rnd_ge_0, sqrt_pos).
  (* multipliers *)
  destruct (fmax_cpp_fin _ eps Fr Fe) as [Fmr Emr].
  destruct (fmax_cpp_fin sd eps Fsd Fe) as [Fms Ems].
  assert (Gmr : bpow radix2 (-1022) <= FR (fmax_cpp (PrimFloat.sub (fa_max a) (fa_min a)) eps)).
  { rewrite Emr. eapply Rle_trans; [exact Ge|apply Rmax_r]. }
  assert (Gms : bpow radix2 (-1022) <= FR (fmax_cpp sd eps)).
  { rewrite Ems. eapply Rle_trans; [exact Ge|apply Rmax_r]. }
  destruct (fin_inv_guard _ Fmr Gmr) as [Fdr Pdr]. destruct (fin_inv_guard _ Fms Gms) as [Fds Pds].
  repeat split; try assumption; lra.
Qed.

Lemma ex_feps_normal : bpow radix2 (-1022) <= FR ex_feps.
Proof.
  apply Rle_trans with (bpow radix2 (-27)); [apply bpow_le; discriminate|].
  rewrite FR_SF. vm_compute (Prim2SF _). unfold SF2R, F2R. simpl. lra.
Qed.

(* ------------------------------------------------------------------------------------------------------------------- *)
(* 10. clause 3 in floating point: the converted model on raw inputs vs the exact up-scaled model on scaled inputs     *)
(* ------------------------------------------------------------------------------------------------------------------- *)
(* one input column: weight, offset and divisor of its scaling (values of the format), raw input value *)
Record pcol := mkpcol { c_w : R; c_off : R; c_dv : R; c_x : R }.
Definition ws (cs : list pcol) : list R := map c_w cs.
Definition fbxs (cs : list pcol) : list R := map (fun c => - c_off c * c_dv c) cs.
(* the weight nano::upscale computes, and its exact value *)
Definition wfl (tw : R) (c : pcol) : R := rnd (rnd (c_w c / tw) * c_dv c).
Definition wex (tw : R) (c : pcol) : R := c_w c / tw * c_dv c.
Definition NU_w (tw : R) (c : pcol) : Prop := NU (c_w c / tw) /\ NU (rnd (c_w c / tw) * c_dv c).
(* prediction of the converted model (W', b' as computed, the dot product itself exact) *)
Definition pred_fl (tw : R) (cs : list pcol) (bfl : R) : R := rsum (map (fun c => wfl tw c * c_x c) cs) + bfl.
(* exact up-scaling (mul = 1 / div) of the exact original model on the exactly scaled input *)
Definition pred_ex (cs : list pcol) (b toff tdv : R) : R :=
  toff + (rsum (map (fun c => c_w c * ((c_x c - c_off c) * c_dv c)) cs) + b) / tdv.

Lemma xprods_cols cs : xprods (ws cs) (fbxs cs) = map (fun c => c_w c * (- c_off c * c_dv c)) cs.
Proof. induction cs; simpl; [reflexivity|]. now rewrite <- IHcs. Qed.

Lemma pred_identity cs b toff tdv : tdv <> 0 ->
  rsum (map (fun c => wex tdv c * c_x c) cs) + (rsum (xprods (ws cs) (fbxs cs)) + b - (- toff * tdv)) / tdv
  = pred_ex cs b toff tdv.
Proof.
  intros H. unfold pred_ex. rewrite xprods_cols.
  assert (E : rsum (map (fun c => wex tdv c * c_x c) cs) * tdv + rsum (map (fun c => c_w c * (- c_off c * c_dv c)) cs)
              = rsum (map (fun c => c_w c * ((c_x c - c_off c) * c_dv c)) cs)).
  { induction cs; simpl; [ring|]. rewrite <- IHcs. unfold wex. field. exact H. }
  rewrite <- E. field. exact H.
Qed.

Lemma weights_dot cs tw : tw <> 0 -> Forall (NU_w tw) cs ->
  Rabs (rsum (map (fun c => wfl tw c * c_x c) cs) - rsum (map (fun c => wex tw c * c_x c) cs))
  <= g 2 * rsum (map (fun c => Rabs (wex tw c * c_x c)) cs).
Proof.
  intros Ht. induction 1 as [|c cs [N1 N2] _ IH]; simpl.
  - replace (0 - 0) with 0 by ring. rewrite Rabs_R0. lra.
  - pose proof (up_weight_R (c_w c) tw (c_dv c) Ht N1 N2) as W. fold (wfl tw c) (wex tw c) in W.
    replace (wfl tw c * c_x c + rsum (map (fun c0 => wfl tw c0 * c_x c0) cs)
             - (wex tw c * c_x c + rsum (map (fun c0 => wex tw c0 * c_x c0) cs)))
      with ((wfl tw c - wex tw c) * c_x c
            + (rsum (map (fun c0 => wfl tw c0 * c_x c0) cs) - rsum (map (fun c0 => wex tw c0 * c_x c0) cs))) by ring.
    eapply Rle_trans; [apply Rabs_triang|]. rewrite !Rabs_mult.
    pose proof (Rabs_pos (c_x c)).
    assert (Rabs (wfl tw c - wex tw c) * Rabs (c_x c) <= g 2 * Rabs (wex tw c) * Rabs (c_x c))
      by (apply Rmult_le_compat_r; assumption).
    lra.
Qed.

Theorem prediction_R t cs b toff tdv :
  (1 <= length cs)%nat -> Permutation (sleaves t) (prods (ws cs) (fbxs cs)) -> NU_prods (ws cs) (fbxs cs) ->
  fmt b -> NU (- toff * tdv) -> tdv <> 0 -> Forall (NU_w tdv) cs ->
  NU (rnd (rnd (sfl t + b) - rnd (- toff * tdv)) / tdv) ->
  let bfl := rnd (rnd (rnd (sfl t + b) - rnd (- toff * tdv)) / tdv) in
  let M := rabssum (xprods (ws cs) (fbxs cs)) + Rabs b + Rabs (- toff * tdv) in
  Rabs (pred_fl tdv cs bfl - pred_ex cs b toff tdv)
  <= g 2 * rsum (map (fun c => Rabs (wex tdv c * c_x c)) cs) + g (length cs + 4) * (M / Rabs tdv).
Proof.
  intros Hc P NP Fb Nt Ht NW Nq bfl M.
  assert (Hl : length (ws cs) = length (fbxs cs)) by (unfold ws, fbxs; now rewrite !map_length).
  assert (Hc' : (1 <= length (ws cs))%nat) by (unfold ws; now rewrite map_length).
  pose proof (up_bias_R t (ws cs) (fbxs cs) b (- toff * tdv) tdv Hl Hc' P NP Fb Nt Ht Nq) as B.
  cbv zeta in B. fold bfl M in B. replace (length (ws cs)) with (length cs) in B by (unfold ws; now rewrite map_length).
  pose proof (weights_dot cs tdv Ht NW) as W.
  rewrite <- (pred_identity cs b toff tdv Ht). unfold pred_fl.
  match goal with |- Rabs (?a + ?b - (?c + ?d)) <= _ => replace (a + b - (c + d)) with ((a - c) + (b - d)) by ring end.
  eapply Rle_trans; [apply Rabs_triang|]. lra.
Qed.
