(* C13 -- the invariant of tuner_t::optimize (all landscapes, all sort outcomes, all surrogate proposals) and the
   facts about ml::tune's index arithmetic.  Properties_C13.v only restates what is proved here. *)
From Coq Require Import List ZArith Bool Lia Permutation Sorted Arith QArith.
From LNGen Require Import Src_tuner Src_mtune.
From LN Require Import C13_Defs C13_Proofs.
Import ListNotations.
Local Open Scope Z_scope.

Definition evald (st : state) : list igrid := concat (st_calls st).

Section Tuner.
  Variable srt : list step -> list step.
  Hypothesis srt_ok : sort_contract srt.
  Variable prop : list step -> option igrid.
  Variable f : igrid -> option Z.
  Variable cfg : config.
  Hypothesis sizes_ok : Forall (fun s => 1 <= s) (c_sizes cfg).
  Hypothesis maxe_ok : 0 <= c_max_evals cfg.
  (* the surrogate's proposal has one index per space (src_igrid(min_state_opt_x.size())) -- nothing else is assumed *)
  Hypothesis prop_len : forall steps c, prop steps = Some c -> length c = length (c_sizes cfg).

  Let sizes := c_sizes cfg.
  Let maxe := c_max_evals cfg.
  Let lo := min_igrid sizes.
  Let hi := max_igrid sizes.

  Record Inv (st : state) : Prop := {
    inv_nodup : NoDup (evald st);
    inv_grid : Forall (InGrid sizes) (evald st);
    inv_perm : Permutation (map fst (st_steps st)) (evald st);
    inv_vals : Forall (fun s => f (fst s) = Some (snd s)) (st_steps st);
    inv_sorted : StronglySorted step_le (st_steps st) }.

  Definition bound : Z := maxe + src_tn_ls_count ^ Z.of_nat (length sizes).

  Record MInv (st : state) : Prop := {
    m_inv : Inv st;
    m_bound : size_of st <= bound;
    m_first : exists rest, st_calls st = [avg_igrid sizes] :: rest }.

  Definition OGood (o : outcome) : Prop :=
    match o with
    | Finished st | Aborted st | OutOfFuel st => MInv st
    | Thrown calls =>
      NoDup (concat calls) /\ Forall (InGrid sizes) (concat calls) /\
      Z.of_nat (length (concat calls)) <= bound /\
      (exists rest, calls = [avg_igrid sizes] :: rest) /\
      (exists pre new, calls = pre ++ [new] /\ Forall (fun g => f g <> None) (concat pre) /\
                       exists g, In g new /\ f g = None)
    end.

  Lemma inv_size st : Inv st -> size_of st = Z.of_nat (length (evald st)).
  Proof.
    intros H. unfold size_of. rewrite <- (Permutation_length (inv_perm st H)), map_length. reflexivity.
  Qed.

  Lemma inv_finite st : Inv st -> Forall (fun g => f g <> None) (evald st).
  Proof.
    intros H. apply Forall_forall. intros g Hg.
    apply (Permutation_in g (Permutation_sym (inv_perm st H))) in Hg.
    apply in_map_iff in Hg. destruct Hg as (s & Hs & Hin).
    pose proof (inv_vals st H) as Hv. rewrite Forall_forall in Hv. specialize (Hv s Hin).
    subst g. congruence.
  Qed.

  Lemma inv_step_len st s : Inv st -> In s (st_steps st) -> length (fst s) = length sizes.
  Proof.
    intros H Hin. assert (Hg : In (fst s) (evald st)).
    { apply (Permutation_in _ (inv_perm st H)). apply in_map. exact Hin. }
    pose proof (inv_grid st H) as HG. rewrite Forall_forall in HG.
    exact (forall2_length _ _ _ (HG _ Hg)).
  Qed.

  Lemma lo_length : length lo = length sizes.
  Proof. unfold lo, min_igrid. apply map_length. Qed.

  (* one call of evaluate *)
  Lemma evaluate_spec igrids st :
    Inv st -> NoDup igrids -> Forall (InGrid sizes) igrids ->
    match evaluate srt f igrids st with
    | ENone => True
    | EThrow calls =>
      exists new, new = fresh (st_steps st) igrids /\
                  calls = st_calls st ++ [new] /\ (length new <= length igrids)%nat /\
                  NoDup (concat calls) /\ Forall (InGrid sizes) (concat calls) /\
                  exists g, In g new /\ f g = None
    | EOk ch st' =>
      ch = true /\ Inv st' /\
      exists new, new = fresh (st_steps st) igrids /\
                  st_calls st' = st_calls st ++ [new] /\ (length new <= length igrids)%nat /\
                  size_of st' = size_of st + Z.of_nat (length new) /\ (1 <= length new)%nat
    end.
  Proof.
    intros HI Hnd Hg. unfold evaluate.
    destruct (fresh (st_steps st) igrids) as [|g0 new'] eqn:Enew; [exact I|].
    set (new := g0 :: new') in *.
    assert (Hlen : (length new <= length igrids)%nat).
    { rewrite <- Enew. unfold fresh. apply filter_length_le. }
    assert (Hnew_nd : NoDup new).
    { rewrite <- Enew. unfold fresh. apply NoDup_filter. exact Hnd. }
    assert (Hnew_in : forall g, In g new -> In g igrids /\ ~ In g (evald st)).
    { intros g Hin. rewrite <- Enew in Hin. apply fresh_In in Hin. destruct Hin as [H1 H2]. split; [exact H1|].
      intros Hc. apply H2. apply (Permutation_in g (Permutation_sym (inv_perm st HI))). exact Hc. }
    assert (Hcat : concat (st_calls st ++ [new]) = evald st ++ new) by apply concat_snoc.
    assert (Hnd' : NoDup (concat (st_calls st ++ [new]))).
    { rewrite Hcat. apply nodup_app; [exact (inv_nodup st HI)|exact Hnew_nd|].
      intros x Hx Hy. exact (proj2 (Hnew_in x Hy) Hx). }
    assert (Hg' : Forall (InGrid sizes) (concat (st_calls st ++ [new]))).
    { rewrite Hcat. apply Forall_app. split; [exact (inv_grid st HI)|].
      apply Forall_forall. intros x Hx. rewrite Forall_forall in Hg. apply Hg. exact (proj1 (Hnew_in x Hx)). }
    destruct (eval_all f new) as [ns|] eqn:Eev.
    - destruct (eval_all_Some _ _ _ Eev) as [Hfst Hvals].
      destruct (srt_ok (st_steps st ++ ns)) as [Hp Hs].
      assert (Hl : length (srt (st_steps st ++ ns)) = (length (st_steps st) + length new)%nat).
      { rewrite (Permutation_length Hp), app_length. f_equal. rewrite <- Hfst, map_length. reflexivity. }
      assert (H1 : (1 <= length new)%nat) by (unfold new; cbn; lia).
      split; [|split].
      + unfold src_tn_eval_changed, size_of. rewrite Hl. apply negb_true_iff. apply Z.eqb_neq. lia.
      + constructor; unfold evald; cbn [st_steps st_calls].
        * exact Hnd'.
        * exact Hg'.
        * rewrite Hcat. eapply Permutation_trans; [apply Permutation_map; exact Hp|].
          rewrite map_app. apply Permutation_app; [exact (inv_perm st HI)|].
          rewrite <- Hfst. apply Permutation_refl.
        * apply (perm_Forall _ _ _ (Permutation_sym Hp)). apply Forall_app. split; [exact (inv_vals st HI)|exact Hvals].
        * exact Hs.
      + exists new. cbn [st_calls]. split; [reflexivity|]. split; [reflexivity|]. split; [exact Hlen|]. split; [|exact H1].
        unfold size_of. cbn [st_steps]. rewrite Hl. lia.
    - exists new. split; [reflexivity|]. split; [reflexivity|]. split; [exact Hlen|]. split; [exact Hnd'|]. split; [exact Hg'|].
      apply eval_all_None. exact Eev.
  Qed.

  (* one call of evaluate(local_search(c, r)) inside a loop whose condition holds *)
  Lemma loop_eval c r st :
    MInv st -> r <> 0 -> length c = length sizes -> size_of st < maxe ->
    match evaluate srt f (local_search lo hi c r) st with
    | ENone => True
    | EThrow calls => OGood (Thrown calls)
    | EOk ch st' => ch = true /\ MInv st' /\ size_of st < size_of st'
    end.
  Proof.
    intros HM Hr Hc Hsz. destruct HM as [HI Hb [rest Hfirst]].
    assert (Hnd : NoDup (local_search lo hi c r)).
    { apply local_search_NoDup; [exact Hr|]. rewrite lo_length. exact Hc. }
    assert (Hg : Forall (InGrid sizes) (local_search lo hi c r)).
    { apply Forall_forall. intros g Hin. apply (local_search_in_grid sizes c r g Hc Hin). }
    pose proof (local_search_length lo hi c r) as Hll. rewrite lo_length in Hll.
    pose proof (evaluate_spec _ st HI Hnd Hg) as He.
    destruct (evaluate srt f (local_search lo hi c r) st) as [|calls|ch st']; [exact I| |].
    - destruct He as (new & _ & Hcalls & Hlen & Hnd' & Hg' & Hbad). cbn.
      split; [exact Hnd'|]. split; [exact Hg'|]. split; [|split].
      + rewrite Hcalls, concat_snoc, app_length. fold (evald st).
        pose proof (inv_size st HI) as Hs. unfold bound. lia.
      + rewrite Hcalls, Hfirst. exists (rest ++ [new]). reflexivity.
      + exists (st_calls st), new. split; [exact Hcalls|]. split; [exact (inv_finite st HI)|exact Hbad].
    - destruct He as (Hch & HI' & new & _ & Hcalls & Hlen & Hsize & H1). split; [exact Hch|]. split; [|lia].
      constructor; [exact HI'| |].
      + unfold bound. lia.
      + rewrite Hcalls, Hfirst. exists (rest ++ [new]). reflexivity.
  Qed.

  (* invariant and termination measure of the transition function *)
  Definition MSInv (ms : mstate) : Prop :=
    MInv (ms_st ms) /\ match ms_phase ms with PCoarse r => 1 <= r | PRefine => True end.

  Definition measure (ms : mstate) : Z :=
    Z.max 0 (maxe - size_of (ms_st ms)) + match ms_phase ms with PCoarse _ => 1 | PRefine => 0 end.

  Lemma front_len st c : Inv st -> front (st_steps st) = Some c -> length c = length sizes.
  Proof.
    intros HI Hf. destruct (st_steps st) as [|s t] eqn:E; [discriminate|]. cbn in Hf. inversion Hf. subst c.
    apply (inv_step_len st s HI). rewrite E. left. reflexivity.
  Qed.

  Lemma step1_spec ms :
    MSInv ms ->
    match step1 srt prop f cfg ms with
    | SContinue ms' => MSInv ms' /\ measure ms' < measure ms
    | SDone o => OGood o /\ forall st, o <> OutOfFuel st
    end.
  Proof.
    intros [HM Hph]. unfold step1. fold sizes maxe lo hi.
    destruct (ms_phase ms) as [radius|] eqn:Eph.
    - (* coarse loop *)
      destruct (src_tn_coarse_continue (size_of (ms_st ms)) maxe) eqn:Ec.
      + unfold src_tn_coarse_continue in Ec. apply andb_true_iff in Ec. destruct Ec as [_ Ec].
        apply Z.ltb_lt in Ec. rewrite Z.quot_div_nonneg in Ec by lia.
        assert (Hsz : size_of (ms_st ms) < maxe).
        { pose proof (Z.div_le_upper_bound maxe 2 maxe ltac:(lia) ltac:(lia)). lia. }
        destruct (front (st_steps (ms_st ms))) as [c|] eqn:Ef.
        * pose proof (loop_eval c radius (ms_st ms) HM ltac:(lia) (front_len _ _ (m_inv _ HM) Ef) Hsz) as He.
          destruct (evaluate srt f (local_search lo hi c radius) (ms_st ms)) as [|calls|ch st'].
          -- split; [split; [exact HM|exact I]|]. unfold measure. cbn [ms_st ms_phase]. rewrite Eph. lia.
          -- split; [exact He|]. intros st. discriminate.
          -- destruct He as (Hch & HM' & Hgrow). subst ch. split.
             ++ split; [exact HM'|]. cbn [ms_phase]. unfold src_tn_coarse_factor. lia.
             ++ unfold measure. cbn [ms_st ms_phase]. rewrite Eph. lia.
        * split; [split; [exact HM|exact I]|]. unfold measure. cbn [ms_st ms_phase]. rewrite Eph. lia.
      + split; [split; [exact HM|exact I]|]. unfold measure. cbn [ms_st ms_phase]. rewrite Eph. lia.
    - (* do_optimize *)
      destruct (refine_continue (c_kind cfg) (size_of (ms_st ms)) maxe) eqn:Ec.
      + assert (Hsz : size_of (ms_st ms) < maxe).
        { unfold refine_continue, src_tn_local_continue, src_tn_surr_continue in Ec.
          destruct (c_kind cfg); apply andb_true_iff in Ec; destruct Ec as [_ Ec]; apply Z.ltb_lt in Ec; exact Ec. }
        assert (Hr : refine_radius (c_kind cfg) <> 0).
        { unfold refine_radius, src_tn_local_radius, src_tn_surr_radius. destruct (c_kind cfg); lia. }
        destruct (centre (c_kind cfg) prop (st_steps (ms_st ms))) as [c|] eqn:Ece.
        * assert (Hc : length c = length sizes).
          { unfold centre in Ece. destruct (c_kind cfg); [exact (front_len _ _ (m_inv _ HM) Ece)|exact (prop_len _ _ Ece)]. }
          pose proof (loop_eval c _ (ms_st ms) HM Hr Hc Hsz) as He.
          destruct (evaluate srt f (local_search lo hi c (refine_radius (c_kind cfg))) (ms_st ms)) as [|calls|ch st'].
          -- split; [exact HM|]. intros st. discriminate.
          -- split; [exact He|]. intros st. discriminate.
          -- destruct He as (Hch & HM' & Hgrow). subst ch. split.
             ++ split; [exact HM'|exact I].
             ++ unfold measure. cbn [ms_st ms_phase]. rewrite Eph. lia.
        * split; [exact HM|]. intros st. discriminate.
      + split; [exact HM|]. intros st. discriminate.
  Qed.

  Lemma run_spec fuel : forall ms, MSInv ms ->
    OGood (run fuel srt prop f cfg ms) /\
    (measure ms < Z.of_nat fuel -> forall st, run fuel srt prop f cfg ms <> OutOfFuel st).
  Proof.
    induction fuel as [|k IH]; intros ms HM.
    - cbn [run]. split; [exact (proj1 HM)|]. intros Hm. unfold measure in Hm. destruct (ms_phase ms); lia.
    - cbn [run]. pose proof (step1_spec ms HM) as Hs.
      destruct (step1 srt prop f cfg ms) as [ms'|o].
      + destruct Hs as [HM' Hdec]. destruct (IH ms' HM') as [Hg Hf]. split; [exact Hg|].
        intros Hm. apply Hf. lia.
      + destruct Hs as [Hg Hn]. split; [exact Hg|]. intros _. exact Hn.
  Qed.

  Lemma init_spec :
    match init srt f cfg with
    | SContinue ms => MSInv ms /\ measure ms <= maxe + 1
    | SDone o => OGood o /\ forall st, o <> OutOfFuel st
    end.
  Proof.
    unfold init. fold sizes.
    assert (HI0 : Inv empty_state).
    { constructor; unfold evald; cbn; constructor. }
    assert (Hnd : NoDup [avg_igrid sizes]) by (constructor; [intros []|constructor]).
    assert (Hg : Forall (InGrid sizes) [avg_igrid sizes]) by (constructor; [apply avg_in_grid; exact sizes_ok|constructor]).
    pose proof (evaluate_spec _ empty_state HI0 Hnd Hg) as He.
    assert (Hne : evaluate srt f [avg_igrid sizes] empty_state <> ENone).
    { unfold evaluate. cbn. destruct (f (avg_igrid sizes)); discriminate. }
    pose proof (local_search_length lo hi [] 1) as Hpow. rewrite lo_length in Hpow.
    assert (Hp1 : 1 <= src_tn_ls_count ^ Z.of_nat (length sizes)).
    { unfold src_tn_ls_count. apply (Z.pow_le_mono_r 3 0); lia. }
    assert (Hfresh : fresh (st_steps empty_state) [avg_igrid sizes] = [avg_igrid sizes]) by reflexivity.
    destruct (evaluate srt f [avg_igrid sizes] empty_state) as [|calls|ch st']; [contradiction| |].
    - destruct He as (new & Hnew & Hcalls & Hlen & Hnd' & Hg' & Hbad). rewrite Hfresh in Hnew. subst new.
      cbn in Hcalls. subst calls.
      split; [|intros st; discriminate]. cbn.
      split; [constructor; [intros []|constructor]|]. split; [exact Hg|]. split; [unfold bound, maxe, sizes in *; lia|].
      split; [exists []; reflexivity|]. exists [], [avg_igrid sizes]. split; [reflexivity|]. split; [constructor|exact Hbad].
    - destruct He as (Hch & HI' & new & Hnew & Hcalls & Hlen & Hsize & H1). rewrite Hfresh in Hnew. subst new.
      cbn in Hcalls, Hsize.
      assert (Hs1 : size_of st' = 1) by (unfold size_of in Hsize |- *; cbn in Hsize; lia).
      split.
      + split; [|cbn; unfold src_tn_coarse_radius0; lia]. cbn [ms_st].
        constructor; [exact HI'|unfold bound, maxe, sizes in *; lia|]. rewrite Hcalls. exists []. reflexivity.
      + unfold measure, maxe in *. cbn [ms_st ms_phase]. lia.
  Qed.
End Tuner.

(* ------------------------------------------------------------------------------------------------ *)
(* the main result about tuner_t::optimize and its corollaries                                       *)
(* ------------------------------------------------------------------------------------------------ *)
Definition prop_shape (prop : list step -> option igrid) (cfg : config) : Prop :=
  forall steps c, prop steps = Some c -> length c = length (c_sizes cfg).

Definition valid_config (cfg : config) : Prop :=
  Forall (fun s => 1 <= s) (c_sizes cfg) /\ 0 <= c_max_evals cfg.

Theorem optimize_good srt prop f cfg :
  sort_contract srt -> valid_config cfg -> prop_shape prop cfg ->
  OGood f cfg (optimize srt prop f cfg) /\ forall st, optimize srt prop f cfg <> OutOfFuel st.
Proof.
  intros Hs [Hsz Hm] Hp. unfold optimize.
  pose proof (init_spec srt Hs f cfg Hsz Hm) as Hi.
  destruct (init srt f cfg) as [ms|o]; [|exact Hi].
  destruct Hi as [HM Hmeas].
  destruct (run_spec srt Hs prop f cfg Hm Hp (fuel_for (c_max_evals cfg)) ms HM) as [Hg Hf].
  split; [exact Hg|]. apply Hf. unfold fuel_for. lia.
Qed.

Lemma ogood_calls f cfg o : OGood f cfg o ->
  NoDup (concat (calls_of o)) /\ Forall (InGrid (c_sizes cfg)) (concat (calls_of o)) /\
  Z.of_nat (length (concat (calls_of o))) <= c_max_evals cfg + 3 ^ Z.of_nat (length (c_sizes cfg)) /\
  exists rest, calls_of o = [avg_igrid (c_sizes cfg)] :: rest.
Proof.
  assert (Hst : forall st, MInv f cfg st ->
    NoDup (concat (st_calls st)) /\ Forall (InGrid (c_sizes cfg)) (concat (st_calls st)) /\
    Z.of_nat (length (concat (st_calls st))) <= c_max_evals cfg + 3 ^ Z.of_nat (length (c_sizes cfg)) /\
    exists rest, st_calls st = [avg_igrid (c_sizes cfg)] :: rest).
  { intros st [HI Hb Hfirst]. split; [exact (inv_nodup _ _ _ HI)|]. split; [exact (inv_grid _ _ _ HI)|].
    split; [|exact Hfirst]. change (concat (st_calls st)) with (evald st). rewrite <- (inv_size f cfg st HI). exact Hb. }
  destruct o as [st|calls|st|st]; cbn [OGood calls_of]; intros H; try (apply Hst; exact H).
  destruct H as (H1 & H2 & H3 & H4 & _). repeat split; assumption.
Qed.

Lemma s_grid_only srt prop f cfg :
  sort_contract srt -> valid_config cfg -> prop_shape prop cfg ->
  Forall (InGrid (c_sizes cfg)) (concat (calls_of (optimize srt prop f cfg))).
Proof. intros H1 H2 H3. exact (proj1 (proj2 (ogood_calls _ _ _ (proj1 (optimize_good srt prop f cfg H1 H2 H3))))). Qed.

Lemma s_no_repeat srt prop f cfg :
  sort_contract srt -> valid_config cfg -> prop_shape prop cfg ->
  NoDup (concat (calls_of (optimize srt prop f cfg))).
Proof. intros H1 H2 H3. exact (proj1 (ogood_calls _ _ _ (proj1 (optimize_good srt prop f cfg H1 H2 H3)))). Qed.

Lemma s_bound srt prop f cfg :
  sort_contract srt -> valid_config cfg -> prop_shape prop cfg ->
  Z.of_nat (length (concat (calls_of (optimize srt prop f cfg)))) <= c_max_evals cfg + 3 ^ Z.of_nat (length (c_sizes cfg)).
Proof. intros H1 H2 H3. exact (proj1 (proj2 (proj2 (ogood_calls _ _ _ (proj1 (optimize_good srt prop f cfg H1 H2 H3)))))). Qed.

Lemma s_first_batch_single srt prop f cfg :
  sort_contract srt -> valid_config cfg -> prop_shape prop cfg ->
  exists rest, calls_of (optimize srt prop f cfg) = [avg_igrid (c_sizes cfg)] :: rest.
Proof. intros H1 H2 H3. exact (proj2 (proj2 (proj2 (ogood_calls _ _ _ (proj1 (optimize_good srt prop f cfg H1 H2 H3)))))). Qed.

Lemma s_fuel srt prop f cfg :
  sort_contract srt -> valid_config cfg -> prop_shape prop cfg ->
  forall st, optimize srt prop f cfg <> OutOfFuel st.
Proof. intros H1 H2 H3. exact (proj2 (optimize_good srt prop f cfg H1 H2 H3)). Qed.

(* what a normal return looks like: all evaluations, with the callback's values, sorted, minimum first *)
Lemma s_sorted_min_first srt prop f cfg st :
  sort_contract srt -> valid_config cfg -> prop_shape prop cfg ->
  optimize srt prop f cfg = Finished st ->
  StronglySorted step_le (st_steps st) /\
  Permutation (map fst (st_steps st)) (concat (st_calls st)) /\
  Forall (fun s => f (fst s) = Some (snd s)) (st_steps st) /\
  exists s0 rest, st_steps st = s0 :: rest /\
    forall g, In g (concat (st_calls st)) -> exists v, f g = Some v /\ snd s0 <= v.
Proof.
  intros H1 H2 H3 E. pose proof (proj1 (optimize_good srt prop f cfg H1 H2 H3)) as Hg. rewrite E in Hg.
  cbn in Hg. destruct Hg as [HI Hb [rest0 Hfirst]].
  split; [exact (inv_sorted _ _ _ HI)|]. split; [exact (inv_perm _ _ _ HI)|]. split; [exact (inv_vals _ _ _ HI)|].
  destruct (st_steps st) as [|s0 rest] eqn:Est.
  - exfalso. pose proof (Permutation_length (inv_perm _ _ _ HI)) as Hl. rewrite Est in Hl.
    unfold evald in Hl. rewrite Hfirst in Hl. cbn in Hl. discriminate.
  - exists s0, rest. split; [reflexivity|]. intros g Hin.
    apply (Permutation_in g (Permutation_sym (inv_perm _ _ _ HI))) in Hin. rewrite Est in Hin.
    apply in_map_iff in Hin. destruct Hin as (s & Hs & Hin).
    pose proof (inv_vals _ _ _ HI) as Hv. rewrite Est in Hv. rewrite Forall_forall in Hv.
    exists (snd s). subst g. split; [apply Hv; exact Hin|].
    pose proof (inv_sorted _ _ _ HI) as Hs. rewrite Est in Hs. inversion Hs as [|? ? _ Hall]; subst.
    destruct Hin as [Hin|Hin]; [subst; lia|]. rewrite Forall_forall in Hall. exact (Hall s Hin).
Qed.

(* non-finite values: an evaluated non-finite value always ends in the exception, the exception is raised only for one,
   and everything evaluated before the offending batch was finite *)
Lemma s_nonfinite srt prop f cfg :
  sort_contract srt -> valid_config cfg -> prop_shape prop cfg ->
  (forall g, In g (concat (calls_of (optimize srt prop f cfg))) -> f g = None ->
             exists calls, optimize srt prop f cfg = Thrown calls) /\
  (forall calls, optimize srt prop f cfg = Thrown calls ->
     exists pre new, calls = pre ++ [new] /\ Forall (fun g => f g <> None) (concat pre) /\
                     exists g, In g new /\ f g = None).
Proof.
  intros H1 H2 H3. pose proof (proj1 (optimize_good srt prop f cfg H1 H2 H3)) as Hg.
  destruct (optimize srt prop f cfg) as [st|calls|st|st]; cbn [OGood calls_of] in *.
  - split; [|intros c E; discriminate]. intros g Hin Hf. exfalso.
    pose proof (inv_finite f cfg st (m_inv _ _ _ Hg)) as Hfin. rewrite Forall_forall in Hfin. exact (Hfin g Hin Hf).
  - split; [intros; exists calls; reflexivity|]. intros c E. inversion E. subst c.
    destruct Hg as (_ & _ & _ & _ & Hbad). exact Hbad.
  - split; [|intros c E; discriminate]. intros g Hin Hf. exfalso.
    pose proof (inv_finite f cfg st (m_inv _ _ _ Hg)) as Hfin. rewrite Forall_forall in Hfin. exact (Hfin g Hin Hf).
  - split; [|intros c E; discriminate]. intros g Hin Hf. exfalso.
    pose proof (inv_finite f cfg st (m_inv _ _ _ Hg)) as Hfin. rewrite Forall_forall in Hfin. exact (Hfin g Hin Hf).
Qed.

(* local_search on its own (any box, any source of the right dimension) *)
Lemma s_local_search sizes src r :
  r <> 0 -> length src = length sizes ->
  NoDup (local_search (min_igrid sizes) (max_igrid sizes) src r) /\
  Forall (InGrid sizes) (local_search (min_igrid sizes) (max_igrid sizes) src r) /\
  Z.of_nat (length (local_search (min_igrid sizes) (max_igrid sizes) src r)) <= 3 ^ Z.of_nat (length sizes).
Proof.
  intros Hr Hl. split; [|split].
  - apply local_search_NoDup; [exact Hr|]. unfold min_igrid. rewrite map_length. exact Hl.
  - apply Forall_forall. intros g Hin. exact (local_search_in_grid sizes src r g Hl Hin).
  - pose proof (local_search_length (min_igrid sizes) (max_igrid sizes) src r) as H.
    unfold min_igrid in H at 2. rewrite map_length in H. exact H.
Qed.

(* ------------------------------------------------------------------------------------------------ *)
(* ml::tune: index -> (trial, fold), result_t slots, optimum_trial                                   *)
(* ------------------------------------------------------------------------------------------------ *)
Lemma decode_eq folds old i : 0 < folds -> 0 <= i ->
  decode folds old i = (old + i / folds, i mod folds).
Proof.
  intros Hf Hi. unfold decode, src_mt_store_trial, src_mt_trial, src_mt_fold.
  rewrite Z.quot_div_nonneg, Z.rem_mod_nonneg by lia. reflexivity.
Qed.

Lemma batch_tasks_In folds old n t fo : 0 < folds -> 0 <= n ->
  In (t, fo) (batch_tasks folds old n) <-> (old <= t < old + n /\ 0 <= fo < folds).
Proof.
  intros Hf Hn. unfold batch_tasks, src_mt_tasks. rewrite in_map_iff. split.
  - intros (i & Hd & Hi). apply zrange_In in Hi. rewrite decode_eq in Hd by lia. inversion Hd. subst.
    pose proof (Z.mod_pos_bound i folds Hf). pose proof (Z.div_pos i folds ltac:(lia) Hf).
    assert (i / folds < n) by (apply Z.div_lt_upper_bound; lia). lia.
  - intros [Ht Hfo]. exists ((t - old) * folds + fo). split.
    + rewrite decode_eq by nia. f_equal.
      * rewrite Z.div_add_l by lia. rewrite Z.div_small by lia. lia.
      * rewrite Z.add_comm, Z.mod_add by lia. apply Z.mod_small. lia.
    + apply zrange_In. nia.
Qed.

Lemma batch_tasks_NoDup folds old n : 0 < folds -> NoDup (batch_tasks folds old n).
Proof.
  intros Hf. unfold batch_tasks. apply nodup_map_inj_in; [|apply zrange_NoDup].
  intros i j Hi Hj H. apply zrange_In in Hi. apply zrange_In in Hj.
  rewrite !decode_eq in H by lia. inversion H as [[H1 H2]].
  rewrite (Z.div_mod i folds), (Z.div_mod j folds) by lia. rewrite H2. f_equal. f_equal. lia.
Qed.

Fixpoint zsum (l : list Z) : Z := match l with [] => 0 | x :: r => x + zsum r end.

Lemma zsum_nonneg l : Forall (fun n => 0 <= n) l -> 0 <= zsum l.
Proof. induction 1; cbn; lia. Qed.

Lemma all_tasks_spec folds : 0 < folds -> forall batches old, Forall (fun n => 0 <= n) batches ->
  NoDup (all_tasks folds old batches) /\
  forall t fo, In (t, fo) (all_tasks folds old batches) <-> (old <= t < old + zsum batches /\ 0 <= fo < folds).
Proof.
  intros Hf. induction batches as [|n r IH]; intros old Hb; cbn [all_tasks zsum].
  - split; [constructor|]. intros t fo. split; [intros []|lia].
  - inversion Hb as [|? ? Hn Hr]; subst. destruct (IH (old + n) Hr) as [IHn IHi].
    pose proof (zsum_nonneg r Hr) as Hz. split.
    + apply nodup_app; [apply batch_tasks_NoDup; exact Hf|exact IHn|].
      intros [t fo] H1 H2. apply batch_tasks_In in H1; [|lia|lia]. apply IHi in H2. lia.
    + intros t fo. rewrite in_app_iff, batch_tasks_In, IHi by lia. lia.
Qed.

Lemma slot_spec folds t fo t' fo' :
  0 < folds -> 0 <= fo < folds -> 0 <= fo' < folds ->
  slot folds (t, fo) = slot folds (t', fo') -> (t, fo) = (t', fo').
Proof.
  unfold slot, src_mr_slot_store. cbn [fst snd]. intros Hf H1 H2 H.
  assert (t = t') by nia. subst. f_equal. lia.
Qed.

Lemma slot_range folds trials t fo :
  0 < folds -> 0 <= t < trials -> 0 <= fo < folds -> 0 <= slot folds (t, fo) < folds * trials.
Proof. unfold slot, src_mr_slot_store. cbn [fst snd]. intros. nia. Qed.

Lemma slot_load_eq folds tf : slot_load folds tf = slot folds tf.
Proof. reflexivity. Qed.

(* optimum_trial: the first index of the smallest value (when some value is below the initial best_value) *)
Lemma optimum_go_spec : forall vals trial bt bv,
  (Forall (fun w => bv <= w) vals /\ optimum_go vals trial bt bv = bt) \/
  (exists k v, optimum_go vals trial bt bv = trial + Z.of_nat k /\ nth_error vals k = Some v /\ v < bv /\
               Forall (fun w => v <= w) vals /\
               forall j w, (j < k)%nat -> nth_error vals j = Some w -> v < w).
Proof.
  induction vals as [|x r IH]; intros trial bt bv; cbn [optimum_go].
  - left. split; [constructor|reflexivity].
  - unfold src_mr_optimum_better. destruct (x <? bv) eqn:E.
    + apply Z.ltb_lt in E. right. destruct (IH (trial + 1) trial x) as [[Hall Hr]|(k & v & Hr & Hn & Hv & Hall & Hfirst)].
      * exists O, x. rewrite Hr. split; [cbn; lia|]. split; [reflexivity|]. split; [exact E|].
        split; [constructor; [lia|exact Hall]|]. intros j w Hj. lia.
      * exists (S k), v. rewrite Hr. split; [lia|]. split; [exact Hn|]. split; [lia|].
        split; [constructor; [lia|exact Hall]|]. intros j w Hj Hw. destruct j as [|j].
        -- cbn in Hw. inversion Hw. subst. exact Hv.
        -- cbn in Hw. apply (Hfirst j w); [lia|exact Hw].
    + apply Z.ltb_ge in E. destruct (IH (trial + 1) bt bv) as [[Hall Hr]|(k & v & Hr & Hn & Hv & Hall & Hfirst)].
      * left. split; [constructor; [exact E|exact Hall]|exact Hr].
      * right. exists (S k), v. rewrite Hr. split; [lia|]. split; [exact Hn|]. split; [exact Hv|].
        split; [constructor; [lia|exact Hall]|]. intros j w Hj Hw. destruct j as [|j].
        -- cbn in Hw. inversion Hw. subst. lia.
        -- cbn in Hw. apply (Hfirst j w); [lia|exact Hw].
Qed.

Lemma s_optimum_trial vmax vals :
  (exists v, In v vals /\ v < vmax) ->
  exists k v, optimum_trial vmax vals = Z.of_nat k /\ nth_error vals k = Some v /\
              Forall (fun w => v <= w) vals /\
              forall j w, (j < k)%nat -> nth_error vals j = Some w -> v < w.
Proof.
  intros (v0 & Hin & Hlt). unfold optimum_trial.
  destruct (optimum_go_spec vals 0 0 vmax) as [[Hall _]|(k & v & Hr & Hn & Hv & Hall & Hfirst)].
  - exfalso. rewrite Forall_forall in Hall. specialize (Hall v0 Hin). lia.
  - exists k, v. split; [rewrite Hr; lia|]. split; [exact Hn|]. split; [exact Hall|exact Hfirst].
Qed.

(* without any value below the initial best_value (all NaN / huge) trial 0 is reported *)
Lemma s_optimum_trial_default vmax vals :
  Forall (fun w => vmax <= w) vals -> optimum_trial vmax vals = 0.
Proof.
  intros H. unfold optimum_trial.
  destruct (optimum_go_spec vals 0 0 vmax) as [[_ Hr]|(k & v & _ & Hn & Hv & _ & _)]; [exact Hr|].
  exfalso. apply nth_error_In in Hn. rewrite Forall_forall in H. specialize (H v Hn). lia.
Qed.

(* comparing the means over a common number of folds is comparing the sums *)
Lemma mean_order (s1 s2 : Z) (folds : positive) : (s1 # folds <= s2 # folds)%Q <-> s1 <= s2.
Proof. unfold Qle. cbn. split; intros H; nia. Qed.

Lemma trial_sums_nth table k : nth_error (trial_sums table) k = option_map (fun row => fold_right Z.add 0 row) (nth_error table k).
Proof. unfold trial_sums. apply nth_error_map. Qed.

(* the stores of the tasks of a batch are order independent (disjoint slots) *)
Lemma store_all_other {A} folds (tasks : list ((Z * Z) * A)) : forall t k,
  (forall p, In p tasks -> slot folds (fst p) <> k) -> store_all folds tasks t k = t k.
Proof.
  induction tasks as [|p r IH]; intros t k H; [reflexivity|].
  unfold store_all. cbn [fold_left]. fold (store_all folds r (upd (slot folds (fst p)) (snd p) t)).
  rewrite IH by (intros q Hq; apply H; right; exact Hq).
  unfold upd. destruct (k =? slot folds (fst p)) eqn:E; [|reflexivity].
  apply Z.eqb_eq in E. exfalso. exact (H p (or_introl eq_refl) (eq_sym E)).
Qed.

Lemma store_all_lookup {A} folds (tasks : list ((Z * Z) * A)) : forall t tf v,
  NoDup (map (fun p => slot folds (fst p)) tasks) -> In (tf, v) tasks ->
  store_all folds tasks t (slot folds tf) = Some v.
Proof.
  induction tasks as [|p r IH]; intros t tf v Hn Hin; [destruct Hin|].
  cbn [map] in Hn. inversion Hn as [|? ? Hnp Hnr]; subst.
  unfold store_all. cbn [fold_left]. fold (store_all folds r (upd (slot folds (fst p)) (snd p) t)).
  destruct Hin as [Hin|Hin].
  - subst p. cbn [fst snd] in *. rewrite store_all_other.
    + unfold upd. rewrite Z.eqb_refl. reflexivity.
    + intros q Hq Heq. apply Hnp. apply in_map_iff. exists q. split; [exact Heq|exact Hq].
  - apply IH; assumption.
Qed.

Lemma s_store_order_independent {A} folds (tasks tasks' : list ((Z * Z) * A)) t :
  NoDup (map (fun p => slot folds (fst p)) tasks) -> Permutation tasks tasks' ->
  forall k, store_all folds tasks t k = store_all folds tasks' t k.
Proof.
  intros Hn Hp k.
  assert (Hn' : NoDup (map (fun p => slot folds (fst p)) tasks')).
  { apply (Permutation_NoDup (Permutation_map _ Hp)). exact Hn. }
  destruct (in_dec Z.eq_dec k (map (fun p => slot folds (fst p)) tasks)) as [Hi|Hi].
  - apply in_map_iff in Hi. destruct Hi as ([tf v] & Hk & Hin). cbn [fst] in Hk. subst k.
    rewrite (store_all_lookup folds tasks t tf v Hn Hin).
    rewrite (store_all_lookup folds tasks' t tf v Hn' (Permutation_in _ Hp Hin)). reflexivity.
  - rewrite !store_all_other; [reflexivity| |].
    + intros p Hp' Heq. apply Hi. apply in_map_iff. exists p. split; [exact Heq|].
      exact (Permutation_in _ (Permutation_sym Hp) Hp').
    + intros p Hp' Heq. apply Hi. apply in_map_iff. exists p. split; [exact Heq|exact Hp'].
Qed.

(* the slots of all tasks of a tuning run are pairwise distinct: the premise of the lemma above holds in ml::tune *)
Lemma all_tasks_slots_NoDup folds batches :
  0 < folds -> Forall (fun n => 0 <= n) batches ->
  NoDup (map (slot folds) (all_tasks folds 0 batches)).
Proof.
  intros Hf Hb. destruct (all_tasks_spec folds Hf batches 0 Hb) as [Hn Hi].
  apply nodup_map_inj_in; [|exact Hn].
  intros [t fo] [t' fo'] H1 H2 H. apply Hi in H1. apply Hi in H2.
  apply (slot_spec folds t fo t' fo' Hf); [lia|lia|exact H].
Qed.

(* the model read of ml::tune: result.closest_trial(params, old_trials) returns a trial below old_trials, or trial 0 when
   there is none (best_trial is initialised with 0); its extra is read while the other tasks of the batch store theirs *)
Definition closest_ok (old_trials c : Z) : Prop := 0 <= c < src_mt_closest_limit old_trials \/ c = 0.

Lemma s_closest_race_free folds old n i j c :
  0 < folds -> 0 <= old -> (old = 0 -> n = 1) ->
  0 <= i < src_mt_tasks folds n -> 0 <= j < src_mt_tasks folds n -> i <> j ->
  closest_ok old c ->
  slot_load folds (c, src_mt_fold i folds) <> slot folds (decode folds old j).
Proof.
  unfold src_mt_tasks, closest_ok, src_mt_closest_limit. intros Hf Ho Hfirst Hi Hj Hij Hc Heq.
  rewrite slot_load_eq in Heq. rewrite decode_eq in Heq by lia.
  unfold src_mt_fold in Heq. rewrite Z.rem_mod_nonneg in Heq by lia.
  pose proof (Z.mod_pos_bound i folds Hf) as Hmi. pose proof (Z.mod_pos_bound j folds Hf) as Hmj.
  apply slot_spec in Heq; [|exact Hf|exact Hmi|exact Hmj].
  inversion Heq as [[H1 H2]].
  pose proof (Z.div_pos j folds ltac:(lia) Hf) as Hdj.
  destruct Hc as [Hc|Hc]; [lia|].
  assert (old = 0) by lia. specialize (Hfirst H). subst n.
  rewrite Z.mul_1_r in Hi, Hj. rewrite !Z.mod_small in H2 by lia. exact (Hij H2).
Qed.
