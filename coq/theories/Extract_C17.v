(* extraction of the executable thread-pool protocol model (ExtrOcamlBasic only) *)
From Coq Require Import List ZArith Extraction ExtrOcamlBasic.
From LN Require Import C17_Defs.
Extraction Language OCaml.
Extraction "extracted/c17_model.ml" step run init wf_config final enabled chunks chunks_inline map_inline
  chunked_inline indexed_inline complete.
