(* extraction of the executable thread-pool protocol model (ExtrOcamlBasic only) *)
From Coq Require Import List ZArith NArith Extraction ExtrOcamlBasic.
From LN Require Import C17_Defs C17_Fast_Defs.
Extraction Language OCaml.
(* C17_Defs: the proved unary model (kept: the driver cross-checks the fast acceptor against it on small traces);
   C17_Fast_Defs: the fast acceptor over binary ids, proved to refine it (C17_Fast.v), used for ALL traces *)
Extraction "extracted/c17_model.ml" step run init wf_config final enabled chunks chunks_inline map_inline
  chunked_inline indexed_inline complete
  stepN runN initN wf_configN finalN enabledN completeN failsN.
