(* C13 -- proofs about the tuner model of C13_Defs (part 1: local_search, evaluate, sorting contract) *)
From Coq Require Import List ZArith Bool Lia Permutation Sorted Arith.
From LNGen Require Import Src_tuner Src_mtune.
From LN Require Import C13_Defs.
Import ListNotations.
Local Open Scope Z_scope.

(* ------------------------------------------------------------------------------------------------ *)
(* small list facts                                                                                 *)
(* ------------------------------------------------------------------------------------------------ *)
Lemma nodup_app {A} (l1 l2 : list A) :
  NoDup l1 -> NoDup l2 -> (forall x, In x l1 -> ~ In x l2) -> NoDup (l1 ++ l2).
Proof.
  induction l1 as [|a l1 IH]; intros H1 H2 Hd; [exact H2|].
  inversion H1 as [|? ? Hna Hn1]; subst. cbn. constructor.
  - rewrite in_app_iff. intros [Hi|Hi]; [contradiction|]. exact (Hd a (or_introl eq_refl) Hi).
  - apply IH; [assumption|assumption|]. intros x Hx. apply Hd. right. exact Hx.
Qed.

Lemma nodup_app_inv {A} (l1 l2 : list A) :
  NoDup (l1 ++ l2) -> NoDup l1 /\ NoDup l2 /\ (forall x, In x l1 -> ~ In x l2).
Proof.
  induction l1 as [|a l1 IH]; cbn; intros H.
  - repeat split; [constructor|exact H|intros x []].
  - inversion H as [|? ? Hna Hn]; subst. destruct (IH Hn) as (H1 & H2 & Hd).
    rewrite in_app_iff in Hna. repeat split.
    + constructor; [intro Hi; apply Hna; left; exact Hi|exact H1].
    + exact H2.
    + intros x [Hx|Hx] Hi; [subst x; apply Hna; right; exact Hi|exact (Hd x Hx Hi)].
Qed.

Lemma nodup_map_inj_in {A B} (f : A -> B) (l : list A) :
  (forall x y, In x l -> In y l -> f x = f y -> x = y) -> NoDup l -> NoDup (map f l).
Proof.
  induction l as [|a l IH]; intros Hinj Hn; cbn; [constructor|].
  inversion Hn as [|? ? Hna Hnl]; subst. constructor.
  - rewrite in_map_iff. intros (y & Hy & Hin). apply Hna.
    rewrite (Hinj a y (or_introl eq_refl) (or_intror Hin) (eq_sym Hy)). exact Hin.
  - apply IH; [|exact Hnl]. intros x y Hx Hy. apply Hinj; right; assumption.
Qed.

Lemma perm_Forall {A} (P : A -> Prop) (l l' : list A) : Permutation l l' -> Forall P l -> Forall P l'.
Proof.
  intros Hp H. apply Forall_forall. intros x Hx. rewrite Forall_forall in H. apply H.
  apply (Permutation_in x (Permutation_sym Hp)). exact Hx.
Qed.

Lemma forall2_length {A B} (R : A -> B -> Prop) (l : list A) (l' : list B) : Forall2 R l l' -> length l = length l'.
Proof. induction 1; cbn; [reflexivity|f_equal; assumption]. Qed.

Lemma filter_length_le {A} (p : A -> bool) (l : list A) : (length (filter p l) <= length l)%nat.
Proof. induction l as [|a l IH]; cbn; [lia|]. destruct (p a); cbn; lia. Qed.

Lemma concat_snoc {A} (l : list (list A)) (b : list A) : concat (l ++ [b]) = concat l ++ b.
Proof. rewrite concat_app. cbn. rewrite app_nil_r. reflexivity. Qed.

(* ------------------------------------------------------------------------------------------------ *)
(* the combinatorial iterator                                                                        *)
(* ------------------------------------------------------------------------------------------------ *)
Lemma zrange_NoDup n : NoDup (zrange n).
Proof.
  unfold zrange. apply nodup_map_inj_in; [|apply seq_NoDup].
  intros x y _ _ H. apply Nat2Z.inj. exact H.
Qed.

Lemma zrange_In n x : In x (zrange n) <-> 0 <= x < n.
Proof.
  unfold zrange. rewrite in_map_iff. split.
  - intros (k & Hk & Hin). apply in_seq in Hin. lia.
  - intros H. exists (Z.to_nat x). split; [lia|]. apply in_seq. lia.
Qed.

Lemma zrange_length n : length (zrange n) = Z.to_nat n.
Proof. unfold zrange. rewrite map_length, seq_length. reflexivity. Qed.

Lemma combos_elem_length d n c : In c (combos d n) -> length c = d.
Proof.
  revert c. induction d as [|d IH]; cbn; intros c H.
  - destruct H as [H|[]]. subst. reflexivity.
  - apply in_flat_map in H. destruct H as (o & _ & H). apply in_map_iff in H.
    destruct H as (t & Ht & Hin). subst c. cbn. f_equal. apply IH. exact Hin.
Qed.

Lemma combos_elem_range d n c : In c (combos d n) -> Forall (fun o => 0 <= o < n) c.
Proof.
  revert c. induction d as [|d IH]; cbn; intros c H.
  - destruct H as [H|[]]. subst. constructor.
  - apply in_flat_map in H. destruct H as (o & Ho & H). apply in_map_iff in H.
    destruct H as (t & Ht & Hin). subst c. constructor; [apply zrange_In; exact Ho|apply IH; exact Hin].
Qed.

Lemma flat_map_cons_NoDup (L : list (list Z)) (l : list Z) :
  NoDup L -> NoDup l -> NoDup (flat_map (fun o => map (cons o) L) l).
Proof.
  intros HL. induction l as [|o l IH]; intros Hl; cbn; [constructor|].
  inversion Hl as [|? ? Hno Hnl]; subst. apply nodup_app.
  - apply nodup_map_inj_in; [|exact HL]. intros x y _ _ H. inversion H. reflexivity.
  - apply IH. exact Hnl.
  - intros x Hx Hy. apply in_map_iff in Hx. destruct Hx as (t & Ht & _). subst x.
    apply in_flat_map in Hy. destruct Hy as (o' & Ho' & Hy). apply in_map_iff in Hy.
    destruct Hy as (t' & Ht' & _). inversion Ht'. subst o'. contradiction.
Qed.

Lemma combos_NoDup d n : NoDup (combos d n).
Proof.
  induction d as [|d IH]; cbn.
  - constructor; [intros []|constructor].
  - apply flat_map_cons_NoDup; [exact IH|apply zrange_NoDup].
Qed.

Lemma flat_map_cons_length (L : list (list Z)) (l : list Z) :
  length (flat_map (fun o => map (cons o) L) l) = (length l * length L)%nat.
Proof.
  induction l as [|o l IH]; cbn; [reflexivity|]. rewrite app_length, map_length, IH. reflexivity.
Qed.

Lemma combos_length d n : length (combos d n) = (Z.to_nat n ^ d)%nat.
Proof.
  induction d as [|d IH]; cbn [combos]; [reflexivity|].
  rewrite flat_map_cons_length, zrange_length, IH. reflexivity.
Qed.

(* 3^d as used by the statement of the bound *)
Definition pow3 (d : nat) : Z := 3 ^ Z.of_nat d.

Lemma combos_length3 d : Z.of_nat (length (combos d src_tn_ls_count)) = src_tn_ls_count ^ Z.of_nat d.
Proof.
  rewrite combos_length. unfold src_tn_ls_count.
  induction d as [|d IH]; [reflexivity|].
  rewrite Nat2Z.inj_succ, Z.pow_succ_r by lia. rewrite <- IH. cbn [Nat.pow]. lia.
Qed.

(* ------------------------------------------------------------------------------------------------ *)
(* local_search                                                                                      *)
(* ------------------------------------------------------------------------------------------------ *)
Lemma move_length r it src : length (move r it src) = Nat.min (length it) (length src).
Proof. unfold move. rewrite map_length, combine_length. reflexivity. Qed.

Lemma move_inj r src : r <> 0 -> forall a b, length a = length src -> length b = length src ->
  move r a src = move r b src -> a = b.
Proof.
  intros Hr. induction src as [|s src IH]; intros a b Ha Hb H.
  - destruct a; [|discriminate]. destruct b; [reflexivity|discriminate].
  - destruct a as [|x a]; [discriminate|]. destruct b as [|y b]; [discriminate|].
    unfold move in H. cbn in H. inversion H as [[H1 H2]].
    unfold src_tn_ls_coord in H1.
    assert (Hxy : (x - y) * r = 0) by lia. apply Z.mul_eq_0 in Hxy.
    f_equal; [lia|].
    apply IH; [cbn in Ha; lia|cbn in Hb; lia|exact H2].
Qed.

Lemma local_search_NoDup lo hi src r :
  r <> 0 -> length src = length lo -> NoDup (local_search lo hi src r).
Proof.
  intros Hr Hl. unfold local_search. apply NoDup_filter. apply nodup_map_inj_in; [|apply combos_NoDup].
  intros x y Hx Hy H. apply (move_inj r src Hr).
  - rewrite (combos_elem_length _ _ _ Hx). lia.
  - rewrite (combos_elem_length _ _ _ Hy). lia.
  - exact H.
Qed.

Lemma local_search_length lo hi src r :
  Z.of_nat (length (local_search lo hi src r)) <= src_tn_ls_count ^ Z.of_nat (length lo).
Proof.
  unfold local_search. rewrite <- combos_length3.
  apply Nat2Z.inj_le. eapply Nat.le_trans; [apply filter_length_le|].
  rewrite map_length. apply Nat.le_refl.
Qed.

Lemma list_min_le_all l : forall x, In x l -> list_min l <= x.
Proof.
  destruct l as [|a l]; [intros x []|]. cbn [list_min].
  induction l as [|b l IH]; cbn; intros x Hx.
  - destruct Hx as [Hx|[]]. lia.
  - destruct Hx as [Hx|[Hx|Hx]].
    + subst. specialize (IH x (or_introl eq_refl)). lia.
    + subst. lia.
    + specialize (IH x (or_intror Hx)). lia.
Qed.

Lemma list_min_nonneg l : 0 <= list_min l -> Forall (fun x => 0 <= x) l.
Proof.
  intros H. apply Forall_forall. intros x Hx. pose proof (list_min_le_all l x Hx). lia.
Qed.

(* a grid point: one index per space, 0 <= index < number of values *)
Definition InGrid (sizes : list Z) (g : igrid) : Prop := Forall2 (fun x s => 0 <= x < s) g sizes.

Lemma outside_false_in_grid sizes : forall g, length g = length sizes ->
  outside (min_igrid sizes) (max_igrid sizes) g = false -> InGrid sizes g.
Proof.
  unfold outside, src_tn_ls_outside. intros g Hl H.
  apply orb_false_iff in H. destruct H as [H1 H2].
  apply Z.ltb_ge in H1. apply Z.ltb_ge in H2.
  apply list_min_nonneg in H1. apply list_min_nonneg in H2.
  revert g Hl H1 H2. unfold InGrid, min_igrid, max_igrid.
  induction sizes as [|s sizes IH]; intros g Hl H1 H2.
  - destruct g; [constructor|discriminate].
  - destruct g as [|x g]; [discriminate|]. cbn in H1, H2.
    inversion H1 as [|? ? Hx1 H1']; subst. inversion H2 as [|? ? Hx2 H2']; subst.
    unfold src_tn_ls_lo, src_tn_min_igrid in Hx1. unfold src_tn_ls_hi, src_tn_max_igrid in Hx2. cbn in Hx1, Hx2.
    constructor; [lia|]. apply IH; [cbn in Hl; lia|exact H1'|exact H2'].
Qed.

Lemma local_search_in_grid sizes src r g :
  length src = length sizes ->
  In g (local_search (min_igrid sizes) (max_igrid sizes) src r) -> InGrid sizes g.
Proof.
  intros Hl H. unfold local_search in H. apply filter_In in H. destruct H as [H Ho].
  apply in_map_iff in H. destruct H as (it & Hg & Hit). subst g.
  apply outside_false_in_grid.
  - rewrite move_length, (combos_elem_length _ _ _ Hit). unfold min_igrid. rewrite map_length. lia.
  - apply negb_true_iff in Ho. exact Ho.
Qed.

Lemma avg_in_grid sizes : Forall (fun s => 1 <= s) sizes -> InGrid sizes (avg_igrid sizes).
Proof.
  unfold InGrid, avg_igrid. induction 1 as [|s sizes Hs _ IH]; cbn; constructor; [|exact IH].
  unfold src_tn_avg_igrid. rewrite Z.quot_div_nonneg by lia.
  split; [apply Z.div_pos; lia|]. apply Z.div_lt_upper_bound; lia.
Qed.

(* ------------------------------------------------------------------------------------------------ *)
(* evaluate: filtering, evaluation                                                                   *)
(* ------------------------------------------------------------------------------------------------ *)
Lemma igrid_eqb_eq a : forall b, igrid_eqb a b = true <-> a = b.
Proof.
  induction a as [|x a IH]; intros [|y b]; cbn; split; intros H; try reflexivity; try discriminate.
  - apply andb_true_iff in H. destruct H as [H1 H2]. apply Z.eqb_eq in H1. apply IH in H2. subst. reflexivity.
  - inversion H. subst. apply andb_true_iff. split; [apply Z.eqb_refl|apply IH; reflexivity].
Qed.

Lemma seen_spec steps g : seen steps g = true <-> In g (map fst steps).
Proof.
  unfold seen. rewrite existsb_exists, in_map_iff. split.
  - intros (s & Hs & He). apply igrid_eqb_eq in He. exists s. split; assumption.
  - intros (s & He & Hs). exists s. split; [exact Hs|apply igrid_eqb_eq; exact He].
Qed.

Lemma fresh_In steps l g : In g (fresh steps l) <-> In g l /\ ~ In g (map fst steps).
Proof.
  unfold fresh. rewrite filter_In, negb_true_iff. split; intros [H1 H2]; split; try exact H1.
  - intros Hi. apply seen_spec in Hi. congruence.
  - destruct (seen steps g) eqn:E; [|reflexivity]. apply seen_spec in E. contradiction.
Qed.

Lemma eval_all_Some f gs l : eval_all f gs = Some l ->
  map fst l = gs /\ Forall (fun s => f (fst s) = Some (snd s)) l.
Proof.
  revert l. induction gs as [|g gs IH]; cbn; intros l H.
  - inversion H. subst. split; [reflexivity|constructor].
  - destruct (f g) as [v|] eqn:Ef; [|discriminate].
    destruct (eval_all f gs) as [l'|]; [|discriminate]. inversion H. subst.
    destruct (IH l' eq_refl) as [H1 H2]. cbn. split; [f_equal; exact H1|constructor; [exact Ef|exact H2]].
Qed.

Lemma eval_all_None f gs : eval_all f gs = None -> exists g, In g gs /\ f g = None.
Proof.
  induction gs as [|g gs IH]; cbn; intros H; [discriminate|].
  destruct (f g) as [v|] eqn:Ef; [|exists g; split; [left; reflexivity|exact Ef]].
  destruct (eval_all f gs) as [l'|]; [discriminate|].
  destruct (IH eq_refl) as (g' & Hin & Hg'). exists g'. split; [right; exact Hin|exact Hg'].
Qed.

(* ------------------------------------------------------------------------------------------------ *)
(* the contract of std::sort on steps, and the two concrete sorts                                    *)
(* ------------------------------------------------------------------------------------------------ *)
Definition step_le (a b : step) : Prop := snd a <= snd b.
Definition sort_contract (srt : list step -> list step) : Prop :=
  forall l, Permutation (srt l) l /\ StronglySorted step_le (srt l).

Lemma insert_perm s l : Permutation (insert s l) (s :: l).
Proof.
  induction l as [|x l IH]; cbn; [apply Permutation_refl|].
  destruct (snd s <=? snd x); [apply Permutation_refl|].
  eapply Permutation_trans; [apply perm_skip; exact IH|apply perm_swap].
Qed.

Lemma insert_sorted s l : StronglySorted step_le l -> StronglySorted step_le (insert s l).
Proof.
  induction 1 as [|x l Hs IH Hx]; cbn; [constructor; constructor|].
  destruct (snd s <=? snd x) eqn:E.
  - apply Z.leb_le in E. constructor; [constructor; assumption|].
    constructor; [exact E|]. eapply Forall_impl; [|exact Hx]. unfold step_le. intros; lia.
  - apply Z.leb_gt in E. constructor; [exact IH|].
    apply (perm_Forall _ (s :: l)); [apply Permutation_sym, insert_perm|].
    constructor; [unfold step_le; lia|exact Hx].
Qed.

Lemma isort_contract : sort_contract isort.
Proof.
  intros l. induction l as [|s l [IHp IHs]]; cbn; [split; constructor|]. split.
  - eapply Permutation_trans; [apply insert_perm|apply perm_skip; exact IHp].
  - apply insert_sorted. exact IHs.
Qed.

Lemma take_out_perm c : forall l y r, take_out c l = Some (y, r) -> Permutation (y :: r) l.
Proof.
  induction l as [|x l IH]; cbn; intros y r H; [discriminate|].
  destruct (igrid_eqb (fst x) c).
  - inversion H. subst. apply Permutation_refl.
  - destruct (take_out c l) as [[y' r']|]; [|discriminate]. inversion H. subst.
    eapply Permutation_trans; [apply perm_swap|apply perm_skip; apply IH; reflexivity].
Qed.

Lemma take_out_sorted c : forall l y r, take_out c l = Some (y, r) ->
  StronglySorted step_le l -> StronglySorted step_le r.
Proof.
  induction l as [|x l IH]; cbn; intros y r H Hs; [discriminate|].
  inversion Hs as [|? ? Hsl Hx]; subst.
  destruct (igrid_eqb (fst x) c).
  - inversion H. subst. exact Hsl.
  - destruct (take_out c l) as [[y' r']|] eqn:E; [|discriminate]. inversion H. subst.
    constructor; [apply (IH y r' eq_refl Hsl)|].
    pose proof (take_out_perm c l y r' E) as Hp.
    apply (perm_Forall _ _ _ (Permutation_sym Hp)) in Hx. inversion Hx. assumption.
Qed.

Lemma set_front_contract c l : StronglySorted step_le l ->
  Permutation (set_front c l) l /\ StronglySorted step_le (set_front c l).
Proof.
  intros Hs. unfold set_front. destruct l as [|h t]; [split; constructor|].
  destruct (take_out c (h :: t)) as [[y r]|] eqn:E; [|split; [apply Permutation_refl|exact Hs]].
  destruct (snd y =? snd h) eqn:Ev; [|split; [apply Permutation_refl|exact Hs]].
  apply Z.eqb_eq in Ev. pose proof (take_out_perm _ _ _ _ E) as Hp. split; [exact Hp|].
  constructor; [apply (take_out_sorted _ _ _ _ E Hs)|].
  inversion Hs as [|? ? _ Hh]; subst.
  assert (Hall : Forall (step_le h) (y :: r)).
  { apply (perm_Forall _ _ _ (Permutation_sym Hp)). constructor; [unfold step_le; lia|exact Hh]. }
  inversion Hall as [|? ? _ Hr]; subst. eapply Forall_impl; [|exact Hr]. unfold step_le. intros; lia.
Qed.

Lemma srt_pick_contract pick : sort_contract (srt_pick pick).
Proof.
  intros l. unfold srt_pick. destruct (isort_contract l) as [Hp Hs].
  destruct (pick (length l)) as [c|]; [|split; assumption].
  destruct (set_front_contract c (isort l) Hs) as [Hp' Hs']. split; [|exact Hs'].
  eapply Permutation_trans; [exact Hp'|exact Hp].
Qed.
