(* C10 -- lemmas and proofs about the model of C10_Defs (exact rationals). *)
From Coq Require Import List ZArith QArith Qminmax Bool Lia Lra Psatz Permutation Sorted Setoid Morphisms.
From LNGen Require Import Src_c10.
From LN Require Import C10_Defs.
Import ListNotations.
Local Open Scope Q_scope.

(* ---- comparisons ------------------------------------------------------------------------------------- *)
Lemma qlt_true a b : qlt a b = true <-> a < b.
Proof.
  unfold qlt. rewrite negb_true_iff. split; intro H.
  - apply Qnot_le_lt. intro L. apply Qle_bool_iff in L. congruence.
  - destruct (Qle_bool b a) eqn:E; [|reflexivity]. apply Qle_bool_iff in E. apply Qlt_not_le in H. contradiction.
Qed.
Lemma qlt_false a b : qlt a b = false <-> b <= a.
Proof.
  unfold qlt. rewrite negb_false_iff. apply Qle_bool_iff.
Qed.

Lemma clamp_ge floor s : s <= clamp floor s.
Proof. unfold clamp. destruct (qlt s floor) eqn:E; [apply qlt_true in E; lra | lra]. Qed.
Lemma clamp_mono floor a b : a <= b -> clamp floor a <= clamp floor b.
Proof.
  unfold clamp. intro H. destruct (qlt a floor) eqn:Ea, (qlt b floor) eqn:Eb;
    try apply qlt_true in Ea; try apply qlt_true in Eb; try apply qlt_false in Ea; try apply qlt_false in Eb; lra.
Qed.
Lemma clamp_spec floor s : clamp floor s == Qmax s floor.
Proof.
  unfold clamp. destruct (qlt s floor) eqn:E.
  - apply qlt_true in E. rewrite Q.max_r; lra.
  - apply qlt_false in E. rewrite Q.max_l; lra.
Qed.
Global Instance clamp_proper : Proper (Qeq ==> Qeq ==> Qeq) clamp.
Proof. intros a b H x y H2. rewrite !clamp_spec. rewrite H, H2. reflexivity. Qed.

(* ---- sums ------------------------------------------------------------------------------------------------ *)
Lemma qsum_nil : qsum [] = 0.
Proof. reflexivity. Qed.
Lemma qsum_cons a l : qsum (a :: l) = a + qsum l.
Proof. reflexivity. Qed.
Ltac qs := cbn [map app]; rewrite ?qsum_cons, ?qsum_nil.

Lemma qsum_app l1 l2 : qsum (l1 ++ l2) == qsum l1 + qsum l2.
Proof. induction l1 as [|a l1 IH]; qs; [ring | rewrite IH; ring]. Qed.

Lemma qsum_map_le {A} (f g : A -> Q) l : (forall x, In x l -> f x <= g x) -> qsum (map f l) <= qsum (map g l).
Proof.
  induction l as [|a l IH]; qs; intro H; [lra|].
  assert (f a <= g a) by (apply H; now left). assert (qsum (map f l) <= qsum (map g l)) by (apply IH; intros; apply H; now right). lra.
Qed.
Lemma qsum_map_eq {A} (f g : A -> Q) l : (forall x, In x l -> f x == g x) -> qsum (map f l) == qsum (map g l).
Proof.
  induction l as [|a l IH]; qs; intro H; [reflexivity|].
  rewrite (H a) by now left. rewrite IH; [reflexivity|]. intros; apply H; now right.
Qed.
Lemma qsum_map_plus {A} (f g : A -> Q) l : qsum (map (fun x => f x + g x) l) == qsum (map f l) + qsum (map g l).
Proof. induction l as [|a l IH]; qs; [ring | rewrite IH; ring]. Qed.
Lemma qsum_map_scal {A} (k : Q) (f : A -> Q) l : qsum (map (fun x => k * f x) l) == k * qsum (map f l).
Proof. induction l as [|a l IH]; qs; [ring | rewrite IH; ring]. Qed.
Lemma qsum_map_nonneg {A} (f : A -> Q) l : (forall x, In x l -> 0 <= f x) -> 0 <= qsum (map f l).
Proof.
  induction l as [|a l IH]; qs; intro H; [lra|].
  assert (0 <= f a) by (apply H; now left). assert (0 <= qsum (map f l)) by (apply IH; intros; apply H; now right). lra.
Qed.
Lemma qsum_map_zero {A} (f : A -> Q) l : (forall x, In x l -> f x == 0) -> qsum (map f l) == 0.
Proof.
  induction l as [|a l IH]; qs; intro H; [reflexivity|].
  rewrite (H a) by now left. rewrite IH; [ring|]. intros; apply H; now right.
Qed.
Lemma qsum_perm l l' : Permutation l l' -> qsum l == qsum l'.
Proof. induction 1; qs; try rewrite IHPermutation; try ring. rewrite IHPermutation1. assumption. Qed.
Lemma qsum_map_perm {A} (f : A -> Q) l l' : Permutation l l' -> qsum (map f l) == qsum (map f l').
Proof. intro H. apply qsum_perm. now apply Permutation_map. Qed.
(* exchange of two finite sums *)
Lemma qsum_swap {A B} (f : A -> B -> Q) (la : list A) (lb : list B) :
  qsum (map (fun a => qsum (map (f a) lb)) la) == qsum (map (fun b => qsum (map (fun a => f a b) la)) lb).
Proof.
  induction la as [|a la IH]; qs.
  - symmetry. apply qsum_map_zero. reflexivity.
  - rewrite IH. rewrite <- qsum_map_plus. reflexivity.
Qed.

Lemma in_tab_iff n o : In o (seq 0 n) <-> (o < n)%nat.
Proof. rewrite in_seq. lia. Qed.
Lemma nth_tab {A} n (f : nat -> A) o d : (o < n)%nat -> nth o (tab n f) d = f o.
Proof.
  intro H. unfold tab. rewrite (nth_indep _ d (f 0%nat)) by (rewrite map_length, seq_length; exact H).
  rewrite map_nth. rewrite seq_nth by exact H. reflexivity.
Qed.
Lemma tab_length {A} n (f : nat -> A) : length (tab n f) = n.
Proof. unfold tab. now rewrite map_length, seq_length. Qed.
Lemma qsum_tab_le n f g : (forall o, (o < n)%nat -> f o <= g o) -> qsum (tab n f) <= qsum (tab n g).
Proof. intro H. apply qsum_map_le. intros o Ho. apply H. now apply in_tab_iff. Qed.
Lemma qsum_tab_eq n f g : (forall o, (o < n)%nat -> f o == g o) -> qsum (tab n f) == qsum (tab n g).
Proof. intro H. apply qsum_map_eq. intros o Ho. apply H. now apply in_tab_iff. Qed.

Lemma sq_nonneg (x : Q) : 0 <= x * x.
Proof. nra. Qed.

(* ---- the one-parameter quadratic: C + beta^2 A - 2 beta B is minimal at beta = B / A ---------------------- *)
Lemma quad_min (A B C beta : Q) : 0 < A -> C - B * B / A <= C + beta * beta * A - 2 * beta * B.
Proof.
  intro HA.
  assert (E : C + beta * beta * A - 2 * beta * B - (C - B * B / A) == (beta * A - B) * (beta * A - B) / A) by (field; lra).
  assert (0 <= (beta * A - B) * (beta * A - B) / A).
  { apply Qle_shift_div_l; [exact HA|]. pose proof (sq_nonneg (beta * A - B)). lra. }
  lra.
Qed.
Lemma quad_at_min (A B C : Q) : ~ A == 0 -> C + (B / A) * (B / A) * A - 2 * (B / A) * B == C - B * B / A.
Proof. intro HA. field. exact HA. Qed.

(* ---- moments of a single-output list of (feature value, residual) pairs ------------------------------------ *)
Definition madd (m : mom) (e : Q * Q) : mom := mom_add m (fst e) (snd e).
Definition mom_of1 (l : list (Q * Q)) : mom := fold_left madd l mom0.
Definition proj (o : nat) (l : list row) : list (Q * Q) := map (fun e => (fst e, rget o (snd e))) l.
Definition ms (f : Q * Q -> Q) (l : list (Q * Q)) : Q := qsum (map f l).
Definition f1 (_ : Q * Q) : Q := 1.
Definition fx (e : Q * Q) : Q := fst e.
Definition fxx (e : Q * Q) : Q := fst e * fst e.
Definition fr (e : Q * Q) : Q := snd e.
Definition frx (e : Q * Q) : Q := snd e * fst e.
Definition frr (e : Q * Q) : Q := snd e * snd e.

Lemma ms_cons f a l : ms f (a :: l) = f a + ms f l.
Proof. reflexivity. Qed.
Lemma ms_nil f : ms f [] = 0.
Proof. reflexivity. Qed.
Lemma ms_app f l1 l2 : ms f (l1 ++ l2) == ms f l1 + ms f l2.
Proof. unfold ms. rewrite map_app. apply qsum_app. Qed.
Lemma ms_perm f l l' : Permutation l l' -> ms f l == ms f l'.
Proof. apply qsum_map_perm. Qed.

Lemma mom_fold_fields l : forall m,
  let m' := fold_left madd l m in
  m_x0 m' == m_x0 m + ms f1 l /\ m_x1 m' == m_x1 m + ms fx l /\ m_x2 m' == m_x2 m + ms fxx l /\
  m_r1 m' == m_r1 m + ms fr l /\ m_rx m' == m_rx m + ms frx l /\ m_r2 m' == m_r2 m + ms frr l.
Proof.
  induction l as [|a l IH]; intro m; cbn [fold_left].
  - rewrite !ms_nil. repeat split; ring.
  - destruct (IH (madd m a)) as (H0 & H1 & H2 & H3 & H4 & H5).
    rewrite !ms_cons.
    cbv zeta. rewrite H0, H1, H2, H3, H4, H5. unfold madd, mom_add, f1, fx, fxx, fr, frx, frr. cbn [m_x0 m_x1 m_x2 m_r1 m_rx m_r2].
    repeat split; ring.
Qed.

Lemma mom_of1_fields l :
  m_x0 (mom_of1 l) == ms f1 l /\ m_x1 (mom_of1 l) == ms fx l /\ m_x2 (mom_of1 l) == ms fxx l /\
  m_r1 (mom_of1 l) == ms fr l /\ m_rx (mom_of1 l) == ms frx l /\ m_r2 (mom_of1 l) == ms frr l.
Proof.
  destruct (mom_fold_fields l mom0) as (H0 & H1 & H2 & H3 & H4 & H5). fold (mom_of1 l) in *. cbn [mom0 m_x0 m_x1 m_x2 m_r1 m_rx m_r2] in *.
  repeat split; [rewrite H0|rewrite H1|rewrite H2|rewrite H3|rewrite H4|rewrite H5]; ring.
Qed.

Lemma ms_f1_length l : ms f1 l == inject_Z (Z.of_nat (length l)).
Proof.
  induction l as [|a l IH]; [reflexivity|]. rewrite ms_cons, IH. unfold f1. cbn [length]. rewrite Nat2Z.inj_succ, <- Z.add_1_l, inject_Z_plus. reflexivity.
Qed.
Lemma ms_f1_pos l : l <> [] -> 0 < ms f1 l.
Proof.
  destruct l as [|a l]; [congruence|]. intros _. rewrite ms_cons. unfold f1 at 1.
  assert (0 <= ms f1 l) by (apply qsum_map_nonneg; intros; unfold f1; lra). lra.
Qed.

(* sum of squared residuals of the affine prediction w x + b, expanded in the moments *)
Definition sqerr (w b : Q) (e : Q * Q) : Q := (snd e - (w * fst e + b)) * (snd e - (w * fst e + b)).
Lemma sqerr_expand w b l :
  ms (sqerr w b) l == ms frr l + w * w * ms fxx l + b * b * ms f1 l - 2 * w * ms frx l - 2 * b * ms fr l + 2 * w * b * ms fx l.
Proof.
  induction l as [|a l IH]; [rewrite !ms_nil; ring|]. rewrite !ms_cons, IH. unfold sqerr, f1, fx, fxx, fr, frx, frr. ring.
Qed.
Lemma arss_is_rss w b l : arss (mom_of1 l) w b == ms (sqerr w b) l.
Proof.
  destruct (mom_of1_fields l) as (H0 & H1 & H2 & H3 & H4 & H5). rewrite sqerr_expand. unfold arss.
  rewrite H0, H1, H2, H3, H4, H5. ring.
Qed.
Lemma ms_sqerr_nonneg w b l : 0 <= ms (sqerr w b) l.
Proof. apply qsum_map_nonneg. intros; unfold sqerr; apply sq_nonneg. Qed.

(* ---- constants: the mean minimises the residual sum of squares ------------------------------------------- *)
Lemma rss_const_eq m : ~ m_x0 m == 0 -> rss_const m == m_r2 m - m_r1 m * m_r1 m / m_x0 m.
Proof. intro H. unfold rss_const. cbv zeta. apply quad_at_min. exact H. Qed.
Lemma rss_const_is_arss m : rss_const m == arss m 0 (mean_of m).
Proof. unfold rss_const, arss, mean_of. cbv zeta. ring. Qed.
Lemma rss_const_min m c : 0 < m_x0 m -> rss_const m <= arss m 0 c.
Proof.
  intro H. rewrite rss_const_eq by lra.
  assert (E : arss m 0 c == m_r2 m + c * c * m_x0 m - 2 * c * m_r1 m) by (unfold arss; ring).
  rewrite E. apply quad_min. exact H.
Qed.
(* C10_mean_minimises_rss *)
Lemma mean_minimises_rss (l : list (Q * Q)) (c : Q) : l <> [] ->
  ms frr l - ms fr l * ms fr l / ms f1 l <= ms (sqerr 0 c) l /\
  ms (sqerr 0 (ms fr l / ms f1 l)) l == ms frr l - ms fr l * ms fr l / ms f1 l.
Proof.
  intro Hl. pose proof (ms_f1_pos l Hl) as Hp. split.
  - rewrite sqerr_expand.
    assert (E : ms frr l + 0 * 0 * ms fxx l + c * c * ms f1 l - 2 * 0 * ms frx l - 2 * c * ms fr l + 2 * 0 * c * ms fx l
                == ms frr l + c * c * ms f1 l - 2 * c * ms fr l) by ring.
    rewrite E. apply quad_min. exact Hp.
  - rewrite sqerr_expand. field. lra.
Qed.

(* ---- least squares through the origin (hinge side) ----------------------------------------------------------- *)
Lemma hscore_is_arss m t beta : hscore m t beta == arss m beta (- (beta * t)).
Proof. unfold hscore, arss. ring. Qed.
Lemma hscore_min m t beta : 0 < hdenom m t -> hscore m t (hbeta m t) <= hscore m t beta.
Proof.
  intro H. unfold hbeta.
  assert (E : forall b, hscore m t b == m_r2 m + b * b * hdenom m t - 2 * b * (m_rx m - m_r1 m * t)) by (intro b; unfold hscore, hdenom; ring).
  rewrite !E. rewrite quad_at_min by lra. apply quad_min. exact H.
Qed.
Lemma hscore_zero m t : hscore m t 0 == m_r2 m.
Proof. unfold hscore. ring. Qed.
Lemma hdenom_sum l t : hdenom (mom_of1 l) t == ms (fun e => (fst e - t) * (fst e - t)) l.
Proof.
  destruct (mom_of1_fields l) as (H0 & H1 & H2 & _). unfold hdenom. rewrite H0, H1, H2. clear.
  induction l as [|a l IH]; [rewrite !ms_nil; ring|]. rewrite !ms_cons, <- IH. unfold f1, fx, fxx. ring.
Qed.
Lemma hdenom_pos l t : l <> [] -> (forall e, In e l -> ~ fst e == t) -> 0 < hdenom (mom_of1 l) t.
Proof.
  intros Hl Hne. rewrite hdenom_sum. destruct l as [|a l]; [congruence|]. rewrite ms_cons.
  assert (0 < (fst a - t) * (fst a - t)).
  { assert (~ fst a == t) by (apply Hne; now left). nra. }
  assert (0 <= ms (fun e => (fst e - t) * (fst e - t)) l) by (apply qsum_map_nonneg; intros; apply sq_nonneg). lra.
Qed.
(* C10_ls_origin: sum (r - beta u)^2 >= sum r^2 - (sum r u)^2 / sum u^2 *)
Lemma ls_origin (l : list (Q * Q)) (beta : Q) : 0 < ms fxx l ->
  ms frr l - ms frx l * ms frx l / ms fxx l <= ms (sqerr beta 0) l.
Proof.
  intro H. rewrite sqerr_expand.
  assert (E : ms frr l + beta * beta * ms fxx l + 0 * 0 * ms f1 l - 2 * beta * ms frx l - 2 * 0 * ms fr l + 2 * beta * 0 * ms fx l
              == ms frr l + beta * beta * ms fxx l - 2 * beta * ms frx l) by ring.
  rewrite E. apply quad_min. exact H.
Qed.

(* ---- affine: normal equations in one variable --------------------------------------------------------------------- *)
Lemma det_nonneg l : 0 <= ms fxx l * ms f1 l - ms fx l * ms fx l.
Proof.
  induction l as [|a l IH]; [rewrite !ms_nil; lra|]. rewrite !ms_cons. unfold f1 at 1, fx at 1 3, fxx at 1.
  assert (E : (fst a * fst a + ms fxx l) * (1 + ms f1 l) - (fst a + ms fx l) * (fst a + ms fx l)
              == (ms fxx l * ms f1 l - ms fx l * ms fx l) + ms (sqerr 0 (fst a)) (map (fun e => (0, fst e)) l)).
  { rewrite sqerr_expand. unfold ms. rewrite !map_map. unfold f1, fx, fxx, fr, frx, frr. cbn [fst snd].
    assert (Z1 : qsum (map (fun _ : Q * Q => 0 * 0) l) == 0) by (apply qsum_map_zero; intros; ring).
    assert (Z2 : qsum (map (fun x : Q * Q => fst x * 0) l) == 0) by (apply qsum_map_zero; intros; ring).
    assert (Z3 : qsum (map (fun _ : Q * Q => 0) l) == 0) by (apply qsum_map_zero; intros; ring).
    rewrite Z1, Z2, Z3. ring. }
  rewrite E. pose proof (ms_sqerr_nonneg 0 (fst a) (map (fun e => (0, fst e)) l)). lra.
Qed.
Lemma adet_nonneg l : 0 <= adet (mom_of1 l).
Proof.
  destruct (mom_of1_fields l) as (H0 & H1 & H2 & _). unfold adet. rewrite H0, H1, H2. apply det_nonneg.
Qed.
Lemma adet_x0_pos l : ~ adet (mom_of1 l) == 0 -> 0 < m_x0 (mom_of1 l) /\ 0 < adet (mom_of1 l).
Proof.
  intro H. pose proof (adet_nonneg l) as Hn. split; [|lra].
  destruct (mom_of1_fields l) as (H0 & H1 & H2 & _). rewrite H0.
  destruct l as [|a l]; [exfalso; apply H; reflexivity|]. apply ms_f1_pos. congruence.
Qed.
Lemma arss_min m w b : 0 < m_x0 m -> 0 < adet m -> arss m (aw m) (ab m) <= arss m w b.
Proof.
  intros H0 HD.
  assert (E : arss m w b - arss m (aw m) (ab m)
              == m_x0 m * ((b - ab m + m_x1 m / m_x0 m * (w - aw m)) * (b - ab m + m_x1 m / m_x0 m * (w - aw m)))
                 + adet m / m_x0 m * ((w - aw m) * (w - aw m))).
  { unfold arss, aw, ab. unfold adet in *. field. split; lra. }
  pose proof (sq_nonneg (b - ab m + m_x1 m / m_x0 m * (w - aw m))) as S1.
  pose proof (sq_nonneg (w - aw m)) as S2.
  assert (0 <= adet m / m_x0 m) by (apply Qle_shift_div_l; lra).
  assert (0 <= m_x0 m * ((b - ab m + m_x1 m / m_x0 m * (w - aw m)) * (b - ab m + m_x1 m / m_x0 m * (w - aw m)))) by (apply Qmult_le_0_compat; lra).
  assert (0 <= adet m / m_x0 m * ((w - aw m) * (w - aw m))) by (apply Qmult_le_0_compat; lra).
  lra.
Qed.

(* ---- vectors of accumulators: output o of the vector = the single-output moments of column o ---------------- *)
Lemma vget_tab n f o : (o < n)%nat -> vget o (tab n f) = f o.
Proof. apply nth_tab. Qed.
Lemma vget_fold no o l : (o < no)%nat -> forall v,
  vget o (fold_left (vupd no) l v) = fold_left madd (proj o l) (vget o v).
Proof.
  intro Ho. induction l as [|e l IH]; intro v; cbn [fold_left proj map]; [reflexivity|].
  rewrite IH. f_equal. unfold vupd. rewrite vget_tab by exact Ho. reflexivity.
Qed.
Lemma vget_vmom_of no o l : (o < no)%nat -> vget o (vmom_of no l) = mom_of1 (proj o l).
Proof.
  intro Ho. unfold vmom_of. rewrite vget_fold by exact Ho. unfold vmom0. rewrite vget_tab by exact Ho. reflexivity.
Qed.
Lemma vmom_of_app no l1 l2 : vmom_of no (l1 ++ l2) = fold_left (vupd no) l2 (vmom_of no l1).
Proof. unfold vmom_of. apply fold_left_app. Qed.
Lemma proj_app o l1 l2 : proj o (l1 ++ l2) = proj o l1 ++ proj o l2.
Proof. apply map_app. Qed.
Lemma proj_perm o l l' : Permutation l l' -> Permutation (proj o l) (proj o l').
Proof. apply Permutation_map. Qed.
Lemma proj_nil_iff o l : proj o l = [] <-> l = [].
Proof. destruct l; cbn; split; congruence. Qed.

(* pos = total - neg, field by field *)
Lemma mom_sub_fields (tot neg pos : list (Q * Q)) : Permutation tot (neg ++ pos) ->
  let m := mom_sub (mom_of1 tot) (mom_of1 neg) in
  m_x0 m == ms f1 pos /\ m_x1 m == ms fx pos /\ m_x2 m == ms fxx pos /\
  m_r1 m == ms fr pos /\ m_rx m == ms frx pos /\ m_r2 m == ms frr pos.
Proof.
  intro P. cbv zeta. unfold mom_sub. cbn [m_x0 m_x1 m_x2 m_r1 m_rx m_r2].
  destruct (mom_of1_fields tot) as (T0 & T1 & T2 & T3 & T4 & T5).
  destruct (mom_of1_fields neg) as (N0 & N1 & N2 & N3 & N4 & N5).
  rewrite T0, T1, T2, T3, T4, T5, N0, N1, N2, N3, N4, N5.
  rewrite !(ms_perm _ _ _ P), !ms_app. repeat split; ring.
Qed.
(* any formula of the six moments takes the same value on mom_sub tot neg and on the moments of pos *)
Lemma arss_sub tot neg pos w b : Permutation tot (neg ++ pos) ->
  arss (mom_sub (mom_of1 tot) (mom_of1 neg)) w b == ms (sqerr w b) pos.
Proof.
  intro P. destruct (mom_sub_fields tot neg pos P) as (H0 & H1 & H2 & H3 & H4 & H5).
  rewrite sqerr_expand. unfold arss. rewrite H0, H1, H2, H3, H4, H5. ring.
Qed.
Lemma x0_sub tot neg pos : Permutation tot (neg ++ pos) -> m_x0 (mom_sub (mom_of1 tot) (mom_of1 neg)) == ms f1 pos.
Proof. intro P. now destruct (mom_sub_fields tot neg pos P) as (H0 & _). Qed.
Lemma hdenom_sub tot neg pos t : Permutation tot (neg ++ pos) ->
  hdenom (mom_sub (mom_of1 tot) (mom_of1 neg)) t == hdenom (mom_of1 pos) t.
Proof.
  intro P. destruct (mom_sub_fields tot neg pos P) as (H0 & H1 & H2 & _).
  destruct (mom_of1_fields pos) as (P0 & P1 & P2 & _). unfold hdenom. rewrite H0, H1, H2, P0, P1, P2. reflexivity.
Qed.

(* ---- insertion sort: permutation, sorted -------------------------------------------------------------------------- *)
Section ISortP.
  Variable A : Type.
  Variable key : A -> Q.
  Definition kle (a b : A) : Prop := key a <= key b.
  Lemma insert_perm a l : Permutation (a :: l) (insert key a l).
  Proof.
    induction l as [|b l IH]; cbn [insert]; [reflexivity|].
    destruct (Qle_bool (key a) (key b)); [reflexivity|].
    rewrite perm_swap. now apply perm_skip.
  Qed.
  Lemma isort_perm l : Permutation l (isort key l).
  Proof.
    induction l as [|a l IH]; cbn [isort]; [constructor|].
    rewrite <- insert_perm. now apply perm_skip.
  Qed.
  Lemma insert_sorted a l : StronglySorted kle l -> StronglySorted kle (insert key a l).
  Proof.
    induction 1 as [|b l Hs IH Hb]; cbn [insert].
    - repeat constructor.
    - destruct (Qle_bool (key a) (key b)) eqn:E.
      + apply Qle_bool_iff in E. constructor; [now constructor|].
        constructor; [exact E|]. eapply Forall_impl; [|exact Hb]. intros c Hc. unfold kle in *. lra.
      + assert (key b <= key a).
        { destruct (Qlt_le_dec (key b) (key a)) as [L|L]; [lra|]. apply Qle_bool_iff in L. congruence. }
        constructor; [exact IH|].
        eapply Permutation_Forall; [apply insert_perm|]. constructor; [exact H|exact Hb].
  Qed.
  Lemma isort_sorted l : StronglySorted kle (isort key l).
  Proof. induction l as [|a l IH]; cbn [isort]; [constructor|]. now apply insert_sorted. Qed.
End ISortP.
Arguments kle {A}.

(* ---- the sweep = prefix sums at the cuts ---------------------------------------------------------------------------- *)
(* the cuts of a (sorted) list: threshold, the entries before the cut, the entries after it *)
Fixpoint cuts (pre l : list row) : list (Q * list row * list row) :=
  match l with
  | [] => []
  | e1 :: tl =>
      match tl with
      | [] => []
      | e2 :: _ =>
          (if qlt (fst e1) (fst e2) then [((1 # 2) * (fst e1 + fst e2), pre ++ [e1], tl)] else [])
            ++ cuts (pre ++ [e1]) tl
      end
  end.

(* C10_running_moments: the running accumulator of the sweep holds, at every cut, the moments of the entries before it *)
Lemma sweep_cuts {B} no (emit : Q -> vmom -> list B) l : forall pre,
  sweep no emit (vmom_of no pre) l = flat_map (fun c => emit (fst (fst c)) (vmom_of no (snd (fst c)))) (cuts pre l).
Proof.
  induction l as [|e1 tl IH]; intro pre; [reflexivity|].
  destruct tl as [|e2 tl']; [reflexivity|].
  change (sweep no emit (vmom_of no pre) (e1 :: e2 :: tl'))
    with ((if qlt (fst e1) (fst e2) then emit ((1 # 2) * (fst e1 + fst e2)) (vupd no (vmom_of no pre) e1) else [])
            ++ sweep no emit (vupd no (vmom_of no pre) e1) (e2 :: tl')).
  change (cuts pre (e1 :: e2 :: tl'))
    with ((if qlt (fst e1) (fst e2) then [((1 # 2) * (fst e1 + fst e2), pre ++ [e1], e2 :: tl')] else [])
            ++ cuts (pre ++ [e1]) (e2 :: tl')).
  assert (E : vupd no (vmom_of no pre) e1 = vmom_of no (pre ++ [e1])) by (rewrite vmom_of_app; reflexivity).
  rewrite E, IH, flat_map_app. f_equal.
  destruct (qlt (fst e1) (fst e2)); cbn [flat_map fst snd]; [now rewrite app_nil_r | reflexivity].
Qed.

Lemma cuts_split l : forall pre c, In c (cuts pre l) -> snd (fst c) ++ snd c = pre ++ l /\ snd (fst c) <> [] /\ snd c <> [].
Proof.
  induction l as [|e1 tl IH]; intros pre c Hc; [contradiction|].
  destruct tl as [|e2 tl']; [contradiction|].
  change (cuts pre (e1 :: e2 :: tl'))
    with ((if qlt (fst e1) (fst e2) then [((1 # 2) * (fst e1 + fst e2), pre ++ [e1], e2 :: tl')] else [])
            ++ cuts (pre ++ [e1]) (e2 :: tl')) in Hc.
  apply in_app_or in Hc. destruct Hc as [Hc|Hc].
  - destruct (qlt (fst e1) (fst e2)); [|contradiction]. destruct Hc as [<-|[]]. cbn [fst snd].
    rewrite <- app_assoc. repeat split; [|congruence]. destruct pre; cbn; congruence.
  - destruct (IH _ _ Hc) as (H1 & H2 & H3). rewrite <- app_assoc in H1. auto.
Qed.

(* on a sorted list every entry before a cut is below the threshold, every entry after it above *)
Lemma cuts_sorted l : forall pre c, StronglySorted (kle fst) (pre ++ l) -> In c (cuts pre l) ->
  Forall (fun e => fst e < fst (fst c)) (snd (fst c)) /\ Forall (fun e => fst (fst c) < fst e) (snd c).
Proof.
  induction l as [|e1 tl IH]; intros pre c Hs Hc; [contradiction|].
  destruct tl as [|e2 tl']; [contradiction|].
  change (cuts pre (e1 :: e2 :: tl'))
    with ((if qlt (fst e1) (fst e2) then [((1 # 2) * (fst e1 + fst e2), pre ++ [e1], e2 :: tl')] else [])
            ++ cuts (pre ++ [e1]) (e2 :: tl')) in Hc.
  apply in_app_or in Hc. destruct Hc as [Hc|Hc].
  - destruct (qlt (fst e1) (fst e2)) eqn:E; [|contradiction]. apply qlt_true in E. destruct Hc as [<-|[]]. cbn [fst snd].
    (* pre <= e1 < thr < e2 <= tl' *)
    assert (Hpre : Forall (fun e => fst e <= fst e1) pre).
    { clear - Hs. induction pre as [|p pre IHp]; [constructor|]. cbn in Hs. inversion Hs as [|? ? Hs' Hall]; subst.
      constructor; [|now apply IHp]. rewrite Forall_app in Hall. destruct Hall as [_ Hall]. inversion Hall; subst. assumption. }
    assert (Htl : Forall (fun e => fst e2 <= fst e) (e2 :: tl')).
    { clear - Hs. induction pre as [|p pre IHp].
      - cbn in Hs. inversion Hs as [|? ? Hs' _]; subst. inversion Hs' as [|? ? _ Hall]; subst. constructor; [unfold kle; lra|exact Hall].
      - cbn in Hs. inversion Hs; subst. now apply IHp. }
    split.
    + rewrite Forall_app. split; [eapply Forall_impl; [|exact Hpre]; cbn; intros; lra | constructor; [lra|constructor]].
    + eapply Forall_impl; [|exact Htl]. cbn; intros; lra.
  - apply (IH (pre ++ [e1]) c); [rewrite <- app_assoc; exact Hs | exact Hc].
Qed.

(* ---- RSS of a predictor on a column, decomposed ------------------------------------------------------------------- *)
Definition perr {K} (no : nat) (pred : K -> list Q) (e : K * list Q) : Q :=
  qsum (tab no (fun o => (rget o (snd e) - rget o (pred (fst e))) * (rget o (snd e) - rget o (pred (fst e))))).
Lemma rss_of_present {K} no (pred : K -> list Q) (c : col K) :
  rss_of no pred c == miss_rss no c + qsum (map (perr no pred) (present c)).
Proof.
  unfold rss_of. induction c as [|[[x|] rs] c IH]; cbn [map present miss_rss fst snd]; rewrite ?qsum_cons, ?qsum_nil.
  - ring.
  - rewrite IH. unfold perr at 2. cbn [fst snd]. ring.
  - rewrite IH. ring.
Qed.
Lemma miss_rss_nonneg {K} no (c : col K) : 0 <= miss_rss no c.
Proof.
  induction c as [|[[x|] rs] c IH]; cbn [miss_rss]; [lra|exact IH|].
  assert (0 <= sq_norm no rs) by (apply qsum_map_nonneg; intros; apply sq_nonneg). lra.
Qed.

(* squared error of per-output affine predictions w o * x + b o on a list of rows *)
Definition side_err (no : nat) (w b : nat -> Q) (l : list row) : Q :=
  qsum (map (fun e => qsum (tab no (fun o => sqerr (w o) (b o) (fst e, rget o (snd e))))) l).
Lemma side_err_swap no w b l : side_err no w b l == qsum (tab no (fun o => ms (sqerr (w o) (b o)) (proj o l))).
Proof.
  unfold side_err, tab. rewrite (qsum_swap (fun e o => sqerr (w o) (b o) (fst e, rget o (snd e))) l (seq 0 no)).
  apply qsum_map_eq. intros o _. unfold ms, proj. rewrite map_map. reflexivity.
Qed.
Lemma perr_side no (pred : Q -> list Q) w b l :
  (forall e o, In e l -> (o < no)%nat -> rget o (pred (fst e)) == w o * fst e + b o) ->
  qsum (map (perr no pred) l) == side_err no w b l.
Proof.
  intro H. unfold side_err. apply qsum_map_eq. intros e He. unfold perr. apply qsum_tab_eq. intros o Ho.
  unfold sqerr. cbn [fst snd]. rewrite (H e o He Ho). reflexivity.
Qed.

(* a column whose present rows split into a lower part [n] and an upper part [p]: the RSS of any predictor that is affine
   in the feature value on each part, expressed with the accumulators of the sweep *)
Lemma two_sided no (pred : Q -> list Q) (c : col Q) (n p : list row) wn bn wp bp :
  Permutation (present c) (n ++ p) ->
  (forall e o, In e n -> (o < no)%nat -> rget o (pred (fst e)) == wn o * fst e + bn o) ->
  (forall e o, In e p -> (o < no)%nat -> rget o (pred (fst e)) == wp o * fst e + bp o) ->
  rss_of no pred c ==
  qsum (tab no (fun o => arss (vget o (vmom_of no n)) (wn o) (bn o)
                         + arss (mom_sub (vget o (vmom_of no (present c))) (vget o (vmom_of no n))) (wp o) (bp o)))
  + miss_rss no c.
Proof.
  intros P Hn Hp. rewrite rss_of_present. rewrite (qsum_map_perm _ _ _ P), map_app, qsum_app.
  rewrite (perr_side no pred wn bn n Hn), (perr_side no pred wp bp p Hp), !side_err_swap.
  unfold tab. rewrite <- qsum_map_plus.
  assert (E : qsum (map (fun x => ms (sqerr (wn x) (bn x)) (proj x n) + ms (sqerr (wp x) (bp x)) (proj x p)) (seq 0 no))
              == qsum (map (fun o => arss (vget o (vmom_of no n)) (wn o) (bn o)
                                      + arss (mom_sub (vget o (vmom_of no (present c))) (vget o (vmom_of no n))) (wp o) (bp o)) (seq 0 no))).
  { apply qsum_map_eq. intros o Ho. apply in_tab_iff in Ho. rewrite !vget_vmom_of by exact Ho.
    rewrite arss_is_rss. rewrite (arss_sub (proj o (present c)) (proj o n) (proj o p)); [reflexivity|].
    rewrite <- proj_app. now apply proj_perm. }
  rewrite E. ring.
Qed.

(* ---- best_of ------------------------------------------------------------------------------------------------------------ *)
Lemma better_spec b s : exists r, better b s = Some r /\ r <= s /\ (r = s \/ b = Some r) /\ (forall x, b = Some x -> r <= x).
Proof.
  destruct b as [x|]; cbn [better].
  - destruct (qlt s x) eqn:E.
    + apply qlt_true in E. exists s. repeat split; [lra|now left|]. intros y [= <-]. lra.
    + apply qlt_false in E. exists x. repeat split; [exact E|now right|]. intros y [= <-]. lra.
  - exists s. repeat split; [lra|now left|]. intros x [=].
Qed.
Lemma fold_better_spec l : forall b,
  match fold_left better l b with
  | None => b = None /\ l = []
  | Some r => (b = Some r \/ In r l) /\ (forall x, In x l -> r <= x) /\ (forall x, b = Some x -> r <= x)
  end.
Proof.
  induction l as [|s l IH]; intro b; cbn [fold_left].
  - destruct b as [x|]; [|split; reflexivity]. repeat split; [now left|contradiction|]. intros y [= <-]. lra.
  - destruct (better_spec b s) as (r & Hr & Hrs & Hor & Hb). specialize (IH (better b s)). rewrite Hr in *.
    destruct (fold_left better l (Some r)) as [r'|]; [|destruct IH; discriminate].
    destruct IH as (Hin & Hall & Hle). assert (r' <= r) by (apply Hle; reflexivity). repeat split.
    + destruct Hin as [[= <-]|Hin]; [|right; now right]. destruct Hor as [->|Hor]; [right; now left|now left].
    + intros x [<-|Hx]; [lra|now apply Hall].
    + intros x Hx. specialize (Hb x Hx). lra.
Qed.
Lemma best_of_spec l :
  match best_of l with
  | None => l = []
  | Some r => In r l /\ (forall x, In x l -> r <= x)
  end.
Proof.
  unfold best_of. pose proof (fold_better_spec l None) as H. destruct (fold_left better l None) as [r|].
  - destruct H as ([H|H] & Hall & _); [discriminate|]. split; assumption.
  - now destruct H.
Qed.

(* ---- stump ------------------------------------------------------------------------------------------------------------- *)
Lemma sweep_in {B} no (emit : Q -> vmom -> list B) rows x :
  In x (sweep no emit (vmom0 no) (isort fst rows)) ->
  exists thr n p, In x (emit thr (vmom_of no n)) /\ Permutation rows (n ++ p) /\ n <> [] /\ p <> [] /\
                  Forall (fun e => fst e < thr) n /\ Forall (fun e => thr < fst e) p /\ In (thr, n, p) (cuts [] (isort fst rows)).
Proof.
  intro H. change (vmom0 no) with (vmom_of no []) in H. rewrite sweep_cuts in H. apply in_flat_map in H.
  destruct H as ([[thr n] p] & Hc & Hx). cbn [fst snd] in Hx. exists thr, n, p.
  destruct (cuts_split _ _ _ Hc) as (Happ & Hn & Hp). cbn [fst snd app] in Happ.
  destruct (cuts_sorted _ [] _ (isort_sorted _ fst rows) Hc) as (Fn & Fp). cbn [fst snd] in Fn, Fp.
  repeat split; try assumption. rewrite Happ. apply isort_perm.
Qed.

Lemma x0_pos_neg no o (n : list row) : (o < no)%nat -> n <> [] -> 0 < m_x0 (vget o (vmom_of no n)).
Proof.
  intros Ho Hn. rewrite vget_vmom_of by exact Ho. destruct (mom_of1_fields (proj o n)) as (H0 & _). rewrite H0.
  apply ms_f1_pos. now rewrite proj_nil_iff.
Qed.
Lemma x0_pos_pos no o (rows n p : list row) : (o < no)%nat -> Permutation rows (n ++ p) -> p <> [] ->
  0 < m_x0 (mom_sub (vget o (vmom_of no rows)) (vget o (vmom_of no n))).
Proof.
  intros Ho P Hp. rewrite !vget_vmom_of by exact Ho. rewrite (x0_sub (proj o rows) (proj o n) (proj o p)).
  - apply ms_f1_pos. now rewrite proj_nil_iff.
  - rewrite <- proj_app. now apply proj_perm.
Qed.

Definition vec (f : nat -> Q) (no : nat) : list Q := tab no f.
Lemma rget_vec f no o : (o < no)%nat -> rget o (vec f no) = f o.
Proof. apply nth_tab. Qed.

(* C10_stump_optimal, one column: every candidate of the sweep is the RSS of the stump with the fitted tables at its
   threshold and a lower bound of the RSS of every stump with that threshold *)
Lemma stump_cand_optimal no floor (c : col Q) cand : In cand (stump_cands no floor c) ->
  c_dir cand = true /\
  (forall lo hi, c_score cand <= clamp floor (rss_of no (stump_pred (c_thr cand) lo hi) c)) /\
  (exists lo hi, c_score cand == clamp floor (rss_of no (stump_pred (c_thr cand) lo hi) c)).
Proof.
  unfold stump_cands. intro H. apply sweep_in in H. destruct H as (thr & n & p & Hx & P & Hn & Hp & Fn & Fp & _).
  destruct Hx as [<-|[]]. unfold c_dir, c_thr, c_score. cbn [fst snd]. split; [reflexivity|].
  assert (Hlo : forall lo hi e o, In e n -> (o < no)%nat -> rget o (stump_pred thr lo hi (fst e)) == (fun _ => 0) o * fst e + (fun o => rget o lo) o).
  { intros lo hi e o He Ho. rewrite Forall_forall in Fn. specialize (Fn e He). apply qlt_true in Fn. unfold stump_pred. rewrite Fn. ring. }
  assert (Hhi : forall lo hi e o, In e p -> (o < no)%nat -> rget o (stump_pred thr lo hi (fst e)) == (fun _ => 0) o * fst e + (fun o => rget o hi) o).
  { intros lo hi e o He Ho. rewrite Forall_forall in Fp. specialize (Fp e He). assert (F : qlt (fst e) thr = false) by (apply qlt_false; lra).
    unfold stump_pred. rewrite F. ring. }
  split.
  - intros lo hi. apply clamp_mono. rewrite (two_sided no _ c n p _ _ _ _ P (Hlo lo hi) (Hhi lo hi)).
    unfold stump_rss. apply Qplus_le_compat; [|lra]. apply qsum_tab_le. intros o Ho. apply Qplus_le_compat.
    + apply rss_const_min. now apply x0_pos_neg.
    + apply rss_const_min. now apply (x0_pos_pos no o (present c) n p).
  - exists (vec (fun o => mean_of (vget o (vmom_of no n))) no),
           (vec (fun o => mean_of (mom_sub (vget o (vmom_of no (present c))) (vget o (vmom_of no n)))) no).
    apply clamp_proper; [reflexivity|].
    rewrite (two_sided no _ c n p _ _ _ _ P (Hlo _ _) (Hhi _ _)). unfold stump_rss.
    apply Qplus_inj_r. apply qsum_tab_eq. intros o Ho. rewrite !rget_vec by exact Ho.
    rewrite <- !rss_const_is_arss. reflexivity.
Qed.

(* ---- hinge --------------------------------------------------------------------------------------------------------------- *)
Lemma rget_nil o : rget o [] = 0.
Proof. destruct o; reflexivity. Qed.
Lemma rget_tab n f o : (o < n)%nat -> rget o (tab n f) = f o.
Proof. apply nth_tab. Qed.
Lemma hdenom_pos_neg no o (n : list row) t : (o < no)%nat -> n <> [] -> Forall (fun e => fst e < t) n ->
  0 < hdenom (vget o (vmom_of no n)) t.
Proof.
  intros Ho Hn F. rewrite vget_vmom_of by exact Ho. apply hdenom_pos; [now rewrite proj_nil_iff|].
  intros e He. unfold proj in He. apply in_map_iff in He. destruct He as (e' & <- & He'). cbn [fst].
  rewrite Forall_forall in F. specialize (F e' He'). lra.
Qed.
Lemma hdenom_pos_pos no o (rows n p : list row) t : (o < no)%nat -> Permutation rows (n ++ p) -> p <> [] ->
  Forall (fun e => t < fst e) p -> 0 < hdenom (mom_sub (vget o (vmom_of no rows)) (vget o (vmom_of no n))) t.
Proof.
  intros Ho P Hp F. rewrite !vget_vmom_of by exact Ho. rewrite (hdenom_sub (proj o rows) (proj o n) (proj o p)).
  - apply hdenom_pos; [now rewrite proj_nil_iff|].
    intros e He. unfold proj in He. apply in_map_iff in He. destruct He as (e' & <- & He'). cbn [fst].
    rewrite Forall_forall in F. specialize (F e' He'). lra.
  - rewrite <- proj_app. now apply proj_perm.
Qed.

(* C10_hinge_optimal, one column: every candidate (threshold, direction) is the RSS of the hinge with the fitted slope and a
   lower bound of the RSS of every hinge beta * (x - threshold) on that side *)
Lemma hinge_cand_optimal no floor (c : col Q) cand : In cand (hinge_cands no floor c) ->
  (forall beta, c_score cand <= clamp floor (rss_of no (hinge_pred no (c_thr cand) (c_dir cand) beta) c)) /\
  (exists beta, c_score cand == clamp floor (rss_of no (hinge_pred no (c_thr cand) (c_dir cand) beta) c)).
Proof.
  unfold hinge_cands. intro H. apply sweep_in in H. destruct H as (thr & n & p & Hx & P & Hn & Hp & Fn & Fp & _).
  assert (Qn : forall e, In e n -> qlt (fst e) thr = true).
  { intros e He. rewrite Forall_forall in Fn. apply qlt_true. now apply Fn. }
  assert (Qp : forall e, In e p -> qlt (fst e) thr = false).
  { intros e He. rewrite Forall_forall in Fp. apply qlt_false. specialize (Fp e He). lra. }
  destruct Hx as [<-|[<-|[]]]; unfold c_dir, c_thr, c_score; cbn [fst snd].
  - (* left hinge: slope on the lower part, zero on the upper part *)
    assert (Hlo : forall beta e o, In e n -> (o < no)%nat ->
              rget o (hinge_pred no thr true beta (fst e)) == (fun o => rget o beta) o * fst e + (fun o => - (rget o beta * thr)) o).
    { intros beta e o He Ho. unfold hinge_pred. rewrite (Qn e He). cbn [Bool.eqb]. rewrite rget_tab by exact Ho. ring. }
    assert (Hhi : forall beta e o, In e p -> (o < no)%nat ->
              rget o (hinge_pred no thr true beta (fst e)) == (fun _ => 0) o * fst e + (fun _ => - (0 * thr)) o).
    { intros beta e o He Ho. unfold hinge_pred. rewrite (Qp e He). cbn [Bool.eqb]. rewrite rget_nil. ring. }
    split.
    + intro beta. apply clamp_mono. rewrite (two_sided no _ c n p _ _ _ _ P (Hlo beta) (Hhi beta)).
      unfold hinge_rss_left. apply Qplus_le_compat; [|lra]. apply qsum_tab_le. intros o Ho. apply Qplus_le_compat.
      * rewrite <- hscore_is_arss. apply hscore_min. now apply hdenom_pos_neg.
      * rewrite <- hscore_is_arss. lra.
    + exists (vec (fun o => hbeta (vget o (vmom_of no n)) thr) no). apply clamp_proper; [reflexivity|].
      rewrite (two_sided no _ c n p _ _ _ _ P (Hlo _) (Hhi _)). unfold hinge_rss_left.
      apply Qplus_inj_r. apply qsum_tab_eq. intros o Ho. rewrite !rget_vec by exact Ho. rewrite <- !hscore_is_arss. reflexivity.
  - (* right hinge *)
    assert (Hlo : forall beta e o, In e n -> (o < no)%nat ->
              rget o (hinge_pred no thr false beta (fst e)) == (fun _ => 0) o * fst e + (fun _ => - (0 * thr)) o).
    { intros beta e o He Ho. unfold hinge_pred. rewrite (Qn e He). cbn [Bool.eqb]. rewrite rget_nil. ring. }
    assert (Hhi : forall beta e o, In e p -> (o < no)%nat ->
              rget o (hinge_pred no thr false beta (fst e)) == (fun o => rget o beta) o * fst e + (fun o => - (rget o beta * thr)) o).
    { intros beta e o He Ho. unfold hinge_pred. rewrite (Qp e He). cbn [Bool.eqb]. rewrite rget_tab by exact Ho. ring. }
    split.
    + intro beta. apply clamp_mono. rewrite (two_sided no _ c n p _ _ _ _ P (Hlo beta) (Hhi beta)).
      unfold hinge_rss_right. apply Qplus_le_compat; [|lra]. apply qsum_tab_le. intros o Ho. apply Qplus_le_compat.
      * rewrite <- hscore_is_arss. lra.
      * rewrite <- hscore_is_arss. apply hscore_min. now apply (hdenom_pos_pos no o (present c) n p).
    + exists (vec (fun o => hbeta (mom_sub (vget o (vmom_of no (present c))) (vget o (vmom_of no n))) thr) no).
      apply clamp_proper; [reflexivity|].
      rewrite (two_sided no _ c n p _ _ _ _ P (Hlo _) (Hhi _)). unfold hinge_rss_right.
      apply Qplus_inj_r. apply qsum_tab_eq. intros o Ho. rewrite !rget_vec by exact Ho. rewrite <- !hscore_is_arss. reflexivity.
Qed.

(* ---- affine -------------------------------------------------------------------------------------------------------------- *)
Lemma adet_same no o (rows : list row) : (o < no)%nat -> (0 < no)%nat ->
  adet (vget o (vmom_of no rows)) == adet (vget 0 (vmom_of no rows)).
Proof.
  intros Ho H0. rewrite !vget_vmom_of by assumption.
  destruct (mom_of1_fields (proj o rows)) as (A0 & A1 & A2 & _). destruct (mom_of1_fields (proj 0 rows)) as (B0 & B1 & B2 & _).
  unfold adet. rewrite A0, A1, A2, B0, B1, B2. unfold ms, proj. rewrite !map_map. unfold f1, fx, fxx. cbn [fst]. reflexivity.
Qed.

(* C10_affine_optimal, one column: the candidate (present iff the determinant is not zero) is the RSS of the fitted line and a
   lower bound of the RSS of every line w x + b *)
Lemma affine_cand_optimal no floor (c : col Q) s : In s (affine_cands no floor c) ->
  (forall w b, s <= clamp floor (rss_of no (affine_pred no w b) c)) /\
  (exists w b, s == clamp floor (rss_of no (affine_pred no w b) c)).
Proof.
  unfold affine_cands. destruct (Qeq_bool (adet (vget 0 (vmom_of no (present c)))) 0) eqn:E; [contradiction|].
  intros [<-|[]]. apply Qeq_bool_neq in E.
  assert (P : Permutation (present c) (present c ++ [])) by (rewrite app_nil_r; reflexivity).
  assert (Hn : forall w b e o, In e (present c) -> (o < no)%nat ->
             rget o (affine_pred no w b (fst e)) == (fun o => rget o w) o * fst e + (fun o => rget o b) o).
  { intros w b e o _ Ho. unfold affine_pred. rewrite rget_tab by exact Ho. reflexivity. }
  assert (Hp : forall w b e o, In e (@nil row) -> (o < no)%nat ->
             rget o (affine_pred no w b (fst e)) == (fun _ => 0) o * fst e + (fun _ => 0) o) by (intros; contradiction).
  assert (Z : forall o, arss (mom_sub (vget o (vmom_of no (present c))) (vget o (vmom_of no (present c)))) 0 0 == 0).
  { intro o. unfold arss, mom_sub. cbn [m_x0 m_x1 m_x2 m_r1 m_rx m_r2]. ring. }
  assert (Pos : forall o, (o < no)%nat -> 0 < m_x0 (vget o (vmom_of no (present c))) /\ 0 < adet (vget o (vmom_of no (present c)))).
  { intros o Ho. assert (D : ~ adet (vget o (vmom_of no (present c))) == 0) by (rewrite adet_same by lia; exact E).
    rewrite vget_vmom_of in * by exact Ho. now apply adet_x0_pos. }
  split.
  - intros w b. apply clamp_mono. rewrite (two_sided no _ c (present c) [] _ _ _ _ P (Hn w b) (Hp w b)).
    unfold affine_rss. apply Qplus_le_compat; [|lra]. apply qsum_tab_le. intros o Ho. rewrite Z.
    destruct (Pos o Ho) as (P0 & PD). pose proof (arss_min (vget o (vmom_of no (present c))) (rget o w) (rget o b) P0 PD). lra.
  - exists (vec (fun o => aw (vget o (vmom_of no (present c)))) no), (vec (fun o => ab (vget o (vmom_of no (present c)))) no).
    apply clamp_proper; [reflexivity|].
    rewrite (two_sided no _ c (present c) [] _ _ _ _ P (Hn _ _) (Hp _ _)). unfold affine_rss.
    apply Qplus_inj_r. apply qsum_tab_eq. intros o Ho. rewrite !rget_vec by exact Ho. rewrite Z. ring.
Qed.
(* the determinant vanishes exactly when fewer than two distinct values are present (Cauchy-Schwarz, equality case) *)
Lemma det_zero_const l : ms fxx l * ms f1 l - ms fx l * ms fx l == 0 -> forall a b, In a l -> In b l -> fst a == fst b.
Proof.
  induction l as [|e l IH]; intros H a b Ha Hb; [contradiction|].
  rewrite !ms_cons in H. unfold f1 at 1, fx at 1 3, fxx at 1 in H.
  assert (E : (fst e * fst e + ms fxx l) * (1 + ms f1 l) - (fst e + ms fx l) * (fst e + ms fx l)
              == (ms fxx l * ms f1 l - ms fx l * ms fx l) + ms (fun x => (fst x - fst e) * (fst x - fst e)) l).
  { clear. assert (X : ms (fun x => (fst x - fst e) * (fst x - fst e)) l == ms fxx l - 2 * fst e * ms fx l + fst e * fst e * ms f1 l).
    { induction l as [|a l IH]; [rewrite !ms_nil; ring|]. rewrite !ms_cons, IH. unfold f1, fx, fxx. ring. }
    rewrite X. ring. }
  rewrite E in H. pose proof (det_nonneg l) as D.
  assert (S : 0 <= ms (fun x => (fst x - fst e) * (fst x - fst e)) l) by (apply qsum_map_nonneg; intros; apply sq_nonneg).
  assert (D0 : ms fxx l * ms f1 l - ms fx l * ms fx l == 0) by lra.
  assert (S0 : ms (fun x => (fst x - fst e) * (fst x - fst e)) l == 0) by lra.
  assert (All : forall x, In x l -> fst x == fst e).
  { clear - S0. induction l as [|y l IHl]; intros x Hx; [contradiction|]. rewrite ms_cons in S0.
    assert (0 <= ms (fun x => (fst x - fst e) * (fst x - fst e)) l) by (apply qsum_map_nonneg; intros; apply sq_nonneg).
    pose proof (sq_nonneg (fst y - fst e)). destruct Hx as [<-|Hx]; [nra|]. apply IHl; [lra|exact Hx]. }
  destruct Ha as [<-|Ha], Hb as [<-|Hb]; [reflexivity| symmetry; now apply All | now apply All|].
  rewrite (All a Ha), (All b Hb). reflexivity.
Qed.

(* ---- the thresholds tried by the sweeps: mid-points of consecutive distinct sorted values ------------------------------ *)
Fixpoint midpoints (v : list Q) : list Q :=
  match v with
  | [] => []
  | a :: t => match t with
              | [] => []
              | b :: _ => (if qlt a b then [(1 # 2) * (a + b)] else []) ++ midpoints t
              end
  end.
Definition thresholds (c : col Q) : list Q := midpoints (map fst (isort fst (present c))).

Lemma cuts_midpoints l : forall pre, map (fun c => fst (fst c)) (cuts pre l) = midpoints (map fst l).
Proof.
  induction l as [|e1 tl IH]; intro pre; [reflexivity|]. destruct tl as [|e2 tl']; [reflexivity|].
  change (cuts pre (e1 :: e2 :: tl'))
    with ((if qlt (fst e1) (fst e2) then [((1 # 2) * (fst e1 + fst e2), pre ++ [e1], e2 :: tl')] else [])
            ++ cuts (pre ++ [e1]) (e2 :: tl')).
  change (midpoints (map fst (e1 :: e2 :: tl')))
    with ((if qlt (fst e1) (fst e2) then [(1 # 2) * (fst e1 + fst e2)] else []) ++ midpoints (map fst (e2 :: tl'))).
  rewrite map_app, IH. f_equal. destruct (qlt (fst e1) (fst e2)); reflexivity.
Qed.
Lemma sweep_thr_in {B} no (emit : Q -> vmom -> list B) rows thr :
  In thr (midpoints (map fst (isort fst rows))) ->
  exists n, forall x, In x (emit thr (vmom_of no n)) -> In x (sweep no emit (vmom0 no) (isort fst rows)).
Proof.
  intro H. rewrite <- (cuts_midpoints _ []) in H. apply in_map_iff in H. destruct H as ([[t n] p] & <- & Hc). cbn [fst].
  exists n. intros x Hx. change (vmom0 no) with (vmom_of no []). rewrite sweep_cuts. apply in_flat_map.
  exists (t, n, p). split; [exact Hc | exact Hx].
Qed.
Lemma sweep_thr_of {B} no (emit : Q -> vmom -> list B) rows x :
  In x (sweep no emit (vmom0 no) (isort fst rows)) ->
  exists thr n, In thr (midpoints (map fst (isort fst rows))) /\ In x (emit thr (vmom_of no n)).
Proof.
  intro H. apply sweep_in in H. destruct H as (thr & n & p & Hx & _ & _ & _ & _ & _ & Hc). exists thr, n. split; [|exact Hx].
  rewrite <- (cuts_midpoints _ []). apply in_map_iff. exists (thr, n, p). split; [reflexivity|exact Hc].
Qed.

(* ---- fit = minimum over all features and all candidates -------------------------------------------------------------- *)
Lemma best_of_flat {A B} (cands : A -> list B) (score : B -> Q) (cs : list A) :
  match best_of (map score (flat_map cands cs)) with
  | None => forall c, In c cs -> cands c = []
  | Some s => (exists c x, In c cs /\ In x (cands c) /\ s = score x) /\
              (forall c x, In c cs -> In x (cands c) -> s <= score x)
  end.
Proof.
  pose proof (best_of_spec (map score (flat_map cands cs))) as H. destruct (best_of (map score (flat_map cands cs))) as [s|].
  - destruct H as (Hin & Hall). split.
    + apply in_map_iff in Hin. destruct Hin as (x & <- & Hx). apply in_flat_map in Hx. destruct Hx as (c & Hc & Hx). now exists c, x.
    + intros c x Hc Hx. apply Hall. apply in_map_iff. exists x. split; [reflexivity|]. apply in_flat_map. now exists c.
  - intros c Hc. apply map_eq_nil in H. destruct (cands c) as [|x l] eqn:E; [reflexivity|]. exfalso.
    assert (In x (flat_map cands cs)) by (apply in_flat_map; exists c; split; [exact Hc | rewrite E; now left]). rewrite H in *. contradiction.
Qed.

Lemma stump_fit_optimal no floor (cs : list (col Q)) :
  match stump_fit no floor cs with
  | Some s =>
      (exists c thr lo hi, In c cs /\ In thr (thresholds c) /\ s == clamp floor (rss_of no (stump_pred thr lo hi) c)) /\
      (forall c thr lo hi, In c cs -> In thr (thresholds c) -> s <= clamp floor (rss_of no (stump_pred thr lo hi) c))
  | None => forall c, In c cs -> thresholds c = []
  end.
Proof.
  unfold stump_fit. pose proof (best_of_flat (stump_cands no floor) c_score cs) as H.
  destruct (best_of (map c_score (flat_map (stump_cands no floor) cs))) as [s|].
  - destruct H as ((c & x & Hc & Hx & ->) & Hall). split.
    + destruct (stump_cand_optimal no floor c x Hx) as (_ & _ & lo & hi & E). exists c, (c_thr x), lo, hi. repeat split; [exact Hc| |exact E].
      unfold stump_cands in Hx. apply sweep_thr_of in Hx. destruct Hx as (thr & n & Ht & [<-|[]]). exact Ht.
    + intros c' thr lo hi Hc' Ht. unfold thresholds in Ht. destruct (sweep_thr_in no
        (fun thr neg => [(thr, true, clamp floor (stump_rss no (vmom_of no (present c')) neg (miss_rss no c')))]) (present c') thr Ht) as (n & Hn).
      specialize (Hn _ (or_introl eq_refl)). fold (stump_cands no floor c') in Hn.
      destruct (stump_cand_optimal no floor c' _ Hn) as (_ & Hle & _). specialize (Hle lo hi). specialize (Hall c' _ Hc' Hn).
      unfold c_thr in Hle. cbn [fst snd] in Hle. lra.
  - intros c Hc. specialize (H c Hc). unfold thresholds. destruct (midpoints (map fst (isort fst (present c)))) as [|t l] eqn:E; [reflexivity|].
    exfalso. destruct (sweep_thr_in no
        (fun thr neg => [(thr, true, clamp floor (stump_rss no (vmom_of no (present c)) neg (miss_rss no c)))]) (present c) t) as (n & Hn).
    { rewrite E. now left. }
    specialize (Hn _ (or_introl eq_refl)). fold (stump_cands no floor c) in Hn. rewrite H in Hn. contradiction.
Qed.

Lemma hinge_fit_optimal no floor (cs : list (col Q)) :
  match hinge_fit no floor cs with
  | Some s =>
      (exists c thr dir beta, In c cs /\ In thr (thresholds c) /\ s == clamp floor (rss_of no (hinge_pred no thr dir beta) c)) /\
      (forall c thr dir beta, In c cs -> In thr (thresholds c) -> s <= clamp floor (rss_of no (hinge_pred no thr dir beta) c))
  | None => forall c, In c cs -> thresholds c = []
  end.
Proof.
  unfold hinge_fit. pose proof (best_of_flat (hinge_cands no floor) c_score cs) as H.
  destruct (best_of (map c_score (flat_map (hinge_cands no floor) cs))) as [s|].
  - destruct H as ((c & x & Hc & Hx & ->) & Hall). split.
    + destruct (hinge_cand_optimal no floor c x Hx) as (_ & beta & E). exists c, (c_thr x), (c_dir x), beta. repeat split; [exact Hc| |exact E].
      unfold hinge_cands in Hx. apply sweep_thr_of in Hx. destruct Hx as (thr & n & Ht & [<-|[<-|[]]]); exact Ht.
    + intros c' thr dir beta Hc' Ht. unfold thresholds in Ht. destruct (sweep_thr_in no
        (fun thr neg => [(thr, true, clamp floor (hinge_rss_left no (vmom_of no (present c')) neg (miss_rss no c') thr));
                         (thr, false, clamp floor (hinge_rss_right no (vmom_of no (present c')) neg (miss_rss no c') thr))])
        (present c') thr Ht) as (n & Hn).
      destruct dir.
      * specialize (Hn _ (or_introl eq_refl)). fold (hinge_cands no floor c') in Hn.
        destruct (hinge_cand_optimal no floor c' _ Hn) as (Hle & _). specialize (Hle beta). specialize (Hall c' _ Hc' Hn).
        unfold c_thr, c_dir in Hle. cbn [fst snd] in Hle. lra.
      * specialize (Hn _ (or_intror (or_introl eq_refl))). fold (hinge_cands no floor c') in Hn.
        destruct (hinge_cand_optimal no floor c' _ Hn) as (Hle & _). specialize (Hle beta). specialize (Hall c' _ Hc' Hn).
        unfold c_thr, c_dir in Hle. cbn [fst snd] in Hle. lra.
  - intros c Hc. specialize (H c Hc). unfold thresholds. destruct (midpoints (map fst (isort fst (present c)))) as [|t l] eqn:E; [reflexivity|].
    exfalso. destruct (sweep_thr_in no
        (fun thr neg => [(thr, true, clamp floor (hinge_rss_left no (vmom_of no (present c)) neg (miss_rss no c) thr));
                         (thr, false, clamp floor (hinge_rss_right no (vmom_of no (present c)) neg (miss_rss no c) thr))]) (present c) t) as (n & Hn).
    { rewrite E. now left. }
    specialize (Hn _ (or_introl eq_refl)). fold (hinge_cands no floor c) in Hn. rewrite H in Hn. contradiction.
Qed.

(* a feature takes part in the affine fit iff its determinant is not zero (iff two distinct values are present) *)
Definition affine_ok (no : nat) (c : col Q) : Prop := ~ adet (vget 0 (vmom_of no (present c))) == 0.
Lemma affine_cands_ok no floor c : affine_cands no floor c <> [] <-> affine_ok no c.
Proof.
  unfold affine_cands, affine_ok. destruct (Qeq_bool (adet (vget 0 (vmom_of no (present c)))) 0) eqn:E.
  - apply Qeq_bool_iff in E. split; [congruence|contradiction].
  - apply Qeq_bool_neq in E. split; [intros _; exact E | congruence].
Qed.
Lemma affine_fit_optimal no floor (cs : list (col Q)) :
  match affine_fit no floor cs with
  | Some s =>
      (exists c w b, In c cs /\ affine_ok no c /\ s == clamp floor (rss_of no (affine_pred no w b) c)) /\
      (forall c w b, In c cs -> affine_ok no c -> s <= clamp floor (rss_of no (affine_pred no w b) c))
  | None => forall c, In c cs -> ~ affine_ok no c
  end.
Proof.
  unfold affine_fit. pose proof (best_of_flat (affine_cands no floor) (fun x => x) cs) as H. rewrite map_id in H.
  destruct (best_of (flat_map (affine_cands no floor) cs)) as [s|].
  - destruct H as ((c & x & Hc & Hx & ->) & Hall). split.
    + destruct (affine_cand_optimal no floor c x Hx) as (_ & w & b & E). exists c, w, b. repeat split; [exact Hc| |exact E].
      apply (affine_cands_ok no floor c). intro E0. rewrite E0 in Hx. contradiction.
    + intros c' w b Hc' Hok. apply (affine_cands_ok no floor c') in Hok. destruct (affine_cands no floor c') as [|y l] eqn:E; [congruence|].
      assert (Hy : In y (affine_cands no floor c')) by (rewrite E; now left).
      destruct (affine_cand_optimal no floor c' y Hy) as (Hle & _). specialize (Hle w b). specialize (Hall c' y Hc' Hy). lra.
  - intros c Hc Hok. apply (affine_cands_ok no floor c) in Hok. apply Hok. now apply H.
Qed.

(* ---- look-up tables ----------------------------------------------------------------------------------------------------------- *)
Lemma zinsert_in k l x : In x (zinsert k l) <-> x = k \/ In x l.
Proof.
  induction l as [|h t IH]; cbn [zinsert].
  - cbn. intuition.
  - destruct (k <? h)%Z eqn:E1; [cbn; intuition|]. destruct (k =? h)%Z eqn:E2.
    + apply Z.eqb_eq in E2. subst. cbn. intuition.
    + cbn [In]. rewrite IH. intuition.
Qed.
Lemma zinsert_sorted k l : StronglySorted Z.lt l -> StronglySorted Z.lt (zinsert k l).
Proof.
  induction 1 as [|h t Hs IH Hh]; cbn [zinsert]; [repeat constructor|].
  destruct (k <? h)%Z eqn:E1.
  - apply Z.ltb_lt in E1. constructor; [now constructor|]. constructor; [exact E1|]. eapply Forall_impl; [|exact Hh]. cbn; intros; lia.
  - destruct (k =? h)%Z eqn:E2; [now constructor|]. apply Z.ltb_ge in E1. apply Z.eqb_neq in E2.
    constructor; [exact IH|]. rewrite Forall_forall. intros x Hx. apply zinsert_in in Hx. destruct Hx as [->|Hx]; [lia|].
    rewrite Forall_forall in Hh. now apply Hh.
Qed.
Lemma keys_sorted rows : StronglySorted Z.lt (keys_of rows).
Proof. unfold keys_of. induction (map fst rows) as [|k l IH]; cbn [fold_right]; [constructor | now apply zinsert_sorted]. Qed.
Lemma keys_in rows k : In k (keys_of rows) <-> In k (map fst rows).
Proof.
  unfold keys_of. induction (map fst rows) as [|h l IH]; cbn [fold_right]; [reflexivity|]. rewrite zinsert_in, IH. cbn. intuition.
Qed.
Lemma sorted_nodup l : StronglySorted Z.lt l -> NoDup l.
Proof.
  induction 1 as [|h t Hs IH Hh]; constructor; [|exact IH]. intro Hin. rewrite Forall_forall in Hh. specialize (Hh h Hin). lia.
Qed.
Lemma keys_nodup rows : NoDup (keys_of rows).
Proof. apply sorted_nodup, keys_sorted. Qed.

(* sum of an indicator over a duplicate-free list *)
Lemma qsum_indicator (ks : list Z) (k0 : Z) (h : Z -> Q) : NoDup ks ->
  qsum (map (fun k => if (k0 =? k)%Z then h k else 0) ks) == if in_dec Z.eq_dec k0 ks then h k0 else 0.
Proof.
  induction 1 as [|k ks Hk Hnd IH]; qs; [destruct (in_dec Z.eq_dec k0 []); [contradiction|reflexivity]|].
  rewrite IH. destruct (k0 =? k)%Z eqn:E.
  - apply Z.eqb_eq in E. subst k0. destruct (in_dec Z.eq_dec k ks) as [i0|n0]; [contradiction|]. destruct (in_dec Z.eq_dec k (k :: ks)) as [_|n3]; [ring|].
    exfalso; apply n3; now left.
  - apply Z.eqb_neq in E. destruct (in_dec Z.eq_dec k0 ks) as [i1|n1], (in_dec Z.eq_dec k0 (k :: ks)) as [i2|n2]; try ring.
    + exfalso; apply n2; now right.
    + destruct i2 as [->|i2]; [congruence|contradiction].
Qed.

(* a sum over the rows = the sum over the keys of the sums over the bins *)
Definition bin_of (k : Z) (rows : list (Z * list Q)) := filter (fun e => (fst e =? k)%Z) rows.
Lemma qsum_by_keys (f : Z * list Q -> Q) (rows : list (Z * list Q)) (ks : list Z) :
  NoDup ks -> (forall e, In e rows -> In (fst e) ks) ->
  qsum (map f rows) == qsum (map (fun k => qsum (map f (bin_of k rows))) ks).
Proof.
  intros Hnd. induction rows as [|e rows IH]; intro Hin.
  - qs. symmetry. apply qsum_map_zero. reflexivity.
  - qs. rewrite IH by (intros; apply Hin; now right).
    assert (E : qsum (map (fun k => qsum (map f (bin_of k (e :: rows)))) ks)
                == qsum (map (fun k => (if (fst e =? k)%Z then f e else 0) + qsum (map f (bin_of k rows))) ks)).
    { apply qsum_map_eq. intros k _. unfold bin_of. cbn [filter]. destruct (fst e =? k)%Z; qs; ring. }
    rewrite E, qsum_map_plus, (qsum_indicator ks (fst e) (fun _ => f e) Hnd).
    destruct (in_dec Z.eq_dec (fst e) ks) as [_|n]; [reflexivity|]. exfalso. apply n, Hin. now left.
Qed.

Lemma bin_of_key k rows e : In e (bin_of k rows) -> fst e = k /\ In e rows.
Proof. unfold bin_of. rewrite filter_In. intros [H E]. apply Z.eqb_eq in E. now split. Qed.
Lemma bin_nonempty k rows : In k (keys_of rows) -> krows k rows <> [].
Proof.
  rewrite keys_in, in_map_iff. intros (e & <- & He). unfold krows.
  assert (In e (filter (fun e0 => (fst e0 =? fst e)%Z) rows)) by (apply filter_In; split; [exact He | apply Z.eqb_refl]).
  destruct (filter (fun e0 => (fst e0 =? fst e)%Z) rows); [contradiction | discriminate].
Qed.

(* the error of a table on one bin, expressed with the accumulator of the bin *)
Lemma bin_err no (T : Z -> list Q) rows k :
  qsum (map (perr no T) (bin_of k rows))
  == qsum (tab no (fun o => arss (vget o (bin_mom no rows k)) 0 (rget o (T k)))).
Proof.
  assert (E : qsum (map (perr no T) (bin_of k rows)) == side_err no (fun _ => 0) (fun o => rget o (T k)) (krows k rows)).
  { unfold side_err, krows. fold (bin_of k rows). rewrite map_map. apply qsum_map_eq. intros e He. apply bin_of_key in He. destruct He as [<- _].
    unfold perr. apply qsum_tab_eq. intros o Ho. unfold sqerr. cbn [fst snd]. ring. }
  rewrite E, side_err_swap. apply qsum_tab_eq. intros o Ho. unfold bin_mom. rewrite vget_vmom_of by exact Ho. now rewrite arss_is_rss.
Qed.
Lemma bin_rss_eq m : bin_rss m == m_r2 m - m_r1 m * m_r1 m / m_x0 m.
Proof. reflexivity. Qed.
Lemma bin_rss_min m c : 0 < m_x0 m -> bin_rss m <= arss m 0 c.
Proof.
  intro H. unfold bin_rss. assert (E : arss m 0 c == m_r2 m + c * c * m_x0 m - 2 * c * m_r1 m) by (unfold arss; ring).
  rewrite E. apply quad_min. exact H.
Qed.
Lemma bin_rss_mean m : ~ m_x0 m == 0 -> bin_rss m == arss m 0 (mean_of m).
Proof. intro H. unfold bin_rss, arss, mean_of. field. exact H. Qed.
Lemma bin_x0_pos no rows k o : (o < no)%nat -> In k (keys_of rows) -> 0 < m_x0 (vget o (bin_mom no rows k)).
Proof. intros Ho Hk. unfold bin_mom. apply x0_pos_neg; [exact Ho | now apply bin_nonempty]. Qed.

Lemma rss_of_by_bins no (T : Z -> list Q) (c : col Z) :
  rss_of no T c == miss_rss no c
                   + qsum (map (fun k => qsum (tab no (fun o => arss (vget o (bin_mom no (present c) k)) 0 (rget o (T k))))) (keys_of (present c))).
Proof.
  rewrite rss_of_present. apply Qplus_inj_l.
  rewrite (qsum_by_keys (perr no T) (present c) (keys_of (present c)) (keys_nodup _)).
  - apply qsum_map_eq. intros k _. apply bin_err.
  - intros e He. apply keys_in. now apply in_map.
Qed.

(* C10_dense_optimal, one column: the dense score is the RSS of the table of per-key means and a lower bound of the RSS of every
   table (any mapping from label sets to prediction vectors) *)
Lemma dense_col_optimal no (c : col Z) :
  (forall T, dense_rss no c <= rss_of no T c) /\ (exists T, dense_rss no c == rss_of no T c).
Proof.
  split.
  - intro T. rewrite rss_of_by_bins. unfold dense_rss. apply Qplus_le_compat; [lra|]. apply qsum_map_le. intros k Hk.
    unfold vbin_rss. apply qsum_tab_le. intros o Ho. apply bin_rss_min. now apply bin_x0_pos.
  - exists (fun k => vec (fun o => mean_of (vget o (bin_mom no (present c) k))) no). rewrite rss_of_by_bins. unfold dense_rss.
    apply Qplus_inj_l. apply qsum_map_eq. intros k Hk. unfold vbin_rss. apply qsum_tab_eq. intros o Ho. rewrite rget_vec by exact Ho.
    apply bin_rss_mean. pose proof (bin_x0_pos no (present c) k o Ho Hk). lra.
Qed.
Lemma dense_fit_optimal no floor (cs : list (col Z)) :
  match dense_fit no floor cs with
  | Some s => (exists c T, In c cs /\ s == clamp floor (rss_of no T c)) /\
              (forall c T, In c cs -> s <= clamp floor (rss_of no T c))
  | None => cs = []
  end.
Proof.
  unfold dense_fit. pose proof (best_of_flat (dense_cands no floor) (fun x => x) cs) as H. rewrite map_id in H.
  destruct (best_of (flat_map (dense_cands no floor) cs)) as [s|].
  - destruct H as ((c & x & Hc & [<-|[]] & ->) & Hall). destruct (dense_col_optimal no c) as (Hle & T & E). split.
    + exists c, T. split; [exact Hc|]. now apply clamp_proper.
    + intros c' T' Hc'. specialize (Hall c' _ Hc' (or_introl eq_refl)). destruct (dense_col_optimal no c') as (Hle' & _).
      pose proof (clamp_mono floor _ _ (Hle' T')). lra.
  - destruct cs as [|c cs]; [reflexivity|]. specialize (H c (or_introl eq_refl)). discriminate.
Qed.

(* ---- k-best / discrete-step tables ------------------------------------------------------------------------------------------ *)
Lemma prefix_sums_in l : forall s x, In x (prefix_sums s l) -> exists k, (1 <= k <= length l)%nat /\ x == s + qsum (firstn k l).
Proof.
  induction l as [|d l IH]; intros s x H; [contradiction|]. cbn [prefix_sums] in H. destruct H as [<-|H].
  - exists 1%nat. split; [cbn; lia|]. cbn [firstn]. rewrite qsum_cons, qsum_nil. ring.
  - destruct (IH _ _ H) as (k & Hk & E). exists (S k). split; [cbn; lia|]. cbn [firstn]. rewrite qsum_cons, E. ring.
Qed.
Lemma prefix_sums_last l : forall s, l <> [] -> exists x, In x (prefix_sums s l) /\ x == s + qsum l.
Proof.
  induction l as [|d l IH]; intros s H; [congruence|]. cbn [prefix_sums]. destruct l as [|d' l'].
  - exists (s + d). split; [now left|]. rewrite qsum_cons, qsum_nil. ring.
  - destruct (IH (s + d)) as (x & Hx & E); [discriminate|]. exists x. split; [now right|]. rewrite E, (qsum_cons d). ring.
Qed.
Lemma in_firstn' {A} k (l : list A) x : In x (firstn k l) -> In x l.
Proof. intro H. rewrite <- (firstn_skipn k l). apply in_or_app. now left. Qed.
Lemma in_skipn' {A} k (l : list A) x : In x (skipn k l) -> In x l.
Proof. intro H. rewrite <- (firstn_skipn k l). apply in_or_app. now right. Qed.
Lemma qsum_firstn_skipn k l : qsum l == qsum (firstn k l) + qsum (skipn k l).
Proof. rewrite <- qsum_app, firstn_skipn. reflexivity. Qed.
Lemma qsum_nonpos l : (forall x, In x l -> x <= 0) -> qsum l <= 0.
Proof.
  induction l as [|a l IH]; intro H; [rewrite qsum_nil; lra|]. rewrite qsum_cons.
  assert (a <= 0) by (apply H; now left). assert (qsum l <= 0) by (apply IH; intros; apply H; now right). lra.
Qed.

Definition deltas_of (no : nat) (rows : list (Z * list Q)) : list Q :=
  map (bin_delta no) (map (bin_mom no rows) (keys_of rows)).
Lemma x0_same no (l : list row) o : (o < no)%nat -> (0 < no)%nat -> m_x0 (vget o (vmom_of no l)) == m_x0 (vget 0 (vmom_of no l)).
Proof.
  intros Ho H0. rewrite !vget_vmom_of by assumption.
  destruct (mom_of1_fields (proj o l)) as (A0 & _). destruct (mom_of1_fields (proj 0 l)) as (B0 & _).
  rewrite A0, B0, !ms_f1_length. unfold proj. now rewrite !map_length.
Qed.
(* score of a bin = its squared residuals plus its (non-positive) delta *)
Lemma vbin_rss_delta no rows k : (0 < no)%nat -> In k (keys_of rows) ->
  vbin_rss no (bin_mom no rows k) == vbin_r2 no (bin_mom no rows k) + bin_delta no (bin_mom no rows k)
  /\ bin_delta no (bin_mom no rows k) <= 0.
Proof.
  intros H0 Hk. pose proof (bin_x0_pos no rows k 0 H0 Hk) as Hp. set (v := bin_mom no rows k) in *. split.
  - unfold vbin_rss, vbin_r2, bin_delta, tab.
    assert (E : qsum (map (fun o => bin_rss (vget o v)) (seq 0 no))
                == qsum (map (fun o => m_r2 (vget o v) + (- / m_x0 (vget 0 v)) * (m_r1 (vget o v) * m_r1 (vget o v))) (seq 0 no))).
    { apply qsum_map_eq. intros o Ho. apply in_tab_iff in Ho. unfold bin_rss. unfold v, bin_mom. rewrite (x0_same no _ o Ho H0).
      fold (bin_mom no rows k). fold v. field. lra. }
    rewrite E, qsum_map_plus, qsum_map_scal. field. lra.
  - unfold bin_delta.
    assert (0 <= qsum (tab no (fun o => m_r1 (vget o v) * m_r1 (vget o v)))) by (apply qsum_map_nonneg; intros; apply sq_nonneg).
    assert (0 <= qsum (tab no (fun o => m_r1 (vget o v) * m_r1 (vget o v))) / m_x0 (vget 0 v)) by (apply Qle_shift_div_l; lra). lra.
Qed.
Lemma deltas_nonpos no rows d : (0 < no)%nat -> In d (deltas_of no rows) -> d <= 0.
Proof.
  intros H0 H. unfold deltas_of in H. rewrite map_map in H. apply in_map_iff in H. destruct H as (k & <- & Hk).
  now apply vbin_rss_delta.
Qed.
Lemma dense_rss_deltas no (c : col Z) : (0 < no)%nat ->
  dense_rss no c == miss_rss no c + qsum (map (vbin_r2 no) (map (bin_mom no (present c)) (keys_of (present c))))
                    + qsum (deltas_of no (present c)).
Proof.
  intro H0. unfold dense_rss, deltas_of. rewrite !map_map.
  assert (E : qsum (map (fun k => vbin_rss no (bin_mom no (present c) k)) (keys_of (present c)))
              == qsum (map (fun k => vbin_r2 no (bin_mom no (present c) k) + bin_delta no (bin_mom no (present c) k)) (keys_of (present c)))).
  { apply qsum_map_eq. intros k Hk. now apply vbin_rss_delta. }
  rewrite E, qsum_map_plus. ring.
Qed.

(* every partial sum of the k-best sweep is at least the dense score; the full sum equals it *)
Lemma kbest_seq_ge_dense no maxk (c : col Z) x : (0 < no)%nat -> In x (kbest_rss_seq no maxk c) -> dense_rss no c <= x.
Proof.
  intros H0 H. unfold kbest_rss_seq in H. fold (deltas_of no (present c)) in H. apply prefix_sums_in in H. destruct H as (k & _ & E).
  set (ds := isort (fun d => d) (deltas_of no (present c))) in *.
  set (kmax := Z.to_nat (src_c10_max_kbest maxk (Z.of_nat (length (map (bin_mom no (present c)) (keys_of (present c))))))) in *.
  rewrite E, dense_rss_deltas by exact H0.
  assert (P : qsum (deltas_of no (present c)) == qsum ds) by (apply qsum_perm, isort_perm).
  assert (N : forall d, In d ds -> d <= 0).
  { intros d Hd. apply (deltas_nonpos no (present c)); [exact H0|]. eapply Permutation_in; [symmetry; apply isort_perm | exact Hd]. }
  rewrite P. rewrite (qsum_firstn_skipn kmax ds). rewrite (qsum_firstn_skipn k (firstn kmax ds)).
  assert (qsum (skipn kmax ds) <= 0) by (apply qsum_nonpos; intros d Hd; apply N; eapply in_skipn'; exact Hd).
  assert (qsum (skipn k (firstn kmax ds)) <= 0).
  { apply qsum_nonpos. intros d Hd. apply N. eapply (in_firstn' kmax). eapply in_skipn'. exact Hd. }
  lra.
Qed.
Lemma kbest_seq_full no maxk (c : col Z) : (0 < no)%nat -> (maxk < 1)%Z -> keys_of (present c) <> [] ->
  exists x, In x (kbest_rss_seq no maxk c) /\ x == dense_rss no c.
Proof.
  intros H0 Hk Hne. unfold kbest_rss_seq. fold (deltas_of no (present c)).
  set (ds := isort (fun d => d) (deltas_of no (present c))).
  assert (L : length ds = length (map (bin_mom no (present c)) (keys_of (present c)))).
  { unfold ds. rewrite <- (Permutation_length (isort_perm _ _ _)). unfold deltas_of. now rewrite map_length. }
  unfold src_c10_max_kbest. apply Z.ltb_lt in Hk. rewrite Hk, Z.min_id. rewrite Nat2Z.id, <- L, firstn_all.
  destruct (prefix_sums_last ds (miss_rss no c + qsum (map (vbin_r2 no) (map (bin_mom no (present c)) (keys_of (present c)))))) as (x & Hx & E).
  { intro E. rewrite E in L. cbn in L. rewrite map_length in L. destruct (keys_of (present c)); [congruence|discriminate]. }
  exists x. split; [exact Hx|]. rewrite E, dense_rss_deltas by exact H0. apply Qplus_inj_l. symmetry. apply qsum_perm, isort_perm.
Qed.
Lemma kbest_seq_nil no maxk (c : col Z) : keys_of (present c) = [] -> kbest_rss_seq no maxk c = [].
Proof. intro E. unfold kbest_rss_seq. rewrite E. cbn [map isort]. now rewrite firstn_nil. Qed.

(* C10_kbest_optimal (RSS criterion): the k-best fit returns the minimum over the features with at least one present value of the
   RSS of the best table -- the RSS sequence over k decreases to the dense score *)
Lemma kbest_fit_optimal no floor maxk (cs : list (col Z)) : (0 < no)%nat -> (maxk < 1)%Z ->
  match kbest_fit no floor maxk cs with
  | Some s => (exists c T, In c cs /\ keys_of (present c) <> [] /\ s == clamp floor (rss_of no T c)) /\
              (forall c T, In c cs -> keys_of (present c) <> [] -> s <= clamp floor (rss_of no T c))
  | None => forall c, In c cs -> keys_of (present c) = []
  end.
Proof.
  intros H0 Hk. unfold kbest_fit. pose proof (best_of_flat (kbest_cands no floor maxk) (fun x => x) cs) as H. rewrite map_id in H.
  destruct (best_of (flat_map (kbest_cands no floor maxk) cs)) as [s|].
  - destruct H as ((c & x & Hc & Hx & ->) & Hall).
    assert (Low : forall c' T, In c' cs -> keys_of (present c') <> [] -> x <= clamp floor (rss_of no T c')).
    { intros c' T Hc' Hne. destruct (kbest_seq_full no maxk c' H0 Hk Hne) as (y & Hy & Ey).
      assert (Hy' : In (clamp floor y) (kbest_cands no floor maxk c')) by (unfold kbest_cands; now apply in_map).
      specialize (Hall c' _ Hc' Hy'). destruct (dense_col_optimal no c') as (Hle & _).
      pose proof (clamp_mono floor _ _ (Hle T)). rewrite (clamp_proper floor floor (Qeq_refl _) y _ Ey) in Hall. lra. }
    split; [|exact Low].
    assert (Hne : keys_of (present c) <> []).
    { intro E. unfold kbest_cands in Hx. rewrite (kbest_seq_nil no maxk c E) in Hx. contradiction. }
    destruct (dense_col_optimal no c) as (_ & T & ET). exists c, T. repeat split; [exact Hc|exact Hne|].
    unfold kbest_cands in Hx. apply in_map_iff in Hx. destruct Hx as (y & <- & Hy).
    pose proof (clamp_mono floor _ _ (kbest_seq_ge_dense no maxk c y H0 Hy)) as G.
    specialize (Low c T Hc Hne). rewrite <- (clamp_proper floor floor (Qeq_refl _) _ _ ET) in Low.
    rewrite <- (clamp_proper floor floor (Qeq_refl _) _ _ ET). lra.
  - intros c Hc. specialize (H c Hc). destruct (keys_of (present c)) as [|k ks] eqn:E; [reflexivity|]. exfalso.
    destruct (kbest_seq_full no maxk c H0 Hk) as (y & Hy & _); [rewrite E; discriminate|].
    unfold kbest_cands in H. apply map_eq_nil in H. rewrite H in Hy. contradiction.
Qed.

(* discrete step: the table supported on one key *)
Definition single (k0 : Z) (t : list Q) (k : Z) : list Q := if (k0 =? k)%Z then t else [].
Lemma arss_zero m : arss m 0 0 == m_r2 m.
Proof. unfold arss. ring. Qed.

Lemma dstep_col_optimal no (c : col Z) : (0 < no)%nat -> keys_of (present c) <> [] ->
  exists x, kbest_rss_seq no 1 c = [x] /\
            (forall k0 t, x <= rss_of no (single k0 t) c) /\ (exists k0 t, x == rss_of no (single k0 t) c).
Proof.
  intros H0 Hne. unfold kbest_rss_seq. fold (deltas_of no (present c)).
  set (rows := present c) in *. set (keys := keys_of rows) in *.
  set (rss0 := miss_rss no c + qsum (map (vbin_r2 no) (map (bin_mom no rows) keys))).
  assert (K1 : Z.to_nat (src_c10_max_kbest 1 (Z.of_nat (length (map (bin_mom no rows) keys)))) = 1%nat).
  { unfold src_c10_max_kbest. rewrite map_length. change (1 <? 1)%Z with false. cbv iota.
    destruct keys as [|k0 ks]; [congruence|]. cbn [length]. rewrite Z.min_r by lia. reflexivity. }
  rewrite K1. clear K1.
  pose proof (isort_perm _ (fun d : Q => d) (deltas_of no rows)) as P.
  pose proof (isort_sorted _ (fun d : Q => d) (deltas_of no rows)) as S.
  destruct (isort (fun d => d) (deltas_of no rows)) as [|d ds] eqn:E.
  { apply Permutation_sym, Permutation_nil in P. unfold deltas_of in P. fold keys in P. apply map_eq_nil, map_eq_nil in P. congruence. }
  cbn [firstn prefix_sums]. exists (rss0 + d). split; [reflexivity|].
  assert (Dmin : forall y, In y (deltas_of no rows) -> d <= y).
  { intros y Hy. apply (Permutation_in _ P) in Hy. inversion S as [|? ? _ Hall]; subst. destruct Hy as [<-|Hy]; [lra|].
    rewrite Forall_forall in Hall. apply (Hall y Hy). }
  assert (Din : In d (deltas_of no rows)) by (apply (Permutation_in _ (Permutation_sym P)); now left).
  assert (Dneg : d <= 0) by (now apply (deltas_nonpos no rows)).
  (* the RSS of a single-key table, bin by bin *)
  assert (Dec : forall k0 t, rss_of no (single k0 t) c
             == miss_rss no c + qsum (map (fun k => qsum (tab no (fun o => arss (vget o (bin_mom no rows k)) 0 (rget o (single k0 t k))))) keys))
    by (intros; apply rss_of_by_bins).
  assert (Other : forall k0 t k, (k0 =? k)%Z = false ->
             qsum (tab no (fun o => arss (vget o (bin_mom no rows k)) 0 (rget o (single k0 t k)))) == vbin_r2 no (bin_mom no rows k)).
  { intros k0 t k Ek. unfold vbin_r2. apply qsum_tab_eq. intros o Ho. unfold single. rewrite Ek, rget_nil. apply arss_zero. }
  assert (Sum : forall k0 (h : Z -> Q), qsum (map (fun k => vbin_r2 no (bin_mom no rows k) + (if (k0 =? k)%Z then h k else 0)) keys)
             == qsum (map (vbin_r2 no) (map (bin_mom no rows) keys)) + (if in_dec Z.eq_dec k0 keys then h k0 else 0)).
  { intros k0 h. rewrite qsum_map_plus, map_map, (qsum_indicator keys k0 h (keys_nodup rows)). reflexivity. }
  split.
  - intros k0 t. rewrite Dec.
    assert (L : qsum (map (fun k => vbin_r2 no (bin_mom no rows k) + (if (k0 =? k)%Z then bin_delta no (bin_mom no rows k) else 0)) keys)
                <= qsum (map (fun k => qsum (tab no (fun o => arss (vget o (bin_mom no rows k)) 0 (rget o (single k0 t k))))) keys)).
    { apply qsum_map_le. intros k Hk. destruct (k0 =? k)%Z eqn:Ek.
      - destruct (vbin_rss_delta no rows k H0 Hk) as (Ed & _). rewrite <- Ed. unfold vbin_rss. apply qsum_tab_le. intros o Ho.
        apply bin_rss_min. now apply bin_x0_pos.
      - rewrite (Other k0 t k Ek). lra. }
    rewrite Sum in L. unfold rss0.
    destruct (in_dec Z.eq_dec k0 keys) as [i|n].
    + assert (d <= bin_delta no (bin_mom no rows k0)).
      { apply Dmin. unfold deltas_of. rewrite map_map. apply in_map_iff. now exists k0. }
      lra.
    + lra.
  - unfold deltas_of in Din. rewrite map_map in Din. apply in_map_iff in Din. destruct Din as (k0 & Ek0 & Hk0).
    exists k0, (vec (fun o => mean_of (vget o (bin_mom no rows k0))) no). rewrite Dec.
    assert (L : qsum (map (fun k => qsum (tab no (fun o => arss (vget o (bin_mom no rows k)) 0
                                                  (rget o (single k0 (vec (fun o => mean_of (vget o (bin_mom no rows k0))) no) k))))) keys)
                == qsum (map (fun k => vbin_r2 no (bin_mom no rows k) + (if (k0 =? k)%Z then bin_delta no (bin_mom no rows k) else 0)) keys)).
    { apply qsum_map_eq. intros k Hk. destruct (k0 =? k)%Z eqn:Ek.
      - apply Z.eqb_eq in Ek. subst k. destruct (vbin_rss_delta no rows k0 H0 Hk) as (Ed & _). rewrite <- Ed. unfold vbin_rss.
        apply qsum_tab_eq. intros o Ho. unfold single. rewrite Z.eqb_refl, rget_vec by exact Ho. symmetry. apply bin_rss_mean.
        pose proof (bin_x0_pos no rows k0 o Ho Hk). lra.
      - rewrite (Other k0 _ k Ek). ring. }
    rewrite L, Sum. destruct (in_dec Z.eq_dec k0 keys) as [_|n]; [|contradiction]. unfold rss0. rewrite Ek0. ring.
Qed.

(* C10_dstep_optimal: the discrete-step fit is the minimum over the features with a present value and over the tables that
   predict one vector for one label set and zero elsewhere *)
Lemma dstep_fit_optimal no floor (cs : list (col Z)) : (0 < no)%nat ->
  match kbest_fit no floor 1 cs with
  | Some s => (exists c k0 t, In c cs /\ keys_of (present c) <> [] /\ s == clamp floor (rss_of no (single k0 t) c)) /\
              (forall c k0 t, In c cs -> keys_of (present c) <> [] -> s <= clamp floor (rss_of no (single k0 t) c))
  | None => forall c, In c cs -> keys_of (present c) = []
  end.
Proof.
  intros H0. unfold kbest_fit. pose proof (best_of_flat (kbest_cands no floor 1) (fun x => x) cs) as H. rewrite map_id in H.
  destruct (best_of (flat_map (kbest_cands no floor 1) cs)) as [s|].
  - destruct H as ((c & x & Hc & Hx & ->) & Hall).
    assert (Hne : keys_of (present c) <> []).
    { intro E. unfold kbest_cands in Hx. rewrite (kbest_seq_nil no 1 c E) in Hx. contradiction. }
    split.
    + destruct (dstep_col_optimal no c H0 Hne) as (y & Ey & _ & k0 & t & Et). exists c, k0, t. repeat split; [exact Hc|exact Hne|].
      unfold kbest_cands in Hx. rewrite Ey in Hx. destruct Hx as [<-|[]]. now apply clamp_proper.
    + intros c' k0 t Hc' Hne'. destruct (dstep_col_optimal no c' H0 Hne') as (y & Ey & Hle & _).
      assert (Hy : In (clamp floor y) (kbest_cands no floor 1 c')) by (unfold kbest_cands; rewrite Ey; now left).
      specialize (Hall c' _ Hc' Hy). pose proof (clamp_mono floor _ _ (Hle k0 t)). lra.
  - intros c Hc. specialize (H c Hc). destruct (keys_of (present c)) as [|k ks] eqn:E; [reflexivity|]. exfalso.
    destruct (dstep_col_optimal no c H0) as (y & Ey & _); [rewrite E; discriminate|].
    unfold kbest_cands in H. rewrite Ey in H. discriminate.
Qed.

(* ======================================================================================================================== *)
(* fitted learners: predict / split / scale / merge                                                                            *)
(* ======================================================================================================================== *)
Lemma rget_zeros no o : rget o (zeros no) == 0.
Proof.
  destruct (Nat.lt_ge_cases o no) as [H|H]; [unfold zeros; rewrite rget_tab by exact H; reflexivity|].
  unfold rget, zeros. rewrite nth_overflow by (rewrite tab_length; exact H). reflexivity.
Qed.
Lemma predict_zero no w s o : (o < no)%nat ->
  rget o (predict no w s (zeros no)) == match incr no w s with None => 0 | Some d => rget o d end.
Proof.
  intro Ho. unfold predict. destruct (incr no w s) as [d|]; [|apply rget_zeros]. rewrite rget_tab by exact Ho. rewrite rget_zeros. ring.
Qed.

(* C10_predict_additive: predict adds the sample's increment to whatever the outputs hold *)
Lemma predict_additive no w s out o : (o < no)%nat ->
  rget o (predict no w s out) == rget o out + rget o (predict no w s (zeros no)).
Proof.
  intro Ho. rewrite predict_zero by exact Ho. unfold predict. destruct (incr no w s) as [d|]; [|ring].
  rewrite rget_tab by exact Ho. reflexivity.
Qed.

(* C10_missing_zero: a sample without a group (in particular: whose selected feature is missing) leaves the outputs untouched *)
Definition feature_of (w : wl) : option nat :=
  match w with
  | WAffine f _ _ | WStump f _ _ _ | WHinge f _ _ _ _ | WTable f _ _ _ => Some f
  | WTree _ _ => None
  end.
Lemma group_none_incr no w s : group w s = None <-> incr no w s = None.
Proof.
  destruct w as [f ww b|f thr lo hi|f thr d ww b|f hs h2t tb|nodes tb]; cbn [group incr].
  - destruct (fget f s); split; congruence.
  - destruct (fget f s); split; congruence.
  - destruct (fget f s) as [|x|h]; try (split; congruence). destruct (Bool.eqb d (qlt x thr)); split; congruence.
  - destruct (fget f s) as [|x|h]; try (split; congruence). destruct (find hs h); split; congruence.
  - destruct (tree_group (S (length nodes)) nodes 0%Z s); split; congruence.
Qed.
Lemma missing_zero no w s out :
  (group w s = None -> predict no w s out = out) /\
  (forall f, feature_of w = Some f -> fget f s = FMiss -> group w s = None).
Proof.
  split.
  - intro H. apply (group_none_incr no) in H. unfold predict. now rewrite H.
  - intros f Hf Hm. destruct w; cbn in Hf; inversion Hf; subst; cbn [group]; now rewrite Hm.
Qed.

(* C10_split_table: the prediction of a sample is the table of its group *)
Definition tables_of (w : wl) : list (list Q) :=
  match w with
  | WAffine _ ww b | WHinge _ _ _ ww b => [ww; b]
  | WStump _ _ lo hi => [lo; hi]
  | WTable _ _ _ tb | WTree _ tb => tb
  end.
Definition table_like (w : wl) : bool :=
  match w with WStump _ _ _ _ | WTable _ _ _ _ | WTree _ _ => true | _ => false end.
Lemma split_table no w s g : group w s = Some g ->
  if table_like w then incr no w s = Some (znth g (tables_of w) [])
  else g = 0%Z /\ exists f x, feature_of w = Some f /\ fget f s = FNum x /\
                              incr no w s = Some (affine_pred no (znth 0%Z (tables_of w) []) (znth 1%Z (tables_of w) []) x).
Proof.
  destruct w as [f ww b|f thr lo hi|f thr d ww b|f hs h2t tb|nodes tb]; cbn [group incr table_like tables_of feature_of].
  - destruct (fget f s) as [|x|h] eqn:Ef; try discriminate. intros [= <-]. split; [reflexivity|]. exists f, x. now rewrite Ef.
  - destruct (fget f s) as [|x|h]; try discriminate. intros [= <-]. destruct (qlt x thr); reflexivity.
  - destruct (fget f s) as [|x|h] eqn:Ef; try discriminate. destruct (Bool.eqb d (qlt x thr)); try discriminate.
    intros [= <-]. split; [reflexivity|]. exists f, x. now rewrite Ef.
  - destruct (fget f s) as [|x|h]; try discriminate. destruct (find hs h); try discriminate. now intros [= <-].
  - destruct (tree_group (S (length nodes)) nodes 0%Z s); try discriminate. now intros [= <-].
Qed.

(* C10_tree_depth1_is_stump: with max_depth = 1 the root is terminal whatever the node size, and the tree built from the root stump
   has the groups and the predictions of that stump *)
Lemma tree_depth1_is_stump no f thr lo hi s out :
  (forall size minsize, src_c10_tree_terminal_fit size minsize 0 1 = true) /\
  group (tree_of_stump f thr lo hi) s = group (WStump f thr lo hi) s /\
  predict no (tree_of_stump f thr lo hi) s out = predict no (WStump f thr lo hi) s out.
Proof.
  split; [|split].
  - intros. unfold src_c10_tree_terminal_fit. apply orb_true_r.
  - unfold tree_of_stump. cbn [group length tree_group]. unfold znth. cbn [Z.ltb Z.compare Z.to_nat nth n_feature n_thr n_next n_table].
    destruct (fget f s) as [|x|h]; try reflexivity; destruct (qlt x thr); reflexivity.
  - unfold predict, tree_of_stump. cbn [incr length tree_group]. unfold znth. cbn [Z.ltb Z.compare Z.to_nat nth n_feature n_thr n_next n_table].
    destruct (fget f s) as [|x|h]; try reflexivity; destruct (qlt x thr); reflexivity.
Qed.

(* ---- scale ----------------------------------------------------------------------------------------------------------------- *)
(* the factor applied to table i by wlearner::scale (index expression from the source) *)
Definition sfac (sc : list Q) (i : Z) : Q := znth (src_c10_scale_index i (Z.of_nat (length sc))) sc 0.
Lemma scale_tables_nth sc tables : forall a i, (i < length tables)%nat ->
  nth i (map (fun it => map (fun x => x * sfac sc (fst it)) (snd it)) (combine (map Z.of_nat (seq a (length tables))) tables)) []
  = map (fun x => x * sfac sc (Z.of_nat (a + i))) (nth i tables []).
Proof.
  induction tables as [|t tables IH]; intros a i Hi; [cbn in Hi; lia|].
  cbn [length seq map combine]. destruct i as [|i]; cbn [nth fst snd].
  - now rewrite Nat.add_0_r.
  - rewrite IH by (cbn in Hi; lia). now rewrite Nat.add_succ_r.
Qed.
Lemma scale_tables_length sc tables : length (scale_tables sc tables) = length tables.
Proof. unfold scale_tables, zseq. rewrite map_length, combine_length, map_length, seq_length. apply Nat.min_id. Qed.
Lemma znth_scale_tables sc tables g :
  znth g (scale_tables sc tables) [] = map (fun x => x * sfac sc g) (znth g tables []).
Proof.
  unfold znth. destruct (g <? 0)%Z eqn:E; [reflexivity|]. apply Z.ltb_ge in E.
  destruct (Nat.lt_ge_cases (Z.to_nat g) (length tables)) as [H|H].
  - change (scale_tables sc tables)
      with (map (fun it => map (fun x => x * sfac sc (fst it)) (snd it)) (combine (map Z.of_nat (seq 0 (length tables))) tables)).
    rewrite (scale_tables_nth sc tables 0 (Z.to_nat g) H). cbn [Nat.add]. now rewrite Z2Nat.id.
  - rewrite !nth_overflow; [reflexivity|exact H|rewrite scale_tables_length; exact H].
Qed.
Lemma rget_map_scale k t : forall o, rget o (map (fun x => x * k) t) == rget o t * k.
Proof.
  induction t as [|a t IH]; intro o; [rewrite rget_nil; cbn [map]; rewrite rget_nil; ring|].
  destruct o as [|o]; [reflexivity|]. apply IH.
Qed.
Lemma scale_two sc t0 t1 : scale_tables sc [t0; t1] = [map (fun x => x * sfac sc 0) t0; map (fun x => x * sfac sc 1) t1].
Proof. reflexivity. Qed.

(* C10_scale: scale keeps the groups and multiplies the prediction of a sample by the factor of its group *)
Lemma scale_spec no sc w s o : (o < no)%nat -> (table_like w = false -> sfac sc 0 == sfac sc 1) ->
  group (scale sc w) s = group w s /\
  rget o (predict no (scale sc w) s (zeros no))
  == (match group w s with Some g => sfac sc g | None => 1 end) * rget o (predict no w s (zeros no)).
Proof.
  intros Ho Haff. rewrite !predict_zero by exact Ho.
  destruct w as [f ww b|f thr lo hi|f thr d ww b|f hs h2t tb|nodes tb]; cbn [scale]; rewrite ?scale_two; cbn [group incr].
  - specialize (Haff eq_refl). destruct (fget f s) as [|x|h]; split; try reflexivity; try ring.
    unfold affine_pred. rewrite !rget_tab by exact Ho. rewrite !rget_map_scale. rewrite <- Haff. ring.
  - destruct (fget f s) as [|x|h]; split; try reflexivity; try ring.
    destruct (qlt x thr); rewrite rget_map_scale; ring.
  - specialize (Haff eq_refl). destruct (fget f s) as [|x|h]; split; try reflexivity; try ring.
    destruct (Bool.eqb d (qlt x thr)); [|ring].
    unfold affine_pred. rewrite !rget_tab by exact Ho. rewrite !rget_map_scale. rewrite <- Haff. ring.
  - destruct (fget f s) as [|x|h]; split; try reflexivity; try ring.
    destruct (find hs h) as [i|]; [|ring]. rewrite znth_scale_tables, rget_map_scale. ring.
  - split; [reflexivity|]. destruct (tree_group (S (length nodes)) nodes 0%Z s) as [g|]; [|ring].
    rewrite znth_scale_tables, rget_map_scale. ring.
Qed.
Lemma sfac_single k i : (0 <= i)%Z -> sfac [k] i = k.
Proof.
  intro H. unfold sfac, src_c10_scale_index. cbn [length Z.of_nat Pos.of_succ_nat]. replace (Z.min i (1 - 1)) with 0%Z by lia. reflexivity.
Qed.
Lemma sfac_own sc i : (0 <= i < Z.of_nat (length sc))%Z -> sfac sc i = znth i sc 0.
Proof. intro H. unfold sfac, src_c10_scale_index. now replace (Z.min i (Z.of_nat (length sc) - 1)) with i by lia. Qed.

(* ---- merge ----------------------------------------------------------------------------------------------------------------- *)
Lemma zlist_eqb_eq a : forall b, zlist_eqb a b = true -> a = b.
Proof.
  induction a as [|x a IH]; intros [|y b] H; try discriminate; [reflexivity|]. cbn in H. apply andb_true_iff in H. destruct H as [E H].
  apply Z.eqb_eq in E. subst. f_equal. now apply IH.
Qed.
Lemma rget_vadd a : forall b o, length a = length b -> rget o (vadd a b) == rget o a + rget o b.
Proof.
  induction a as [|x a IH]; intros [|y b] o H; try discriminate.
  - unfold vadd. cbn [combine map]. rewrite rget_nil. ring.
  - destruct o as [|o]; [reflexivity|]. apply (IH b o). now inversion H.
Qed.
Lemma same_dims_cons r a r' b : same_dims (r :: a) (r' :: b) = true -> length r = length r' /\ same_dims a b = true.
Proof.
  unfold same_dims. cbn [map zlist_eqb]. intro H. apply andb_true_iff in H. destruct H as [E H]. apply Z.eqb_eq in E. split; [lia|exact H].
Qed.
Lemma rget_tadd a : forall b (i : nat) o, same_dims a b = true ->
  rget o (nth i (tadd a b) []) == rget o (nth i a []) + rget o (nth i b []).
Proof.
  induction a as [|r a IH]; intros [|r' b] i o H; try discriminate.
  - unfold tadd. cbn [combine map]. destruct i; cbn [nth]; rewrite rget_nil; ring.
  - apply same_dims_cons in H. destruct H as [L H]. destruct i as [|i]; [now apply rget_vadd|]. apply (IH b i o H).
Qed.
Lemma rget_znth_tadd a b g o : same_dims a b = true ->
  rget o (znth g (tadd a b) []) == rget o (znth g a []) + rget o (znth g b []).
Proof.
  intro H. unfold znth. destruct (g <? 0)%Z; [rewrite rget_nil; ring|]. now apply rget_tadd.
Qed.

Definition pred0 (no : nat) (w : wl) (s : sample) (o : nat) : Q := rget o (predict no w s (zeros no)).
Lemma try_merge_sum no a b a' s o : (o < no)%nat -> try_merge a b = Some a' ->
  pred0 no a' s o == pred0 no a s o + pred0 no b s o.
Proof.
  intros Ho H. unfold pred0. rewrite !predict_zero by exact Ho.
  destruct a as [f w bb|f thr lo hi|f thr d w bb|f hs h2t tb|nodes tb]; destruct b as [f' w' b'|f' thr' lo' hi'|f' thr' d' w' b'|f' hs' h2t' tb'|nodes' tb'];
    cbn [try_merge] in H; try discriminate.
  - destruct ((f =? f')%nat && same_dims [w; bb] [w'; b']) eqn:E; [|discriminate]. injection H as <-.
    apply andb_true_iff in E. destruct E as [Ef Ed]. apply Nat.eqb_eq in Ef. subst f'.
    apply same_dims_cons in Ed. destruct Ed as [L1 Ed]. apply same_dims_cons in Ed. destruct Ed as [L2 _].
    cbn [incr]. destruct (fget f s) as [|x|h]; try ring. unfold affine_pred. rewrite !rget_tab by exact Ho.
    rewrite !rget_vadd by assumption. ring.
  - destruct (zlist_eqb hs hs' && zlist_eqb h2t h2t' && (f =? f')%nat && same_dims tb tb') eqn:E; [|discriminate]. injection H as <-.
    apply andb_true_iff in E. destruct E as [E Ed]. apply andb_true_iff in E. destruct E as [E Ef]. apply andb_true_iff in E. destruct E as [Eh Em].
    apply Nat.eqb_eq in Ef. apply zlist_eqb_eq in Eh. apply zlist_eqb_eq in Em. subst f' hs' h2t'.
    cbn [incr]. destruct (fget f s) as [|x|h]; try ring. destruct (find hs h) as [i|]; [|ring]. now apply rget_znth_tadd.
Qed.

Definition psum (no : nat) (ws : list wl) (s : sample) (o : nat) : Q := qsum (map (fun w => pred0 no w s o) ws).
Lemma merge_into_sum no s o : (o < no)%nat -> forall rest a,
  let '(a', rest', _) := merge_into a rest in psum no (a' :: compact rest') s o == psum no (a :: compact rest) s o.
Proof.
  intro Ho. induction rest as [|[b|] rest IH]; intro a; cbn [merge_into].
  - reflexivity.
  - destruct (try_merge a b) as [a1|] eqn:E.
    + specialize (IH a1). destruct (merge_into a1 rest) as [[a' t'] m]. cbn [compact]. rewrite IH. unfold psum. qs.
      rewrite (try_merge_sum no a b a1 s o Ho E). ring.
    + specialize (IH a). destruct (merge_into a rest) as [[a' t'] m]. cbn [compact]. unfold psum in *. revert IH. qs. intro IH. lra.
  - specialize (IH a). destruct (merge_into a rest) as [[a' t'] m]. cbn [compact]. exact IH.
Qed.
Lemma merge_loop_sum no s o : (o < no)%nat -> forall fuel l, psum no (compact (merge_loop fuel l)) s o == psum no (compact l) s o.
Proof.
  intro Ho. induction fuel as [|fuel IH]; intro l; [reflexivity|]. cbn [merge_loop]. destruct l as [|[a|] t]; [reflexivity| |].
  - pose proof (merge_into_sum no s o Ho t a) as M. destruct (merge_into a t) as [[a' t'] m]. destruct m; cbn [compact].
    + rewrite <- M. unfold psum. qs. fold (psum no (compact (merge_loop fuel t')) s o). rewrite IH. reflexivity.
    + exact M.
  - cbn [compact]. apply IH.
Qed.
Lemma compact_some ws : compact (map Some ws) = ws.
Proof. induction ws as [|w ws IH]; cbn; [reflexivity | now rewrite IH]. Qed.
Lemma predict_all_sum no s o : (o < no)%nat -> forall ws out, rget o (predict_all no ws s out) == rget o out + psum no ws s o.
Proof.
  intro Ho. induction ws as [|w ws IH]; intro out; unfold predict_all; cbn [fold_left].
  - unfold psum. qs. ring.
  - fold (predict_all no ws s (predict no w s out)). rewrite IH, (predict_additive no w s out o Ho). unfold psum, pred0. qs. ring.
Qed.
(* C10_merge_sum: merging a list of learners leaves the sum of their predictions unchanged, for every sample and outputs *)
Lemma merge_sum no ws s out o : (o < no)%nat ->
  rget o (predict_all no (merge ws) s out) == rget o (predict_all no ws s out).
Proof.
  intro Ho. rewrite !predict_all_sum by exact Ho. unfold merge. rewrite merge_loop_sum by exact Ho. now rewrite compact_some.
Qed.

(* ---- per-thread caches + min_reduce: the chunking of the features does not change the score ----------------------------- *)
Lemma chunks_concat {A} fuel n : forall l : list A, concat (chunks fuel n l) = l.
Proof.
  induction fuel as [|fuel IH]; intro l; cbn [chunks]; [cbn; apply app_nil_r|].
  destruct l as [|a l]; [reflexivity|]. cbn [concat]. rewrite IH. apply firstn_skipn.
Qed.
Definition somes (l : list (option Q)) : list Q := flat_map (fun s => match s with Some x => [x] | None => [] end) l.
Lemma min_reduce_best l : min_reduce l = best_of (somes l).
Proof.
  unfold min_reduce, best_of. generalize (@None Q). induction l as [|[x|] l IH]; intro b; cbn [fold_left somes flat_map app]; [reflexivity| |]; apply IH.
Qed.
Definition is_min (l : list Q) (r : Q) : Prop := In r l /\ forall x, In x l -> r <= x.
Lemma best_of_min l : match best_of l with Some r => is_min l r | None => l = [] end.
Proof. apply best_of_spec. Qed.

Lemma fit_chunked_spec concurrency (percol : list (list Q)) :
  match fit_chunked concurrency percol, best_of (concat percol) with
  | Some a, Some b => a == b
  | None, None => True
  | _, _ => False
  end.
Proof.
  unfold fit_chunked. set (n := Z.to_nat (src_c10_features_per_thread (Z.of_nat (length percol)) concurrency)).
  set (chs := chunks (length percol) n percol). rewrite min_reduce_best.
  assert (EL : concat percol = concat (concat chs)) by (unfold chs; now rewrite chunks_concat).
  set (M := somes (map (fun ch => best_of (concat ch)) chs)).
  assert (InM : forall m, In m M -> exists ch, In ch chs /\ best_of (concat ch) = Some m).
  { intros m Hm. unfold M, somes in Hm. apply in_flat_map in Hm. destruct Hm as (s & Hs & Hm). apply in_map_iff in Hs.
    destruct Hs as (ch & <- & Hch). exists ch. split; [exact Hch|]. destruct (best_of (concat ch)) as [y|]; [|contradiction].
    destruct Hm as [<-|[]]. reflexivity. }
  assert (MIn : forall ch m, In ch chs -> best_of (concat ch) = Some m -> In m M).
  { intros ch m Hch E. unfold M, somes. apply in_flat_map. exists (Some m). split; [|now left]. apply in_map_iff. now exists ch. }
  pose proof (best_of_min M) as HM. pose proof (best_of_min (concat percol)) as HL.
  destruct (best_of M) as [a|], (best_of (concat percol)) as [b|].
  - destruct HM as (Ha & HaM), HL as (Hb & HbL).
    assert (a <= b).
    { rewrite EL in Hb. apply in_concat in Hb. destruct Hb as (lch & Hlch & Hb). apply in_concat in Hlch. destruct Hlch as (ch & Hch & Hlch).
      assert (Hbch : In b (concat ch)) by (apply in_concat; now exists lch).
      pose proof (best_of_min (concat ch)) as Hc. destruct (best_of (concat ch)) as [m|] eqn:E; [|rewrite Hc in Hbch; contradiction].
      destruct Hc as (_ & Hc). specialize (Hc b Hbch). specialize (HaM m (MIn ch m Hch E)). lra. }
    assert (b <= a).
    { apply HbL. destruct (InM a Ha) as (ch & Hch & E). pose proof (best_of_min (concat ch)) as Hc. rewrite E in Hc. destruct Hc as (Hc & _).
      rewrite EL. apply in_concat in Hc. destruct Hc as (lch & Hl & Hc). apply in_concat. exists lch. split; [|exact Hc].
      apply in_concat. now exists ch. }
    lra.
  - destruct HM as (Ha & _). destruct (InM a Ha) as (ch & Hch & E). pose proof (best_of_min (concat ch)) as Hc. rewrite E in Hc.
    destruct Hc as (Hc & _). rewrite EL in HL. apply in_concat in Hc. destruct Hc as (lch & Hl & Hc).
    assert (In a (concat (concat chs))) by (apply in_concat; exists lch; split; [apply in_concat; now exists ch | exact Hc]).
    rewrite HL in H. contradiction.
  - destruct HL as (Hb & _). rewrite EL in Hb. apply in_concat in Hb. destruct Hb as (lch & Hlch & Hb). apply in_concat in Hlch.
    destruct Hlch as (ch & Hch & Hlch). assert (Hbch : In b (concat ch)) by (apply in_concat; now exists lch).
    pose proof (best_of_min (concat ch)) as Hc. destruct (best_of (concat ch)) as [m|] eqn:E; [|rewrite Hc in Hbch; contradiction].
    pose proof (MIn ch m Hch E) as Hm. rewrite HM in Hm. contradiction.
  - exact I.
Qed.

(* the thresholds are mid-points of two present values with no present value strictly in between *)
Lemma midpoints_sound v : StronglySorted Qle v -> forall t, In t (midpoints v) ->
  exists a b, In a v /\ In b v /\ a < b /\ t = (1 # 2) * (a + b) /\ forall x, In x v -> x <= a \/ b <= x.
Proof.
  induction 1 as [|a v Hs IH Ha]; intros t Ht; [contradiction|]. destruct v as [|b v']; [contradiction|].
  change (midpoints (a :: b :: v')) with ((if qlt a b then [(1 # 2) * (a + b)] else []) ++ midpoints (b :: v')) in Ht.
  apply in_app_or in Ht. destruct Ht as [Ht|Ht].
  - destruct (qlt a b) eqn:E; [|contradiction]. apply qlt_true in E. destruct Ht as [<-|[]]. exists a, b.
    repeat split; [now left | right; now left | exact E |]. intros x [<-|Hx]; [left; lra|]. right.
    destruct Hx as [<-|Hx]; [lra|]. inversion Hs as [|? ? _ Hb]; subst. rewrite Forall_forall in Hb. now apply Hb.
  - destruct (IH t Ht) as (a' & b' & Ha' & Hb' & Hlt & Et & Hbetween). exists a', b'. repeat split; [now right|now right|exact Hlt|exact Et|].
    intros x [<-|Hx]; [|now apply Hbetween]. left. rewrite Forall_forall in Ha. now apply Ha.
Qed.
Lemma sorted_map_fst (l : list row) : StronglySorted (kle fst) l -> StronglySorted Qle (map fst l).
Proof.
  induction 1 as [|e l _ IHS He]; cbn [map]; [constructor|]. constructor; [exact IHS|]. rewrite Forall_map. exact He.
Qed.
Lemma thresholds_sound (c : col Q) t : In t (thresholds c) ->
  exists a b, In a (map fst (present c)) /\ In b (map fst (present c)) /\ a < b /\ t = (1 # 2) * (a + b) /\
              forall x, In x (map fst (present c)) -> x <= a \/ b <= x.
Proof.
  unfold thresholds. intro H.
  assert (S : StronglySorted Qle (map fst (isort fst (present c)))) by (apply sorted_map_fst, isort_sorted).
  assert (P : Permutation (map fst (present c)) (map fst (isort fst (present c)))) by (apply Permutation_map, isort_perm).
  destruct (midpoints_sound _ S t H) as (a & b & Ha & Hb & Hlt & Et & Hbt). exists a, b.
  repeat split; [eapply Permutation_in; [symmetry; exact P|exact Ha] | eapply Permutation_in; [symmetry; exact P|exact Hb] | exact Hlt | exact Et |].
  intros x Hx. apply Hbt. eapply Permutation_in; [exact P|exact Hx].
Qed.

(* ... and every such mid-point is tried (values compared as rationals) *)
Lemma midpoints_complete v : StronglySorted Qle v -> forall a b,
  (exists a', In a' v /\ a' == a) -> (exists b', In b' v /\ b' == b) -> a < b -> (forall x, In x v -> x <= a \/ b <= x) ->
  exists t, In t (midpoints v) /\ t == (1 # 2) * (a + b).
Proof.
  induction 1 as [|h v Hs IH Hh]; intros a b (a' & Ha' & Ea) (b' & Hb' & Eb) Hlt Hbt; [contradiction|].
  rewrite Forall_forall in Hh.
  destruct v as [|h2 v'].
  { destruct Ha' as [<-|[]], Hb' as [<-|[]]. lra. }
  change (midpoints (h :: h2 :: v')) with ((if qlt h h2 then [(1 # 2) * (h + h2)] else []) ++ midpoints (h2 :: v')).
  assert (Hh2 : h <= h2) by (apply Hh; now left).
  assert (Hmin : forall x, In x (h2 :: v') -> h2 <= x).
  { intros x [<-|Hx]; [lra|]. inversion Hs as [|? ? _ Hall]; subst. rewrite Forall_forall in Hall. now apply Hall. }
  assert (Hha : h <= a) by (destruct Ha' as [<-|Ha']; [lra | specialize (Hh a' Ha'); lra]).
  assert (Hb'' : In b' (h2 :: v')) by (destruct Hb' as [<-|Hb']; [lra | exact Hb']).
  assert (Tail : (exists a'', In a'' (h2 :: v') /\ a'' == a) -> exists t, In t (midpoints (h2 :: v')) /\ t == (1 # 2) * (a + b)).
  { intro Ha''. apply IH; [exact Ha'' | now exists b' | exact Hlt | intros x Hx; apply Hbt; now right]. }
  destruct (qlt h h2) eqn:E.
  - apply qlt_true in E. destruct (Qlt_le_dec h a) as [L|L].
    + destruct Tail as (t & Ht & Et).
      { destruct Ha' as [<-|Ha']; [lra|]. now exists a'. }
      exists t. split; [apply in_or_app; now right | exact Et].
    + (* h == a: the first gap is the one between a and b *)
      assert (h == a) by lra.
      assert (b <= h2) by (destruct (Hbt h2 (or_intror (or_introl eq_refl))); lra).
      assert (h2 <= b) by (specialize (Hmin b' Hb''); lra).
      exists ((1 # 2) * (h + h2)). split; [apply in_or_app; left; now left|]. lra.
  - apply qlt_false in E. destruct Tail as (t & Ht & Et).
    { destruct Ha' as [<-|Ha']; [exists h2; split; [now left | lra] | now exists a']. }
    exists t. split; [apply in_or_app; now right | exact Et].
Qed.
Lemma thresholds_complete (c : col Q) a b :
  In a (map fst (present c)) -> In b (map fst (present c)) -> a < b ->
  (forall x, In x (map fst (present c)) -> x <= a \/ b <= x) ->
  exists t, In t (thresholds c) /\ t == (1 # 2) * (a + b).
Proof.
  intros Ha Hb Hlt Hbt. unfold thresholds.
  assert (P : Permutation (map fst (present c)) (map fst (isort fst (present c)))) by (apply Permutation_map, isort_perm).
  apply midpoints_complete; [apply sorted_map_fst, isort_sorted | exists a; split; [eapply Permutation_in; eassumption | reflexivity]
                            | exists b; split; [eapply Permutation_in; eassumption | reflexivity] | exact Hlt |].
  intros x Hx. apply Hbt. eapply Permutation_in; [symmetry; exact P | exact Hx].
Qed.
