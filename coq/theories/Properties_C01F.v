(* C01 (stage C01F) -- finite termination of conjugate gradients, BFGS and L-BFGS on strictly convex quadratics with EXACT
   line searches: the exact-arithmetic core of the first sentence of property C01.
   Only statements + `exact` + Print Assumptions live here.  Model: C01_Finite_Defs (the direction blocks of the real solvers
   -- [cg_step] of C01CG_Defs, [quasi_update] / [two_loop] / [lbfgs_push] of C01Q_Defs -- iterated with the exact step
   t = -(g.d)/(d'Ad); the loop decisions of quasi.cpp / lbfgs.cpp around them are translated from the source on every run),
   extracted at the canonical rationals and run against the real cgd-* / bfgs / lbfgs solvers on every run.
   Proofs: C01_Finite.

   Everything is stated over ANY ordered field [OF : ordered_field FO] (instances C01Q_instance_Qc / C01Q_instance_R), for
   ALL dimensions n, all symmetric positive definite A (as a bilinear form on lists of length n: [msym], [pd]), all starts.
   a.b is [dot FO a b];  x > 0 is [of_pos OF x];  g <> 0 is [g <> zeros FO n].

   What this does NOT give: the property's "converged within 1500 evaluations" for the floating-point solvers.  The real
   line searches are inexact (Wolfe conditions with c2 > 0) and every operation rounds; conjugacy is then lost gradually and
   no finite bound follows from these theorems.  That clause stays `searched` (tools/checks/c01.py, stage 1). *)
From Coq Require Import List ZArith QArith Qcanon Reals Lia.
From LNGen Require Import Src_c01q Src_c01cg Src_c01f.
From LN Require Import C01Q_Defs C01Q_Proofs C01CG_Defs C01CG_Proofs C01_Finite_Defs C01_Finite.
Import ListNotations.

(* ---- the translated loop decisions of quasi.cpp / lbfgs.cpp have the shape the model assumes ------------------------ *)
Theorem C01F_kernels :
  (forall hd, src_qn_restart hd = negb hd) /\
  (forall first init scaled, src_qn_scaled_init first init scaled = andb first (Z.eqb init scaled)) /\
  (forall hd, src_lbfgs_force hd = negb hd) /\
  (forall hd, src_lbfgs_store hd = hd).
Proof. exact kernels_c01f. Qed.
Print Assumptions C01F_kernels.

(* ---- (0) the exact line search ---------------------------------------------------------------------------------------
   along any d with d'Ad > 0 from any x (g = grad f(x) = A x + a):  t = -(g.d)/(d'Ad) MINIMISES t' |-> f(x + t' d); f decreases
   strictly unless g.d = 0; the gradient at the minimiser is g + t A d ([exact_next]) and is orthogonal to d; and t is
   computable from ONE extra gradient evaluation at any trial point x + tau d (secant on the derivative) -- hence an exact
   line search costs two evaluations (trial point, minimiser) *)
Theorem C01F_exact_line_search : forall F (FO : fops F) (OF : ordered_field FO) n (A : mat F) (a : vec F),
  length A = n -> length a = n -> msym FO n A ->
  forall x d, length x = n -> length d = n -> of_pos OF (dot FO d (mv FO A d)) ->
  let g := quad_grad FO A a x in
  let t := ls_step FO A g d in
  (forall t', nonneg FO (of_pos OF) (fsub FO (quad_f FO A a (ls_point FO x t' d)) (quad_f FO A a (ls_point FO x t d)))) /\
  (dot FO g d <> f0 FO -> of_pos OF (fsub FO (quad_f FO A a x) (quad_f FO A a (ls_point FO x t d)))) /\
  quad_grad FO A a (ls_point FO x t d) = exact_next FO A g d /\
  dot FO (exact_next FO A g d) d = f0 FO /\
  (forall tau, tau <> f0 FO -> secant_step FO tau g (quad_grad FO A a (ls_point FO x tau d)) d = t).
Proof.
  intros F FO OF n A a LA La SA x d Lx Ld PQ. cbv zeta.
  pose proof (pos_nz F FO (of_pos OF) (of_0 OF) _ PQ) as NQ.
  split; [intros t'; exact (ls_minimiser_nonneg F FO (of_th OF) (of_pos OF) (of_add OF) (of_mul OF) (of_cases OF) (of_0 OF)
                              n A a SA x d t' Lx Ld PQ)|].
  split; [exact (ls_decrease F FO (of_th OF) (of_pos OF) (of_add OF) (of_mul OF) (of_cases OF) (of_0 OF) n A a SA x d Lx Ld PQ)|].
  split; [exact (ls_gradient F FO (of_th OF) n A a LA La x d)|].
  split; [exact (ls_orthogonal F FO (of_th OF) A _ d NQ)|].
  intros tau NT. exact (secant_exact F FO (of_th OF) n A a LA La x d tau NT NQ).
Qed.
Print Assumptions C01F_exact_line_search.

(* ---- (A) the linear-algebra fact, proved directly on lists: a triangular bi-orthogonal family (u_1,v_1), ..., (u_k,v_k) of
   vectors of length n -- u_i.v_i <> 0 and u_j.v_i = 0 for every j after i ([tri]) -- has k <= n.  With u = v: k mutually
   orthogonal non-zero vectors; with v = A u: k mutually A-conjugate vectors *)
Theorem C01F_family_bound : forall F (FO : fops F) (OF : ordered_field FO) n (l : list (vec F * vec F)),
  tri F FO l -> (forall p, In p l -> length (fst p) = n) -> (length l <= n)%nat.
Proof. intros F FO OF. exact (tri_bound F FO (of_th OF) (of_pos OF) (of_cases OF) (of_0 OF)). Qed.
Print Assumptions C01F_family_bound.

(* ---- (1) conjugate gradients: the solver's own direction block [cg_step] (restart tests, clamps, first-iteration branch), ANY
   of the ten solver ids, iterated with exact line searches from [cg_init]: as long as the gradients are non-zero, ALL
   gradients are mutually orthogonal, ALL directions mutually A-conjugate, every gradient is orthogonal to every earlier
   direction.  (C01CG_quadratic_conjugacy: consecutive ones, no restart, all ids return FR; C01CG_descent: g.d < 0, hence
   strict decrease of f by C01F_exact_line_search.) *)
Theorem C01F_cg_history : forall F (FO : fops F) (OF : ordered_field FO) n (A : mat F) (nrm : vec F -> F) k eta orthotest,
  length A = n -> msym FO n A -> pd FO (of_pos OF) n A ->
  (forall v, nonneg FO (of_pos OF) (nrm v) /\ fmul FO (nrm v) (nrm v) = dot FO v v) ->
  of_pos OF eta -> of_pos OF orthotest ->
  forall g0 m, length g0 = n ->
  Forall (fun gd => fst gd <> zeros FO n) (cg_quad_run FO k eta orthotest nrm A cg_init g0 m) ->
  forall i j, (i < j)%nat -> (j < m)%nat ->
    let gi := fst (nth i (cg_quad_run FO k eta orthotest nrm A cg_init g0 m) ([], [])) in
    let di := snd (nth i (cg_quad_run FO k eta orthotest nrm A cg_init g0 m) ([], [])) in
    let gj := fst (nth j (cg_quad_run FO k eta orthotest nrm A cg_init g0 m) ([], [])) in
    let dj := snd (nth j (cg_quad_run FO k eta orthotest nrm A cg_init g0 m) ([], [])) in
    dot FO gj gi = f0 FO /\ dot FO dj (mv FO A di) = f0 FO /\ dot FO gj di = f0 FO.
Proof.
  intros F FO OF n A nrm k eta orthotest LA SA PA NS PE PO.
  exact (cg_full_history_nth F FO (of_th OF) (of_pos OF) (of_add OF) (of_mul OF) (of_cases OF) (of_0 OF) (of_cmp OF)
           n A LA SA PA nrm NS k eta orthotest PE PO).
Qed.
Print Assumptions C01F_cg_history.

(* ---- (2) hence at most n iterations: a run with m non-zero gradients has m <= n, and among g_0, ..., g_n there is a first
   zero gradient, at an index j <= n, before which the run is the genuine one.  With two evaluations per exact line search
   (C01F_exact_line_search) that is at most 2 n + 1 evaluations of (f, grad f) *)
Theorem C01F_cg_finite_termination : forall F (FO : fops F) (OF : ordered_field FO) n (A : mat F) (nrm : vec F -> F) k eta orthotest,
  length A = n -> msym FO n A -> pd FO (of_pos OF) n A ->
  (forall v, nonneg FO (of_pos OF) (nrm v) /\ fmul FO (nrm v) (nrm v) = dot FO v v) ->
  of_pos OF eta -> of_pos OF orthotest ->
  forall g0, length g0 = n ->
  (forall m, Forall (fun gd => fst gd <> zeros FO n) (cg_quad_run FO k eta orthotest nrm A cg_init g0 m) -> (m <= n)%nat) /\
  exists j, (j <= n)%nat /\ (1 + 2 * j <= 2 * n + 1)%nat /\
    Forall (fun gd => fst gd <> zeros FO n) (cg_quad_run FO k eta orthotest nrm A cg_init g0 j) /\
    fst (nth j (cg_quad_run FO k eta orthotest nrm A cg_init g0 (S n)) (zeros FO n, [])) = zeros FO n.
Proof.
  intros F FO OF n A nrm k eta orthotest LA SA PA NS PE PO g0 L0. split.
  - intros m. exact (cg_at_most_n F FO (of_th OF) (of_pos OF) (of_add OF) (of_mul OF) (of_cases OF) (of_0 OF) (of_cmp OF)
                       n A LA SA PA nrm NS k eta orthotest PE PO g0 m L0).
  - destruct (cg_finite_termination F FO (of_th OF) (of_pos OF) (of_add OF) (of_mul OF) (of_cases OF) (of_0 OF) (of_cmp OF)
                n A LA SA PA nrm NS k eta orthotest PE PO g0 L0) as (j & Lj & NZ & Z).
    exists j. repeat split; [exact Lj|lia|exact NZ|exact Z].
Qed.
Print Assumptions C01F_cg_finite_termination.

(* ---- (3) BFGS ---------------------------------------------------------------------------------------------------------- *)
(* the key lemma, pure algebra, ANY H: the update with (s, y) keeps an older secant equation H y_j = s_j whenever s is
   conjugate to s_j (s.y_j = 0 and y.s_j = 0) *)
Theorem C01F_bfgs_hereditary : forall F (FO : fops F) (OF : ordered_field FO) H s y sj yj,
  length s = length H -> length yj = length H -> dot FO s y <> f0 FO ->
  mv FO H yj = sj -> dot FO s yj = f0 FO -> dot FO y sj = f0 FO -> mv FO (bfgs FO H s y) yj = sj.
Proof. intros F FO OF. exact (bfgs_hereditary F FO (of_th OF)). Qed.
Print Assumptions C01F_bfgs_hereditary.

(* the loop of quasi.cpp (direction -H g, restart test, scaled initialisation before the first update, BFGS_ update) with
   exact line searches from ANY symmetric positive definite H0, identity or scaled initialisation: as long as the gradients
   are non-zero the restart never fires (qnf_step), every H_{j+1} satisfies the secant equation of EVERY pair so far
   (hereditary), the steps are mutually A-conjugate, every gradient is orthogonal to every earlier step, the curvature
   s.y is positive -- and there are at most n such iterations *)
Theorem C01F_bfgs_finite : forall F (FO : fops F) (OF : ordered_field FO) n (A : mat F) r init H0 x0 g0 m,
  length A = n -> msym FO n A -> pd FO (of_pos OF) n A ->
  length H0 = n -> msym FO n H0 -> pd FO (of_pos OF) n H0 -> length g0 = n ->
  Forall (qn_nz F FO n) (qn_quad_run FO KBFGS r init A true H0 x0 g0 m) ->
  (m <= n)%nat /\
  forall j, (j < m)%nat ->
    let ej := nth j (qn_quad_run FO KBFGS r init A true H0 x0 g0 m) (qdflt F) in
    mv FO (e_H F ej) (e_y F ej) = e_s F ej /\ e_y F ej = mv FO A (e_s F ej) /\ of_pos OF (dot FO (e_s F ej) (e_y F ej)) /\
    forall i, (i < j)%nat ->
      let ei := nth i (qn_quad_run FO KBFGS r init A true H0 x0 g0 m) (qdflt F) in
      mv FO (e_H F ej) (e_y F ei) = e_s F ei /\ dot FO (e_s F ej) (e_y F ei) = f0 FO /\ dot FO (e_g F ej) (e_s F ei) = f0 FO.
Proof.
  intros F FO OF n A r init H0 x0 g0 m LA SA PA.
  exact (bfgs_finite_nth F FO (of_th OF) (of_pos OF) (of_add OF) (of_mul OF) (of_cases OF) (of_0 OF) (of_cmp OF)
           n A LA SA PA r init H0 x0 g0 m).
Qed.
Print Assumptions C01F_bfgs_finite.

(* after n iterations with non-zero gradients the BFGS matrix IS the inverse of A: H_n (A v) = v for every v of length n
   (n mutually conjugate steps span the space: C01F_family_bound applied to the family (z, z), (y_j, s_j) with
   z = H_n A v - v) *)
Theorem C01F_bfgs_inverse : forall F (FO : fops F) (OF : ordered_field FO) n (A : mat F) r init H0 x0 g0,
  length A = n -> msym FO n A -> pd FO (of_pos OF) n A ->
  length H0 = n -> msym FO n H0 -> pd FO (of_pos OF) n H0 -> length g0 = n ->
  Forall (qn_nz F FO n) (qn_quad_run FO KBFGS r init A true H0 x0 g0 n) ->
  forall e, hd_error (rev (qn_quad_run FO KBFGS r init A true H0 x0 g0 n)) = Some e ->
  forall v, length v = n -> mv FO (e_H F e) (mv FO A v) = v.
Proof.
  intros F FO OF n A r init H0 x0 g0 LA SA PA.
  exact (bfgs_inverse F FO (of_th OF) (of_pos OF) (of_add OF) (of_mul OF) (of_cases OF) (of_0 OF) (of_cmp OF)
           n A LA SA PA r init H0 x0 g0).
Qed.
Print Assumptions C01F_bfgs_inverse.

(* ---- (4) L-BFGS: the loop of lbfgs.cpp (two-loop recursion, forced -g, store / clear, bounded history) with exact line
   searches from the empty history, for EVERY history bound >= 1, runs in lock step with conjugate gradients (any of the ten
   ids): same points, same gradients, and its direction is a POSITIVE MULTIPLE of the conjugate-gradient direction (the
   recursion collapses: the gradient is orthogonal to every stored s and to every stored y but the newest).  Hence (1), (2)
   hold for L-BFGS: at most n iterations.  (The literal "L-BFGS = BFGS from the scaled identity" is FALSE as an equality of
   matrices: lbfgs.cpp rescales H0 with the NEWEST pair at every iteration, quasi.cpp scales once with the first pair; what
   they share is C01Q_lbfgs_two_loop -- the recursion applies BFGS_ updates -- and, under exact line searches, the iterates.) *)
Theorem C01F_lbfgs_is_cg : forall F (FO : fops F) (OF : ordered_field FO) n (A : mat F) (nrm : vec F -> F) k eta orthotest,
  length A = n -> msym FO n A -> pd FO (of_pos OF) n A ->
  (forall v, nonneg FO (of_pos OF) (nrm v) /\ fmul FO (nrm v) (nrm v) = dot FO v v) ->
  of_pos OF eta -> of_pos OF orthotest ->
  forall history x0 g0 m, (1 <= history)%Z -> length g0 = n ->
  Forall (fun gd => fst gd <> zeros FO n) (cg_quad_run FO k eta orthotest nrm A cg_init g0 m) ->
  Forall2 (fun eL eC =>
             fst (fst (fst eL)) = fst (fst eC) /\ snd (fst (fst eL)) = snd (fst eC) /\
             exists gam, of_pos OF gam /\ snd (fst eL) = vscale FO gam (snd eC))
          (lbfgs_quad_run FO history A [] x0 g0 m) (cg_quad_xrun FO k eta orthotest nrm A cg_init x0 g0 m).
Proof.
  intros F FO OF n A nrm k eta orthotest LA SA PA NS PE PO.
  exact (lbfgs_is_cg F FO (of_th OF) (of_pos OF) (of_add OF) (of_mul OF) (of_cases OF) (of_0 OF) (of_cmp OF)
           n A LA SA PA nrm NS k eta orthotest PE PO).
Qed.
Print Assumptions C01F_lbfgs_is_cg.

(* ---- non-vacuity ---------------------------------------------------------------------------------------------------- *)
Definition fqv (l : list Z) : list Qc := map (fun z => Q2Qc (inject_Z z)) l.
Definition fex_A : list (list Qc) := [fqv [2; 1]; fqv [1; 3]]%Z.
Definition fex_a : list Qc := fqv [-1; 2]%Z.
Definition fex_x0 : list Qc := fqv [0; 0]%Z.
Definition fex_g0 : list Qc := quad_grad QcO fex_A fex_a fex_x0.
Definition fq1 : Qc := Q2Qc 1.
Definition fth : list Qc -> list Q := map this.

(* the hypotheses on A are satisfiable: fex_A = [[2,1],[1,3]] is symmetric and positive definite (z'Az = (z1+z2)^2 + z1^2 + 2 z2^2) *)
Example C01F_nonvacuous_spd :
  length fex_A = 2%nat /\ msym QcO 2 fex_A /\ pd QcO (of_pos Qc_ordered_field) 2 fex_A.
Proof.
  split; [reflexivity|]. split.
  - intros [|a0 [|a1 [|? ?]]] [|b0 [|b1 [|? ?]]] La Lb; try discriminate. unfold fex_A, fqv. simpl. ring.
  - intros [|z1 [|z2 [|? ?]]] L N; try discriminate.
    replace (dot QcO [z1; z2] (mv QcO fex_A [z1; z2]))
      with (dot QcO [Qcplus z1 z2; z1; z2; z2] [Qcplus z1 z2; z1; z2; z2]).
    2:{ assert (E2 : Q2Qc (inject_Z 2) = (1 + 1)%Qc) by (apply Qc_is_canon; reflexivity).
        assert (E3 : Q2Qc (inject_Z 3) = (1 + 1 + 1)%Qc) by (apply Qc_is_canon; reflexivity).
        unfold fex_A, fqv. simpl. rewrite E2, E3. change (Q2Qc (inject_Z 1)) with 1%Qc. change (Q2Qc 0) with 0%Qc. ring. }
    apply (dot_self_pos Qc QcO (of_th Qc_ordered_field) (of_pos Qc_ordered_field) (of_add Qc_ordered_field)
             (of_mul Qc_ordered_field) (of_cases Qc_ordered_field) (of_0 Qc_ordered_field)).
    intros E. apply N.
    assert (A1 : z1 = Q2Qc 0) by (exact (f_equal (fun l => nth 1 l (Q2Qc 0)) E)).
    assert (A2 : z2 = Q2Qc 0) by (exact (f_equal (fun l => nth 2 l (Q2Qc 0)) E)).
    rewrite A1, A2. reflexivity.
Qed.

(* n = 2: conjugate gradients (cgd-pr), BFGS (identity and scaled start) and L-BFGS (history 1) reach the minimiser in exactly
   two iterations: g_0, g_1 non-zero (the hypotheses of (1)-(4) hold for m = 2), g_2 = 0; the gradients are orthogonal, the
   directions conjugate; BFGS ends with H_2 A = I; L-BFGS visits the conjugate-gradient points *)
Example C01F_nonvacuous_runs :
  (match cg_quad_xrun QcO CK_PR (Q2Qc (1 # 100)) (Q2Qc (1 # 10)) (fun _ => fq1) fex_A cg_init fex_x0 fex_g0 3 with
   | [(x0, g0, d0); (x1, g1, d1); (x2, g2, d2)] =>
       fth g0 <> fth (zeros QcO 2) /\ fth g1 <> fth (zeros QcO 2) /\ fth g2 = fth (zeros QcO 2) /\
       this (dot QcO g1 g0) = 0%Q /\ this (dot QcO d1 (mv QcO fex_A d0)) = 0%Q /\ this (dot QcO g1 d0) = 0%Q /\
       fth (quad_grad QcO fex_A fex_a x2) = fth (zeros QcO 2) /\
       (quad_f QcO fex_A fex_a x1 < quad_f QcO fex_A fex_a x0)%Qc /\ (quad_f QcO fex_A fex_a x2 < quad_f QcO fex_A fex_a x1)%Qc
   | _ => False
   end) /\
  (forall init, In init [0%Z; 1%Z] ->
   match qn_quad_run QcO KBFGS fq1 init fex_A true (identity QcO 2) fex_x0 fex_g0 3 with
   | [(x0, g0, d0, s0, y0, H1); (x1, g1, d1, s1, y1, H2); (x2, g2, d2, s2, y2, H3)] =>
       fth g0 <> fth (zeros QcO 2) /\ fth g1 <> fth (zeros QcO 2) /\ fth g2 = fth (zeros QcO 2) /\
       fth (mv QcO H2 y0) = fth s0 /\ fth (mv QcO H2 y1) = fth s1 /\ this (dot QcO s1 y0) = 0%Q /\
       map fth (mmul QcO H2 fex_A) = map fth (identity QcO 2)
   | _ => False
   end) /\
  (match lbfgs_quad_run QcO 1 fex_A [] fex_x0 fex_g0 3,
         cg_quad_xrun QcO CK_FR (Q2Qc (1 # 100)) (Q2Qc (1 # 10)) (fun _ => fq1) fex_A cg_init fex_x0 fex_g0 3 with
   | [(x0, g0, d0, h0); (x1, g1, d1, h1); (x2, g2, d2, h2)], [(cx0, cg0, cd0); (cx1, cg1, cd1); (cx2, cg2, cd2)] =>
       fth x1 = fth cx1 /\ fth x2 = fth cx2 /\ fth g1 = fth cg1 /\ fth g2 = fth (zeros QcO 2) /\ length h1 = 1%nat /\
       fth d1 <> fth cd1 /\ this (dot QcO d1 (mv QcO fex_A d0)) = 0%Q
   | _, _ => False
   end) /\
  (* the family bound is tight: the two unit vectors form a triangular family of size 2 = n *)
  tri Qc QcO [(fqv [1; 0]%Z, fqv [1; 0]%Z); (fqv [0; 1]%Z, fqv [0; 1]%Z)].
Proof.
  split; [vm_compute; repeat split; try reflexivity; discriminate|].
  split; [intros init [E|[E|[]]]; subst init; vm_compute; repeat split; try reflexivity; discriminate|].
  split; [vm_compute; repeat split; try reflexivity; discriminate|].
  simpl. repeat split; try discriminate.
  - intros q [E|[]]. subst q. apply Qc_is_canon. reflexivity.
  - intros q [].
Qed.
