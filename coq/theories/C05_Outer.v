(* C05 (extension "Outer") -- lemmas and proofs about C05_Outer_Defs (statements: end of Properties_C05.v). *)
From Coq Require Import List ZArith QArith Bool Lia Lra Lqa Psatz Setoid Morphisms.
From LNGen Require Import Src_c05.
From LN Require Import C05_Defs C05_Proofs C05_Outer_Defs.
Import ListNotations.
Local Open Scope Q_scope.

(* ================================================================================================ *)
(* scalars, lists                                                                                   *)
(* ================================================================================================ *)
Lemma qclamp_bounds : forall v lo hi, lo <= hi -> lo <= qclamp v lo hi /\ qclamp v lo hi <= hi.
Proof.
  intros v lo hi H. unfold qclamp.
  destruct (qltb v lo) eqn:E1; [split; lra|]. apply qltb_false in E1.
  destruct (qltb hi v) eqn:E2; [split; lra|]. apply qltb_false in E2. split; lra.
Qed.

Lemma ro_min_pos : 0 < ro_min.
Proof. reflexivity. Qed.
Lemma ro_min_le_max : ro_min <= ro_max.
Proof. unfold ro_min, ro_max, d_1em6, Qle. simpl. lia. Qed.

Lemma make_ro1_bounds : forall R f h g, ro_min <= make_ro1 R f h g /\ make_ro1 R f h g <= ro_max.
Proof. intros. unfold make_ro1. apply qclamp_bounds. exact ro_min_le_max. Qed.

Lemma qmax0_nonneg : forall a, 0 <= qmax 0 a.
Proof. intros a. apply qmax_l. Qed.

Lemma Forall_map2 : forall (A B C : Type) (P : C -> Prop) (f : A -> B -> C) l1 l2,
  (forall a b, P (f a b)) -> Forall P (map2 f l1 l2).
Proof.
  intros A B C P f. induction l1 as [|a l1 IH]; intros [|b l2] H; simpl; constructor; auto.
Qed.

Lemma map2_map_r : forall (A B B' C : Type) (f : A -> B' -> C) (F : B -> B') l1 l2,
  map2 f l1 (map F l2) = map2 (fun a b => f a (F b)) l1 l2.
Proof. intros A B B' C f F. induction l1 as [|a l1 IH]; intros [|b l2]; simpl; f_equal; auto. Qed.

Lemma Forall_map2_Forall2 : forall (A B C : Type) (P : C -> Prop) (f : A -> B -> C) l1 l2,
  length l1 = length l2 -> Forall P (map2 f l1 l2) -> Forall2 (fun a b => P (f a b)) l1 l2.
Proof.
  intros A B C P f. induction l1 as [|a l1 IH]; intros [|b l2] Hl H; simpl in *; try discriminate; constructor.
  - inversion H; assumption.
  - apply IH; [lia | inversion H; assumption].
Qed.

Lemma qpow_pos : forall q n, 0 < q -> 0 < qpow q n.
Proof. intros q n H. induction n as [|n IH]; simpl; [reflexivity | nra]. Qed.

(* ================================================================================================ *)
(* the complete loop refines the loop of C05_Defs                                                   *)
(* ================================================================================================ *)
Lemma alo_step_core : forall R P s e, o_core (alo_step R P s e) = al_step R P (o_core s) (alo_event R P s e).
Proof. reflexivity. Qed.

Lemma alo_run_core : forall R P es s,
  o_core (alo_run R P s es) = al_run R P (o_core s) (alo_decorate R P s es).
Proof.
  intros R P. induction es as [|e es IH]; intros s; [reflexivity|].
  cbn [alo_run alo_decorate al_run].
  destruct (negb (s_stopped (o_core s)) && src_al_loop (s_outer (o_core s)) (p_max_outers P)); [|reflexivity].
  rewrite IH, alo_step_core. reflexivity.
Qed.

Definition ev_data (e : al_event) : vec * vec * vec * bool * bool := (e_x e, e_ceq e, e_cineq e, e_ok e, e_bvalid e).
Lemma alo_decorate_data : forall R P es s, map ev_data (alo_decorate R P s es) = map ev_data es.
Proof. intros R P. induction es as [|e es IH]; intros s; simpl; [reflexivity | rewrite IH; reflexivity]. Qed.

Lemma alo_decorate_triples : forall R P es s, map ev_triple (alo_decorate R P s es) = map ev_triple es.
Proof. intros R P. induction es as [|e es IH]; intros s; simpl; [reflexivity | rewrite IH; reflexivity]. Qed.

Lemma alo_decorate_Forall : forall (Q : al_event -> Prop) R P,
  (forall s e, Q e -> Q (alo_event R P s e)) ->
  forall es s, Forall Q es -> Forall Q (alo_decorate R P s es).
Proof.
  intros Q R P HQ. induction es as [|e es IH]; intros s H; simpl; [constructor|].
  inversion H; subst. constructor; auto.
Qed.

(* ================================================================================================ *)
(* invariants of every history: sizes, clamps, miu >= 0                                             *)
(* ================================================================================================ *)
Definition in_range (lo hi : Q) (v : vec) : Prop := Forall (fun l => lo <= l /\ l <= hi) v.

Record mult_inv (P : al_params) (ne ni : nat) (s : alo_state) : Prop := mkminv {
  mi_llen : length (s_lambda (o_core s)) = ne;
  mi_mlen : length (s_miu (o_core s)) = ni;
  mi_blen : length (o_meq s) = ne;
  mi_bmlen : length (o_mineq s) = ni;
  mi_clen : length (s_ceq (o_core s)) = ne;
  mi_cilen : length (s_cineq (o_core s)) = ni;
  mi_miu : in_range 0 (p_miu_max P) (s_miu (o_core s));
  mi_bmiu : in_range 0 (p_miu_max P) (o_mineq s);
  mi_lambda : in_range (p_lmin P) (p_lmax P) (s_lambda (o_core s)) \/ s_lambda (o_core s) = repeat 0 ne;
  mi_blambda : in_range (p_lmin P) (p_lmax P) (o_meq s) \/ o_meq s = repeat 0 ne }.

Lemma in_range_repeat0 : forall hi n, 0 <= hi -> in_range 0 hi (repeat 0 n).
Proof. intros hi n H. induction n; simpl; constructor; auto. split; lra. Qed.

Lemma clamp_in_range : forall lo hi v, lo <= hi -> lo <= qmin (qmax v lo) hi /\ qmin (qmax v lo) hi <= hi.
Proof.
  intros lo hi v H. split; [apply qmin_glb; [apply qmax_r | exact H] | apply qmin_le_r].
Qed.

Lemma alo_init_mult_inv : forall R P f0 x0 ceq0 cineq0, 0 <= p_miu_max P ->
  mult_inv P (length ceq0) (length cineq0) (alo_init R f0 x0 ceq0 cineq0).
Proof.
  intros R P f0 x0 ceq0 cineq0 Hm. unfold alo_init, al_init.
  constructor; cbn; rewrite ?repeat_length; auto using in_range_repeat0.
Qed.

Lemma alo_step_mult_inv : forall R P ne ni s e,
  0 <= p_miu_max P -> p_lmin P <= p_lmax P ->
  length (e_ceq e) = ne -> length (e_cineq e) = ni ->
  mult_inv P ne ni s -> mult_inv P ne ni (alo_step R P s e).
Proof.
  intros R P ne ni s e Hm Hl Hce Hci I. destruct I.
  unfold alo_step, al_step_updated, al_step.
  set (e' := alo_event R P s e).
  set (crit := criterion R (e_ceq e') (e_cineq e') (s_miu (o_core s)) (s_ro (o_core s))).
  change (al_step_criterion R (o_core s) e') with crit.
  change (e_ceq e') with (e_ceq e). change (e_cineq e') with (e_cineq e).
  destruct (src_al_update (e_ok e') (qltb crit (s_old (o_core s)))) eqn:Eu;
    destruct (src_done_stop _ _) eqn:Es; constructor; cbn; auto;
    try (rewrite map2_length; lia);
    try (apply Forall_map2; intros; apply clamp_in_range; assumption);
    try (left; apply Forall_map2; intros; apply clamp_in_range; assumption).
Qed.

Lemma alo_run_mult_inv : forall R P ne ni es s,
  0 <= p_miu_max P -> p_lmin P <= p_lmax P ->
  Forall (fun e => length (e_ceq e) = ne /\ length (e_cineq e) = ni) es ->
  mult_inv P ne ni s -> mult_inv P ne ni (alo_run R P s es).
Proof.
  intros R P ne ni es. induction es as [|e es IH]; intros s Hm Hl Hes I; simpl; [exact I|].
  inversion Hes as [|? ? [H1 H2] Hes']; subst.
  destruct (negb (s_stopped (o_core s)) && src_al_loop (s_outer (o_core s)) (p_max_outers P)); [|exact I].
  apply IH; auto. apply alo_step_mult_inv; auto.
Qed.

Theorem al_multiplier_invariants : forall R P f0 x0 ceq0 cineq0 es,
  0 <= p_miu_max P -> p_lmin P <= p_lmax P ->
  Forall (fun e => length (e_ceq e) = length ceq0 /\ length (e_cineq e) = length cineq0) es ->
  let s := alo_run R P (alo_init R f0 x0 ceq0 cineq0) es in
  in_range 0 (p_miu_max P) (s_miu (o_core s)) /\ in_range 0 (p_miu_max P) (o_mineq s) /\
  (in_range (p_lmin P) (p_lmax P) (s_lambda (o_core s)) \/ s_lambda (o_core s) = repeat 0 (length ceq0)) /\
  (in_range (p_lmin P) (p_lmax P) (o_meq s) \/ o_meq s = repeat 0 (length ceq0)) /\
  length (s_lambda (o_core s)) = length ceq0 /\ length (s_miu (o_core s)) = length cineq0 /\
  length (o_meq s) = length ceq0 /\ length (o_mineq s) = length cineq0 /\
  length (s_ceq (o_core s)) = length ceq0 /\ length (s_cineq (o_core s)) = length cineq0.
Proof.
  intros R P f0 x0 ceq0 cineq0 es Hm Hl Hes s.
  destruct (alo_run_mult_inv R P (length ceq0) (length cineq0) es (alo_init R f0 x0 ceq0 cineq0) Hm Hl Hes
              (alo_init_mult_inv R P f0 x0 ceq0 cineq0 Hm)).
  repeat split; assumption.
Qed.

(* ================================================================================================ *)
(* the penalty parameter: ro_1 within [1e-6, 10], ro_k = ro_1 gamma^j, positive                     *)
(* ================================================================================================ *)
Record ro_inv (P : al_params) (ro0 : Q) (s : alo_state) : Prop := mkroinv {
  ri_outer : (0 <= s_outer (o_core s))%Z;
  ri_ro : exists k, (Z.of_nat k <= s_outer (o_core s))%Z /\ s_ro (o_core s) == ro0 * qpow (p_gamma P) k;
  ri_bro : exists k, (Z.of_nat k <= s_outer (o_core s))%Z /\ o_bro s == ro0 * qpow (p_gamma P) k }.

Lemma alo_step_ro_inv : forall P ro0 s e, ro_inv P ro0 s -> ro_inv P ro0 (alo_step exact_rops P s e).
Proof.
  intros P ro0 s e [Ho [k [Hk Hr]] [kb [Hkb Hb]]].
  unfold alo_step, al_step_updated, al_step.
  set (e' := alo_event exact_rops P s e).
  set (crit := criterion exact_rops (e_ceq e') (e_cineq e') (s_miu (o_core s)) (s_ro (o_core s))).
  change (al_step_criterion exact_rops (o_core s) e') with crit.
  destruct (src_al_update (e_ok e') (qltb crit (s_old (o_core s)))) eqn:Eu;
    destruct (src_done_stop _ _) eqn:Es; constructor; cbn [o_core o_bro s_outer s_ro]; try lia;
    try (exists k; split; [lia | exact Hr]); try (exists kb; split; [lia | exact Hb]).
  all: destruct (src_al_grow (s_outer (o_core s)) (qltb (rmul exact_rops (p_tau P) (s_old (o_core s))) crit));
    [exists (S k); split; [lia | cbn [rmul exact_rops qpow]; rewrite Hr; ring] | exists k; split; [lia | exact Hr]].
Qed.

Lemma alo_run_ro_inv : forall P ro0 es s, ro_inv P ro0 s -> ro_inv P ro0 (alo_run exact_rops P s es).
Proof.
  intros P ro0. induction es as [|e es IH]; intros s I; simpl; [exact I|].
  destruct (negb (s_stopped (o_core s)) && src_al_loop (s_outer (o_core s)) (p_max_outers P)); [|exact I].
  apply IH. apply alo_step_ro_inv. exact I.
Qed.

Theorem al_ro_rule : forall P f0 x0 ceq0 cineq0 es,
  let ro1 := make_ro1 exact_rops f0 ceq0 cineq0 in
  let s := alo_run exact_rops P (alo_init exact_rops f0 x0 ceq0 cineq0) es in
  ro_min <= ro1 /\ ro1 <= ro_max /\
  (exists k, (Z.of_nat k <= s_outer (o_core s))%Z /\ s_ro (o_core s) == ro1 * qpow (p_gamma P) k) /\
  (exists k, (Z.of_nat k <= s_outer (o_core s))%Z /\ o_bro s == ro1 * qpow (p_gamma P) k) /\
  (0 < p_gamma P -> 0 < s_ro (o_core s) /\ 0 < o_bro s).
Proof.
  intros P f0 x0 ceq0 cineq0 es ro1 s.
  destruct (make_ro1_bounds exact_rops f0 ceq0 cineq0) as [Hlo Hhi].
  assert (I0 : ro_inv P ro1 (alo_init exact_rops f0 x0 ceq0 cineq0)).
  { constructor; cbn; try lia; exists O; (split; [cbn; lia | cbn; fold ro1; ring]). }
  destruct (alo_run_ro_inv P ro1 es _ I0) as [Ho [k [Hk Hr]] [kb [Hkb Hb]]].
  fold s in Ho, Hk, Hr, Hkb, Hb.
  split; [exact Hlo | split; [exact Hhi | split; [exists k; auto | split; [exists kb; auto|]]]].
  intro Hg. pose proof ro_min_pos as Hp.
  assert (H1 : 0 < ro1) by (fold ro1 in Hlo; lra).
  pose proof (qpow_pos (p_gamma P) k Hg). pose proof (qpow_pos (p_gamma P) kb Hg).
  split; [rewrite Hr | rewrite Hb]; nra.
Qed.

(* ================================================================================================ *)
(* the criterion of the iteration that produced the best state                                      *)
(* ================================================================================================ *)
Record crit_inv (R : rops) (P : al_params) (s : alo_state) : Prop := mkcinv {
  ci_old : s_stopped (o_core s) = false -> o_bcrit s <= s_old (o_core s);
  ci_conv : s_status (o_core s) = Converged -> o_bcrit s <= p_eps P;
  ci_def : o_bcrit s = criterion R (s_ceq (o_core s)) (s_cineq (o_core s)) (o_mineq s) (o_bro s);
  ci_run : s_stopped (o_core s) = false -> s_status (o_core s) = MaxIters }.

Lemma alo_init_crit_inv : forall R P f0 x0 ceq0 cineq0, crit_inv R P (alo_init R f0 x0 ceq0 cineq0).
Proof.
  intros. unfold alo_init, al_init. constructor; cbn; intros; try reflexivity; try discriminate. lra.
Qed.

Lemma alo_step_crit_inv : forall R P s e,
  s_stopped (o_core s) = false -> crit_inv R P s -> crit_inv R P (alo_step R P s e).
Proof.
  intros R P s e Hrun [Iold Iconv Idef Irun]. specialize (Iold Hrun).
  unfold alo_step, al_step_updated, al_step.
  set (e' := alo_event R P s e).
  set (crit := criterion R (e_ceq e') (e_cineq e') (s_miu (o_core s)) (s_ro (o_core s))).
  change (al_step_criterion R (o_core s) e') with crit.
  unfold src_al_update, src_al_converged, src_done_stop, src_done_step_ok.
  destruct (e_ok e') eqn:Eok; cbn [andb].
  - destruct (qltb crit (s_old (o_core s))) eqn:El; [apply qltb_true in El | apply qltb_false in El].
    + destruct ((Qle_bool crit (p_eps P) && e_dx e') || negb (e_bvalid e')) eqn:Estop;
        constructor; cbn; intros; try discriminate; try reflexivity; try lra.
      match goal with H : status_of_Z _ = Converged |- _ => apply status_of_Z_converged in H;
        apply andb_true_iff in H; destruct H as [Hle _]; apply qle_true in Hle; exact Hle end.
    + destruct ((Qle_bool crit (p_eps P) && e_dx e') || negb (e_bvalid e')) eqn:Estop;
        constructor; cbn; intros; try discriminate; try exact Idef; try reflexivity; try lra.
      match goal with H : status_of_Z _ = Converged |- _ => apply status_of_Z_converged in H;
        apply andb_true_iff in H; destruct H as [Hle _]; apply qle_true in Hle end.
      lra.
  - constructor; cbn; intros; try discriminate; try exact Idef.
Qed.

Lemma alo_run_crit_inv : forall R P es s, crit_inv R P s -> crit_inv R P (alo_run R P s es).
Proof.
  intros R P. induction es as [|e es IH]; intros s I; simpl; [exact I|].
  destruct (negb (s_stopped (o_core s))) eqn:En; cbn [andb]; [|exact I].
  destruct (src_al_loop (s_outer (o_core s)) (p_max_outers P)); [|exact I].
  apply IH. apply alo_step_crit_inv; [|exact I]. apply negb_true_iff. exact En.
Qed.

(* ================================================================================================ *)
(* the first-order identity: grad L_A(x; ro, lambda, miu) = grad L(x; lambda + ro h, max(0, miu + ro g)) *)
(* ================================================================================================ *)
Definition lg_pstep (a : acc) (p : cev * Q) : acc := add_term a 0 (snd p) (ce_grad (fst p)).

Lemma lg_fold_pairs : forall es a ls ms,
  fst (fst (fold_left lg_step es (a, ls, ms))) = fold_left lg_pstep (pair_mults es ls ms) a.
Proof.
  induction es as [|e es IH]; intros a ls ms; [reflexivity|].
  cbn [fold_left pair_mults]. unfold lg_step at 2.
  destruct (ce_eq e) eqn:E; cbn [fold_left]; rewrite IH; unfold lg_pstep; cbn [fst snd]; reflexivity.
Qed.

Lemma qsum_same_split : forall (F : cev * Q -> Q) ps,
  qsum (map F ps) == qsum (map F (filter (fun p => ce_eq (fst p)) ps)) +
                     qsum (map F (filter (fun p => negb (ce_eq (fst p))) ps)).
Proof.
  intros F. induction ps as [|p ps IH]; simpl; [ring|].
  destruct (ce_eq (fst p)); simpl; rewrite IH; ring.
Qed.

(* the ordinary Lagrangian's gradient in closed form: grad f + sum meq_j grad h_j + sum mineq_i grad g_i *)
Lemma lagrangian_grad_closed : forall gx es meq mineq j,
  length meq = length (eqs es) -> length mineq = length (ineqs es) ->
  vnth (lagrangian_grad gx es meq mineq) j ==
    vnth gx j + qsum (map (fun p => snd p * vnth (ce_grad (fst p)) j) (combine (eqs es) meq))
              + qsum (map (fun p => snd p * vnth (ce_grad (fst p)) j) (combine (ineqs es) mineq)).
Proof.
  intros gx es meq mineq j Hl Hm. unfold lagrangian_grad. rewrite lg_fold_pairs.
  destruct (fold_acc (cev * Q) lg_pstep (fun _ => 0) (fun p => snd p) (fun p => ce_grad (fst p))) with
    (es := pair_mults es meq mineq) (a := ((0, gx) : acc)) as [_ Hg].
  - intros a p. unfold lg_pstep. rewrite add_term_value. ring.
  - intros a p k. unfold lg_pstep. rewrite add_term_grad. ring.
  - rewrite Hg. cbn [snd].
    rewrite (qsum_same_split (fun p => snd p * vnth (ce_grad (fst p)) j)).
    rewrite (pair_mults_eqs _ _ _ Hl), (pair_mults_ineqs _ _ _ Hm). ring.
Qed.

Lemma sum_next_lambda : forall rho (F : cev -> Q) (E : list cev) (L : vec), ~ rho == 0 -> length L = length E ->
  qsum (map (fun p => snd p * F (fst p)) (combine E (next_lambda rho L (map ce_val E)))) ==
  rho * qsum (map (fun p => shifted rho p * F (fst p)) (combine E L)).
Proof.
  intros rho F. induction E as [|e E IH]; intros L Hr Hl; destruct L as [|l L]; simpl in *; try discriminate; [ring|].
  unfold next_lambda in *. rewrite IH by (auto; lia). unfold shifted. cbn [fst snd]. field. exact Hr.
Qed.

Lemma qmax0_scale : forall rho m g, 0 < rho -> qmax 0 (m + rho * g) == rho * qmax 0 (g + m / rho).
Proof.
  intros rho m g Hr.
  assert (E : m + rho * g == rho * (g + m / rho)) by (field; lra).
  unfold qmax. qcase 0 (m + rho * g); qcase 0 (g + m / rho); try (rewrite E; ring); try ring; nra.
Qed.

Lemma sum_next_miu : forall rho (F : cev -> Q) (E : list cev) (M : vec), 0 < rho -> length M = length E ->
  qsum (map (fun p => snd p * F (fst p)) (combine E (next_miu rho M (map ce_val E)))) ==
  rho * qsum (map (fun p => qmax 0 (shifted rho p) * F (fst p)) (combine E M)).
Proof.
  intros rho F. induction E as [|e E IH]; intros M Hr Hl; destruct M as [|m M]; simpl in *; try discriminate; [ring|].
  unfold next_miu in *. rewrite IH by (auto; lia). unfold shifted. cbn [fst snd].
  rewrite (qmax0_scale rho m (ce_val e) Hr). ring.
Qed.

Lemma next_lambda_length : forall rho L V, length L = length V -> length (next_lambda rho L V) = length L.
Proof. intros. unfold next_lambda. apply map2_length. assumption. Qed.
Lemma next_miu_length : forall rho L V, length L = length V -> length (next_miu rho L V) = length L.
Proof. intros. unfold next_miu. apply map2_length. assumption. Qed.

Theorem al_gradient_identity : forall rho lambda miu f0 es,
  0 < rho -> length lambda = length (eqs es) -> length miu = length (ineqs es) ->
  let lambda' := next_lambda rho lambda (map ce_val (eqs es)) in
  let miu' := next_miu rho miu (map ce_val (ineqs es)) in
  forall j,
    vnth (snd (augmented_lagrangian rho lambda miu f0 es)) j == vnth (lagrangian_grad (snd f0) es lambda' miu') j /\
    vnth (lagrangian_grad (snd f0) es lambda' miu') j ==
      vnth (snd f0) j + qsum (map (fun p => snd p * vnth (ce_grad (fst p)) j) (combine (eqs es) lambda'))
                      + qsum (map (fun p => snd p * vnth (ce_grad (fst p)) j) (combine (ineqs es) miu')).
Proof.
  intros rho lambda miu f0 es Hr Hl Hm lambda' miu' j.
  assert (Hl' : length lambda' = length (eqs es)).
  { unfold lambda'. rewrite next_lambda_length; rewrite ?map_length; auto. }
  assert (Hm' : length miu' = length (ineqs es)).
  { unfold miu'. rewrite next_miu_length; rewrite ?map_length; auto. }
  pose proof (lagrangian_grad_closed (snd f0) es lambda' miu' j Hl' Hm') as Hc.
  split; [|exact Hc].
  rewrite Hc. destruct (defs_augmented rho lambda miu f0 es Hl Hm) as [_ Hg]. rewrite Hg.
  unfold lambda', miu'.
  rewrite (sum_next_lambda rho (fun e => vnth (ce_grad e) j) (eqs es) lambda) by (auto; lra).
  rewrite (sum_next_miu rho (fun e => vnth (ce_grad e) j) (ineqs es) miu) by auto.
  ring.
Qed.

(* ================================================================================================ *)
(* a `converged` run returns an approximate KKT point                                               *)
(* ================================================================================================ *)
Lemma eqs_evals : forall cs x, eqs (evals cs x) = map (eval1 x) (eq_cs cs).
Proof.
  intros cs x. unfold eqs, evals, eq_cs. induction cs as [|c cs IH]; simpl; [reflexivity|].
  destruct (is_equality c); simpl; rewrite IH; reflexivity.
Qed.
Lemma ineqs_evals : forall cs x, ineqs (evals cs x) = map (eval1 x) (ineq_cs cs).
Proof.
  intros cs x. unfold ineqs, evals, ineq_cs. induction cs as [|c cs IH]; simpl; [reflexivity|].
  destruct (is_equality c); simpl; rewrite IH; reflexivity.
Qed.

(* the constraint values delivered with a point are those of the problem *)
Definition consistent_triple (cs : list constraint) (t : vec * vec * vec) : Prop :=
  snd (fst t) = map ce_val (eqs (evals cs (fst (fst t)))) /\ snd t = map ce_val (ineqs (evals cs (fst (fst t)))).
Definition consistent (cs : list constraint) (e : al_event) : Prop := consistent_triple cs (ev_triple e).

Lemma consistent_lengths : forall cs t,
  consistent_triple cs t -> length (snd (fst t)) = length (eq_cs cs) /\ length (snd t) = length (ineq_cs cs).
Proof.
  intros cs [[x ceq] cineq] [H1 H2]. simpl in *. subst.
  rewrite eqs_evals, ineqs_evals, !map_length. split; reflexivity.
Qed.

Lemma Forall2_impl_r : forall (A B : Type) (Pb : B -> Prop) (R1 R2 : A -> B -> Prop) l1 l2,
  (forall a b, Pb b -> R1 a b -> R2 a b) -> Forall Pb l2 -> Forall2 R1 l1 l2 -> Forall2 R2 l1 l2.
Proof.
  intros A B Pb R1 R2 l1 l2 H HP HF. induction HF as [|a b l1 l2 Hab HF IH]; constructor.
  - apply H; [inversion HP; assumption | exact Hab].
  - apply IH. inversion HP; assumption.
Qed.

(* what make_criterion's max(g, -miu/ro) measures, per inequality *)
Lemma complementarity_pair : forall ro eps g m, 0 < ro -> 0 <= m -> qabs (qmax g ((- m) / ro)) <= eps ->
  (0 < qmax 0 (m + ro * g) -> - eps <= g /\ g <= eps) /\ (qmax 0 (m + ro * g) == 0 -> m <= ro * eps).
Proof.
  intros ro eps g m Hr Hm H.
  assert (Hd : ((- m) / ro) * ro == - m) by (field; lra).
  revert H Hd. generalize ((- m) / ro). intros d H Hd.
  unfold qabs, qmax in *.
  repeat match goal with
         | H : context [Qle_bool ?a ?b] |- _ => qcase a b
         | |- context [Qle_bool ?a ?b] => qcase a b
         end; split; intros; try split; try nra.
Qed.

Theorem al_kkt : forall fobj cs P f0 x0 ceq0 cineq0 es,
  0 < p_gamma P -> 0 <= p_miu_max P -> p_lmin P <= p_lmax P ->
  consistent_triple cs (x0, ceq0, cineq0) -> Forall (consistent cs) es ->
  let s := alo_run exact_rops P (alo_init exact_rops f0 x0 ceq0 cineq0) es in
  let c := o_core s in
  s_status c = Converged ->
  let ro := o_bro s in
  let x := s_x c in
  let lambda' := next_lambda ro (o_meq s) (s_ceq c) in
  let miu' := next_miu ro (o_mineq s) (s_cineq c) in
  0 < ro /\
  consistent_triple cs (x, s_ceq c, s_cineq c) /\
  (forall j, vnth (snd (augmented_lagrangian_at fobj cs ro (o_meq s) (o_mineq s) x)) j ==
             vnth (lagrangian_grad (snd (fobj x)) (evals cs x) lambda' miu') j) /\
  (forall eps0, (forall j, qabs (vnth (snd (augmented_lagrangian_at fobj cs ro (o_meq s) (o_mineq s) x)) j) <= eps0) ->
                forall j, qabs (vnth (lagrangian_grad (snd (fobj x)) (evals cs x) lambda' miu') j) <= eps0) /\
  feasible_within (p_eps P) (s_ceq c) (s_cineq c) /\
  Forall (fun m => 0 <= m) miu' /\ Forall (fun m => 0 <= m) (o_mineq s) /\
  Forall2 (fun g m => qabs (qmax g ((- m) / ro)) <= p_eps P /\
                      (0 < qmax 0 (m + ro * g) -> - p_eps P <= g /\ g <= p_eps P) /\
                      (qmax 0 (m + ro * g) == 0 -> m <= ro * p_eps P)) (s_cineq c) (o_mineq s).
Proof.
  intros fobj cs P f0 x0 ceq0 cineq0 es Hg Hmm Hlm H0 Hes s c Hconv ro x lambda' miu'.
  destruct (consistent_lengths cs _ H0) as [L0e L0i]. simpl in L0e, L0i.
  assert (Hlens : Forall (fun e => length (e_ceq e) = length ceq0 /\ length (e_cineq e) = length cineq0) es).
  { eapply Forall_impl; [|exact Hes]. intros e He. destruct (consistent_lengths cs _ He) as [A B].
    unfold ev_triple in A, B. simpl in A, B. split; congruence. }
  destruct (al_multiplier_invariants exact_rops P f0 x0 ceq0 cineq0 es Hmm Hlm Hlens)
    as (Imiu & Ibmiu & _ & _ & _ & _ & Lbe & Lbi & Lce & Lci).
  fold s in Imiu, Ibmiu, Lbe, Lbi, Lce, Lci. fold c in Lce, Lci.
  destruct (al_ro_rule P f0 x0 ceq0 cineq0 es) as (_ & _ & _ & _ & Hpos). destruct (Hpos Hg) as [_ Hro]. fold s in Hro.
  fold ro in Hro.
  pose proof (alo_run_crit_inv exact_rops P es _ (alo_init_crit_inv exact_rops P f0 x0 ceq0 cineq0)) as [_ Cconv Cdef _].
  fold s in Cconv, Cdef. fold c in Cconv, Cdef. specialize (Cconv Hconv).
  (* the loop of C05_Defs on the decorated events *)
  pose proof (alo_run_core exact_rops P es (alo_init exact_rops f0 x0 ceq0 cineq0)) as Hcore. fold s in Hcore. fold c in Hcore.
  change (o_core (alo_init exact_rops f0 x0 ceq0 cineq0))
    with (al_init exact_rops x0 ceq0 cineq0 (make_ro1 exact_rops f0 ceq0 cineq0)) in Hcore.
  set (es' := alo_decorate exact_rops P (alo_init exact_rops f0 x0 ceq0 cineq0) es) in Hcore.
  assert (Hes' : Forall (fun e => length (e_cineq e) = length cineq0) es').
  { apply alo_decorate_Forall; [intros; assumption|]. eapply Forall_impl; [|exact Hlens]. intros e [_ B]; exact B. }
  destruct (al_feasible exact_rops P x0 ceq0 cineq0 (make_ro1 exact_rops f0 ceq0 cineq0) es' Hes') as [Hfeas Htriple].
  rewrite <- Hcore in Hfeas, Htriple. specialize (Hfeas Hconv).
  assert (Hcons : consistent_triple cs (x, s_ceq c, s_cineq c)).
  { destruct Htriple as [Ht | Ht]; unfold triple_of in Ht.
    - unfold x. rewrite Ht. exact H0.
    - unfold es' in Ht. rewrite alo_decorate_triples in Ht. apply in_map_iff in Ht. destruct Ht as [e [Ee Hin]].
      unfold x. rewrite <- Ee. rewrite Forall_forall in Hes. apply (Hes e Hin). }
  destruct Hcons as [Hce Hci]. simpl in Hce, Hci.
  assert (Hident : forall j, vnth (snd (augmented_lagrangian_at fobj cs ro (o_meq s) (o_mineq s) x)) j ==
             vnth (lagrangian_grad (snd (fobj x)) (evals cs x) lambda' miu') j).
  { intro j. unfold augmented_lagrangian_at, lambda', miu'. rewrite Hce, Hci.
    apply (al_gradient_identity ro (o_meq s) (o_mineq s) (fobj x) (evals cs x) Hro).
    - rewrite Lbe, <- Lce, Hce, map_length. reflexivity.
    - rewrite Lbi, <- Lci, Hci, map_length. reflexivity. }
  split; [exact Hro|]. split; [split; assumption|]. split; [exact Hident|]. split.
  { intros eps0 Hb j. rewrite <- (qabs_compat _ _ (Hident j)). apply Hb. }
  split; [exact Hfeas|]. split.
  { unfold miu', next_miu. apply Forall_map2. intros. apply qmax0_nonneg. }
  split.
  { eapply Forall_impl; [|exact Ibmiu]. intros m [A _]; exact A. }
  (* complementarity from the criterion of the iteration that produced the best state *)
  rewrite Cdef in Cconv. unfold criterion in Cconv. apply qmax_le_iff in Cconv. destruct Cconv as [Ch Cv].
  assert (Heps : 0 <= p_eps P) by (pose proof (linf_nonneg (s_ceq c)); lra).
  rewrite map2_map_r in Cv. apply linf_le_iff in Cv; [|exact Heps].
  apply Forall_map2_Forall2 in Cv; [|congruence].
  eapply Forall2_impl_r; [|exact Ibmiu|exact Cv].
  intros g m [Hm0 _] Hgm. cbn [rdiv exact_rops] in Hgm. fold ro in Hgm.
  split; [exact Hgm|]. apply complementarity_pair; assumption.
Qed.

(* ================================================================================================ *)
(* solver_penalty_t::minimize                                                                       *)
(* ================================================================================================ *)
(* the best state is always a state of the ORIGINAL function; its point is the start or a usable inner solution *)
Lemma ps_step_point : forall R orig P s e,
  q_eval s = orig (q_x s) ->
  q_eval (ps_step R orig P s e) = orig (q_x (ps_step R orig P s e)) /\
  (q_x (ps_step R orig P s e) = q_x s \/ (pe_ok e = true /\ q_x (ps_step R orig P s e) = pe_x e)).
Proof.
  intros R orig P s e H. unfold ps_step, src_ps_skip.
  destruct (pe_ok e) eqn:Eok; cbn [negb].
  - destruct (src_done_stop _ _); cbn; auto.
  - cbn. auto.
Qed.

Definition ps_visited (x0 : vec) (es : list ps_event) (x : vec) : Prop :=
  x = x0 \/ exists e, In e es /\ pe_ok e = true /\ x = pe_x e.

Record ps_inv (R : rops) (orig : vec -> oeval) (P : ps_params) (x0 : vec) (es : list ps_event) (s : ps_state) : Prop :=
  mkpsinv {
    pi_eval : q_eval s = orig (q_x s);
    pi_point : ps_visited x0 es (q_x s);
    pi_run : q_stopped s = false -> q_status s = MaxIters;
    pi_conv : q_status s = Converged ->
              q_stopped s = true /\ oe_valid (q_eval s) = true /\
              exists e bx, In e es /\ pe_ok e = true /\ q_x s = pe_x e /\ ps_visited x0 es bx /\
                           dx_converged R (ps_eps P) bx (pe_x e) = true;
    pi_fail : q_status s = Failed -> q_stopped s = true /\ oe_valid (q_eval s) = false }.

Lemma status_of_Z_failed : forall conv ok, status_of_Z (src_done_status conv ok) = Failed -> conv && ok = false.
Proof. intros [|] [|]; unfold src_done_status, status_of_Z; simpl; try reflexivity; discriminate. Qed.
Lemma status_of_Z_converged2 : forall conv ok, status_of_Z (src_done_status conv ok) = Converged -> conv = true /\ ok = true.
Proof. intros [|] [|]; unfold src_done_status, status_of_Z; simpl; try (split; reflexivity); discriminate. Qed.
Lemma status_of_Z_not_maxiters : forall conv ok, status_of_Z (src_done_status conv ok) <> MaxIters.
Proof. intros [|] [|]; unfold src_done_status, status_of_Z; simpl; discriminate. Qed.

Lemma ps_step_inv : forall R orig P x0 es s e,
  In e es -> q_stopped s = false -> ps_inv R orig P x0 es s -> ps_inv R orig P x0 es (ps_step R orig P s e).
Proof.
  intros R orig P x0 es s e Hin Hrun [Ie Ip Ir Ic If].
  destruct (ps_step_point R orig P s e Ie) as [He Hp].
  assert (Hv : ps_visited x0 es (q_x (ps_step R orig P s e))).
  { destruct Hp as [Hp | [Hok Hp]]; rewrite Hp; [exact Ip|]. right. exists e. auto. }
  revert He Hp Hv. unfold ps_step, src_ps_skip, src_ps_converged, src_done_stop, src_done_step_ok.
  destruct (pe_ok e) eqn:Eok; cbn [negb andb].
  - destruct (dx_converged R (ps_eps P) (q_x s) (pe_x e) || negb (oe_valid (orig (pe_x e)))) eqn:Estop;
      intros He Hp Hv; constructor; cbn in *; auto; try discriminate.
    + intros Hs. apply status_of_Z_converged2 in Hs. destruct Hs as [Hc Hval].
      split; [reflexivity|]. split; [exact Hval|]. exists e, (q_x s). auto 10.
    + intros Hs. apply status_of_Z_failed in Hs. split; [reflexivity|].
      destruct (dx_converged R (ps_eps P) (q_x s) (pe_x e)); cbn in *; [exact Hs|].
      destruct (oe_valid (orig (pe_x e))); [discriminate | reflexivity].
  - intros He Hp Hv; constructor; cbn in *; auto; discriminate.
Qed.

Lemma ps_run_inv : forall R orig P x0 es es2 s,
  incl es2 es -> ps_inv R orig P x0 es s -> ps_inv R orig P x0 es (ps_run R orig P s es2).
Proof.
  intros R orig P x0 es. induction es2 as [|e es2 IH]; intros s Hi I; simpl; [exact I|].
  destruct (negb (q_stopped s)) eqn:En; cbn [andb]; [|exact I].
  destruct (src_ps_loop (q_outer s) (ps_max_outers P)); [|exact I].
  apply IH; [intros a Ha; apply Hi; right; exact Ha|].
  apply ps_step_inv; [apply Hi; left; reflexivity | apply negb_true_iff; exact En | exact I].
Qed.

Theorem pen_returned_and_status : forall R orig P x0 es,
  let s := ps_run R orig P (ps_init orig P x0) es in
  q_eval s = orig (q_x s) /\
  (q_x s = x0 \/ exists e, In e es /\ pe_ok e = true /\ q_x s = pe_x e) /\
  (q_stopped s = false -> q_status s = MaxIters) /\
  (q_status s = Converged ->
     q_stopped s = true /\ oe_valid (q_eval s) = true /\
     exists e bx, In e es /\ pe_ok e = true /\ q_x s = pe_x e /\
                  (bx = x0 \/ exists e', In e' es /\ pe_ok e' = true /\ bx = pe_x e') /\
                  dx_converged R (ps_eps P) bx (pe_x e) = true) /\
  (q_status s = Failed -> q_stopped s = true /\ oe_valid (q_eval s) = false).
Proof.
  intros R orig P x0 es s.
  assert (I0 : ps_inv R orig P x0 es (ps_init orig P x0)).
  { constructor; cbn; auto; try discriminate. left; reflexivity. }
  destruct (ps_run_inv R orig P x0 es es _ (incl_refl es) I0) as [Ie Ip Ir Ic If].
  split; [exact Ie|]. split; [exact Ip|]. split; [exact Ir|]. split; [exact Ic | exact If].
Qed.

(* the penalty sequence: the k-th inner solve uses penalty0 * eta^k; at most max_outer_iters inner solves *)
Fixpoint pow_trace (p0 eta : Q) (n : nat) : list Q :=
  match n with O => [] | S n' => p0 * qpow eta n' :: pow_trace p0 eta n' end.

Record seq_inv (P : ps_params) (s : ps_state) : Prop := mkseqinv {
  si_outer : (0 <= q_outer s)%Z;
  si_penalty : q_penalty s == ps_penalty0 P * qpow (ps_eta P) (Z.to_nat (q_outer s));
  si_trace : Forall2 Qeq (q_trace s) (pow_trace (ps_penalty0 P) (ps_eta P) (length (q_trace s)));
  si_len : length (q_trace s) = (Z.to_nat (q_outer s) + (if q_stopped s then 1 else 0))%nat;
  si_bound : (Z.of_nat (length (q_trace s)) <= Z.max 0 (ps_max_outers P))%Z;
  si_eps : exists j, (j <= Z.to_nat (q_outer s))%nat /\ q_inner_eps s == ps_eps0 P * qpow (ps_epsK P) j }.

Lemma ps_step_seq_inv : forall orig P s e,
  q_stopped s = false -> src_ps_loop (q_outer s) (ps_max_outers P) = true ->
  seq_inv P s -> seq_inv P (ps_step exact_rops orig P s e).
Proof.
  intros orig P s e Hrun Hloop [Io Ipen Itr Ilen Ib [j [Hj Ie]]].
  unfold src_ps_loop in Hloop. apply Z.ltb_lt in Hloop.
  rewrite Hrun in Ilen. rewrite Nat.add_0_r in Ilen.
  assert (Htr : Forall2 Qeq (q_penalty s :: q_trace s)
                        (pow_trace (ps_penalty0 P) (ps_eta P) (length (q_penalty s :: q_trace s)))).
  { cbn [length pow_trace]. constructor; [rewrite Ilen; exact Ipen | exact Itr]. }
  assert (Hsucc : Z.to_nat (q_outer s + 1) = S (Z.to_nat (q_outer s))) by lia.
  unfold ps_step.
  destruct (src_ps_skip (pe_ok e)); [|destruct (src_done_stop _ _)]; constructor; cbn [q_outer q_penalty q_trace q_stopped q_inner_eps];
    try lia; try exact Htr; cbn [length]; try (rewrite Ilen; lia).
  - rewrite Hsucc. cbn [rmul exact_rops qpow]. rewrite Ipen. ring.
  - exists j. split; [lia | exact Ie].
  - exact Ipen.
  - exists j. split; [lia | exact Ie].
  - rewrite Hsucc. cbn [rmul exact_rops qpow]. rewrite Ipen. ring.
  - exists (S j). split; [lia | cbn [rmul exact_rops qpow]; rewrite Ie; ring].
Qed.

Lemma ps_run_seq_inv : forall orig P es s, seq_inv P s -> seq_inv P (ps_run exact_rops orig P s es).
Proof.
  intros orig P. induction es as [|e es IH]; intros s I; simpl; [exact I|].
  destruct (negb (q_stopped s)) eqn:En; cbn [andb]; [|exact I].
  destruct (src_ps_loop (q_outer s) (ps_max_outers P)) eqn:El; [|exact I].
  apply IH. apply ps_step_seq_inv; auto. apply negb_true_iff. exact En.
Qed.

Theorem pen_penalty_sequence : forall orig P x0 es,
  let s := ps_run exact_rops orig P (ps_init orig P x0) es in
  Forall2 Qeq (q_trace s) (pow_trace (ps_penalty0 P) (ps_eta P) (length (q_trace s))) /\
  (Z.of_nat (length (q_trace s)) <= Z.max 0 (ps_max_outers P))%Z /\
  length (q_trace s) = (Z.to_nat (q_outer s) + (if q_stopped s then 1 else 0))%nat /\
  q_penalty s == ps_penalty0 P * qpow (ps_eta P) (Z.to_nat (q_outer s)) /\
  (exists j, (j <= Z.to_nat (q_outer s))%nat /\ q_inner_eps s == ps_eps0 P * qpow (ps_epsK P) j).
Proof.
  intros orig P x0 es s.
  assert (I0 : seq_inv P (ps_init orig P x0)).
  { constructor; cbn; try lia; try constructor; try ring. exists O. split; [lia | cbn; ring]. }
  destruct (ps_run_seq_inv orig P es _ I0) as [Io Ipen Itr Ilen Ib Ie]. repeat split; assumption.
Qed.

(* `converged` of a penalty solver does NOT imply feasibility: min x^2 s.t. x = 1 with the quadratic penalty at
   penalty0 = 10; the inner solver returns the exact minimiser 10/11 of x^2 + 10 (x-1)^2 from x0 = 10/11:
   dx = 0 < eps, status `converged`, h = -1/11 *)
Theorem pen_converged_feasible_refuted :
  exists (orig : vec -> oeval) P x0 es,
    let s := ps_run exact_rops orig P (ps_init orig P x0) es in
    q_status s = Converged /\ ~ feasible_within (ps_eps P) (oe_ceq (q_eval s)) (oe_cineq (q_eval s)).
Proof.
  exists (fun x => mkoeval (hd 0 x * hd 0 x) [hd 0 x - 1] [] true),
         (mkps (1 # 1000000) 5 10 (1 # 1000000) (1 # 2) 20), [10 # 11], [mkpse [10 # 11] true].
  cbv zeta. split; [vm_compute; reflexivity|].
  intros [H _]. vm_compute in H. inversion H as [|? ? Hh _]; subst. vm_compute in Hh. apply Hh. reflexivity.
Qed.

(* ---- classical facts about the penalised problems ---------------------------------------------------------------- *)
(* exactness of the linear penalty: a feasible minimiser of the penalised function minimises f over the feasible set *)
Theorem pen_linear_exact : forall fobj cs rho x,
  feasible (evals cs x) ->
  (forall y, fst (linear_penalty_at fobj cs rho x) <= fst (linear_penalty_at fobj cs rho y)) ->
  forall y, feasible (evals cs y) -> fst (fobj x) <= fst (fobj y).
Proof.
  intros fobj cs rho x Hx Hmin y Hy. specialize (Hmin y). unfold linear_penalty_at in Hmin.
  destruct (feasible_coincide rho [] [] (fobj x) (evals cs x) Hx) as [Ex _]; try constructor.
  destruct (feasible_coincide rho [] [] (fobj y) (evals cs y) Hy) as [Ey _]; try constructor.
  rewrite Ex, Ey in Hmin. exact Hmin.
Qed.

(* Fiacco-McCormick: the violation of the quadratic penalty's minimisers is monotone in the penalty *)
Definition violation2 (es : list cev) : Q :=
  qsum (map (fun e => ce_val e * ce_val e) (eqs es)) +
  qsum (map (fun e => qmax 0 (ce_val e) * qmax 0 (ce_val e)) (ineqs es)).

Lemma quadratic_penalty_value : forall fobj cs rho x,
  fst (quadratic_penalty_at fobj cs rho x) == fst (fobj x) + rho * violation2 (evals cs x).
Proof.
  intros. unfold quadratic_penalty_at, violation2.
  destruct (defs_quadratic rho (fobj x) (evals cs x)) as [H _]. rewrite H. ring.
Qed.

Theorem pen_quadratic_monotone : forall fobj cs r1 r2 x1 x2,
  0 <= r1 -> r1 < r2 ->
  fst (quadratic_penalty_at fobj cs r1 x1) <= fst (quadratic_penalty_at fobj cs r1 x2) ->
  fst (quadratic_penalty_at fobj cs r2 x2) <= fst (quadratic_penalty_at fobj cs r2 x1) ->
  violation2 (evals cs x2) <= violation2 (evals cs x1) /\ fst (fobj x1) <= fst (fobj x2).
Proof.
  intros fobj cs r1 r2 x1 x2 H0 Hlt M1 M2.
  rewrite !quadratic_penalty_value in M1, M2.
  revert M1 M2. generalize (violation2 (evals cs x1)) (violation2 (evals cs x2)) (fst (fobj x1)) (fst (fobj x2)).
  intros v1 v2 f1 f2 M1 M2.
  assert (Hv : v2 <= v1) by nra. split; [exact Hv | nra].
Qed.

(* ================================================================================================ *)
(* what the clamps do: the next multipliers are the projections of lambda+ / miu+ onto the boxes    *)
(* ================================================================================================ *)
Lemma map_map2 : forall (A B C D : Type) (g : C -> D) (f : A -> B -> C) l1 l2,
  map g (map2 f l1 l2) = map2 (fun a b => g (f a b)) l1 l2.
Proof. intros A B C D g f. induction l1 as [|a l1 IH]; intros [|b l2]; simpl; f_equal; auto. Qed.

Lemma Forall2_map2_Qeq : forall (f g : Q -> Q -> Q) l1 l2,
  (forall a b, f a b == g a b) -> Forall2 Qeq (map2 f l1 l2) (map2 g l1 l2).
Proof. intros f g. induction l1 as [|a l1 IH]; intros [|b l2] H; simpl; constructor; auto. Qed.

Lemma qmax_comm0 : forall v, qmax v 0 == qmax 0 v.
Proof. intros v. unfold qmax. qcase v 0; qcase 0 v; lra. Qed.

Lemma qmin_compat_l : forall a b c, a == b -> qmin a c == qmin b c.
Proof. intros a b c H. unfold qmin. qcase a c; qcase b c; lra. Qed.

Theorem al_update_clamped : forall P s e,
  let c := o_core s in
  let s' := alo_step exact_rops P s e in
  s_stopped (o_core s') = false ->
  s_lambda (o_core s') = map (fun v => qmin (qmax v (p_lmin P)) (p_lmax P)) (next_lambda (s_ro c) (s_lambda c) (e_ceq e)) /\
  Forall2 Qeq (s_miu (o_core s')) (map (fun v => qmin v (p_miu_max P)) (next_miu (s_ro c) (s_miu c) (e_cineq e))) /\
  (s_outer (o_core s') = s_outer c + 1)%Z.
Proof.
  intros P s e c s'. unfold s', alo_step. cbn [o_core]. unfold al_step.
  change (e_ceq (alo_event exact_rops P s e)) with (e_ceq e).
  change (e_cineq (alo_event exact_rops P s e)) with (e_cineq e).
  destruct (src_done_stop _ _); cbn [s_stopped s_lambda s_miu s_outer]; [discriminate|]. intros _.
  unfold next_lambda, next_miu. rewrite !map_map2. fold c. cbn [radd rmul exact_rops].
  split; [reflexivity|]. split; [|reflexivity].
  apply Forall2_map2_Qeq. intros a b. apply qmin_compat_l. apply qmax_comm0.
Qed.
